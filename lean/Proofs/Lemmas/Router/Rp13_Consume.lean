/-
C14 (isolation): packets other than SUBSCRIBE / UNSUBSCRIBE, last wills, shadow requests, sweeps and
`consume` keep every connection with its client id and its subscriptions (`EStep` / `EConn`).
-/
import Proofs.Lemmas.Router.Rp13_Steps
namespace Router
open Router.Rp3

theorem nextNativeOffset_estep (s : RState) (filter : String) : EStep s (nextNativeOffset s filter).1 := by
  unfold nextNativeOffset
  split
  · exact EStep.refl s
  · exact ⟨EConn.of_conns rfl, rfl⟩

theorem handlePacket_estep {s s' : RState} {id : Nat} {cid : String} {pkt : Packet} {fl fl' : Flags}
    (hns : ∀ a b c, pkt ≠ .subscribe a b c) (hnu : ∀ a b, pkt ≠ .unsubscribe a b)
    (h : handlePacket s id cid pkt fl = .ok (s', fl')) : EStep s s' := by
  cases pkt with
  | publish p =>
    rw [handlePacket_publish] at h
    split at h
    · simp at h
    · rename_i s1 fl1 h1
      simp only [Except.ok.injEq, Prod.mk.injEq] at h; obtain ⟨rfl, _⟩ := h
      exact hpPre_estep h1
    · rename_i s1 fl1 h1
      have a := hpPre_estep h1
      split at h
      · simp at h
      all_goals
        rename_i h2
        simp only [Except.ok.injEq, Prod.mk.injEq] at h; obtain ⟨rfl, _⟩ := h
        exact a.trans (appendToCommitlog_estep h2)
  | subscribe pkid subId filters => exact absurd rfl (hns pkid subId filters)
  | unsubscribe pkid filters => exact absurd rfl (hnu pkid filters)
  | puback pkid =>
    simp only [handlePacket] at h
    split at h
    · simp at h
    · rename_i c hc
      have a : EStep s (setConn s id { c with out := (c.out.registerAck pkid).1 }) :=
        EStep.of_set (c' := { c with out := (c.out.registerAck pkid).1 }) hc rfl rfl rfl rfl rfl rfl rfl
      split at h
      · simp only [Except.ok.injEq, Prod.mk.injEq] at h; obtain ⟨rfl, _⟩ := h; exact a
      · split at h
        · simp at h
        · rename_i s2 h2
          simp only [Except.ok.injEq, Prod.mk.injEq] at h; obtain ⟨rfl, _⟩ := h
          have a' : EStep s ((setConn s id { c with out := (c.out.registerAck pkid).1 }).g (.clientAcked id pkid)) :=
            a.trans (EStep.of_conns rfl rfl rfl rfl rfl)
          exact a'.trans (reschedule_estep h2)
  | pubrec pkid =>
    simp only [handlePacket] at h
    split at h
    · simp at h
    · rename_i c hc
      split at h
      · simp only [Except.ok.injEq, Prod.mk.injEq] at h; obtain ⟨rfl, _⟩ := h
        exact EStep.of_set (c' := { c with out := (c.out.registerAck pkid).1 }) hc rfl rfl rfl rfl rfl rfl rfl
      · split at h
        · simp at h
        · rename_i s2 h2
          simp only [Except.ok.injEq, Prod.mk.injEq] at h; obtain ⟨rfl, _⟩ := h
          refine EStep.trans ?_ (reschedule_estep h2)
          exact EStep.of_set (c' := { c with out := _, acks := _ }) hc rfl rfl rfl rfl rfl rfl rfl
  | pubrel pkid hp =>
    simp only [handlePacket] at h
    split at h
    · simp at h
    · rename_i c hc
      split at h
      · simp only [Except.ok.injEq, Prod.mk.injEq] at h; obtain ⟨rfl, _⟩ := h
        exact EStep.of_set (c' := { c with acks := _ }) hc rfl rfl rfl rfl rfl rfl rfl
      · rename_i p rest hrec
        have a : EStep s ((setConn s id { c with acks := { committed := c.acks.committed ++ [Ack.pubcomp pkid], recorded := rest } }).g
            (.committed id (.pubcomp pkid))) :=
          EStep.of_set (c' := { c with acks := _ }) hc rfl rfl rfl rfl rfl rfl rfl
        split at h
        · simp at h
        · rename_i h2
          simp only [Except.ok.injEq, Prod.mk.injEq] at h; obtain ⟨rfl, _⟩ := h
          exact a.trans (appendToCommitlog_estep h2)
        · rename_i s2 h2
          split at h
          · simp at h
          · rename_i s3 h3
            simp only [Except.ok.injEq, Prod.mk.injEq] at h; obtain ⟨rfl, _⟩ := h
            exact (a.trans (appendToCommitlog_estep h2)).trans (reschedule_estep h3)
  | pubcomp pkid =>
    simp only [handlePacket] at h
    split at h
    · simp at h
    · rename_i c hc
      have a : EStep s (setConn s id { c with out := (c.out.registerPubcomp pkid).1 }) :=
        EStep.of_set (c' := { c with out := _ }) hc rfl rfl rfl rfl rfl rfl rfl
      split at h
      all_goals
        simp only [Except.ok.injEq, Prod.mk.injEq] at h; obtain ⟨rfl, _⟩ := h; exact a
  | pingreq =>
    simp only [handlePacket] at h
    split at h
    · simp at h
    · rename_i s1 h1
      simp only [Except.ok.injEq, Prod.mk.injEq] at h; obtain ⟨rfl, _⟩ := h
      exact commitAck_estep h1
  | disconnect =>
    simp only [handlePacket, Except.ok.injEq, Prod.mk.injEq] at h; obtain ⟨rfl, _⟩ := h
    exact EStep.of_conns rfl rfl rfl rfl rfl
  | other =>
    simp only [handlePacket, Except.ok.injEq, Prod.mk.injEq] at h; obtain ⟨rfl, _⟩ := h
    exact EStep.refl _

theorem handleLastWill_estep {s s' : RState} {cid : String} (h : handleLastWill s cid = .ok s') : EStep s s' := by
  unfold handleLastWill at h
  split at h
  · simp only [Except.ok.injEq] at h; subst h; exact EStep.refl _
  · simp only [] at h
    have r0 : EStep s (({ s with lastWills := aremove cid s.lastWills } : RState).g (.willFired cid)) :=
      EStep.of_conns rfl rfl rfl rfl rfl
    split at h
    · simp only [Except.ok.injEq] at h; subst h; exact r0
    · rename_i topic ht
      split at h
      · simp at h
      · rename_i s2 idxs h2
        split at h
        · simp at h
        · rename_i s3 h3
          refine EStep.trans ?_ (drain_all_estep h)
          refine (EStep.trans ?_ (dlMatches_estep h2)).trans (appendToFilters_estep idxs h3)
          exact (r0.trans (updateRetained_estep _ _ _)).trans (EStep.of_conns rfl rfl rfl rfl rfl)

theorem handleShadow_estep {s s' : RState} {id : Nat} {f : String} (h : handleShadow s id f = .ok s') : EStep s s' := by
  have hc := handleShadow_core h
  unfold handleShadow at h
  split at h
  · simp only [Except.ok.injEq] at h; subst h; exact EStep.refl _
  · split at h
    · simp only [Except.ok.injEq] at h; subst h; exact EStep.refl _
    · split at h
      · simp only [Except.ok.injEq] at h; subst h; exact EStep.refl _
      · simp only [Except.ok.injEq] at h; subst h
        refine EStep.of_conns hc.1 ?_ ?_ ?_ ?_ <;> (simp only [wakeLink]; split <;> rfl)


/-- the push phase of a sweep: connections keep identity and subscriptions; group entries keep key and clients -/
theorem fdPush_econn {s0 s1 : RState} {id : Nat} {c : Conn} {req' req1 : DataRequest} {grp : Option SharedGroup}
    {pubs : List (Pub × Option Cursor)} {cu : Bool} {st : ConsumeStatus} (hc0 : getConn s0 id = some c)
    (h : fdPush s0 id c req' grp pubs cu = .ok (s1, req1, st)) :
    EConn s0 s1 ∧ ∀ p' ∈ s1.shared, ∃ p ∈ s0.shared, p.1 = p'.1 ∧ p'.2.clients = p.2.clients := by
  unfold fdPush at h
  simp only [] at h
  split at h
  · simp at h
  · rename_i s3 h3
    have b : EStep s0 (pushNotifs (setConn s0 id { c with out := (fdOut c req' pubs).1, brokerAliases := (fdAliases c req'.filter).1 })
        c.link (fdOut c req' pubs).2) :=
      EStep.of_setc (c' := { c with out := (fdOut c req' pubs).1, brokerAliases := (fdAliases c req'.filter).1 }) hc0 rfl rfl rfl rfl rfl rfl
    have key : EConn s0 s3 ∧ ∀ p' ∈ s3.shared, ∃ p ∈ s0.shared, p.1 = p'.1 ∧ p'.2.clients = p.2.clients := by
      unfold fdGroupUpd at h3
      split at h3
      · rename_i _ _ gname gv hgn
        split at h3
        · simp only [Except.ok.injEq] at h3; subst h3
          exact ⟨b.conn, fun p' hp' => ⟨p', by rw [← b.shared]; exact hp', rfl, rfl⟩⟩
        · rename_i g hg
          split at h3
          · simp at h3
          · rename_i s4 g2 hu
            simp only [Except.ok.injEq] at h3; subst h3
            have hu' := updateNextClient_estep hu
            obtain ⟨_, ucl, _⟩ := updateNextClient_spec hu
            refine ⟨b.conn.trans (hu'.conn.trans (EConn.of_conns rfl)), fun p' hp' => ?_⟩
            have hp'' : p' ∈ ainsert gname { g2 with cursor := req'.cursor } s4.shared := hp'
            rw [hu'.shared, b.shared] at hp''
            rcases mem_ainsert hp'' with h0 | rfl
            · exact ⟨p', h0, rfl, rfl⟩
            · exact ⟨(gname, g), by rw [← b.shared]; exact mem_of_alookup hg, rfl, ucl⟩
      · simp only [Except.ok.injEq] at h3; subst h3
        exact ⟨b.conn, fun p' hp' => ⟨p', by rw [← b.shared]; exact hp', rfl, rfl⟩⟩
    obtain ⟨m3, e3⟩ := key
    split at h
    all_goals
      simp only [Except.ok.injEq, Prod.mk.injEq] at h; obtain ⟨rfl, _, _⟩ := h
      exact ⟨m3.trans (EConn.of_conns rfl), e3⟩

theorem forwardDeviceData_econn {s s1 : RState} {id : Nat} {req req1 : DataRequest} {st : ConsumeStatus}
    (hf : forwardDeviceData s id req = .ok (s1, req1, st)) :
    EConn s s1 ∧ ∀ p' ∈ s1.shared, ∃ p ∈ s.shared, p.1 = p'.1 ∧ p'.2.clients = p.2.clients := by
  obtain ⟨c, hc⟩ : ∃ c, getConn s id = some c := by
    cases hg : getConn s id with
    | none => rw [Router.forwardDeviceData_eq, hg] at hf; simp at hf
    | some c => exact ⟨c, rfl⟩
  have same : ∀ {x : RState}, EStep s x → EConn s x ∧ ∀ p' ∈ x.shared, ∃ p ∈ s.shared, p.1 = p'.1 ∧ p'.2.clients = p.2.clients :=
    fun m => ⟨m.conn, fun p' hp' => ⟨p', by rw [← m.shared]; exact hp', rfl, rfl⟩⟩
  rcases sweep_branches hc hf with ⟨rfl, _⟩ | ⟨_, s0, rp, slots, fd, h0, _, hcase⟩
  · exact same (EStep.refl _)
  · have a := fdRetained_estep h0
    have hc0 : getConn s0 id = some c := by rw [(fdRetained_only_oracle h0).1]; exact hc
    rcases hcase with ⟨_, rfl, _⟩ | ⟨_, _, _, rfl, _⟩ | ⟨_, hp⟩
    · exact same a
    · exact same a
    · obtain ⟨m, e⟩ := fdPush_econn hc0 hp
      refine ⟨a.conn.trans m, fun p' hp' => ?_⟩
      obtain ⟨p, hp0, e1, e2⟩ := e p' hp'
      exact ⟨p, by rw [← a.shared]; exact hp0, e1, e2⟩

theorem consumeLoop_econn {id : Nat} : ∀ (fuel : Nat) {s s' : RState} {requests skipped : List DataRequest},
    consumeLoop s id fuel requests skipped = .ok s' → EConn s s'
  | 0, s, s', requests, skipped, hc => by
    simp only [consumeLoop] at hc
    exact (trackv_estep hc).conn
  | fuel + 1, s, s', requests, skipped, hc => by
    cases requests with
    | nil =>
      simp only [consumeLoop] at hc
      split at hc
      · simp at hc
      · rename_i s1 h1
        have a : EStep s s1 := by
          split at h1
          · exact pause_estep h1
          · simp only [Except.ok.injEq] at h1; subst h1; exact EStep.refl _
        exact (a.trans (trackv_estep hc)).conn
    | cons req rest =>
      simp only [consumeLoop] at hc
      split at hc
      · simp at hc
      · rename_i s1 req1 st h1
        obtain ⟨m1, _⟩ := forwardDeviceData_econn h1
        have h2 : EConn s (noteTurn s s1 req1) := m1.trans (noteTurn_estep s s1 req1).conn
        split at hc
        · split at hc
          · simp at hc
          · rename_i s3 h3
            exact h2.trans ((pause_estep h3).trans (trackv_estep hc)).conn
        · split at hc
          · simp at hc
          · rename_i s3 h3
            exact h2.trans ((pause_estep h3).trans (trackv_estep hc)).conn
        · split at hc
          · simp at hc
          · rename_i s3 h3
            have m3 : EConn (noteTurn s s1 req1) s3 := by
              unfold park at h3
              split at h3
              · simp at h3
              · simp only [Except.ok.injEq] at h3; subst h3; exact EConn.of_conns rfl
            exact (h2.trans m3).trans (consumeLoop_econn fuel hc)
        · exact h2.trans (consumeLoop_econn fuel hc)
        · exact h2.trans (consumeLoop_econn fuel hc)

theorem wakeTurnMoved_estep {s s' : RState} (h : wakeTurnMoved s = .ok s') : EStep s s' :=
  (⟨EConn.of_conns rfl, rfl⟩ : EStep s { s with turnMoved := [] }).trans (wakeParked_estep h)

/-- `consume` keeps every connection, its client id and its subscriptions -/
theorem consume_econn {s s' : RState} {b : Bool} (hc : consume s = .ok (s', b)) : EConn s s' := by
  unfold consume at hc
  split at hc
  · simp only [Except.ok.injEq, Prod.mk.injEq] at hc; obtain ⟨rfl, _⟩ := hc
    exact EConn.of_conns rfl
  · rename_i id rq hrq
    simp only [] at hc
    split at hc
    · simp only [Except.ok.injEq, Prod.mk.injEq] at hc; obtain ⟨rfl, _⟩ := hc
      exact EConn.of_conns rfl
    · rename_i c hcn
      split at hc
      · simp at hc
      · rename_i s1 h1
        split at hc
        · simp at hc
        · rename_i s2 h2
          simp only [Except.ok.injEq, Prod.mk.injEq] at hc; obtain ⟨rfl, _⟩ := hc
          have hcn' : getConn s id = some c := hcn
          have la : EStep s ({ setConn { s with readyqueue := rq } id { c with tracker := { c.tracker with requests := [] } }
              with readyqueue := (setConn { s with readyqueue := rq } id { c with tracker := { c.tracker with requests := [] } }).readyqueue ++ [id] } : RState) :=
            EStep.of_setc (c' := { c with tracker := { c.tracker with requests := [] } }) hcn' rfl rfl rfl rfl rfl rfl
          exact ((la.trans (ackDeviceData_estep _ id)).conn.trans (consumeLoop_econn _ h1)).trans (wakeTurnMoved_estep h2).conn

end Router
