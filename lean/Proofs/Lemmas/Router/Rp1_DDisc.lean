/-
C03: `handle_disconnection` keeps `DInv` (given that no notification is pending): `DataLog::clean`
removes every waiter of the closed connection, the saved tracker holds valid requests and is
`Paused(Busy)`, groups that lose their last member are dropped.
-/
import Proofs.Lemmas.Router.Rp1_DPayload
namespace Router
variable {A : String → Prop}

theorem swapRemoveBack_length {α : Type} {l : List α} {i : Nat} (hl : l ≠ []) :
    (swapRemoveBack l i).length = l.length - 1 := by
  unfold swapRemoveBack
  split
  · rename_i hn; exact absurd (List.getLast?_eq_none_iff.mp hn) hl
  · split <;> simp

/-- `Waiters::remove`: what is left is part of the original, holds no entry of `id` when the fuel
    suffices, and every collected request came from an original entry -/
theorem waitersRemove_spec (id : Nat) : ∀ (fuel : Nat) (ws : List (Nat × DataRequest)) (acc : List DataRequest),
    (∀ w ∈ (waitersRemove fuel ws id acc).1, w ∈ ws) ∧
    (ws.length < fuel → ∀ w ∈ (waitersRemove fuel ws id acc).1, w.1 ≠ id) ∧
    (∀ r ∈ (waitersRemove fuel ws id acc).2, r ∈ acc ∨ ∃ w ∈ ws, w.2 = r)
  | 0, ws, acc => by
    simp only [waitersRemove]
    exact ⟨fun w h => h, fun h => by omega, fun r h => .inl h⟩
  | fuel + 1, ws, acc => by
    simp only [waitersRemove]
    split
    · rename_i hnone
      refine ⟨fun w h => h, fun _ w hw e => ?_, fun r h => .inl h⟩
      have := List.findIdx?_eq_none_iff.mp hnone w hw
      simp [e] at this
    · rename_i i hi
      obtain ⟨hlt, hp, _⟩ := List.findIdx?_eq_some_iff_getElem.mp hi
      rw [List.getElem?_eq_getElem hlt]
      simp only []
      have hne : ws ≠ [] := fun e => by subst e; simp at hlt
      obtain ⟨a, b, c⟩ := waitersRemove_spec id fuel (swapRemoveBack ws i) (acc ++ [ws[i].2])
      refine ⟨fun w hw => mem_swapRemoveBack (a w hw), fun hf => b (by rw [swapRemoveBack_length hne]; omega), fun r hr => ?_⟩
      rcases c r hr with h | ⟨w, hw, e⟩
      · rcases List.mem_append.mp h with h | h
        · exact .inl h
        · simp only [List.mem_singleton] at h
          exact .inr ⟨ws[i], List.getElem_mem hlt, h.symm⟩
      · exact .inr ⟨w, mem_swapRemoveBack hw, e⟩

/-- `DataLog::clean` as a map over the filter logs -/
def cleanFd (id : Nat) (fd : FilterData) : FilterData :=
  { fd with waiters := (waitersRemove (fd.waiters.length + 1) fd.waiters id []).1 }

theorem datalogClean_fold (id : Nat) : ∀ (l : List FilterData) (acc : DataLog × List DataRequest),
    (l.foldl (fun (acc : DataLog × List DataRequest) fd =>
      let (ws, rs) := waitersRemove (fd.waiters.length + 1) fd.waiters id []
      ({ acc.1 with native := acc.1.native ++ [{ fd with waiters := ws }] }, acc.2 ++ rs)) acc) =
    ({ acc.1 with native := acc.1.native ++ l.map (cleanFd id) },
      acc.2 ++ l.flatMap (fun fd => (waitersRemove (fd.waiters.length + 1) fd.waiters id []).2))
  | [], acc => by simp
  | fd :: l, acc => by
    simp only [List.foldl_cons, List.map_cons, List.flatMap_cons]
    rw [datalogClean_fold id l]
    simp [cleanFd, List.append_assoc]

theorem datalogClean_eq (d : DataLog) (id : Nat) :
    datalogClean d id = ({ d with native := d.native.map (cleanFd id) },
      d.native.flatMap (fun fd => (waitersRemove (fd.waiters.length + 1) fd.waiters id []).2)) := by
  unfold datalogClean
  rw [datalogClean_fold]
  simp

theorem rewindRequests_spec (retx : List (Nat × Cursor)) : ∀ (rs : List DataRequest)
    (sh : List (String × SharedGroup)) (acc : List DataRequest) (n : Nat),
    (∀ p ∈ sh, p.2.clients ≠ []) → ReqsOK n acc → ReqsOK n rs →
    (∀ p ∈ (rewindRequests sh retx rs acc).1, p.2.clients ≠ []) ∧ ReqsOK n (rewindRequests sh retx rs acc).2
  | [], sh, acc, n, hs, ha, _ => by simp only [rewindRequests]; exact ⟨hs, ha⟩
  | r :: rest, sh, acc, n, hs, ha, hr => by
    obtain ⟨hr0, hrest⟩ := hr.of_cons
    simp only [rewindRequests]
    split
    · exact rewindRequests_spec retx rest sh _ n hs (ha.append (ReqsOK.cons hr0 (ReqsOK.nil _))) hrest
    · have ha' : ReqsOK n (acc ++ [{ r with cursor := ‹Cursor› }]) :=
        ha.append (ReqsOK.cons (show ({ r with cursor := _ } : DataRequest).filterIdx < n from hr0) (ReqsOK.nil _))
      split
      · exact rewindRequests_spec retx rest sh _ n hs ha' hrest
      · split
        · exact rewindRequests_spec retx rest sh _ n hs ha' hrest
        · rename_i g grp hg
          refine rewindRequests_spec retx rest _ _ n (fun p hp => ?_) ha' hrest
          rcases mem_ainsert hp with hp | rfl
          · exact hs p hp
          · show grp.clients ≠ []
            exact hs _ (mem_of_alookup hg)

theorem removeFromGroups_nonempty (sh : List (String × SharedGroup)) (cid : String) :
    ∀ p ∈ removeFromGroups sh cid, p.2.clients ≠ [] := by
  intro p hp
  unfold removeFromGroups at hp
  have := (List.mem_filter.mp hp).2
  intro e; simp [e] at this

/-- the state `handle_disconnection` has built when it wakes the parked group members -/
theorem hdFinal_dinv {s : RState} {id : Nat} {r : Option String} {c : Conn} (h : DInv s)
    (hn : s.notifications = []) (hc : getConn s id = some c) :
    DInv (hdFinal s id c r) ∧ (hdFinal s id c r).notifications = [] := by
  · unfold hdFinal
    obtain ⟨k1, _, _, _, k5, k6, k7, k8, _, _, _⟩ := hdNotify_core s c r
    -- the state after the removal
    have hclean := datalogClean_eq (hdNotify s c r).datalog id
    have hget : ∀ j, getConn (hdRemoved (hdNotify s c r) id c) j = if j = id then none else getConn s j := fun j => by
      show ((hdNotify s c r).conns.remove id).get? j = _
      rw [k1, Slab.get?_remove]; rfl
    have hN : N (hdRemoved (hdNotify s c r) id c) = N s := by
      show (datalogClean (hdNotify s c r).datalog id).1.native.length = _
      rw [hclean, k5]; simp [N]
    have hlive : ∀ j, j ≠ id → Live s j → Live (hdRemoved (hdNotify s c r) id c) j := fun j hj hl => by
      unfold Live at hl ⊢; rw [hget]; simp [hj, hl]
    have h1 : DInv (hdRemoved (hdNotify s c r) id c) := by
      refine ⟨?_, ?_, ?_, ?_, ?_, ?_, ?_⟩
      · rw [hN]; show ∀ p ∈ (datalogClean (hdNotify s c r).datalog id).1.filterIndexes, _
        rw [hclean, k5]; exact h.fidx
      · rw [hN]; show ∀ p ∈ (datalogClean (hdNotify s c r).datalog id).1.publishFilters, _
        rw [hclean, k5]; exact h.pf
      · intro j d hd'
        rw [hget] at hd'; rw [hN]
        split at hd'
        · simp at hd'
        · exact h.trk j d hd'
      · rw [hN]; show ∀ fd ∈ (datalogClean (hdNotify s c r).datalog id).1.native, _
        rw [hclean, k5]
        intro fd' hfd' w hw
        obtain ⟨fd, hfd, rfl⟩ := List.mem_map.mp hfd'
        obtain ⟨a, b, _⟩ := waitersRemove_spec id (fd.waiters.length + 1) fd.waiters []
        have hw0 := h.wt fd hfd w (a w hw)
        exact ⟨hw0.1, hlive _ (b (by omega) w hw) hw0.2⟩
      · show ∀ n ∈ (hdNotify s c r).notifications, _
        rw [k8, hn]; intro n hn'; simp at hn'
      · rw [hN]; show ∀ p ∈ (hdNotify s c r).graveyard, _
        rw [k7]; exact h.grv
      · exact removeFromGroups_nonempty _ _
    have hreqs : ReqsOK (N s) (c.tracker.requests ++ (datalogClean (hdNotify s c r).datalog id).2) := by
      refine (h.trk id c hc).append ?_
      rw [hclean, k5]
      intro q hq
      obtain ⟨fd, hfd, hq'⟩ := List.mem_flatMap.mp hq
      obtain ⟨_, _, c3⟩ := waitersRemove_spec id (fd.waiters.length + 1) fd.waiters []
      rcases c3 q hq' with hnil | ⟨w, hw, e⟩
      · simp at hnil
      · exact e ▸ (h.wt fd hfd w hw).1
    replace hreqs : ReqsOK (N s) ((c.tracker.requests ++ (datalogClean (hdNotify s c r).datalog id).2).map
        (atGroupCursor (hdNotify s c r).shared)) := fun q hq => by
      obtain ⟨q0, hq0, rfl⟩ := List.mem_map.mp hq
      rw [(atGroupCursor_fields _ _).2.1]; exact hreqs q0 hq0
    have hnt1 : (hdRemoved (hdNotify s c r) id c).notifications = [] := by
      show (hdNotify s c r).notifications = []; rw [k8, hn]
    simp only []
    split
    · obtain ⟨rs1, rs2⟩ := rewindRequests_spec (retransmissionMap c.out.inflight [])
        ((c.tracker.requests ++ (datalogClean (hdNotify s c r).datalog id).2).map (atGroupCursor (hdNotify s c r).shared))
        (hdRemoved (hdNotify s c r) id c).shared [] (N s) h1.grp (ReqsOK.nil _) hreqs
      refine ⟨?_, hnt1⟩
      refine ((h1.with_shared _ rs1).with_graveyard _ fun p hp ss hss => ?_).congr rfl rfl rfl rfl rfl rfl rfl
      rcases mem_ainsert hp with hp | rfl
      · exact h1.grv p hp ss hss
      · simp only [Option.some.injEq] at hss; subst hss
        exact ⟨fun q hq => by have := rs2 q hq; rw [← hN] at this; exact this, rfl⟩
    · refine ⟨?_, hnt1⟩
      refine (h1.with_graveyard _ fun p hp ss hss => ?_).congr rfl rfl rfl rfl rfl rfl rfl
      rcases mem_ainsert hp with hp | rfl
      · exact h1.grv p hp ss hss
      · simp at hss

/-- `handle_disconnection` reaches no panic site and keeps the invariant (no notification pending) -/
theorem handleDisconnection_good' {s : RState} {id : Nat} {r : Option String} (h : DInv s)
    (hn : s.notifications = []) :
    Good A (fun s' => DInv s' ∧ s'.notifications = []) (handleDisconnection s id r) := by
  rw [handleDisconnection_eq]
  split
  · exact ⟨h, hn⟩
  · rename_i c hc
    obtain ⟨h1, hn1⟩ := hdFinal_dinv (r := r) h hn hc
    exact (wakeParked_good h1).mono fun s' q => ⟨q.1, by rw [q.2, hn1]⟩

/-! `handle_disconnection` consults no oracle: it never ends in `badChoice` -/

theorem track_no_badChoice (s : RState) (id : Nat) (r : DataRequest) (msg : String) :
    track s id r ≠ .error (.badChoice msg) := by
  unfold track; split <;> simp

theorem reschedule_no_badChoice (s : RState) (id : Nat) (r : SchedReason) (msg : String) :
    reschedule s id r ≠ .error (.badChoice msg) := by
  unfold reschedule
  split
  · simp
  · split <;> simp

theorem drainNotifications_no_badChoice (msg : String) : ∀ (ns : List (Nat × DataRequest)) (s : RState),
    drainNotifications s ns ≠ .error (.badChoice msg)
  | [], s => by simp [drainNotifications]
  | (id, r) :: rest, s => by
    simp only [drainNotifications]
    split
    · rename_i e he
      intro h; simp only [Except.error.injEq] at h; subst h
      exact track_no_badChoice _ _ _ _ he
    · split
      · rename_i e he
        intro h; simp only [Except.error.injEq] at h; subst h
        exact reschedule_no_badChoice _ _ _ _ he
      · exact drainNotifications_no_badChoice msg rest _

theorem wakeParkedSorted_no_badChoice (msg : String) : ∀ (logs : List Nat) (s : RState),
    wakeParkedSorted s logs ≠ .error (.badChoice msg)
  | [], s => by simp [wakeParkedSorted]
  | i :: rest, s => by
    rw [wakeParkedSorted_cons]
    split
    · exact wakeParkedSorted_no_badChoice msg rest s
    · split
      · rename_i e he
        intro h; simp only [Except.error.injEq] at h; subst h
        exact drainNotifications_no_badChoice msg _ _ he
      · exact wakeParkedSorted_no_badChoice msg rest _

theorem handleDisconnection_no_badChoice (s : RState) (id : Nat) (r : Option String) (msg : String) :
    handleDisconnection s id r ≠ .error (.badChoice msg) := by
  rw [handleDisconnection_eq]
  split
  · simp
  · exact wakeParkedSorted_no_badChoice msg _ _

theorem handleDisconnection_dinv {s s' : RState} {id : Nat} {r : Option String} (h : DInv s)
    (hn : s.notifications = []) (hd : handleDisconnection s id r = .ok s') :
    DInv s' ∧ s'.notifications = [] := by
  have := handleDisconnection_good' (A := fun _ => True) (id := id) (r := r) h hn
  rw [hd] at this; exact this

end Router
