/-
C06 `qos2_forward_on_release_only`: what a PUBREL does to the recorded publishes, the filter logs
and the ghost history.
-/
import Proofs.Lemmas.Router.Rp2_Append
import Proofs.Lemmas.Router.Rp2_Acks
namespace Router

/-- the QoS 2 publishes of a connection that wait for their PUBREL, oldest first -/
def recordedOf (s : RState) (id : Nat) : Option (List Pub) := (getConn s id).map (·.acks.recorded)

theorem reschedule_data {s s' : RState} {id : Nat} {r : SchedReason} (h : reschedule s id r = .ok s') :
    s'.datalog = s.datalog ∧ s'.ghost = s.ghost ∧ s'.lastWills = s.lastWills ∧
    s'.notifications = s.notifications := by
  unfold reschedule at h
  split at h
  · simp at h
  · split at h
    · simp at h
    · simp only [Except.ok.injEq] at h; subst h; split <;> exact ⟨rfl, rfl, rfl, rfl⟩

theorem track_data {s s' : RState} {id : Nat} {r : DataRequest} (h : track s id r = .ok s') :
    s'.datalog = s.datalog ∧ s'.ghost = s.ghost ∧ s'.lastWills = s.lastWills ∧
    s'.notifications = s.notifications := by
  unfold track at h
  split at h
  · simp at h
  · simp only [Except.ok.injEq] at h; subst h; exact ⟨rfl, rfl, rfl, rfl⟩

/-- a failed `append_to_commitlog` (bad alias, malformed topic, subscription identifiers in a
    client publish) accepts nothing: logs, retained map and history are untouched -/
theorem appendToCommitlog_err {s s' : RState} {id : Nat} {p : Pub} {e : AppendErr}
    (h : appendToCommitlog s id p = .ok (s', some e)) : s'.datalog = s.datalog ∧ s'.ghost = s.ghost := by
  unfold appendToCommitlog at h
  split at h
  · simp at h
  · rename_i c hc
    simp only [] at h
    split at h
    · simp only [Except.ok.injEq, Prod.mk.injEq] at h; obtain ⟨rfl, _⟩ := h; exact ⟨rfl, rfl⟩
    · split at h
      · simp only [Except.ok.injEq, Prod.mk.injEq] at h; obtain ⟨rfl, _⟩ := h; exact ⟨rfl, rfl⟩
      · rename_i s1 p1 hr
        have f1 : s1.datalog = s.datalog ∧ s1.ghost = s.ghost := by
          split at hr
          · simp only [Except.ok.injEq, Prod.mk.injEq] at hr; obtain ⟨rfl, _⟩ := hr; exact ⟨rfl, rfl⟩
          · split at hr
            · simp at hr
            · split at hr
              · split at hr
                · simp at hr
                · simp only [Except.ok.injEq, Prod.mk.injEq] at hr; obtain ⟨rfl, _⟩ := hr; exact ⟨rfl, rfl⟩
              · split at hr
                · simp at hr
                · simp only [Except.ok.injEq, Prod.mk.injEq] at hr; obtain ⟨rfl, _⟩ := hr; exact ⟨rfl, rfl⟩
        split at h
        · simp only [Except.ok.injEq, Prod.mk.injEq] at h; obtain ⟨rfl, _⟩ := h; exact f1
        · split at h
          · simp at h
          · split at h
            · simp at h
            · simp at h

/-- `append_to_commitlog` does not touch the ack logs (committed and recorded) -/
theorem appendToCommitlog_recorded {s s' : RState} {id : Nat} {p : Pub} {e : Option AppendErr}
    (h : appendToCommitlog s id p = .ok (s', e)) (j : Nat) : recordedOf s' j = recordedOf s j := by
  have := (appendToCommitlog_frame h).conns j
  unfold recordedOf
  cases h1 : getConn s' j <;> cases h2 : getConn s j <;> simp [h1, h2, Conn.view] at this ⊢
  rw [this.1]

theorem reschedule_recorded {s s' : RState} {id : Nat} {r : SchedReason}
    (h : reschedule s id r = .ok s') (j : Nat) : recordedOf s' j = recordedOf s j := by
  have := (reschedule_frame h).conns j
  unfold recordedOf
  cases h1 : getConn s' j <;> cases h2 : getConn s j <;> simp [h1, h2, Conn.view] at this ⊢
  rw [this.1]

/-- PUBREL with nothing recorded: PUBCOMP is registered, nothing is forwarded, the connection is
    closed -/
theorem pubrel_nothing_recorded {s s' : RState} {id : Nat} {cid : String} {pkid : Nat} {fl fl' : Flags}
    {c : Conn} (hc : getConn s id = some c) (hrec : c.acks.recorded = [])
    (h : handlePacket s id cid (.pubrel pkid hp) fl = .ok (s', fl')) :
    s'.datalog = s.datalog ∧ s'.ghost = s.ghost ++ [.committed id (.pubcomp pkid)] ∧ fl'.disconnect = true := by
  unfold handlePacket at h
  simp only [hc, hrec, Except.ok.injEq, Prod.mk.injEq] at h
  obtain ⟨rfl, rfl⟩ := h
  exact ⟨rfl, rfl, rfl⟩

/-- PUBREL with recorded publishes `p :: rest`: exactly the oldest recorded publish `p` is handed
    to `append_to_commitlog`, once, and removed from the record. If the append succeeds the history
    gains exactly one `accepted` event, for `p` (alias resolved), and the `appended` events are one
    per filter index returned by `matches`; if it fails nothing is accepted. -/
theorem pubrel_forwards_oldest_recorded {s s' : RState} {id : Nat} {cid : String} {pkid : Nat} {fl fl' : Flags}
    {c : Conn} {p : Pub} {rest : List Pub} (hc : getConn s id = some c) (hrec : c.acks.recorded = p :: rest)
    (h : handlePacket s id cid (.pubrel pkid hp) fl = .ok (s', fl')) :
    recordedOf s' id = some rest ∧
    ∃ evs, s'.ghost = s.ghost ++ [.committed id (.pubcomp pkid)] ++ evs ∧
      ((fl'.disconnect = true ∧ evs = [] ∧ s'.datalog = s.datalog) ∨
       (∃ (q : Pub) (topic : String) (idxs : List Nat),
          SamePublish p q ∧ utf8? q.topic = some topic ∧
          acceptedEvents evs = [(some id, q, topic)] ∧
          appendedEvents evs = idxs.map (fun i => (i, { q with retain := false })) ∧
          (∀ j, logAt s' j = (logAt s j).map (appendN { q with retain := false } (idxs.count j))) ∧
          fl'.newData = true ∧ fl'.disconnect = fl.disconnect)) := by
  unfold handlePacket at h
  simp only [hc, hrec] at h
  have hg0 : recordedOf ((setConn s id { c with acks := { committed := c.acks.committed ++ [Ack.pubcomp pkid], recorded := rest } }).g
      (.committed id (.pubcomp pkid))) id = some rest := by
    simp [recordedOf, getConn_setConn_same _ _ _ (getConn_lt hc)]
  split at h
  · simp at h
  · rename_i s2 e hap
    simp only [Except.ok.injEq, Prod.mk.injEq] at h; obtain ⟨rfl, rfl⟩ := h
    have he := appendToCommitlog_err hap
    refine ⟨by rw [appendToCommitlog_recorded hap, hg0], [], ?_, .inl ⟨rfl, rfl, ?_⟩⟩
    · rw [he.2]; simp [RState.g, setConn]
    · rw [he.1]; rfl
  · rename_i s2 hap
    split at h
    · simp at h
    · rename_i s3 h3
      simp only [Except.ok.injEq, Prod.mk.injEq] at h; obtain ⟨rfl, rfl⟩ := h
      obtain ⟨q, topic, s0, s1, idxs, evs, hsp, hutf, _, _, _, _, hgh, happ, hacc, _, hlog⟩ := appendToCommitlog_ok hap
      have hd := reschedule_data h3
      refine ⟨by rw [reschedule_recorded h3, appendToCommitlog_recorded hap, hg0],
        [.accepted (some id) q topic] ++ evs, ?_, .inr ⟨q, topic, idxs, hsp, hutf, ?_, ?_, ?_, rfl, rfl⟩⟩
      · rw [hd.2.1, hgh]; simp [RState.g, setConn]
      · rw [acceptedEvents_append, hacc]; simp [acceptedEvents]
      · rw [appendedEvents_append, happ]; simp [appendedEvents]
      · intro j
        have : logAt s3 j = logAt s2 j := by unfold logAt; rw [hd.1]
        rw [this, hlog j]
        rfl

end Router
