/-
C03, request conservation: how the primitive operations of the router model move requests between
tracker, waiter lists and `notifications` (`KMove`), and the transfer of the invariant along moves.
-/
import Proofs.Lemmas.Router.Rp4_Keys
namespace Router

/-- from `s` to `s'` connection `j` gains the keys `add j` and loses the keys `rem j`; subscriptions,
    the filter index map and the graveyard are untouched; parked requests stay in their logs -/
structure KMove (s s' : RState) (add rem : Nat → List RKey) : Prop where
  keys : ∀ j, (keysOf s' j ++ rem j).Perm (keysOf s j ++ add j)
  subs : ∀ j, subsOf s' j = subsOf s j
  fi : s'.datalog.filterIndexes = s.datalog.filterIndexes
  grv : s'.graveyard = s.graveyard
  widx : WIdx s → WIdx s'

def noKeys : Nat → List RKey := fun _ => []

theorem KMove.refl (s : RState) : KMove s s noKeys noKeys :=
  ⟨fun _ => .refl _, fun _ => rfl, rfl, rfl, fun h => h⟩

theorem KMove.trans {a b c : RState} {a1 r1 a2 r2 : Nat → List RKey} (h1 : KMove a b a1 r1) (h2 : KMove b c a2 r2) :
    KMove a c (fun j => a1 j ++ a2 j) (fun j => r2 j ++ r1 j) := by
  refine ⟨fun j => ?_, fun j => (h2.subs j).trans (h1.subs j), h2.fi.trans h1.fi, h2.grv.trans h1.grv,
    fun h => h2.widx (h1.widx h)⟩
  have p1 := h1.keys j
  have p2 := h2.keys j
  -- keysOf c ++ r2 ++ r1 ~ keysOf b ++ a2 ++ r1 ~ (keysOf b ++ r1) ++ a2 ~ keysOf a ++ a1 ++ a2
  calc (keysOf c j ++ (r2 j ++ r1 j)).Perm ((keysOf c j ++ r2 j) ++ r1 j) := by rw [List.append_assoc]
    _ |>.Perm ((keysOf b j ++ a2 j) ++ r1 j) := p2.append_right _
    _ |>.Perm ((keysOf b j ++ r1 j) ++ a2 j) := by
        rw [List.append_assoc, List.append_assoc]; exact List.Perm.append_left _ List.perm_append_comm
    _ |>.Perm ((keysOf a j ++ a1 j) ++ a2 j) := p1.append_right _
    _ |>.Perm (keysOf a j ++ (a1 j ++ a2 j)) := by rw [List.append_assoc]

/-- a step that leaves the parts the invariant reads as they are -/
theorem KMove.of_view {s s' : RState} (hc : ∀ j, cviewOf s' j = cviewOf s j)
    (hw : s'.datalog.native.map (·.waiters) = s.datalog.native.map (·.waiters))
    (hn : s'.notifications = s.notifications) (hg : s'.graveyard = s.graveyard)
    (hf : s'.datalog.filterIndexes = s.datalog.filterIndexes) : KMove s s' noKeys noKeys := by
  have hwk : ∀ id, waiterKeys s' id = waiterKeys s id := fun id => by
    unfold waiterKeys
    have := congrArg (fun l => l.flatMap (fun ws => pickK id ws)) hw
    simpa [flatMap_map_eq] using this
  refine ⟨fun j => ?_, fun j => (trackerKeys_of_cview (hc j)).2, hf, hg, fun h i fd hfd w hw' => ?_⟩
  · unfold keysOf notifKeys noKeys; rw [(trackerKeys_of_cview (hc j)).1, hwk, hn]
  · have e : (s'.datalog.native.map (·.waiters))[i]? = some fd.waiters := by simp [hfd]
    rw [hw] at e
    simp only [List.getElem?_map, Option.map_eq_some_iff] at e
    obtain ⟨fd0, h0, e0⟩ := e
    exact h i fd0 h0 w (e0 ▸ hw')

/-- the invariant along a move: what connection `o` holds outside the state changes from `ex` to
    `ex'` such that gains and losses balance -/
theorem RCX.move {s s' : RState} {o : Nat} {ex ex' : List RKey} {add rem : Nat → List RKey} (h : RCX s o ex)
    (m : KMove s s' add rem)
    (hp : ∀ j, (add j ++ (if j = o then ex' else [])).Perm (rem j ++ (if j = o then ex else []))) :
    RCX s' o ex' := by
  refine ⟨?_, m.widx h.widx, by rw [m.grv, m.fi]; exact h.grv⟩
  rw [m.fi, show subsOf s' = subsOf s from funext m.subs]
  refine h.k.of_perm fun j => ?_
  -- (keysOf s' j ++ ex'_j) ++ rem j ~ (keysOf s j ++ ex_j) ++ rem j
  apply (List.perm_append_right_iff (rem j)).mp
  calc ((keysOf s' j ++ (if j = o then ex' else [])) ++ rem j).Perm ((keysOf s' j ++ rem j) ++ (if j = o then ex' else [])) := by
        rw [List.append_assoc, List.append_assoc]; exact List.Perm.append_left _ List.perm_append_comm
    _ |>.Perm ((keysOf s j ++ add j) ++ (if j = o then ex' else [])) := (m.keys j).append_right _
    _ |>.Perm (keysOf s j ++ (add j ++ (if j = o then ex' else []))) := by rw [List.append_assoc]
    _ |>.Perm (keysOf s j ++ (rem j ++ (if j = o then ex else []))) := List.Perm.append_left _ (hp j)
    _ |>.Perm ((keysOf s j ++ (if j = o then ex else [])) ++ rem j) := by
        rw [List.append_assoc]; exact List.Perm.append_left _ List.perm_append_comm

/-- a balanced move keeps the invariant -/
theorem RCX.move_same {s s' : RState} {o : Nat} {ex : List RKey} {add rem : Nat → List RKey} (h : RCX s o ex)
    (m : KMove s s' add rem) (hp : ∀ j, (add j).Perm (rem j)) : RCX s' o ex :=
  h.move m fun j => (hp j).append_right _

theorem RCX.view {s s' : RState} {o : Nat} {ex : List RKey} (h : RCX s o ex) (m : KMove s s' noKeys noKeys) :
    RCX s' o ex := h.move_same m fun _ => .refl _

/-! ### the primitives -/

/-- keys for connection `id` only -/
def oneK (id : Nat) (ks : List RKey) : Nat → List RKey := fun j => if j = id then ks else []

theorem KMove.of_conns {s s' : RState} (hc : s'.conns = s.conns)
    (hw : s'.datalog.native.map (·.waiters) = s.datalog.native.map (·.waiters))
    (hn : s'.notifications = s.notifications) (hg : s'.graveyard = s.graveyard)
    (hf : s'.datalog.filterIndexes = s.datalog.filterIndexes) : KMove s s' noKeys noKeys :=
  KMove.of_view (cviewOf_of_conns hc) hw hn hg hf

/-- a live connection replaced by one with the same tracked requests and subscriptions -/
theorem KMove.of_set {s s' : RState} {id : Nat} {c c' : Conn} (hc : getConn s id = some c)
    (hconns : s'.conns = s.conns.set id c')
    (hr : c'.tracker.requests.map (·.key) = c.tracker.requests.map (·.key)) (hsub : c'.subscriptions = c.subscriptions)
    (hw : s'.datalog.native.map (·.waiters) = s.datalog.native.map (·.waiters))
    (hn : s'.notifications = s.notifications) (hg : s'.graveyard = s.graveyard)
    (hf : s'.datalog.filterIndexes = s.datalog.filterIndexes) : KMove s s' noKeys noKeys := by
  refine KMove.of_view (fun j => ?_) hw hn hg hf
  have e : cviewOf s' j = cviewOf (setConn s id c') j := cviewOf_of_conns (s := setConn s id c') hconns j
  rw [e, cviewOf_setConn hc]
  split
  · rename_i hj; subst hj
    unfold cviewOf; rw [hc]; simp [hr, hsub]
  · rfl

theorem reschedule_move {s s' : RState} {id : Nat} {r : SchedReason} (h : reschedule s id r = .ok s') :
    KMove s s' noKeys noKeys := by
  unfold reschedule at h
  split at h
  · simp at h
  · rename_i c hc
    split at h
    · simp at h
    · rename_i t woke ht
      simp only [Except.ok.injEq] at h; subst h
      have e := tryReady_some ht
      split
      · exact KMove.of_set (c' := { c with tracker := t }) hc rfl (by simp [e]) rfl rfl rfl rfl rfl
      · exact KMove.of_set (c' := { c with tracker := t }) hc rfl (by simp [e]) rfl rfl rfl rfl rfl

theorem commitAck_move {s s' : RState} {id : Nat} {a : Ack} (h : commitAck s id a = .ok s') :
    KMove s s' noKeys noKeys := by
  unfold commitAck at h
  split at h
  · simp at h
  · rename_i c hc
    simp only [Except.ok.injEq] at h; subst h
    exact KMove.of_set (c' := { c with acks := _ }) hc rfl rfl rfl rfl rfl rfl rfl

theorem pause_move {s s' : RState} {id : Nat} {r : PauseReason} (h : pause s id r = .ok s') :
    KMove s s' noKeys noKeys := by
  unfold pause at h
  split at h
  · simp at h
  · split at h
    · simp at h
    · rename_i c hc
      simp only [Except.ok.injEq] at h; subst h
      have hc' : getConn s id = some c := hc
      exact KMove.of_set (c' := { c with tracker := { c.tracker with status := .paused r } }) hc' rfl rfl rfl rfl rfl rfl rfl

theorem ackDeviceData_move (s : RState) (id : Nat) : KMove s (ackDeviceData s id) noKeys noKeys := by
  unfold ackDeviceData
  split
  · exact KMove.refl s
  · rename_i c hc
    split
    · exact KMove.refl s
    · exact KMove.of_set (c' := { c with acks := _ }) hc rfl rfl rfl rfl rfl rfl rfl

/-- the keys of a connection whose tracker gains requests -/
theorem keysOf_tracker_append {s s' : RState} {id : Nat} {c : Conn} {rs : List DataRequest}
    (hc : getConn s id = some c)
    (hconns : s'.conns = s.conns.set id { c with tracker := { c.tracker with requests := c.tracker.requests ++ rs } })
    (hd : s'.datalog = s.datalog) (hn : s'.notifications = s.notifications) (hg : s'.graveyard = s.graveyard) :
    KMove s s' (oneK id (rs.map (·.key))) noKeys := by
  have hget : ∀ j, getConn s' j = if j = id then some { c with tracker := { c.tracker with requests := c.tracker.requests ++ rs } }
      else getConn s j := fun j => by
    unfold getConn; rw [hconns]; exact Slab.get?_set_live hc j _
  refine ⟨fun j => ?_, fun j => ?_, by rw [hd], hg, fun h => by unfold WIdx; rw [hd]; exact h⟩
  · unfold keysOf waiterKeys notifKeys trackerKeys noKeys oneK
    rw [hd, hn, hget]
    by_cases hj : j = id
    · subst hj
      simp only [if_true, hc, List.map_append, List.append_nil]
      simp only [List.append_assoc]
      exact List.Perm.append_left _ (List.perm_append_comm.trans (by rw [List.append_assoc]))
    · simp only [hj, if_false, List.append_nil]; exact .refl _
  · unfold subsOf; rw [hget]
    by_cases hj : j = id
    · subst hj; simp [hc]
    · simp [hj]

/-- the tracked requests of a live connection replaced -/
theorem keysOf_tracker_set {s s' : RState} {id : Nat} {c c' : Conn}
    (hc : getConn s id = some c) (hconns : s'.conns = s.conns.set id c') (hsub : c'.subscriptions = c.subscriptions)
    (hw : s'.datalog.native.map (·.waiters) = s.datalog.native.map (·.waiters))
    (hn : s'.notifications = s.notifications) (hg : s'.graveyard = s.graveyard)
    (hf : s'.datalog.filterIndexes = s.datalog.filterIndexes) :
    KMove s s' (oneK id (c'.tracker.requests.map (·.key))) (oneK id (c.tracker.requests.map (·.key))) := by
  have hget : ∀ j, getConn s' j = if j = id then some c' else getConn s j := fun j => by
    unfold getConn; rw [hconns]; exact Slab.get?_set_live hc j _
  have hwk : ∀ j, waiterKeys s' j = waiterKeys s j := fun j => by
    unfold waiterKeys
    have := congrArg (fun l => l.flatMap (fun ws => pickK j ws)) hw
    simpa [flatMap_map_eq] using this
  refine ⟨fun j => ?_, fun j => ?_, hf, hg, fun h i fd hfd w hw' => ?_⟩
  · unfold keysOf notifKeys trackerKeys oneK
    rw [hwk, hn, hget]
    by_cases hj : j = id
    · subst hj
      simp only [if_true, hc]
      rw [List.perm_iff_count]; intro x
      simp only [List.count_append]; omega
    · simp only [hj, if_false, List.append_nil]; exact .refl _
  · unfold subsOf; rw [hget]
    by_cases hj : j = id
    · subst hj; simp [hc, hsub]
    · simp [hj]
  · have e : (s'.datalog.native.map (·.waiters))[i]? = some fd.waiters := by simp [hfd]
    rw [hw] at e
    simp only [List.getElem?_map, Option.map_eq_some_iff] at e
    obtain ⟨fd0, h0, e0⟩ := e
    exact h i fd0 h0 w (e0 ▸ hw')

theorem track_move {s s' : RState} {id : Nat} {r : DataRequest} (h : track s id r = .ok s') :
    KMove s s' (oneK id [r.key]) noKeys := by
  unfold track at h
  split at h
  · simp at h
  · rename_i c hc
    simp only [Except.ok.injEq] at h; subst h
    exact keysOf_tracker_append (rs := [r]) hc rfl rfl rfl rfl

theorem trackv_move {s s' : RState} {id : Nat} {rs : List DataRequest} (h : trackv s id rs = .ok s') :
    KMove s s' (oneK id (rs.map (·.key))) noKeys := by
  unfold trackv at h
  split at h
  · simp at h
  · rename_i c hc
    simp only [Except.ok.injEq] at h; subst h
    exact keysOf_tracker_append hc rfl rfl rfl rfl

/-! ### datalog -/

/-- one filter log's entry replaced (waiters `ws` → `ws'`), `notifications` replaced -/
theorem KMove.set_native {s s' : RState} {i : Nat} {fd fd' : FilterData} (hfd : s.datalog.native[i]? = some fd)
    (hc : s'.conns = s.conns) (hnat : s'.datalog.native = s.datalog.native.set i fd')
    (hf : s'.datalog.filterIndexes = s.datalog.filterIndexes) (hg : s'.graveyard = s.graveyard)
    (hw : WIdx s → ∀ w ∈ fd'.waiters, w.2.filterIdx = i) :
    KMove s s' (fun j => pickK j fd'.waiters ++ pickK j s'.notifications)
      (fun j => pickK j fd.waiters ++ pickK j s.notifications) := by
  have hcv := cviewOf_of_conns hc
  refine ⟨fun j => ?_, fun j => (trackerKeys_of_cview (hcv j)).2, hf, hg, fun h k fdk hk w hw' => ?_⟩
  · have hwk := flatMap_set_perm s.datalog.native i fd fd' (fun fd => pickK j fd.waiters) hfd
    unfold keysOf
    rw [(trackerKeys_of_cview (hcv j)).1]
    have e : waiterKeys s' j = (s.datalog.native.set i fd').flatMap (fun fd => pickK j fd.waiters) := by
      unfold waiterKeys; rw [hnat]
    rw [e]
    unfold notifKeys
    rw [List.perm_iff_count] at hwk ⊢
    intro a
    have := hwk a
    simp only [List.count_append, waiterKeys] at this ⊢
    omega
  · unfold WIdx at h
    rw [hnat, List.getElem?_set] at hk
    split at hk
    · split at hk
      · simp only [Option.some.injEq] at hk; subst hk
        rename_i e _; subst e; exact hw h w hw'
      · simp at hk
    · exact h k fdk hk w hw'

/-- permutation goals about appended lists, by counting -/
macro "perm_count" : tactic =>
  `(tactic| (rw [List.perm_iff_count]; intro x
             try simp only [List.count_append, List.count_cons, List.count_nil, List.map_append, List.map_cons, List.map_nil,
               List.cons_append, List.nil_append, List.append_nil]
             all_goals omega))

/-- the same move, gains and losses written differently -/
theorem KMove.reshape {s s' : RState} {a r a' r' : Nat → List RKey} (m : KMove s s' a r)
    (h : ∀ j, (a' j ++ r j).Perm (a j ++ r' j)) : KMove s s' a' r' := by
  refine ⟨fun j => ?_, m.subs, m.fi, m.grv, m.widx⟩
  have h1 := m.keys j
  have h2 := h j
  rw [List.perm_iff_count] at h1 h2 ⊢
  intro x
  have := h1 x; have := h2 x
  simp only [List.count_append] at *
  omega

theorem pickK_single (j id : Nat) (r : DataRequest) : pickK j [(id, r)] = if j = id then [r.key] else [] := by
  unfold pickK
  by_cases h : id = j
  · subst h; simp
  · have : ¬ j = id := fun e => h e.symm
    simp [h, this]

/-- `park`: the request joins the waiter list of its log -/
theorem park_move {s s' : RState} {id : Nat} {r : DataRequest} (h : park s id r = .ok s') :
    KMove s s' (oneK id [r.key]) noKeys := by
  unfold park at h
  split at h
  · simp at h
  · rename_i fd hfd
    simp only [Except.ok.injEq] at h
    have hc : s'.conns = s.conns := by rw [← h]
    have hnat : s'.datalog.native = s.datalog.native.set r.filterIdx { fd with waiters := fd.waiters ++ [(id, r)] } := by
      rw [← h]
    have hf : s'.datalog.filterIndexes = s.datalog.filterIndexes := by rw [← h]
    have hg : s'.graveyard = s.graveyard := by rw [← h]
    have hn : s'.notifications = s.notifications := by rw [← h]
    refine (KMove.set_native hfd hc hnat hf hg (fun hwi w hw => ?_)).reshape fun j => ?_
    · rcases List.mem_append.mp hw with hw | hw
      · exact hwi _ fd hfd w hw
      · simp only [List.mem_singleton] at hw; subst hw; rfl
    · simp only [oneK, noKeys, pickK_append, pickK_single, hn]
      rw [List.perm_iff_count]; intro x
      simp only [List.count_append]
      split <;> simp <;> omega

/-- `Data::append`: the parked requests of the log move to `notifications` -/
theorem appendToFilter_move {s s' : RState} {idx : Nat} {p : Pub} (h : appendToFilter s idx p = .ok s') :
    KMove s s' noKeys noKeys := by
  unfold appendToFilter at h
  split at h
  · simp at h
  · rename_i fd hfd
    simp only [Except.ok.injEq] at h
    have hc : s'.conns = s.conns := by rw [← h]; split <;> rfl
    have hnat : s'.datalog.native = s.datalog.native.set idx
        { fd with log := (fd.log.append p (pubSize p)).1, waiters := [] } := by rw [← h]; split <;> rfl
    have hf : s'.datalog.filterIndexes = s.datalog.filterIndexes := by rw [← h]; split <;> rfl
    have hg : s'.graveyard = s.graveyard := by rw [← h]; split <;> rfl
    have hn : s'.notifications = s.notifications ++ fd.waiters := by rw [← h]; split <;> rfl
    refine (KMove.set_native hfd hc hnat hf hg (fun _ w hw => by simp at hw)).reshape fun j => ?_
    simp only [noKeys, hn, pickK_append, pickK_nil]
    rw [List.perm_iff_count]; intro x
    simp only [List.count_append, List.count_nil]
    omega

theorem appendToFilters_move : ∀ (idxs : List Nat) {s s' : RState} {p : Pub},
    appendToFilters s idxs p = .ok s' → KMove s s' noKeys noKeys
  | [], s, s', p, h => by simp only [appendToFilters, Except.ok.injEq] at h; subst h; exact KMove.refl _
  | i :: is, s, s', p, h => by
    simp only [appendToFilters] at h
    split at h
    · simp at h
    · rename_i s1 h1
      exact ((appendToFilter_move h1).trans (appendToFilters_move is h)).reshape fun j => .refl _

/-- emptying the waiter list of a log -/
theorem clearWaiters_move {s : RState} {i : Nat} {fd : FilterData} (hfd : s.datalog.native[i]? = some fd) :
    KMove s (clearWaiters s i fd) noKeys (fun j => pickK j fd.waiters) := by
  refine (KMove.set_native (s' := clearWaiters s i fd) (fd' := { fd with waiters := [] }) hfd rfl rfl rfl rfl
    (fun _ w hw => by simp at hw)).reshape fun j => ?_
  simp only [noKeys, pickK_nil, clearWaiters]
  rw [List.perm_iff_count]; intro x
  simp only [List.count_append, List.count_nil]
  omega

/-- replacing `notifications` -/
theorem setNotifications_move (s : RState) (ns : List (Nat × DataRequest)) :
    KMove s { s with notifications := ns } (fun j => pickK j ns) (fun j => pickK j s.notifications) := by
  refine ⟨fun j => ?_, fun j => rfl, rfl, rfl, fun h => h⟩
  unfold keysOf notifKeys trackerKeys waiterKeys
  show ((_ ++ _ ++ pickK j ns) ++ _).Perm _
  rw [List.perm_iff_count]; intro x
  simp only [List.count_append]
  have : getConn ({ s with notifications := ns } : RState) j = getConn s j := rfl
  rw [this]
  omega

theorem updateRetained_move (s : RState) (topic : String) (p : Pub) : KMove s (updateRetained s topic p) noKeys noKeys := by
  unfold updateRetained
  split
  · exact KMove.of_conns rfl rfl rfl rfl rfl
  · split
    · exact KMove.of_conns rfl rfl rfl rfl rfl
    · exact KMove.refl _

theorem dlMatches_move {s s' : RState} {topic : String} {v : List Nat} (h : dlMatches s topic = .ok (s', v)) :
    KMove s s' noKeys noKeys := by
  unfold dlMatches at h
  split at h
  · simp only [Except.ok.injEq, Prod.mk.injEq] at h; obtain ⟨rfl, _⟩ := h; exact KMove.refl _
  · split at h
    · simp only [] at h
      split at h
      · simp only [Except.ok.injEq, Prod.mk.injEq] at h; obtain ⟨rfl, _⟩ := h
        split <;> exact KMove.of_conns rfl rfl rfl rfl rfl
      · simp at h
    · simp at h

theorem readRetained_move {s s' : RState} {f : String} {ps : List Pub} (h : readRetained s f = .ok (s', ps)) :
    KMove s s' noKeys noKeys := by
  unfold readRetained at h
  simp only [] at h
  split at h
  · split at h
    · simp only [Except.ok.injEq, Prod.mk.injEq] at h; obtain ⟨rfl, _⟩ := h; exact KMove.of_conns rfl rfl rfl rfl rfl
    · simp at h
  · simp at h

theorem updateNextClient_move {s s' : RState} {g g' : SharedGroup} (h : updateNextClient s g = .ok (s', g')) :
    KMove s s' noKeys noKeys := by
  unfold updateNextClient at h
  split at h
  · simp only [Except.ok.injEq, Prod.mk.injEq] at h; obtain ⟨rfl, _⟩ := h; exact KMove.refl _
  · split at h
    · simp at h
    · simp only [Except.ok.injEq, Prod.mk.injEq] at h; obtain ⟨rfl, _⟩ := h; exact KMove.refl _
  · split at h
    · simp at h
    · split at h
      · split at h
        · simp only [Except.ok.injEq, Prod.mk.injEq] at h; obtain ⟨rfl, _⟩ := h; exact KMove.of_conns rfl rfl rfl rfl rfl
        · simp at h
      · simp at h

theorem KMove.nn {a b c : RState} (h1 : KMove a b noKeys noKeys) (h2 : KMove b c noKeys noKeys) : KMove a c noKeys noKeys :=
  (h1.trans h2).reshape fun _ => .refl _

end Router
