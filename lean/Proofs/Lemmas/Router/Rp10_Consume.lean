/-
C17 membership invariant `MI` through sweeps, `consume`, SUBSCRIBE, UNSUBSCRIBE, packets.
-/
import Proofs.Lemmas.Router.Rp10_Steps
namespace Router
open Router.Rp3

theorem nextNativeOffset_mstep (s : RState) (filter : String) : MStep s (nextNativeOffset s filter).1 := by
  unfold nextNativeOffset
  split
  · exact MStep.refl s
  · exact ⟨MConn.of_conns rfl, rfl⟩

theorem handlePacket_mstep {s s' : RState} {id : Nat} {cid : String} {pkt : Packet} {fl fl' : Flags}
    (hns : ∀ a b c, pkt ≠ .subscribe a b c) (hnu : ∀ a b, pkt ≠ .unsubscribe a b)
    (h : handlePacket s id cid pkt fl = .ok (s', fl')) : MStep s s' := by
  cases pkt with
  | publish p =>
    rw [handlePacket_publish] at h
    split at h
    · simp at h
    · rename_i s1 fl1 h1
      simp only [Except.ok.injEq, Prod.mk.injEq] at h; obtain ⟨rfl, _⟩ := h
      exact hpPre_mstep h1
    · rename_i s1 fl1 h1
      have a := hpPre_mstep h1
      split at h
      · simp at h
      all_goals
        rename_i h2
        simp only [Except.ok.injEq, Prod.mk.injEq] at h; obtain ⟨rfl, _⟩ := h
        exact a.trans (appendToCommitlog_mstep h2)
  | subscribe pkid subId filters => exact absurd rfl (hns pkid subId filters)
  | unsubscribe pkid filters => exact absurd rfl (hnu pkid filters)
  | puback pkid =>
    simp only [handlePacket] at h
    split at h
    · simp at h
    · rename_i c hc
      have a : MStep s (setConn s id { c with out := (c.out.registerAck pkid).1 }) :=
        MStep.of_set (c' := { c with out := (c.out.registerAck pkid).1 }) hc rfl rfl rfl rfl rfl rfl rfl
      split at h
      · simp only [Except.ok.injEq, Prod.mk.injEq] at h; obtain ⟨rfl, _⟩ := h; exact a
      · split at h
        · simp at h
        · rename_i s2 h2
          simp only [Except.ok.injEq, Prod.mk.injEq] at h; obtain ⟨rfl, _⟩ := h
          have a' : MStep s ((setConn s id { c with out := (c.out.registerAck pkid).1 }).g (.clientAcked id pkid)) :=
            a.trans (MStep.of_conns rfl rfl rfl rfl rfl)
          exact a'.trans (reschedule_mstep h2)
  | pubrec pkid =>
    simp only [handlePacket] at h
    split at h
    · simp at h
    · rename_i c hc
      split at h
      · simp only [Except.ok.injEq, Prod.mk.injEq] at h; obtain ⟨rfl, _⟩ := h
        exact MStep.of_set (c' := { c with out := (c.out.registerAck pkid).1 }) hc rfl rfl rfl rfl rfl rfl rfl
      · split at h
        · simp at h
        · rename_i s2 h2
          simp only [Except.ok.injEq, Prod.mk.injEq] at h; obtain ⟨rfl, _⟩ := h
          refine MStep.trans ?_ (reschedule_mstep h2)
          exact MStep.of_set (c' := { c with out := _, acks := _ }) hc rfl rfl rfl rfl rfl rfl rfl
  | pubrel pkid hp =>
    simp only [handlePacket] at h
    split at h
    · simp at h
    · rename_i c hc
      split at h
      · simp only [Except.ok.injEq, Prod.mk.injEq] at h; obtain ⟨rfl, _⟩ := h
        exact MStep.of_set (c' := { c with acks := _ }) hc rfl rfl rfl rfl rfl rfl rfl
      · rename_i p rest hrec
        have a : MStep s ((setConn s id { c with acks := { committed := c.acks.committed ++ [Ack.pubcomp pkid], recorded := rest } }).g
            (.committed id (.pubcomp pkid))) :=
          MStep.of_set (c' := { c with acks := _ }) hc rfl rfl rfl rfl rfl rfl rfl
        split at h
        · simp at h
        · rename_i h2
          simp only [Except.ok.injEq, Prod.mk.injEq] at h; obtain ⟨rfl, _⟩ := h
          exact a.trans (appendToCommitlog_mstep h2)
        · rename_i s2 h2
          split at h
          · simp at h
          · rename_i s3 h3
            simp only [Except.ok.injEq, Prod.mk.injEq] at h; obtain ⟨rfl, _⟩ := h
            exact (a.trans (appendToCommitlog_mstep h2)).trans (reschedule_mstep h3)
  | pubcomp pkid =>
    simp only [handlePacket] at h
    split at h
    · simp at h
    · rename_i c hc
      have a : MStep s (setConn s id { c with out := (c.out.registerPubcomp pkid).1 }) :=
        MStep.of_set (c' := { c with out := _ }) hc rfl rfl rfl rfl rfl rfl rfl
      split at h
      all_goals
        simp only [Except.ok.injEq, Prod.mk.injEq] at h; obtain ⟨rfl, _⟩ := h; exact a
  | pingreq =>
    simp only [handlePacket] at h
    split at h
    · simp at h
    · rename_i s1 h1
      simp only [Except.ok.injEq, Prod.mk.injEq] at h; obtain ⟨rfl, _⟩ := h
      exact commitAck_mstep h1
  | disconnect =>
    simp only [handlePacket, Except.ok.injEq, Prod.mk.injEq] at h; obtain ⟨rfl, _⟩ := h
    exact MStep.of_conns rfl rfl rfl rfl rfl
  | other =>
    simp only [handlePacket, Except.ok.injEq, Prod.mk.injEq] at h; obtain ⟨rfl, _⟩ := h
    exact MStep.refl _

theorem handleLastWill_mstep {s s' : RState} {cid : String} (h : handleLastWill s cid = .ok s') : MStep s s' := by
  unfold handleLastWill at h
  split at h
  · simp only [Except.ok.injEq] at h; subst h; exact MStep.refl _
  · simp only [] at h
    have r0 : MStep s (({ s with lastWills := aremove cid s.lastWills } : RState).g (.willFired cid)) :=
      MStep.of_conns rfl rfl rfl rfl rfl
    split at h
    · simp only [Except.ok.injEq] at h; subst h; exact r0
    · rename_i topic ht
      split at h
      · simp at h
      · rename_i s2 idxs h2
        split at h
        · simp at h
        · rename_i s3 h3
          refine MStep.trans ?_ (drain_all_mstep h)
          refine (MStep.trans ?_ (dlMatches_mstep h2)).trans (appendToFilters_mstep idxs h3)
          exact (r0.trans (updateRetained_mstep _ _ _)).trans (MStep.of_conns rfl rfl rfl rfl rfl)

theorem handleShadow_mstep {s s' : RState} {id : Nat} {f : String} (h : handleShadow s id f = .ok s') : MStep s s' := by
  have hc := handleShadow_core h
  unfold handleShadow at h
  split at h
  · simp only [Except.ok.injEq] at h; subst h; exact MStep.refl _
  · split at h
    · simp only [Except.ok.injEq] at h; subst h; exact MStep.refl _
    · split at h
      · simp only [Except.ok.injEq] at h; subst h; exact MStep.refl _
      · simp only [Except.ok.injEq] at h; subst h
        refine MStep.of_conns hc.1 ?_ ?_ ?_ ?_ <;> (simp only [wakeLink]; split <;> rfl)


/-- the push phase of a sweep: connections keep identity and subscriptions; group entries keep key and clients -/
theorem fdPush_members {s0 s1 : RState} {id : Nat} {c : Conn} {req' req1 : DataRequest} {grp : Option SharedGroup}
    {pubs : List (Pub × Option Cursor)} {cu : Bool} {st : ConsumeStatus} (hc0 : getConn s0 id = some c)
    (h : fdPush s0 id c req' grp pubs cu = .ok (s1, req1, st)) :
    MConn s0 s1 ∧ ∀ p' ∈ s1.shared, ∃ p ∈ s0.shared, p.1 = p'.1 ∧ p'.2.clients = p.2.clients := by
  unfold fdPush at h
  simp only [] at h
  split at h
  · simp at h
  · rename_i s3 h3
    have b : MStep s0 (pushNotifs (setConn s0 id { c with out := (fdOut c req' pubs).1, brokerAliases := (fdAliases c req'.filter).1 })
        c.link (fdOut c req' pubs).2) :=
      MStep.of_setc (c' := { c with out := (fdOut c req' pubs).1, brokerAliases := (fdAliases c req'.filter).1 }) hc0 rfl rfl rfl rfl rfl rfl
    have key : MConn s0 s3 ∧ ∀ p' ∈ s3.shared, ∃ p ∈ s0.shared, p.1 = p'.1 ∧ p'.2.clients = p.2.clients := by
      unfold fdGroupUpd at h3
      split at h3
      · rename_i _ _ gname gv hgn
        split at h3
        · simp only [Except.ok.injEq] at h3; subst h3
          exact ⟨b.conn, fun p' hp' => ⟨p', by rw [← b.shared]; exact hp', rfl, rfl⟩⟩
        · rename_i g hg
          split at h3
          · simp at h3
          · rename_i s4 g2 hu
            simp only [Except.ok.injEq] at h3; subst h3
            have hu' := updateNextClient_mstep hu
            obtain ⟨_, ucl, _⟩ := updateNextClient_spec hu
            refine ⟨b.conn.trans (hu'.conn.trans (MConn.of_conns rfl)), fun p' hp' => ?_⟩
            have hp'' : p' ∈ ainsert gname { g2 with cursor := req'.cursor } s4.shared := hp'
            rw [hu'.shared, b.shared] at hp''
            rcases mem_ainsert hp'' with h0 | rfl
            · exact ⟨p', h0, rfl, rfl⟩
            · exact ⟨(gname, g), by rw [← b.shared]; exact mem_of_alookup hg, rfl, ucl⟩
      · simp only [Except.ok.injEq] at h3; subst h3
        exact ⟨b.conn, fun p' hp' => ⟨p', by rw [← b.shared]; exact hp', rfl, rfl⟩⟩
    obtain ⟨m3, e3⟩ := key
    split at h
    all_goals
      simp only [Except.ok.injEq, Prod.mk.injEq] at h; obtain ⟨rfl, _, _⟩ := h
      exact ⟨m3.trans (MConn.of_conns rfl), e3⟩

theorem forwardDeviceData_members {s s1 : RState} {id : Nat} {req req1 : DataRequest} {st : ConsumeStatus}
    (hf : forwardDeviceData s id req = .ok (s1, req1, st)) :
    MConn s s1 ∧ ∀ p' ∈ s1.shared, ∃ p ∈ s.shared, p.1 = p'.1 ∧ p'.2.clients = p.2.clients := by
  obtain ⟨c, hc⟩ : ∃ c, getConn s id = some c := by
    cases hg : getConn s id with
    | none => rw [Router.forwardDeviceData_eq, hg] at hf; simp at hf
    | some c => exact ⟨c, rfl⟩
  have same : ∀ {x : RState}, MStep s x → MConn s x ∧ ∀ p' ∈ x.shared, ∃ p ∈ s.shared, p.1 = p'.1 ∧ p'.2.clients = p.2.clients :=
    fun m => ⟨m.conn, fun p' hp' => ⟨p', by rw [← m.shared]; exact hp', rfl, rfl⟩⟩
  rcases sweep_branches hc hf with ⟨rfl, _⟩ | ⟨_, s0, rp, slots, fd, h0, _, hcase⟩
  · exact same (MStep.refl _)
  · have a := fdRetained_mstep h0
    have hc0 : getConn s0 id = some c := by rw [(fdRetained_only_oracle h0).1]; exact hc
    rcases hcase with ⟨_, rfl, _⟩ | ⟨_, _, _, rfl, _⟩ | ⟨_, hp⟩
    · exact same a
    · exact same a
    · obtain ⟨m, e⟩ := fdPush_members hc0 hp
      refine ⟨a.conn.trans m, fun p' hp' => ?_⟩
      obtain ⟨p, hp0, e1, e2⟩ := e p' hp'
      exact ⟨p, by rw [← a.shared]; exact hp0, e1, e2⟩

/-- `MI` along a step that keeps the members of every group -/
theorem MI.of_members {s s' : RState} (h : MI s) (m : MConn s s')
    (he : ∀ p' ∈ s'.shared, ∃ p ∈ s.shared, p.1 = p'.1 ∧ p'.2.clients = p.2.clients) : MI s' :=
  h.of_mconn m fun p' hp' cid hcid => by
    obtain ⟨p, hp, e1, e2⟩ := he p' hp'
    exact .inl ⟨p, hp, e1, e2 ▸ hcid⟩

theorem consumeLoop_mi {id : Nat} : ∀ (fuel : Nat) {s s' : RState} {requests skipped : List DataRequest},
    MI s → consumeLoop s id fuel requests skipped = .ok s' → MI s'
  | 0, s, s', requests, skipped, h, hc => by
    simp only [consumeLoop] at hc
    exact h.step (trackv_mstep hc)
  | fuel + 1, s, s', requests, skipped, h, hc => by
    cases requests with
    | nil =>
      simp only [consumeLoop] at hc
      split at hc
      · simp at hc
      · rename_i s1 h1
        have a : MStep s s1 := by
          split at h1
          · exact pause_mstep h1
          · simp only [Except.ok.injEq] at h1; subst h1; exact MStep.refl _
        exact h.step (a.trans (trackv_mstep hc))
    | cons req rest =>
      simp only [consumeLoop] at hc
      split at hc
      · simp at hc
      · rename_i s1 req1 st h1
        obtain ⟨m1, e1⟩ := forwardDeviceData_members h1
        have h2 : MI (noteTurn s s1 req1) := (h.of_members m1 e1).step (noteTurn_mstep s s1 req1)
        split at hc
        · split at hc
          · simp at hc
          · rename_i s3 h3
            exact h2.step ((pause_mstep h3).trans (trackv_mstep hc))
        · split at hc
          · simp at hc
          · rename_i s3 h3
            exact h2.step ((pause_mstep h3).trans (trackv_mstep hc))
        · split at hc
          · simp at hc
          · rename_i s3 h3
            have m3 : MStep (noteTurn s s1 req1) s3 := by
              unfold park at h3
              split at h3
              · simp at h3
              · simp only [Except.ok.injEq] at h3; subst h3; exact ⟨MConn.of_conns rfl, rfl⟩
            exact consumeLoop_mi fuel (h2.step m3) hc
        · exact consumeLoop_mi fuel h2 hc
        · exact consumeLoop_mi fuel h2 hc

theorem wakeTurnMoved_mstep {s s' : RState} (h : wakeTurnMoved s = .ok s') : MStep s s' :=
  (⟨MConn.of_conns rfl, rfl⟩ : MStep s { s with turnMoved := [] }).trans (wakeParked_mstep h)

theorem consume_mi {s s' : RState} {b : Bool} (h : MI s) (hc : consume s = .ok (s', b)) : MI s' := by
  unfold consume at hc
  split at hc
  · simp only [Except.ok.injEq, Prod.mk.injEq] at hc; obtain ⟨rfl, _⟩ := hc
    exact h.step (MStep.of_conns rfl rfl rfl rfl rfl)
  · rename_i id rq hrq
    simp only [] at hc
    split at hc
    · simp only [Except.ok.injEq, Prod.mk.injEq] at hc; obtain ⟨rfl, _⟩ := hc
      exact h.step (MStep.of_conns rfl rfl rfl rfl rfl)
    · rename_i c hcn
      split at hc
      · simp at hc
      · rename_i s1 h1
        split at hc
        · simp at hc
        · rename_i s2 h2
          simp only [Except.ok.injEq, Prod.mk.injEq] at hc; obtain ⟨rfl, _⟩ := hc
          have hcn' : getConn s id = some c := hcn
          have la : MStep s ({ setConn { s with readyqueue := rq } id { c with tracker := { c.tracker with requests := [] } }
              with readyqueue := (setConn { s with readyqueue := rq } id { c with tracker := { c.tracker with requests := [] } }).readyqueue ++ [id] } : RState) :=
            MStep.of_setc (c' := { c with tracker := { c.tracker with requests := [] } }) hcn' rfl rfl rfl rfl rfl rfl
          exact (consumeLoop_mi _ (h.step (la.trans (ackDeviceData_mstep _ id))) h1).step (wakeTurnMoved_mstep h2)

end Router
