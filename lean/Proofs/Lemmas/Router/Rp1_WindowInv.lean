/-
C09: `OutInv` holds for the window of every live connection in every reachable state.
-/
import Proofs.Lemmas.Router.Rp1_Window
namespace Router

def AllOut (s : RState) : Prop := ∀ id c, getConn s id = some c → OutInv c.out

theorem AllOut.init (cfg : Config) : AllOut (init cfg) := fun id c h => by
  simp [Router.init, getConn, Slab.get?] at h

theorem AllOut.congr {s s' : RState} (h : AllOut s) (hc : s'.conns = s.conns) : AllOut s' := fun id c hl =>
  h id c (by unfold getConn at hl ⊢; rw [← hc]; exact hl)

theorem AllOut.core {s s' : RState} (h : AllOut s) (hc : CoreEq s s') : AllOut s' := h.congr hc.1

theorem AllOut.shape_ra {id : Nat} {s s' : RState} (h : AllOut s) (hs : Shape (RA id) s s') : AllOut s' :=
  fun j c' hl => by
    obtain ⟨c, hc, r⟩ := hs.live' hl
    obtain ⟨n, e1, e2⟩ := r.2.2
    exact (h j c hc).dropForget n e1 e2

theorem AllOut.shape_rt {s s' : RState} (h : AllOut s) (hs : Shape RT s s') : AllOut s' :=
  h.shape_ra (id := 0) hs.rt_ra

theorem AllOut.handleDisconnection {s s' : RState} {id : Nat} {r : Option String} (hi : AllOut s)
    (h : handleDisconnection s id r = .ok s') : AllOut s' := by
  rcases handleDisconnection_effect h with ⟨_, rfl⟩ | ⟨c, s1, logs, hc, e1, _, _, _, hw⟩
  · exact hi
  · refine AllOut.shape_rt (s := s1) ?_ (wakeParked_shape hw)
    intro j d hl
    rw [getConn_remove s s1 id j e1] at hl
    by_cases hj : j = id
    · simp [hj] at hl
    · simp only [hj, if_false] at hl; exact hi j d hl

theorem AllOut.hnRegister {s s' : RState} {spec : ConnectSpec} (ha : AdmInv s) (hi : AllOut s)
    (hnone : alookup spec.clientId s.connectionMap = none) (hroom : s.conns.len < s.config.maxConnections)
    (h : hnRegister s spec = .ok s') : AllOut s' := by
  obtain ⟨_, hr⟩ := hnRegister_ok h
  obtain ⟨e1, e2, e3⟩ := hnPre_core s spec
  obtain ⟨_, _, hnew, hold⟩ := AdmInv.register (conn' := { hnConn spec (hnRestored s spec) with
      acks := { committed := hnAcks spec (hnKey s spec) (hnSession s spec).isSome (hnRestored s spec) } })
    ha hnone hroom rfl e1 e2 e3
  refine AllOut.shape_rt (fun j d hl => ?_) (reschedule_shape hr)
  by_cases hj : j = hnKey s spec
  · subst hj
    have hnew' : getConn (hnPre s spec) (hnKey s spec) = some _ := hnew
    rw [hnew'] at hl
    simp only [Option.some.injEq] at hl; subst hl
    exact OutInv.empty _
  · have : getConn (hnPre s spec) j = getConn s j := hold j hj
    rw [this] at hl; exact hi j d hl

theorem AllOut.handleNewConnection {s s' : RState} {spec : ConnectSpec} (ha : AdmInv s) (hi : AllOut s)
    (h : handleNewConnection s spec = .ok s') : AllOut s' := by
  rw [handleNewConnection_eq] at h
  simp only [] at h
  have h0 : AdmInv (setLink s spec.link {}) := ha.congr rfl rfl rfl
  have i0 : AllOut (setLink s spec.link {}) := hi.congr rfl
  split at h
  · simp only [Except.ok.injEq] at h; subst h; exact i0.congr rfl
  · split at h
    · simp at h
    · rename_i s1 h1
      obtain ⟨a1, hnone, _⟩ := hnTakeover_spec h0 h1
      have i1 : AllOut s1 := by
        unfold hnTakeover at h1
        split at h1
        · exact i0.handleDisconnection h1
        · simp only [Except.ok.injEq] at h1; subst h1; exact i0
      split at h
      · simp only [Except.ok.injEq] at h; subst h; exact i1.congr rfl
      · rename_i hroom
        exact AllOut.hnRegister a1 i1 hnone (by omega) h

/-! ### `forward_device_data` pushes at most `free_slots` QoS>0 publishes -/

theorem fdRetained_len {s s' : RState} {req : DataRequest} {slots slots' : Nat} {ps : List (Pub × Option Cursor)}
    (h : fdRetained s req slots = .ok (s', ps, slots')) : ps.length + slots' ≤ slots := by
  unfold fdRetained at h
  split at h
  · split at h
    · simp at h
    · simp only [Except.ok.injEq, Prod.mk.injEq] at h
      obtain ⟨_, rfl, rfl⟩ := h
      simp only [List.length_map, List.length_take]
      omega
  · simp only [Except.ok.injEq, Prod.mk.injEq] at h
    obtain ⟨_, rfl, rfl⟩ := h
    simp

theorem fdSlots_le (s : RState) (c : Conn) (qos : Nat) (grp : Option SharedGroup) (hq : qos ≠ 0)
    (hf : c.out.freeSlots ≠ 0) : fdSlots s c qos grp ≤ c.out.freeSlots := by
  unfold fdSlots
  split
  · split
    · omega
    · simp
  · simp [hq]

theorem fdOut_inv {c : Conn} {req : DataRequest} {pubs : List (Pub × Option Cursor)} (h : OutInv c.out)
    (hl : req.qos ≠ 0 → pubs.length ≤ c.out.freeSlots) : OutInv (fdOut c req pubs).1 := by
  unfold fdOut
  split
  · exact h
  · rename_i hq
    refine OutInv.numberForwards _ _ _ _ h ?_
    have := hl hq
    have h1 := h.1
    unfold Outgoing.freeSlots at this
    unfold fdFwds
    simp only [List.length_map]
    omega

theorem fdPush_conn {s s' : RState} {id : Nat} {c : Conn} {req req' : DataRequest} {grp : Option SharedGroup}
    {pubs : List (Pub × Option Cursor)} {cu : Bool} {st : ConsumeStatus} (hc : getConn s id = some c)
    (h : fdPush s id c req grp pubs cu = .ok (s', req', st)) :
    getConn s' id = some { c with out := (fdOut c req pubs).1, brokerAliases := (fdAliases c req.filter).1 } := by
  unfold fdPush at h
  simp only [] at h
  split at h
  · simp at h
  · rename_i s1 h1
    have e := (fdGroupUpd_core h1).getConn id
    have e2 := getConn_setConn_live hc { c with out := (fdOut c req pubs).1, brokerAliases := (fdAliases c req.filter).1 } id
    simp only [if_true] at e2
    have e3 : getConn s1 id = some { c with out := (fdOut c req pubs).1, brokerAliases := (fdAliases c req.filter).1 } :=
      e.trans e2
    split at h
    all_goals
      simp only [Except.ok.injEq, Prod.mk.injEq] at h; obtain ⟨rfl, _⟩ := h
      exact e3

/-- what one sweep does to the window of the served connection -/
theorem forwardDeviceData_out {s s' : RState} {id : Nat} {c : Conn} {req req' : DataRequest} {st : ConsumeStatus}
    (hc : getConn s id = some c) (ho : OutInv c.out)
    (h : forwardDeviceData s id req = .ok (s', req', st)) :
    ∃ c', getConn s' id = some c' ∧ OutInv c'.out := by
  rw [forwardDeviceData_eq] at h
  simp only [hc] at h
  split at h
  · simp only [Except.ok.injEq, Prod.mk.injEq] at h; obtain ⟨rfl, _⟩ := h; exact ⟨c, hc, ho⟩
  · rename_i hfull
    split at h
    · simp at h
    · rename_i s1 rp slots h1
      have a := fdRetained_core h1
      have hlen := fdRetained_len h1
      have hc1 : getConn s1 id = some c := by rw [a.getConn]; exact hc
      split at h
      · simp at h
      · rename_i fd hfd
        split at h
        · simp only [Except.ok.injEq, Prod.mk.injEq] at h; obtain ⟨rfl, _⟩ := h; exact ⟨c, hc1, ho⟩
        · split at h
          · simp only [Except.ok.injEq, Prod.mk.injEq] at h; obtain ⟨rfl, _⟩ := h; exact ⟨c, hc1, ho⟩
          · refine ⟨_, fdPush_conn hc1 h, ?_⟩
            refine fdOut_inv ho fun hq => ?_
            have hq' : (fdReq0 req (fdGrp s req)).qos ≠ 0 := hq
            have hfree : c.out.freeSlots ≠ 0 := fun e => hfull (by simp [hq', e])
            have hs := fdSlots_le s c _ (fdGrp s req) hq' hfree
            have hr := CLog.Log.readv_length fd.log (fdReq0 req (fdGrp s req)).cursor slots
            simp only [List.length_append, List.length_map]
            omega

theorem AllOut.forwardDeviceData {s s' : RState} {id : Nat} {req req' : DataRequest} {st : ConsumeStatus}
    (hi : AllOut s) (h : forwardDeviceData s id req = .ok (s', req', st)) : AllOut s' := by
  have hs := forwardDeviceData_shape h
  intro j d hl
  by_cases hj : j = id
  · subst hj
    obtain ⟨c, hc, _⟩ := hs.live' hl
    obtain ⟨c', hc', ho⟩ := forwardDeviceData_out hc (hi j c hc) h
    rw [hc'] at hl; simp only [Option.some.injEq] at hl; subst hl; exact ho
  · obtain ⟨c, hc, r⟩ := hs.live' hl
    rw [(r.2 hj).out]; exact hi j c hc

theorem AllOut.consumeLoop {id : Nat} : ∀ (fuel : Nat) {s s' : RState} {requests skipped : List DataRequest},
    AllOut s → consumeLoop s id fuel requests skipped = .ok s' → AllOut s'
  | 0, s, s', requests, skipped, hi, h => by
    simp only [Router.consumeLoop] at h
    exact hi.shape_rt (trackv_shape h)
  | fuel + 1, s, s', requests, skipped, hi, h => by
    cases requests with
    | nil =>
      simp only [Router.consumeLoop] at h
      split at h
      · simp at h
      · rename_i s1 h1
        have a : AllOut s1 := by
          split at h1
          · exact hi.shape_rt (pause_shape h1)
          · simp only [Except.ok.injEq] at h1; subst h1; exact hi
        exact a.shape_rt (trackv_shape h)
    | cons req rest =>
      simp only [Router.consumeLoop] at h
      split at h
      · simp at h
      · rename_i s1 req1 st h1
        have a : AllOut (noteTurn s s1 req1) := (hi.forwardDeviceData h1).core (noteTurn_core s s1 req1)
        split at h
        · split at h
          · simp at h
          · rename_i s2 h2
            exact (a.shape_rt (pause_shape h2)).shape_rt (trackv_shape h)
        · split at h
          · simp at h
          · rename_i s2 h2
            exact (a.shape_rt (pause_shape h2)).shape_rt (trackv_shape h)
        · split at h
          · simp at h
          · rename_i s2 h2
            exact AllOut.consumeLoop fuel (a.core (park_core h2)) h
        · exact AllOut.consumeLoop fuel a h
        · exact AllOut.consumeLoop fuel a h

theorem AllOut.consume {s s' : RState} {b : Bool} (hi : AllOut s) (h : consume s = .ok (s', b)) : AllOut s' := by
  unfold Router.consume at h
  split at h
  · simp only [Except.ok.injEq, Prod.mk.injEq] at h; obtain ⟨rfl, _⟩ := h; exact hi.congr rfl
  · rename_i id rq hq
    simp only [] at h
    split at h
    · simp only [Except.ok.injEq, Prod.mk.injEq] at h; obtain ⟨rfl, _⟩ := h; exact hi.congr rfl
    · rename_i c hc
      split at h
      · simp at h
      · rename_i s1 h1
        split at h
        · simp at h
        rename_i s2 h2
        simp only [Except.ok.injEq, Prod.mk.injEq] at h; obtain ⟨rfl, _⟩ := h
        refine AllOut.shape_rt ?_ (wakeTurnMoved_shape h2)
        have hc' : getConn s id = some c := hc
        have a : Shape RT s ({ setConn { s with readyqueue := rq } id { c with tracker := { c.tracker with requests := [] } }
            with readyqueue := (setConn { s with readyqueue := rq } id { c with tracker := { c.tracker with requests := [] } }).readyqueue ++ [id] } : RState) :=
          Shape.of_set hc' rfl rfl rfl (RT.mk id c _)
        exact AllOut.consumeLoop _ ((hi.shape_rt a).shape_ra (ackDeviceData_shape _ id).ro_ra) h1

theorem AllOut.events {s s' : RState} {id : Nat} {ev : Event} (hi : AllOut s) (h : events s id ev = .ok s') :
    AllOut s' := by
  obtain ⟨s1, hs, h' | ⟨r, hd⟩⟩ := events_split h
  · subst h'; exact hi.shape_ra hs
  · exact (hi.shape_ra hs).handleDisconnection hd

/-- the C09 + C19 invariants together (the registration step needs the slab invariant) -/
structure Inv1 (s : RState) : Prop where
  adm : AdmInv s
  out : AllOut s

theorem Inv1.step {s s' : RState} {op : Op} {out : Out} (hi : Inv1 s) (h : step s op = .ok (s', out)) : Inv1 s' := by
  refine ⟨hi.adm.step h, ?_⟩
  cases step_cases h with
  | connect spec h' => exact AllOut.handleNewConnection hi.adm hi.out h'
  | event id ev h' => exact hi.out.events h'
  | consume b h' => exact hi.out.consume h'
  | push l p h' => exact hi.out.core h'
  | drain l h' => exact hi.out.core h'

theorem Inv1.reachable {cfg : Config} {s : RState} (hr : Reachable cfg s) : Inv1 s :=
  hr.induction Inv1 ⟨AdmInv.init cfg, AllOut.init cfg⟩ fun _ o _ _ _ hi h =>
    Inv1.step ⟨hi.adm.oracle o, hi.out.congr rfl⟩ h

end Router
