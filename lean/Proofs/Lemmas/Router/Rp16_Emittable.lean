/-
C20 — tying `Encode.Emittable` to the router model (PARTIAL: function / step level, see MERGE10.md).
The router model does not record the protocol version of a connection. What it records is what the
version decides: `brokerAliases` (set at CONNECT iff `topic_alias_max > 0`, an MQTT 5 CONNECT property)
and `subscriptionIds` (filled by SUBSCRIBE packets with a subscription identifier, an MQTT 5 property).
`V4Like c` — neither is present — is the model-level reading of "came through a v4 listener".
-/
import Model.Encode
import Proofs.Lemmas.Router.Rp15_Window
import Proofs.Lemmas.Router.Rp2_Consume
namespace Router
open Encode Codec

/-- the model-level reading of the version of a connection: `v4` iff it has no broker aliases and no
    subscription identifiers -/
def versionOf (c : Conn) : Admission.Version :=
  if c.brokerAliases.isNone && c.subscriptionIds.isEmpty then Admission.Version.v4 else Admission.Version.v5

/-- value ranges of the Rust field types of an incoming packet (what the decoder can deliver):
    `u16` packet ids, QoS ≤ 2, topic through a 16-bit length prefix, subscription identifier in
    variable-byte range, SUBSCRIBE / UNSUBSCRIBE small enough for their ack to fit a frame -/
def PacketOk : Packet → Bool
  | .publish p => decide (p.pkid < 65536) && decide (p.qos ≤ 2) && decide (p.topic.length ≤ 65535)
  | .subscribe pkid subId fs => decide (pkid < 65536) && decide (2 + fs.length + 1 ≤ remainingLimit) &&
      fs.all (fun f => decide (f.qos ≤ 2)) &&
      (match subId with | some i => decide (i ≤ remainingLimit) | none => true)
  | .unsubscribe pkid fs => decide (pkid < 65536) && decide (2 + fs.length + 1 ≤ remainingLimit)
  | .puback k | .pubrec k | .pubcomp k => decide (k < 65536)
  | .pubrel k _ => decide (k < 65536)
  | _ => true

/-- input-range hypothesis on an op: only link pushes carry data from the wire -/
def OpOk : Op → Bool
  | .push _ pkt => PacketOk pkt
  | _ => true

/-- the reply owed to a packet in range is in range -/
theorem reply_acks_ok {pkt : Packet} {as : List Ack} (hp : PacketOk pkt = true) (hr : IsReplyTo pkt as) :
    ∀ a ∈ as, ackOk a = true := by
  intro a ha
  cases pkt with
  | publish p =>
    simp only [IsReplyTo] at hr
    simp only [PacketOk, Bool.and_eq_true, decide_eq_true_eq] at hp
    subst hr
    split at ha
    · simp only [List.mem_singleton] at ha; subst ha; simp [ackOk, hp.1.1]
    · split at ha
      · simp only [List.mem_singleton] at ha; subst ha; simp [ackOk, hp.1.1]
      · cases ha
  | subscribe pkid subId fs =>
    obtain ⟨codes, rfl, ⟨k, hk, rfl⟩, _⟩ := hr
    simp only [PacketOk, Bool.and_eq_true, decide_eq_true_eq] at hp
    simp only [List.mem_singleton] at ha; subst ha
    simp only [ackOk, Bool.and_eq_true, decide_eq_true_eq, List.length_map, List.length_take]
    exact ⟨hp.1.1.1, by have := hp.1.1.2; omega⟩
  | unsubscribe pkid fs =>
    obtain ⟨rs, rfl, hl⟩ := hr
    simp only [PacketOk, Bool.and_eq_true, decide_eq_true_eq] at hp
    simp only [List.mem_singleton] at ha; subst ha
    simp only [ackOk, Bool.and_eq_true, decide_eq_true_eq]
    exact ⟨hp.1, by rw [hl]; exact hp.2⟩
  | puback k => simp only [IsReplyTo] at hr; subst hr; cases ha
  | pubrec k =>
    simp only [PacketOk, decide_eq_true_eq] at hp
    rcases hr with rfl | rfl
    · cases ha
    · simp only [List.mem_singleton] at ha; subst ha; simp [ackOk, hp]
  | pubrel k b =>
    simp only [PacketOk, decide_eq_true_eq] at hp
    simp only [IsReplyTo] at hr; subst hr
    simp only [List.mem_singleton] at ha; subst ha; simp [ackOk, hp]
  | pubcomp k => simp only [IsReplyTo] at hr; subst hr; cases ha
  | pingreq => simp only [IsReplyTo] at hr; subst hr; simp only [List.mem_singleton] at ha; subst ha; rfl
  | disconnect => simp only [IsReplyTo] at hr; subst hr; cases ha
  | other => simp only [IsReplyTo] at hr; subst hr; cases ha

/-! ### forwards -/

/-- a publish as the router stores it (log entry, retained message): no alias, no subscription ids
    (`append_to_commitlog` strips the alias and rejects subscription ids), field ranges of the Rust types,
    and properties flagged if there are pass-through properties -/
def StoredOk (p : Pub) (extra : Props) : Bool :=
  p.alias.isNone && p.subIds.isEmpty && decide (p.pkid < 65536) && decide (p.topic.length ≤ 65535) &&
  (p.hasProps || extra.isEmpty)

/-- the frame limit, for every forward the router can build from the stored publish (the broker's
    alias and one subscription identifier add at most a few bytes; stated for all of them) -/
def FitsForward (p : Pub) (extra : Props) : Prop :=
  ∀ qos alias ex sid pk,
    V5.publishLen (qosOf qos) (mkForward qos alias ex sid p).topic pk p.payload
      (forwardProps (mkForward qos alias ex sid p) extra) ≤ remainingLimit

theorem mkForward_payload (qos : Nat) (alias : Option Nat) (ex : Bool) (sid : Option Nat) (p : Pub) :
    (mkForward qos alias ex sid p).payload = p.payload ∧ (mkForward qos alias ex sid p).qos = qos := by
  unfold mkForward; cases alias <;> cases ex <;> cases sid <;> exact ⟨rfl, rfl⟩

/-- a forward built from a stored publish, with the packet id the router gives it, is `pubOk` -/
theorem mkForward_pubOk {p : Pub} {extra : Props} {qos pk : Nat} {alias : Option Nat} {ex : Bool} {sid : Option Nat}
    (hs : StoredOk p extra = true) (hx : extraOk extra = true) (hfit : FitsForward p extra)
    (hq : qos ≤ 2) (hpk : pk < 65536) (hpk0 : qos ≠ 0 → pk ≠ 0)
    (ha : ∀ a, alias = some a → a < 65536) (hsid : ∀ i, sid = some i → i ≤ remainingLimit) :
    pubOk { mkForward qos alias ex sid p with pkid := pk } extra = true ∧
    (alias = none → sid = none →
      ({ mkForward qos alias ex sid p with pkid := pk } : Pub).alias.isNone = true ∧
      ({ mkForward qos alias ex sid p with pkid := pk } : Pub).subIds.isEmpty = true) := by
  simp only [StoredOk, Bool.and_eq_true, decide_eq_true_eq, Option.isNone_iff_eq_none, List.isEmpty_iff,
    Bool.or_eq_true] at hs
  obtain ⟨⟨⟨⟨h1, h2⟩, h3⟩, h4⟩, h5⟩ := hs
  have hsz := hfit qos alias ex sid pk
  have hpay := (mkForward_payload qos alias ex sid p).1
  have hfp : forwardProps ({ mkForward qos alias ex sid p with pkid := pk } : Pub) extra =
      forwardProps (mkForward qos alias ex sid p) extra := rfl
  constructor
  · unfold pubOk
    simp only [hfp, hx, Bool.and_true]
    have hsz' : V5.publishLen (qosOf ({ mkForward qos alias ex sid p with pkid := pk } : Pub).qos)
        ({ mkForward qos alias ex sid p with pkid := pk } : Pub).topic pk
        ({ mkForward qos alias ex sid p with pkid := pk } : Pub).payload
        (forwardProps (mkForward qos alias ex sid p) extra) ≤ remainingLimit := by
      show V5.publishLen (qosOf (mkForward qos alias ex sid p).qos) (mkForward qos alias ex sid p).topic pk
        (mkForward qos alias ex sid p).payload _ ≤ remainingLimit
      rw [hpay, (mkForward_payload qos alias ex sid p).2]; exact hsz
    simp only [hsz', decide_true, Bool.and_true]
    have hpk0' : qos = 0 ∨ ¬ pk = 0 := by
      by_cases h : qos = 0
      · exact .inl h
      · exact .inr (hpk0 h)
    unfold mkForward
    cases alias with
    | none =>
      cases sid with
      | none =>
        cases ex <;> simp [h1, h2, hq, hpk, hpk0', h4, h5]
      | some i =>
        have := hsid i rfl
        cases ex <;> simp [h1, h2, hq, hpk, hpk0', h4, this]
    | some a =>
      have haa := ha a rfl
      cases sid with
      | none => cases ex <;> simp [h2, hq, hpk, hpk0', h4, haa]
      | some i =>
        have := hsid i rfl
        cases ex <;> simp [h2, hq, hpk, hpk0', h4, haa, this]
  · rintro rfl rfl
    unfold mkForward
    cases ex <;> simp [h1, h2]

theorem mkForward_pkid (qos : Nat) (alias : Option Nat) (ex : Bool) (sid : Option Nat) (p : Pub) :
    (mkForward qos alias ex sid p).pkid = p.pkid := by
  unfold mkForward; cases alias <;> cases ex <;> cases sid <;> rfl

/-- what `push_forwards` for QoS > 0 produces: the accumulated notifications, then one forward per
    publish with a packet id between 1 and `MAX_INFLIGHT` -/
theorem numberForwards_mem (idx : Nat) : ∀ (fwds : List (Pub × Option Cursor)) (o : Outgoing) (acc : List Notif),
    o.lastPkid < MAX_INFLIGHT → ∀ n ∈ (numberForwards o idx fwds acc).2,
    n ∈ acc ∨ ∃ p cur pk, (p, cur) ∈ fwds ∧ 1 ≤ pk ∧ pk ≤ MAX_INFLIGHT ∧ n = .forward { p with pkid := pk } cur
  | [], o, acc, _, n, hn => .inl hn
  | (p, cur) :: rest, o, acc, hl, n, hn => by
    simp only [numberForwards] at hn
    have hl' : (if o.lastPkid + 1 = MAX_INFLIGHT then 0 else o.lastPkid + 1) < MAX_INFLIGHT := by
      split
      · simp [MAX_INFLIGHT]
      · omega
    rcases numberForwards_mem idx rest _ _ hl' n hn with h | ⟨p', cur', pk, hm, h1, h2, rfl⟩
    · rcases List.mem_append.mp h with h | h
      · exact .inl h
      · simp only [List.mem_singleton] at h
        exact .inr ⟨p, cur, o.lastPkid + 1, List.mem_cons_self, by omega, by omega, h⟩
    · exact .inr ⟨p', cur', pk, List.mem_cons_of_mem _ hm, h1, h2, rfl⟩

/-- no broker alias without broker aliases, and every alias handed out is at most `max` -/
def AliasesOk (c : Conn) : Prop :=
  ∀ b, c.brokerAliases = some b → b.max < 65536 ∧ ∀ q ∈ b.aliases, q.2 ≤ b.max

theorem fdAliases_bound {c : Conn} (h : AliasesOk c) (f : String) :
    (c.brokerAliases = none → (fdAliases c f).2 = none) ∧ ∀ a, (fdAliases c f).2 = some a → a < 65536 := by
  unfold fdAliases aliasesFor
  by_cases hw : Topic.hasWildcards f.toList = true
  · simp [hw]
  · cases hb : c.brokerAliases with
    | none => simp [hw]
    | some b =>
      obtain ⟨hmax, hall⟩ := h b hb
      simp only [hw, Bool.false_eq_true, if_false, Option.bind_some, reduceCtorEq, false_imp_iff, true_and]
      intro a ha
      cases hl : alookup f b.aliases with
      | some a0 =>
        rw [hl] at ha; simp only [Option.some.injEq] at ha; subst ha
        have := hall (f, a0) (mem_of_alookup hl); simp only [] at this; omega
      | none =>
        rw [hl] at ha
        simp only [BrokerAliases.setNew] at ha
        split at ha
        · cases ha
        · rename_i hk
          simp only [Option.some.injEq] at ha; subst ha; omega

/-- C20, sweep level: every notification one sweep builds for connection `c` (`fdOut`: the forwards of the
    retained replay and of the log entries read) is `Emittable` for the version the model attributes to
    `c` — in particular towards a `V4`-like connection no forward carries an alias or a subscription id —,
    provided the publishes it is built from are as the router stores them -/
theorem fdOut_emittable {c : Conn} {req : DataRequest} {pubs : List (Pub × Option Cursor)} {extra : Props}
    (hsrc : ∀ pc ∈ pubs, StoredOk pc.1 extra = true ∧ FitsForward pc.1 extra) (hx : extraOk extra = true)
    (hq : req.qos ≤ 2) (hlast : c.out.lastPkid < MAX_INFLIGHT) (hal : AliasesOk c)
    (hsid : ∀ i, alookup req.filter c.subscriptionIds = some i → i ≤ remainingLimit) :
    ∀ n ∈ (fdOut c req pubs).2, Emittable (versionOf c) extra n = true := by
  intro n hn
  obtain ⟨hal0, hal1⟩ := fdAliases_bound hal req.filter
  -- the forward before numbering
  have key : ∀ p cur pk, (p, cur) ∈ fdFwds c req pubs → pk < 65536 → (req.qos ≠ 0 → pk ≠ 0) →
      Emittable (versionOf c) extra (.forward { p with pkid := pk } cur) = true := by
    intro p cur pk hm h1 h2
    unfold fdFwds at hm
    obtain ⟨pc, hpc, e⟩ := List.mem_map.mp hm
    simp only [Prod.mk.injEq] at e
    obtain ⟨rfl, _⟩ := e
    obtain ⟨hs, hf⟩ := hsrc pc hpc
    obtain ⟨k1, k2⟩ := mkForward_pubOk (ex := ((aliasesFor c req.filter).bind (fun b => alookup req.filter b.aliases)).isSome)
      hs hx hf hq h1 h2 hal1 hsid
    unfold Emittable
    simp only [k1, Bool.true_and]
    unfold versionOf
    by_cases hv : (c.brokerAliases.isNone && c.subscriptionIds.isEmpty) = true
    · rw [if_pos hv]
      simp only [Bool.and_eq_true, Option.isNone_iff_eq_none, List.isEmpty_iff] at hv
      have hs0 : alookup req.filter c.subscriptionIds = none := by rw [hv.2]; rfl
      obtain ⟨a, b⟩ := k2 (hal0 hv.1) hs0
      simp only [a, b, Bool.and_self]
    · rw [if_neg hv]
  unfold fdOut at hn
  split at hn
  · rename_i hq0
    obtain ⟨pc, hpc, rfl⟩ := List.mem_map.mp hn
    have hpk : pc.1.pkid < 65536 := by
      unfold fdFwds at hpc
      obtain ⟨pc0, hpc0, rfl⟩ := List.mem_map.mp hpc
      have := (hsrc pc0 hpc0).1
      simp only [StoredOk, Bool.and_eq_true, decide_eq_true_eq] at this
      simp only [mkForward_pkid]; exact this.1.1.2
    have := key pc.1 pc.2 pc.1.pkid hpc hpk (fun h => absurd hq0 h)
    exact this
  · rcases numberForwards_mem req.filterIdx _ _ _ hlast n hn with h | ⟨p, cur, pk, hm, h1, h2, rfl⟩
    · cases h
    · exact key p cur pk hm (by simp [MAX_INFLIGHT] at h2; omega) (fun _ => by omega)

/-! ### acks: from the packet to the ack log to the link buffer -/

/-- every reply registered in an ack log (not yet flushed) is in range -/
def AckLogsOk (s : RState) : Prop := ∀ id c, getConn s id = some c → ∀ a ∈ c.acks.committed, ackOk a = true

/-- one packet in range, handled for a live connection (`handle_device_payload` checks that): the link
    buffers are untouched and the ack logs stay in range -/
theorem handlePacket_acklogs {s s' : RState} {id : Nat} {cid : String} {pkt : Packet} {fl fl' : Flags}
    (hp : PacketOk pkt = true) (hi : AckLogsOk s) (hlive : ∃ c, getConn s id = some c)
    (h : handlePacket s id cid pkt fl = .ok (s', fl')) :
    s'.links = s.links ∧ AckLogsOk s' := by
  obtain ⟨as, hr, ha, _⟩ := handlePacket_reply h
  refine ⟨ha.links, fun j c' hc' a hm => ?_⟩
  by_cases hj : j = id
  · subst hj
    obtain ⟨c, hc⟩ := hlive
    obtain ⟨c1, hc1, e, _⟩ := ha.own c hc
    rw [hc'] at hc1; cases hc1
    rw [e] at hm
    rcases List.mem_append.mp hm with h1 | h1
    · exact hi j c hc a h1
    · exact reply_acks_ok hp hr a h1
  · have := ha.others j hj
    rw [hc'] at this
    cases hc : getConn s j with
    | none => rw [hc] at this; simp at this
    | some c =>
      rw [hc] at this
      simp only [Option.map_some, Option.some.injEq, Conn.view, Prod.mk.injEq] at this
      exact hi j c hc a (by rw [← this.1]; exact hm)

/-- the flush: what `ack_device_data` appends to the link buffer is `Emittable` for either version -/
theorem ackDeviceData_emittable {s : RState} {id : Nat} {c : Conn} (hc : getConn s id = some c) (hi : AckLogsOk s)
    (v : Admission.Version) (extra : Props) :
    (getLink (ackDeviceData s id) c.link).obuf = (getLink s c.link).obuf ++ c.acks.committed.map Notif.ack ∧
    (∀ n ∈ c.acks.committed.map Notif.ack, Emittable v extra n = true) ∧
    (∀ l, l ≠ c.link → getLink (ackDeviceData s id) l = getLink s l) := by
  obtain ⟨a, b, _, _⟩ := ackDeviceData_spec s id c hc
  refine ⟨a, fun n hn => ?_, b⟩
  obtain ⟨x, hx, rfl⟩ := List.mem_map.mp hn
  exact hi id c hc x hx

end Router
