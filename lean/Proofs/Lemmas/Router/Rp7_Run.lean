/-
C01 `delivery_is_prefix` over whole runs: `consume`, one step, a run.
-/
import Proofs.Lemmas.Router.Rp7_Loop
namespace Router
open Router.Rp3
open CommitLog (Rep logC Issued U64)

/-- a run of a request, followed by a stretch that leaves the logs alone -/
theorem reqRun_snoc_idle {i : Nat} {s s1 s2 : RState} {r r1 : DataRequest} {offs : List Nat}
    (h : ReqRun i s r offs s1 r1) (e : dkey s2 = dkey s1) : ReqRun i s r offs s2 r1 := by
  induction h with
  | done s r => exact reqRun_idle r e
  | sweep hc hp hi hf ho _ ih => exact ReqRun.sweep hc hp hi hf ho (ih e)
  | other hq _ ih => exact ReqRun.other hq (ih e)

/-- under request conservation a connection does not hold a tracked and a parked / notified request
    for the same filter -/
theorem RC.tracked_parked_ne {s : RState} (h : RC s) {a : Nat} {x r : DataRequest}
    (hx : TrackedBy s a x) (hr : Parked s a r ∨ Notified s a r) : x.filter ≠ r.filter := by
  obtain ⟨hK, _, _⟩ := (RC.iff s).mp h
  have hnd := hK.nodup a
  unfold keysOf at hnd
  rw [List.append_assoc, List.map_append] at hnd
  have hdis := (List.nodup_append.mp hnd).2.2
  obtain ⟨c, hc, hm⟩ := hx
  have h1 : x.filter ∈ (trackerKeys s a).map (·.1) := by
    unfold trackerKeys; rw [hc]
    simp only [List.map_map, List.mem_map, Function.comp]
    exact ⟨x, hm, rfl⟩
  have h2 : r.filter ∈ (waiterKeys s a ++ notifKeys s a).map (·.1) := by
    rcases hr with hr | hr
    · obtain ⟨fd, hfd, hw⟩ := parked_iff_mem.mp hr
      refine List.mem_map.mpr ⟨r.key, List.mem_append_left _ (mem_waiterKeys.mpr ⟨fd, hfd, (a, r), hw, rfl, rfl⟩), rfl⟩
    · refine List.mem_map.mpr ⟨r.key, List.mem_append_right _ ?_, rfl⟩
      unfold notifKeys
      exact mem_pickK.mpr ⟨(a, r), hr, rfl, rfl⟩
  exact hdis _ h1 _ h2

/-- ownership in the state from which `consume` has taken the tracked requests of connection `id` -/
theorem takeRequests_own {s : RState} {id : Nat} {c : Conn} (rq : List Nat) (hc : getConn s id = some c) (j : Nat) (x : DataRequest) :
    Own ({ setConn { s with readyqueue := rq } id { c with tracker := { c.tracker with requests := [] } }
        with readyqueue := (setConn { s with readyqueue := rq } id { c with tracker := { c.tracker with requests := [] } }).readyqueue ++ [id] } : RState) j x ↔
      (Own s j x ∧ ¬ (j = id ∧ x ∈ c.tracker.requests)) ∨ (j = id ∧ (Parked s j x ∨ Notified s j x)) := by
  have hget : ∀ j, getConn ({ setConn { s with readyqueue := rq } id { c with tracker := { c.tracker with requests := [] } }
      with readyqueue := (setConn { s with readyqueue := rq } id { c with tracker := { c.tracker with requests := [] } }).readyqueue ++ [id] } : RState) j =
      if j = id then some { c with tracker := { c.tracker with requests := [] } } else getConn s j :=
    fun j => getConn_setConn_live (s := { s with readyqueue := rq }) hc _ j
  unfold Own TrackedBy
  rw [hget]
  have e2 : Parked ({ setConn { s with readyqueue := rq } id { c with tracker := { c.tracker with requests := [] } }
    with readyqueue := (setConn { s with readyqueue := rq } id { c with tracker := { c.tracker with requests := [] } }).readyqueue ++ [id] } : RState) j x ↔ Parked s j x := Iff.rfl
  have e3 : Notified ({ setConn { s with readyqueue := rq } id { c with tracker := { c.tracker with requests := [] } }
    with readyqueue := (setConn { s with readyqueue := rq } id { c with tracker := { c.tracker with requests := [] } }).readyqueue ++ [id] } : RState) j x ↔ Notified s j x := Iff.rfl
  rw [e2, e3]
  by_cases hj : j = id
  · subst hj
    simp only [if_true, Option.some.injEq, exists_eq_left', List.not_mem_nil, false_or, hc, true_and]
    constructor
    · intro h; exact .inr h
    · rintro (⟨h, hn⟩ | h)
      · rcases h with h | h
        · exact absurd h hn
        · exact h
      · exact h
  · simp only [hj, if_false, false_and, not_false_eq_true, and_true, or_false]

/-- `consume()` threads THE request of `(a, f)`: what it forwards to `a` through `f` is a run of
    that request -/
theorem consume_thread {a : Nat} {f : String} {i : Nat} {s s' : RState} {b : Bool} {r : DataRequest}
    (hc : consume s = .ok (s', b)) (hrc : RC s) (hown : Own s a r) (hf : r.filter = f) (hg : r.group = none)
    (hi : r.filterIdx = i) (hat : ReqAt i s r.cursor) :
    ∃ r', Own s' a r' ∧ r'.filter = f ∧ r'.group = none ∧ r'.filterIdx = i ∧ ReqRun i s r (consumeFwd a f s) s' r' := by
  have hk := consume_dkey hc
  unfold consume at hc
  unfold consumeFwd
  cases hq : s.readyqueue.dropWhile (fun id => (s.conns.get? id).isNone) with
  | nil =>
    simp only [hq] at hc ⊢
    simp only [Except.ok.injEq, Prod.mk.injEq] at hc; obtain ⟨rfl, _⟩ := hc
    exact ⟨r, ((OEq.of_conns (s := s) (s' := { s with readyqueue := [] }) rfl rfl rfl rfl rfl).own a r).mpr hown,
      hf, hg, hi, reqRun_idle r hk⟩
  | cons id rq =>
    simp only [hq] at hc ⊢
    by_cases hid : id = a
    · subst hid
      simp only [ne_eq, not_true_eq_false, if_false]
      split at hc
      · rename_i hnone
        rw [hnone]
        simp only [Except.ok.injEq, Prod.mk.injEq] at hc; obtain ⟨rfl, _⟩ := hc
        exact ⟨r, ((OEq.of_conns (s := s) (s' := { s with readyqueue := rq }) rfl rfl rfl rfl rfl).own id r).mpr hown,
          hf, hg, hi, reqRun_idle r hk⟩
      · rename_i c hcn
        rw [hcn]
        simp only []
        have hcn' : getConn s id = some c := hcn
        split at hc
        · simp at hc
        · rename_i s1 h1
          split at hc
          · simp at hc
          · rename_i s2 h2
            simp only [Except.ok.injEq, Prod.mk.injEq] at hc; obtain ⟨rfl, _⟩ := hc
            have mw := wakeTurnMoved_oeq h2
            have kw := wakeTurnMoved_dkey h2
            have ma := ackDeviceData_oeq ({ setConn { s with readyqueue := rq } id { c with tracker := { c.tracker with requests := [] } }
                with readyqueue := (setConn { s with readyqueue := rq } id { c with tracker := { c.tracker with requests := [] } }).readyqueue ++ [id] } : RState) id
            have hk0 : dkey (ackDeviceData ({ setConn { s with readyqueue := rq } id { c with tracker := { c.tracker with requests := [] } }
                with readyqueue := (setConn { s with readyqueue := rq } id { c with tracker := { c.tracker with requests := [] } }).readyqueue ++ [id] } : RState) id) = dkey s := by
              rw [ackDeviceData_dkey]; rfl
            rcases hown with ⟨c', hc', hm⟩ | hrest
            · rw [hcn'] at hc'; cases hc'
              have hnd : ((c.tracker.requests ++ []).map (fun x : DataRequest => x.filter)).Nodup := by
                simpa using (trackerNoDup_iff _).mp (hrc.tracker_nodup hcn')
              obtain ⟨r', o', f', g', i', run⟩ := consumeLoop_thread (f := f) _ h1 hnd (by simpa using hm) hf hg hi
                (reqAt_of_dkey hat hk0)
              exact ⟨r', (mw.own id r').mpr o', f', g', i',
                ReqRun.other (fun _ h => reqAt_of_dkey h hk0) (reqRun_snoc_idle run kw)⟩
            · have hno : ∀ x ∈ c.tracker.requests ++ [], x.filter ≠ f := fun x hx => by
                rw [← hf]
                exact hrc.tracked_parked_ne ⟨c, hcn', by simpa using hx⟩ hrest
              rw [loopFwd_none f id _ _ _ _ hno]
              have o0 := (takeRequests_own rq hcn' id r).mpr (.inr ⟨rfl, hrest⟩)
              have o1 := consumeLoop_own _ h1 id r ((ma.own id r).mpr o0)
              exact ⟨r, (mw.own id r).mpr o1, hf, hg, hi, reqRun_idle r hk⟩
    · simp only [ne_eq, hid, not_false_eq_true, if_true]
      split at hc
      · simp only [Except.ok.injEq, Prod.mk.injEq] at hc; obtain ⟨rfl, _⟩ := hc
        exact ⟨r, ((OEq.of_conns (s := s) (s' := { s with readyqueue := rq }) rfl rfl rfl rfl rfl).own a r).mpr hown,
          hf, hg, hi, reqRun_idle r hk⟩
      · rename_i c hcn
        have hcn' : getConn s id = some c := hcn
        split at hc
        · simp at hc
        · rename_i s1 h1
          split at hc
          · simp at hc
          · rename_i s2 h2
            simp only [Except.ok.injEq, Prod.mk.injEq] at hc; obtain ⟨rfl, _⟩ := hc
            have mw := wakeTurnMoved_oeq h2
            have ma := ackDeviceData_oeq ({ setConn { s with readyqueue := rq } id { c with tracker := { c.tracker with requests := [] } }
                with readyqueue := (setConn { s with readyqueue := rq } id { c with tracker := { c.tracker with requests := [] } }).readyqueue ++ [id] } : RState) id
            have hne : ¬ (a = id ∧ r ∈ c.tracker.requests) := fun h => hid h.1.symm
            have o0 := (takeRequests_own rq hcn' a r).mpr (.inl ⟨hown, hne⟩)
            have o1 := consumeLoop_own _ h1 a r ((ma.own a r).mpr o0)
            exact ⟨r, (mw.own a r).mpr o1, hf, hg, hi, reqRun_idle r hk⟩

end Router

namespace Router
open Router.Rp3
open CommitLog (Rep logC Issued U64)

/-- what `delivery_is_prefix` assumes of a state of the run: connection `a` is live and is the
    connection of client `cid`; the cursor of its request for filter `f` has not been evicted
    (its segment is still retained: "within the configured log retention") -/
def Stays (a : Nat) (cid f : String) (t : RState) : Prop :=
  (∃ c, getConn t a = some c ∧ c.clientId = cid) ∧
  ∀ r, Own t a r → r.filter = f → ∀ fd, t.datalog.native[r.filterIdx]? = some fd → (logC fd.log).head ≤ r.cursor.1

/-- what `delivery_is_prefix` assumes of an op of the run (in the state `t` it is applied to): it is
    not a CONNECT of the same client (which would take the connection over), and a batch of packets
    of connection `a` contains no UNSUBSCRIBE naming `f` -/
def QuietOp (a : Nat) (cid f : String) (t : RState) : Op → Prop
  | .connect spec => spec.clientId ≠ cid
  | .event id .deviceData => id = a → ∀ c, getConn t a = some c → ∀ p ∈ (getLink t c.link).ibuf, f ∉ pktUnsubs p
  | _ => True

/-- the assumptions along a whole run -/
def QuietRun (a : Nat) (cid f : String) : RState → List (Op × List Choice) → Prop
  | s, [] => Stays a cid f s
  | s, (op, ch) :: rest => Stays a cid f s ∧ QuietOp a cid f s op ∧
      ∀ s' out, step { s with oracle := ch } op = .ok (s', out) → QuietRun a cid f s' rest

theorem own_allReqs {s : RState} {a : Nat} {r : DataRequest} (h : Own s a r) : allReqs s r := by
  rcases h with ⟨c, hc, hm⟩ | hp | hn
  · exact .inl ⟨a, c, hc, hm⟩
  · obtain ⟨fd, hfd, hm⟩ := parked_iff_mem.mp hp
    exact .inr (.inl ⟨fd, hfd, (a, r), hm, rfl⟩)
  · exact .inr (.inr ⟨(a, r), hn, rfl⟩)

/-- the start premise of a request's run, from the invariants and the retention assumption -/
theorem reqAt_of_own {s : RState} {a : Nat} {cid f : String} {r : DataRequest} (hi : DLInv s) (hno : NoOverflow s)
    (hcs : CS s) (hst : Stays a cid f s) (hown : Own s a r) (hf : r.filter = f) : ReqAt r.filterIdx s r.cursor := by
  obtain ⟨⟨fd, hfd, hiss⟩, _⟩ := hcs.req r (own_allReqs hown)
  obtain ⟨hist, hrep⟩ := hi.logs fd.log (List.mem_map.mpr ⟨fd, List.mem_of_getElem? hfd, rfl⟩)
  exact ⟨fd, hist, hfd, hrep, hiss, hst.2 r hown hf fd hfd, hno fd (List.mem_of_getElem? hfd) hist hrep⟩

/-- one step threads THE request of `(a, f)` -/
theorem step_thread {a : Nat} {cid f : String} {s s' : RState} {op : Op} {out : Out} {r : DataRequest}
    (h3 : Inv3 s) (hi : DLInv s) (hno : NoOverflow s) (hcs : CS s) (hq : QI s)
    (hs : step s op = .ok (s', out)) (hst : Stays a cid f s) (hst' : ∃ c, getConn s' a = some c ∧ c.clientId = cid)
    (hqo : QuietOp a cid f s op) (hown : Own s a r) (hf : r.filter = f) (hg : r.group = none) :
    ∃ r', Own s' a r' ∧ r'.filter = f ∧ r'.group = none ∧ r'.filterIdx = r.filterIdx ∧
      stepFwd a f s op = List.range' r.cursor.2 (stepFwd a f s op).length ∧
      r'.cursor.2 = r.cursor.2 + (stepFwd a f s op).length := by
  have hb := h3.inv2.binv
  have same : Own s' a r → stepFwd a f s op = [] → ∃ r', Own s' a r' ∧ r'.filter = f ∧ r'.group = none ∧ r'.filterIdx = r.filterIdx ∧
      stepFwd a f s op = List.range' r.cursor.2 (stepFwd a f s op).length ∧
      r'.cursor.2 = r.cursor.2 + (stepFwd a f s op).length := fun ho e => ⟨r, ho, hf, hg, rfl, by rw [e]; rfl, by rw [e]; rfl⟩
  cases op with
  | connect spec =>
    simp only [step] at hs
    split at hs
    · simp at hs
    · rename_i s1 hc
      simp only [Except.ok.injEq, Prod.mk.injEq] at hs; obtain ⟨rfl, _⟩ := hs
      refine same ((handleNewConnection_qi hb h3.inv2.inv1.adm hq hc).2.1 a r hown fun e => ?_) rfl
      obtain ⟨c', hc', e'⟩ := h3.inv2.inv1.adm.map.1 _ _ e
      obtain ⟨c, hca, hcid⟩ := hst.1
      rw [hca] at hc'; cases hc'
      exact hqo (e'.symm.trans hcid)
  | push l p =>
    simp only [step] at hs
    split at hs
    all_goals
      simp only [Except.ok.injEq, Prod.mk.injEq] at hs; obtain ⟨rfl, _⟩ := hs
      first | exact same hown rfl | exact same (((OEq.of_conns rfl rfl rfl rfl rfl).own a r).mpr hown) rfl
  | event id e =>
    simp only [step] at hs
    split at hs
    · simp at hs
    · rename_i s1 he
      simp only [Except.ok.injEq, Prod.mk.injEq] at hs; obtain ⟨rfl, _⟩ := hs
      cases e with
      | deviceData =>
        cases hcid : getConn s id with
        | none =>
          simp only [events, handleDevicePayload, hcid, Except.ok.injEq] at he; subst he
          exact same hown rfl
        | some c =>
          refine same ((handleDevicePayload_qi hb h3.rc hq he).2.2 c hcid a r hown fun hh => ?_) rfl
          obtain ⟨hai, hor⟩ := hh
          subst hai
          rcases hor with hgone | ⟨p, hp, hm⟩
          · obtain ⟨c1, hc1, _⟩ := hst'
            rw [hgone] at hc1; cases hc1
          · exact hqo rfl c hcid p hp (hf ▸ hm)
      | ready =>
        simp only [events] at he
        split at he
        · exact same (((reschedule_oeq he).own a r).mpr hown) rfl
        · simp only [Except.ok.injEq] at he; subst he; exact same hown rfl
      | disconnect =>
        refine same ((handleDisconnection_qi (id := id) (r := none) hq hb.2 he).2.1 a r hown fun e => ?_) rfl
        subst e
        obtain ⟨c1, hc1, _⟩ := hst'
        have he' : handleDisconnection s a none = .ok s1 := he
        rw [handleDisconnection_gone he'] at hc1; cases hc1
      | publishWill c => exact same (((handleLastWill_oeq he).own a r).mpr hown) rfl
      | shadow f' => exact same (((handleShadow_oeq he).own a r).mpr hown) rfl
      | sendMeters => simp only [events, Except.ok.injEq] at he; subst he; exact same hown rfl
      | sendAlerts => simp only [events, Except.ok.injEq] at he; subst he; exact same hown rfl
  | consume =>
    simp only [step] at hs
    split at hs
    · simp at hs
    · rename_i s1 b hc
      simp only [Except.ok.injEq, Prod.mk.injEq] at hs; obtain ⟨rfl, _⟩ := hs
      have hat := reqAt_of_own hi hno hcs hst hown hf
      obtain ⟨r', o', f', g', i', run⟩ := consume_thread (f := f) hc h3.rc hown hf hg rfl hat
      obtain ⟨p1, p2, _⟩ := reqRun_contiguous run hat
      exact ⟨r', o', f', g', i', p1, p2⟩
  | drain l =>
    simp only [step] at hs
    split at hs
    · split at hs
      all_goals
        simp only [Except.ok.injEq, Prod.mk.injEq] at hs; obtain ⟨rfl, _⟩ := hs
        first | exact same hown rfl | exact same (((OEq.of_conns rfl rfl rfl rfl rfl).own a r).mpr hown) rfl
    · simp only [Except.ok.injEq, Prod.mk.injEq] at hs; obtain ⟨rfl, _⟩ := hs; exact same hown rfl

/-- the no-overflow bound at the end of a run held all along -/
theorem NoOverflow.back_run {cfg : Config} (h1 : 1 ≤ cfg.maxSegmentSize) (h2 : 1 ≤ cfg.maxSegmentCount) :
    ∀ (ops : List (Op × List Choice)) {s s2 : RState}, Reachable cfg s → run s ops = .ok s2 → NoOverflow s2 → NoOverflow s
  | [], s, s2, _, h, hno => by simp only [run, Except.ok.injEq] at h; subst h; exact hno
  | (op, ch) :: rest, s, s2, hr, h, hno => by
    simp only [run] at h
    split at h
    · simp at h
    · rename_i s' out hstep
      have hr' : Reachable cfg s' := hr.step hstep
      have hno' := NoOverflow.back_run h1 h2 rest hr' h hno
      have hi0 : DLInv ({ s with oracle := ch } : RState) := (reachable_inv h1 h2 hr).of_dkey rfl
      have hcfg : s'.config = s.config := by rw [config_reachable hr', config_reachable hr]
      have : NoOverflow ({ s with oracle := ch } : RState) :=
        NoOverflow.back (reachable_inv h1 h2 hr') (step_mono hi0 hstep) hcfg hno'
      exact this

/-- C01 `delivery_is_prefix` over a whole run -/
theorem run_thread {cfg : Config} (h1 : 1 ≤ cfg.maxSegmentSize) (h2 : 1 ≤ cfg.maxSegmentCount)
    (hpos : 0 < cfg.maxOutgoingPacketCount) {a : Nat} {cid f : String} :
    ∀ (ops : List (Op × List Choice)) {s s2 : RState} {r : DataRequest}, Reachable cfg s → run s ops = .ok s2 →
    NoOverflow s2 → QuietRun a cid f s ops → Own s a r → r.filter = f → r.group = none →
    ∃ r2, Own s2 a r2 ∧ r2.filter = f ∧ r2.group = none ∧ r2.filterIdx = r.filterIdx ∧
      runFwd a f s ops = List.range' r.cursor.2 (runFwd a f s ops).length ∧
      r2.cursor.2 = r.cursor.2 + (runFwd a f s ops).length
  | [], s, s2, r, _, h, _, _, hown, hf, hg => by
    simp only [run, Except.ok.injEq] at h; subst h
    exact ⟨r, hown, hf, hg, rfl, rfl, rfl⟩
  | (op, ch) :: rest, s, s2, r, hr, h, hno2, hqr, hown, hf, hg => by
    have hrun := h
    simp only [run] at h
    split at h
    · simp at h
    · rename_i s' out hstep
      obtain ⟨hst, hqo, hnext⟩ := hqr
      have hqr' := hnext s' out hstep
      have hr' : Reachable cfg s' := hr.step hstep
      have hno : NoOverflow s := NoOverflow.back_run h1 h2 _ hr hrun hno2
      have hno0 : NoOverflow ({ s with oracle := ch } : RState) := hno
      have hi0 : DLInv ({ s with oracle := ch } : RState) := (reachable_inv h1 h2 hr).of_dkey rfl
      have hcs0 : CS ({ s with oracle := ch } : RState) := (CS.reachable h1 h2 hr hno).oracle ch
      have hq0 : QI ({ s with oracle := ch } : RState) := (QI.reachable h1 h2 hpos hr hno).oracle ch
      have h30 := (Inv3.reachable hr).oracle ch
      have hst0 : Stays a cid f ({ s with oracle := ch } : RState) := hst
      have hqo0 : QuietOp a cid f ({ s with oracle := ch } : RState) op := by
        cases op with
        | event id e => cases e <;> exact hqo
        | _ => exact hqo
      have hst' : Stays a cid f s' := by
        cases rest with
        | nil => exact hqr'
        | cons p rest' => exact hqr'.1
      have hown0 : Own ({ s with oracle := ch } : RState) a r := hown
      obtain ⟨r1, o1, f1, g1, i1, p1, q1⟩ := step_thread h30 hi0 hno0 hcs0 hq0 hstep hst0 hst'.1 hqo0 hown0 hf hg
      obtain ⟨r2, o2, f2, g2, i2, p2, q2⟩ := run_thread h1 h2 hpos rest hr' h hno2 hqr' o1 f1 g1
      refine ⟨r2, o2, f2, g2, i2.trans i1, ?_, ?_⟩
      · simp only [runFwd, hstep, List.length_append]
        rw [← range'_append_range', ← p1, ← q1, ← p2]
      · simp only [runFwd, hstep, List.length_append]
        rw [q2, q1]; omega

end Router
