/-
C17: every client id in a shared group's `clients` is the client id of a live connection that is
subscribed to the group's filter (`MI`). Relation `MStep` (connections keep client id and
subscriptions, the group table is kept), frames.
-/
import Proofs.Lemmas.Router.Rp9_Reach
namespace Router

/-- every member of every shared group is a live connection subscribed to a filter of that group -/
def MI (s : RState) : Prop :=
  ∀ p ∈ s.shared, ∀ cid ∈ p.2.clients, ∃ id c, getConn s id = some c ∧ c.clientId = cid ∧
    ∃ f ∈ c.subscriptions, ∃ path, extractGroup f = some (p.1, path)

/-- every connection stays, with its client id, and keeps (at least) its subscriptions -/
def MConn (s s' : RState) : Prop :=
  ∀ id c, getConn s id = some c → ∃ c', getConn s' id = some c' ∧ c'.clientId = c.clientId ∧
    ∀ f ∈ c.subscriptions, f ∈ c'.subscriptions

theorem MConn.refl (s : RState) : MConn s s := fun _ c h => ⟨c, h, rfl, fun _ h => h⟩
theorem MConn.trans {a b c : RState} (h1 : MConn a b) (h2 : MConn b c) : MConn a c := fun id ca ha => by
  obtain ⟨cb, hb, e1, s1⟩ := h1 id ca ha
  obtain ⟨cc, hc, e2, s2⟩ := h2 id cb hb
  exact ⟨cc, hc, e2.trans e1, fun f hf => s2 f (s1 f hf)⟩

theorem MConn.of_conns {s s' : RState} (hc : s'.conns = s.conns) : MConn s s' :=
  fun id c h => ⟨c, by unfold getConn at h ⊢; rw [hc]; exact h, rfl, fun _ h => h⟩

theorem MConn.of_setc {s s' : RState} {id : Nat} {c c' : Conn} (hc : getConn s id = some c)
    (hconns : s'.conns = s.conns.set id c') (hcid : c'.clientId = c.clientId)
    (hsubs : ∀ f ∈ c.subscriptions, f ∈ c'.subscriptions) : MConn s s' := by
  have hget : ∀ j, getConn s' j = if j = id then some c' else getConn s j := fun j => by
    unfold getConn; rw [hconns]; exact Slab.get?_set_live hc j c'
  intro j d hd
  rw [hget]
  by_cases hj : j = id
  · subst hj; rw [hc] at hd; cases hd; exact ⟨c', by simp, hcid, hsubs⟩
  · simp only [hj, if_false]; exact ⟨d, hd, rfl, fun _ h => h⟩

/-- the members survive: the group table is described entry by entry -/
theorem MI.of_mconn {s s' : RState} (h : MI s) (m : MConn s s')
    (he : ∀ p' ∈ s'.shared, ∀ cid ∈ p'.2.clients,
      (∃ p ∈ s.shared, p.1 = p'.1 ∧ cid ∈ p.2.clients) ∨
      (∃ id c, getConn s' id = some c ∧ c.clientId = cid ∧ ∃ f ∈ c.subscriptions, ∃ path, extractGroup f = some (p'.1, path))) :
    MI s' := by
  intro p' hp' cid hcid
  rcases he p' hp' cid hcid with ⟨p, hp, e, hm⟩ | h0
  · obtain ⟨id, c, hc, hci, f, hf, path, hx⟩ := h p hp cid hm
    obtain ⟨c', hc', e1, e2⟩ := m id c hc
    exact ⟨id, c', hc', e1.trans hci, f, e2 f hf, path, e ▸ hx⟩
  · exact h0

/-- a step that keeps the group table and the connections' identity and subscriptions -/
structure MStep (s s' : RState) : Prop where
  conn : MConn s s'
  shared : s'.shared = s.shared

theorem MStep.refl (s : RState) : MStep s s := ⟨MConn.refl s, rfl⟩
theorem MStep.trans {a b c : RState} (h1 : MStep a b) (h2 : MStep b c) : MStep a c :=
  ⟨h1.conn.trans h2.conn, h2.shared.trans h1.shared⟩

theorem MI.step {s s' : RState} (h : MI s) (m : MStep s s') : MI s' :=
  h.of_mconn m.conn fun p' hp' cid hcid => .inl ⟨p', by rw [← m.shared]; exact hp', rfl, hcid⟩

/-! frames with the argument lists of `LStep.of_conns` / `LStep.of_set` / `LStep.of_setc` (so that the proofs of
    Rp9_Steps carry over) -/

theorem MStep.of_conns {s s' : RState} (hc : s'.conns = s.conns) (_hnat : s'.datalog.native = s.datalog.native)
    (_hfi : s'.datalog.filterIndexes = s.datalog.filterIndexes) (hsh : s'.shared = s.shared)
    (_htm : s'.turnMoved = s.turnMoved) : MStep s s' := ⟨MConn.of_conns hc, hsh⟩

theorem MStep.of_setc {s s' : RState} {id : Nat} {c c' : Conn} (hc : getConn s id = some c)
    (hconns : s'.conns = s.conns.set id c') (hcid : c'.clientId = c.clientId)
    (hsubs : c'.subscriptions = c.subscriptions)
    (_hfi : s'.datalog.filterIndexes = s.datalog.filterIndexes) (hsh : s'.shared = s.shared)
    (_htm : s'.turnMoved = s.turnMoved) : MStep s s' :=
  ⟨MConn.of_setc hc hconns hcid (fun f hf => hsubs ▸ hf), hsh⟩

theorem MStep.of_set {s s' : RState} {id : Nat} {c c' : Conn} (hc : getConn s id = some c)
    (hconns : s'.conns = s.conns.set id c') (_hr : c'.tracker.requests = c.tracker.requests) (hcid : c'.clientId = c.clientId)
    (hsubs : c'.subscriptions = c.subscriptions)
    (hfi : s'.datalog.filterIndexes = s.datalog.filterIndexes) (hsh : s'.shared = s.shared)
    (htm : s'.turnMoved = s.turnMoved) : MStep s s' := MStep.of_setc hc hconns hcid hsubs hfi hsh htm

end Router
