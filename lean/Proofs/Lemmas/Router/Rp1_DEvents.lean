/-
C03: `DInv` (with no notification pending between steps) through `handleDevicePayload`,
`handleLastWill`, `handleShadow` and `events`.
-/
import Proofs.Lemmas.Router.Rp1_DDisc
import Proofs.Lemmas.Router.Local
namespace Router
variable {A : String → Prop}

/-- the invariant between two steps -/
def BInv (s : RState) : Prop := DInv s ∧ s.notifications = []

theorem handleDisconnection_good {s : RState} {id : Nat} {r : Option String} (h : BInv s) :
    Good A BInv (handleDisconnection s id r) := by
  exact handleDisconnection_good' h.1 h.2

theorem drain_all_good {s : RState} (h : DInv s) :
    Good A BInv (drainNotifications { s with notifications := [] } s.notifications) := by
  have h0 : DInv ({ s with notifications := [] } : RState) := h.with_notifications [] (fun n hn => by simp at hn)
  refine (drainNotifications_good s.notifications h0 fun n hn => ?_).mono fun s' q => ⟨q.1, q.2⟩
  exact h.ntf n hn

/-- the DeviceData event for `id` would process a batch with a SUBSCRIBE in it -/
def batchHasSubscribe (s : RState) (id : Nat) : Prop :=
  ∃ c, getConn s id = some c ∧ hasSubscribe (getLink s c.link).ibuf

theorem handleDevicePayload_good {s : RState} {id : Nat} (hpf : batchHasSubscribe s id → A dupPrepareFilter) (h : BInv s) : Good A BInv (handleDevicePayload s id) := by
  unfold handleDevicePayload
  split
  · exact h
  · rename_i c hc
    simp only []
    have h0 : DInv (setLink s c.link { getLink s c.link with ibuf := [] }) := h.1.congr rfl rfl rfl rfl rfl rfl rfl
    have l0 : Live (setLink s c.link { getLink s c.link with ibuf := [] }) id := Live.of_get (c := c) hc
    have hp := handlePackets_good (A := A) (id := id) (cid := c.clientId) (getLink s c.link).ibuf (fun hs => hpf ⟨c, hc, hs⟩) (fl := {}) h0 l0 (fun _ => h.2)
    split
    · rename_i e he; exact Good.error_of he hp
    · rename_i s1 fl h1
      have q1 : PQ (s1, fl) := Good.ok_of h1 hp
      have l1 : Live s1 id := l0.shape (handlePackets_shape _ h1)
      obtain ⟨c1, hc1⟩ := l1.get
      have hr1 : Good A (fun s2 => DInv s2 ∧ s2.notifications = s1.notifications)
          (if fl.forceAck then reschedule s1 id .freshData else .ok s1) := by
        split
        · exact reschedule_good q1.1 hc1 (by simp)
        · exact ⟨q1.1, rfl⟩
      split
      · rename_i e he; exact Good.error_of he hr1
      · rename_i s2 h2
        have q2 := Good.ok_of h2 hr1
        have l2 : Live s2 id := by
          split at h2
          · exact l1.shape (reschedule_shape h2)
          · simp only [Except.ok.injEq] at h2; subst h2; exact l1
        have hr2 : Good A BInv (if fl.newData then drainNotifications { s2 with notifications := [] } s2.notifications
            else .ok s2) := by
          split
          · exact drain_all_good q2.1
          · rename_i hnd
            exact ⟨q2.1, by rw [q2.2]; exact q1.2 (by simpa using hnd)⟩
        split
        · rename_i e he; exact Good.error_of he hr2
        · rename_i s3 h3
          have q3 := Good.ok_of h3 hr2
          have hr3 : Good A BInv (wakeTurnMoved s3) :=
            (wakeTurnMoved_good q3.1).mono fun s' q => ⟨q.1, by rw [q.2]; exact q3.2⟩
          split
          · rename_i e he; exact Good.error_of he hr3
          · rename_i s4 h4
            have q4 := Good.ok_of h4 hr3
            split
            · exact handleDisconnection_good q4
            · exact q4

theorem handleLastWill_good {s : RState} {cid : String} (h : BInv s) : Good A BInv (handleLastWill s cid) := by
  unfold handleLastWill
  split
  · exact h
  · rename_i w hw
    simp only []
    have h0 : DInv (({ s with lastWills := aremove cid s.lastWills } : RState).g (.willFired cid)) :=
      h.1.congr rfl rfl rfl rfl rfl rfl rfl
    split
    · exact ⟨h0, h.2⟩
    · rename_i topic ht
      have hu := updateRetained_dinv h0 topic
        { qos := w.qos, pkid := 0, retain := w.retain, dup := false, topic := w.topic, payload := w.payload }
      have hu' := hu.1.congr (s' := (updateRetained (({ s with lastWills := aremove cid s.lastWills } : RState).g (.willFired cid)) topic
        { qos := w.qos, pkid := 0, retain := w.retain, dup := false, topic := w.topic, payload := w.payload }).g
          (.accepted none { qos := w.qos, pkid := 0, retain := w.retain, dup := false, topic := w.topic, payload := w.payload } topic))
        rfl rfl rfl rfl rfl rfl rfl
      gbind2 (dlMatches_good (topic := topic) hu') with s2 idxs h2 q2
      gbind (appendToFilters_good idxs (p := { qos := w.qos, pkid := 0, retain := false, dup := false, topic := w.topic, payload := w.payload }) q2.1 q2.2.1) with s3 h3 q3
      exact drain_all_good q3

theorem handleShadow_good {s : RState} {id : Nat} {f : String} (h : BInv s) : Good A BInv (handleShadow s id f) := by
  unfold handleShadow
  split
  · exact h
  · split
    · exact h
    · split
      · exact h
      · show DInv _ ∧ _
        split <;> exact ⟨h.1.congr rfl rfl rfl rfl rfl rfl rfl, h.2⟩

theorem events_good {s : RState} {id : Nat} {ev : Event}
    (hpf : ev = .deviceData → batchHasSubscribe s id → A dupPrepareFilter) (h : BInv s) : Good A BInv (events s id ev) := by
  cases ev with
  | deviceData => exact handleDevicePayload_good (hpf rfl) h
  | ready =>
    simp only [events]
    split
    · rename_i hl
      obtain ⟨c, hc⟩ := Live.get (s := s) (id := id) hl
      exact (reschedule_good (r := .ready) h.1 hc (by simp)).mono fun s' q => ⟨q.1, by rw [q.2]; exact h.2⟩
    · exact h
  | disconnect => exact (handleDisconnection_good h : Good A BInv (handleDisconnection s id none))
  | publishWill c => exact handleLastWill_good h
  | shadow f => exact handleShadow_good h
  | sendMeters => exact h
  | sendAlerts => exact h

end Router
