/-
C01 completeness at idle / delivery over runs: which data requests a connection OWNS (tracked,
parked in a waiter list, notified), as requests (not only their keys as in Rp4), and the relation
`OEq s s'` ("the step moved requests between the three places at most; parked requests stayed
parked in the same unchanged log or were woken; subscriptions, graveyard and config are the same").
Primitive operations of the router model.
-/
import Proofs.Lemmas.Router.Rp5_Reach
namespace Router

def TrackedBy (s : RState) (j : Nat) (r : DataRequest) : Prop := ∃ c, getConn s j = some c ∧ r ∈ c.tracker.requests

/-- `(j, r)` is in the waiter list of filter log `i` -/
def ParkedAt (s : RState) (i j : Nat) (r : DataRequest) : Prop :=
  ∃ fd, s.datalog.native[i]? = some fd ∧ (j, r) ∈ fd.waiters

def Parked (s : RState) (j : Nat) (r : DataRequest) : Prop := ∃ i, ParkedAt s i j r

def Notified (s : RState) (j : Nat) (r : DataRequest) : Prop := (j, r) ∈ s.notifications

/-- connection `j` owns the data request `r`: it is in `j`'s tracker, parked for `j` in some filter
    log's waiter list, or on its way back to `j`'s tracker in `notifications` -/
def Own (s : RState) (j : Nat) (r : DataRequest) : Prop := TrackedBy s j r ∨ Parked s j r ∨ Notified s j r

/-- every waiter list of `s'` is empty, or is part of the waiter list of the same, unchanged log in `s` -/
def WSub (s s' : RState) : Prop :=
  ∀ (i : Nat) (fd' : FilterData), s'.datalog.native[i]? = some fd' →
    fd'.waiters = [] ∨ ∃ fd, s.datalog.native[i]? = some fd ∧ fd'.log = fd.log ∧ ∀ w ∈ fd'.waiters, w ∈ fd.waiters

theorem WSub.refl (s : RState) : WSub s s := fun _ fd' h => .inr ⟨fd', h, rfl, fun _ hw => hw⟩

theorem WSub.trans {a b c : RState} (h1 : WSub a b) (h2 : WSub b c) : WSub a c := by
  intro i fd'' h
  rcases h2 i fd'' h with e | ⟨fd', hb, el, hs⟩
  · exact .inl e
  · rcases h1 i fd' hb with e | ⟨fd, ha, el', hs'⟩
    · refine .inl (List.eq_nil_iff_forall_not_mem.mpr fun w hw => ?_)
      have := hs w hw
      rw [e] at this; cases this
    · exact .inr ⟨fd, ha, el.trans el', fun w hw => hs' w (hs w hw)⟩

theorem WSub.of_native {s s' : RState} (h : s'.datalog.native = s.datalog.native) : WSub s s' := by
  intro i fd' hfd
  rw [h] at hfd
  exact .inr ⟨fd', hfd, rfl, fun _ hw => hw⟩

/-- the step moved requests between tracker, waiter lists and `notifications` at most -/
structure OEq (s s' : RState) : Prop where
  own : ∀ j r, Own s' j r ↔ Own s j r
  wsub : WSub s s'
  subs : ∀ j, subsOf s' j = subsOf s j
  grv : s'.graveyard = s.graveyard
  cfg : s'.config = s.config

theorem OEq.refl (s : RState) : OEq s s := ⟨fun _ _ => Iff.rfl, WSub.refl s, fun _ => rfl, rfl, rfl⟩

theorem OEq.trans {a b c : RState} (h1 : OEq a b) (h2 : OEq b c) : OEq a c :=
  ⟨fun j r => (h2.own j r).trans (h1.own j r), h1.wsub.trans h2.wsub, fun j => (h2.subs j).trans (h1.subs j),
   h2.grv.trans h1.grv, h2.cfg.trans h1.cfg⟩

/-- what ownership reads of a connection -/
def oviewOf (s : RState) (j : Nat) : Option (List DataRequest × List String) :=
  (getConn s j).map (fun c => (c.tracker.requests, c.subscriptions))

theorem tracked_of_oview {s s' : RState} {j : Nat} (h : oviewOf s' j = oviewOf s j) :
    (∀ r, TrackedBy s' j r ↔ TrackedBy s j r) ∧ subsOf s' j = subsOf s j := by
  unfold oviewOf at h
  unfold TrackedBy subsOf
  cases h1 : getConn s' j <;> cases h2 : getConn s j <;> simp_all

theorem oviewOf_of_conns {s s' : RState} (h : s'.conns = s.conns) (j : Nat) : oviewOf s' j = oviewOf s j := by
  unfold oviewOf getConn; rw [h]

theorem oviewOf_setConn {s : RState} {id : Nat} {c : Conn} (hc : getConn s id = some c) (c' : Conn) (j : Nat) :
    oviewOf (setConn s id c') j = if j = id then some (c'.tracker.requests, c'.subscriptions) else oviewOf s j := by
  unfold oviewOf
  rw [getConn_setConn_live hc]
  split <;> rfl

theorem parkedAt_of_native {s s' : RState} (h : s'.datalog.native = s.datalog.native) (i j : Nat) (r : DataRequest) :
    ParkedAt s' i j r ↔ ParkedAt s i j r := by unfold ParkedAt; rw [h]

theorem parked_of_native {s s' : RState} (h : s'.datalog.native = s.datalog.native) (j : Nat) (r : DataRequest) :
    Parked s' j r ↔ Parked s j r := by unfold Parked; simp only [parkedAt_of_native h]

/-- a step that leaves the parts ownership reads as they are -/
theorem OEq.of_view {s s' : RState} (hc : ∀ j, oviewOf s' j = oviewOf s j)
    (hnat : s'.datalog.native = s.datalog.native)
    (hn : s'.notifications = s.notifications) (hg : s'.graveyard = s.graveyard)
    (hcfg : s'.config = s.config) : OEq s s' := by
  refine ⟨fun j r => ?_, WSub.of_native hnat, fun j => (tracked_of_oview (hc j)).2, hg, hcfg⟩
  unfold Own Notified
  rw [(tracked_of_oview (hc j)).1 r, parked_of_native hnat, hn]

theorem OEq.of_conns {s s' : RState} (hc : s'.conns = s.conns)
    (hnat : s'.datalog.native = s.datalog.native)
    (hn : s'.notifications = s.notifications) (hg : s'.graveyard = s.graveyard)
    (hcfg : s'.config = s.config) : OEq s s' :=
  OEq.of_view (oviewOf_of_conns hc) hnat hn hg hcfg

/-- a live connection replaced by one with the same tracked requests and subscriptions -/
theorem OEq.of_set {s s' : RState} {id : Nat} {c c' : Conn} (hc : getConn s id = some c)
    (hconns : s'.conns = s.conns.set id c')
    (hr : c'.tracker.requests = c.tracker.requests) (hsub : c'.subscriptions = c.subscriptions)
    (hnat : s'.datalog.native = s.datalog.native)
    (hn : s'.notifications = s.notifications) (hg : s'.graveyard = s.graveyard)
    (hcfg : s'.config = s.config) : OEq s s' := by
  refine OEq.of_view (fun j => ?_) hnat hn hg hcfg
  have e : oviewOf s' j = oviewOf (setConn s id c') j := oviewOf_of_conns (s := setConn s id c') hconns j
  rw [e, oviewOf_setConn hc]
  split
  · rename_i hj; subst hj
    unfold oviewOf; rw [hc]; simp [hr, hsub]
  · rfl

/-! ### primitives that move nothing -/

theorem reschedule_oeq {s s' : RState} {id : Nat} {r : SchedReason} (h : reschedule s id r = .ok s') : OEq s s' := by
  unfold reschedule at h
  split at h
  · simp at h
  · rename_i c hc
    split at h
    · simp at h
    · rename_i t woke ht
      simp only [Except.ok.injEq] at h; subst h
      have e := tryReady_some ht
      split
      · exact OEq.of_set (c' := { c with tracker := t }) hc rfl e rfl rfl rfl rfl rfl
      · exact OEq.of_set (c' := { c with tracker := t }) hc rfl e rfl rfl rfl rfl rfl

theorem reschedule_native {s s' : RState} {id : Nat} {r : SchedReason} (h : reschedule s id r = .ok s') :
    s'.datalog.native = s.datalog.native := by
  unfold reschedule at h
  split at h
  · simp at h
  · split at h
    · simp at h
    · simp only [Except.ok.injEq] at h; subst h; split <;> rfl

theorem commitAck_oeq {s s' : RState} {id : Nat} {a : Ack} (h : commitAck s id a = .ok s') : OEq s s' := by
  unfold commitAck at h
  split at h
  · simp at h
  · rename_i c hc
    simp only [Except.ok.injEq] at h; subst h
    exact OEq.of_set (c' := { c with acks := _ }) hc rfl rfl rfl rfl rfl rfl rfl

theorem pause_oeq {s s' : RState} {id : Nat} {r : PauseReason} (h : pause s id r = .ok s') : OEq s s' := by
  unfold pause at h
  split at h
  · simp at h
  · split at h
    · simp at h
    · rename_i c hc
      simp only [Except.ok.injEq] at h; subst h
      have hc' : getConn s id = some c := hc
      exact OEq.of_set (c' := { c with tracker := { c.tracker with status := .paused r } }) hc' rfl rfl rfl rfl rfl rfl rfl

theorem ackDeviceData_oeq (s : RState) (id : Nat) : OEq s (ackDeviceData s id) := by
  unfold ackDeviceData
  split
  · exact OEq.refl s
  · rename_i c hc
    split
    · exact OEq.refl s
    · exact OEq.of_set (c' := { c with acks := _ }) hc rfl rfl rfl rfl rfl rfl rfl

theorem updateRetained_oeq (s : RState) (topic : String) (p : Pub) : OEq s (updateRetained s topic p) := by
  unfold updateRetained
  split
  · exact OEq.of_conns rfl rfl rfl rfl rfl
  · split
    · exact OEq.of_conns rfl rfl rfl rfl rfl
    · exact OEq.refl _

theorem dlMatches_oeq {s s' : RState} {topic : String} {v : List Nat} (h : dlMatches s topic = .ok (s', v)) : OEq s s' := by
  unfold dlMatches at h
  split at h
  · simp only [Except.ok.injEq, Prod.mk.injEq] at h; obtain ⟨rfl, _⟩ := h; exact OEq.refl _
  · split at h
    · simp only [] at h
      split at h
      · simp only [Except.ok.injEq, Prod.mk.injEq] at h; obtain ⟨rfl, _⟩ := h
        split <;> exact OEq.of_conns rfl rfl rfl rfl rfl
      · simp at h
    · simp at h

theorem readRetained_oeq {s s' : RState} {f : String} {ps : List Pub} (h : readRetained s f = .ok (s', ps)) : OEq s s' := by
  unfold readRetained at h
  simp only [] at h
  split at h
  · split at h
    · simp only [Except.ok.injEq, Prod.mk.injEq] at h; obtain ⟨rfl, _⟩ := h; exact OEq.of_conns rfl rfl rfl rfl rfl
    · simp at h
  · simp at h

theorem updateNextClient_oeq {s s' : RState} {g g' : SharedGroup} (h : updateNextClient s g = .ok (s', g')) : OEq s s' := by
  unfold updateNextClient at h
  split at h
  · simp only [Except.ok.injEq, Prod.mk.injEq] at h; obtain ⟨rfl, _⟩ := h; exact OEq.refl _
  · split at h
    · simp at h
    · simp only [Except.ok.injEq, Prod.mk.injEq] at h; obtain ⟨rfl, _⟩ := h; exact OEq.refl _
  · split at h
    · simp at h
    · split at h
      · split at h
        · simp only [Except.ok.injEq, Prod.mk.injEq] at h; obtain ⟨rfl, _⟩ := h; exact OEq.of_conns rfl rfl rfl rfl rfl
        · simp at h
      · simp at h

theorem noteTurn_oeq (s0 s1 : RState) (req : DataRequest) : OEq s1 (noteTurn s0 s1 req) := by
  obtain ⟨tm, e⟩ := noteTurn_eq s0 s1 req
  rw [e]; exact OEq.of_conns rfl rfl rfl rfl rfl

/-! ### primitives that add a request to a place -/

/-- the step adds the requests `A` to what the connections own -/
structure OAdd (s s' : RState) (A : Nat → DataRequest → Prop) : Prop where
  own : ∀ j r, Own s' j r ↔ Own s j r ∨ A j r
  subs : ∀ j, subsOf s' j = subsOf s j
  grv : s'.graveyard = s.graveyard
  cfg : s'.config = s.config

theorem OEq.toAdd {s s' : RState} (h : OEq s s') : OAdd s s' (fun _ _ => False) :=
  ⟨fun j r => by rw [h.own]; simp, h.subs, h.grv, h.cfg⟩

theorem OAdd.trans {a b c : RState} {A B : Nat → DataRequest → Prop} (h1 : OAdd a b A) (h2 : OAdd b c B) :
    OAdd a c (fun j r => A j r ∨ B j r) :=
  ⟨fun j r => by rw [h2.own, h1.own, or_assoc], fun j => (h2.subs j).trans (h1.subs j), h2.grv.trans h1.grv,
   h2.cfg.trans h1.cfg⟩

theorem OAdd.congr {s s' : RState} {A B : Nat → DataRequest → Prop} (h : OAdd s s' A) (hab : ∀ j r, A j r ↔ B j r) :
    OAdd s s' B := ⟨fun j r => by rw [h.own, hab], h.subs, h.grv, h.cfg⟩

/-- the tracker of a live connection gains requests -/
theorem tracker_append_add {s s' : RState} {id : Nat} {c : Conn} {rs : List DataRequest}
    (hc : getConn s id = some c)
    (hconns : s'.conns = s.conns.set id { c with tracker := { c.tracker with requests := c.tracker.requests ++ rs } })
    (hnat : s'.datalog.native = s.datalog.native) (hn : s'.notifications = s.notifications)
    (hg : s'.graveyard = s.graveyard) (hcfg : s'.config = s.config) :
    OAdd s s' (fun j r => j = id ∧ r ∈ rs) := by
  have hget : ∀ j, getConn s' j = if j = id then some { c with tracker := { c.tracker with requests := c.tracker.requests ++ rs } }
      else getConn s j := fun j => by
    unfold getConn; rw [hconns]; exact Slab.get?_set_live hc j _
  refine ⟨fun j r => ?_, fun j => ?_, hg, hcfg⟩
  · unfold Own Notified TrackedBy
    rw [parked_of_native hnat, hn, hget]
    by_cases hj : j = id
    · subst hj
      simp only [if_true, Option.some.injEq, exists_eq_left', hc, List.mem_append, true_and]
      constructor
      · rintro ((h | h) | h | h)
        · exact .inl (.inl h)
        · exact .inr h
        · exact .inl (.inr (.inl h))
        · exact .inl (.inr (.inr h))
      · rintro ((h | h | h) | h)
        · exact .inl (.inl h)
        · exact .inr (.inl h)
        · exact .inr (.inr h)
        · exact .inl (.inr h)
    · simp only [hj, if_false, false_and, or_false]
  · unfold subsOf; rw [hget]
    by_cases hj : j = id
    · subst hj; simp [hc]
    · simp [hj]

theorem track_add {s s' : RState} {id : Nat} {r0 : DataRequest} (h : track s id r0 = .ok s') :
    OAdd s s' (fun j r => j = id ∧ r = r0) ∧ s'.datalog.native = s.datalog.native := by
  unfold track at h
  split at h
  · simp at h
  · rename_i c hc
    simp only [Except.ok.injEq] at h; subst h
    refine ⟨?_, rfl⟩
    have a : OAdd s (setConn s id { c with tracker := { c.tracker with requests := c.tracker.requests ++ [r0] } })
        (fun j r => j = id ∧ r ∈ [r0]) := tracker_append_add hc rfl rfl rfl rfl rfl
    exact a.congr fun j r => by simp

theorem trackv_add {s s' : RState} {id : Nat} {rs : List DataRequest} (h : trackv s id rs = .ok s') :
    OAdd s s' (fun j r => j = id ∧ r ∈ rs) ∧ s'.datalog.native = s.datalog.native := by
  unfold trackv at h
  split at h
  · simp at h
  · rename_i c hc
    simp only [Except.ok.injEq] at h; subst h
    refine ⟨?_, rfl⟩
    exact tracker_append_add hc rfl rfl rfl rfl rfl

/-! ### one filter log's entry replaced -/

/-- parked in a log other than `i` -/
def ParkedOff (s : RState) (i j : Nat) (r : DataRequest) : Prop := ∃ k, k ≠ i ∧ ParkedAt s k j r

theorem parked_split {s : RState} {i : Nat} {fd : FilterData} (hfd : s.datalog.native[i]? = some fd) (j : Nat) (r : DataRequest) :
    Parked s j r ↔ (j, r) ∈ fd.waiters ∨ ParkedOff s i j r := by
  constructor
  · rintro ⟨k, fdk, hk, hm⟩
    by_cases e : k = i
    · subst e; rw [hfd] at hk; cases hk; exact .inl hm
    · exact .inr ⟨k, e, fdk, hk, hm⟩
  · rintro (h | ⟨k, _, h⟩)
    · exact ⟨i, fd, hfd, h⟩
    · exact ⟨k, h⟩

theorem parkedAt_set {s s' : RState} {i : Nat} {fd fd' : FilterData} (hfd : s.datalog.native[i]? = some fd)
    (hnat : s'.datalog.native = s.datalog.native.set i fd') (k j : Nat) (r : DataRequest) :
    ParkedAt s' k j r ↔ if k = i then (j, r) ∈ fd'.waiters else ParkedAt s k j r := by
  have hlt : i < s.datalog.native.length := by
    rcases Nat.lt_or_ge i s.datalog.native.length with h | h
    · exact h
    · rw [List.getElem?_eq_none h] at hfd; cases hfd
  unfold ParkedAt
  rw [hnat, List.getElem?_set]
  by_cases e : k = i
  · subst e; simp [hlt]
  · have : ¬ i = k := fun e' => e e'.symm
    simp [e, this]

theorem parkedOff_set {s s' : RState} {i : Nat} {fd fd' : FilterData} (hfd : s.datalog.native[i]? = some fd)
    (hnat : s'.datalog.native = s.datalog.native.set i fd') (j : Nat) (r : DataRequest) :
    ParkedOff s' i j r ↔ ParkedOff s i j r := by
  unfold ParkedOff
  constructor
  · rintro ⟨k, hk, h⟩
    rw [parkedAt_set hfd hnat] at h; simp only [hk, if_false] at h
    exact ⟨k, hk, h⟩
  · rintro ⟨k, hk, h⟩
    refine ⟨k, hk, ?_⟩
    rw [parkedAt_set hfd hnat]; simp only [hk, if_false]; exact h

theorem parked_set {s s' : RState} {i : Nat} {fd fd' : FilterData} (hfd : s.datalog.native[i]? = some fd)
    (hnat : s'.datalog.native = s.datalog.native.set i fd') (j : Nat) (r : DataRequest) :
    Parked s' j r ↔ (j, r) ∈ fd'.waiters ∨ ParkedOff s i j r := by
  have hlt : i < s.datalog.native.length := by
    rcases Nat.lt_or_ge i s.datalog.native.length with h | h
    · exact h
    · rw [List.getElem?_eq_none h] at hfd; cases hfd
  have hfd' : s'.datalog.native[i]? = some fd' := by rw [hnat, List.getElem?_set]; simp [hlt]
  rw [parked_split hfd', parkedOff_set hfd hnat]

/-- the log's entry replaced by one with the same log and fewer waiters, or with no waiters -/
theorem WSub.of_set {s s' : RState} {i : Nat} {fd fd' : FilterData} (hfd : s.datalog.native[i]? = some fd)
    (hnat : s'.datalog.native = s.datalog.native.set i fd')
    (h : fd'.waiters = [] ∨ (fd'.log = fd.log ∧ ∀ w ∈ fd'.waiters, w ∈ fd.waiters)) : WSub s s' := by
  intro k fdk hk
  rw [hnat, List.getElem?_set] at hk
  split at hk
  · split at hk
    · simp only [Option.some.injEq] at hk; subst hk
      rename_i e _; subst e
      rcases h with h | ⟨h1, h2⟩
      · exact .inl h
      · exact .inr ⟨fd, hfd, h1, h2⟩
    · simp at hk
  · exact .inr ⟨fdk, hk, rfl, fun _ hw => hw⟩

/-- `park`: the request joins the waiter list of its log -/
theorem park_add {s s' : RState} {id : Nat} {r0 : DataRequest} (h : park s id r0 = .ok s') :
    OAdd s s' (fun j r => j = id ∧ r = r0) ∧
    ∃ fd, s.datalog.native[r0.filterIdx]? = some fd ∧
      s'.datalog.native = s.datalog.native.set r0.filterIdx { fd with waiters := fd.waiters ++ [(id, r0)] } := by
  unfold park at h
  split at h
  · simp at h
  · rename_i fd hfd
    simp only [Except.ok.injEq] at h
    have hc : s'.conns = s.conns := by rw [← h]
    have hnat : s'.datalog.native = s.datalog.native.set r0.filterIdx { fd with waiters := fd.waiters ++ [(id, r0)] } := by
      rw [← h]
    have hg : s'.graveyard = s.graveyard := by rw [← h]
    have hn : s'.notifications = s.notifications := by rw [← h]
    have hcfg : s'.config = s.config := by rw [← h]
    refine ⟨⟨fun j r => ?_, fun j => (tracked_of_oview (oviewOf_of_conns hc j)).2, hg, hcfg⟩, fd, hfd, hnat⟩
    unfold Own Notified
    rw [(tracked_of_oview (oviewOf_of_conns hc j)).1 r, parked_set hfd hnat, parked_split hfd, hn]
    simp only [List.mem_append, List.mem_singleton, Prod.mk.injEq]
    constructor
    · rintro (h | (((h | h) | h) | h))
      · exact .inl (.inl h)
      · exact .inl (.inr (.inl (.inl h)))
      · exact .inr h
      · exact .inl (.inr (.inl (.inr h)))
      · exact .inl (.inr (.inr h))
    · rintro ((h | (h | h) | h) | h)
      · exact .inl h
      · exact .inr (.inl (.inl (.inl h)))
      · exact .inr (.inl (.inr h))
      · exact .inr (.inr h)
      · exact .inr (.inl (.inl (.inr h)))

/-- `Data::append`: the parked requests of the log move to `notifications`; the other logs and
    their waiters are untouched -/
theorem appendToFilter_oeq {s s' : RState} {idx : Nat} {p : Pub} (h : appendToFilter s idx p = .ok s') : OEq s s' := by
  unfold appendToFilter at h
  split at h
  · simp at h
  · rename_i fd hfd
    simp only [Except.ok.injEq] at h
    have hc : s'.conns = s.conns := by rw [← h]; split <;> rfl
    have hnat : s'.datalog.native = s.datalog.native.set idx
        { fd with log := (fd.log.append p (pubSize p)).1, waiters := [] } := by rw [← h]; split <;> rfl
    have hg : s'.graveyard = s.graveyard := by rw [← h]; split <;> rfl
    have hn : s'.notifications = s.notifications ++ fd.waiters := by rw [← h]; split <;> rfl
    have hcfg : s'.config = s.config := by rw [← h]; split <;> rfl
    refine ⟨fun j r => ?_, WSub.of_set hfd hnat (.inl rfl), fun j => (tracked_of_oview (oviewOf_of_conns hc j)).2, hg, hcfg⟩
    unfold Own Notified
    rw [(tracked_of_oview (oviewOf_of_conns hc j)).1 r, parked_set hfd hnat, parked_split hfd, hn]
    simp only [List.mem_append, List.not_mem_nil, false_or]
    constructor
    · rintro (h | h | h | h)
      · exact .inl h
      · exact .inr (.inl (.inr h))
      · exact .inr (.inr h)
      · exact .inr (.inl (.inl h))
    · rintro (h | (h | h) | h)
      · exact .inl h
      · exact .inr (.inr (.inr h))
      · exact .inr (.inl h)
      · exact .inr (.inr (.inl h))

theorem appendToFilters_oeq : ∀ (idxs : List Nat) {s s' : RState} {p : Pub},
    appendToFilters s idxs p = .ok s' → OEq s s'
  | [], s, s', p, h => by simp only [appendToFilters, Except.ok.injEq] at h; subst h; exact OEq.refl _
  | i :: is, s, s', p, h => by
    simp only [appendToFilters] at h
    split at h
    · simp at h
    · rename_i s1 h1
      exact (appendToFilter_oeq h1).trans (appendToFilters_oeq is h)

/-- `drainNotifications`: every request of the list joins its connection's tracker -/
theorem drainNotifications_add : ∀ (ns : List (Nat × DataRequest)) {s s' : RState},
    drainNotifications s ns = .ok s' → OAdd s s' (fun j r => (j, r) ∈ ns) ∧ s'.datalog.native = s.datalog.native
  | [], s, s', h => by
    simp only [drainNotifications, Except.ok.injEq] at h; subst h
    exact ⟨(OEq.refl _).toAdd.congr fun j r => by simp, rfl⟩
  | (id, r0) :: rest, s, s', h => by
    simp only [drainNotifications] at h
    split at h
    · simp at h
    · rename_i s1 h1
      split at h
      · simp at h
      · rename_i s2 h2
        obtain ⟨a1, n1⟩ := track_add h1
        have a2 := reschedule_oeq h2
        obtain ⟨a3, n3⟩ := drainNotifications_add rest h
        have n2 : s2.datalog.native = s1.datalog.native := reschedule_native h2
        refine ⟨((a1.trans a2.toAdd).trans a3).congr fun j r => ?_, by rw [n3, n2, n1]⟩
        simp only [or_false, List.mem_cons, Prod.mk.injEq]

end Router
