/-
Behaviour-preserving decompositions of the larger functions of the router model
(Model/Router/Step.lean is not changed): the pieces get names, and each `_eq` theorem shows that
the model's function *is* the composition of the pieces. Invariant proofs then go piece by piece.
-/
import Model.Router.Step
namespace Router

/-! ### `prepare_filter` -/

def pfMap (s : RState) (id : Nat) (path : String) : List (String × List Nat) :=
  match alookup path s.subscriptionMap with
  | some ids => ainsert path (if ids.contains id then ids else ids ++ [id]) s.subscriptionMap
  | none => s.subscriptionMap ++ [(path, [id])]

def pfShared (s : RState) (cursor : Cursor) (clientId : String) : Option String → List (String × SharedGroup)
  | none => s.shared
  | some g =>
    let grp := (alookup g s.shared).getD { cursor := cursor, strategy := s.config.strategy }
    ainsert g { grp with clients := grp.clients ++ [clientId] } s.shared

def pfState (s : RState) (id : Nat) (cursor : Cursor) (path : String) (group : Option String)
    (clientId : String) : RState :=
  { s with subscriptionMap := pfMap s id path, shared := pfShared s cursor clientId group }

def pfConn (c : Conn) (path : String) : Option Nat → Conn
  | some i => { c with subscriptionIds := ainsert path i c.subscriptionIds }
  | none => c

def pfTail (s : RState) (id : Nat) : M RState :=
  match reschedule s id .newFilter with
  | .error e => .error e
  | .ok s =>
    match getConn s id with
    | none => .ok s
    | some c => if trackerNoDup c.tracker then .ok s
                else .error (.panic "debug_assert check_tracker_duplicates (prepare_filter)")

def pfReq (idx : Nat) (f : SubFilter) (cursor : Cursor) (group : Option String) : DataRequest :=
  { filter := f.path, filterIdx := idx, qos := f.qos, cursor := cursor,
    forwardRetained := group.isNone, group := group }

theorem prepareFilter_eq (s : RState) (id : Nat) (cursor : Cursor) (idx : Nat) (f : SubFilter)
    (group : Option String) (subId : Option Nat) :
    prepareFilter s id cursor idx f group subId =
      match getConn s id with
      | none => .error (.panic "connections.get_mut(id).unwrap()")
      | some c =>
        let s1 := pfState s id cursor f.path group c.clientId
        let c1 := pfConn c f.path subId
        if c.subscriptions.contains f.path then
          .ok ((setConn s1 id c1).g (.subscribed id f.path f.qos idx cursor group false))
        else
          match track (setConn (s1.g (.subscribed id f.path f.qos idx cursor group true)) id
                  { c1 with subscriptions := c.subscriptions ++ [f.path] }) id (pfReq idx f cursor group) with
          | .error e => .error e
          | .ok s => pfTail s id := by
  unfold prepareFilter pfTail
  show (match getConn s id with | none => _ | some c => _) = _
  cases getConn s id with
  | none => rfl
  | some c => cases group <;> cases subId <;> rfl

/-! ### the SUBSCRIBE / UNSUBSCRIBE loops -/

def sfGroup (path : String) : Option String := (extractGroup path).map (·.1)
def sfFilter (path : String) : String := match extractGroup path with | some (_, p) => p | none => path

theorem subscribeFilters_cons (s : RState) (id : Nat) (subId : Option Nat) (f : SubFilter)
    (rest : List SubFilter) (codes : List Nat) (fl : Flags) :
    subscribeFilters s id subId (f :: rest) codes fl =
      if !validSubscription f.path then .ok (s, codes, { fl with disconnect := true }) else
      if subId = some 0 then .ok (s, codes, { fl with disconnect := true, reason := some "ProtocolError" }) else
      let n := nextNativeOffset s (sfFilter f.path)
      match prepareFilter n.1 id n.2.2 n.2.1 f (sfGroup f.path) subId with
      | .error e => .error e
      | .ok s => subscribeFilters s id subId rest (codes ++ [f.qos]) fl := by
  rw [subscribeFilters]
  unfold sfGroup sfFilter
  cases extractGroup f.path with
  | none => rfl
  | some gp => rfl

def ufShared (s : RState) (f clientId : String) : List (String × SharedGroup) :=
  match extractGroup f with
  | none => s.shared
  | some (gname, _) =>
    match alookup gname s.shared with
    | none => s.shared
    | some g =>
      let g' := g.removeClient clientId
      if g'.clients.isEmpty then aremove gname s.shared else ainsert gname g' s.shared

def ufConn (c : Conn) (f : String) : Conn :=
  { c with subscriptions := c.subscriptions.filter (· ≠ f),
           brokerAliases := c.brokerAliases.map (fun b => BrokerAliases.removeAlias b f),
           subscriptionIds := aremove f c.subscriptionIds,
           tracker := { c.tracker with requests := c.tracker.requests.filter (·.filter ≠ f) } }

def ufState (s : RState) (id : Nat) (ids : List Nat) (c : Conn) (f : String) : RState :=
  let s1 : RState := { s with subscriptionMap := ainsert f (ids.filter (· ≠ id)) s.subscriptionMap,
                               shared := ufShared s f c.clientId }
  let s2 := setConn s1 id (ufConn c f)
  ({ s2 with datalog := removeWaiterFor s2.datalog id f,
             notifications := s2.notifications.filter (fun n => !(n.1 == id && n.2.filter == f)) } : RState).g
    (.unsubscribed id f)

theorem unsubscribeFilters_cons (s : RState) (id : Nat) (f : String) (rest : List String) (rs : List Bool) :
    unsubscribeFilters s id (f :: rest) rs =
      match alookup f s.subscriptionMap with
      | none => unsubscribeFilters s id rest (rs ++ [false])
      | some ids =>
        if !ids.contains id then unsubscribeFilters s id rest (rs ++ [false]) else
        match getConn s id with
        | none => .error (.panic "connections.get_mut(id).unwrap()")
        | some c =>
          if !c.subscriptions.contains f then
            unsubscribeFilters { s with subscriptionMap := ainsert f (ids.filter (· ≠ id)) s.subscriptionMap }
              id rest (rs ++ [false])
          else unsubscribeFilters (ufState s id ids c f) id rest (rs ++ [true]) := by
  rw [unsubscribeFilters]
  cases alookup f s.subscriptionMap with
  | none => rfl
  | some ids =>
    simp only []
    split
    · rfl
    · show (match getConn s id with | none => _ | some c => _) = _
      cases getConn s id with
      | none => rfl
      | some c =>
        simp only []
        split
        · rfl
        · unfold ufState ufShared
          cases extractGroup f with
          | none => rfl
          | some gp =>
            obtain ⟨gname, x⟩ := gp
            simp only []
            cases alookup gname s.shared with
            | none => rfl
            | some g => rfl

/-! ### `forward_device_data` -/

def fdGrp (s : RState) (req : DataRequest) : Option SharedGroup := req.group.bind (fun g => alookup g s.shared)

def fdReq0 (req : DataRequest) : Option SharedGroup → DataRequest
  | some g => { req with cursor := g.cursor }
  | none => req

def fdSlots (s : RState) (c : Conn) (qos : Nat) : Option SharedGroup → Nat
  | some g => if g.strategy = .roundRobin then 1 else (if qos ≠ 0 then c.out.freeSlots else s.config.maxOutgoingPacketCount)
  | none => (if qos ≠ 0 then c.out.freeSlots else s.config.maxOutgoingPacketCount)

def fdRetained (s : RState) (req : DataRequest) (slots : Nat) : M (RState × List (Pub × Option Cursor) × Nat) :=
  if req.forwardRetained then
    match readRetained s req.filter with
    | .error e => .error e
    | .ok (s, ps) =>
      let ps := ps.take slots
      .ok (s, ps.map (fun p => (p, none)), slots - ps.length)
  else .ok (s, [], slots)

def fdPos : CLog.Pos → Cursor × Bool
  | .next _ e => (e, false)
  | .done _ e => (e, true)

def fdSkip (c : Conn) : Option SharedGroup → Bool
  | some g => some c.clientId != g.current
  | none => false

def fdAliases (c : Conn) (filter : String) : Option BrokerAliases × Option Nat :=
  match c.brokerAliases.bind (fun b => alookup filter b.aliases) with
  | some a => (c.brokerAliases, some a)
  | none => match c.brokerAliases with
    | none => (none, none)
    | some b => let (b', a) := b.setNew filter; (some b', a)

def fdGroupUpd (s : RState) (req : DataRequest) (grp : Option SharedGroup) : M RState :=
  match req.group, grp with
  | some gname, some _ =>
    match alookup gname s.shared with
    | none => .ok s
    | some g =>
      match updateNextClient s g with
      | .error e => .error e
      | .ok (s, g) => .ok { s with shared := ainsert gname { g with cursor := req.cursor } s.shared }
  | _, _ => .ok s

/-- the forwards of one sweep, and the window / notifications they produce -/
def fdFwds (c : Conn) (req : DataRequest) (publishes : List (Pub × Option Cursor)) : List (Pub × Option Cursor) :=
  publishes.map (fun pc => (mkForward req.qos (fdAliases c req.filter).2
    (c.brokerAliases.bind (fun b => alookup req.filter b.aliases)).isSome
    (alookup req.filter c.subscriptionIds) pc.1, pc.2))

def fdOut (c : Conn) (req : DataRequest) (publishes : List (Pub × Option Cursor)) : Outgoing × List Notif :=
  if req.qos = 0 then (c.out, (fdFwds c req publishes).map (fun pc => Notif.forward pc.1 pc.2))
  else numberForwards c.out req.filterIdx (fdFwds c req publishes) []

/-- the part of `forward_device_data` after the log was read and the request was not skipped -/
def fdPush (s : RState) (id : Nat) (c : Conn) (req : DataRequest) (grp : Option SharedGroup)
    (publishes : List (Pub × Option Cursor)) (caughtup : Bool) : M (RState × DataRequest × ConsumeStatus) :=
  let on := fdOut c req publishes
  let s := setConn s id { c with out := on.1, brokerAliases := (fdAliases c req.filter).1 }
  let s := pushNotifs s c.link on.2
  let len := (getLink s c.link).obuf.length
  match fdGroupUpd s req grp with
  | .error e => .error e
  | .ok s =>
    if len ≥ MAX_CHANNEL_CAPACITY - 1 then
      .ok (wakeLink (pushNotifs s c.link [Notif.unschedule]) c.link, req, .bufferFull)
    else
      .ok (wakeLink s c.link, req, if caughtup then .filterCaughtup else .partialRead)

theorem forwardDeviceData_eq (s : RState) (id : Nat) (req : DataRequest) :
    forwardDeviceData s id req =
      match getConn s id with
      | none => .error (.panic "connections[id]")
      | some c =>
        let grp := fdGrp s req
        let req := fdReq0 req grp
        if req.qos ≠ 0 && c.out.freeSlots = 0 then .ok (s, req, .inflightFull) else
        match fdRetained s req (fdSlots s c req.qos grp) with
        | .error e => .error e
        | .ok (s, retainedPubs, slots) =>
          let req := { req with forwardRetained := false }
          match s.datalog.native[req.filterIdx]? with
          | none => .error (.panic "datalog.native.get(filter_idx).unwrap()")
          | some fd =>
            let rd := fd.log.readv req.cursor slots
            let publishes := retainedPubs ++ rd.1.map (fun e => (e.1, some e.2))
            let nc := fdPos rd.2
            if fdSkip c grp then .ok (s, req, if nc.2 then .filterCaughtup else .skipRequest) else
            let req := { req with cursor := nc.1 }
            if publishes.isEmpty then .ok (s, req, .filterCaughtup) else
            fdPush s id c req grp publishes nc.2 := by
  unfold forwardDeviceData
  cases getConn s id with
  | none => rfl
  | some c =>
    simp only []
    unfold fdGrp
    cases hg : (req.group.bind fun g => alookup g s.shared) with
    | none => rfl
    | some g => rfl

/-! ### `handle_disconnection` -/

def hdNotify (s : RState) (c : Conn) : Option String → RState
  | none => s
  | some r => wakeLink (pushNotifs s c.link [Notif.disconnect r]) c.link

/-- the state after the connection was taken out of the slab, the connection map, the filter
    logs' waiter lists, the shared groups and the subscription map -/
def hdRemoved (s : RState) (id : Nat) (c : Conn) : RState :=
  let s : RState := ({ s with conns := s.conns.remove id, connectionMap := aremove c.clientId s.connectionMap } : RState).g
    (.removed id c.clientId c.clean)
  let s : RState := { s with datalog := (datalogClean s.datalog id).1 }
  let s : RState := { s with shared := removeFromGroups s.shared c.clientId }
  { s with subscriptionMap := s.subscriptionMap.map (fun (p : String × List Nat) =>
      if c.subscriptions.contains p.1 then (p.1, p.2.filter (· ≠ id)) else p) }

def hdSaved (s1 : RState) (c : Conn) (inflightReqs : List DataRequest) : List (String × SharedGroup) × List DataRequest :=
  rewindRequests s1.shared (retransmissionMap c.out.inflight []) (c.tracker.requests ++ inflightReqs) []

theorem handleDisconnection_eq (s : RState) (id : Nat) (reason : Option String) :
    handleDisconnection s id reason =
      match getConn s id with
      | none => .ok s
      | some c =>
        let s0 := hdNotify s c reason
        let s1 := hdRemoved s0 id c
        if !c.clean then
          let rw := hdSaved s1 c (datalogClean s0.datalog id).2
          .ok { s1 with shared := rw.1,
                        graveyard := ainsert c.clientId
                          (some { tracker := { c.tracker with requests := rw.2, status := .paused .busy },
                                  subscriptions := c.subscriptions,
                                  unackedPubrels := c.out.unackedPubrels }) s1.graveyard }
        else .ok { s1 with graveyard := ainsert c.clientId none s1.graveyard } := by
  unfold handleDisconnection
  cases getConn s id with
  | none => rfl
  | some c => cases reason <;> rfl

/-! ### `handle_new_connection` -/

def hnTakeover (s : RState) (spec : ConnectSpec) : M RState :=
  match alookup spec.clientId s.connectionMap with
  | some old => handleDisconnection s old none
  | none => .ok s

def hnSession (s : RState) (spec : ConnectSpec) : Option SessionState := (alookup spec.clientId s.graveyard).bind id
def hnRestored (s : RState) (spec : ConnectSpec) : Option SessionState := if spec.clean then none else hnSession s spec
def hnTracker (spec : ConnectSpec) : Option SessionState → Tracker
  | some ss => ss.tracker
  | none => { id := spec.clientId }
def hnSubs : Option SessionState → List String
  | some ss => ss.subscriptions
  | none => []
def hnPending : Option SessionState → List Nat
  | some ss => ss.unackedPubrels
  | none => []
def hnWill (s : RState) (spec : ConnectSpec) : RState :=
  match spec.will with
  | some w => ({ s with lastWills := ainsert spec.clientId w s.lastWills }).g (.willSet spec.clientId)
  | none => s
def hnConn (spec : ConnectSpec) (restored : Option SessionState) : Conn :=
  { clientId := spec.clientId, link := spec.link, clean := spec.clean,
    dynamicFilters := spec.dynamicFilters, subscriptions := hnSubs restored,
    brokerAliases := if spec.aliasMax > 0 then some (BrokerAliases.new spec.aliasMax) else none,
    out := { unackedPubrels := hnPending restored }, tracker := hnTracker spec restored }
def hnAcks (spec : ConnectSpec) (id : Nat) (prev : Bool) (restored : Option SessionState) : List Ack :=
  [Ack.connack id (!spec.clean && prev)] ++ (hnPending restored).map Ack.pubrel

/-- the registration proper: after the takeover and the `max_connections` check -/
def hnRegister (s : RState) (spec : ConnectSpec) : M RState :=
  let restored := hnRestored s spec
  let prev := (hnSession s spec).isSome
  let s2 := hnWill { s with graveyard := aremove spec.clientId s.graveyard } spec
  let conn := hnConn spec restored
  let ins := s2.conns.insert conn
  let s3 : RState := { s2 with conns := ins.1, connectionMap := ainsert spec.clientId ins.2 s2.connectionMap }
  if !trackerNoDup (hnTracker spec restored) then .error (.panic "debug_assert check_tracker_duplicates (new connection)") else
  let acks := hnAcks spec ins.2 prev restored
  let s4 := setConn s3 ins.2 { conn with acks := { committed := acks } }
  let s5 := s4.g (.registered ins.2 spec.link spec.clientId spec.clean (!spec.clean && prev))
  let s6 := if restored.isSome then s5.g (.restored ins.2 (hnTracker spec restored).requests) else s5
  let s7 := acks.foldl (fun s a => s.g (.committed ins.2 a)) s6
  reschedule s7 ins.2 .init

theorem hnRegister_eq (s : RState) (spec : ConnectSpec) :
    (let saved := alookup spec.clientId s.graveyard
    let s := { s with graveyard := aremove spec.clientId s.graveyard }
    let session : Option SessionState := saved.bind id
    let previousSession := session.isSome
    let restored := if spec.clean then none else session
    let tracker : Tracker := match restored with
      | some ss => ss.tracker
      | none => { id := spec.clientId }
    let subs := match restored with | some ss => ss.subscriptions | none => []
    let pending := match restored with | some ss => ss.unackedPubrels | none => []
    let s := match spec.will with
      | some w => ({ s with lastWills := ainsert spec.clientId w s.lastWills }).g (.willSet spec.clientId)
      | none => s
    let conn : Conn :=
      { clientId := spec.clientId, link := spec.link, clean := spec.clean,
        dynamicFilters := spec.dynamicFilters, subscriptions := subs,
        brokerAliases := if spec.aliasMax > 0 then some (BrokerAliases.new spec.aliasMax) else none,
        out := { unackedPubrels := pending }, tracker := tracker }
    let (slab, id) := s.conns.insert conn
    let s := { s with conns := slab, connectionMap := ainsert spec.clientId id s.connectionMap }
    if !trackerNoDup tracker then .error (.panic "debug_assert check_tracker_duplicates (new connection)") else
    let acks := [Ack.connack id (!spec.clean && previousSession)] ++ pending.map Ack.pubrel
    let s := setConn s id { conn with acks := { committed := acks } }
    let s := s.g (.registered id spec.link spec.clientId spec.clean (!spec.clean && previousSession))
    let s := if restored.isSome then s.g (.restored id tracker.requests) else s
    let s := acks.foldl (fun s a => s.g (.committed id a)) s
    reschedule s id .init) = hnRegister s spec := by
  unfold hnRegister hnRestored hnSession hnWill hnAcks hnConn
  dsimp only
  cases spec.clean <;> cases spec.will <;>
    cases ((alookup spec.clientId s.graveyard).bind id) <;> rfl

theorem handleNewConnection_eq (s : RState) (spec : ConnectSpec) :
    handleNewConnection s spec =
      let s0 := setLink s spec.link {}
      if !validClientId spec.clientId then .ok (s0.g (.notRegistered spec.link)) else
      match hnTakeover s0 spec with
      | .error e => .error e
      | .ok s1 =>
        if s1.conns.len ≥ s1.config.maxConnections then .ok (s1.g (.notRegistered spec.link)) else
        hnRegister s1 spec := by
  unfold handleNewConnection hnTakeover
  simp only []
  split
  · rfl
  · have key : ∀ r : M RState,
        (match r with
          | .error e => (.error e : M RState)
          | .ok s =>
            if s.conns.len ≥ s.config.maxConnections then .ok (s.g (.notRegistered spec.link)) else
            hnRegister s spec) = _ := fun r => rfl
    cases alookup spec.clientId (setLink s spec.link {}).connectionMap with
    | none =>
      simp only []
      split
      · rfl
      · exact hnRegister_eq _ spec
    | some old =>
      simp only []
      cases handleDisconnection (setLink s spec.link {}) old none with
      | error e => rfl
      | ok s1 =>
        simp only []
        split
        · rfl
        · exact hnRegister_eq _ spec

/-! ### one packet -/

def hpPre (s : RState) (id : Nat) (p : Pub) (fl : Flags) : M (RState × Flags × Bool) :=
  if p.qos = 1 then
    match commitAck s id (.puback p.pkid) with
    | .error e => .error e
    | .ok s => .ok (s, { fl with forceAck := true }, false)
  else if p.qos = 2 then
    match getConn s id with
    | none => .error (.panic "ackslog.get_mut(id).unwrap()")
    | some c =>
      let acks := { committed := c.acks.committed ++ [Ack.pubrec p.pkid], recorded := c.acks.recorded ++ [p] }
      .ok ((setConn s id { c with acks := acks }).g (.committed id (.pubrec p.pkid)), { fl with forceAck := true }, true)
  else .ok (s, fl, false)

theorem handlePacket_publish (s : RState) (id : Nat) (cid : String) (p : Pub) (fl : Flags) :
    handlePacket s id cid (.publish p) fl =
      match hpPre s id p fl with
      | .error e => .error e
      | .ok (s, fl, true) => .ok (s, fl)
      | .ok (s, fl, false) =>
        match appendToCommitlog s id p with
        | .error e => .error e
        | .ok (s, none) => .ok (s, { fl with newData := true })
        | .ok (s, some (.disconnect r)) => .ok (s, { fl with disconnect := true, reason := some r, stop := true })
        | .ok (s, some .other) => .ok (s, { fl with disconnect := true, stop := true }) := rfl

end Router
