/-
Behaviour-preserving decompositions of the larger functions of the router model
(Model/Router/Step.lean is not changed): the pieces get names, and each `_eq` theorem shows that
the model's function *is* the composition of the pieces. Invariant proofs then go piece by piece.
-/
import Model.Router.Step
namespace Router

/-! ### `prepare_filter` -/

def pfMap (s : RState) (id : Nat) (path : String) : List (String × List Nat) :=
  match alookup path s.subscriptionMap with
  | some ids => ainsert path (if ids.contains id then ids else ids ++ [id]) s.subscriptionMap
  | none => s.subscriptionMap ++ [(path, [id])]

def pfShared (s : RState) (cursor : Cursor) (clientId : String) : Option String → List (String × SharedGroup)
  | none => s.shared
  | some g =>
    let grp := (alookup g s.shared).getD { cursor := cursor, strategy := s.config.strategy }
    ainsert g { grp with clients := grp.clients ++ [clientId] } s.shared

def pfState (s : RState) (id : Nat) (cursor : Cursor) (path : String) (group : Option String)
    (clientId : String) : RState :=
  { s with subscriptionMap := pfMap s id path, shared := pfShared s cursor clientId group }

def pfConn (c : Conn) (path : String) : Option Nat → Conn
  | some i => { c with subscriptionIds := ainsert path i c.subscriptionIds }
  | none => c

def pfTail (s : RState) (id : Nat) : M RState :=
  match reschedule s id .newFilter with
  | .error e => .error e
  | .ok s =>
    match getConn s id with
    | none => .ok s
    | some c => if trackerNoDup c.tracker then .ok s
                else .error (.panic "debug_assert check_tracker_duplicates (prepare_filter)")

def pfReq (idx : Nat) (f : SubFilter) (cursor : Cursor) (group : Option String) : DataRequest :=
  { filter := f.path, filterIdx := idx, qos := f.qos, cursor := cursor,
    forwardRetained := group.isNone, group := group }

theorem prepareFilter_eq (s : RState) (id : Nat) (cursor : Cursor) (idx : Nat) (f : SubFilter)
    (group : Option String) (subId : Option Nat) :
    prepareFilter s id cursor idx f group subId =
      match getConn s id with
      | none => .error (.panic "connections.get_mut(id).unwrap()")
      | some c =>
        let s1 := pfState s id cursor f.path group c.clientId
        let c1 := pfConn c f.path subId
        if c.subscriptions.contains f.path then
          .ok ((setConn s1 id c1).g (.subscribed id f.path f.qos idx cursor group false))
        else
          match track (setConn (s1.g (.subscribed id f.path f.qos idx cursor group true)) id
                  { c1 with subscriptions := c.subscriptions ++ [f.path] }) id (pfReq idx f cursor group) with
          | .error e => .error e
          | .ok s => pfTail s id := by
  unfold prepareFilter pfTail
  show (match getConn s id with | none => _ | some c => _) = _
  cases getConn s id with
  | none => rfl
  | some c => cases group <;> cases subId <;> rfl

/-! ### the SUBSCRIBE / UNSUBSCRIBE loops -/

def sfGroup (path : String) : Option String := (extractGroup path).map (·.1)
def sfFilter (path : String) : String := match extractGroup path with | some (_, p) => p | none => path

theorem subscribeFilters_cons (s : RState) (id : Nat) (subId : Option Nat) (f : SubFilter)
    (rest : List SubFilter) (codes : List Nat) (fl : Flags) :
    subscribeFilters s id subId (f :: rest) codes fl =
      if !validSubscription f.path then .ok (s, codes, { fl with disconnect := true }) else
      if subId = some 0 then .ok (s, codes, { fl with disconnect := true, reason := some "ProtocolError" }) else
      let n := nextNativeOffset s (sfFilter f.path)
      match prepareFilter n.1 id n.2.2 n.2.1 f (sfGroup f.path) subId with
      | .error e => .error e
      | .ok s => subscribeFilters s id subId rest (codes ++ [f.qos]) fl := by
  rw [subscribeFilters]
  unfold sfGroup sfFilter
  cases extractGroup f.path with
  | none => rfl
  | some gp => rfl

def ufShared (s : RState) (f clientId : String) : List (String × SharedGroup) :=
  match extractGroup f with
  | none => s.shared
  | some (gname, _) =>
    match alookup gname s.shared with
    | none => s.shared
    | some g =>
      let g' := g.removeClient clientId
      if g'.clients.isEmpty then aremove gname s.shared else ainsert gname g' s.shared

/-- `turn_moved` after the client left the group of `f`: when the group stays and its turn passed
    to another member, the index of the group's log is appended -/
def ufTurnMoved (s : RState) (f clientId : String) : List Nat :=
  match extractGroup f with
  | none => s.turnMoved
  | some (gname, path) =>
    match alookup gname s.shared with
    | none => s.turnMoved
    | some g =>
      let g' := g.removeClient clientId
      if g'.clients.isEmpty then s.turnMoved
      else s.turnMoved ++ (if g'.current != g.current then (s.datalog.filterIdx? path).toList else [])

/-- the connection after `f` was unsubscribed; `d`: the datalog (the window forgets the cursors of
    the filter's log unless another subscription of the connection still reads it, `unsubOut`) -/
def ufConn (d : DataLog) (c : Conn) (f : String) : Conn :=
  { c with subscriptions := c.subscriptions.filter (· ≠ f),
           brokerAliases := c.brokerAliases.map (fun b => BrokerAliases.removeAlias b f),
           subscriptionIds := aremove f c.subscriptionIds,
           tracker := { c.tracker with requests := c.tracker.requests.filter (·.filter ≠ f) },
           out := unsubOut d (c.subscriptions.filter (· ≠ f)) c.out f }

def ufState (s : RState) (id : Nat) (ids : List Nat) (c : Conn) (f : String) : RState :=
  let s1 : RState := { s with subscriptionMap := ainsert f (ids.filter (· ≠ id)) s.subscriptionMap,
                               shared := ufShared s f c.clientId,
                               turnMoved := ufTurnMoved s f c.clientId }
  let s2 := setConn s1 id (ufConn s.datalog c f)
  ({ s2 with datalog := removeWaiterFor s2.datalog id f,
             notifications := s2.notifications.filter (fun n => !(n.1 == id && n.2.filter == f)) } : RState).g
    (.unsubscribed id f)

theorem unsubscribeFilters_cons (s : RState) (id : Nat) (f : String) (rest : List String) (rs : List Bool) :
    unsubscribeFilters s id (f :: rest) rs =
      match alookup f s.subscriptionMap with
      | none => unsubscribeFilters s id rest (rs ++ [false])
      | some ids =>
        if !ids.contains id then unsubscribeFilters s id rest (rs ++ [false]) else
        match getConn s id with
        | none => .error (.panic "connections.get_mut(id).unwrap()")
        | some c =>
          if !c.subscriptions.contains f then
            unsubscribeFilters { s with subscriptionMap := ainsert f (ids.filter (· ≠ id)) s.subscriptionMap }
              id rest (rs ++ [false])
          else unsubscribeFilters (ufState s id ids c f) id rest (rs ++ [true]) := by
  rw [unsubscribeFilters]
  cases alookup f s.subscriptionMap with
  | none => rfl
  | some ids =>
    simp only []
    split
    · rfl
    · show (match getConn s id with | none => _ | some c => _) = _
      cases getConn s id with
      | none => rfl
      | some c =>
        simp only []
        split
        · rfl
        · unfold ufState ufShared ufTurnMoved
          cases extractGroup f with
          | none => rfl
          | some gp =>
            obtain ⟨gname, x⟩ := gp
            simp only []
            cases alookup gname s.shared with
            | none => rfl
            | some g =>
              simp only []
              split <;> rfl

/-! ### `forward_device_data` -/

def fdGrp (s : RState) (req : DataRequest) : Option SharedGroup := req.group.bind (fun g => alookup g s.shared)

def fdReq0 (req : DataRequest) : Option SharedGroup → DataRequest
  | some g => { req with cursor := g.cursor }
  | none => req

def fdSlots (s : RState) (c : Conn) (qos : Nat) : Option SharedGroup → Nat
  | some g => if g.strategy = .roundRobin then 1 else (if qos ≠ 0 then c.out.freeSlots else s.config.maxOutgoingPacketCount)
  | none => (if qos ≠ 0 then c.out.freeSlots else s.config.maxOutgoingPacketCount)

def fdRetained (s : RState) (req : DataRequest) (slots : Nat) : M (RState × List (Pub × Option Cursor) × Nat) :=
  if req.forwardRetained then
    match readRetained s req.filter with
    | .error e => .error e
    | .ok (s, ps) =>
      let ps := ps.take slots
      .ok (s, ps.map (fun p => (p, none)), slots - ps.length)
  else .ok (s, [], slots)

def fdPos : CLog.Pos → Cursor × Bool
  | .next _ e => (e, false)
  | .done _ e => (e, true)

def fdSkip (c : Conn) : Option SharedGroup → Bool
  | some g => some c.clientId != g.current
  | none => false

def fdAliases (c : Conn) (filter : String) : Option BrokerAliases × Option Nat :=
  match (aliasesFor c filter).bind (fun b => alookup filter b.aliases) with
  | some a => (c.brokerAliases, some a)
  | none => match aliasesFor c filter with
    | none => (c.brokerAliases, none)
    | some b => let (b', a) := b.setNew filter; (some b', a)

def fdGroupUpd (s : RState) (req : DataRequest) (grp : Option SharedGroup) : M RState :=
  match req.group, grp with
  | some gname, some _ =>
    match alookup gname s.shared with
    | none => .ok s
    | some g =>
      match updateNextClient s g with
      | .error e => .error e
      | .ok (s, g) => .ok { s with shared := ainsert gname { g with cursor := req.cursor } s.shared }
  | _, _ => .ok s

/-- the forwards of one sweep, and the window / notifications they produce -/
def fdFwds (c : Conn) (req : DataRequest) (publishes : List (Pub × Option Cursor)) : List (Pub × Option Cursor) :=
  publishes.map (fun pc => (mkForward req.qos (fdAliases c req.filter).2
    ((aliasesFor c req.filter).bind (fun b => alookup req.filter b.aliases)).isSome
    (alookup req.filter c.subscriptionIds) pc.1, pc.2))

def fdOut (c : Conn) (req : DataRequest) (publishes : List (Pub × Option Cursor)) : Outgoing × List Notif :=
  if req.qos = 0 then (c.out, (fdFwds c req publishes).map (fun pc => Notif.forward pc.1 pc.2))
  else numberForwards c.out req.filterIdx (fdFwds c req publishes) []

/-- the part of `forward_device_data` after the log was read and the request was not skipped -/
def fdPush (s : RState) (id : Nat) (c : Conn) (req : DataRequest) (grp : Option SharedGroup)
    (publishes : List (Pub × Option Cursor)) (caughtup : Bool) : M (RState × DataRequest × ConsumeStatus) :=
  let on := fdOut c req publishes
  let s := setConn s id { c with out := on.1, brokerAliases := (fdAliases c req.filter).1 }
  let s := pushNotifs s c.link on.2
  let len := (getLink s c.link).obuf.length
  match fdGroupUpd s req grp with
  | .error e => .error e
  | .ok s =>
    if len ≥ MAX_CHANNEL_CAPACITY - 1 then
      .ok (wakeLink (pushNotifs s c.link [Notif.unschedule]) c.link, req, .bufferFull)
    else
      .ok (wakeLink s c.link, req, if caughtup then .filterCaughtup else .partialRead)

theorem forwardDeviceData_eq (s : RState) (id : Nat) (req : DataRequest) :
    forwardDeviceData s id req =
      match getConn s id with
      | none => .error (.panic "connections[id]")
      | some c =>
        let grp := fdGrp s req
        let req := fdReq0 req grp
        if req.qos ≠ 0 && c.out.freeSlots = 0 then .ok (s, req, .inflightFull) else
        match fdRetained s req (fdSlots s c req.qos grp) with
        | .error e => .error e
        | .ok (s, retainedPubs, slots) =>
          let req := { req with forwardRetained := false }
          match s.datalog.native[req.filterIdx]? with
          | none => .error (.panic "datalog.native.get(filter_idx).unwrap()")
          | some fd =>
            let rd := fd.log.readv req.cursor slots
            let publishes := retainedPubs ++ rd.1.map (fun e => (e.1, some e.2))
            let nc := fdPos rd.2
            if fdSkip c grp then .ok (s, req, if nc.2 then .filterCaughtup else .skipRequest) else
            let req := { req with cursor := nc.1 }
            if publishes.isEmpty then .ok (s, req, .filterCaughtup) else
            fdPush s id c req grp publishes nc.2 := by
  unfold forwardDeviceData
  cases getConn s id with
  | none => rfl
  | some c =>
    simp only []
    unfold fdGrp
    cases hg : (req.group.bind fun g => alookup g s.shared) with
    | none => rfl
    | some g => rfl

/-! ### `handle_disconnection` -/

def hdNotify (s : RState) (c : Conn) : Option String → RState
  | none => s
  | some r => wakeLink (pushNotifs s c.link [Notif.disconnect r]) c.link

/-- the state after the connection was taken out of the slab, the connection map, the filter
    logs' waiter lists, the shared groups and the subscription map -/
def hdRemoved (s : RState) (id : Nat) (c : Conn) : RState :=
  let s : RState := ({ s with conns := s.conns.remove id, connectionMap := aremove c.clientId s.connectionMap } : RState).g
    (.removed id c.clientId c.clean)
  let s : RState := { s with datalog := (datalogClean s.datalog id).1 }
  let s : RState := { s with shared := removeFromGroups s.shared c.clientId }
  { s with subscriptionMap := s.subscriptionMap.map (fun (p : String × List Nat) =>
      if c.subscriptions.contains p.1 then (p.1, p.2.filter (· ≠ id)) else p) }

/-- `atGroupCursor` changes the cursor only -/
theorem atGroupCursor_fields (sh : List (String × SharedGroup)) (r : DataRequest) :
    (atGroupCursor sh r).filter = r.filter ∧ (atGroupCursor sh r).filterIdx = r.filterIdx ∧
    (atGroupCursor sh r).qos = r.qos ∧ (atGroupCursor sh r).group = r.group ∧
    (atGroupCursor sh r).forwardRetained = r.forwardRetained := by
  unfold atGroupCursor; split <;> exact ⟨rfl, rfl, rfl, rfl, rfl⟩

/-- a request of a plain (non-shared) subscription is saved as it is -/
theorem atGroupCursor_plain (sh : List (String × SharedGroup)) (r : DataRequest) (h : r.group = none) :
    atGroupCursor sh r = r := by
  unfold atGroupCursor; rw [h]; rfl

/-- what is saved for a persistent session: the tracked and the parked requests, those of shared
    subscriptions set to their group's cursor at the time the member leaves (`groupsBefore`), all then
    rewound to the retransmission points -/
def hdSaved (s1 : RState) (c : Conn) (groupsBefore : List (String × SharedGroup)) (inflightReqs : List DataRequest) :
    List (String × SharedGroup) × List DataRequest :=
  rewindRequests s1.shared (retransmissionMap c.out.inflight [])
    ((c.tracker.requests ++ inflightReqs).map (atGroupCursor groupsBefore)) []

/-- the logs of the groups whose turn passed to another member because `c` left them
    (`s0`: the state after the optional disconnect notification) -/
def hdTurnMoved (s0 : RState) (id : Nat) (c : Conn) : List Nat :=
  turnMovedLogs (datalogClean s0.datalog id).1 s0.shared c.clientId

/-- the logs of the groups that stay and whose cursor the rewind of the saved requests sets back -/
def hdRewound (s0 : RState) (id : Nat) (c : Conn) : List Nat :=
  rewoundLogs (removeFromGroups s0.shared c.clientId) (retransmissionMap c.out.inflight [])
    ((c.tracker.requests ++ (datalogClean s0.datalog id).2).map (atGroupCursor s0.shared))

/-- the logs `handle_disconnection` wakes: those whose turn moved and, for a persistent session,
    those of the groups set back -/
def hdMoved (s0 : RState) (id : Nat) (c : Conn) : List Nat :=
  if !c.clean then hdTurnMoved s0 id c ++ hdRewound s0 id c else hdTurnMoved s0 id c

/-- the state `handle_disconnection` has built (connection removed, session saved in the
    graveyard) when it wakes the parked members of the groups whose turn moved -/
def hdFinal (s : RState) (id : Nat) (c : Conn) (reason : Option String) : RState :=
  let s0 := hdNotify s c reason
  let s1 := hdRemoved s0 id c
  if !c.clean then
    let rw := hdSaved s1 c s0.shared (datalogClean s0.datalog id).2
    { s1 with shared := rw.1,
              graveyard := ainsert c.clientId
                (some { tracker := { c.tracker with requests := rw.2, status := .paused .busy },
                        subscriptions := c.subscriptions,
                        unackedPubrels := c.out.unackedPubrels }) s1.graveyard }
  else { s1 with graveyard := ainsert c.clientId none s1.graveyard }

theorem handleDisconnection_eq (s : RState) (id : Nat) (reason : Option String) :
    handleDisconnection s id reason =
      match getConn s id with
      | none => .ok s
      | some c => wakeParked (hdFinal s id c reason) (hdMoved (hdNotify s c reason) id c) := by
  unfold handleDisconnection hdFinal hdMoved
  cases getConn s id with
  | none => rfl
  | some c =>
    cases reason <;>
    · simp only []
      split <;> rfl

theorem hdFinal_fields (s : RState) (id : Nat) (c : Conn) (r : Option String) :
    (hdFinal s id c r).conns = s.conns.remove id ∧ (hdFinal s id c r).lastWills = s.lastWills ∧
    (hdFinal s id c r).config = s.config ∧
    (hdFinal s id c r).connectionMap = aremove c.clientId s.connectionMap ∧
    (hdFinal s id c r).ghost = s.ghost ++ [.removed id c.clientId c.clean] ∧
    (hdFinal s id c r).links = (hdNotify s c r).links ∧
    (hdFinal s id c r).notifications = s.notifications ∧
    (hdFinal s id c r).datalog = (datalogClean s.datalog id).1 ∧
    (hdFinal s id c r).turnMoved = s.turnMoved := by
  unfold hdFinal
  cases r <;> (simp only []; split <;> exact ⟨rfl, rfl, rfl, rfl, rfl, rfl, rfl, rfl, rfl⟩)

/-! ### `wake_parked` -/

/-- the state in which the requests parked on log `i` have been taken out of its waiter list -/
def clearWaiters (s : RState) (i : Nat) (fd : FilterData) : RState :=
  { s with datalog := { s.datalog with native := s.datalog.native.set i { fd with waiters := [] } } }

theorem wakeParkedSorted_cons (s : RState) (i : Nat) (rest : List Nat) :
    wakeParkedSorted s (i :: rest) =
      match s.datalog.native[i]? with
      | none => wakeParkedSorted s rest
      | some fd =>
        match drainNotifications (clearWaiters s i fd) fd.waiters with
        | .error e => .error e
        | .ok s2 => wakeParkedSorted s2 rest := by
  rw [wakeParkedSorted]; rfl

/-- whatever is kept by emptying a waiter list and by `drainNotifications` is kept by the wake-up
    (`R`: a reflexive, transitive relation between the state before and after) -/
theorem wakeParkedSorted_rel (R : RState → RState → Prop) (hrefl : ∀ s, R s s)
    (htrans : ∀ a b c, R a b → R b c → R a c)
    (hclear : ∀ s i fd, s.datalog.native[i]? = some fd → R s (clearWaiters s i fd))
    (hdrain : ∀ s s' ns, drainNotifications s ns = .ok s' → R s s') :
    ∀ (logs : List Nat) {s s' : RState}, wakeParkedSorted s logs = .ok s' → R s s'
  | [], s, s', h => by
    simp only [wakeParkedSorted, Except.ok.injEq] at h; subst h; exact hrefl s
  | i :: rest, s, s', h => by
    rw [wakeParkedSorted_cons] at h
    split at h
    · exact wakeParkedSorted_rel R hrefl htrans hclear hdrain rest h
    · rename_i fd hfd
      split at h
      · simp at h
      · rename_i s2 h2
        exact htrans _ _ _ (htrans _ _ _ (hclear s i fd hfd) (hdrain _ _ _ h2))
          (wakeParkedSorted_rel R hrefl htrans hclear hdrain rest h)

theorem wakeParked_rel (R : RState → RState → Prop) (hrefl : ∀ s, R s s)
    (htrans : ∀ a b c, R a b → R b c → R a c)
    (hclear : ∀ s i fd, s.datalog.native[i]? = some fd → R s (clearWaiters s i fd))
    (hdrain : ∀ s s' ns, drainNotifications s ns = .ok s' → R s s')
    {s s' : RState} {logs : List Nat} (h : wakeParked s logs = .ok s') : R s s' :=
  wakeParkedSorted_rel R hrefl htrans hclear hdrain _ h

/-- same for `wakeTurnMoved`; `hreset`: forgetting the local `turn_moved` -/
theorem wakeTurnMoved_rel (R : RState → RState → Prop) (hrefl : ∀ s, R s s)
    (htrans : ∀ a b c, R a b → R b c → R a c)
    (hclear : ∀ s i fd, s.datalog.native[i]? = some fd → R s (clearWaiters s i fd))
    (hdrain : ∀ s s' ns, drainNotifications s ns = .ok s' → R s s')
    (hreset : ∀ s : RState, R s { s with turnMoved := [] })
    {s s' : RState} (h : wakeTurnMoved s = .ok s') : R s s' :=
  htrans _ _ _ (hreset s) (wakeParked_rel R hrefl htrans hclear hdrain h)

/-- What the wake-up (`track` + `reschedule` per parked request, after emptying waiter lists) can
    change: trackers and the ready queue (see `Shape RT` for the connections) and the waiter lists.
    Everything else of the state is the same. -/
structure WakeFrame (s s' : RState) : Prop where
  config : s'.config = s.config
  links : s'.links = s.links
  graveyard : s'.graveyard = s.graveyard
  cmap : s'.connectionMap = s.connectionMap
  smap : s'.subscriptionMap = s.subscriptionMap
  ntf : s'.notifications = s.notifications
  shared : s'.shared = s.shared
  wills : s'.lastWills = s.lastWills
  oracle : s'.oracle = s.oracle
  ghost : s'.ghost = s.ghost
  turnMoved : s'.turnMoved = s.turnMoved
  fidx : s'.datalog.filterIndexes = s.datalog.filterIndexes
  retained : s'.datalog.retained = s.datalog.retained
  pf : s'.datalog.publishFilters = s.datalog.publishFilters
  nlen : s'.datalog.native.length = s.datalog.native.length
  logs : ∀ i : Nat, s'.datalog.native[i]?.map (fun (fd : FilterData) => (fd.filter, fd.log)) =
              s.datalog.native[i]?.map (fun (fd : FilterData) => (fd.filter, fd.log))

theorem WakeFrame.refl (s : RState) : WakeFrame s s :=
  ⟨rfl, rfl, rfl, rfl, rfl, rfl, rfl, rfl, rfl, rfl, rfl, rfl, rfl, rfl, rfl, fun _ => rfl⟩

theorem WakeFrame.trans {a b c : RState} (h1 : WakeFrame a b) (h2 : WakeFrame b c) : WakeFrame a c :=
  ⟨h2.config.trans h1.config, h2.links.trans h1.links, h2.graveyard.trans h1.graveyard, h2.cmap.trans h1.cmap,
   h2.smap.trans h1.smap, h2.ntf.trans h1.ntf, h2.shared.trans h1.shared, h2.wills.trans h1.wills,
   h2.oracle.trans h1.oracle, h2.ghost.trans h1.ghost, h2.turnMoved.trans h1.turnMoved, h2.fidx.trans h1.fidx,
   h2.retained.trans h1.retained, h2.pf.trans h1.pf, h2.nlen.trans h1.nlen, fun i => (h2.logs i).trans (h1.logs i)⟩

theorem track_wakeFrame {s s' : RState} {id : Nat} {r : DataRequest} (h : track s id r = .ok s') : WakeFrame s s' := by
  unfold track at h
  split at h
  · simp at h
  · simp only [Except.ok.injEq] at h; subst h
    exact ⟨rfl, rfl, rfl, rfl, rfl, rfl, rfl, rfl, rfl, rfl, rfl, rfl, rfl, rfl, rfl, fun _ => rfl⟩

theorem reschedule_wakeFrame {s s' : RState} {id : Nat} {r : SchedReason} (h : reschedule s id r = .ok s') :
    WakeFrame s s' := by
  unfold reschedule at h
  split at h
  · simp at h
  · split at h
    · simp at h
    · simp only [Except.ok.injEq] at h; subst h
      split <;> exact ⟨rfl, rfl, rfl, rfl, rfl, rfl, rfl, rfl, rfl, rfl, rfl, rfl, rfl, rfl, rfl, fun _ => rfl⟩

theorem drainNotifications_wakeFrame : ∀ (ns : List (Nat × DataRequest)) {s s' : RState},
    drainNotifications s ns = .ok s' → WakeFrame s s'
  | [], s, s', h => by simp only [drainNotifications, Except.ok.injEq] at h; subst h; exact WakeFrame.refl _
  | (id, r) :: rest, s, s', h => by
    simp only [drainNotifications] at h
    split at h
    · simp at h
    · rename_i s1 h1
      split at h
      · simp at h
      · rename_i s2 h2
        exact ((track_wakeFrame h1).trans (reschedule_wakeFrame h2)).trans (drainNotifications_wakeFrame rest h)

theorem clearWaiters_wakeFrame {s : RState} {i : Nat} {fd : FilterData} (h : s.datalog.native[i]? = some fd) :
    WakeFrame s (clearWaiters s i fd) := by
  refine ⟨rfl, rfl, rfl, rfl, rfl, rfl, rfl, rfl, rfl, rfl, rfl, rfl, rfl, rfl, ?_, fun j => ?_⟩
  · simp [clearWaiters]
  · show (s.datalog.native.set i { fd with waiters := [] })[j]?.map _ = _
    rw [List.getElem?_set]
    split
    · rename_i e; subst e
      split
      · simp [h]
      · rename_i hlt
        have : s.datalog.native[i]? = none := List.getElem?_eq_none (by omega)
        rw [this] at h; simp at h
    · rfl

theorem wakeParked_wakeFrame {s s' : RState} {logs : List Nat} (h : wakeParked s logs = .ok s') : WakeFrame s s' :=
  wakeParked_rel WakeFrame WakeFrame.refl (fun _ _ _ => WakeFrame.trans)
    (fun _ _ _ h => clearWaiters_wakeFrame h) (fun _ _ ns h => drainNotifications_wakeFrame ns h) h

/-- `wakeTurnMoved`: the same frame, from the state whose `turn_moved` has been reset -/
theorem wakeTurnMoved_wakeFrame {s s' : RState} (h : wakeTurnMoved s = .ok s') :
    WakeFrame { s with turnMoved := [] } s' := wakeParked_wakeFrame h

theorem wakeTurnMoved_turnMoved {s s' : RState} (h : wakeTurnMoved s = .ok s') : s'.turnMoved = [] :=
  (wakeTurnMoved_wakeFrame h).turnMoved

/-- `noteTurn` changes at most the local `turn_moved` -/
theorem noteTurn_eq (s0 s1 : RState) (req : DataRequest) :
    ∃ tm, noteTurn s0 s1 req = { s1 with turnMoved := tm } := by
  unfold noteTurn
  split
  · split
    · exact ⟨_, rfl⟩
    · exact ⟨s1.turnMoved, rfl⟩
  · exact ⟨s1.turnMoved, rfl⟩

/-! ### `handle_new_connection` -/

def hnTakeover (s : RState) (spec : ConnectSpec) : M RState :=
  match alookup spec.clientId s.connectionMap with
  | some old => handleDisconnection s old none
  | none => .ok s

def hnSession (s : RState) (spec : ConnectSpec) : Option SessionState := (alookup spec.clientId s.graveyard).bind id
def hnRestored (s : RState) (spec : ConnectSpec) : Option SessionState := if spec.clean then none else hnSession s spec
def hnTracker (spec : ConnectSpec) : Option SessionState → Tracker
  | some ss => ss.tracker
  | none => { id := spec.clientId }
def hnSubs : Option SessionState → List String
  | some ss => ss.subscriptions
  | none => []
def hnPending : Option SessionState → List Nat
  | some ss => ss.unackedPubrels
  | none => []
def hnWill (s : RState) (spec : ConnectSpec) : RState :=
  match spec.will with
  | some w => ({ s with lastWills := ainsert spec.clientId w s.lastWills }).g (.willSet spec.clientId)
  | none => s
def hnConn (spec : ConnectSpec) (restored : Option SessionState) : Conn :=
  { clientId := spec.clientId, link := spec.link, clean := spec.clean,
    dynamicFilters := spec.dynamicFilters, subscriptions := hnSubs restored,
    brokerAliases := if spec.aliasMax > 0 then some (BrokerAliases.new spec.aliasMax) else none,
    out := { unackedPubrels := hnPending restored }, tracker := hnTracker spec restored }
def hnAcks (spec : ConnectSpec) (id : Nat) (prev : Bool) (restored : Option SessionState) : List Ack :=
  [Ack.connack id (!spec.clean && prev)] ++ (hnPending restored).map Ack.pubrel

/-- the registration proper: after the takeover and the `max_connections` check -/
def hnRegister (s : RState) (spec : ConnectSpec) : M RState :=
  let restored := hnRestored s spec
  let prev := (hnSession s spec).isSome
  let s2 := hnWill { s with graveyard := aremove spec.clientId s.graveyard } spec
  let conn := hnConn spec restored
  let ins := s2.conns.insert conn
  let s3 : RState := { s2 with conns := ins.1, connectionMap := ainsert spec.clientId ins.2 s2.connectionMap,
                               subscriptionMap := (hnSubs restored).foldl (fun m f => subscriptionMapAdd m f ins.2) s2.subscriptionMap,
                               shared := rejoinGroups s2.config.strategy spec.clientId (hnTracker spec restored).requests s2.shared }
  if !trackerNoDup (hnTracker spec restored) then .error (.panic "debug_assert check_tracker_duplicates (new connection)") else
  let acks := hnAcks spec ins.2 prev restored
  let s4 := setConn s3 ins.2 { conn with acks := { committed := acks } }
  let s5 := s4.g (.registered ins.2 spec.link spec.clientId spec.clean (!spec.clean && prev))
  let s6 := if restored.isSome then s5.g (.restored ins.2 (hnTracker spec restored).requests) else s5
  let s7 := acks.foldl (fun s a => s.g (.committed ins.2 a)) s6
  reschedule s7 ins.2 .init

theorem hnRegister_eq (s : RState) (spec : ConnectSpec) :
    (let saved := alookup spec.clientId s.graveyard
    let s := { s with graveyard := aremove spec.clientId s.graveyard }
    let session : Option SessionState := saved.bind id
    let previousSession := session.isSome
    let restored := if spec.clean then none else session
    let tracker : Tracker := match restored with
      | some ss => ss.tracker
      | none => { id := spec.clientId }
    let subs := match restored with | some ss => ss.subscriptions | none => []
    let pending := match restored with | some ss => ss.unackedPubrels | none => []
    let s := match spec.will with
      | some w => ({ s with lastWills := ainsert spec.clientId w s.lastWills }).g (.willSet spec.clientId)
      | none => s
    let conn : Conn :=
      { clientId := spec.clientId, link := spec.link, clean := spec.clean,
        dynamicFilters := spec.dynamicFilters, subscriptions := subs,
        brokerAliases := if spec.aliasMax > 0 then some (BrokerAliases.new spec.aliasMax) else none,
        out := { unackedPubrels := pending }, tracker := tracker }
    let (slab, id) := s.conns.insert conn
    let s := { s with subscriptionMap := subs.foldl (fun m f => subscriptionMapAdd m f id) s.subscriptionMap }
    let s := { s with conns := slab, connectionMap := ainsert spec.clientId id s.connectionMap }
    let s := { s with shared := rejoinGroups s.config.strategy spec.clientId tracker.requests s.shared }
    if !trackerNoDup tracker then .error (.panic "debug_assert check_tracker_duplicates (new connection)") else
    let acks := [Ack.connack id (!spec.clean && previousSession)] ++ pending.map Ack.pubrel
    let s := setConn s id { conn with acks := { committed := acks } }
    let s := s.g (.registered id spec.link spec.clientId spec.clean (!spec.clean && previousSession))
    let s := if restored.isSome then s.g (.restored id tracker.requests) else s
    let s := acks.foldl (fun s a => s.g (.committed id a)) s
    reschedule s id .init) = hnRegister s spec := by
  unfold hnRegister hnRestored hnSession hnWill hnAcks hnConn
  dsimp only
  cases spec.clean <;> cases spec.will <;>
    cases ((alookup spec.clientId s.graveyard).bind id) <;> rfl

theorem handleNewConnection_eq (s : RState) (spec : ConnectSpec) :
    handleNewConnection s spec =
      let s0 := setLink s spec.link {}
      if !validClientId spec.clientId then .ok (s0.g (.notRegistered spec.link)) else
      match hnTakeover s0 spec with
      | .error e => .error e
      | .ok s1 =>
        if s1.conns.len ≥ s1.config.maxConnections then .ok (s1.g (.notRegistered spec.link)) else
        hnRegister s1 spec := by
  unfold handleNewConnection hnTakeover
  simp only []
  split
  · rfl
  · have key : ∀ r : M RState,
        (match r with
          | .error e => (.error e : M RState)
          | .ok s =>
            if s.conns.len ≥ s.config.maxConnections then .ok (s.g (.notRegistered spec.link)) else
            hnRegister s spec) = _ := fun r => rfl
    cases alookup spec.clientId (setLink s spec.link {}).connectionMap with
    | none =>
      simp only []
      split
      · rfl
      · exact hnRegister_eq _ spec
    | some old =>
      simp only []
      cases handleDisconnection (setLink s spec.link {}) old none with
      | error e => rfl
      | ok s1 =>
        simp only []
        split
        · rfl
        · exact hnRegister_eq _ spec

/-! ### one packet -/

def hpPre (s : RState) (id : Nat) (p : Pub) (fl : Flags) : M (RState × Flags × Bool) :=
  if p.qos = 1 then
    match commitAck s id (.puback p.pkid) with
    | .error e => .error e
    | .ok s => .ok (s, { fl with forceAck := true }, false)
  else if p.qos = 2 then
    match getConn s id with
    | none => .error (.panic "ackslog.get_mut(id).unwrap()")
    | some c =>
      let acks := { committed := c.acks.committed ++ [Ack.pubrec p.pkid], recorded := c.acks.recorded ++ [p] }
      .ok ((setConn s id { c with acks := acks }).g (.committed id (.pubrec p.pkid)), { fl with forceAck := true }, true)
  else .ok (s, fl, false)

theorem handlePacket_publish (s : RState) (id : Nat) (cid : String) (p : Pub) (fl : Flags) :
    handlePacket s id cid (.publish p) fl =
      match hpPre s id p fl with
      | .error e => .error e
      | .ok (s, fl, true) => .ok (s, fl)
      | .ok (s, fl, false) =>
        match appendToCommitlog s id p with
        | .error e => .error e
        | .ok (s, none) => .ok (s, { fl with newData := true })
        | .ok (s, some (.disconnect r)) => .ok (s, { fl with disconnect := true, reason := some r, stop := true })
        | .ok (s, some .other) => .ok (s, { fl with disconnect := true, stop := true }) := rfl

/-! ### kernel-executable form of the functions that wake parked group members

`wake_parked` sorts the logs with `List.mergeSort`, which is defined by well-founded recursion and
therefore does not reduce in the kernel: `rfl` / `decide` cannot evaluate `step` any more wherever
a wake-up is reached. The `…X` functions below are the model's functions with the sort replaced by
an insertion sort (structural recursion); each is proved EQUAL to the model's function, so closed
examples are evaluated on the `X` form and transferred (`run_eq_runX` in Reach.lean). Nothing else
uses them. -/

/-- insertion into a sorted list (kernel-reducible, unlike `List.mergeSort`) -/
def insSorted (a : Nat) : List Nat → List Nat
  | [] => [a]
  | b :: t => if a ≤ b then a :: b :: t else b :: insSorted a t

def isort : List Nat → List Nat
  | [] => []
  | a :: l => insSorted a (isort l)

theorem insSorted_perm (a : Nat) : ∀ l, (insSorted a l).Perm (a :: l)
  | [] => .refl _
  | b :: t => by
    simp only [insSorted]
    split
    · exact .refl _
    · exact ((insSorted_perm a t).cons b).trans (List.Perm.swap a b t)

theorem isort_perm : ∀ l, (isort l).Perm l
  | [] => .refl _
  | a :: l => (insSorted_perm a (isort l)).trans ((isort_perm l).cons a)

theorem insSorted_pairwise (a : Nat) : ∀ l, l.Pairwise (fun x y => decide (x ≤ y) = true) →
    (insSorted a l).Pairwise (fun x y => decide (x ≤ y) = true)
  | [], _ => by simp [insSorted]
  | b :: t, h => by
    simp only [insSorted]
    split
    · rename_i hab
      refine List.Pairwise.cons (fun c hc => ?_) h
      rcases List.mem_cons.mp hc with rfl | hc
      · simpa using hab
      · have := List.rel_of_pairwise_cons h hc
        simp only [decide_eq_true_eq] at this ⊢; omega
    · rename_i hab
      refine List.Pairwise.cons (fun c hc => ?_) (insSorted_pairwise a t h.of_cons)
      rcases List.mem_cons.mp ((insSorted_perm a t).mem_iff.mp hc) with rfl | hc
      · simp only [decide_eq_true_eq]; omega
      · exact List.rel_of_pairwise_cons h hc

theorem isort_pairwise : ∀ l, (isort l).Pairwise (fun x y => decide (x ≤ y) = true)
  | [] => List.Pairwise.nil
  | a :: l => insSorted_pairwise a _ (isort_pairwise l)

theorem mergeSort_eq_isort (l : List Nat) : l.mergeSort (fun a b => a ≤ b) = isort l := by
  apply List.Perm.eq_of_pairwise (le := fun x y => decide (x ≤ y) = true)
  · intro a b _ _ h1 h2
    simp only [decide_eq_true_eq] at h1 h2; omega
  · exact List.pairwise_mergeSort (fun a b c h1 h2 => by simp only [decide_eq_true_eq] at *; omega)
      (fun a b => by simp only [Bool.or_eq_true, decide_eq_true_eq]; omega) l
  · exact isort_pairwise l
  · exact (List.mergeSort_perm l _).trans (isort_perm l).symm


def wakeParkedX (s : RState) (logs : List Nat) : M RState := wakeParkedSorted s (isort logs).eraseDups
def wakeTurnMovedX (s : RState) : M RState := wakeParkedX { s with turnMoved := [] } s.turnMoved

theorem wakeParked_eqX (s : RState) (logs : List Nat) : wakeParked s logs = wakeParkedX s logs := by
  unfold wakeParked wakeParkedX; rw [mergeSort_eq_isort]

theorem wakeTurnMoved_eqX (s : RState) : wakeTurnMoved s = wakeTurnMovedX s := by
  unfold wakeTurnMoved wakeTurnMovedX; rw [wakeParked_eqX]

def handleDisconnectionX (s : RState) (id : Nat) (reason : Option String) : M RState :=
  match getConn s id with
  | none => .ok s
  | some c => wakeParkedX (hdFinal s id c reason) (hdMoved (hdNotify s c reason) id c)

theorem handleDisconnection_eqX (s : RState) (id : Nat) (reason : Option String) :
    handleDisconnection s id reason = handleDisconnectionX s id reason := by
  rw [handleDisconnection_eq]; unfold handleDisconnectionX
  split
  · rfl
  · rw [wakeParked_eqX]

def handleNewConnectionX (s : RState) (spec : ConnectSpec) : M RState :=
  let s0 := setLink s spec.link {}
  if !validClientId spec.clientId then .ok (s0.g (.notRegistered spec.link)) else
  match (match alookup spec.clientId s0.connectionMap with
         | some old => handleDisconnectionX s0 old none
         | none => .ok s0) with
  | .error e => .error e
  | .ok s1 =>
    if s1.conns.len ≥ s1.config.maxConnections then .ok (s1.g (.notRegistered spec.link)) else
    hnRegister s1 spec

theorem handleNewConnection_eqX (s : RState) (spec : ConnectSpec) :
    handleNewConnection s spec = handleNewConnectionX s spec := by
  rw [handleNewConnection_eq]; unfold handleNewConnectionX hnTakeover
  simp only [handleDisconnection_eqX]

def handleDevicePayloadX (s : RState) (id : Nat) : M RState :=
  match getConn s id with
  | none => .ok s
  | some c =>
    let lb := getLink s c.link
    let packets := lb.ibuf
    let s := setLink s c.link { lb with ibuf := [] }
    match handlePackets s id c.clientId packets {} with
    | .error e => .error e
    | .ok (s, fl) =>
      let r1 := if fl.forceAck then reschedule s id .freshData else .ok s
      match r1 with
      | .error e => .error e
      | .ok s =>
        let r2 := if fl.newData then drainNotifications { s with notifications := [] } s.notifications else .ok s
        match r2 with
        | .error e => .error e
        | .ok s =>
          match wakeTurnMovedX s with
          | .error e => .error e
          | .ok s => if fl.disconnect then handleDisconnectionX s id fl.reason else .ok s

theorem handleDevicePayload_eqX (s : RState) (id : Nat) : handleDevicePayload s id = handleDevicePayloadX s id := by
  unfold handleDevicePayload handleDevicePayloadX
  simp only [wakeTurnMoved_eqX, handleDisconnection_eqX]
  rfl

def consumeX (s : RState) : M (RState × Bool) :=
  match s.readyqueue.dropWhile (fun id => (s.conns.get? id).isNone) with
  | [] => .ok ({ s with readyqueue := [] }, false)
  | id :: rq =>
    let s := { s with readyqueue := rq }
    match getConn s id with
    | none => .ok (s, false)
    | some c =>
      let requests := c.tracker.requests
      let s := setConn s id { c with tracker := { c.tracker with requests := [] } }
      let s := { s with readyqueue := s.readyqueue ++ [id] }
      let s := ackDeviceData s id
      match consumeLoop s id MAX_SCHEDULE_ITERATIONS requests [] with
      | .error e => .error e
      | .ok s =>
        match wakeTurnMovedX s with
        | .error e => .error e
        | .ok s => .ok (s, true)

theorem consume_eqX (s : RState) : consume s = consumeX s := by
  unfold consume consumeX
  simp only [wakeTurnMoved_eqX]
  rfl

def eventsX (s : RState) (id : Nat) : Event → M RState
  | .deviceData => handleDevicePayloadX s id
  | .ready => if (getConn s id).isSome then reschedule s id .ready else .ok s
  | .disconnect => handleDisconnectionX s id none
  | .publishWill c => handleLastWill s c
  | .shadow f => handleShadow s id f
  | .sendMeters => .ok s
  | .sendAlerts => .ok s

theorem events_eqX (s : RState) (id : Nat) (ev : Event) : events s id ev = eventsX s id ev := by
  cases ev <;> simp only [events, eventsX, handleDevicePayload_eqX, handleDisconnection_eqX]

def stepX (s : RState) : Op → M (RState × Out)
  | .connect spec =>
    match handleNewConnectionX s spec with
    | .error e => .error e
    | .ok s => .ok (s, .ok)
  | .event id e =>
    match eventsX s id e with
    | .error e => .error e
    | .ok s => .ok (s, .ok)
  | .consume =>
    match consumeX s with
    | .error e => .error e
    | .ok (s, b) => .ok (s, .consumed b)
  | op => step s op

theorem step_eqX (s : RState) (op : Op) : step s op = stepX s op := by
  cases op <;> simp only [step, stepX, handleNewConnection_eqX, events_eqX, consume_eqX] <;> rfl

end Router
