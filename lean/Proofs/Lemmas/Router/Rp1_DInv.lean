/-
C03: the data invariant behind panic-freedom of the routing core.
  * every filter index the router holds — in `filter_indexes`, in the `publish_filters` cache, in
    the requests of trackers / waiters / notifications / saved sessions — is a valid index of
    `datalog.native` (`native.get(idx).unwrap()`, `native[idx]` never fail),
  * the connection ids in waiter lists and notifications are live (`scheduler.track(id)` /
    `reschedule(id)` find their tracker),
  * saved trackers are `Paused(Busy)` (`try_ready(Init)`'s debug assertion),
  * shared groups are never empty (`% len`, `gen_range(0..len)`).
`Good A Q r`: if the result `r` is a panic then its message satisfies `A` (`A := fun _ => False`:
no panic at all; the two `debug_assert!(check_tracker_duplicates)` messages are the only ones this
invariant does not exclude), and if it is `ok a` then `Q a`.
-/
import Proofs.Lemmas.Router.Rp1_Ack
namespace Router

/-- the messages of the two dev-profile assertions about duplicate requests in a tracker; excluding them needs the
    request-conservation invariant (one request per (connection, filter), in exactly one place) -/
def dupNewConnection : String := "debug_assert check_tracker_duplicates (new connection)"
def dupPrepareFilter : String := "debug_assert check_tracker_duplicates (prepare_filter)"
def Allowed (msg : String) : Prop := msg = dupNewConnection ∨ msg = dupPrepareFilter

def Good {α : Type} (A : String → Prop) (Q : α → Prop) : M α → Prop
  | .ok a => Q a
  | .error (.panic msg) => A msg
  | .error (.badChoice _) => True

variable {A : String → Prop}

theorem Good.error_of {α β : Type} {P : α → Prop} {Q : β → Prop} {m : M α} {e : Fail} (he : m = .error e)
    (hm : Good A P m) : Good A Q (.error e : M β) := by
  subst he; cases e <;> exact hm

theorem Good.ok_of {α : Type} {P : α → Prop} {m : M α} {a : α} (he : m = .ok a) (hm : Good A P m) : P a := by
  subst he; exact hm

theorem Good.with_ok {α β : Type} {P : α → Prop} {Q : β → Prop} {m : M α} {a : α} {k : M β} (he : m = .ok a)
    (hm : Good A P m) (c : P a → Good A Q k) : Good A Q k := c (Good.ok_of he hm)

theorem Good.mono {α : Type} {P Q : α → Prop} {m : M α} (hm : Good A P m) (h : ∀ a, P a → Q a) : Good A Q m := by
  cases m with
  | ok a => exact h a hm
  | error e => cases e <;> exact hm

theorem Good.badChoice {α : Type} {Q : α → Prop} (msg : String) : Good A Q (.error (.badChoice msg) : M α) := trivial

/-- no panic at all (used for the sites this invariant does cover) -/
theorem Good.not_panic {α : Type} {Q : α → Prop} {m : M α} (hm : Good A Q m) (msg : String)
    (h : m = .error (.panic msg)) : A msg := by
  subst h; exact hm

/-- number of filter logs -/
def N (s : RState) : Nat := s.datalog.native.length
def ReqsOK (n : Nat) (rs : List DataRequest) : Prop := ∀ r ∈ rs, r.filterIdx < n
def Live (s : RState) (id : Nat) : Prop := (getConn s id).isSome = true

theorem ReqsOK.mono {n m : Nat} {rs : List DataRequest} (h : ReqsOK n rs) (hnm : n ≤ m) : ReqsOK m rs :=
  fun r hr => Nat.lt_of_lt_of_le (h r hr) hnm
theorem ReqsOK.append {n : Nat} {a b : List DataRequest} (ha : ReqsOK n a) (hb : ReqsOK n b) : ReqsOK n (a ++ b) :=
  fun r hr => by
    rcases List.mem_append.mp hr with h | h
    · exact ha r h
    · exact hb r h
theorem ReqsOK.nil (n : Nat) : ReqsOK n [] := fun _ h => by simp at h
theorem ReqsOK.cons {n : Nat} {r : DataRequest} {rs : List DataRequest} (hr : r.filterIdx < n) (h : ReqsOK n rs) :
    ReqsOK n (r :: rs) := fun x hx => by
  rcases List.mem_cons.mp hx with rfl | h'
  · exact hr
  · exact h x h'
theorem ReqsOK.of_cons {n : Nat} {r : DataRequest} {rs : List DataRequest} (h : ReqsOK n (r :: rs)) :
    r.filterIdx < n ∧ ReqsOK n rs := ⟨h r (by simp), fun x hx => h x (by simp [hx])⟩
theorem ReqsOK.filter {n : Nat} {rs : List DataRequest} (h : ReqsOK n rs) (p : DataRequest → Bool) :
    ReqsOK n (rs.filter p) := fun r hr => h r (List.mem_filter.mp hr).1

structure DInv (s : RState) : Prop where
  fidx : ∀ p ∈ s.datalog.filterIndexes, p.2 < N s
  pf : ∀ p ∈ s.datalog.publishFilters, ∀ i ∈ p.2, i < N s
  trk : ∀ id c, getConn s id = some c → ReqsOK (N s) c.tracker.requests
  wt : ∀ fd ∈ s.datalog.native, ∀ w ∈ fd.waiters, w.2.filterIdx < N s ∧ Live s w.1
  ntf : ∀ n ∈ s.notifications, n.2.filterIdx < N s ∧ Live s n.1
  grv : ∀ p ∈ s.graveyard, ∀ ss, p.2 = some ss →
    ReqsOK (N s) ss.tracker.requests ∧ ss.tracker.status = .paused .busy
  grp : ∀ p ∈ s.shared, p.2.clients ≠ []

theorem DInv.init (cfg : Config) : DInv (init cfg) where
  fidx := fun p h => by simp [Router.init] at h
  pf := fun p h => by simp [Router.init] at h
  trk := fun id c h => by simp [Router.init, getConn, Slab.get?] at h
  wt := fun fd h => by simp [Router.init] at h
  ntf := fun n h => by simp [Router.init] at h
  grv := fun p h => by simp [Router.init] at h
  grp := fun p h => by simp [Router.init] at h

/-- the invariant reads only these parts of the state -/
theorem DInv.congr {s s' : RState} (h : DInv s) (hc : s'.conns = s.conns)
    (hn : s'.datalog.native = s.datalog.native) (hf : s'.datalog.filterIndexes = s.datalog.filterIndexes)
    (hp : s'.datalog.publishFilters = s.datalog.publishFilters) (hnt : s'.notifications = s.notifications)
    (hg : s'.graveyard = s.graveyard) (hs : s'.shared = s.shared) : DInv s' := by
  have hN : N s' = N s := by unfold N; rw [hn]
  have hl : ∀ j, getConn s' j = getConn s j := fun j => by unfold getConn; rw [hc]
  have hlive : ∀ j, Live s' j ↔ Live s j := fun j => by unfold Live; rw [hl]
  refine ⟨?_, ?_, ?_, ?_, ?_, ?_, ?_⟩
  · rw [hf, hN]; exact h.fidx
  · rw [hp, hN]; exact h.pf
  · intro id c hcc; rw [hl] at hcc; rw [hN]; exact h.trk id c hcc
  · rw [hn, hN]; intro fd hfd w hw; rw [hlive]; exact h.wt fd hfd w hw
  · rw [hnt, hN]; intro n hn'; rw [hlive]; exact h.ntf n hn'
  · rw [hg, hN]; exact h.grv
  · rw [hs]; exact h.grp

/-- replacing a live connection by one whose tracker holds valid requests -/
theorem DInv.of_set {s s' : RState} {id : Nat} {c c' : Conn} (h : DInv s) (hc : getConn s id = some c)
    (hconns : s'.conns = s.conns.set id c') (hr : ReqsOK (N s) c'.tracker.requests)
    (hn : s'.datalog.native = s.datalog.native) (hf : s'.datalog.filterIndexes = s.datalog.filterIndexes)
    (hp : s'.datalog.publishFilters = s.datalog.publishFilters) (hnt : s'.notifications = s.notifications)
    (hg : s'.graveyard = s.graveyard) (hs : s'.shared = s.shared) : DInv s' := by
  have hN : N s' = N s := by unfold N; rw [hn]
  have hl : ∀ j, getConn s' j = if j = id then some c' else getConn s j := fun j => by
    unfold getConn; rw [hconns]; exact Slab.get?_set_live hc j c'
  have hlive : ∀ j, Live s j → Live s' j := fun j hj => by
    unfold Live at hj ⊢; rw [hl]; split
    · rfl
    · exact hj
  refine ⟨?_, ?_, ?_, ?_, ?_, ?_, ?_⟩
  · rw [hf, hN]; exact h.fidx
  · rw [hp, hN]; exact h.pf
  · intro j d hd
    rw [hl] at hd; rw [hN]
    split at hd
    · simp only [Option.some.injEq] at hd; subst hd; exact hr
    · exact h.trk j d hd
  · rw [hn, hN]; intro fd hfd w hw; exact ⟨(h.wt fd hfd w hw).1, hlive _ (h.wt fd hfd w hw).2⟩
  · rw [hnt, hN]; intro n hn'; exact ⟨(h.ntf n hn').1, hlive _ (h.ntf n hn').2⟩
  · rw [hg, hN]; exact h.grv
  · rw [hs]; exact h.grp

theorem DInv.with_shared {s : RState} (h : DInv s) (sh : List (String × SharedGroup))
    (hs : ∀ p ∈ sh, p.2.clients ≠ []) : DInv { s with shared := sh } :=
  ⟨h.fidx, h.pf, h.trk, h.wt, h.ntf, h.grv, hs⟩

theorem DInv.with_notifications {s : RState} (h : DInv s) (ns : List (Nat × DataRequest))
    (hn : ∀ n ∈ ns, n.2.filterIdx < N s ∧ Live s n.1) : DInv { s with notifications := ns } :=
  ⟨h.fidx, h.pf, h.trk, h.wt, hn, h.grv, h.grp⟩

theorem DInv.with_graveyard {s : RState} (h : DInv s) (g : List (String × Option SessionState))
    (hg : ∀ p ∈ g, ∀ ss, p.2 = some ss → ReqsOK (N s) ss.tracker.requests ∧ ss.tracker.status = .paused .busy) :
    DInv { s with graveyard := g } :=
  ⟨h.fidx, h.pf, h.trk, h.wt, h.ntf, hg, h.grp⟩

/-! membership in association lists -/

theorem mem_of_alookup {β : Type} {k : String} {v : β} : ∀ {l : List (String × β)}, alookup k l = some v → (k, v) ∈ l
  | [], h => by simp [alookup] at h
  | (k', v') :: r, h => by
    simp only [alookup] at h
    split at h
    · rename_i e; simp only [Option.some.injEq] at h; subst e h; simp
    · exact List.mem_cons_of_mem _ (mem_of_alookup h)

theorem mem_ainsert {β : Type} {k : String} {v : β} {l : List (String × β)} {p : String × β}
    (h : p ∈ ainsert k v l) : p ∈ l ∨ p = (k, v) := by
  unfold ainsert at h
  split at h
  · obtain ⟨q, hq, e⟩ := List.mem_map.mp h
    split at e
    · exact .inr e.symm
    · exact .inl (e ▸ hq)
  · rcases List.mem_append.mp h with h | h
    · exact .inl h
    · exact .inr (by simpa using h)

theorem mem_aremove {β : Type} {k : String} {l : List (String × β)} {p : String × β}
    (h : p ∈ aremove k l) : p ∈ l := (List.mem_filter.mp h).1

end Router
