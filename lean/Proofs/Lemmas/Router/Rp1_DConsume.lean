/-
C03: `consume()` never reaches a panic site in a state satisfying `DInv`: the polled id is live,
every request's filter index is valid (`forward_device_data`, `park`), groups are non-empty
(`update_next_client`), and the polled id stays at the back of the ready queue until `pause`.
-/
import Proofs.Lemmas.Router.Rp1_DEvents
namespace Router
variable {A : String → Prop}

/-- post-condition of the pieces of one sweep: invariant kept; ready queue, notifications and the
    number of filter logs untouched -/
def CQ (s s' : RState) : Prop :=
  DInv s' ∧ s'.readyqueue = s.readyqueue ∧ s'.notifications = s.notifications ∧ N s' = N s

theorem CQ.refl {s : RState} (h : DInv s) : CQ s s := ⟨h, rfl, rfl, rfl⟩
theorem CQ.trans {a b c : RState} (h1 : CQ a b) (h2 : CQ b c) : CQ a c :=
  ⟨h2.1, h2.2.1.trans h1.2.1, h2.2.2.1.trans h1.2.2.1, h2.2.2.2.trans h1.2.2.2⟩

theorem readRetained_good {s : RState} {f : String} :
    Good A (fun r => ∃ o, r.1 = { s with oracle := o }) (readRetained s f) := by
  unfold readRetained
  simp only []
  split
  · split
    · exact ⟨_, rfl⟩
    · exact Good.badChoice _
  · exact Good.badChoice _

theorem fdRetained_good {s : RState} {req : DataRequest} {slots : Nat} :
    Good A (fun r => ∃ o, r.1 = { s with oracle := o }) (fdRetained s req slots) := by
  unfold fdRetained
  split
  · have hr := readRetained_good (A := A) (s := s) (f := req.filter)
    split
    · rename_i e he; exact Good.error_of he hr
    · rename_i s1 ps h1
      obtain ⟨o, ho⟩ := Good.ok_of h1 hr
      exact ⟨o, ho⟩
  · exact ⟨s.oracle, rfl⟩

theorem updateNextClient_good {s : RState} {g : SharedGroup} (hg : g.clients ≠ []) :
    Good A (fun r => (∃ o, r.1 = { s with oracle := o }) ∧ r.2.clients = g.clients) (updateNextClient s g) := by
  have hne : g.clients.isEmpty = false := by cases hc : g.clients with
    | nil => exact absurd hc hg
    | cons a l => rfl
  unfold updateNextClient
  split
  · exact ⟨⟨s.oracle, rfl⟩, rfl⟩
  · simp only [hne, Bool.false_eq_true, if_false]
    exact ⟨⟨s.oracle, rfl⟩, rfl⟩
  · simp only [hne, Bool.false_eq_true, if_false]
    split
    · split
      · exact ⟨⟨_, rfl⟩, rfl⟩
      · exact Good.badChoice _
    · exact Good.badChoice _

theorem fdGroupUpd_good {s : RState} {req : DataRequest} {grp : Option SharedGroup} (h : DInv s) :
    Good A (CQ s) (fdGroupUpd s req grp) := by
  unfold fdGroupUpd
  split
  · rename_i gname _
    split
    · exact CQ.refl h
    · rename_i g hg
      have hne := h.grp _ (mem_of_alookup hg)
      have hu := updateNextClient_good (A := A) (s := s) hne
      split
      · rename_i e he; exact Good.error_of he hu
      · rename_i s1 g1 h1
        obtain ⟨⟨o, rfl⟩, hcl⟩ := Good.ok_of h1 hu
        have h1' : DInv ({ s with oracle := o } : RState) := h.congr rfl rfl rfl rfl rfl rfl rfl
        refine ⟨(h1'.with_shared _ fun p hp => ?_), rfl, rfl, rfl⟩
        rcases mem_ainsert hp with hp | rfl
        · exact h.grp p hp
        · show g1.clients ≠ []
          rw [show g1.clients = g.clients from hcl]; exact hne
  · exact CQ.refl h

theorem fdPush_good {s : RState} {id : Nat} {c : Conn} {req : DataRequest} {grp : Option SharedGroup}
    {pubs : List (Pub × Option Cursor)} {cu : Bool} (h : DInv s) (hc : getConn s id = some c) :
    Good A (fun r => CQ s r.1 ∧ r.2.1 = req) (fdPush s id c req grp pubs cu) := by
  unfold fdPush
  simp only []
  have h1 := h.of_set (s' := pushNotifs (setConn s id { c with out := (fdOut c req pubs).1, brokerAliases := (fdAliases c req.filter).1 }) c.link (fdOut c req pubs).2)
    hc rfl (h.trk id c hc) rfl rfl rfl rfl rfl rfl
  have hg := fdGroupUpd_good (A := A) (req := req) (grp := grp) h1
  split
  · rename_i e he; exact Good.error_of he hg
  · rename_i s2 h2
    have q2 := Good.ok_of h2 hg
    split
    · exact ⟨⟨q2.1.congr rfl rfl rfl rfl rfl rfl rfl, q2.2.1, q2.2.2.1, q2.2.2.2⟩, rfl⟩
    · exact ⟨⟨q2.1.congr rfl rfl rfl rfl rfl rfl rfl, q2.2.1, q2.2.2.1, q2.2.2.2⟩, rfl⟩

theorem fdReq0_idx (req : DataRequest) (grp : Option SharedGroup) : (fdReq0 req grp).filterIdx = req.filterIdx := by
  cases grp <;> rfl

theorem forwardDeviceData_good {s : RState} {id : Nat} {req : DataRequest} (h : DInv s) (hl : Live s id)
    (hi : req.filterIdx < N s) :
    Good A (fun r => CQ s r.1 ∧ r.2.1.filterIdx = req.filterIdx) (forwardDeviceData s id req) := by
  obtain ⟨c, hc⟩ := hl.get
  rw [forwardDeviceData_eq]
  simp only [hc]
  have hidx := fdReq0_idx req (fdGrp s req)
  split
  · exact ⟨CQ.refl h, hidx⟩
  · have hr := fdRetained_good (A := A) (s := s) (req := fdReq0 req (fdGrp s req)) (slots := fdSlots s c (fdReq0 req (fdGrp s req)).qos (fdGrp s req))
    split
    · rename_i e he; exact Good.error_of he hr
    · rename_i s1 rp slots h1
      obtain ⟨o, rfl⟩ := Good.ok_of h1 hr
      have h1' : DInv ({ s with oracle := o } : RState) := h.congr rfl rfl rfl rfl rfl rfl rfl
      have hlt : (fdReq0 req (fdGrp s req)).filterIdx < s.datalog.native.length := by rw [hidx]; exact hi
      simp only []
      rw [show ({ s with oracle := o } : RState).datalog.native = s.datalog.native from rfl,
        List.getElem?_eq_getElem hlt]
      simp only []
      split
      · exact ⟨⟨h1', rfl, rfl, rfl⟩, hidx⟩
      · split
        · exact ⟨⟨h1', rfl, rfl, rfl⟩, hidx⟩
        · have hc1 : getConn ({ s with oracle := o } : RState) id = some c := hc
          refine (fdPush_good h1' hc1).mono fun r q => ⟨⟨q.1.1, q.1.2.1, q.1.2.2.1, q.1.2.2.2⟩, ?_⟩
          rw [q.2]; exact hidx

theorem park_good {s : RState} {id : Nat} {r : DataRequest} (h : DInv s) (hl : Live s id)
    (hi : r.filterIdx < N s) : Good A (CQ s) (park s id r) := by
  unfold park
  have hlt : r.filterIdx < s.datalog.native.length := hi
  rw [List.getElem?_eq_getElem hlt]
  simp only []
  have hfd : s.datalog.native[r.filterIdx] ∈ s.datalog.native := List.getElem_mem hlt
  refine ⟨(h.native_set r.filterIdx _ (fun w hw => ?_) s.notifications h.ntf s.ghost).congr rfl rfl rfl rfl rfl rfl rfl,
    rfl, rfl, ?_⟩
  · rcases List.mem_append.mp hw with hw | hw
    · exact h.wt _ hfd w hw
    · simp only [List.mem_singleton] at hw; subst hw; exact ⟨hi, hl⟩
  · show (s.datalog.native.set _ _).length = _
    rw [List.length_set]; rfl

theorem ackDeviceData_dinv {s : RState} (h : DInv s) (id : Nat) : CQ s (ackDeviceData s id) := by
  unfold ackDeviceData
  split
  · exact CQ.refl h
  · rename_i c hc
    split
    · exact CQ.refl h
    · exact ⟨h.of_set hc rfl (h.trk id c hc) rfl rfl rfl rfl rfl rfl, rfl, rfl, rfl⟩

/-- the pause + trackv ending of a sweep -/
theorem pause_trackv_good {s : RState} {id : Nat} {r : PauseReason} {rs : List DataRequest} (h : DInv s)
    (hl : Live s id) (hq : s.readyqueue.getLast? = some id) (hr : ReqsOK (N s) rs) :
    Good A (fun s' => DInv s' ∧ s'.notifications = s.notifications)
      (match pause s id r with | .error e => .error e | .ok s => trackv s id rs) := by
  gbind (pause_good (r := r) h hl hq) with s1 h1 q1
  have hN : N s1 = N s := by
    unfold pause at h1
    split at h1
    · simp at h1
    · split at h1
      · simp at h1
      · simp only [Except.ok.injEq] at h1; subst h1; rfl
  refine (trackv_good q1.1 (hl.shape (pause_shape h1)) (by rw [hN]; exact hr)).mono fun s' q => ⟨q.1, ?_⟩
  rw [q.2, q1.2]

theorem consumeLoop_good {id : Nat} : ∀ (fuel : Nat) {s : RState} {requests skipped : List DataRequest}, DInv s →
    Live s id → ReqsOK (N s) requests → ReqsOK (N s) skipped → s.readyqueue.getLast? = some id →
    Good A (fun s' => DInv s' ∧ s'.notifications = s.notifications) (consumeLoop s id fuel requests skipped)
  | 0, s, requests, skipped, h, hl, hr, hs, _ => by
    simp only [consumeLoop]
    exact trackv_good h hl (hr.append hs)
  | fuel + 1, s, requests, skipped, h, hl, hr, hs, hq => by
    cases requests with
    | nil =>
      simp only [consumeLoop]
      by_cases he : skipped.isEmpty = true
      · simp only [he, if_true]
        exact pause_trackv_good h hl hq hs
      · simp only [he, Bool.false_eq_true, if_false]
        exact trackv_good h hl hs
    | cons req rest =>
      obtain ⟨hr0, hrest⟩ := hr.of_cons
      simp only [consumeLoop]
      have hf := forwardDeviceData_good (A := A) (req := req) h hl hr0
      split
      · rename_i e he; exact Good.error_of he hf
      · rename_i s1 req1 st h1
        obtain ⟨⟨d1, rq1, nt1, n1⟩, hidx⟩ := Good.ok_of h1 hf
        have l1 : Live s1 id := hl.shape (forwardDeviceData_shape h1)
        have hq1 : s1.readyqueue.getLast? = some id := by rw [rq1]; exact hq
        have hreq1 : req1.filterIdx < N s1 := by rw [n1]; exact hidx ▸ hr0
        have hrest1 : ReqsOK (N s1) rest := by rw [n1]; exact hrest
        have hs1 : ReqsOK (N s1) skipped := by rw [n1]; exact hs
        have hone : ReqsOK (N s1) [req1] := ReqsOK.cons hreq1 (ReqsOK.nil _)
        obtain ⟨tm, etm⟩ := noteTurn_eq s s1 req1
        simp only [etm]
        replace d1 : DInv ({ s1 with turnMoved := tm } : RState) := d1.congr rfl rfl rfl rfl rfl rfl rfl
        replace l1 : Live ({ s1 with turnMoved := tm } : RState) id := l1
        replace hq1 : ({ s1 with turnMoved := tm } : RState).readyqueue.getLast? = some id := hq1
        replace nt1 : ({ s1 with turnMoved := tm } : RState).notifications = s.notifications := nt1
        replace hreq1 : req1.filterIdx < N ({ s1 with turnMoved := tm } : RState) := hreq1
        replace hrest1 : ReqsOK (N ({ s1 with turnMoved := tm } : RState)) rest := hrest1
        replace hs1 : ReqsOK (N ({ s1 with turnMoved := tm } : RState)) skipped := hs1
        replace hone : ReqsOK (N ({ s1 with turnMoved := tm } : RState)) [req1] := hone
        split
        · exact (pause_trackv_good d1 l1 hq1 ((hrest1.append hone).append hs1)).mono fun s' q => ⟨q.1, by rw [q.2, nt1]⟩
        · exact (pause_trackv_good d1 l1 hq1 ((hrest1.append hone).append hs1)).mono fun s' q => ⟨q.1, by rw [q.2, nt1]⟩
        · gbind (park_good d1 l1 hreq1) with s2 h2 q2
          have l2 : Live s2 id := l1.core (park_core h2)
          refine (consumeLoop_good fuel q2.1 l2 (by rw [q2.2.2.2]; exact hrest1) (by rw [q2.2.2.2]; exact hs1)
            (by rw [q2.2.1]; exact hq1)).mono fun s' q => ⟨q.1, by rw [q.2, q2.2.2.1, nt1]⟩
        · exact (consumeLoop_good fuel d1 l1 (hrest1.append hone) hs1 hq1).mono fun s' q => ⟨q.1, by rw [q.2, nt1]⟩
        · exact (consumeLoop_good fuel d1 l1 hrest1 (hs1.append hone) hq1).mono fun s' q => ⟨q.1, by rw [q.2, nt1]⟩

theorem consume_good {s : RState} (h : BInv s) : Good A (fun r => BInv r.1) (consume s) := by
  unfold consume
  split
  · exact ⟨h.1.congr rfl rfl rfl rfl rfl rfl rfl, h.2⟩
  · rename_i id rq hq
    simp only []
    split
    · exact ⟨h.1.congr rfl rfl rfl rfl rfl rfl rfl, h.2⟩
    · rename_i c hc
      have hc' : getConn s id = some c := hc
      have h1 := h.1.of_set (s' := ({ setConn { s with readyqueue := rq } id { c with tracker := { c.tracker with requests := [] } } with readyqueue := (setConn { s with readyqueue := rq } id { c with tracker := { c.tracker with requests := [] } }).readyqueue ++ [id] } : RState))
        hc' rfl (ReqsOK.nil _) rfl rfl rfl rfl rfl rfl
      have l1 : Live ({ setConn { s with readyqueue := rq } id { c with tracker := { c.tracker with requests := [] } } with readyqueue := (setConn { s with readyqueue := rq } id { c with tracker := { c.tracker with requests := [] } }).readyqueue ++ [id] } : RState) id := by
        unfold Live; show (getConn (setConn { s with readyqueue := rq } id _) id).isSome = true
        rw [getConn_setConn_live hc]; simp
      obtain ⟨d2, rq2, nt2, n2⟩ := ackDeviceData_dinv h1 id
      have l2 := l1.shape (ackDeviceData_shape _ id)
      have hl := consumeLoop_good (A := A) (id := id) MAX_SCHEDULE_ITERATIONS (requests := c.tracker.requests) (skipped := []) d2 l2
        (by rw [n2]; exact h.1.trk id c hc') (ReqsOK.nil _) (by rw [rq2]; simp)
      split
      · rename_i e he; exact Good.error_of he hl
      · rename_i s3 h3
        have q3 := Good.ok_of h3 hl
        gbind (wakeTurnMoved_good (A := A) q3.1) with s4 h4 q4
        exact ⟨q4.1, by rw [q4.2, q3.2, nt2]; exact h.2⟩

end Router
