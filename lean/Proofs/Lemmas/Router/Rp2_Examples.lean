/-
Small concrete router states used by the non-vacuity examples of C06 / C15 / C16.
-/
import Proofs.Lemmas.Router.Rp2_Acks
import Proofs.Lemmas.Router.Rp2_Qos2
import Proofs.Lemmas.Router.Rp2_Will
namespace Router

def exConfig : Config :=
  { maxConnections := 10, maxSegmentSize := 1000, maxSegmentCount := 3, maxOutgoingPacketCount := 10,
    strategy := .roundRobin }

/-- one live connection `"a"` in slot 0 on link 0, no filters, no retained messages; the oracle
    holds the (empty) hash-map orders two publishes need -/
def exState : RState :=
  { config := exConfig,
    conns := { entries := [some { clientId := "a", link := 0, clean := true, dynamicFilters := false,
                                  tracker := { id := "a" } }] },
    links := [{}],
    connectionMap := [("a", 0)],
    oracle := [.matches [], .matches []] }

/-- topic "t" -/
def exPub1 : Pub := { qos := 1, pkid := 7, retain := false, dup := false, topic := [116], payload := [1] }
def exPub2 : Pub := { qos := 2, pkid := 9, retain := false, dup := false, topic := [116], payload := [2] }
/-- retained publish on topic "t" -/
def exPubR : Pub := { qos := 0, pkid := 0, retain := true, dup := false, topic := [116], payload := [5] }

/-- a will on topic "t" -/
def exWill : Will := { topic := [116], payload := [9], qos := 0, retain := false }

/-- CONNECT of client "w" on link 0 carrying `exWill` -/
def exSpecWill : ConnectSpec :=
  { link := 0, clientId := "w", clean := true, dynamicFilters := false, aliasMax := 0, will := some exWill }

end Router
