/-
C17 completeness at idle for shared groups: the liveness invariant `GL` —
  for every shared group (key `g`, log `i` = the log of the group's path): the group's cursor is at
  the end of log `i`, or log `i` is in `turn_moved` (its parked requests are about to be woken), or
  the connection that holds the group's turn has no request of the group parked on log `i` —
together with the well-formedness of the group table (distinct keys, valid turn index, keys of the
form `<share>/<path>`). Definitions, the relation `LMono` (what every step except `park` and the
wake-up at the end of a call satisfies), primitive operations.
-/
import Proofs.Lemmas.Router.Rp8_Idle
namespace Router
open CommitLog (logC cursorAbs)

/-! ### association lists -/

theorem alookup_eq_none_mem {β : Type} {k : String} : ∀ {l : List (String × β)}, alookup k l = none ↔ ∀ p ∈ l, p.1 ≠ k
  | [] => by simp [alookup]
  | (k', v) :: r => by
    simp only [alookup]
    split
    · rename_i e; simp [e]
    · rename_i e
      rw [alookup_eq_none_mem (l := r)]
      simp [e]

theorem keys_ainsert {β : Type} (k : String) (v : β) (l : List (String × β)) :
    (ainsert k v l).map (·.1) = if (alookup k l).isSome then l.map (·.1) else l.map (·.1) ++ [k] := by
  unfold ainsert
  split
  · rw [List.map_map]
    apply List.map_congr_left
    intro p _
    simp only [Function.comp]
    split
    · rename_i e; exact e.symm
    · rfl
  · simp

theorem nodup_keys_ainsert {β : Type} {k : String} {v : β} {l : List (String × β)} (h : (l.map (·.1)).Nodup) :
    ((ainsert k v l).map (·.1)).Nodup := by
  rw [keys_ainsert]
  split
  · exact h
  · rename_i hn
    have hnone : alookup k l = none := by simpa using hn
    refine List.nodup_append.mpr ⟨h, by simp, fun a ha b hb => ?_⟩
    simp only [List.mem_singleton] at hb; subst hb
    obtain ⟨p, hp, rfl⟩ := List.mem_map.mp ha
    exact alookup_eq_none_mem.mp hnone p hp

theorem alookup_of_mem_keys_nodup {β : Type} {k : String} {v : β} : ∀ {l : List (String × β)}, (l.map (·.1)).Nodup →
    (k, v) ∈ l → alookup k l = some v
  | [], _, h => by cases h
  | (k', v') :: r, hn, h => by
    simp only [List.map_cons, List.nodup_cons] at hn
    simp only [alookup]
    rcases List.mem_cons.mp h with e | h'
    · cases e; simp
    · split
      · rename_i e
        exact absurd (List.mem_map.mpr ⟨(k, v), h', e.symm⟩) hn.1
      · exact alookup_of_mem_keys_nodup hn.2 h'

theorem nodup_keys_sublist {β : Type} {l l' : List (String × β)} (h : (l.map (·.1)).Nodup) (hs : l'.Sublist l) :
    (l'.map (·.1)).Nodup := (hs.map _).nodup h

/-! ### the invariant -/

/-- the cursor's absolute position is the end of the log: a read from it returns nothing -/
def AbsEnd (fd : FilterData) (cur : Cursor) : Prop := cursorAbs (logC fd.log) cur = (logC fd.log).nextAbs

/-- the connection holding the turn of group `g` has no request of the group parked on log `i` -/
def NoneParked (s : RState) (g : String) (grp : SharedGroup) (i : Nat) : Prop :=
  ∀ id c r, getConn s id = some c → grp.current = some c.clientId → r.group = some g → ¬ ParkedAt s i id r

/-- the liveness condition of one group -/
def LVe (s : RState) (g : String) (grp : SharedGroup) : Prop :=
  ∀ i, s.datalog.filterIdx? (Rp3.gpath g) = some i →
    (∃ fd, s.datalog.native[i]? = some fd ∧ AbsEnd fd grp.cursor) ∨ i ∈ s.turnMoved ∨ NoneParked s g grp i

structure GL (s : RState) : Prop where
  nodup : (s.shared.map (·.1)).Nodup
  wf : ∀ p ∈ s.shared, p.2.idx < p.2.clients.length
  key : ∀ p ∈ s.shared, (p.1.toList.idxOf? '/').isSome = true
  lv : ∀ p ∈ s.shared, LVe s p.1 p.2

theorem LVe.congr {s : RState} {g : String} {grp grp' : SharedGroup} (h : LVe s g grp) (hc : grp'.cursor = grp.cursor)
    (hcur : grp'.current = grp.current) : LVe s g grp' := by
  intro i hi
  rcases h i hi with ⟨fd, a, b⟩ | h | h
  · exact .inl ⟨fd, a, by rw [hc]; exact b⟩
  · exact .inr (.inl h)
  · exact .inr (.inr fun id c r hcn hh => h id c r hcn (hcur ▸ hh))

/-- what every step except `park`, and except the reset of `turn_moved`, does as far as `LVe` reads the state -/
structure LMono (s s' : RState) : Prop where
  conn : ∀ id c', getConn s' id = some c' →
    (∃ c, getConn s id = some c ∧ c.clientId = c'.clientId) ∨ (∀ i r, ¬ ParkedAt s' i id r)
  parked : ∀ i id r, ParkedAt s' i id r → ParkedAt s i id r
  tm : ∀ i ∈ s.turnMoved, i ∈ s'.turnMoved
  fi : ∀ f i, s'.datalog.filterIdx? f = some i → s.datalog.filterIdx? f = some i ∨ ∀ id r, ¬ ParkedAt s' i id r
  logs : ∀ (i : Nat) fd, s.datalog.native[i]? = some fd →
    ∃ fd', s'.datalog.native[i]? = some fd' ∧ (fd'.log = fd.log ∨ fd'.waiters = [])

theorem LMono.refl (s : RState) : LMono s s :=
  ⟨fun _ c' h => .inl ⟨c', h, rfl⟩, fun _ _ _ h => h, fun _ h => h, fun _ _ h => .inl h, fun _ fd h => ⟨fd, h, .inl rfl⟩⟩

theorem LMono.trans {a b c : RState} (h1 : LMono a b) (h2 : LMono b c) : LMono a c := by
  refine ⟨fun id c' hc => ?_, fun i id r h => h1.parked i id r (h2.parked i id r h), fun i h => h2.tm i (h1.tm i h),
    fun f i h => ?_, fun i fd h => ?_⟩
  · rcases h2.conn id c' hc with ⟨cb, hb, e⟩ | h
    · rcases h1.conn id cb hb with ⟨ca, ha, e'⟩ | h'
      · exact .inl ⟨ca, ha, e'.trans e⟩
      · exact .inr fun i r hp => h' i r (h2.parked i id r hp)
    · exact .inr h
  · rcases h2.fi f i h with hb | h'
    · rcases h1.fi f i hb with ha | h''
      · exact .inl ha
      · exact .inr fun id r hp => h'' id r (h2.parked i id r hp)
    · exact .inr h'
  · obtain ⟨fd1, g1, e1⟩ := h1.logs i fd h
    obtain ⟨fd2, g2, e2⟩ := h2.logs i fd1 g1
    refine ⟨fd2, g2, ?_⟩
    rcases e2 with e2 | e2
    · rcases e1 with e1 | e1
      · exact .inl (e2.trans e1)
      · refine .inr (List.eq_nil_iff_forall_not_mem.mpr fun w hw => ?_)
        have := h2.parked i w.1 w.2 ⟨fd2, g2, hw⟩
        obtain ⟨fd1', g1', hm⟩ := this
        rw [g1] at g1'; cases g1'
        rw [e1] at hm; cases hm
    · exact .inr e2

theorem LVe.mono {s s' : RState} {g : String} {grp : SharedGroup} (h : LVe s g grp) (m : LMono s s') : LVe s' g grp := by
  intro i hi
  rcases m.fi _ i hi with hi0 | hnp
  · rcases h i hi0 with ⟨fd, a, b⟩ | h | h
    · obtain ⟨fd', a', e⟩ := m.logs i fd a
      rcases e with e | e
      · exact .inl ⟨fd', a', by unfold AbsEnd at b ⊢; rw [e]; exact b⟩
      · refine .inr (.inr fun id c r _ _ _ hp => ?_)
        obtain ⟨fd'', a'', hm⟩ := hp
        rw [a'] at a''; cases a''
        rw [e] at hm; cases hm
    · exact .inr (.inl (m.tm i h))
    · refine .inr (.inr fun id c' r hc' hcur hg hp => ?_)
      rcases m.conn id c' hc' with ⟨c, hc, e⟩ | hn
      · exact h id c r hc (e ▸ hcur) hg (m.parked i id r hp)
      · exact hn i r hp
  · exact .inr (.inr fun id c r _ _ _ hp => hnp id r hp)

/-- a step that keeps the group table -/
structure LStep (s s' : RState) : Prop where
  mono : LMono s s'
  shared : s'.shared = s.shared

theorem LStep.refl (s : RState) : LStep s s := ⟨LMono.refl s, rfl⟩
theorem LStep.trans {a b c : RState} (h1 : LStep a b) (h2 : LStep b c) : LStep a c :=
  ⟨h1.mono.trans h2.mono, h2.shared.trans h1.shared⟩

theorem GL.step {s s' : RState} (h : GL s) (m : LStep s s') : GL s' := by
  refine ⟨by rw [m.shared]; exact h.nodup, by rw [m.shared]; exact h.wf, by rw [m.shared]; exact h.key, fun p hp => ?_⟩
  rw [m.shared] at hp
  exact (h.lv p hp).mono m.mono

/-- only the group table changed, entry by entry -/
theorem GL.of_mono {s s' : RState} (h : GL s) (m : LMono s s')
    (hn : (s'.shared.map (·.1)).Nodup) (hwf : ∀ p ∈ s'.shared, p.2.idx < p.2.clients.length)
    (hk : ∀ p ∈ s'.shared, (p.1.toList.idxOf? '/').isSome = true)
    (he : ∀ p ∈ s'.shared, p ∈ s.shared ∨ LVe s' p.1 p.2) : GL s' :=
  ⟨hn, hwf, hk, fun p hp => by
    rcases he p hp with h0 | h0
    · exact (h.lv p h0).mono m
    · exact h0⟩

/-! ### frames -/

theorem LStep.of_conns {s s' : RState} (hc : s'.conns = s.conns) (hnat : s'.datalog.native = s.datalog.native)
    (hfi : s'.datalog.filterIndexes = s.datalog.filterIndexes) (hsh : s'.shared = s.shared)
    (htm : s'.turnMoved = s.turnMoved) : LStep s s' := by
  refine ⟨⟨fun id c' h => .inl ⟨c', by unfold getConn at h ⊢; rw [← hc]; exact h, rfl⟩, fun i id r h => ?_,
    fun i h => by rw [htm]; exact h, fun f i h => .inl (by unfold DataLog.filterIdx? at h ⊢; rw [← hfi]; exact h),
    fun i fd h => ⟨fd, by rw [hnat]; exact h, .inl rfl⟩⟩, hsh⟩
  unfold ParkedAt at h ⊢; rw [hnat] at h; exact h

/-- a live connection replaced by one with the same client id -/
theorem LStep.of_setc {s s' : RState} {id : Nat} {c c' : Conn} (hc : getConn s id = some c)
    (hconns : s'.conns = s.conns.set id c') (hcid : c'.clientId = c.clientId)
    (hnat : s'.datalog.native = s.datalog.native)
    (hfi : s'.datalog.filterIndexes = s.datalog.filterIndexes) (hsh : s'.shared = s.shared)
    (htm : s'.turnMoved = s.turnMoved) : LStep s s' := by
  have hget : ∀ j, getConn s' j = if j = id then some c' else getConn s j := fun j => by
    unfold getConn; rw [hconns]; exact Slab.get?_set_live hc j c'
  refine ⟨⟨fun j d hd => ?_, fun i j r h => ?_,
    fun i h => by rw [htm]; exact h, fun f i h => .inl (by unfold DataLog.filterIdx? at h ⊢; rw [← hfi]; exact h),
    fun i fd h => ⟨fd, by rw [hnat]; exact h, .inl rfl⟩⟩, hsh⟩
  · rw [hget] at hd
    by_cases hj : j = id
    · subst hj; simp only [if_true, Option.some.injEq] at hd; subst hd; exact .inl ⟨c, hc, hcid.symm⟩
    · simp only [hj, if_false] at hd; exact .inl ⟨d, hd, rfl⟩
  · unfold ParkedAt at h ⊢; rw [hnat] at h; exact h

theorem LStep.of_set {s s' : RState} {id : Nat} {c c' : Conn} (hc : getConn s id = some c)
    (hconns : s'.conns = s.conns.set id c') (_hr : c'.tracker.requests = c.tracker.requests) (hcid : c'.clientId = c.clientId)
    (hnat : s'.datalog.native = s.datalog.native)
    (hfi : s'.datalog.filterIndexes = s.datalog.filterIndexes) (hsh : s'.shared = s.shared)
    (htm : s'.turnMoved = s.turnMoved) : LStep s s' := LStep.of_setc hc hconns hcid hnat hfi hsh htm

end Router
