/-
The liveness invariant `GL` for shared groups: primitive and composite operations that keep the group
table (`LStep`).
-/
import Proofs.Lemmas.Router.Rp9_Live
namespace Router

theorem reschedule_lstep {s s' : RState} {id : Nat} {r : SchedReason} (h : reschedule s id r = .ok s') : LStep s s' := by
  unfold reschedule at h
  split at h
  · simp at h
  · rename_i c hc
    split at h
    · simp at h
    · rename_i t woke ht
      simp only [Except.ok.injEq] at h; subst h
      have e := tryReady_some ht
      split
      · exact LStep.of_set (c' := { c with tracker := t }) hc rfl e rfl rfl rfl rfl rfl
      · exact LStep.of_set (c' := { c with tracker := t }) hc rfl e rfl rfl rfl rfl rfl

theorem commitAck_lstep {s s' : RState} {id : Nat} {a : Ack} (h : commitAck s id a = .ok s') : LStep s s' := by
  unfold commitAck at h
  split at h
  · simp at h
  · rename_i c hc
    simp only [Except.ok.injEq] at h; subst h
    exact LStep.of_set (c' := { c with acks := _ }) hc rfl rfl rfl rfl rfl rfl rfl

theorem pause_lstep {s s' : RState} {id : Nat} {r : PauseReason} (h : pause s id r = .ok s') : LStep s s' := by
  unfold pause at h
  split at h
  · simp at h
  · split at h
    · simp at h
    · rename_i c hc
      simp only [Except.ok.injEq] at h; subst h
      have hc' : getConn s id = some c := hc
      exact LStep.of_set (c' := { c with tracker := { c.tracker with status := .paused r } }) hc' rfl rfl rfl rfl rfl rfl rfl

theorem ackDeviceData_lstep (s : RState) (id : Nat) : LStep s (ackDeviceData s id) := by
  unfold ackDeviceData
  split
  · exact LStep.refl s
  · rename_i c hc
    split
    · exact LStep.refl s
    · exact LStep.of_set (c' := { c with acks := _ }) hc rfl rfl rfl rfl rfl rfl rfl

theorem updateRetained_lstep (s : RState) (topic : String) (p : Pub) : LStep s (updateRetained s topic p) := by
  unfold updateRetained
  split
  · exact LStep.of_conns rfl rfl rfl rfl rfl
  · split
    · exact LStep.of_conns rfl rfl rfl rfl rfl
    · exact LStep.refl _

theorem dlMatches_lstep {s s' : RState} {topic : String} {v : List Nat} (h : dlMatches s topic = .ok (s', v)) : LStep s s' := by
  unfold dlMatches at h
  split at h
  · simp only [Except.ok.injEq, Prod.mk.injEq] at h; obtain ⟨rfl, _⟩ := h; exact LStep.refl _
  · split at h
    · simp only [] at h
      split at h
      · simp only [Except.ok.injEq, Prod.mk.injEq] at h; obtain ⟨rfl, _⟩ := h
        split <;> exact LStep.of_conns rfl rfl rfl rfl rfl
      · simp at h
    · simp at h

theorem readRetained_lstep {s s' : RState} {f : String} {ps : List Pub} (h : readRetained s f = .ok (s', ps)) : LStep s s' := by
  unfold readRetained at h
  simp only [] at h
  split at h
  · split at h
    · simp only [Except.ok.injEq, Prod.mk.injEq] at h; obtain ⟨rfl, _⟩ := h; exact LStep.of_conns rfl rfl rfl rfl rfl
    · simp at h
  · simp at h

theorem updateNextClient_lstep {s s' : RState} {g g' : SharedGroup} (h : updateNextClient s g = .ok (s', g')) : LStep s s' := by
  unfold updateNextClient at h
  split at h
  · simp only [Except.ok.injEq, Prod.mk.injEq] at h; obtain ⟨rfl, _⟩ := h; exact LStep.refl _
  · split at h
    · simp at h
    · simp only [Except.ok.injEq, Prod.mk.injEq] at h; obtain ⟨rfl, _⟩ := h; exact LStep.refl _
  · split at h
    · simp at h
    · split at h
      · split at h
        · simp only [Except.ok.injEq, Prod.mk.injEq] at h; obtain ⟨rfl, _⟩ := h; exact LStep.of_conns rfl rfl rfl rfl rfl
        · simp at h
      · simp at h


theorem noteTurn_lstep (s0 s1 : RState) (req : DataRequest) : LStep s1 (noteTurn s0 s1 req) := by
  unfold noteTurn
  split
  · split
    · refine ⟨⟨fun _ c' h => .inl ⟨c', h, rfl⟩, fun _ _ _ h => h, fun i h => List.mem_append_left _ h, fun _ _ h => .inl h,
        fun _ fd h => ⟨fd, h, .inl rfl⟩⟩, rfl⟩
    · exact LStep.refl _
  · exact LStep.refl _

/-- a connection's tracker gains requests -/
theorem track_lstep {s s' : RState} {id : Nat} {r0 : DataRequest} (h : track s id r0 = .ok s') : LStep s s' := by
  unfold track at h
  split at h
  · simp at h
  · rename_i c hc
    simp only [Except.ok.injEq] at h; subst h
    exact LStep.of_setc (c' := { c with tracker := _ }) hc rfl rfl rfl rfl rfl rfl

theorem trackv_lstep {s s' : RState} {id : Nat} {rs : List DataRequest} (h : trackv s id rs = .ok s') : LStep s s' := by
  unfold trackv at h
  split at h
  · simp at h
  · rename_i c hc
    simp only [Except.ok.injEq] at h; subst h
    exact LStep.of_setc (c' := { c with tracker := _ }) hc rfl rfl rfl rfl rfl rfl

/-- one filter log's entry replaced by one with the same log and fewer waiters, or with no waiters -/
theorem LStep.of_native_set {s s' : RState} {i : Nat} {fd fd' : FilterData} (hfd : s.datalog.native[i]? = some fd)
    (hc : s'.conns = s.conns) (hnat : s'.datalog.native = s.datalog.native.set i fd')
    (hw : fd'.waiters = [] ∨ (fd'.log = fd.log ∧ ∀ w ∈ fd'.waiters, w ∈ fd.waiters))
    (hfi : s'.datalog.filterIndexes = s.datalog.filterIndexes) (hsh : s'.shared = s.shared)
    (htm : s'.turnMoved = s.turnMoved) : LStep s s' := by
  have hlt : i < s.datalog.native.length := by
    rcases Nat.lt_or_ge i s.datalog.native.length with h | h
    · exact h
    · rw [List.getElem?_eq_none h] at hfd; cases hfd
  refine ⟨⟨fun id c' h => .inl ⟨c', by unfold getConn at h ⊢; rw [← hc]; exact h, rfl⟩, fun k id r h => ?_,
    fun k h => by rw [htm]; exact h, fun f k h => .inl (by unfold DataLog.filterIdx? at h ⊢; rw [← hfi]; exact h),
    fun k fdk h => ?_⟩, hsh⟩
  · rw [parkedAt_set hfd hnat] at h
    by_cases e : k = i
    · subst e
      simp only [if_true] at h
      rcases hw with hw | ⟨_, hw⟩
      · rw [hw] at h; cases h
      · exact ⟨fd, hfd, hw _ h⟩
    · simp only [e, if_false] at h; exact h
  · rw [hnat, List.getElem?_set]
    by_cases e : i = k
    · subst e
      rw [hfd] at h; cases h
      simp only [hlt, if_true]
      refine ⟨fd', rfl, ?_⟩
      rcases hw with hw | ⟨hl, _⟩
      · exact .inr hw
      · exact .inl hl
    · simp only [e, if_false]; exact ⟨fdk, h, .inl rfl⟩

theorem appendToFilter_lstep {s s' : RState} {idx : Nat} {p : Pub} (h : appendToFilter s idx p = .ok s') : LStep s s' := by
  unfold appendToFilter at h
  split at h
  · simp at h
  · rename_i fd hfd
    simp only [Except.ok.injEq] at h
    refine LStep.of_native_set (fd' := { fd with log := (fd.log.append p (pubSize p)).1, waiters := [] }) hfd
      (by rw [← h]; split <;> rfl) (by rw [← h]; split <;> rfl) (.inl rfl) (by rw [← h]; split <;> rfl)
      (by rw [← h]; split <;> rfl) (by rw [← h]; split <;> rfl)

theorem appendToFilters_lstep : ∀ (idxs : List Nat) {s s' : RState} {p : Pub},
    appendToFilters s idxs p = .ok s' → LStep s s'
  | [], s, s', p, h => by simp only [appendToFilters, Except.ok.injEq] at h; subst h; exact LStep.refl _
  | i :: is, s, s', p, h => by
    simp only [appendToFilters] at h
    split at h
    · simp at h
    · rename_i s1 h1
      exact (appendToFilter_lstep h1).trans (appendToFilters_lstep is h)

theorem drainNotifications_lstep : ∀ (ns : List (Nat × DataRequest)) {s s' : RState},
    drainNotifications s ns = .ok s' → LStep s s'
  | [], s, s', h => by simp only [drainNotifications, Except.ok.injEq] at h; subst h; exact LStep.refl _
  | (id, r0) :: rest, s, s', h => by
    simp only [drainNotifications] at h
    split at h
    · simp at h
    · rename_i s1 h1
      split at h
      · simp at h
      · rename_i s2 h2
        exact ((track_lstep h1).trans (reschedule_lstep h2)).trans (drainNotifications_lstep rest h)

theorem drain_all_lstep {s s' : RState} (h : drainNotifications { s with notifications := [] } s.notifications = .ok s') :
    LStep s s' :=
  (LStep.of_conns (s := s) (s' := { s with notifications := [] }) rfl rfl rfl rfl rfl).trans (drainNotifications_lstep _ h)

/-- `wake_parked`: the group table is kept; afterwards nothing is parked on the woken logs -/
theorem wakeParkedSorted_lstep : ∀ (logs : List Nat) {s s' : RState}, wakeParkedSorted s logs = .ok s' →
    LStep s s' ∧ ∀ i ∈ logs, ∀ id r, ¬ ParkedAt s' i id r
  | [], s, s', h => by
    simp only [wakeParkedSorted, Except.ok.injEq] at h; subst h
    exact ⟨LStep.refl _, fun i hi => by cases hi⟩
  | i :: rest, s, s', h => by
    rw [wakeParkedSorted_cons] at h
    split at h
    · rename_i hnone
      obtain ⟨m, hw⟩ := wakeParkedSorted_lstep rest h
      refine ⟨m, fun k hk id r hp => ?_⟩
      rcases List.mem_cons.mp hk with e | hk
      · subst e
        obtain ⟨fd, hfd, _⟩ := m.mono.parked k id r hp
        rw [hnone] at hfd; cases hfd
      · exact hw k hk id r hp
    · rename_i fd hfd
      split at h
      · simp at h
      · rename_i s2 h2
        have a : LStep s (clearWaiters s i fd) :=
          LStep.of_native_set (fd' := { fd with waiters := [] }) hfd rfl rfl (.inl rfl) rfl rfl rfl
        have b := a.trans (drainNotifications_lstep _ h2)
        obtain ⟨m, hw⟩ := wakeParkedSorted_lstep rest h
        refine ⟨b.trans m, fun k hk id r hp => ?_⟩
        rcases List.mem_cons.mp hk with e | hk
        · subst e
          have hp2 := m.mono.parked k id r hp
          have hp1 := (drainNotifications_lstep _ h2).mono.parked k id r hp2
          rw [parkedAt_set (s' := clearWaiters s k fd) (fd' := { fd with waiters := [] }) hfd rfl] at hp1
          simp at hp1
        · exact hw k hk id r hp

theorem wakeParked_lstep {s s' : RState} {logs : List Nat} (h : wakeParked s logs = .ok s') :
    LStep s s' ∧ ∀ i ∈ logs, ∀ id r, ¬ ParkedAt s' i id r := by
  obtain ⟨m, hw⟩ := wakeParkedSorted_lstep _ h
  exact ⟨m, fun i hi => hw i (by simpa only [List.mem_eraseDups, List.mem_mergeSort] using hi)⟩

theorem appendToCommitlog_lstep {s s' : RState} {id : Nat} {p : Pub} {e : Option AppendErr}
    (h : appendToCommitlog s id p = .ok (s', e)) : LStep s s' := by
  unfold appendToCommitlog at h
  split at h
  · simp at h
  · rename_i c hc
    simp only [] at h
    split at h
    · simp only [Except.ok.injEq, Prod.mk.injEq] at h; obtain ⟨rfl, _⟩ := h; exact LStep.refl _
    · split at h
      · simp only [Except.ok.injEq, Prod.mk.injEq] at h; obtain ⟨rfl, _⟩ := h; exact LStep.refl _
      · rename_i s1 p1 hr
        have h1 : LStep s s1 := by
          split at hr
          · simp only [Except.ok.injEq, Prod.mk.injEq] at hr; obtain ⟨rfl, _⟩ := hr; exact LStep.refl _
          · split at hr
            · simp at hr
            · split at hr
              · split at hr
                · simp at hr
                · simp only [Except.ok.injEq, Prod.mk.injEq] at hr; obtain ⟨rfl, _⟩ := hr; exact LStep.refl _
              · split at hr
                · simp at hr
                · simp only [Except.ok.injEq, Prod.mk.injEq] at hr; obtain ⟨rfl, _⟩ := hr
                  exact LStep.of_set (c' := { c with topicAliases := _ }) hc rfl rfl rfl rfl rfl rfl rfl
        refine h1.trans ?_
        split at h
        · simp only [Except.ok.injEq, Prod.mk.injEq] at h; obtain ⟨rfl, _⟩ := h; exact LStep.refl _
        · rename_i topic ht
          split at h
          · simp at h
          · rename_i s2 idxs h2
            split at h
            · simp at h
            · rename_i s3 h3
              simp only [Except.ok.injEq, Prod.mk.injEq] at h; obtain ⟨rfl, _⟩ := h
              have a : LStep s1 ((updateRetained s1 topic p1).g (Ghost.accepted (some id) p1 topic)) :=
                (updateRetained_lstep s1 topic p1).trans (LStep.of_conns rfl rfl rfl rfl rfl)
              exact (a.trans (dlMatches_lstep h2)).trans (appendToFilters_lstep idxs h3)

theorem hpPre_lstep {s s' : RState} {id : Nat} {p : Pub} {fl fl' : Flags} {b : Bool}
    (h : hpPre s id p fl = .ok (s', fl', b)) : LStep s s' := by
  unfold hpPre at h
  split at h
  · split at h
    · simp at h
    · rename_i s1 h1
      simp only [Except.ok.injEq, Prod.mk.injEq] at h; obtain ⟨rfl, _⟩ := h
      exact commitAck_lstep h1
  · split at h
    · split at h
      · simp at h
      · rename_i c hc
        simp only [Except.ok.injEq, Prod.mk.injEq] at h; obtain ⟨rfl, _⟩ := h
        exact LStep.of_set (c' := { c with acks := _ }) hc rfl rfl rfl rfl rfl rfl rfl
    · simp only [Except.ok.injEq, Prod.mk.injEq] at h; obtain ⟨rfl, _⟩ := h; exact LStep.refl _

theorem fdRetained_lstep {s s' : RState} {req : DataRequest} {slots slots' : Nat} {ps : List (Pub × Option Cursor)}
    (h : fdRetained s req slots = .ok (s', ps, slots')) : LStep s s' := by
  unfold fdRetained at h
  split at h
  · split at h
    · simp at h
    · rename_i s1 ps1 h1
      simp only [Except.ok.injEq, Prod.mk.injEq] at h; obtain ⟨rfl, _⟩ := h
      exact readRetained_lstep h1
  · simp only [Except.ok.injEq, Prod.mk.injEq] at h; obtain ⟨rfl, _⟩ := h; exact LStep.refl _


end Router
