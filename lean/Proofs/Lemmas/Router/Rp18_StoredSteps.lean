/-
C20 — the commit-log-contents invariant (round 12): the primitive operations and `append_to_commitlog`
along `Grow` (the pass of Rp17_Steps for the relation of Rp18_StoredDefs).
-/
import Proofs.Lemmas.Router.Rp18_StoredLog
namespace Router
open Encode Codec

theorem mem_ninsert {β : Type} {k : Nat} {v : β} {l : List (Nat × β)} {p : Nat × β}
    (h : p ∈ ninsert k v l) : p ∈ l ∨ p = (k, v) := by
  unfold ninsert at h
  split at h
  · obtain ⟨q, hq, e⟩ := List.mem_map.mp h
    split at e
    · exact .inr e.symm
    · exact .inl (e ▸ hq)
  · rcases List.mem_append.mp h with h | h
    · exact .inl h
    · exact .inr (by simpa using h)

theorem mem_of_nlookup {β : Type} {k : Nat} {v : β} : ∀ {l : List (Nat × β)}, nlookup k l = some v → (k, v) ∈ l
  | [], h => by simp [nlookup] at h
  | (k', v') :: r, h => by
    simp only [nlookup] at h
    split at h
    · rename_i e; simp only [Option.some.injEq] at h; subst e h; simp
    · exact List.mem_cons_of_mem _ (mem_of_nlookup h)

/-! ### more constructors -/

/-- the log of one filter entry gets one more item (in range); waiter lists may change -/
theorem Grow.of_native_append {n : Option Nat} {s s' : RState} {i : Nat} {fd fd' : FilterData} {x : Pub}
    (hc : s'.conns = s.conns) (hnat : s'.datalog.native = s.datalog.native.set i fd')
    (hfd : s.datalog.native[i]? = some fd)
    (hlog : ∀ p ∈ logItems fd'.log, p = x ∨ p ∈ logItems fd.log) (hx : StoredP n x)
    (hr : s'.datalog.retained = s.datalog.retained) (hw : s'.lastWills = s.lastWills) : Grow n s s' := by
  have hg : ∀ j, getConn s' j = getConn s j := fun j => by unfold getConn; rw [hc]
  refine ⟨fun p h => ?_, fun p h => .inr ?_, fun p h => .inr ?_, fun t h => .inr ?_, fun w h => .inr ?_⟩
  · obtain ⟨l, hl, hp⟩ := h
    rw [hnat] at hl
    obtain ⟨fd1, hfd1, rfl⟩ := List.mem_map.mp hl
    rcases List.mem_or_eq_of_mem_set hfd1 with h1 | rfl
    · exact .inr ⟨fd1.log, List.mem_map.mpr ⟨fd1, h1, rfl⟩, hp⟩
    · rcases hlog p hp with rfl | h2
      · exact .inl hx
      · exact .inr ⟨fd.log, List.mem_map.mpr ⟨fd, List.mem_of_getElem? hfd, rfl⟩, h2⟩
  · unfold InRetained at h ⊢; rw [← hr]; exact h
  · obtain ⟨id, c, h1, h2⟩ := h; exact ⟨id, c, by rw [← hg]; exact h1, h2⟩
  · obtain ⟨id, c, a, h1, h2⟩ := h; exact ⟨id, c, a, by rw [← hg]; exact h1, h2⟩
  · unfold InWills at h ⊢; rw [← hw]; exact h

/-- the retained map shrinks, or gets an entry in range -/
theorem Grow.of_retained {n : Option Nat} {s s' : RState} (hc : s'.conns = s.conns)
    (hl : s'.datalog.native.map (·.log) = s.datalog.native.map (·.log))
    (hr : ∀ q ∈ s'.datalog.retained, StoredP n q.2 ∨ q ∈ s.datalog.retained)
    (hw : s'.lastWills = s.lastWills) : Grow n s s' := by
  have hg : ∀ j, getConn s' j = getConn s j := fun j => by unfold getConn; rw [hc]
  refine ⟨fun p h => .inr ?_, fun p h => ?_, fun p h => .inr ?_, fun t h => .inr ?_, fun w h => .inr ?_⟩
  · unfold InLogs at h ⊢; rw [← hl]; exact h
  · obtain ⟨t, ht⟩ := h
    exact (hr (t, p) ht).elim .inl fun h1 => .inr ⟨t, h1⟩
  · obtain ⟨id, c, h1, h2⟩ := h; exact ⟨id, c, by rw [← hg]; exact h1, h2⟩
  · obtain ⟨id, c, a, h1, h2⟩ := h; exact ⟨id, c, a, by rw [← hg]; exact h1, h2⟩
  · unfold InWills at h ⊢; rw [← hw]; exact h

/-- the wills shrink, or get an entry in range -/
theorem Grow.of_wills {n : Option Nat} {s s' : RState} (hc : s'.conns = s.conns)
    (hl : s'.datalog.native.map (·.log) = s.datalog.native.map (·.log))
    (hr : s'.datalog.retained = s.datalog.retained)
    (hw : ∀ q ∈ s'.lastWills, WillP n q.2 ∨ q ∈ s.lastWills) : Grow n s s' := by
  have hg : ∀ j, getConn s' j = getConn s j := fun j => by unfold getConn; rw [hc]
  refine ⟨fun p h => .inr ?_, fun p h => .inr ?_, fun p h => .inr ?_, fun t h => .inr ?_, fun w h => ?_⟩
  · unfold InLogs at h ⊢; rw [← hl]; exact h
  · unfold InRetained at h ⊢; rw [← hr]; exact h
  · obtain ⟨id, c, h1, h2⟩ := h; exact ⟨id, c, by rw [← hg]; exact h1, h2⟩
  · obtain ⟨id, c, a, h1, h2⟩ := h; exact ⟨id, c, a, by rw [← hg]; exact h1, h2⟩
  · obtain ⟨cid, hc⟩ := h
    exact (hw (cid, w) hc).elim .inl fun h1 => .inr ⟨cid, h1⟩

/-- connections are removed, or replaced / added with nothing recorded and no aliases -/
theorem Grow.of_getConn {n : Option Nat} {s s' : RState}
    (hc : ∀ j d, getConn s' j = some d → getConn s j = some d ∨ (d.acks.recorded = [] ∧ d.topicAliases = []))
    (hl : s'.datalog.native.map (·.log) = s.datalog.native.map (·.log))
    (hr : s'.datalog.retained = s.datalog.retained) (hw : s'.lastWills = s.lastWills) : Grow n s s' := by
  refine ⟨fun p h => .inr ?_, fun p h => .inr ?_, fun p h => .inr ?_, fun t h => .inr ?_, fun w h => .inr ?_⟩
  · unfold InLogs at h ⊢; rw [← hl]; exact h
  · unfold InRetained at h ⊢; rw [← hr]; exact h
  · obtain ⟨id, c, h1, h2⟩ := h
    rcases hc id c h1 with h3 | ⟨h3, _⟩
    · exact ⟨id, c, h3, h2⟩
    · rw [h3] at h2; cases h2
  · obtain ⟨id, c, a, h1, h2⟩ := h
    rcases hc id c h1 with h3 | ⟨_, h3⟩
    · exact ⟨id, c, a, h3, h2⟩
    · rw [h3] at h2; cases h2
  · unfold InWills at h ⊢; rw [← hw]; exact h

/-! ### primitives -/

theorem reschedule_grow {n : Option Nat} {s s' : RState} {id : Nat} {r : SchedReason} (h : reschedule s id r = .ok s') :
    Grow n s s' := by
  unfold reschedule at h
  split at h
  · simp at h
  · rename_i c hc
    split at h
    · simp at h
    · rename_i t woke ht
      simp only [Except.ok.injEq] at h; subst h
      split
      · exact Grow.of_set (c' := { c with tracker := t }) hc rfl rfl rfl rfl rfl rfl
      · exact Grow.of_set (c' := { c with tracker := t }) hc rfl rfl rfl rfl rfl rfl

theorem commitAck_grow {n : Option Nat} {s s' : RState} {id : Nat} {a : Ack} (h : commitAck s id a = .ok s') : Grow n s s' := by
  unfold commitAck at h
  split at h
  · simp at h
  · rename_i c hc
    simp only [Except.ok.injEq] at h; subst h
    exact Grow.of_set (c' := { c with acks := _ }) hc rfl rfl rfl rfl rfl rfl

theorem pause_grow {n : Option Nat} {s s' : RState} {id : Nat} {r : PauseReason} (h : pause s id r = .ok s') : Grow n s s' := by
  unfold pause at h
  split at h
  · simp at h
  · split at h
    · simp at h
    · rename_i c hc
      simp only [Except.ok.injEq] at h; subst h
      have hc' : getConn s id = some c := hc
      exact Grow.of_set (c' := { c with tracker := { c.tracker with status := .paused r } }) hc' rfl rfl rfl rfl rfl rfl

theorem ackDeviceData_grow {n : Option Nat} (s : RState) (id : Nat) : Grow n s (ackDeviceData s id) := by
  unfold ackDeviceData
  split
  · exact Grow.refl n s
  · rename_i c hc
    split
    · exact Grow.refl n s
    · exact Grow.of_set (c' := { c with acks := _ }) hc rfl rfl rfl rfl rfl rfl

theorem updateRetained_grow {n : Option Nat} (s : RState) (topic : String) {p : Pub} (hp : StoredP n p) :
    Grow n s (updateRetained s topic p) := by
  unfold updateRetained
  split
  · exact Grow.of_retained rfl rfl (fun q hq => .inr (mem_aremove hq)) rfl
  · split
    · refine Grow.of_retained rfl rfl (fun q hq => ?_) rfl
      rcases mem_ainsert hq with h | rfl
      · exact .inr h
      · exact .inl hp
    · exact Grow.refl _ _

theorem dlMatches_grow {n : Option Nat} {s s' : RState} {topic : String} {v : List Nat} (h : dlMatches s topic = .ok (s', v)) :
    Grow n s s' := by
  unfold dlMatches at h
  split at h
  · simp only [Except.ok.injEq, Prod.mk.injEq] at h; obtain ⟨rfl, _⟩ := h; exact Grow.refl _ _
  · split at h
    · simp only [] at h
      split at h
      · simp only [Except.ok.injEq, Prod.mk.injEq] at h; obtain ⟨rfl, _⟩ := h
        split <;> exact Grow.of_fields rfl rfl rfl rfl
      · simp at h
    · simp at h

theorem readRetained_grow {n : Option Nat} {s s' : RState} {f : String} {ps : List Pub} (h : readRetained s f = .ok (s', ps)) :
    Grow n s s' := by
  unfold readRetained at h
  simp only [] at h
  split at h
  · split at h
    · simp only [Except.ok.injEq, Prod.mk.injEq] at h; obtain ⟨rfl, _⟩ := h; exact Grow.of_fields rfl rfl rfl rfl
    · simp at h
  · simp at h

theorem updateNextClient_grow {n : Option Nat} {s s' : RState} {g g' : SharedGroup} (h : updateNextClient s g = .ok (s', g')) :
    Grow n s s' := by
  unfold updateNextClient at h
  split at h
  · simp only [Except.ok.injEq, Prod.mk.injEq] at h; obtain ⟨rfl, _⟩ := h; exact Grow.refl _ _
  · split at h
    · simp at h
    · simp only [Except.ok.injEq, Prod.mk.injEq] at h; obtain ⟨rfl, _⟩ := h; exact Grow.refl _ _
  · split at h
    · simp at h
    · split at h
      · split at h
        · simp only [Except.ok.injEq, Prod.mk.injEq] at h; obtain ⟨rfl, _⟩ := h; exact Grow.of_fields rfl rfl rfl rfl
        · simp at h
      · simp at h

theorem noteTurn_grow {n : Option Nat} (s0 s1 : RState) (req : DataRequest) : Grow n s1 (noteTurn s0 s1 req) := by
  obtain ⟨tm, e⟩ := noteTurn_eq s0 s1 req
  rw [e]; exact Grow.of_fields rfl rfl rfl rfl

theorem track_grow {n : Option Nat} {s s' : RState} {id : Nat} {r0 : DataRequest} (h : track s id r0 = .ok s') : Grow n s s' := by
  unfold track at h
  split at h
  · simp at h
  · rename_i c hc
    simp only [Except.ok.injEq] at h; subst h
    exact Grow.of_set (c' := { c with tracker := _ }) hc rfl rfl rfl rfl rfl rfl

theorem trackv_grow {n : Option Nat} {s s' : RState} {id : Nat} {rs : List DataRequest} (h : trackv s id rs = .ok s') : Grow n s s' := by
  unfold trackv at h
  split at h
  · simp at h
  · rename_i c hc
    simp only [Except.ok.injEq] at h; subst h
    exact Grow.of_set (c' := { c with tracker := _ }) hc rfl rfl rfl rfl rfl rfl

theorem park_grow {n : Option Nat} {s s' : RState} {id : Nat} {r : DataRequest} (h : park s id r = .ok s') : Grow n s s' := by
  unfold park at h
  split at h
  · simp at h
  · rename_i fd hfd
    simp only [Except.ok.injEq] at h; subst h
    exact Grow.of_native_set (fd' := { fd with waiters := fd.waiters ++ [(id, r)] }) hfd rfl rfl rfl rfl rfl

theorem nextNativeOffset_grow {n : Option Nat} (s : RState) (filter : String) : Grow n s (nextNativeOffset s filter).1 := by
  unfold nextNativeOffset
  split
  · exact Grow.refl _ s
  · refine ⟨fun p h => .inr ?_, fun p h => .inr h, fun p h => .inr h, fun t h => .inr h, fun w h => .inr h⟩
    obtain ⟨l, hl, hp⟩ := h
    simp only [List.map_append, List.map_cons, List.map_nil, List.mem_append, List.mem_singleton] at hl
    rcases hl with hl | rfl
    · exact ⟨l, hl, hp⟩
    · rw [logItems_new] at hp; cases hp

theorem appendToFilter_grow {n : Option Nat} {s s' : RState} {idx : Nat} {p : Pub} (hp : StoredP n p)
    (h : appendToFilter s idx p = .ok s') : Grow n s s' := by
  unfold appendToFilter at h
  split at h
  · simp at h
  · rename_i fd hfd
    simp only [Except.ok.injEq] at h
    refine Grow.of_native_append (fd' := { fd with log := (fd.log.append p (pubSize p)).1, waiters := [] }) (x := p)
      (by rw [← h]; split <;> rfl) (by rw [← h]; split <;> rfl) hfd (fun q hq => logItems_append hq) hp
      (by rw [← h]; split <;> rfl) (by rw [← h]; split <;> rfl)

theorem appendToFilters_grow {n : Option Nat} : ∀ (idxs : List Nat) {s s' : RState} {p : Pub}, StoredP n p →
    appendToFilters s idxs p = .ok s' → Grow n s s'
  | [], s, s', p, _, h => by simp only [appendToFilters, Except.ok.injEq] at h; subst h; exact Grow.refl _ _
  | i :: is, s, s', p, hp, h => by
    simp only [appendToFilters] at h
    split at h
    · simp at h
    · rename_i s1 h1
      exact (appendToFilter_grow hp h1).trans (appendToFilters_grow is hp h)

theorem drainNotifications_grow {n : Option Nat} : ∀ (ns : List (Nat × DataRequest)) {s s' : RState},
    drainNotifications s ns = .ok s' → Grow n s s'
  | [], s, s', h => by simp only [drainNotifications, Except.ok.injEq] at h; subst h; exact Grow.refl _ _
  | (id, r0) :: rest, s, s', h => by
    simp only [drainNotifications] at h
    split at h
    · simp at h
    · rename_i s1 h1
      split at h
      · simp at h
      · rename_i s2 h2
        exact ((track_grow h1).trans (reschedule_grow h2)).trans (drainNotifications_grow rest h)

theorem drain_all_grow {n : Option Nat} {s s' : RState}
    (h : drainNotifications { s with notifications := [] } s.notifications = .ok s') : Grow n s s' :=
  (Grow.of_fields (s := s) (s' := { s with notifications := [] }) rfl rfl rfl rfl).trans (drainNotifications_grow _ h)

theorem clearWaiters_grow {n : Option Nat} {s : RState} {i : Nat} {fd : FilterData} (h : s.datalog.native[i]? = some fd) :
    Grow n s (clearWaiters s i fd) :=
  Grow.of_native_set (fd' := { fd with waiters := [] }) h rfl rfl rfl rfl rfl

theorem wakeParked_grow {n : Option Nat} {s s' : RState} {logs : List Nat} (h : wakeParked s logs = .ok s') : Grow n s s' :=
  wakeParked_rel (Grow n) (Grow.refl n) (fun _ _ _ => Grow.trans)
    (fun _ _ _ h => clearWaiters_grow h) (fun _ _ ns h => drainNotifications_grow ns h) h

theorem wakeTurnMoved_grow {n : Option Nat} {s s' : RState} (h : wakeTurnMoved s = .ok s') : Grow n s s' :=
  (Grow.of_fields (s := s) (s' := { s with turnMoved := [] }) rfl rfl rfl rfl).trans (wakeParked_grow h)

/-! ### `append_to_commitlog` -/

theorem InP.stored {n : Option Nat} {p : Pub} (h : InP n p) (ha : p.alias = none) (hs : p.subIds = []) : StoredP n p :=
  ⟨by simp [StoredCore, ha, hs, h.pkid, h.topic], h.qos, h.size⟩

/-- a publish in input range goes into the retained map and the filter logs as `StoredP` (alias stripped, no
    subscription identifiers, topic resolved through the alias table: the tables hold topics that came
    through a 16-bit length prefix); the alias table gets such a topic -/
theorem appendToCommitlog_grow {n : Option Nat} {s s' : RState} {id : Nat} {p : Pub} {e : Option AppendErr}
    (hal : ∀ t, InAliases s t → TopicP t) (hp : InP n p)
    (h : appendToCommitlog s id p = .ok (s', e)) : Grow n s s' := by
  unfold appendToCommitlog at h
  split at h
  · simp at h
  · rename_i c hc
    simp only [] at h
    split at h
    · simp only [Except.ok.injEq, Prod.mk.injEq] at h; obtain ⟨rfl, _⟩ := h; exact Grow.refl _ _
    · rename_i hsub
      have hsub' : p.subIds = [] := by
        have : ({ p with alias := none } : Pub).subIds.isEmpty = true := by simpa using hsub
        exact List.isEmpty_iff.mp this
      split at h
      · simp only [Except.ok.injEq, Prod.mk.injEq] at h; obtain ⟨rfl, _⟩ := h; exact Grow.refl _ _
      · rename_i s1 p1 hr
        have h1 : Grow n s s1 ∧ StoredP n p1 := by
          split at hr
          · simp only [Except.ok.injEq, Prod.mk.injEq] at hr; obtain ⟨rfl, rfl⟩ := hr
            exact ⟨Grow.refl _ _, InP.stored (p := { p with alias := none }) ⟨hp.pkid, hp.qos, hp.topic, hp.size⟩ rfl hsub'⟩
          · rename_i a _halias
            split at hr
            · simp at hr
            · split at hr
              · split at hr
                · simp at hr
                · rename_i t ht
                  simp only [Except.ok.injEq, Prod.mk.injEq] at hr; obtain ⟨rfl, rfl⟩ := hr
                  have htp : TopicP t := hal t ⟨id, c, a, hc, mem_of_nlookup ht⟩
                  exact ⟨Grow.refl _ _,
                    InP.stored (p := { p with alias := none, topic := t.toUTF8.toList }) ⟨hp.pkid, hp.qos, htp, hp.size⟩ rfl hsub'⟩
              · split at hr
                · simp at hr
                · rename_i t ht
                  simp only [Except.ok.injEq, Prod.mk.injEq] at hr; obtain ⟨rfl, rfl⟩ := hr
                  have htp : TopicP t := by
                    have ht' : utf8? p.topic = some t := ht
                    unfold TopicP; rw [utf8?_toUTF8 ht']; exact hp.topic
                  refine ⟨?_, InP.stored (p := { p with alias := none }) ⟨hp.pkid, hp.qos, hp.topic, hp.size⟩ rfl hsub'⟩
                  refine Grow.of_setg (c' := { c with topicAliases := ninsert a t c.topicAliases }) hc rfl
                    (fun q hq => .inr hq) (fun q hq => ?_) rfl rfl rfl
                  rcases mem_ninsert hq with h0 | rfl
                  · exact .inr h0
                  · exact .inl htp
        obtain ⟨g1, hp1⟩ := h1
        refine g1.trans ?_
        split at h
        · simp only [Except.ok.injEq, Prod.mk.injEq] at h; obtain ⟨rfl, _⟩ := h; exact Grow.refl _ _
        · rename_i topic ht
          split at h
          · simp at h
          · rename_i s2 idxs h2
            split at h
            · simp at h
            · rename_i s3 h3
              simp only [Except.ok.injEq, Prod.mk.injEq] at h; obtain ⟨rfl, _⟩ := h
              have a : Grow n s1 ((updateRetained s1 topic p1).g (Ghost.accepted (some id) p1 topic)) :=
                (updateRetained_grow s1 topic hp1).trans (Grow.of_fields rfl rfl rfl rfl)
              have hp2 : StoredP n { p1 with retain := false } := ⟨hp1.core, hp1.qos, hp1.size⟩
              exact (a.trans (dlMatches_grow h2)).trans (appendToFilters_grow idxs hp2 h3)

end Router
