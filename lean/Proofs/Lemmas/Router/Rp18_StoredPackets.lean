/-
C20 — the commit-log-contents invariant (round 12): packets, batches, disconnection, last wills, shadow
requests along `Grow` / `LogsOk`.
-/
import Proofs.Lemmas.Router.Rp18_StoredSteps
namespace Router
open Encode Codec

theorem hpPre_grow {n : Option Nat} {s s' : RState} {id : Nat} {p : Pub} {fl fl' : Flags} {b : Bool} (hp : InP n p)
    (h : hpPre s id p fl = .ok (s', fl', b)) : Grow n s s' := by
  unfold hpPre at h
  split at h
  · split at h
    · simp at h
    · rename_i s1 h1
      simp only [Except.ok.injEq, Prod.mk.injEq] at h; obtain ⟨rfl, _⟩ := h
      exact commitAck_grow h1
  · split at h
    · split at h
      · simp at h
      · rename_i c hc
        simp only [Except.ok.injEq, Prod.mk.injEq] at h; obtain ⟨rfl, _⟩ := h
        refine Grow.of_setg
          (c' := { c with acks := { committed := c.acks.committed ++ [Ack.pubrec p.pkid], recorded := c.acks.recorded ++ [p] } })
          hc rfl (fun q hq => ?_) (fun q hq => .inr hq) rfl rfl rfl
        rcases List.mem_append.mp hq with h0 | h0
        · exact .inr h0
        · simp only [List.mem_singleton] at h0; subst h0; exact .inl hp
    · simp only [Except.ok.injEq, Prod.mk.injEq] at h; obtain ⟨rfl, _⟩ := h; exact Grow.refl _ _

/-! ### SUBSCRIBE / UNSUBSCRIBE -/

theorem pfConn_fields (c : Conn) (path : String) (subId : Option Nat) :
    (pfConn c path subId).acks.recorded = c.acks.recorded ∧ (pfConn c path subId).topicAliases = c.topicAliases := by
  cases subId <;> exact ⟨rfl, rfl⟩

theorem prepareFilter_grow {n : Option Nat} {s s' : RState} {id : Nat} {cursor : Cursor} {idx : Nat} {f : SubFilter}
    {group : Option String} {subId : Option Nat}
    (h : prepareFilter s id cursor idx f group subId = .ok s') : Grow n s s' := by
  rw [prepareFilter_eq] at h
  split at h
  · simp at h
  · rename_i c hc
    simp only [] at h
    obtain ⟨e1, e2⟩ := pfConn_fields c f.path subId
    split at h
    · simp only [Except.ok.injEq] at h; subst h
      exact Grow.of_set (s := s) (c' := pfConn c f.path subId) hc rfl e1 e2 rfl rfl rfl
    · split at h
      · simp at h
      · rename_i s3 h3
        unfold pfTail at h
        split at h
        · simp at h
        · rename_i s4 h4
          have e : s' = s4 := by
            split at h
            · simp only [Except.ok.injEq] at h; exact h.symm
            · split at h
              · simp only [Except.ok.injEq] at h; exact h.symm
              · simp at h
          subst e
          have a : Grow n s (setConn ((pfState s id cursor f.path group c.clientId).g
              (.subscribed id f.path f.qos idx cursor group true)) id
              { pfConn c f.path subId with subscriptions := c.subscriptions ++ [f.path] }) :=
            Grow.of_set (s := s) (c' := { pfConn c f.path subId with subscriptions := c.subscriptions ++ [f.path] })
              hc rfl e1 e2 rfl rfl rfl
          exact (a.trans (track_grow h3)).trans (reschedule_grow h4)

theorem subscribeFilters_grow {n : Option Nat} {id : Nat} {subId : Option Nat} :
    ∀ (fs : List SubFilter) {s s' : RState} {codes codes' : List Nat} {fl fl' : Flags},
    subscribeFilters s id subId fs codes fl = .ok (s', codes', fl') → Grow n s s'
  | [], s, s', codes, codes', fl, fl', h => by
    simp only [subscribeFilters, Except.ok.injEq, Prod.mk.injEq] at h; obtain ⟨rfl, _, _⟩ := h
    exact Grow.refl _ _
  | f :: rest, s, s', codes, codes', fl, fl', h => by
    rw [subscribeFilters_cons] at h
    split at h
    · simp only [Except.ok.injEq, Prod.mk.injEq] at h; obtain ⟨rfl, _, _⟩ := h
      exact Grow.refl _ _
    · split at h
      · simp only [Except.ok.injEq, Prod.mk.injEq] at h; obtain ⟨rfl, _, _⟩ := h
        exact Grow.refl _ _
      · simp only [] at h
        split at h
        · simp at h
        · rename_i s1 h1
          exact ((nextNativeOffset_grow s _).trans (prepareFilter_grow h1)).trans (subscribeFilters_grow rest h)

theorem ufState_grow {n : Option Nat} {s : RState} {id : Nat} {ids : List Nat} {c : Conn} {f : String}
    (hc : getConn s id = some c) : Grow n s (ufState s id ids c f) :=
  Grow.of_set (c' := ufConn s.datalog c f) hc rfl rfl rfl
    (Rp3.removeWaiterFor_same s.datalog id f).2.1 (removeWaiterFor_retained s.datalog id f) rfl

theorem unsubscribeFilters_grow {n : Option Nat} {id : Nat} : ∀ (fs : List String) {s s' : RState} {rs rs' : List Bool},
    unsubscribeFilters s id fs rs = .ok (s', rs') → Grow n s s'
  | [], s, s', rs, rs', h => by
    simp only [unsubscribeFilters, Except.ok.injEq, Prod.mk.injEq] at h
    obtain ⟨rfl, _⟩ := h; exact Grow.refl _ _
  | f :: rest, s, s', rs, rs', h => by
    rw [unsubscribeFilters_cons] at h
    split at h
    · exact unsubscribeFilters_grow rest h
    · split at h
      · exact unsubscribeFilters_grow rest h
      · split at h
        · simp at h
        · rename_i c hc
          split at h
          · have a := unsubscribeFilters_grow (n := n) rest h
            refine Grow.trans ?_ a
            exact Grow.of_fields rfl rfl rfl rfl
          · have a := unsubscribeFilters_grow (n := n) rest h
            exact (ufState_grow hc).trans a

/-! ### one packet, a batch -/

/-- one packet in range keeps everything stored in range: a QoS 0 / 1 PUBLISH goes to the retained map and
    the logs through `append_to_commitlog`, a QoS 2 PUBLISH is recorded as it came (in input range), a PUBREL
    moves the oldest recorded publish to the logs -/
theorem handlePacket_grow {n : Option Nat} {s s' : RState} {id : Nat} {cid : String} {pkt : Packet} {fl fl' : Flags}
    (hi : LogsOk n s) (hok : PacketOkD n pkt = true)
    (h : handlePacket s id cid pkt fl = .ok (s', fl')) : Grow n s s' := by
  cases pkt with
  | publish p =>
    have hp : InP n p := PacketOkD_inP hok
    rw [handlePacket_publish] at h
    split at h
    · simp at h
    · rename_i s1 fl1 h1
      simp only [Except.ok.injEq, Prod.mk.injEq] at h; obtain ⟨rfl, _⟩ := h
      exact hpPre_grow hp h1
    · rename_i s1 fl1 h1
      have a := hpPre_grow hp h1
      have i1 := (hi.grow a).aliases
      split at h
      · simp at h
      all_goals
        rename_i h2
        simp only [Except.ok.injEq, Prod.mk.injEq] at h; obtain ⟨rfl, _⟩ := h
        exact a.trans (appendToCommitlog_grow i1 hp h2)
  | subscribe pkid subId filters =>
    simp only [handlePacket] at h
    split at h
    · simp at h
    · rename_i s1 codes fl1 h1
      split at h
      · simp at h
      · rename_i s2 h2
        simp only [Except.ok.injEq, Prod.mk.injEq] at h; obtain ⟨rfl, _⟩ := h
        exact (subscribeFilters_grow filters h1).trans (commitAck_grow h2)
  | unsubscribe pkid filters =>
    simp only [handlePacket] at h
    split at h
    · simp at h
    · split at h
      · simp at h
      · rename_i s1 rs h1
        split at h
        · simp at h
        · rename_i s2 h2
          simp only [Except.ok.injEq, Prod.mk.injEq] at h; obtain ⟨rfl, _⟩ := h
          exact (unsubscribeFilters_grow filters h1).trans (commitAck_grow h2)
  | puback pkid =>
    simp only [handlePacket] at h
    split at h
    · simp at h
    · rename_i c hc
      have a : Grow n s (setConn s id { c with out := (c.out.registerAck pkid).1 }) :=
        Grow.of_set (c' := { c with out := (c.out.registerAck pkid).1 }) hc rfl rfl rfl rfl rfl rfl
      split at h
      · simp only [Except.ok.injEq, Prod.mk.injEq] at h; obtain ⟨rfl, _⟩ := h; exact a
      · split at h
        · simp at h
        · rename_i s2 h2
          simp only [Except.ok.injEq, Prod.mk.injEq] at h; obtain ⟨rfl, _⟩ := h
          have a' : Grow n s ((setConn s id { c with out := (c.out.registerAck pkid).1 }).g (.clientAcked id pkid)) :=
            a.trans (Grow.of_fields rfl rfl rfl rfl)
          exact a'.trans (reschedule_grow h2)
  | pubrec pkid =>
    simp only [handlePacket] at h
    split at h
    · simp at h
    · rename_i c hc
      split at h
      · simp only [Except.ok.injEq, Prod.mk.injEq] at h; obtain ⟨rfl, _⟩ := h
        exact Grow.of_set (c' := { c with out := (c.out.registerAck pkid).1 }) hc rfl rfl rfl rfl rfl rfl
      · split at h
        · simp at h
        · rename_i s2 h2
          simp only [Except.ok.injEq, Prod.mk.injEq] at h; obtain ⟨rfl, _⟩ := h
          refine Grow.trans ?_ (reschedule_grow h2)
          exact Grow.of_set (c' := { c with out := _, acks := _ }) hc rfl rfl rfl rfl rfl rfl
  | pubrel pkid hp =>
    simp only [handlePacket] at h
    split at h
    · simp at h
    · rename_i c hc
      split at h
      · simp only [Except.ok.injEq, Prod.mk.injEq] at h; obtain ⟨rfl, _⟩ := h
        exact Grow.of_set (c' := { c with acks := _ }) hc rfl rfl rfl rfl rfl rfl
      · rename_i p rest hrec
        have hp : InP n p := hi.recorded p ⟨id, c, hc, by rw [hrec]; exact List.mem_cons_self⟩
        have a : Grow n s ((setConn s id { c with acks := { committed := c.acks.committed ++ [Ack.pubcomp pkid], recorded := rest } }).g
            (.committed id (.pubcomp pkid))) :=
          Grow.of_setg (c' := { c with acks := { committed := c.acks.committed ++ [Ack.pubcomp pkid], recorded := rest } }) hc rfl
            (fun q hq => .inr (by rw [hrec]; exact List.mem_cons_of_mem _ hq)) (fun q hq => .inr hq) rfl rfl rfl
        have i1 := (hi.grow a).aliases
        split at h
        · simp at h
        · rename_i h2
          simp only [Except.ok.injEq, Prod.mk.injEq] at h; obtain ⟨rfl, _⟩ := h
          exact a.trans (appendToCommitlog_grow i1 hp h2)
        · rename_i s2 h2
          split at h
          · simp at h
          · rename_i s3 h3
            simp only [Except.ok.injEq, Prod.mk.injEq] at h; obtain ⟨rfl, _⟩ := h
            exact (a.trans (appendToCommitlog_grow i1 hp h2)).trans (reschedule_grow h3)
  | pubcomp pkid =>
    simp only [handlePacket] at h
    split at h
    · simp at h
    · rename_i c hc
      have a : Grow n s (setConn s id { c with out := (c.out.registerPubcomp pkid).1 }) :=
        Grow.of_set (c' := { c with out := _ }) hc rfl rfl rfl rfl rfl rfl
      split at h
      all_goals
        simp only [Except.ok.injEq, Prod.mk.injEq] at h; obtain ⟨rfl, _⟩ := h; exact a
  | pingreq =>
    simp only [handlePacket] at h
    split at h
    · simp at h
    · rename_i s1 h1
      simp only [Except.ok.injEq, Prod.mk.injEq] at h; obtain ⟨rfl, _⟩ := h
      exact commitAck_grow h1
  | disconnect =>
    simp only [handlePacket, Except.ok.injEq, Prod.mk.injEq] at h; obtain ⟨rfl, _⟩ := h
    exact Grow.of_wills rfl rfl rfl (fun q hq => .inr (mem_aremove hq))
  | other =>
    simp only [handlePacket, Except.ok.injEq, Prod.mk.injEq] at h; obtain ⟨rfl, _⟩ := h
    exact Grow.refl _ _

theorem handlePackets_grow {n : Option Nat} {id : Nat} {cid : String} : ∀ (ps : List Packet) {s s' : RState} {fl fl' : Flags},
    (∀ p ∈ ps, PacketOkD n p = true) → LogsOk n s → handlePackets s id cid ps fl = .ok (s', fl') → Grow n s s'
  | [], s, s', fl, fl', _, _, hp => by
    simp only [handlePackets, Except.ok.injEq, Prod.mk.injEq] at hp; obtain ⟨rfl, _⟩ := hp; exact Grow.refl _ _
  | p :: rest, s, s', fl, fl', hok, h, hp => by
    simp only [handlePackets] at hp
    split at hp
    · simp at hp
    · rename_i s1 fl1 h1
      have a1 := handlePacket_grow h (hok p List.mem_cons_self) h1
      split at hp
      · simp only [Except.ok.injEq, Prod.mk.injEq] at hp; obtain ⟨rfl, _⟩ := hp; exact a1
      · exact a1.trans (handlePackets_grow rest (fun q hq => hok q (List.mem_cons_of_mem _ hq)) (h.grow a1) hp)

/-! ### disconnection, DeviceData, last will, shadow -/

theorem handleDisconnection_grow {n : Option Nat} {s s' : RState} {id : Nat} {r : Option String}
    (h : handleDisconnection s id r = .ok s') : Grow n s s' := by
  cases hc : getConn s id with
  | none => rw [handleDisconnection_missing s id r hc] at h; cases h; exact Grow.refl _ _
  | some c =>
    rw [Router.handleDisconnection_eq] at h
    simp only [hc] at h
    have h0 : Grow n s (hdFinal s id c r) := by
      obtain ⟨k1, k2, _, _, _, _, _, k8, _⟩ := hdFinal_fields s id c r
      refine Grow.of_getConn (fun j d hd => .inl ?_) ?_ ?_ k2
      · unfold getConn at hd ⊢
        rw [k1, Slab.get?_remove] at hd
        split at hd
        · cases hd
        · exact hd
      · rw [k8, datalogClean_eq]
        simp only [List.map_map]
        rfl
      · rw [k8]; exact datalogClean_retained _ _
    exact h0.trans (wakeParked_grow h)

/-- a DeviceData event whose batch is in range keeps everything stored in range -/
theorem handleDevicePayload_grow {n : Option Nat} {s s' : RState} {id : Nat} (h : LogsOk n s)
    (hib : ∀ c, getConn s id = some c → ∀ p ∈ (getLink s c.link).ibuf, PacketOkD n p = true)
    (hp : handleDevicePayload s id = .ok s') : Grow n s s' := by
  unfold handleDevicePayload at hp
  split at hp
  · simp only [Except.ok.injEq] at hp; subst hp; exact Grow.refl _ _
  · rename_i c hc
    simp only [] at hp
    have g0 : Grow n s (setLink s c.link { getLink s c.link with ibuf := [] }) := Grow.of_fields rfl rfl rfl rfl
    split at hp
    · simp at hp
    · rename_i s1 fl h1
      have g1 := g0.trans (handlePackets_grow _ (hib c hc) (h.grow g0) h1)
      split at hp
      · simp at hp
      · rename_i s2 h2
        have g2 : Grow n s s2 := by
          split at h2
          · exact g1.trans (reschedule_grow h2)
          · simp only [Except.ok.injEq] at h2; subst h2; exact g1
        split at hp
        · simp at hp
        · rename_i s3 h3
          have g3 : Grow n s s3 := by
            split at h3
            · exact g2.trans (drain_all_grow h3)
            · simp only [Except.ok.injEq] at h3; subst h3; exact g2
          split at hp
          · simp at hp
          · rename_i s4 h4
            have g4 := g3.trans (wakeTurnMoved_grow h4)
            split at hp
            · exact g4.trans (handleDisconnection_grow hp)
            · simp only [Except.ok.injEq] at hp; subst hp; exact g4

theorem WillP.stored {n : Option Nat} {w : Will} (h : WillP n w) (r : Bool) :
    StoredP n { qos := w.qos, pkid := 0, retain := r, dup := false, topic := w.topic, payload := w.payload } :=
  ⟨by simp [StoredCore, h.topic], h.qos, h.size⟩

/-- a fired will goes to the retained map and the logs as `StoredP` -/
theorem handleLastWill_grow {n : Option Nat} {s s' : RState} {cid : String} (hw : ∀ w, InWills s w → WillP n w)
    (h : handleLastWill s cid = .ok s') : Grow n s s' := by
  unfold handleLastWill at h
  split at h
  · simp only [Except.ok.injEq] at h; subst h; exact Grow.refl _ _
  · rename_i w hlw
    have hwp : WillP n w := hw w ⟨cid, mem_of_alookup hlw⟩
    simp only [] at h
    have r0 : Grow n s (({ s with lastWills := aremove cid s.lastWills } : RState).g (.willFired cid)) :=
      Grow.of_wills rfl rfl rfl (fun q hq => .inr (mem_aremove hq))
    split at h
    · simp only [Except.ok.injEq] at h; subst h; exact r0
    · rename_i topic ht
      split at h
      · simp at h
      · rename_i s2 idxs h2
        split at h
        · simp at h
        · rename_i s3 h3
          refine Grow.trans ?_ (drain_all_grow h)
          refine (Grow.trans ?_ (dlMatches_grow h2)).trans (appendToFilters_grow idxs (hwp.stored false) h3)
          exact (r0.trans (updateRetained_grow _ _ (hwp.stored w.retain))).trans (Grow.of_fields rfl rfl rfl rfl)

theorem handleShadow_grow {n : Option Nat} {s s' : RState} {id : Nat} {f : String} (h : handleShadow s id f = .ok s') :
    Grow n s s' := by
  have hc := handleShadow_core h
  unfold handleShadow at h
  split at h
  · simp only [Except.ok.injEq] at h; subst h; exact Grow.refl _ _
  · split at h
    · simp only [Except.ok.injEq] at h; subst h; exact Grow.refl _ _
    · split at h
      · simp only [Except.ok.injEq] at h; subst h; exact Grow.refl _ _
      · simp only [Except.ok.injEq] at h; subst h
        refine Grow.of_fields hc.1 ?_ ?_ ?_ <;> (simp only [wakeLink]; split <;> rfl)

end Router
