/-
C09: the outgoing QoS>0 window of one connection. `OutInv o`: at most `MAX_INFLIGHT` entries,
whose packet ids are the `o.inflight.length` consecutive ids (cyclically in `1..=MAX_INFLIGHT`)
that end at the id numbered last; kept by `numberForwards` (append, while there is room) and by
`registerAck` (pop front).
-/
import Proofs.Lemmas.Router.Rp1_Step
import Proofs.Lemmas.Router.Rp1_Readv
namespace Router

theorem MAX_INFLIGHT_eq : MAX_INFLIGHT = 100 := rfl

/-- the `k`-th id of a window of `n` entries whose last assigned id is `last + 1` (cyclically) -/
def pkidAt (last n k : Nat) : Nat := (last + MAX_INFLIGHT - n + k) % MAX_INFLIGHT + 1

def OutInv (o : Outgoing) : Prop :=
  o.inflight.length ≤ MAX_INFLIGHT ∧ o.lastPkid < MAX_INFLIGHT ∧
  ∀ k e, o.inflight[k]? = some e → e.1 = pkidAt o.lastPkid o.inflight.length k

theorem OutInv.empty (p : List Nat) : OutInv { unackedPubrels := p } := by
  refine ⟨by simp, by simp [MAX_INFLIGHT_eq], fun k e h => ?_⟩
  simp at h

/-- acknowledged entries leave at the front -/
theorem OutInv.drop {o o' : Outgoing} (h : OutInv o) (n : Nat) (e1 : o'.inflight = o.inflight.drop n)
    (e2 : o'.lastPkid = o.lastPkid) : OutInv o' := by
  obtain ⟨h1, h2, h3⟩ := h
  refine ⟨by rw [e1, List.length_drop]; omega, by rw [e2]; exact h2, fun k e hk => ?_⟩
  rw [e1, List.getElem?_drop] at hk
  have hlt : n + k < o.inflight.length := by
    by_cases hl : n + k < o.inflight.length
    · exact hl
    · rw [List.getElem?_eq_none (by omega)] at hk; simp at hk
  rw [h3 _ _ hk, e1, e2, List.length_drop]
  unfold pkidAt
  rw [MAX_INFLIGHT_eq] at *
  congr 2
  omega

/-- the invariant speaks about packet ids, window length and `last_pkid` only: forgotten cursors
    (UNSUBSCRIBE) do not matter -/
theorem OutInv.forget {o o' : Outgoing} (h : OutInv o) (e1 : Forgets o.inflight o'.inflight)
    (e2 : o'.lastPkid = o.lastPkid) : OutInv o' := by
  obtain ⟨h1, h2, h3⟩ := h
  refine ⟨by rw [e1.length]; exact h1, by rw [e2]; exact h2, fun k e hk => ?_⟩
  obtain ⟨e0, hk0, he⟩ := e1.getElem? hk
  rw [he.1, h3 _ _ hk0, e1.length, e2]

/-- acknowledged entries leave at the front, the remaining ones may forget their cursor -/
theorem OutInv.dropForget {o o' : Outgoing} (h : OutInv o) (n : Nat)
    (e1 : Forgets (o.inflight.drop n) o'.inflight) (e2 : o'.lastPkid = o.lastPkid) : OutInv o' :=
  OutInv.forget (o := { o with inflight := o.inflight.drop n }) (h.drop n rfl rfl) e1 e2

/-- one more numbered publish, while there is room -/
theorem OutInv.push {o : Outgoing} (h : OutInv o) (hroom : o.inflight.length < MAX_INFLIGHT) (fi : Nat)
    (cur : Option Cursor) :
    OutInv { o with inflight := o.inflight ++ [(o.lastPkid + 1, fi, cur)],
                    lastPkid := if o.lastPkid + 1 = MAX_INFLIGHT then 0 else o.lastPkid + 1 } := by
  unfold OutInv at h ⊢
  obtain ⟨h1, h2, h3⟩ := h
  have key : ∀ L', L' = (o.lastPkid + 1) % 100 →
      (o.inflight ++ [(o.lastPkid + 1, fi, cur)]).length ≤ 100 ∧ L' < 100 ∧
      ∀ k e, (o.inflight ++ [(o.lastPkid + 1, fi, cur)])[k]? = some e →
        e.1 = (L' + 100 - (o.inflight ++ [(o.lastPkid + 1, fi, cur)]).length + k) % 100 + 1 := by
    intro L' hL'
    rw [MAX_INFLIGHT_eq] at h1 h2 hroom
    refine ⟨by simp; omega, by omega, fun k e hk => ?_⟩
    simp only [List.length_append, List.length_cons, List.length_nil] at hk ⊢
    rw [List.getElem?_append] at hk
    split at hk
    · rename_i hlt
      rw [h3 _ _ hk]
      unfold pkidAt
      rw [MAX_INFLIGHT_eq]
      omega
    · rename_i hge
      have hk' : k = o.inflight.length := by
        by_cases e0 : k - o.inflight.length = 0
        · omega
        · rw [List.getElem?_eq_none (by simp; omega)] at hk; simp at hk
      subst hk'
      simp only [Nat.sub_self, List.getElem?_cons_zero, Option.some.injEq] at hk
      subst hk
      simp only []
      omega
  unfold pkidAt
  by_cases hc : o.lastPkid + 1 = MAX_INFLIGHT
  · rw [if_pos hc]
    rw [MAX_INFLIGHT_eq] at hc ⊢
    exact key 0 (by omega)
  · rw [if_neg hc]
    rw [MAX_INFLIGHT_eq] at hc h2 ⊢
    exact key (o.lastPkid + 1) (by omega)

theorem OutInv.numberForwards (fi : Nat) : ∀ (ps : List (Pub × Option Cursor)) (o : Outgoing) (acc : List Notif),
    OutInv o → o.inflight.length + ps.length ≤ MAX_INFLIGHT → OutInv (numberForwards o fi ps acc).1
  | [], o, acc, h, _ => by simpa [Router.numberForwards] using h
  | (p, c) :: rest, o, acc, h, hl => by
    simp only [Router.numberForwards]
    simp only [List.length_cons] at hl
    refine OutInv.numberForwards fi rest _ _ (h.push (by omega) fi c) ?_
    simp only [List.length_append, List.length_cons, List.length_nil]
    omega

/-- ids are in `1..=MAX_INFLIGHT` and pairwise distinct -/
theorem OutInv.pkids {o : Outgoing} (h : OutInv o) :
    (∀ e ∈ o.inflight, 0 < e.1 ∧ e.1 ≤ MAX_INFLIGHT) ∧ (o.inflight.map (·.1)).Nodup := by
  obtain ⟨h1, h2, h3⟩ := h
  refine ⟨fun e he => ?_, ?_⟩
  · obtain ⟨k, hk, rfl⟩ := List.getElem_of_mem he
    rw [h3 k _ (List.getElem?_eq_getElem hk)]
    unfold pkidAt
    rw [MAX_INFLIGHT_eq]
    omega
  · rw [List.nodup_iff_pairwise_ne, List.pairwise_iff_getElem]
    intro i j hi hj hij
    simp only [List.length_map] at hi hj
    simp only [List.getElem_map]
    rw [h3 i _ (List.getElem?_eq_getElem hi), h3 j _ (List.getElem?_eq_getElem hj)]
    unfold pkidAt
    rw [MAX_INFLIGHT_eq] at *
    omega

end Router
