/-
C01 completeness at idle: the invariant `QI` —
  * `cover`: every subscription of a connection has a data request the connection owns,
  * `gt`: a request's group is the group of its filter (`$share/<g>/<p>` ↦ `<g>/<p>`, else none),
  * `pe` (`ParkedAtEnd`): a parked request of a non-shared subscription stands at the end of its log,
  * the saved sessions satisfy the first two —
its transfer along `OEq`, and SUBSCRIBE.
-/
import Proofs.Lemmas.Router.Rp6_Steps
namespace Router
open CommitLog (logC Rep Issued)

/-- the request's group is the group of its filter -/
def GT (r : DataRequest) : Prop := r.group = (extractGroup r.filter).map (·.1)

/-- the cursor stands at the end of the log, in a retained segment: nothing is left to read -/
def AtEnd (fd : FilterData) (cur : Cursor) : Prop :=
  (logC fd.log).head ≤ cur.1 ∧ cur.2 = (logC fd.log).nextAbs

/-- every parked request of a non-shared subscription stands at the end of its log -/
def PE (s : RState) : Prop :=
  ∀ (i : Nat) (fd : FilterData), s.datalog.native[i]? = some fd → ∀ w ∈ fd.waiters, w.2.group = none → AtEnd fd w.2.cursor

structure QI (s : RState) : Prop where
  cover : ∀ j, ∀ f ∈ subsOf s j, ∃ r, Own s j r ∧ r.filter = f
  gt : ∀ j r, Own s j r → GT r
  pe : PE s
  grv : ∀ p ∈ s.graveyard, ∀ ss, p.2 = some ss →
    (∀ f ∈ ss.subscriptions, ∃ r ∈ ss.tracker.requests, r.filter = f) ∧ ∀ r ∈ ss.tracker.requests, GT r

theorem PE.wsub {s s' : RState} (h : PE s) (w : WSub s s') : PE s' := by
  intro i fd' hfd' x hx hg
  rcases w i fd' hfd' with e | ⟨fd, hfd, el, hs⟩
  · rw [e] at hx; cases hx
  · have := h i fd hfd x (hs x hx) hg
    unfold AtEnd at this ⊢
    rw [el]; exact this

theorem QI.oeq {s s' : RState} (h : QI s) (m : OEq s s') : QI s' := by
  refine ⟨fun j f hf => ?_, fun j r hr => h.gt j r ((m.own j r).mp hr), h.pe.wsub m.wsub, by rw [m.grv]; exact h.grv⟩
  rw [m.subs] at hf
  obtain ⟨r, hr, e⟩ := h.cover j f hf
  exact ⟨r, (m.own j r).mpr hr, e⟩

theorem QI.init (cfg : Config) : QI (init cfg) := by
  refine ⟨fun j f hf => ?_, fun j r hr => ?_, fun i fd hfd => ?_, fun p hp => ?_⟩
  · simp [subsOf, getConn, Router.init, Slab.get?] at hf
  · rcases hr with ⟨c, hc, _⟩ | ⟨i, fd, hfd, _⟩ | hr
    · simp [getConn, Router.init, Slab.get?] at hc
    · simp [Router.init] at hfd
    · simp [Notified, Router.init] at hr
  · simp [Router.init] at hfd
  · simp [Router.init] at hp

theorem QI.oracle {s : RState} (h : QI s) (o : List Choice) : QI { s with oracle := o } :=
  h.oeq (OEq.of_conns rfl rfl rfl rfl rfl)

/-! ### SUBSCRIBE -/

/-- ownership reads only the tracked requests, the waiter lists and `notifications` -/
theorem own_congr {s s' : RState}
    (ht : ∀ j, (getConn s' j).map (·.tracker.requests) = (getConn s j).map (·.tracker.requests))
    (hnat : s'.datalog.native = s.datalog.native) (hn : s'.notifications = s.notifications) (j : Nat) (r : DataRequest) :
    Own s' j r ↔ Own s j r := by
  unfold Own Notified
  rw [parked_of_native hnat, hn]
  have : TrackedBy s' j r ↔ TrackedBy s j r := by
    have := ht j
    unfold TrackedBy
    cases h1 : getConn s' j <;> cases h2 : getConn s j <;> simp_all
  rw [this]

/-- `next_native_offset`: a new filter gets a new, empty log without waiters; nothing moves -/
theorem nextNativeOffset_oeq (s : RState) (filter : String) : OEq s (nextNativeOffset s filter).1 := by
  unfold nextNativeOffset
  split
  · exact OEq.refl s
  · simp only []
    refine ⟨fun j r => ?_, fun i fd' hfd' => ?_, fun j => rfl, rfl, rfl⟩
    · unfold Own Notified
      have e1 : ∀ s' : RState, s'.conns = s.conns → (TrackedBy s' j r ↔ TrackedBy s j r) := fun s' e => by
        unfold TrackedBy getConn; rw [e]
      rw [e1 _ rfl]
      have e2 : Parked ({ s with datalog := { s.datalog with
          native := s.datalog.native ++ [{ filter, log := CLog.Log.new s.config.maxSegmentSize s.config.maxSegmentCount }],
          filterIndexes := s.datalog.filterIndexes ++ [(filter, s.datalog.native.length)],
          publishFilters := s.datalog.publishFilters.map (fun p =>
            if topicMatches p.1 filter then (p.1, p.2 ++ [s.datalog.native.length]) else p) } } : RState) j r ↔ Parked s j r := by
        unfold Parked ParkedAt
        constructor
        · rintro ⟨i, fd, hfd, hm⟩
          simp only [List.getElem?_append] at hfd
          split at hfd
          · exact ⟨i, fd, hfd, hm⟩
          · by_cases e : i - s.datalog.native.length = 0
            · simp only [e, List.getElem?_cons_zero, Option.some.injEq] at hfd; subst hfd; simp at hm
            · rw [List.getElem?_eq_none (by simp; omega)] at hfd; simp at hfd
        · rintro ⟨i, fd, hfd, hm⟩
          refine ⟨i, fd, ?_, hm⟩
          have hlt : i < s.datalog.native.length := by
            rcases Nat.lt_or_ge i s.datalog.native.length with h | h
            · exact h
            · rw [List.getElem?_eq_none h] at hfd; cases hfd
          simp only [List.getElem?_append, hlt, if_true]; exact hfd
      rw [e2]
      exact Iff.rfl
    · simp only [List.getElem?_append] at hfd'
      split at hfd'
      · exact .inr ⟨fd', hfd', rfl, fun _ h => h⟩
      · by_cases e : i - s.datalog.native.length = 0
        · simp only [e, List.getElem?_cons_zero, Option.some.injEq] at hfd'; subst hfd'; exact .inl rfl
        · rw [List.getElem?_eq_none (by simp; omega)] at hfd'; simp at hfd'

/-- `prepare_filter`: a subscription the connection did not have yet gets a new tracked request;
    nothing else moves -/
theorem prepareFilter_own {s s' : RState} {id : Nat} {cursor : Cursor} {idx : Nat} {f : SubFilter}
    {group : Option String} {subId : Option Nat} (h : prepareFilter s id cursor idx f group subId = .ok s') :
    (∀ j r, Own s' j r ↔ Own s j r ∨ (j = id ∧ r = pfReq idx f cursor group ∧ f.path ∉ subsOf s id)) ∧
    s'.datalog.native = s.datalog.native ∧
    (∀ j, subsOf s' j = if j = id ∧ f.path ∉ subsOf s id then subsOf s id ++ [f.path] else subsOf s j) ∧
    s'.graveyard = s.graveyard ∧ s'.config = s.config := by
  rw [prepareFilter_eq] at h
  split at h
  · simp at h
  · rename_i c hc
    simp only [] at h
    have hc1 : getConn (pfState s id cursor f.path group c.clientId) id = some c := hc
    have ht : (pfConn c f.path subId).tracker = c.tracker := by cases subId <;> rfl
    have hsb : (pfConn c f.path subId).subscriptions = c.subscriptions := by cases subId <;> rfl
    have hsubs : subsOf s id = c.subscriptions := by unfold subsOf; rw [hc]
    split at h
    · rename_i hold
      have hold' : f.path ∈ c.subscriptions := by simpa using hold
      simp only [Except.ok.injEq] at h; subst h
      have m : OEq s ((setConn (pfState s id cursor f.path group c.clientId) id (pfConn c f.path subId)).g
          (.subscribed id f.path f.qos idx cursor group false)) :=
        OEq.of_set (c' := pfConn c f.path subId) hc rfl (by rw [ht]) hsb rfl rfl rfl rfl
      refine ⟨fun j r => ?_, rfl, fun j => ?_, m.grv, m.cfg⟩
      · rw [m.own, hsubs]; simp [hold']
      · rw [m.subs, hsubs]; simp [hold']
    · rename_i hnew
      have hnew' : f.path ∉ c.subscriptions := by simpa using hnew
      have hc1' : getConn ((pfState s id cursor f.path group c.clientId).g
          (.subscribed id f.path f.qos idx cursor group true)) id = some c := hc
      have hget2 := getConn_setConn_live hc1' { pfConn c f.path subId with subscriptions := c.subscriptions ++ [f.path] }
      split at h
      · simp at h
      · rename_i s3 h3
        obtain ⟨a3, n3⟩ := track_add h3
        unfold pfTail at h
        split at h
        · simp at h
        · rename_i s4 h4
          have a4 := reschedule_oeq h4
          have e : s' = s4 := by
            split at h
            · simp only [Except.ok.injEq] at h; exact h.symm
            · split at h
              · simp only [Except.ok.injEq] at h; exact h.symm
              · simp at h
          subst e
          have own2 : ∀ j r, Own (setConn ((pfState s id cursor f.path group c.clientId).g
              (.subscribed id f.path f.qos idx cursor group true)) id
              { pfConn c f.path subId with subscriptions := c.subscriptions ++ [f.path] }) j r ↔ Own s j r := fun j r => by
            refine own_congr ?_ ?_ ?_ j r
            · intro j
              rw [hget2]
              by_cases hj : j = id
              · subst hj; simp only [if_true, hc, Option.map_some, ht]
              · simp only [hj, if_false]; rfl
            · rfl
            · rfl
          refine ⟨fun j r => ?_, by rw [reschedule_native h4, n3]; rfl, fun j => ?_, ?_, ?_⟩
          · rw [a4.own, a3.own, own2, hsubs]; simp [hnew']
          · rw [a4.subs, a3.subs, hsubs]
            unfold subsOf; rw [hget2]
            by_cases hj : j = id
            · subst hj; simp [hnew', hsb]
            · simp only [hj, if_false, false_and]; rfl
          · rw [a4.grv, a3.grv]; rfl
          · rw [a4.cfg, a3.cfg]; rfl

theorem pfReq_gt (idx : Nat) (f : SubFilter) (cursor : Cursor) : GT (pfReq idx f cursor (sfGroup f.path)) := rfl

theorem prepareFilter_qi {s s' : RState} {id : Nat} {cursor : Cursor} {idx : Nat} {f : SubFilter}
    {subId : Option Nat} (hq : QI s) (h : prepareFilter s id cursor idx f (sfGroup f.path) subId = .ok s') : QI s' := by
  obtain ⟨o, n, sb, g, _⟩ := prepareFilter_own h
  refine ⟨fun j x hx => ?_, fun j r hr => ?_, hq.pe.wsub (WSub.of_native n), by rw [g]; exact hq.grv⟩
  · rw [sb] at hx
    split at hx
    · rename_i hj
      obtain ⟨rfl, hnew⟩ := hj
      rcases List.mem_append.mp hx with hx | hx
      · obtain ⟨r, hr, e⟩ := hq.cover j x hx
        exact ⟨r, (o j r).mpr (.inl hr), e⟩
      · simp only [List.mem_singleton] at hx; subst hx
        exact ⟨pfReq idx f cursor (sfGroup f.path), (o j _).mpr (.inr ⟨rfl, rfl, hnew⟩), rfl⟩
    · obtain ⟨r, hr, e⟩ := hq.cover j x hx
      exact ⟨r, (o j r).mpr (.inl hr), e⟩
  · rcases (o j r).mp hr with hr | ⟨_, rfl, _⟩
    · exact hq.gt j r hr
    · exact pfReq_gt idx f cursor

/-- the filter loop of SUBSCRIBE keeps the invariant; no connection loses a request -/
theorem subscribeFilters_qi {id : Nat} {subId : Option Nat} : ∀ (fs : List SubFilter) {s s' : RState}
    {codes codes' : List Nat} {fl fl' : Flags}, QI s → subscribeFilters s id subId fs codes fl = .ok (s', codes', fl') →
    QI s' ∧ (∀ j r, Own s j r → Own s' j r) ∧ s'.config = s.config
  | [], s, s', codes, codes', fl, fl', hq, h => by
    simp only [subscribeFilters, Except.ok.injEq, Prod.mk.injEq] at h; obtain ⟨rfl, _⟩ := h
    exact ⟨hq, fun _ _ h => h, rfl⟩
  | f :: rest, s, s', codes, codes', fl, fl', hq, h => by
    rw [subscribeFilters_cons] at h
    split at h
    · simp only [Except.ok.injEq, Prod.mk.injEq] at h; obtain ⟨rfl, _⟩ := h
      exact ⟨hq, fun _ _ h => h, rfl⟩
    · split at h
      · simp only [Except.ok.injEq, Prod.mk.injEq] at h; obtain ⟨rfl, _⟩ := h
        exact ⟨hq, fun _ _ h => h, rfl⟩
      · simp only [] at h
        split at h
        · simp at h
        · rename_i s1 h1
          have m0 := nextNativeOffset_oeq s (sfFilter f.path)
          have q0 := hq.oeq m0
          have q1 := prepareFilter_qi q0 h1
          obtain ⟨o, _, _, _, c1⟩ := prepareFilter_own h1
          obtain ⟨q2, o2, c2⟩ := subscribeFilters_qi rest q1 h
          exact ⟨q2, fun j r hr => o2 j r ((o j r).mpr (.inl ((m0.own j r).mpr hr))), by rw [c2, c1, m0.cfg]⟩

end Router
