/-
What the scheduler status of a connection tells (C01 / C09 "nothing is left undelivered at idle
except what the client itself holds up"):
  * `Paused(Caughtup)`      → the tracker holds no request,
  * `Paused(InflightFull)`  → the outgoing window is full (the connection waits for its client's acks),
  * `Ready`                 → the connection is in the ready queue (`consume` will serve it).
Relation `SRel` (the step keeps status, emptiness of the tracker, does not shrink windows or the ready
queue), primitive operations.
-/
import Proofs.Lemmas.Router.Rp7_Run
namespace Router

/-- per connection -/
def CI (c : Conn) : Prop :=
  (c.tracker.status = .paused .caughtup → c.tracker.requests = []) ∧
  (c.tracker.status = .paused .inflightFull → MAX_INFLIGHT ≤ c.out.inflight.length)

structure SI (s : RState) : Prop where
  ci : ∀ id c, getConn s id = some c → CI c
  rq : ∀ id c, getConn s id = some c → c.tracker.status = .ready → id ∈ s.readyqueue

/-- the scheduler-relevant part of a connection is kept -/
def Keep (c c' : Conn) : Prop :=
  c'.tracker.status = c.tracker.status ∧ (c.tracker.requests = [] → c'.tracker.requests = []) ∧
  c.out.inflight.length ≤ c'.out.inflight.length

theorem Keep.refl (c : Conn) : Keep c c := ⟨rfl, fun h => h, Nat.le_refl _⟩
theorem Keep.trans {a b c : Conn} (h1 : Keep a b) (h2 : Keep b c) : Keep a c :=
  ⟨h2.1.trans h1.1, fun h => h2.2.1 (h1.2.1 h), Nat.le_trans h1.2.2 h2.2.2⟩

theorem CI.keep {c c' : Conn} (h : CI c) (k : Keep c c') : CI c' :=
  ⟨fun e => k.2.1 (h.1 (k.1 ▸ e)), fun e => Nat.le_trans (h.2 (k.1 ▸ e)) k.2.2⟩

/-- no connection appears, every connection keeps its scheduler-relevant part, the ready queue
    loses nobody -/
structure SRel (s s' : RState) : Prop where
  conn : ∀ j c', getConn s' j = some c' → ∃ c, getConn s j = some c ∧ Keep c c'
  rq : ∀ j ∈ s.readyqueue, j ∈ s'.readyqueue

theorem SRel.refl (s : RState) : SRel s s := ⟨fun _ c' h => ⟨c', h, Keep.refl _⟩, fun _ h => h⟩

theorem SRel.trans {a b c : RState} (h1 : SRel a b) (h2 : SRel b c) : SRel a c :=
  ⟨fun j c' h => by
    obtain ⟨cb, hb, kb⟩ := h2.conn j c' h
    obtain ⟨ca, ha, ka⟩ := h1.conn j cb hb
    exact ⟨ca, ha, ka.trans kb⟩, fun j h => h2.rq j (h1.rq j h)⟩

theorem SI.rel {s s' : RState} (h : SI s) (m : SRel s s') : SI s' :=
  ⟨fun id c' hc' => by
    obtain ⟨c, hc, k⟩ := m.conn id c' hc'
    exact (h.ci id c hc).keep k,
   fun id c' hc' hr => by
    obtain ⟨c, hc, k⟩ := m.conn id c' hc'
    exact m.rq id (h.rq id c hc (k.1 ▸ hr))⟩

theorem SRel.of_conns {s s' : RState} (hc : s'.conns = s.conns) (hq : s'.readyqueue = s.readyqueue) : SRel s s' :=
  ⟨fun j c' h => ⟨c', by unfold getConn at h ⊢; rw [← hc]; exact h, Keep.refl _⟩, fun j h => by rw [hq]; exact h⟩

theorem SRel.of_set {s s' : RState} {id : Nat} {c c' : Conn} (hc : getConn s id = some c)
    (hconns : s'.conns = s.conns.set id c') (hk : Keep c c') (hq : s'.readyqueue = s.readyqueue) : SRel s s' := by
  have hget : ∀ j, getConn s' j = if j = id then some c' else getConn s j := fun j => by
    unfold getConn; rw [hconns]; exact Slab.get?_set_live hc j c'
  refine ⟨fun j d hd => ?_, fun j h => by rw [hq]; exact h⟩
  rw [hget] at hd
  by_cases hj : j = id
  · subst hj; simp only [if_true, Option.some.injEq] at hd; subst hd; exact ⟨c, hc, hk⟩
  · simp only [hj, if_false] at hd; exact ⟨d, hd, Keep.refl _⟩

/-- a live connection replaced by one that satisfies `CI` and, if ready, is queued -/
theorem SI.set {s s' : RState} {id : Nat} {c c' : Conn} (h : SI s) (hc : getConn s id = some c)
    (hconns : s'.conns = s.conns.set id c') (hci : CI c') (hrq : ∀ j ∈ s.readyqueue, j ∈ s'.readyqueue)
    (hready : c'.tracker.status = .ready → id ∈ s'.readyqueue) : SI s' := by
  have hget : ∀ j, getConn s' j = if j = id then some c' else getConn s j := fun j => by
    unfold getConn; rw [hconns]; exact Slab.get?_set_live hc j c'
  refine ⟨fun j d hd => ?_, fun j d hd hr => ?_⟩
  · rw [hget] at hd
    by_cases hj : j = id
    · subst hj; simp only [if_true, Option.some.injEq] at hd; subst hd; exact hci
    · simp only [hj, if_false] at hd; exact h.ci j d hd
  · rw [hget] at hd
    by_cases hj : j = id
    · subst hj; simp only [if_true, Option.some.injEq] at hd; subst hd; exact hready hr
    · simp only [hj, if_false] at hd; exact hrq j (h.rq j d hd hr)

/-! ### `try_ready` -/

theorem tryReady_cases {t t' : Tracker} {r : SchedReason} {w : Bool} (h : t.tryReady r = some (t', w)) :
    (w = true ∧ t'.status = .ready ∧ t'.requests = t.requests) ∨ (w = false ∧ t' = t) := by
  unfold Tracker.tryReady at h
  split at h
  · simp only [Option.some.injEq, Prod.mk.injEq] at h; obtain ⟨rfl, rfl⟩ := h; exact .inr ⟨rfl, rfl⟩
  · split at h <;> (split at h <;> simp only [Option.some.injEq, Prod.mk.injEq, reduceCtorEq] at h) <;>
      (obtain ⟨rfl, rfl⟩ := h; first | exact .inl ⟨rfl, rfl, rfl⟩ | exact .inr ⟨rfl, rfl⟩)

/-- `reschedule` keeps the status facts -/
theorem reschedule_si {s s' : RState} {id : Nat} {r : SchedReason} (h : SI s) (hr : reschedule s id r = .ok s') : SI s' := by
  unfold reschedule at hr
  split at hr
  · simp at hr
  · rename_i c hc
    split at hr
    · simp at hr
    · rename_i t woke ht
      simp only [Except.ok.injEq] at hr; subst hr
      rcases tryReady_cases ht with ⟨rfl, e1, e2⟩ | ⟨rfl, rfl⟩
      · simp only [if_true]
        refine h.set (c' := { c with tracker := t }) hc rfl ⟨fun e => (by rw [e1] at e; cases e), fun e => (by rw [e1] at e; cases e)⟩
          (fun j hj => List.mem_append_left _ hj) (fun _ => by simp)
      · simp only [Bool.false_eq_true, if_false]
        exact h.set (c' := { c with tracker := c.tracker }) hc rfl (h.ci id c hc) (fun j hj => hj) (fun e => h.rq id c hc e)

/-- `reschedule` in full, as far as the scheduler is concerned -/
theorem reschedule_spec {s s' : RState} {id : Nat} {r : SchedReason} {c : Conn} (hc : getConn s id = some c)
    (hr : reschedule s id r = .ok s') :
    ∃ c', getConn s' id = some c' ∧ c'.tracker.requests = c.tracker.requests ∧ c'.out = c.out ∧
      (c'.tracker.status = .ready ∨ c'.tracker.status = c.tracker.status) ∧
      (r = .freshData ∨ r = .newFilter ∨ r = .incomingAck → c'.tracker.status ≠ .paused .caughtup) ∧
      (r = .incomingAck → c'.tracker.status ≠ .paused .inflightFull) ∧
      (∀ j, j ≠ id → getConn s' j = getConn s j) ∧ (∀ j ∈ s.readyqueue, j ∈ s'.readyqueue) ∧
      (c'.tracker.status = .ready → c.tracker.status = .ready ∨ id ∈ s'.readyqueue) := by
  unfold reschedule at hr
  rw [hc] at hr
  simp only [] at hr
  split at hr
  · simp at hr
  · rename_i t woke ht
    simp only [Except.ok.injEq] at hr
    have hget : ∀ j, getConn s' j = if j = id then some { c with tracker := t } else getConn s j := fun j => by
      rw [← hr]
      split
      · exact getConn_setConn_live hc _ j
      · exact getConn_setConn_live hc _ j
    have hrq : ∀ j ∈ s.readyqueue, j ∈ s'.readyqueue := fun j hj => by
      rw [← hr]
      split
      · exact List.mem_append_left _ hj
      · exact hj
    refine ⟨{ c with tracker := t }, by rw [hget]; simp, tryReady_some ht, rfl, ?_, ?_, ?_,
      fun j hj => by rw [hget]; simp [hj], hrq, ?_⟩
    · rcases tryReady_cases ht with ⟨_, e1, _⟩ | ⟨_, rfl⟩
      · exact .inl e1
      · exact .inr rfl
    · intro hrs
      unfold Tracker.tryReady at ht
      split at ht
      · rename_i hst
        simp only [Option.some.injEq, Prod.mk.injEq] at ht; obtain ⟨rfl, _⟩ := ht
        show c.tracker.status ≠ _
        rw [hst]; simp
      · rename_i p hst
        rcases hrs with rfl | rfl | rfl
        all_goals
          simp only [] at ht
          split at ht
          · simp only [Option.some.injEq, Prod.mk.injEq] at ht; obtain ⟨rfl, _⟩ := ht; simp
          · rename_i hp
            simp only [Option.some.injEq, Prod.mk.injEq] at ht; obtain ⟨rfl, _⟩ := ht
            show c.tracker.status ≠ _
            rw [hst]
            intro e; cases e; simp at hp
    · rintro rfl
      unfold Tracker.tryReady at ht
      split at ht
      · rename_i hst
        simp only [Option.some.injEq, Prod.mk.injEq] at ht; obtain ⟨rfl, _⟩ := ht
        show c.tracker.status ≠ _
        rw [hst]; simp
      · rename_i p hst
        simp only [] at ht
        split at ht
        · simp only [Option.some.injEq, Prod.mk.injEq] at ht; obtain ⟨rfl, _⟩ := ht; simp
        · rename_i hp
          simp only [Option.some.injEq, Prod.mk.injEq] at ht; obtain ⟨rfl, _⟩ := ht
          show c.tracker.status ≠ _
          rw [hst]
          intro e; cases e; simp at hp
    · intro hready
      rcases tryReady_cases ht with ⟨rfl, _, _⟩ | ⟨_, rfl⟩
      · right; rw [← hr]; simp
      · left; exact hready

/-- `reschedule` of a connection whose status facts may be violated in a way the reschedule repairs:
    `Caughtup` with requests before a reschedule for fresh data / a new filter / an ack, `InflightFull`
    with a window that is no longer full before a reschedule for an ack -/
theorem reschedule_fix {s s' : RState} {id : Nat} {rs : SchedReason} {c : Conn} (hc : getConn s id = some c)
    (hr : reschedule s id rs = .ok s')
    (hci : ∀ j d, getConn s j = some d → j ≠ id → CI d)
    (hrq : ∀ j d, getConn s j = some d → d.tracker.status = .ready → j ∈ s.readyqueue)
    (h1 : c.tracker.status = .paused .caughtup →
      rs = .freshData ∨ rs = .newFilter ∨ rs = .incomingAck ∨ c.tracker.requests = [])
    (h2 : c.tracker.status = .paused .inflightFull → rs = .incomingAck ∨ MAX_INFLIGHT ≤ c.out.inflight.length) : SI s' := by
  obtain ⟨c', hc', er, eo, est, hn1, hn2, hoth, hq, hready⟩ := reschedule_spec hc hr
  refine ⟨fun j d hd => ?_, fun j d hd hrd => ?_⟩
  · by_cases hj : j = id
    · subst hj; rw [hc'] at hd; cases hd
      refine ⟨fun e => ?_, fun e => ?_⟩
      · rcases est with e' | e'
        · rw [e'] at e; cases e
        · rw [e'] at e
          rcases h1 e with h | h | h | h
          · exact absurd (e' ▸ e) (hn1 (.inl h))
          · exact absurd (e' ▸ e) (hn1 (.inr (.inl h)))
          · exact absurd (e' ▸ e) (hn1 (.inr (.inr h)))
          · rw [er]; exact h
      · rcases est with e' | e'
        · rw [e'] at e; cases e
        · rw [e'] at e
          rcases h2 e with h | h
          · exact absurd (e' ▸ e) (hn2 h)
          · rw [eo]; exact h
    · rw [hoth j hj] at hd; exact hci j d hd hj
  · by_cases hj : j = id
    · subst hj; rw [hc'] at hd; cases hd
      rcases hready hrd with h | h
      · exact hq j (hrq j c hc h)
      · exact h
    · rw [hoth j hj] at hd; exact hq j (hrq j d hd hrd)

end Router
