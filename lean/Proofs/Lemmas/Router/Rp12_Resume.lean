/-
C08 — the resume point: the cursor a saved request is restored with is the cursor of the oldest
window entry of its filter index that carries a cursor (else its own / its group's cursor), and the
restored connection is `Ready` and queued.
-/
import Proofs.Lemmas.Router.Rp11_Reach
namespace Router
open Router.Rp3

/-- the cursor of the first (oldest) window entry `(pkid, k, some cur)` of filter index `k` -/
def oldestCursor (k : Nat) : List (Nat × Nat × Option Cursor) → Option Cursor
  | [] => none
  | (_, fi, cur) :: rest => if fi = k then cur.or (oldestCursor k rest) else oldestCursor k rest

theorem retx_oldest (k : Nat) : ∀ (l : List (Nat × Nat × Option Cursor)) (acc : List (Nat × Cursor)),
    nlookup k (retransmissionMap l acc) = (nlookup k acc).or (oldestCursor k l)
  | [], acc => by simp [retransmissionMap, oldestCursor]
  | (_, fi, some c) :: rest, acc => by
    simp only [retransmissionMap, oldestCursor]
    split
    · rename_i hs
      rw [retx_oldest k rest acc]
      by_cases hk : fi = k
      · subst hk
        obtain ⟨v, hv⟩ := Option.isSome_iff_exists.mp hs
        simp [hv]
      · simp [hk]
    · rename_i hs
      rw [retx_oldest k rest _, nlookup_append']
      by_cases hk : fi = k
      · subst hk
        have : nlookup fi acc = none := by simpa using hs
        simp [this, nlookup]
      · simp [hk, nlookup]
  | (_, fi, none) :: rest, acc => by
    simp only [retransmissionMap, oldestCursor]
    rw [retx_oldest k rest acc]
    by_cases hk : fi = k <;> simp [hk]

/-- `retransmission_map` of a window, read at a filter index: the oldest cursor of that index -/
theorem retx_lookup_oldest (k : Nat) (l : List (Nat × Nat × Option Cursor)) :
    nlookup k (retransmissionMap l []) = oldestCursor k l := by
  rw [retx_oldest]; simp [nlookup]

/-- what "oldest" means: the window splits at the entry, and no earlier entry of the index carries a cursor -/
theorem oldestCursor_some_iff (k : Nat) (cur : Cursor) : ∀ (l : List (Nat × Nat × Option Cursor)),
    oldestCursor k l = some cur ↔
      ∃ pre pk post, l = pre ++ (pk, k, some cur) :: post ∧ ∀ e ∈ pre, e.2.1 = k → e.2.2 = none
  | [] => by simp [oldestCursor]
  | (pk0, fi, c0) :: rest => by
    simp only [oldestCursor]
    have ih := oldestCursor_some_iff k cur rest
    by_cases hk : fi = k
    · subst hk
      rw [if_pos rfl]
      cases c0 with
      | some c =>
        have e0 : (some c).or (oldestCursor fi rest) = some c := rfl
        rw [e0, Option.some.injEq]
        constructor
        · rintro rfl; exact ⟨[], pk0, rest, rfl, by simp⟩
        · rintro ⟨pre, pk, post, e, hpre⟩
          cases pre with
          | nil => simp only [List.nil_append, List.cons.injEq, Prod.mk.injEq, Option.some.injEq] at e; exact e.1.2.2
          | cons x xs =>
            simp only [List.cons_append, List.cons.injEq] at e
            have := hpre x (by simp) (by rw [← e.1])
            rw [← e.1] at this; cases this
      | none =>
        have e0 : (none : Option Cursor).or (oldestCursor fi rest) = oldestCursor fi rest := by
          cases oldestCursor fi rest <;> rfl
        rw [e0, ih]
        constructor
        · rintro ⟨pre, pk, post, e, hpre⟩
          refine ⟨(pk0, fi, none) :: pre, pk, post, by rw [e]; rfl, fun x hx hxk => ?_⟩
          rcases List.mem_cons.mp hx with rfl | hx
          · rfl
          · exact hpre x hx hxk
        · rintro ⟨pre, pk, post, e, hpre⟩
          cases pre with
          | nil => simp at e
          | cons x xs =>
            simp only [List.cons_append, List.cons.injEq] at e
            exact ⟨xs, pk, post, e.2, fun y hy => hpre y (List.mem_cons_of_mem _ hy)⟩
    · simp only [hk, if_false]
      rw [ih]
      constructor
      · rintro ⟨pre, pk, post, e, hpre⟩
        refine ⟨(pk0, fi, c0) :: pre, pk, post, by rw [e]; rfl, fun x hx hxk => ?_⟩
        rcases List.mem_cons.mp hx with rfl | hx
        · exact absurd hxk hk
        · exact hpre x hx hxk
      · rintro ⟨pre, pk, post, e, hpre⟩
        cases pre with
        | nil =>
          simp only [List.nil_append, List.cons.injEq, Prod.mk.injEq] at e
          exact absurd e.1.2.1 hk
        | cons x xs =>
          simp only [List.cons_append, List.cons.injEq] at e
          exact ⟨xs, pk, post, e.2, fun y hy => hpre y (List.mem_cons_of_mem _ hy)⟩

theorem oldestCursor_none_iff (k : Nat) : ∀ (l : List (Nat × Nat × Option Cursor)),
    oldestCursor k l = none ↔ ∀ e ∈ l, e.2.1 = k → e.2.2 = none
  | [] => by simp [oldestCursor]
  | (pk, fi, cur) :: rest => by
    simp only [oldestCursor, List.mem_cons, forall_eq_or_imp]
    by_cases hk : fi = k
    · simp only [hk, if_true, true_imp_iff]
      rw [← oldestCursor_none_iff k rest]
      cases cur <;> simp
    · simp only [hk, if_false, false_imp_iff, true_and]
      exact oldestCursor_none_iff k rest

/-- the resume point of a request `q` of a connection with outgoing window `w`, groups `sh` -/
def resumeCursor (sh : List (String × SharedGroup)) (w : List (Nat × Nat × Option Cursor)) (q : DataRequest) : Cursor :=
  match oldestCursor q.filterIdx w with
  | some cur => cur
  | none => (atGroupCursor sh q).cursor

/-- the request saved for `q` -/
def savedOf (sh : List (String × SharedGroup)) (w : List (Nat × Nat × Option Cursor)) (q : DataRequest) : DataRequest :=
  rewindOne (retransmissionMap w []) (atGroupCursor sh q)

theorem savedOf_fields (sh : List (String × SharedGroup)) (w : List (Nat × Nat × Option Cursor)) (q : DataRequest) :
    (savedOf sh w q).filter = q.filter ∧ (savedOf sh w q).filterIdx = q.filterIdx ∧ (savedOf sh w q).qos = q.qos ∧
    (savedOf sh w q).group = q.group ∧ (savedOf sh w q).forwardRetained = q.forwardRetained ∧
    (savedOf sh w q).cursor = resumeCursor sh w q := by
  obtain ⟨a1, a2, a3, a4, a5⟩ := atGroupCursor_fields sh q
  obtain ⟨b1, b2, b3, b4, b5, b6⟩ := rewindOne_fields (retransmissionMap w []) (atGroupCursor sh q)
  refine ⟨b1.trans a1, b2.trans a2, b3.trans a3, b4.trans a4, b5.trans a5, ?_⟩
  unfold savedOf resumeCursor
  rw [b6, a2, retx_lookup_oldest]
  cases oldestCursor q.filterIdx w <;> rfl

theorem savedOf_mem {s : RState} {id : Nat} {c : Conn} {q : DataRequest}
    (hq : q ∈ c.tracker.requests ++ (datalogClean s.datalog id).2) :
    savedOf s.shared c.out.inflight q ∈ savedRequests s id c := by
  unfold savedRequests savedOf
  rw [List.map_map]
  exact List.mem_map.mpr ⟨q, hq, rfl⟩

/-- the registration of a connection whose tracker is `Paused(Busy)` (a new tracker; a restored one):
    `reschedule(Init)` makes it `Ready` and puts it into the ready queue -/
theorem admit_ready {s s' : RState} {spec : ConnectSpec} (h : admitConn s spec = .ok s')
    (hfull : ¬ s.conns.len ≥ s.config.maxConnections)
    (hbusy : (newConn s spec).tracker.status = .paused .busy) :
    ∃ c', getConn s' (newId s spec) = some c' ∧ c'.tracker.status = .ready ∧ newId s spec ∈ s'.readyqueue := by
  obtain ⟨t, woke, htr, _, hget, _⟩ := admit_spec h hfull
  rw [admit_eq] at h
  simp only [hfull, if_false] at h
  split at h
  · simp at h
  · obtain ⟨c, t', woke', hc, ht, hs'⟩ := reschedule_ok h
    have hst : t.status = .ready ∧ woke = true := by
      unfold Tracker.tryReady at htr
      rw [hbusy] at htr
      simp only [if_true, Option.some.injEq, Prod.mk.injEq] at htr
      exact ⟨by rw [← htr.1], htr.2.symm⟩
    refine ⟨_, hget, hst.1, ?_⟩
    -- the conn found by `reschedule` is the one `admit_spec` describes (same slot), so `woke' = woke`
    have hget0 : getConn (admitPre s spec) (newId s spec) = some c := hc
    have hw : woke' = true := by
      have hc2 : c.tracker = (newConn s spec).tracker := by
        have : getConn (admitPre s spec) (newId s spec) =
            if newId s spec < (s.conns.insert (newConn s spec)).1.entries.length then
              some { newConn s spec with acks := { committed := [Ack.connack (newId s spec) (sessionPresent s spec)] ++
                        (newConn s spec).out.unackedPubrels.map Ack.pubrel } } else none := by
          unfold getConn admitPre newId sessionPresent
          exact slab_get_set _ _ _
        rw [this] at hget0
        split at hget0
        · simp only [Option.some.injEq] at hget0; rw [← hget0]
        · cases hget0
      rw [hc2, htr] at ht
      simp only [Option.some.injEq, Prod.mk.injEq] at ht
      rw [← ht.2]; exact hst.2
    subst hs'
    simp [hw]
    exact Or.inr rfl

end Router
