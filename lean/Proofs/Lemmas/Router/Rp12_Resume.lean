/-
C08 — the resume point: the cursor a saved request is restored with is the LEAST cursor (tuple order)
among the window entries of its filter index that carry one (else its own / its group's cursor), and
the restored connection is `Ready` and queued.
-/
import Proofs.Lemmas.Router.Rp11_Reach
namespace Router
open Router.Rp3

/-- tuple order of cursors `(segment, offset)` (the order of `cursorMin`, Rust's `Ord` on `(u64, u64)`) -/
def cursorLe (a b : Cursor) : Prop := a.1 < b.1 ∨ (a.1 = b.1 ∧ a.2 ≤ b.2)

theorem cursorLe_refl (a : Cursor) : cursorLe a a := .inr ⟨rfl, Nat.le_refl _⟩

theorem cursorLe_trans {a b c : Cursor} (h1 : cursorLe a b) (h2 : cursorLe b c) : cursorLe a c := by
  unfold cursorLe at *
  rcases h1 with h1 | ⟨e1, l1⟩ <;> rcases h2 with h2 | ⟨e2, l2⟩
  · exact .inl (by omega)
  · exact .inl (by omega)
  · exact .inl (by omega)
  · exact .inr ⟨by omega, by omega⟩

theorem cursorMin_le_left (a b : Cursor) : cursorLe (cursorMin a b) a := by
  unfold cursorMin
  split
  · exact cursorLe_refl a
  · rename_i h
    simp only [Bool.or_eq_true, decide_eq_true_eq, Bool.and_eq_true, beq_iff_eq, not_or, not_and, Nat.not_lt, Nat.not_le] at h
    unfold cursorLe
    by_cases e : b.1 = a.1
    · exact .inr ⟨e, Nat.le_of_lt (h.2 e.symm)⟩
    · exact .inl (by omega)

theorem cursorMin_le_right (a b : Cursor) : cursorLe (cursorMin a b) b := by
  unfold cursorMin
  split
  · rename_i h
    simp only [Bool.or_eq_true, decide_eq_true_eq, Bool.and_eq_true, beq_iff_eq] at h
    exact h
  · exact cursorLe_refl b

/-- the LEAST cursor (tuple order) among the window entries `(pkid, k, some cur)` of filter index `k` -/
def leastCursor (k : Nat) (w : List (Nat × Nat × Option Cursor)) : Option Cursor := leastFrom k w none

/-- `retransmission_map` of a window, read at a filter index: the least cursor of that index -/
theorem retx_lookup_least (k : Nat) (l : List (Nat × Nat × Option Cursor)) :
    nlookup k (retransmissionMap l []) = leastCursor k l := by
  rw [retx_leastFrom]; rfl

theorem leastFrom_le (k : Nat) (c : Cursor) : ∀ (l : List (Nat × Nat × Option Cursor)) (init : Option Cursor),
    leastFrom k l init = some c →
    (∀ i, init = some i → cursorLe c i) ∧ ∀ e ∈ l, e.2.1 = k → ∀ cur, e.2.2 = some cur → cursorLe c cur
  | [], init, h => ⟨fun i hi => by
      have h' : init = some c := h
      rw [h'] at hi; cases hi; exact cursorLe_refl c, fun _ he => absurd he List.not_mem_nil⟩
  | (pk, fi, cur0) :: rest, init, h => by
    simp only [leastFrom] at h
    obtain ⟨h1, h2⟩ := leastFrom_le k c rest _ h
    by_cases hk : fi = k
    · simp only [hk, if_true] at h1
      refine ⟨fun i hi => ?_, fun e he hi cur hc => ?_⟩
      · subst hi
        cases cur0 with
        | none => exact h1 i rfl
        | some c' => exact cursorLe_trans (h1 _ rfl) (cursorMin_le_left i c')
      · rcases List.mem_cons.mp he with rfl | he'
        · simp only [] at hc; subst hc
          cases init with
          | none => exact h1 cur rfl
          | some i => exact cursorLe_trans (h1 _ rfl) (cursorMin_le_right i cur)
        · exact h2 e he' hi cur hc
    · simp only [hk, if_false] at h1
      refine ⟨h1, fun e he hi cur hc => ?_⟩
      rcases List.mem_cons.mp he with rfl | he'
      · exact absurd hi hk
      · exact h2 e he' hi cur hc

theorem leastFrom_none (k : Nat) : ∀ (l : List (Nat × Nat × Option Cursor)) (init : Option Cursor),
    leastFrom k l init = none ↔ init = none ∧ ∀ e ∈ l, e.2.1 = k → e.2.2 = none
  | [], init => by simp [leastFrom]
  | (pk, fi, cur0) :: rest, init => by
    simp only [leastFrom, List.mem_cons, forall_eq_or_imp]
    rw [leastFrom_none k rest]
    by_cases hk : fi = k
    · simp only [hk, if_true, true_imp_iff]
      cases init <;> cases cur0 <;> simp [optMin]
    · simp only [hk, if_false, false_imp_iff, true_and]

/-- what "least" means: it is the cursor of a window entry of the index, and it is at or below (tuple
    order) the cursor of every window entry of the index -/
theorem leastCursor_some_iff (k : Nat) (cur : Cursor) (w : List (Nat × Nat × Option Cursor)) :
    leastCursor k w = some cur ↔
      (∃ e ∈ w, e.2.1 = k ∧ e.2.2 = some cur) ∧ ∀ e ∈ w, e.2.1 = k → ∀ c, e.2.2 = some c → cursorLe cur c := by
  constructor
  · intro h
    refine ⟨?_, (leastFrom_le k cur w none h).2⟩
    rcases leastFrom_mem k cur w none h with h0 | h0
    · cases h0
    · exact h0
  · rintro ⟨⟨e, he, hi, hc⟩, hle⟩
    cases hl : leastCursor k w with
    | none =>
      have := ((leastFrom_none k w none).mp hl).2 e he hi
      rw [hc] at this; cases this
    | some c0 =>
      -- both are at or below each other
      have h1 := (leastFrom_le k c0 w none hl).2 e he hi cur hc
      rcases leastFrom_mem k c0 w none hl with h0 | ⟨e0, he0, hi0, hc0⟩
      · cases h0
      · have h2 := hle e0 he0 hi0 c0 hc0
        have : c0 = cur := by
          unfold cursorLe at h1 h2
          obtain ⟨a1, a2⟩ := c0; obtain ⟨b1, b2⟩ := cur
          simp only [] at h1 h2
          have e1 : a1 = b1 := by omega
          have e2 : a2 = b2 := by omega
          rw [e1, e2]
        rw [this]

theorem leastCursor_none_iff (k : Nat) (w : List (Nat × Nat × Option Cursor)) :
    leastCursor k w = none ↔ ∀ e ∈ w, e.2.1 = k → e.2.2 = none := by
  unfold leastCursor; rw [leastFrom_none]; simp

/-- the resume point of a request `q` of a connection with outgoing window `w`, groups `sh` -/
def resumeCursor (sh : List (String × SharedGroup)) (w : List (Nat × Nat × Option Cursor)) (q : DataRequest) : Cursor :=
  match leastCursor q.filterIdx w with
  | some cur => cur
  | none => (atGroupCursor sh q).cursor

/-- the request saved for `q` -/
def savedOf (sh : List (String × SharedGroup)) (w : List (Nat × Nat × Option Cursor)) (q : DataRequest) : DataRequest :=
  rewindOne (retransmissionMap w []) (atGroupCursor sh q)

theorem savedOf_fields (sh : List (String × SharedGroup)) (w : List (Nat × Nat × Option Cursor)) (q : DataRequest) :
    (savedOf sh w q).filter = q.filter ∧ (savedOf sh w q).filterIdx = q.filterIdx ∧ (savedOf sh w q).qos = q.qos ∧
    (savedOf sh w q).group = q.group ∧ (savedOf sh w q).forwardRetained = q.forwardRetained ∧
    (savedOf sh w q).cursor = resumeCursor sh w q := by
  obtain ⟨a1, a2, a3, a4, a5⟩ := atGroupCursor_fields sh q
  obtain ⟨b1, b2, b3, b4, b5, b6⟩ := rewindOne_fields (retransmissionMap w []) (atGroupCursor sh q)
  refine ⟨b1.trans a1, b2.trans a2, b3.trans a3, b4.trans a4, b5.trans a5, ?_⟩
  unfold savedOf resumeCursor
  rw [b6, a2, retx_lookup_least]
  cases leastCursor q.filterIdx w <;> rfl

theorem savedOf_mem {s : RState} {id : Nat} {c : Conn} {q : DataRequest}
    (hq : q ∈ c.tracker.requests ++ (datalogClean s.datalog id).2) :
    savedOf s.shared c.out.inflight q ∈ savedRequests s id c := by
  unfold savedRequests savedOf
  rw [List.map_map]
  exact List.mem_map.mpr ⟨q, hq, rfl⟩

/-- the registration of a connection whose tracker is `Paused(Busy)` (a new tracker; a restored one):
    `reschedule(Init)` makes it `Ready` and puts it into the ready queue -/
theorem admit_ready {s s' : RState} {spec : ConnectSpec} (h : admitConn s spec = .ok s')
    (hfull : ¬ s.conns.len ≥ s.config.maxConnections)
    (hbusy : (newConn s spec).tracker.status = .paused .busy) :
    ∃ c', getConn s' (newId s spec) = some c' ∧ c'.tracker.status = .ready ∧ newId s spec ∈ s'.readyqueue := by
  obtain ⟨t, woke, htr, _, hget, _⟩ := admit_spec h hfull
  rw [admit_eq] at h
  simp only [hfull, if_false] at h
  split at h
  · simp at h
  · obtain ⟨c, t', woke', hc, ht, hs'⟩ := reschedule_ok h
    have hst : t.status = .ready ∧ woke = true := by
      unfold Tracker.tryReady at htr
      rw [hbusy] at htr
      simp only [if_true, Option.some.injEq, Prod.mk.injEq] at htr
      exact ⟨by rw [← htr.1], htr.2.symm⟩
    refine ⟨_, hget, hst.1, ?_⟩
    -- the conn found by `reschedule` is the one `admit_spec` describes (same slot), so `woke' = woke`
    have hget0 : getConn (admitPre s spec) (newId s spec) = some c := hc
    have hw : woke' = true := by
      have hc2 : c.tracker = (newConn s spec).tracker := by
        have : getConn (admitPre s spec) (newId s spec) =
            if newId s spec < (s.conns.insert (newConn s spec)).1.entries.length then
              some { newConn s spec with acks := { committed := [Ack.connack (newId s spec) (sessionPresent s spec)] ++
                        (newConn s spec).out.unackedPubrels.map Ack.pubrel } } else none := by
          unfold getConn admitPre newId sessionPresent
          exact slab_get_set _ _ _
        rw [this] at hget0
        split at hget0
        · simp only [Option.some.injEq] at hget0; rw [← hget0]
        · cases hget0
      rw [hc2, htr] at ht
      simp only [Option.some.injEq, Prod.mk.injEq] at ht
      rw [← ht.2]; exact hst.2
    subst hs'
    simp [hw]
    exact Or.inr rfl

end Router
