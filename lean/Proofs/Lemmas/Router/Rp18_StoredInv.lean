/-
C20 — the commit-log-contents invariant (round 12): sweeps, `consume`, CONNECT, `step`; what a sweep reads
is stored (`StoredP`), hence `StoredOk`; the frame limit from the payload bound.
-/
import Proofs.Lemmas.Router.Rp18_StoredPackets
namespace Router
open Encode Codec

/-! ### sweeps and `consume` -/

theorem fdRetained_grow {n : Option Nat} {s s' : RState} {req : DataRequest} {slots slots' : Nat} {ps : List (Pub × Option Cursor)}
    (h : fdRetained s req slots = .ok (s', ps, slots')) : Grow n s s' := by
  unfold fdRetained at h
  split at h
  · split at h
    · simp at h
    · rename_i s1 ps1 h1
      simp only [Except.ok.injEq, Prod.mk.injEq] at h; obtain ⟨rfl, _⟩ := h
      exact readRetained_grow h1
  · simp only [Except.ok.injEq, Prod.mk.injEq] at h; obtain ⟨rfl, _⟩ := h; exact Grow.refl _ _

theorem fdPush_grow {n : Option Nat} {s0 s1 : RState} {id : Nat} {c : Conn} {req' req1 : DataRequest} {grp : Option SharedGroup}
    {pubs : List (Pub × Option Cursor)} {cu : Bool} {st : ConsumeStatus} (hc0 : getConn s0 id = some c)
    (h : fdPush s0 id c req' grp pubs cu = .ok (s1, req1, st)) : Grow n s0 s1 := by
  unfold fdPush at h
  simp only [] at h
  split at h
  · simp at h
  · rename_i s3 h3
    have b : Grow n s0 (pushNotifs (setConn s0 id { c with out := (fdOut c req' pubs).1, brokerAliases := (fdAliases c req'.filter).1 })
        c.link (fdOut c req' pubs).2) :=
      Grow.of_set (c' := { c with out := (fdOut c req' pubs).1, brokerAliases := (fdAliases c req'.filter).1 }) hc0 rfl
        rfl rfl rfl rfl rfl
    have key : Grow n s0 s3 := by
      unfold fdGroupUpd at h3
      split at h3
      · split at h3
        · simp only [Except.ok.injEq] at h3; subst h3; exact b
        · split at h3
          · simp at h3
          · rename_i s4 g2 hu
            simp only [Except.ok.injEq] at h3; subst h3
            exact (b.trans (updateNextClient_grow hu)).trans (Grow.of_fields rfl rfl rfl rfl)
      · simp only [Except.ok.injEq] at h3; subst h3; exact b
    split at h
    all_goals
      simp only [Except.ok.injEq, Prod.mk.injEq] at h; obtain ⟨rfl, _, _⟩ := h
      refine key.trans (Grow.of_fields ?_ ?_ ?_ ?_) <;> (simp only [wakeLink]; rfl)

theorem forwardDeviceData_grow {n : Option Nat} {s s1 : RState} {id : Nat} {req req1 : DataRequest} {st : ConsumeStatus}
    (hf : forwardDeviceData s id req = .ok (s1, req1, st)) : Grow n s s1 := by
  obtain ⟨c, hc⟩ : ∃ c, getConn s id = some c := by
    cases hg : getConn s id with
    | none => rw [Router.forwardDeviceData_eq, hg] at hf; simp at hf
    | some c => exact ⟨c, rfl⟩
  rcases sweep_branches hc hf with ⟨rfl, _⟩ | ⟨_, s0, rp, slots, fd, h0, _, hcase⟩
  · exact Grow.refl _ _
  · have a := fdRetained_grow (n := n) h0
    have hc0 : getConn s0 id = some c := by rw [(Rp3.fdRetained_only_oracle h0).1]; exact hc
    rcases hcase with ⟨_, rfl, _⟩ | ⟨_, _, _, rfl, _⟩ | ⟨_, hp⟩
    · exact a
    · exact a
    · exact a.trans (fdPush_grow hc0 hp)

theorem consumeLoop_grow {n : Option Nat} {id : Nat} : ∀ (fuel : Nat) {s s' : RState} {requests skipped : List DataRequest},
    consumeLoop s id fuel requests skipped = .ok s' → Grow n s s'
  | 0, s, s', requests, skipped, hc => by
    simp only [consumeLoop] at hc
    exact trackv_grow hc
  | fuel + 1, s, s', requests, skipped, hc => by
    cases requests with
    | nil =>
      simp only [consumeLoop] at hc
      split at hc
      · simp at hc
      · rename_i s1 h1
        have a : Grow n s s1 := by
          split at h1
          · exact pause_grow h1
          · simp only [Except.ok.injEq] at h1; subst h1; exact Grow.refl _ _
        exact a.trans (trackv_grow hc)
    | cons req rest =>
      simp only [consumeLoop] at hc
      split at hc
      · simp at hc
      · rename_i s1 req1 st h1
        have h2 : Grow n s (noteTurn s s1 req1) := (forwardDeviceData_grow h1).trans (noteTurn_grow s s1 req1)
        split at hc
        · split at hc
          · simp at hc
          · rename_i s3 h3
            exact h2.trans ((pause_grow h3).trans (trackv_grow hc))
        · split at hc
          · simp at hc
          · rename_i s3 h3
            exact h2.trans ((pause_grow h3).trans (trackv_grow hc))
        · split at hc
          · simp at hc
          · rename_i s3 h3
            exact (h2.trans (park_grow h3)).trans (consumeLoop_grow fuel hc)
        · exact h2.trans (consumeLoop_grow fuel hc)
        · exact h2.trans (consumeLoop_grow fuel hc)

/-- `consume` stores nothing -/
theorem consume_grow {n : Option Nat} {s s' : RState} {b : Bool} (hc : consume s = .ok (s', b)) : Grow n s s' := by
  unfold consume at hc
  split at hc
  · simp only [Except.ok.injEq, Prod.mk.injEq] at hc; obtain ⟨rfl, _⟩ := hc
    exact Grow.of_fields rfl rfl rfl rfl
  · rename_i id rq hrq
    simp only [] at hc
    split at hc
    · simp only [Except.ok.injEq, Prod.mk.injEq] at hc; obtain ⟨rfl, _⟩ := hc
      exact Grow.of_fields rfl rfl rfl rfl
    · rename_i c hcn
      split at hc
      · simp at hc
      · rename_i s1 h1
        split at hc
        · simp at hc
        · rename_i s2 h2
          simp only [Except.ok.injEq, Prod.mk.injEq] at hc; obtain ⟨rfl, _⟩ := hc
          have hcn' : getConn s id = some c := hcn
          have la : Grow n s ({ setConn { s with readyqueue := rq } id { c with tracker := { c.tracker with requests := [] } }
              with readyqueue := (setConn { s with readyqueue := rq } id { c with tracker := { c.tracker with requests := [] } }).readyqueue ++ [id] } : RState) :=
            Grow.of_set (c' := { c with tracker := { c.tracker with requests := [] } }) hcn' rfl rfl rfl rfl rfl rfl
          exact ((la.trans (ackDeviceData_grow _ id)).trans (consumeLoop_grow _ h1)).trans (wakeTurnMoved_grow h2)

/-! ### CONNECT -/

theorem Slab.get?_insert_cases {α : Type} (s : Slab α) (a : α) (j : Nat) (d : α) (h : (s.insert a).1.get? j = some d) :
    d = a ∨ s.get? j = some d := by
  unfold Slab.insert at h
  split at h
  · simp only [Slab.get?] at h ⊢
    by_cases hj : j < s.entries.length
    · rw [List.getElem?_append_left hj] at h; exact .inr h
    · by_cases he : j = s.entries.length
      · subst he; simp at h; exact .inl h.symm
      · rw [List.getElem?_eq_none (by simp; omega)] at h; simp at h
  · rename_i k r hf
    simp only [Slab.get?] at h ⊢
    rw [List.getElem?_set] at h
    split at h
    · split at h
      · simp at h; exact .inl h.symm
      · simp at h
    · exact .inr h

theorem Slab.get?_set_cases {α : Type} (s : Slab α) (k : Nat) (a : α) (j : Nat) (d : α) (h : (s.set k a).get? j = some d) :
    d = a ∨ s.get? j = some d := by
  rw [Slab.get?_set] at h
  split at h
  · simp only [Option.some.injEq] at h; exact .inl h.symm
  · exact .inr h

theorem foldl_g_wills (f : Ack → Ghost) : ∀ (acks : List Ack) (s : RState),
    (acks.foldl (fun s a => s.g (f a)) s).lastWills = s.lastWills
  | [], _ => rfl
  | a :: r, s => by
    simp only [List.foldl_cons]
    exact foldl_g_wills f r (s.g (f a))

theorem hnPre_wills (s : RState) (spec : ConnectSpec) :
    (hnPre s spec).lastWills = (hnWill { s with graveyard := aremove spec.clientId s.graveyard } spec).lastWills := by
  unfold hnPre
  simp only []
  rw [foldl_g_wills]
  split <;> rfl

/-- the registration stores the will of the CONNECT, if there is one (in range by `OpOkD`); the new
    connection has nothing recorded and no aliases -/
theorem hnRegister_grow {n : Option Nat} {s s' : RState} {spec : ConnectSpec}
    (hw : ∀ w, spec.will = some w → WillP n w) (h : hnRegister s spec = .ok s') : Grow n s s' := by
  obtain ⟨_, hre⟩ := hnRegister_ok h
  obtain ⟨e1, _, _⟩ := hnPre_core s spec
  obtain ⟨d1, _, _, _⟩ := hnPre_fields s spec
  have h0 : Grow n s (hnPre s spec) := by
    refine ⟨fun p h => .inr ?_, fun p h => .inr ?_, fun p h => .inr ?_, fun t h => .inr ?_, fun w h => ?_⟩
    · unfold InLogs at h ⊢; rw [d1] at h; exact h
    · unfold InRetained at h ⊢; rw [d1] at h; exact h
    · obtain ⟨j, c, h1, h2⟩ := h
      unfold getConn at h1; rw [e1] at h1
      rcases Slab.get?_set_cases _ _ _ _ _ h1 with rfl | h3
      · cases h2
      · rcases Slab.get?_insert_cases _ _ _ _ h3 with rfl | h4
        · unfold hnConn at h2; cases h2
        · exact ⟨j, c, h4, h2⟩
    · obtain ⟨j, c, a, h1, h2⟩ := h
      unfold getConn at h1; rw [e1] at h1
      rcases Slab.get?_set_cases _ _ _ _ _ h1 with rfl | h3
      · cases h2
      · rcases Slab.get?_insert_cases _ _ _ _ h3 with rfl | h4
        · unfold hnConn at h2; cases h2
        · exact ⟨j, c, a, h4, h2⟩
    · obtain ⟨cid, hc⟩ := h
      rw [hnPre_wills] at hc
      unfold hnWill at hc
      split at hc
      · rename_i w0 hw0
        have hc' : (cid, w) ∈ ainsert spec.clientId w0 s.lastWills := hc
        rcases mem_ainsert hc' with h1 | h1
        · exact .inr ⟨cid, h1⟩
        · simp only [Prod.mk.injEq] at h1; obtain ⟨_, rfl⟩ := h1
          exact .inl (hw w hw0)
      · exact .inr ⟨cid, hc⟩
  exact h0.trans (reschedule_grow hre)

theorem handleNewConnection_grow {n : Option Nat} {s s' : RState} {spec : ConnectSpec}
    (hw : ∀ w, spec.will = some w → WillP n w) (h : handleNewConnection s spec = .ok s') : Grow n s s' := by
  rw [Router.handleNewConnection_eq] at h
  simp only [] at h
  have g0 : Grow n s (setLink s spec.link {}) := Grow.of_fields rfl rfl rfl rfl
  split at h
  · simp only [Except.ok.injEq] at h; subst h
    exact g0.trans (Grow.of_fields rfl rfl rfl rfl)
  · split at h
    · simp at h
    · rename_i s1 h1
      have g1 : Grow n s s1 := by
        unfold hnTakeover at h1
        split at h1
        · exact g0.trans (handleDisconnection_grow h1)
        · simp only [Except.ok.injEq] at h1; subst h1; exact g0
      split at h
      · simp only [Except.ok.injEq] at h; subst h
        exact g1.trans (Grow.of_fields rfl rfl rfl rfl)
      · exact g1.trans (hnRegister_grow hw h)

/-! ### `step` -/

theorem OpOkD_will {n : Option Nat} {spec : ConnectSpec} (h : OpOkD n (.connect spec) = true) :
    ∀ w, spec.will = some w → WillP n w := by
  intro w hw
  simp only [OpOkD, Bool.and_eq_true, hw] at h
  exact willOk_willP h.2

/-- goal 2 (relation form): one step whose op is in range (`OpOkD`), taken while the packets waiting in the
    links' incoming buffers are in range (`IbufOkD`) and everything stored is in range, stores only items in
    range. No reachability hypothesis is needed. -/
theorem step_grow {n : Option Nat} {s s' : RState} {op : Op} {out : Out} (h : LogsOk n s) (hib : IbufOkD n s)
    (hop : OpOkD n op = true) (hs : step s op = .ok (s', out)) : Grow n s s' := by
  cases step_cases hs with
  | connect spec hc => exact handleNewConnection_grow (OpOkD_will hop) hc
  | push l p hcore =>
    simp only [step] at hs
    split at hs
    · simp only [Except.ok.injEq, Prod.mk.injEq] at hs; obtain ⟨rfl, _⟩ := hs
      exact Grow.of_fields rfl rfl rfl rfl
    · simp only [Except.ok.injEq, Prod.mk.injEq] at hs; obtain ⟨rfl, _⟩ := hs; exact Grow.refl _ _
  | drain l hcore =>
    simp only [step] at hs
    split at hs
    · split at hs
      · simp only [Except.ok.injEq, Prod.mk.injEq] at hs; obtain ⟨rfl, _⟩ := hs
        exact Grow.of_fields rfl rfl rfl rfl
      · simp only [Except.ok.injEq, Prod.mk.injEq] at hs; obtain ⟨rfl, _⟩ := hs; exact Grow.refl _ _
    · simp only [Except.ok.injEq, Prod.mk.injEq] at hs; obtain ⟨rfl, _⟩ := hs; exact Grow.refl _ _
  | consume b hc => exact consume_grow hc
  | event id ev he =>
    cases ev with
    | deviceData => exact handleDevicePayload_grow h (fun c _ => hib c.link) he
    | ready =>
      simp only [events] at he
      split at he
      · exact reschedule_grow he
      · simp only [Except.ok.injEq] at he; subst he; exact Grow.refl _ _
    | disconnect => exact handleDisconnection_grow (id := id) (r := none) he
    | publishWill w =>
      have he' : handleLastWill s w = .ok s' := he
      exact handleLastWill_grow h.wills he'
    | shadow f =>
      have he' : handleShadow s id f = .ok s' := he
      exact handleShadow_grow he'
    | sendMeters => simp only [events, Except.ok.injEq] at he; subst he; exact Grow.refl _ _
    | sendAlerts => simp only [events, Except.ok.injEq] at he; subst he; exact Grow.refl _ _

theorem LogsOk.oracle {n : Option Nat} {s : RState} (h : LogsOk n s) (ch : List Choice) : LogsOk n { s with oracle := ch } :=
  h.grow (Grow.of_fields rfl rfl rfl rfl)

/-- goal 2: `step` (in the oracle-update form `run` uses) keeps `LogsOk`, given `IbufOkD` and `OpOkD` -/
theorem step_logsOk {n : Option Nat} {s s' : RState} {ch : List Choice} {op : Op} {out : Out} (h : LogsOk n s)
    (hib : IbufOkD n s) (hop : OpOkD n op = true) (hs : step { s with oracle := ch } op = .ok (s', out)) : LogsOk n s' :=
  (h.oracle ch).grow (step_grow (h.oracle ch) (s := { s with oracle := ch }) hib hop hs)

/-- without a payload bound the hypotheses are those of `step_connsOk` (`IbufOk`, `OpOkC`) plus the range of
    the will of a CONNECT, which `OpOkC` does not cover -/
theorem step_logsOk_none {s s' : RState} {ch : List Choice} {op : Op} {out : Out} (h : LogsOk none s)
    (hib : IbufOk s) (hop : OpOkC op = true)
    (hwill : ∀ spec w, op = .connect spec → spec.will = some w → w.qos ≤ 2 ∧ w.topic.length ≤ 65535)
    (hs : step { s with oracle := ch } op = .ok (s', out)) : LogsOk none s' := by
  refine step_logsOk h ((IbufOkD_none s).mpr hib) ?_ hs
  simp only [OpOkD, hop, Bool.true_and]
  cases op with
  | push l pkt =>
    simp only [PacketOkD_none]
    exact hop
  | connect spec =>
    show (match spec.will with | some w => willOk none w | none => true) = true
    cases hw : spec.will with
    | none => rfl
    | some w =>
      obtain ⟨h1, h2⟩ := hwill spec w rfl hw
      simp [willOk, fits, h1, h2]
  | event id ev => rfl
  | consume => rfl
  | drain l => rfl

/-! ### goal 3: what a sweep reads is stored -/

theorem readRetained_stored {n : Option Nat} {s s' : RState} {f : String} {ps : List Pub} (h : LogsOk n s)
    (hr : readRetained s f = .ok (s', ps)) : ∀ p ∈ ps, StoredP n p := by
  unfold readRetained at hr
  simp only [] at hr
  split at hr
  · split at hr
    · simp only [Except.ok.injEq, Prod.mk.injEq] at hr; obtain ⟨_, rfl⟩ := hr
      intro p hp
      obtain ⟨t, _, ht⟩ := List.mem_filterMap.mp hp
      exact h.retained p ⟨t, mem_of_alookup ht⟩
    · simp at hr
  · simp at hr

/-- the retained half of what a sweep forwards: retained messages of the state -/
theorem fdRetained_stored {n : Option Nat} {s s0 : RState} {req : DataRequest} {slots slots' : Nat}
    {rp : List (Pub × Option Cursor)} (h : LogsOk n s) (h0 : fdRetained s req slots = .ok (s0, rp, slots')) :
    ∀ pc ∈ rp, StoredP n pc.1 := by
  unfold fdRetained at h0
  split at h0
  · split at h0
    · simp at h0
    · rename_i s1 ps1 h1
      simp only [Except.ok.injEq, Prod.mk.injEq] at h0; obtain ⟨_, rfl, _⟩ := h0
      intro pc hpc
      obtain ⟨p, hp, rfl⟩ := List.mem_map.mp hpc
      exact readRetained_stored h h1 p (List.mem_of_mem_take hp)
  · simp only [Except.ok.injEq, Prod.mk.injEq] at h0; obtain ⟨_, rfl, _⟩ := h0
    intro pc hpc; cases hpc

/-- the publishes one sweep is built from (`publishes` of `forward_device_data`: the retained replay, then
    the entries `readv` returns from the filter's log) are stored publishes, hence `StoredP` -/
theorem sweep_pubs_stored {n : Option Nat} {s s0 : RState} {req : DataRequest} {slots slots' : Nat}
    {rp : List (Pub × Option Cursor)} {i : Nat} {fd : FilterData} (h : LogsOk n s)
    (h0 : fdRetained s req slots = .ok (s0, rp, slots')) (hfd : s.datalog.native[i]? = some fd) (cur : Cursor) (k : Nat) :
    ∀ pc ∈ rp ++ (fd.log.readv cur k).1.map (fun e => (e.1, some e.2)), StoredP n pc.1 := by
  intro pc hpc
  rcases List.mem_append.mp hpc with h1 | h1
  · exact fdRetained_stored h h0 pc h1
  · obtain ⟨e, he, rfl⟩ := List.mem_map.mp h1
    exact h.logs e.1 ⟨fd.log, List.mem_map.mpr ⟨fd, List.mem_of_getElem? hfd, rfl⟩, readv_logItems fd.log cur k e he⟩

/-- goal 3: a sweep (`forward_device_data` for a live connection) either leaves every link buffer as it is,
    or is the push phase `fdPush` — which appends exactly `(fdOut c req' pubs).2` and possibly `Unschedule` to
    the connection's link — for a list `pubs` of stored publishes -/
theorem forwardDeviceData_pubs_stored {n : Option Nat} {s s1 : RState} {id : Nat} {c : Conn} {req req1 : DataRequest}
    {st : ConsumeStatus} (h : LogsOk n s) (hc : getConn s id = some c)
    (hf : forwardDeviceData s id req = .ok (s1, req1, st)) :
    s1.links = s.links ∨
    ∃ s0 req' grp pubs cu, s0 = { s with oracle := s0.oracle } ∧ req'.qos = req.qos ∧
      fdPush s0 id c req' grp pubs cu = .ok (s1, req1, st) ∧ ∀ pc ∈ pubs, StoredP n pc.1 := by
  rcases sweep_branches hc hf with ⟨rfl, _⟩ | ⟨_, s0, rp, slots, fd, h0, hfd, hcase⟩
  · exact .inl rfl
  · have e0 := (Rp3.fdRetained_only_oracle h0).1
    rcases hcase with ⟨_, rfl, _⟩ | ⟨_, _, _, rfl, _⟩ | ⟨_, hp⟩
    · exact .inl (by rw [e0])
    · exact .inl (by rw [e0])
    · refine .inr ⟨s0, _, _, _, _, e0, ?_, hp, sweep_pubs_stored h h0 hfd _ _⟩
      unfold fdReq1; cases fdGrp s req <;> rfl

/-! ### from `StoredP` to the hypotheses of `sweep_forwards_emittable_reachable_partial` -/

/-- `StoredOk` for the pass-through properties `extra` of a stored publish: the model records of them only
    whether there are any (`hasProps`); a publish stored without properties has none -/
theorem StoredP.storedOk {n : Option Nat} {p : Pub} (h : StoredP n p) {extra : Props}
    (hx : p.hasProps = true ∨ extra = []) : StoredOk p extra = true := by
  rw [StoredOk_eq, h.core, Bool.true_and]
  rcases hx with hx | hx
  · simp [hx]
  · simp [hx]

end Router
