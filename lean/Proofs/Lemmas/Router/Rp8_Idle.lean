/-
C01 / C09: where the request of a subscription is in a reachable state — tracked (then the connection
is ready and queued, or waits for its own client), or parked (a non-shared one: at the end of its log).
-/
import Proofs.Lemmas.Router.Rp8_Reach
namespace Router
open Router.Rp3
open CommitLog (Rep logC Issued U64 cursorAbs)

theorem subscription_state {cfg : Config} (h1 : 1 ≤ cfg.maxSegmentSize) (h2 : 1 ≤ cfg.maxSegmentCount)
    (hpos : 0 < cfg.maxOutgoingPacketCount) {s : RState} (hr : Reachable cfg s) (hno : NoOverflow s)
    {id : Nat} {c : Conn} (hc : getConn s id = some c) {f : String} (hf : f ∈ c.subscriptions) :
    (∃ r ∈ c.tracker.requests, r.filter = f) ∨
    ∃ (i : Nat) (fd : FilterData) (hist : List Pub) (r : DataRequest),
      s.datalog.filterIdx? (logPath f) = some i ∧ s.datalog.native[i]? = some fd ∧ Rep (logC fd.log) hist ∧
      (id, r) ∈ fd.waiters ∧ r.filter = f ∧ r.filterIdx = i ∧ r.group = (extractGroup f).map (·.1) ∧
      Issued (logC fd.log) r.cursor ∧
      (extractGroup f = none →
        (logC fd.log).head ≤ r.cursor.1 ∧ r.cursor.2 = hist.length ∧
        ∀ n, n ≤ MAX_INFLIGHT + s.config.maxOutgoingPacketCount → (fd.log.readv r.cursor n).1 = []) := by
  have hq := QI.reachable h1 h2 hpos hr hno
  have hcs := CS.reachable h1 h2 hr hno
  have hi := reachable_inv h1 h2 hr
  have h3 := Inv3.reachable hr
  obtain ⟨hK, hW, _⟩ := (RC.iff s).mp h3.rc
  have hn : s.notifications = [] := h3.inv2.binv.2
  have hf' : f ∈ subsOf s id := by unfold subsOf; rw [hc]; exact hf
  obtain ⟨r, hown, hrf⟩ := hq.cover id f hf'
  have hg := hq.gt id r hown
  rcases hown with ⟨c', hc', hm⟩ | ⟨i, fd, hfd, hm⟩ | hnot
  · rw [hc] at hc'; cases hc'; exact .inl ⟨r, hm, hrf⟩
  · right
    have hidx : r.filterIdx = i := hW i fd hfd (id, r) hm
    have hkey : r.key ∈ keysOf s id := by
      unfold keysOf
      exact List.mem_append_left _ (List.mem_append_right _
        (mem_waiterKeys.mpr ⟨fd, List.mem_of_getElem? hfd, (id, r), hm, rfl, rfl⟩))
    have hko : KeyOK s.datalog.filterIndexes r.key := hK.idx id _ hkey
    obtain ⟨hist, hrep⟩ := hi.logs fd.log (List.mem_map.mpr ⟨fd, List.mem_of_getElem? hfd, rfl⟩)
    obtain ⟨⟨fd', hfd', hiss⟩, _⟩ := hcs.req r (.inr (.inl ⟨fd, List.mem_of_getElem? hfd, (id, r), hm, rfl⟩))
    rw [hidx, hfd] at hfd'; cases hfd'
    have hU := hno fd (List.mem_of_getElem? hfd) hist hrep
    refine ⟨i, fd, hist, r, ?_, hfd, hrep, hm, hrf, hidx, by unfold GT at hg; rw [hg, hrf], hiss, fun hplain => ?_⟩
    · unfold KeyOK DataRequest.key at hko
      simp only [] at hko
      unfold DataLog.filterIdx?
      rw [← hrf, hko, hidx]
    · have hgn : r.group = none := by unfold GT at hg; rw [hg, hrf, hplain]; rfl
      have hend := hq.pe i fd hfd (id, r) hm hgn
      exact ⟨hend.1, by rw [hend.2, hrep.nextAbs_eq],
        fun n hn => read_at_end_empty fd hist hrep r.cursor hiss hend n (by omega)⟩
  · unfold Notified at hnot; rw [hn] at hnot; cases hnot

/-- the status of a connection that tracks a request -/
theorem tracking_status {cfg : Config} {s : RState} (hr : Reachable cfg s) {id : Nat} {c : Conn}
    (hc : getConn s id = some c) (hne : c.tracker.requests ≠ []) :
    (c.tracker.status = .ready ∧ id ∈ s.readyqueue) ∨
    (c.tracker.status = .paused .inflightFull ∧ c.out.inflight.length = MAX_INFLIGHT) ∨
    c.tracker.status = .paused .busy := by
  have hs := SI.reachable hr
  have hout := (Inv1.reachable hr).out id c hc
  obtain ⟨a, b⟩ := hs.ci id c hc
  cases hst : c.tracker.status with
  | ready => exact .inl ⟨rfl, hs.rq id c hc hst⟩
  | paused p =>
    cases p with
    | caughtup => exact absurd (a hst) hne
    | inflightFull => exact .inr (.inl ⟨rfl, Nat.le_antisymm hout.1 (b hst)⟩)
    | busy => exact .inr (.inr rfl)

end Router
