/-
C06 "replies are not withheld at idle": a live connection that is `Paused(Caughtup)` has an empty ack
log (`acks.committed = []`) — every reply it was owed has been written to its link buffer. Relation
`ARel` (no connection appears; none becomes `Paused(Caughtup)`; an empty ack log stays empty),
primitive operations.
-/
import Proofs.Lemmas.Router.Rp10_Reach
namespace Router

/-- per connection, with an excuse `P` (used inside a batch: the reschedule / disconnection is still to come) -/
def ACIx (c : Conn) (P : Prop) : Prop := c.tracker.status = .paused .caughtup → c.acks.committed = [] ∨ P

/-- inside the handling of a batch of connection `id`: the excuse `P` applies to `id` only -/
def AIx (s : RState) (id : Nat) (P : Prop) : Prop := ∀ j c, getConn s j = some c → ACIx c (j = id ∧ P)

/-- `Paused(Caughtup)` ⇒ no reply pending -/
def AI (s : RState) : Prop := ∀ j c, getConn s j = some c → c.tracker.status = .paused .caughtup → c.acks.committed = []

theorem AI.toX {s : RState} (h : AI s) (id : Nat) (P : Prop) : AIx s id P := fun j c hc e => .inl (h j c hc e)
theorem AIx.toAI {s : RState} {id : Nat} {P : Prop} (h : AIx s id P) (hp : ¬ P) : AI s := fun j c hc e => by
  rcases h j c hc e with h' | ⟨_, h'⟩
  · exact h'
  · exact absurd h' hp

theorem AIx.weaken {s : RState} {id : Nat} {P Q : Prop} (h : AIx s id P) (hpq : P → Q) : AIx s id Q :=
  fun j c hc e => (h j c hc e).imp (fun x => x) fun ⟨a, b⟩ => ⟨a, hpq b⟩

def AKeep (c c' : Conn) : Prop :=
  (c'.tracker.status = .paused .caughtup → c.tracker.status = .paused .caughtup) ∧
  (c.acks.committed = [] → c'.acks.committed = [])

theorem AKeep.refl (c : Conn) : AKeep c c := ⟨fun h => h, fun h => h⟩
theorem AKeep.trans {a b c : Conn} (h1 : AKeep a b) (h2 : AKeep b c) : AKeep a c :=
  ⟨fun h => h1.1 (h2.1 h), fun h => h2.2 (h1.2 h)⟩

/-- no connection appears; none becomes `Paused(Caughtup)`; an empty ack log stays empty -/
def ARel (s s' : RState) : Prop := ∀ j c', getConn s' j = some c' → ∃ c, getConn s j = some c ∧ AKeep c c'

theorem ARel.refl (s : RState) : ARel s s := fun _ c' h => ⟨c', h, AKeep.refl _⟩
theorem ARel.trans {a b c : RState} (h1 : ARel a b) (h2 : ARel b c) : ARel a c := fun j c' h => by
  obtain ⟨cb, hb, kb⟩ := h2 j c' h
  obtain ⟨ca, ha, ka⟩ := h1 j cb hb
  exact ⟨ca, ha, ka.trans kb⟩

theorem AIx.rel {s s' : RState} {id : Nat} {P : Prop} (h : AIx s id P) (m : ARel s s') : AIx s' id P := fun j c' hc' e => by
  obtain ⟨c, hc, k⟩ := m j c' hc'
  exact (h j c hc (k.1 e)).imp k.2 (fun x => x)

theorem AI.rel {s s' : RState} (h : AI s) (m : ARel s s') : AI s' := fun j c' hc' e => by
  obtain ⟨c, hc, k⟩ := m j c' hc'
  exact k.2 (h j c hc (k.1 e))

theorem ARel.of_conns {s s' : RState} (hc : s'.conns = s.conns) (_hq : s'.readyqueue = s.readyqueue) : ARel s s' :=
  fun j c' h => ⟨c', by unfold getConn at h ⊢; rw [← hc]; exact h, AKeep.refl _⟩

theorem ARel.of_set {s s' : RState} {id : Nat} {c c' : Conn} (hc : getConn s id = some c)
    (hconns : s'.conns = s.conns.set id c') (hk : AKeep c c') (_hq : s'.readyqueue = s.readyqueue) : ARel s s' := by
  have hget : ∀ j, getConn s' j = if j = id then some c' else getConn s j := fun j => by
    unfold getConn; rw [hconns]; exact Slab.get?_set_live hc j c'
  intro j d hd
  rw [hget] at hd
  by_cases hj : j = id
  · subst hj; simp only [if_true, Option.some.injEq] at hd; subst hd; exact ⟨c, hc, hk⟩
  · simp only [hj, if_false] at hd; exact ⟨d, hd, AKeep.refl d⟩

/-- a connection replaced: the invariant (with excuse) for the new record is given -/
theorem AIx.set {s s' : RState} {id k : Nat} {P : Prop} {c c' : Conn} (h : AIx s k P) (hc : getConn s id = some c)
    (hconns : s'.conns = s.conns.set id c') (hci : ACIx c' (id = k ∧ P)) : AIx s' k P := by
  have hget : ∀ j, getConn s' j = if j = id then some c' else getConn s j := fun j => by
    unfold getConn; rw [hconns]; exact Slab.get?_set_live hc j c'
  intro j d hd
  rw [hget] at hd
  by_cases hj : j = id
  · subst hj; simp only [if_true, Option.some.injEq] at hd; subst hd; exact hci
  · simp only [hj, if_false] at hd; exact h j d hd

theorem reschedule_arel {s s' : RState} {id : Nat} {r : SchedReason} (hr : reschedule s id r = .ok s') : ARel s s' := by
  cases hc : getConn s id with
  | none => unfold reschedule at hr; rw [hc] at hr; simp at hr
  | some c =>
    obtain ⟨c', hc', _, _, est, _, _, hoth, _, _⟩ := reschedule_spec hc hr
    have hacks : c'.acks = c.acks := by
      unfold reschedule at hr
      rw [hc] at hr
      simp only [] at hr
      split at hr
      · simp at hr
      · rename_i t woke ht
        simp only [Except.ok.injEq] at hr
        have : getConn s' id = some { c with tracker := t } := by
          rw [← hr]; split <;> exact (getConn_setConn_live hc _ id).trans (by simp)
        rw [hc'] at this; cases this; rfl
    intro j d hd
    by_cases hj : j = id
    · subst hj; rw [hc'] at hd; cases hd
      refine ⟨c, hc, fun e => ?_, fun e => by rw [hacks]; exact e⟩
      rcases est with e' | e'
      · rw [e'] at e; cases e
      · rw [← e']; exact e
    · rw [hoth j hj] at hd; exact ⟨d, hd, AKeep.refl d⟩

/-- after a reschedule for fresh data / an ack the connection is not `Paused(Caughtup)` -/
theorem reschedule_discharges {s s' : RState} {id : Nat} {r : SchedReason} {P : Prop} (h : AIx s id P)
    (hr : reschedule s id r = .ok s') (hrs : r = .freshData ∨ r = .newFilter ∨ r = .incomingAck) : AI s' := by
  cases hc : getConn s id with
  | none => unfold reschedule at hr; rw [hc] at hr; simp at hr
  | some c =>
    obtain ⟨c', hc', _, _, _, hn1, _⟩ := reschedule_spec hc hr
    have m := reschedule_arel hr
    intro j d hd e
    by_cases hj : j = id
    · subst hj; rw [hc'] at hd; cases hd; exact absurd e (hn1 hrs)
    · rcases (h.rel m) j d hd e with h' | ⟨h', _⟩
      · exact h'
      · exact absurd h' hj

end Router
