/-
The liveness invariant `GL` through SUBSCRIBE, UNSUBSCRIBE and a batch of packets.
-/
import Proofs.Lemmas.Router.Rp9_Consume
namespace Router
open Router.Rp3
open CommitLog (Rep logC Issued U64 cursorAbs)

theorem nextNativeOffset_lstep (s : RState) (filter : String) : LStep s (nextNativeOffset s filter).1 := by
  unfold nextNativeOffset
  split
  · exact LStep.refl s
  · rename_i hnone
    simp only []
    refine ⟨⟨fun id c' h => .inl ⟨c', h, rfl⟩, fun i id r h => ?_, fun i h => h, fun f i h => ?_, fun i fd h => ?_⟩, rfl⟩
    · obtain ⟨fd, hfd, hm⟩ := h
      simp only [List.getElem?_append] at hfd
      split at hfd
      · exact ⟨fd, hfd, hm⟩
      · by_cases e : i - s.datalog.native.length = 0
        · simp only [e, List.getElem?_cons_zero, Option.some.injEq] at hfd; subst hfd; simp at hm
        · rw [List.getElem?_eq_none (by simp; omega)] at hfd; simp at hfd
    · unfold DataLog.filterIdx? at h ⊢
      simp only [] at h
      rw [alookup_append] at h
      cases ho : alookup f s.datalog.filterIndexes with
      | some j => rw [ho] at h; exact .inl h
      | none =>
        rw [ho] at h
        right
        intro id r hp
        simp only [Option.none_or, alookup] at h
        split at h
        · simp only [Option.some.injEq] at h; subst h
          obtain ⟨fd, hfd, hm⟩ := hp
          simp only [List.getElem?_append, Nat.lt_irrefl, if_false, Nat.sub_self, List.getElem?_cons_zero,
            Option.some.injEq] at hfd
          subst hfd; simp at hm
        · cases h
    · have hlt : i < s.datalog.native.length := by
        rcases Nat.lt_or_ge i s.datalog.native.length with h' | h'
        · exact h'
        · rw [List.getElem?_eq_none h'] at h; cases h
      exact ⟨fd, by simp only [List.getElem?_append, hlt, if_true]; exact h, .inl rfl⟩

theorem nextNativeOffset_idx (s : RState) (filter : String) :
    (nextNativeOffset s filter).1.datalog.filterIdx? filter = some (nextNativeOffset s filter).2.1 := by
  unfold nextNativeOffset
  split
  · rename_i idx hidx; exact hidx
  · rename_i hnone
    have hnone' : alookup filter s.datalog.filterIndexes = none := hnone
    show alookup filter (s.datalog.filterIndexes ++ [(filter, s.datalog.native.length)]) = _
    rw [alookup_append, hnone']; simp [alookup]

/-- the key of a shared subscription's group has the form `<share>/<path>` -/
theorem extractGroup_key_wf {f g p : String} (h : extractGroup f = some (g, p)) : (g.toList.idxOf? '/').isSome = true := by
  unfold extractGroup at h
  simp only [] at h
  split at h
  · split at h
    · cases h
    · rename_i i hi
      simp only [Option.some.injEq, Prod.mk.injEq] at h
      obtain ⟨rfl, _⟩ := h
      simp only [String.toList_ofList]
      rw [hi]; rfl
  · cases h

/-- what `prepare_filter` does as far as `GL` reads the state -/
theorem prepareFilter_shared {s s' : RState} {id : Nat} {cursor : Cursor} {idx : Nat} {f : SubFilter}
    {group : Option String} {subId : Option Nat} {c : Conn} (hc : getConn s id = some c)
    (h : prepareFilter s id cursor idx f group subId = .ok s') :
    LMono s s' ∧ s'.shared = pfShared s cursor c.clientId group := by
  rw [prepareFilter_eq, hc] at h
  simp only [] at h
  have m0 : LMono s (pfState s id cursor f.path group c.clientId) := LMono.of_conns rfl rfl rfl rfl
  have hc1 : getConn (pfState s id cursor f.path group c.clientId) id = some c := hc
  have hcid : ∀ subs, ({ pfConn c f.path subId with subscriptions := subs } : Conn).clientId = c.clientId := fun _ => by
    cases subId <;> rfl
  have hcid0 : (pfConn c f.path subId).clientId = c.clientId := by cases subId <;> rfl
  split at h
  · simp only [Except.ok.injEq] at h; subst h
    have m1 : LStep (pfState s id cursor f.path group c.clientId)
        ((setConn (pfState s id cursor f.path group c.clientId) id (pfConn c f.path subId)).g
          (.subscribed id f.path f.qos idx cursor group false)) :=
      LStep.of_setc (c' := pfConn c f.path subId) hc1 rfl hcid0 rfl rfl rfl rfl
    exact ⟨m0.trans m1.mono, m1.shared⟩
  · have hc1' : getConn ((pfState s id cursor f.path group c.clientId).g
        (.subscribed id f.path f.qos idx cursor group true)) id = some c := hc
    have m1 : LStep (pfState s id cursor f.path group c.clientId)
        (setConn ((pfState s id cursor f.path group c.clientId).g (.subscribed id f.path f.qos idx cursor group true)) id
          { pfConn c f.path subId with subscriptions := c.subscriptions ++ [f.path] }) :=
      LStep.of_setc (c' := { pfConn c f.path subId with subscriptions := c.subscriptions ++ [f.path] }) hc1 rfl (hcid _) rfl rfl rfl rfl
    split at h
    · simp at h
    · rename_i s3 h3
      unfold pfTail at h
      split at h
      · simp at h
      · rename_i s4 h4
        have e : s' = s4 := by
          split at h
          · simp only [Except.ok.injEq] at h; exact h.symm
          · split at h
            · simp only [Except.ok.injEq] at h; exact h.symm
            · simp at h
        subst e
        have m := (m1.trans (track_lstep h3)).trans (reschedule_lstep h4)
        exact ⟨m0.trans m.mono, m.shared⟩

theorem removeClient_current_of_append (grp : SharedGroup) (cid : String) (hw : grp.idx < grp.clients.length) :
    ({ grp with clients := grp.clients ++ [cid] } : SharedGroup).current = grp.current := by
  unfold SharedGroup.current
  simp only []
  rw [List.getElem?_append_left hw]

theorem prepareFilter_gl {s s' : RState} {id : Nat} {cursor : Cursor} {idx : Nat} {f : SubFilter} {subId : Option Nat}
    (hg : GL s)
    (hcur : ∀ g, sfGroup f.path = some g → ∀ i, s.datalog.filterIdx? (gpath g) = some i →
      ∃ fd, s.datalog.native[i]? = some fd ∧ AbsEnd fd cursor)
    (h : prepareFilter s id cursor idx f (sfGroup f.path) subId = .ok s') : GL s' := by
  obtain ⟨c, hc⟩ : ∃ c, getConn s id = some c := by
    cases hgc : getConn s id with
    | none => rw [prepareFilter_eq, hgc] at h; simp at h
    | some c => exact ⟨c, rfl⟩
  obtain ⟨m, hsh⟩ := prepareFilter_shared hc h
  cases hgrp : sfGroup f.path with
  | none =>
    rw [hgrp] at hsh
    exact hg.step ⟨m, hsh⟩
  | some g =>
    rw [hgrp] at hsh
    simp only [pfShared] at hsh
    have hkey : (g.toList.idxOf? '/').isSome = true := by
      unfold sfGroup at hgrp
      cases he : extractGroup f.path with
      | none => rw [he] at hgrp; cases hgrp
      | some gp =>
        rw [he] at hgrp
        simp only [Option.map_some, Option.some.injEq] at hgrp
        obtain ⟨g', p'⟩ := gp
        simp only [] at hgrp; subst hgrp
        exact extractGroup_key_wf he
    refine hg.of_mono m (by rw [hsh]; exact nodup_keys_ainsert hg.nodup) (fun p hp => ?_) (fun p hp => ?_) (fun p hp => ?_)
    · rw [hsh] at hp
      rcases mem_ainsert hp with hp | rfl
      · exact hg.wf p hp
      · simp only [List.length_append, List.length_cons, List.length_nil]
        cases hl : alookup g s.shared with
        | none => simp
        | some grp =>
          have := hg.wf (g, grp) (mem_of_alookup hl)
          simp only [Option.getD_some]; simp only [] at this; omega
    · rw [hsh] at hp
      rcases mem_ainsert hp with hp | rfl
      · exact hg.key p hp
      · exact hkey
    · rw [hsh] at hp
      rcases mem_ainsert hp with hp | rfl
      · exact .inl hp
      · right
        cases hl : alookup g s.shared with
        | some grp =>
          simp only [Option.getD_some]
          have hmem := mem_of_alookup hl
          refine ((hg.lv (g, grp) hmem).mono m).congr rfl ?_
          exact removeClient_current_of_append grp c.clientId (hg.wf (g, grp) hmem)
        | none =>
          simp only [Option.getD_none]
          intro i hi
          rcases m.fi _ i hi with hi0 | hnp
          · obtain ⟨fd, a, b⟩ := hcur g hgrp i hi0
            obtain ⟨fd', a', e⟩ := m.logs i fd a
            rcases e with e | e
            · exact .inl ⟨fd', a', by unfold AbsEnd at b ⊢; rw [e]; exact b⟩
            · refine .inr (.inr fun id' c' r _ _ _ hpk => ?_)
              obtain ⟨fd'', a'', hm⟩ := hpk
              rw [a'] at a''; cases a''
              rw [e] at hm; cases hm
          · exact .inr (.inr fun id' c' r _ _ _ hpk => hnp id' r hpk)

theorem subscribeFilters_gl {id : Nat} {subId : Option Nat} : ∀ (fs : List SubFilter) {s s' : RState}
    {codes codes' : List Nat} {fl fl' : Flags}, DLInv s → GL s →
    subscribeFilters s id subId fs codes fl = .ok (s', codes', fl') → GL s'
  | [], s, s', codes, codes', fl, fl', _, hg, h => by
    simp only [subscribeFilters, Except.ok.injEq, Prod.mk.injEq] at h; obtain ⟨rfl, _⟩ := h; exact hg
  | f :: rest, s, s', codes, codes', fl, fl', hi, hg, h => by
    rw [subscribeFilters_cons] at h
    split at h
    · simp only [Except.ok.injEq, Prod.mk.injEq] at h; obtain ⟨rfl, _⟩ := h; exact hg
    · split at h
      · simp only [Except.ok.injEq, Prod.mk.injEq] at h; obtain ⟨rfl, _⟩ := h; exact hg
      · simp only [] at h
        split at h
        · simp at h
        · rename_i s1 h1
          have g0 := hg.step (nextNativeOffset_lstep s (sfFilter f.path))
          have hi0 := (nextNativeOffset_inv (filter := sfFilter f.path) hi).1
          obtain ⟨fd, hist, hfd, _, hrep, _, hhead, hlen⟩ := nextNativeOffset_tail (filter := sfFilter f.path) hi
          have hidx := nextNativeOffset_idx s (sfFilter f.path)
          have g1 := prepareFilter_gl g0 (fun g hgg i hi' => by
            have hp : gpath g = sfFilter f.path := by
              unfold sfGroup at hgg
              unfold sfFilter
              cases he : extractGroup f.path with
              | none => rw [he] at hgg; cases hgg
              | some gp =>
                obtain ⟨g', p'⟩ := gp
                rw [he] at hgg
                simp only [Option.map_some, Option.some.injEq] at hgg; subst hgg
                exact (extractGroup_gpath he).symm
            rw [hp, hidx] at hi'
            have e : (nextNativeOffset s (sfFilter f.path)).2.1 = i := Option.some.inj hi'
            subst e
            refine ⟨fd, hfd, ?_⟩
            unfold AbsEnd cursorAbs
            have : ¬ (nextNativeOffset s (sfFilter f.path)).2.2.1 < (logC fd.log).head := by omega
            simp only [this, if_false]
            rw [hlen, hrep.nextAbs_eq]) h1
          exact subscribeFilters_gl rest (hi0.of_dkey (prepareFilter_dkey h1)) g1 h

theorem removeClient_wf (g : SharedGroup) (cid : String) (hne : (g.removeClient cid).clients.isEmpty = false) :
    (g.removeClient cid).idx < (g.removeClient cid).clients.length := by
  unfold SharedGroup.removeClient at hne ⊢
  simp only [] at hne ⊢
  simp only [hne, Bool.false_eq_true, if_false]
  apply Nat.mod_lt
  cases hl : g.clients.filter (· ≠ cid) with
  | nil => rw [hl] at hne; simp at hne
  | cons a l => simp

/-- one filter unsubscribed -/
theorem ufState_gl {s : RState} {id : Nat} {ids : List Nat} {c : Conn} {f : String} (hg : GL s)
    (hc : getConn s id = some c) : GL (ufState s id ids c f) := by
  have hc1 : getConn (ufState1 s id ids c f) id = some c := hc
  have hget : ∀ j, getConn (ufState s id ids c f) j = if j = id then some (ufConn s.datalog c f) else getConn s j :=
    fun j => getConn_setConn_live hc1 (ufConn s.datalog c f) j
  have hd : (ufState s id ids c f).datalog = removeWaiterFor s.datalog id f := rfl
  obtain ⟨w1, _⟩ := removeWaiterFor_parked s.datalog id f
  have hfi := (removeWaiterFor_fields s.datalog id f).1
  have htm : ∀ i ∈ s.turnMoved, i ∈ (ufState s id ids c f).turnMoved := by
    intro i hi
    show i ∈ ufTurnMoved s f c.clientId
    unfold ufTurnMoved
    split
    · exact hi
    · split
      · exact hi
      · simp only []
        split
        · exact hi
        · exact List.mem_append_left _ hi
  have m : LMono s (ufState s id ids c f) := by
    refine ⟨fun j d hdj => ?_, fun i j r hp => ?_, htm, fun f' i h => .inl ?_, fun i fd h => ?_⟩
    · rw [hget] at hdj
      by_cases hj : j = id
      · subst hj; simp only [if_true, Option.some.injEq] at hdj; subst hdj; exact .inl ⟨c, hc, rfl⟩
      · simp only [hj, if_false] at hdj; exact .inl ⟨d, hdj, rfl⟩
    · obtain ⟨fd', hfd', hm⟩ := hp
      rw [hd] at hfd'
      obtain ⟨fd, hfd, _, hs⟩ := w1 i fd' hfd'
      exact ⟨fd, hfd, hs _ hm⟩
    · unfold DataLog.filterIdx? at h ⊢; rw [hd, hfi] at h; exact h
    · have := (removeWaiterFor_same s.datalog id f).2.1
      have e : (s.datalog.native.map (·.log))[i]? = some fd.log := by simp [h]
      rw [← this] at e
      simp only [List.getElem?_map, Option.map_eq_some_iff] at e
      obtain ⟨fd', h', e'⟩ := e
      exact ⟨fd', by rw [hd]; exact h', .inl e'⟩
  have hsh : (ufState s id ids c f).shared = ufShared s f c.clientId := rfl
  unfold ufShared at hsh
  cases he : extractGroup f with
  | none => rw [he] at hsh; exact hg.step ⟨m, hsh⟩
  | some gp =>
    obtain ⟨gname, path⟩ := gp
    rw [he] at hsh
    simp only [] at hsh
    cases hl : alookup gname s.shared with
    | none => rw [hl] at hsh; exact hg.step ⟨m, hsh⟩
    | some g =>
      rw [hl] at hsh
      simp only [] at hsh
      have hmem := mem_of_alookup hl
      by_cases hemp : (g.removeClient c.clientId).clients.isEmpty = true
      · simp only [hemp, if_true] at hsh
        refine hg.of_mono m (by rw [hsh]; exact nodup_keys_sublist hg.nodup List.filter_sublist)
          (fun p hp => hg.wf p (by rw [hsh] at hp; exact mem_aremove hp))
          (fun p hp => hg.key p (by rw [hsh] at hp; exact mem_aremove hp))
          (fun p hp => .inl (by rw [hsh] at hp; exact mem_aremove hp))
      · have hemp' : (g.removeClient c.clientId).clients.isEmpty = false := by simpa using hemp
        simp only [hemp', Bool.false_eq_true, if_false] at hsh
        refine hg.of_mono m (by rw [hsh]; exact nodup_keys_ainsert hg.nodup) (fun p hp => ?_) (fun p hp => ?_) (fun p hp => ?_)
        · rw [hsh] at hp
          rcases mem_ainsert hp with hp | rfl
          · exact hg.wf p hp
          · exact removeClient_wf g c.clientId hemp'
        · rw [hsh] at hp
          rcases mem_ainsert hp with hp | rfl
          · exact hg.key p hp
          · exact hg.key (gname, g) hmem
        · rw [hsh] at hp
          rcases mem_ainsert hp with hp | rfl
          · exact .inl hp
          · right
            have hcurs : (g.removeClient c.clientId).cursor = g.cursor := rfl
            by_cases hcur : (g.removeClient c.clientId).current = g.current
            · exact ((hg.lv (gname, g) hmem).mono m).congr hcurs hcur
            · intro i hi
              refine .inr (.inl ?_)
              show i ∈ ufTurnMoved s f c.clientId
              unfold ufTurnMoved
              simp only [he, hl, hemp', Bool.false_eq_true, if_false]
              have hne : ((g.removeClient c.clientId).current != g.current) = true := by simpa using hcur
              simp only [hne, if_true]
              have hp' : path = gpath gname := extractGroup_gpath he
              have : s.datalog.filterIdx? path = some i := by
                rw [hp']
                unfold DataLog.filterIdx? at hi ⊢
                rw [hd, hfi] at hi; exact hi
              rw [this]; simp

theorem unsubscribeFilters_gl {id : Nat} : ∀ (fs : List String) {s s' : RState} {rs rs' : List Bool},
    unsubscribeFilters s id fs rs = .ok (s', rs') → GL s → GL s'
  | [], s, s', rs, rs', h, hg => by
    simp only [unsubscribeFilters, Except.ok.injEq, Prod.mk.injEq] at h
    obtain ⟨rfl, _⟩ := h; exact hg
  | f :: rest, s, s', rs, rs', h, hg => by
    rw [unsubscribeFilters_cons] at h
    split at h
    · exact unsubscribeFilters_gl rest h hg
    · split at h
      · exact unsubscribeFilters_gl rest h hg
      · split at h
        · simp at h
        · rename_i c hc
          split at h
          · exact unsubscribeFilters_gl rest h (hg.step (LStep.of_conns rfl rfl rfl rfl rfl))
          · exact unsubscribeFilters_gl rest h (ufState_gl hg hc)

/-- one packet other than SUBSCRIBE / UNSUBSCRIBE keeps the group table -/
theorem handlePacket_lstep {s s' : RState} {id : Nat} {cid : String} {pkt : Packet} {fl fl' : Flags}
    (hns : ∀ a b c, pkt ≠ .subscribe a b c) (hnu : ∀ a b, pkt ≠ .unsubscribe a b)
    (h : handlePacket s id cid pkt fl = .ok (s', fl')) : LStep s s' := by
  cases pkt with
  | publish p =>
    rw [handlePacket_publish] at h
    split at h
    · simp at h
    · rename_i s1 fl1 h1
      simp only [Except.ok.injEq, Prod.mk.injEq] at h; obtain ⟨rfl, _⟩ := h
      exact hpPre_lstep h1
    · rename_i s1 fl1 h1
      have a := hpPre_lstep h1
      split at h
      · simp at h
      all_goals
        rename_i h2
        simp only [Except.ok.injEq, Prod.mk.injEq] at h; obtain ⟨rfl, _⟩ := h
        exact a.trans (appendToCommitlog_lstep h2)
  | subscribe pkid subId filters => exact absurd rfl (hns pkid subId filters)
  | unsubscribe pkid filters => exact absurd rfl (hnu pkid filters)
  | puback pkid =>
    simp only [handlePacket] at h
    split at h
    · simp at h
    · rename_i c hc
      have a : LStep s (setConn s id { c with out := (c.out.registerAck pkid).1 }) :=
        LStep.of_set (c' := { c with out := (c.out.registerAck pkid).1 }) hc rfl rfl rfl rfl rfl rfl rfl
      split at h
      · simp only [Except.ok.injEq, Prod.mk.injEq] at h; obtain ⟨rfl, _⟩ := h; exact a
      · split at h
        · simp at h
        · rename_i s2 h2
          simp only [Except.ok.injEq, Prod.mk.injEq] at h; obtain ⟨rfl, _⟩ := h
          have a' : LStep s ((setConn s id { c with out := (c.out.registerAck pkid).1 }).g (.clientAcked id pkid)) :=
            a.trans (LStep.of_conns rfl rfl rfl rfl rfl)
          exact a'.trans (reschedule_lstep h2)
  | pubrec pkid =>
    simp only [handlePacket] at h
    split at h
    · simp at h
    · rename_i c hc
      split at h
      · simp only [Except.ok.injEq, Prod.mk.injEq] at h; obtain ⟨rfl, _⟩ := h
        exact LStep.of_set (c' := { c with out := (c.out.registerAck pkid).1 }) hc rfl rfl rfl rfl rfl rfl rfl
      · split at h
        · simp at h
        · rename_i s2 h2
          simp only [Except.ok.injEq, Prod.mk.injEq] at h; obtain ⟨rfl, _⟩ := h
          refine LStep.trans ?_ (reschedule_lstep h2)
          exact LStep.of_set (c' := { c with out := _, acks := _ }) hc rfl rfl rfl rfl rfl rfl rfl
  | pubrel pkid hp =>
    simp only [handlePacket] at h
    split at h
    · simp at h
    · rename_i c hc
      split at h
      · simp only [Except.ok.injEq, Prod.mk.injEq] at h; obtain ⟨rfl, _⟩ := h
        exact LStep.of_set (c' := { c with acks := _ }) hc rfl rfl rfl rfl rfl rfl rfl
      · rename_i p rest hrec
        have a : LStep s ((setConn s id { c with acks := { committed := c.acks.committed ++ [Ack.pubcomp pkid], recorded := rest } }).g
            (.committed id (.pubcomp pkid))) :=
          LStep.of_set (c' := { c with acks := _ }) hc rfl rfl rfl rfl rfl rfl rfl
        split at h
        · simp at h
        · rename_i h2
          simp only [Except.ok.injEq, Prod.mk.injEq] at h; obtain ⟨rfl, _⟩ := h
          exact a.trans (appendToCommitlog_lstep h2)
        · rename_i s2 h2
          split at h
          · simp at h
          · rename_i s3 h3
            simp only [Except.ok.injEq, Prod.mk.injEq] at h; obtain ⟨rfl, _⟩ := h
            exact (a.trans (appendToCommitlog_lstep h2)).trans (reschedule_lstep h3)
  | pubcomp pkid =>
    simp only [handlePacket] at h
    split at h
    · simp at h
    · rename_i c hc
      have a : LStep s (setConn s id { c with out := (c.out.registerPubcomp pkid).1 }) :=
        LStep.of_set (c' := { c with out := _ }) hc rfl rfl rfl rfl rfl rfl rfl
      split at h
      all_goals
        simp only [Except.ok.injEq, Prod.mk.injEq] at h; obtain ⟨rfl, _⟩ := h; exact a
  | pingreq =>
    simp only [handlePacket] at h
    split at h
    · simp at h
    · rename_i s1 h1
      simp only [Except.ok.injEq, Prod.mk.injEq] at h; obtain ⟨rfl, _⟩ := h
      exact commitAck_lstep h1
  | disconnect =>
    simp only [handlePacket, Except.ok.injEq, Prod.mk.injEq] at h; obtain ⟨rfl, _⟩ := h
    exact LStep.of_conns rfl rfl rfl rfl rfl
  | other =>
    simp only [handlePacket, Except.ok.injEq, Prod.mk.injEq] at h; obtain ⟨rfl, _⟩ := h
    exact LStep.refl _


theorem handlePacket_gl {s s' : RState} {id : Nat} {cid : String} {pkt : Packet} {fl fl' : Flags} (hi : DLInv s) (hg : GL s)
    (h : handlePacket s id cid pkt fl = .ok (s', fl')) : GL s' := by
  by_cases hsub : ∃ a b c, pkt = .subscribe a b c
  · obtain ⟨pkid, subId, filters, rfl⟩ := hsub
    simp only [handlePacket] at h
    split at h
    · simp at h
    · rename_i s1 codes fl1 h1
      split at h
      · simp at h
      · rename_i s2 h2
        simp only [Except.ok.injEq, Prod.mk.injEq] at h; obtain ⟨rfl, _⟩ := h
        exact (subscribeFilters_gl filters hi hg h1).step (commitAck_lstep h2)
  · by_cases hun : ∃ a b, pkt = .unsubscribe a b
    · obtain ⟨pkid, filters, rfl⟩ := hun
      simp only [handlePacket] at h
      split at h
      · simp at h
      · split at h
        · simp at h
        · rename_i s1 rs h1
          split at h
          · simp at h
          · rename_i s2 h2
            simp only [Except.ok.injEq, Prod.mk.injEq] at h; obtain ⟨rfl, _⟩ := h
            exact (unsubscribeFilters_gl filters h1 hg).step (commitAck_lstep h2)
    · exact hg.step (handlePacket_lstep (fun a b c e => hsub ⟨a, b, c, e⟩) (fun a b e => hun ⟨a, b, e⟩) h)

theorem handlePackets_gl {id : Nat} {cid : String} : ∀ (ps : List Packet) {s s' : RState} {fl fl' : Flags}, DLInv s → GL s →
    handlePackets s id cid ps fl = .ok (s', fl') → GL s'
  | [], s, s', fl, fl', _, hg, h => by
    simp only [handlePackets, Except.ok.injEq, Prod.mk.injEq] at h; obtain ⟨rfl, _⟩ := h; exact hg
  | p :: rest, s, s', fl, fl', hi, hg, h => by
    simp only [handlePackets] at h
    split at h
    · simp at h
    · rename_i s1 fl1 h1
      have g1 := handlePacket_gl hi hg h1
      split at h
      · simp only [Except.ok.injEq, Prod.mk.injEq] at h; obtain ⟨rfl, _⟩ := h; exact g1
      · exact handlePackets_gl rest (handlePacket_inv hi h1) g1 h

theorem handleLastWill_lstep {s s' : RState} {cid : String} (h : handleLastWill s cid = .ok s') : LStep s s' := by
  unfold handleLastWill at h
  split at h
  · simp only [Except.ok.injEq] at h; subst h; exact LStep.refl _
  · simp only [] at h
    have r0 : LStep s (({ s with lastWills := aremove cid s.lastWills } : RState).g (.willFired cid)) :=
      LStep.of_conns rfl rfl rfl rfl rfl
    split at h
    · simp only [Except.ok.injEq] at h; subst h; exact r0
    · rename_i topic ht
      split at h
      · simp at h
      · rename_i s2 idxs h2
        split at h
        · simp at h
        · rename_i s3 h3
          refine LStep.trans ?_ (drain_all_lstep h)
          refine (LStep.trans ?_ (dlMatches_lstep h2)).trans (appendToFilters_lstep idxs h3)
          exact (r0.trans (updateRetained_lstep _ _ _)).trans (LStep.of_conns rfl rfl rfl rfl rfl)

theorem handleShadow_lstep {s s' : RState} {id : Nat} {f : String} (h : handleShadow s id f = .ok s') : LStep s s' := by
  have hc := handleShadow_core h
  unfold handleShadow at h
  split at h
  · simp only [Except.ok.injEq] at h; subst h; exact LStep.refl _
  · split at h
    · simp only [Except.ok.injEq] at h; subst h; exact LStep.refl _
    · split at h
      · simp only [Except.ok.injEq] at h; subst h; exact LStep.refl _
      · simp only [Except.ok.injEq] at h; subst h
        refine LStep.of_conns hc.1 ?_ ?_ ?_ ?_ <;> (simp only [wakeLink]; split <;> rfl)

end Router
