/-
C20 (round 11): packets other than SUBSCRIBE / UNSUBSCRIBE, last wills, shadow requests, sweeps (new broker
aliases: `fdAliases_ok`) and `consume` keep `ConnOk` of every connection (`KStep` / `KConn`).
-/
import Proofs.Lemmas.Router.Rp17_Steps
namespace Router
open Router.Rp3

theorem nextNativeOffset_kstep (s : RState) (filter : String) : KStep s (nextNativeOffset s filter).1 := by
  unfold nextNativeOffset
  split
  · exact KStep.refl s
  · exact ⟨KConn.of_conns rfl, rfl⟩

theorem handlePacket_kstep {s s' : RState} {id : Nat} {cid : String} {pkt : Packet} {fl fl' : Flags}
    (hns : ∀ a b c, pkt ≠ .subscribe a b c) (hnu : ∀ a b, pkt ≠ .unsubscribe a b)
    (h : handlePacket s id cid pkt fl = .ok (s', fl')) : KStep s s' := by
  cases pkt with
  | publish p =>
    rw [handlePacket_publish] at h
    split at h
    · simp at h
    · rename_i s1 fl1 h1
      simp only [Except.ok.injEq, Prod.mk.injEq] at h; obtain ⟨rfl, _⟩ := h
      exact hpPre_kstep h1
    · rename_i s1 fl1 h1
      have a := hpPre_kstep h1
      split at h
      · simp at h
      all_goals
        rename_i h2
        simp only [Except.ok.injEq, Prod.mk.injEq] at h; obtain ⟨rfl, _⟩ := h
        exact a.trans (appendToCommitlog_kstep h2)
  | subscribe pkid subId filters => exact absurd rfl (hns pkid subId filters)
  | unsubscribe pkid filters => exact absurd rfl (hnu pkid filters)
  | puback pkid =>
    simp only [handlePacket] at h
    split at h
    · simp at h
    · rename_i c hc
      have a : KStep s (setConn s id { c with out := (c.out.registerAck pkid).1 }) :=
        KStep.of_set (c' := { c with out := (c.out.registerAck pkid).1 }) hc rfl rfl rfl rfl rfl rfl rfl
      split at h
      · simp only [Except.ok.injEq, Prod.mk.injEq] at h; obtain ⟨rfl, _⟩ := h; exact a
      · split at h
        · simp at h
        · rename_i s2 h2
          simp only [Except.ok.injEq, Prod.mk.injEq] at h; obtain ⟨rfl, _⟩ := h
          have a' : KStep s ((setConn s id { c with out := (c.out.registerAck pkid).1 }).g (.clientAcked id pkid)) :=
            a.trans (KStep.of_conns rfl rfl rfl rfl rfl)
          exact a'.trans (reschedule_kstep h2)
  | pubrec pkid =>
    simp only [handlePacket] at h
    split at h
    · simp at h
    · rename_i c hc
      split at h
      · simp only [Except.ok.injEq, Prod.mk.injEq] at h; obtain ⟨rfl, _⟩ := h
        exact KStep.of_set (c' := { c with out := (c.out.registerAck pkid).1 }) hc rfl rfl rfl rfl rfl rfl rfl
      · split at h
        · simp at h
        · rename_i s2 h2
          simp only [Except.ok.injEq, Prod.mk.injEq] at h; obtain ⟨rfl, _⟩ := h
          refine KStep.trans ?_ (reschedule_kstep h2)
          exact KStep.of_set (c' := { c with out := _, acks := _ }) hc rfl rfl rfl rfl rfl rfl rfl
  | pubrel pkid hp =>
    simp only [handlePacket] at h
    split at h
    · simp at h
    · rename_i c hc
      split at h
      · simp only [Except.ok.injEq, Prod.mk.injEq] at h; obtain ⟨rfl, _⟩ := h
        exact KStep.of_set (c' := { c with acks := _ }) hc rfl rfl rfl rfl rfl rfl rfl
      · rename_i p rest hrec
        have a : KStep s ((setConn s id { c with acks := { committed := c.acks.committed ++ [Ack.pubcomp pkid], recorded := rest } }).g
            (.committed id (.pubcomp pkid))) :=
          KStep.of_set (c' := { c with acks := _ }) hc rfl rfl rfl rfl rfl rfl rfl
        split at h
        · simp at h
        · rename_i h2
          simp only [Except.ok.injEq, Prod.mk.injEq] at h; obtain ⟨rfl, _⟩ := h
          exact a.trans (appendToCommitlog_kstep h2)
        · rename_i s2 h2
          split at h
          · simp at h
          · rename_i s3 h3
            simp only [Except.ok.injEq, Prod.mk.injEq] at h; obtain ⟨rfl, _⟩ := h
            exact (a.trans (appendToCommitlog_kstep h2)).trans (reschedule_kstep h3)
  | pubcomp pkid =>
    simp only [handlePacket] at h
    split at h
    · simp at h
    · rename_i c hc
      have a : KStep s (setConn s id { c with out := (c.out.registerPubcomp pkid).1 }) :=
        KStep.of_set (c' := { c with out := _ }) hc rfl rfl rfl rfl rfl rfl rfl
      split at h
      all_goals
        simp only [Except.ok.injEq, Prod.mk.injEq] at h; obtain ⟨rfl, _⟩ := h; exact a
  | pingreq =>
    simp only [handlePacket] at h
    split at h
    · simp at h
    · rename_i s1 h1
      simp only [Except.ok.injEq, Prod.mk.injEq] at h; obtain ⟨rfl, _⟩ := h
      exact commitAck_kstep h1
  | disconnect =>
    simp only [handlePacket, Except.ok.injEq, Prod.mk.injEq] at h; obtain ⟨rfl, _⟩ := h
    exact KStep.of_conns rfl rfl rfl rfl rfl
  | other =>
    simp only [handlePacket, Except.ok.injEq, Prod.mk.injEq] at h; obtain ⟨rfl, _⟩ := h
    exact KStep.refl _

theorem handleLastWill_kstep {s s' : RState} {cid : String} (h : handleLastWill s cid = .ok s') : KStep s s' := by
  unfold handleLastWill at h
  split at h
  · simp only [Except.ok.injEq] at h; subst h; exact KStep.refl _
  · simp only [] at h
    have r0 : KStep s (({ s with lastWills := aremove cid s.lastWills } : RState).g (.willFired cid)) :=
      KStep.of_conns rfl rfl rfl rfl rfl
    split at h
    · simp only [Except.ok.injEq] at h; subst h; exact r0
    · rename_i topic ht
      split at h
      · simp at h
      · rename_i s2 idxs h2
        split at h
        · simp at h
        · rename_i s3 h3
          refine KStep.trans ?_ (drain_all_kstep h)
          refine (KStep.trans ?_ (dlMatches_kstep h2)).trans (appendToFilters_kstep idxs h3)
          exact (r0.trans (updateRetained_kstep _ _ _)).trans (KStep.of_conns rfl rfl rfl rfl rfl)

theorem handleShadow_kstep {s s' : RState} {id : Nat} {f : String} (h : handleShadow s id f = .ok s') : KStep s s' := by
  have hc := handleShadow_core h
  unfold handleShadow at h
  split at h
  · simp only [Except.ok.injEq] at h; subst h; exact KStep.refl _
  · split at h
    · simp only [Except.ok.injEq] at h; subst h; exact KStep.refl _
    · split at h
      · simp only [Except.ok.injEq] at h; subst h; exact KStep.refl _
      · simp only [Except.ok.injEq] at h; subst h
        refine KStep.of_conns hc.1 ?_ ?_ ?_ ?_ <;> (simp only [wakeLink]; split <;> rfl)


/-- the push phase of a sweep: connections keep identity and subscriptions; group entries keep key and clients -/
theorem fdPush_kconn {s0 s1 : RState} {id : Nat} {c : Conn} {req' req1 : DataRequest} {grp : Option SharedGroup}
    {pubs : List (Pub × Option Cursor)} {cu : Bool} {st : ConsumeStatus} (hc0 : getConn s0 id = some c)
    (h : fdPush s0 id c req' grp pubs cu = .ok (s1, req1, st)) :
    KConn s0 s1 ∧ ∀ p' ∈ s1.shared, ∃ p ∈ s0.shared, p.1 = p'.1 ∧ p'.2.clients = p.2.clients := by
  unfold fdPush at h
  simp only [] at h
  split at h
  · simp at h
  · rename_i s3 h3
    have b : KStep s0 (pushNotifs (setConn s0 id { c with out := (fdOut c req' pubs).1, brokerAliases := (fdAliases c req'.filter).1 })
        c.link (fdOut c req' pubs).2) :=
      KStep.of_setk (c' := { c with out := (fdOut c req' pubs).1, brokerAliases := (fdAliases c req'.filter).1 }) hc0 rfl
        (fun h => ⟨fun b hb => fdAliases_ok h.1 req'.filter b hb, h.2⟩) rfl
    have key : KConn s0 s3 ∧ ∀ p' ∈ s3.shared, ∃ p ∈ s0.shared, p.1 = p'.1 ∧ p'.2.clients = p.2.clients := by
      unfold fdGroupUpd at h3
      split at h3
      · rename_i _ _ gname gv hgn
        split at h3
        · simp only [Except.ok.injEq] at h3; subst h3
          exact ⟨b.conn, fun p' hp' => ⟨p', by rw [← b.shared]; exact hp', rfl, rfl⟩⟩
        · rename_i g hg
          split at h3
          · simp at h3
          · rename_i s4 g2 hu
            simp only [Except.ok.injEq] at h3; subst h3
            have hu' := updateNextClient_kstep hu
            obtain ⟨_, ucl, _⟩ := updateNextClient_spec hu
            refine ⟨b.conn.trans (hu'.conn.trans (KConn.of_conns rfl)), fun p' hp' => ?_⟩
            have hp'' : p' ∈ ainsert gname { g2 with cursor := req'.cursor } s4.shared := hp'
            rw [hu'.shared, b.shared] at hp''
            rcases mem_ainsert hp'' with h0 | rfl
            · exact ⟨p', h0, rfl, rfl⟩
            · exact ⟨(gname, g), by rw [← b.shared]; exact mem_of_alookup hg, rfl, ucl⟩
      · simp only [Except.ok.injEq] at h3; subst h3
        exact ⟨b.conn, fun p' hp' => ⟨p', by rw [← b.shared]; exact hp', rfl, rfl⟩⟩
    obtain ⟨m3, e3⟩ := key
    split at h
    all_goals
      simp only [Except.ok.injEq, Prod.mk.injEq] at h; obtain ⟨rfl, _, _⟩ := h
      exact ⟨m3.trans (KConn.of_conns rfl), e3⟩

theorem forwardDeviceData_kconn {s s1 : RState} {id : Nat} {req req1 : DataRequest} {st : ConsumeStatus}
    (hf : forwardDeviceData s id req = .ok (s1, req1, st)) :
    KConn s s1 ∧ ∀ p' ∈ s1.shared, ∃ p ∈ s.shared, p.1 = p'.1 ∧ p'.2.clients = p.2.clients := by
  obtain ⟨c, hc⟩ : ∃ c, getConn s id = some c := by
    cases hg : getConn s id with
    | none => rw [Router.forwardDeviceData_eq, hg] at hf; simp at hf
    | some c => exact ⟨c, rfl⟩
  have same : ∀ {x : RState}, KStep s x → KConn s x ∧ ∀ p' ∈ x.shared, ∃ p ∈ s.shared, p.1 = p'.1 ∧ p'.2.clients = p.2.clients :=
    fun m => ⟨m.conn, fun p' hp' => ⟨p', by rw [← m.shared]; exact hp', rfl, rfl⟩⟩
  rcases sweep_branches hc hf with ⟨rfl, _⟩ | ⟨_, s0, rp, slots, fd, h0, _, hcase⟩
  · exact same (KStep.refl _)
  · have a := fdRetained_kstep h0
    have hc0 : getConn s0 id = some c := by rw [(fdRetained_only_oracle h0).1]; exact hc
    rcases hcase with ⟨_, rfl, _⟩ | ⟨_, _, _, rfl, _⟩ | ⟨_, hp⟩
    · exact same a
    · exact same a
    · obtain ⟨m, e⟩ := fdPush_kconn hc0 hp
      refine ⟨a.conn.trans m, fun p' hp' => ?_⟩
      obtain ⟨p, hp0, e1, e2⟩ := e p' hp'
      exact ⟨p, by rw [← a.shared]; exact hp0, e1, e2⟩

theorem consumeLoop_kconn {id : Nat} : ∀ (fuel : Nat) {s s' : RState} {requests skipped : List DataRequest},
    consumeLoop s id fuel requests skipped = .ok s' → KConn s s'
  | 0, s, s', requests, skipped, hc => by
    simp only [consumeLoop] at hc
    exact (trackv_kstep hc).conn
  | fuel + 1, s, s', requests, skipped, hc => by
    cases requests with
    | nil =>
      simp only [consumeLoop] at hc
      split at hc
      · simp at hc
      · rename_i s1 h1
        have a : KStep s s1 := by
          split at h1
          · exact pause_kstep h1
          · simp only [Except.ok.injEq] at h1; subst h1; exact KStep.refl _
        exact (a.trans (trackv_kstep hc)).conn
    | cons req rest =>
      simp only [consumeLoop] at hc
      split at hc
      · simp at hc
      · rename_i s1 req1 st h1
        obtain ⟨m1, _⟩ := forwardDeviceData_kconn h1
        have h2 : KConn s (noteTurn s s1 req1) := m1.trans (noteTurn_kstep s s1 req1).conn
        split at hc
        · split at hc
          · simp at hc
          · rename_i s3 h3
            exact h2.trans ((pause_kstep h3).trans (trackv_kstep hc)).conn
        · split at hc
          · simp at hc
          · rename_i s3 h3
            exact h2.trans ((pause_kstep h3).trans (trackv_kstep hc)).conn
        · split at hc
          · simp at hc
          · rename_i s3 h3
            have m3 : KConn (noteTurn s s1 req1) s3 := by
              unfold park at h3
              split at h3
              · simp at h3
              · simp only [Except.ok.injEq] at h3; subst h3; exact KConn.of_conns rfl
            exact (h2.trans m3).trans (consumeLoop_kconn fuel hc)
        · exact h2.trans (consumeLoop_kconn fuel hc)
        · exact h2.trans (consumeLoop_kconn fuel hc)

theorem wakeTurnMoved_kstep {s s' : RState} (h : wakeTurnMoved s = .ok s') : KStep s s' :=
  (⟨KConn.of_conns rfl, rfl⟩ : KStep s { s with turnMoved := [] }).trans (wakeParked_kstep h)

/-- `consume` keeps every connection, its client id and its subscriptions -/
theorem consume_kconn {s s' : RState} {b : Bool} (hc : consume s = .ok (s', b)) : KConn s s' := by
  unfold consume at hc
  split at hc
  · simp only [Except.ok.injEq, Prod.mk.injEq] at hc; obtain ⟨rfl, _⟩ := hc
    exact KConn.of_conns rfl
  · rename_i id rq hrq
    simp only [] at hc
    split at hc
    · simp only [Except.ok.injEq, Prod.mk.injEq] at hc; obtain ⟨rfl, _⟩ := hc
      exact KConn.of_conns rfl
    · rename_i c hcn
      split at hc
      · simp at hc
      · rename_i s1 h1
        split at hc
        · simp at hc
        · rename_i s2 h2
          simp only [Except.ok.injEq, Prod.mk.injEq] at hc; obtain ⟨rfl, _⟩ := hc
          have hcn' : getConn s id = some c := hcn
          have la : KStep s ({ setConn { s with readyqueue := rq } id { c with tracker := { c.tracker with requests := [] } }
              with readyqueue := (setConn { s with readyqueue := rq } id { c with tracker := { c.tracker with requests := [] } }).readyqueue ++ [id] } : RState) :=
            KStep.of_setc (c' := { c with tracker := { c.tracker with requests := [] } }) hcn' rfl rfl rfl rfl rfl rfl
          exact ((la.trans (ackDeviceData_kstep _ id)).conn.trans (consumeLoop_kconn _ h1)).trans (wakeTurnMoved_kstep h2).conn

end Router
