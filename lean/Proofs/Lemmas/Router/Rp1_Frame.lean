/-
C14: which connections a whole step can remove or modify.
-/
import Proofs.Lemmas.Router.Rp1_WindowInv
namespace Router

theorem reschedule_other {s s' : RState} {id j : Nat} {r : SchedReason} (h : reschedule s id r = .ok s')
    (hj : j ≠ id) : getConn s' j = getConn s j := by
  unfold reschedule at h
  split at h
  · simp at h
  · rename_i c hc
    split at h
    · simp at h
    · rename_i t woke _
      simp only [Except.ok.injEq] at h; subst h
      have e := getConn_setConn_live hc { c with tracker := t } j
      split
      all_goals
        refine Eq.trans ?_ (e.trans (by simp [hj]))
        rfl

/-- closing `id` leaves every other slab entry as it was, except possibly for the tracker of a live
    connection (the parked members of the groups whose turn moved are woken: `track` / `reschedule`) -/
theorem handleDisconnection_other {s s' : RState} {id j : Nat} {r : Option String}
    (h : handleDisconnection s id r = .ok s') (hj : j ≠ id) :
    (getConn s j = none → getConn s' j = none) ∧
    ∀ c, getConn s j = some c → ∃ t, getConn s' j = some { c with tracker := t } := by
  rcases handleDisconnection_effect h with ⟨_, rfl⟩ | ⟨c, s1, logs, _, e1, _, _, _, hw⟩
  · exact ⟨fun e => e, fun c hc => ⟨c.tracker, hc⟩⟩
  · have sh := wakeParked_shape hw
    have hg : getConn s1 j = getConn s j := by rw [getConn_remove s s1 id j e1]; simp [hj]
    refine ⟨fun e => by rw [sh.none_iff, hg]; exact e, fun d hd => ?_⟩
    obtain ⟨d', hd', t, rfl⟩ := sh.live (hg.trans hd)
    exact ⟨t, hd'⟩

/-- an event for connection `id` leaves every other connection in place, identical except possibly
    for its tracker (fresh data wakes parked subscribers: `track` / `reschedule`) -/
theorem events_frame {s s' : RState} {id j : Nat} {ev : Event} {c : Conn} (h : events s id ev = .ok s')
    (hj : j ≠ id) (hc : getConn s j = some c) : ∃ t, getConn s' j = some { c with tracker := t } := by
  obtain ⟨s1, hs, h' | ⟨r, hd⟩⟩ := events_split h
  · subst h'
    obtain ⟨c', hc', r⟩ := hs.live hc
    obtain ⟨t, rfl⟩ := r.2.1 hj
    exact ⟨t, hc'⟩
  · obtain ⟨c', hc', r⟩ := hs.live hc
    obtain ⟨t, rfl⟩ := r.2.1 hj
    obtain ⟨t2, h2⟩ := (handleDisconnection_other hd hj).2 _ hc'
    exact ⟨t2, h2⟩

/-- `consume` removes nobody; it serves the polled connection and touches at most the tracker of
    the others -/
theorem consume_frame {s s' : RState} {b : Bool} {j : Nat} {c : Conn} (h : consume s = .ok (s', b))
    (hc : getConn s j = some c) :
    ∃ c', getConn s' j = some c' ∧ c.sameId c' ∧ (polled s ≠ some j → ∃ t, c' = { c with tracker := t }) := by
  rcases consume_shape h with ⟨_, hcore⟩ | ⟨id, hp, hs⟩
  · exact ⟨c, by rw [hcore.getConn]; exact hc, c.sameId_refl, fun _ => ⟨c.tracker, rfl⟩⟩
  · obtain ⟨c', hc', r⟩ := hs.live hc
    refine ⟨c', hc', r.1, fun hne => ?_⟩
    have : j ≠ id := fun e => hne (by rw [hp, e])
    exact r.2 this

/-- a CONNECT removes at most the connection registered under the same client id (takeover); every
    other live connection stays, unchanged except possibly for its tracker (the takeover closes the
    old connection, which may wake parked members of its shared groups) -/
theorem handleNewConnection_frame {s s' : RState} {spec : ConnectSpec} {j : Nat} {c : Conn} (ha : AdmInv s)
    (h : handleNewConnection s spec = .ok s') (hc : getConn s j = some c)
    (hj : alookup spec.clientId s.connectionMap ≠ some j) : ∃ t, getConn s' j = some { c with tracker := t } := by
  rw [handleNewConnection_eq] at h
  simp only [] at h
  have h0 : AdmInv (setLink s spec.link {}) := ha.congr rfl rfl rfl
  split at h
  · simp only [Except.ok.injEq] at h; subst h; exact ⟨c.tracker, hc⟩
  · split at h
    · simp at h
    · rename_i s1 h1
      obtain ⟨a1, hnone, _⟩ := hnTakeover_spec h0 h1
      have hc1 : ∃ t, getConn s1 j = some { c with tracker := t } := by
        unfold hnTakeover at h1
        split at h1
        · rename_i old hold
          have : j ≠ old := fun e => hj (by rw [e]; exact hold)
          exact (handleDisconnection_other h1 this).2 c hc
        · simp only [Except.ok.injEq] at h1; subst h1; exact ⟨c.tracker, hc⟩
      obtain ⟨t, hc1⟩ := hc1
      refine ⟨t, ?_⟩
      split at h
      · simp only [Except.ok.injEq] at h; subst h; exact hc1
      · rename_i hroom
        obtain ⟨_, hr⟩ := hnRegister_ok h
        obtain ⟨e1, e2, e3⟩ := hnPre_core s1 spec
        obtain ⟨_, hvac, _, hold⟩ := AdmInv.register (conn' := { hnConn spec (hnRestored s1 spec) with
            acks := { committed := hnAcks spec (hnKey s1 spec) (hnSession s1 spec).isSome (hnRestored s1 spec) } })
          a1 hnone (by omega) rfl e1 e2 e3
        have hne : j ≠ hnKey s1 spec := fun e => by
          have hv : getConn s1 (hnKey s1 spec) = none := hvac
          rw [← e, hc1] at hv; simp at hv
        rw [reschedule_other hr hne]
        exact (hold j hne).trans hc1

/-- link-side ops do not touch the slab -/
theorem step_push_drain_frame {s s' : RState} {op : Op} {out : Out} (h : step s op = .ok (s', out))
    (hop : (∃ l p, op = .push l p) ∨ ∃ l, op = .drain l) (j : Nat) : getConn s' j = getConn s j := by
  cases step_cases h with
  | connect spec h' => rcases hop with ⟨_, _, e⟩ | ⟨_, e⟩ <;> cases e
  | event id ev h' => rcases hop with ⟨_, _, e⟩ | ⟨_, e⟩ <;> cases e
  | consume b h' => rcases hop with ⟨_, _, e⟩ | ⟨_, e⟩ <;> cases e
  | push l p h' => exact h'.getConn j
  | drain l h' => exact h'.getConn j

end Router
