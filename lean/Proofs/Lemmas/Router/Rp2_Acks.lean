/-
C06: which acks `handlePacket` / `handlePackets` append to the requesting connection's ack log.
-/
import Proofs.Lemmas.Router.Rp2_Subs
namespace Router

/-- the pending (registered, not yet flushed) replies of a connection -/
def acksOf (s : RState) (id : Nat) : Option (List Ack) := (getConn s id).map (·.acks.committed)

/-- `s'` differs from `s`, as far as ack logs / links / client ids are concerned, only in that
    `as` was appended to the ack log of connection `id` -/
structure Appended (s s' : RState) (id : Nat) (as : List Ack) : Prop where
  links : s'.links = s.links
  others : ∀ j, j ≠ id → (getConn s' j).map Conn.view = (getConn s j).map Conn.view
  own : ∀ c, getConn s id = some c → ∃ c', getConn s' id = some c' ∧
          c'.acks.committed = c.acks.committed ++ as ∧ c'.link = c.link ∧ c'.clientId = c.clientId

theorem Appended.of_frame {s s' : RState} (h : AckFrame s s') (id : Nat) : Appended s s' id [] where
  links := h.links
  others := fun j _ => h.conns j
  own := fun c hc => by
    obtain ⟨c', h1, h2, h3, h4⟩ := h.conns.get hc
    exact ⟨c', h1, by rw [h2]; simp, h3, h4⟩

theorem Appended.trans {a b c : RState} {id : Nat} {as bs : List Ack}
    (h1 : Appended a b id as) (h2 : Appended b c id bs) : Appended a c id (as ++ bs) where
  links := h2.links.trans h1.links
  others := fun j hj => (h2.others j hj).trans (h1.others j hj)
  own := fun x hx => by
    obtain ⟨x1, g1, e1, l1, k1⟩ := h1.own x hx
    obtain ⟨x2, g2, e2, l2, k2⟩ := h2.own x1 g1
    exact ⟨x2, g2, by rw [e2, e1, List.append_assoc], l2.trans l1, k2.trans k1⟩

theorem Appended.frame_right {a b c : RState} {id : Nat} {as : List Ack}
    (h1 : Appended a b id as) (h2 : AckFrame b c) : Appended a c id as := by
  have := h1.trans (Appended.of_frame h2 id)
  simpa using this

theorem Appended.frame_left {a b c : RState} {id : Nat} {as : List Ack}
    (h1 : AckFrame a b) (h2 : Appended b c id as) : Appended a c id as := by
  have := (Appended.of_frame h1 id).trans h2
  simpa using this

/-- replacing connection `id` by one whose ack log got `as` appended (same link, client id) -/
theorem Appended.setConn {s : RState} {id : Nat} {c c' : Conn} {as : List Ack} (h : getConn s id = some c)
    (ha : c'.acks.committed = c.acks.committed ++ as) (hl : c'.link = c.link) (hk : c'.clientId = c.clientId) :
    Appended s (setConn s id c') id as where
  links := rfl
  others := fun j hj => by rw [getConn_setConn_ne _ _ _ _ hj]
  own := fun x hx => by
    rw [h] at hx; cases hx
    exact ⟨c', getConn_setConn_same _ _ _ (getConn_lt h), ha, hl, hk⟩

theorem Appended.g {s s' : RState} {id : Nat} {as : List Ack} (h : Appended s s' id as) (e : Ghost) :
    Appended s (s'.g e) id as := ⟨h.links, h.others, h.own⟩

theorem Appended.acksOf {s s' : RState} {id : Nat} {as : List Ack} (h : Appended s s' id as) {c : Conn}
    (hc : getConn s id = some c) : acksOf s' id = some (c.acks.committed ++ as) := by
  obtain ⟨c', g, e, _, _⟩ := h.own c hc
  simp [Router.acksOf, g, e]

theorem commitAck_appended {s s' : RState} {id : Nat} {a : Ack} (h : commitAck s id a = .ok s') :
    Appended s s' id [a] := by
  unfold commitAck at h
  split at h
  · simp at h
  · rename_i c hc
    simp only [Except.ok.injEq] at h; subst h
    refine Appended.g (Appended.setConn hc ?_ ?_ ?_) _ <;> rfl

/-! ### the reply a request is owed -/

/-- the acks a packet makes the router register (the spec of C06's first sentence) -/
def IsReplyTo : Packet → List Ack → Prop
  | .publish p, as => as = (if p.qos = 1 then [Ack.puback p.pkid] else if p.qos = 2 then [Ack.pubrec p.pkid] else [])
  | .subscribe pkid subId fs, as => ∃ codes, as = [Ack.suback pkid codes] ∧
      (∃ k, k ≤ fs.length ∧ codes = (fs.take k).map (·.qos)) ∧
      ((subId ≠ some 0 ∧ ∀ f ∈ fs, validSubscription f.path = true) → codes = fs.map (·.qos))
  | .unsubscribe pkid fs, as => ∃ reasons, as = [Ack.unsuback pkid reasons] ∧ reasons.length = fs.length
  | .puback _, as => as = []
  | .pubrec pkid, as => as = [] ∨ as = [Ack.pubrel pkid]
  | .pubrel pkid _, as => as = [Ack.pubcomp pkid]      -- with or without MQTT 5 properties
  | .pubcomp _, as => as = []
  | .pingreq, as => as = [Ack.pingresp]
  | .disconnect, as => as = []
  | .other, as => as = []

/-- the packets whose reply is registered together with `force_ack` -/
def Packet.forcesAck : Packet → Bool
  | .publish p => p.qos = 1 || p.qos = 2
  | .subscribe .. => true
  | .unsubscribe .. => true
  | .pingreq => true
  | _ => false

theorem handlePacket_publish_appended {s s' : RState} {id : Nat} {cid : String} {p : Pub} {fl fl' : Flags}
    (h : handlePacket s id cid (.publish p) fl = .ok (s', fl')) :
    Appended s s' id (if p.qos = 1 then [Ack.puback p.pkid] else if p.qos = 2 then [Ack.pubrec p.pkid] else []) ∧
    ((p.qos = 1 ∨ p.qos = 2) → fl'.forceAck = true) := by
  unfold handlePacket at h
  by_cases h1 : p.qos = 1
  · simp only [h1, if_true] at h ⊢
    cases hca : commitAck s id (.puback p.pkid) with
    | error e => simp [hca] at h
    | ok s1 =>
      simp only [hca] at h
      have a1 := commitAck_appended hca
      cases hap : appendToCommitlog s1 id p with
      | error e => simp [hap] at h
      | ok r =>
        obtain ⟨s2, e⟩ := r
        have a2 := a1.frame_right (appendToCommitlog_frame hap)
        simp only [hap] at h
        cases e with
        | none => simp only [Except.ok.injEq, Prod.mk.injEq] at h; obtain ⟨rfl, rfl⟩ := h; exact ⟨a2, fun _ => rfl⟩
        | some e =>
          cases e <;> (simp only [Except.ok.injEq, Prod.mk.injEq] at h; obtain ⟨rfl, rfl⟩ := h; exact ⟨a2, fun _ => rfl⟩)
  · by_cases h2 : p.qos = 2
    · simp only [h1, if_false, h2, if_true] at h ⊢
      cases hc : getConn s id with
      | none => simp [hc] at h
      | some c =>
        simp only [hc, Except.ok.injEq, Prod.mk.injEq] at h; obtain ⟨rfl, rfl⟩ := h
        refine ⟨Appended.g (Appended.setConn hc ?_ ?_ ?_) _, fun _ => rfl⟩ <;> rfl
    · simp only [h1, if_false, h2] at h ⊢
      cases hap : appendToCommitlog s id p with
      | error e => simp [hap] at h
      | ok r =>
        obtain ⟨s2, e⟩ := r
        have a2 := Appended.of_frame (appendToCommitlog_frame hap) id
        simp only [hap] at h
        refine ⟨?_, ?_⟩
        case refine_2 => intro hq; exact absurd hq (by simp [h1, h2])
        cases e with
        | none => simp only [Except.ok.injEq, Prod.mk.injEq] at h; obtain ⟨rfl, _⟩ := h; exact a2
        | some e =>
          cases e <;> (simp only [Except.ok.injEq, Prod.mk.injEq] at h; obtain ⟨rfl, _⟩ := h; exact a2)

theorem handlePacket_subscribe_appended {s s' : RState} {id : Nat} {cid : String} {pkid : Nat}
    {subId : Option Nat} {fs : List SubFilter} {fl fl' : Flags}
    (h : handlePacket s id cid (.subscribe pkid subId fs) fl = .ok (s', fl')) :
    ∃ codes, Appended s s' id [Ack.suback pkid codes] ∧
      (∃ k, k ≤ fs.length ∧ codes = (fs.take k).map (·.qos)) ∧
      ((subId ≠ some 0 ∧ ∀ f ∈ fs, validSubscription f.path = true) → codes = fs.map (·.qos)) ∧
      fl'.forceAck = true ∧ fl'.stop = fl.stop := by
  unfold handlePacket at h
  cases hsf : subscribeFilters s id subId fs [] fl with
  | error e => simp [hsf] at h
  | ok r =>
    obtain ⟨s1, codes, fl1⟩ := r
    simp only [hsf] at h
    cases hca : commitAck s1 id (.suback pkid codes) with
    | error e => simp [hca] at h
    | ok s2 =>
      simp only [hca, Except.ok.injEq, Prod.mk.injEq] at h; obtain ⟨rfl, rfl⟩ := h
      refine ⟨codes, Appended.frame_left (subscribeFilters_frame id subId fs hsf) (commitAck_appended hca), ?_, ?_, rfl, ?_⟩
      · obtain ⟨k, hk, hc, _⟩ := subscribeFilters_codes_prefix id subId fs hsf
        exact ⟨k, hk, by simpa using hc⟩
      · intro ⟨h0, hv⟩
        have := (subscribeFilters_codes_all id subId h0 fs hv hsf).1
        simpa using this
      · exact (subscribeFilters_flags id subId fs hsf).2.2

theorem handlePacket_unsubscribe_appended {s s' : RState} {id : Nat} {cid : String} {pkid : Nat}
    {fs : List String} {fl fl' : Flags}
    (h : handlePacket s id cid (.unsubscribe pkid fs) fl = .ok (s', fl')) :
    ∃ reasons, Appended s s' id [Ack.unsuback pkid reasons] ∧ reasons.length = fs.length ∧
      fl'.forceAck = true ∧ fl'.stop = fl.stop := by
  unfold handlePacket at h
  cases hc : getConn s id with
  | none => simp [hc] at h
  | some c =>
    simp only [hc] at h
    cases hu : unsubscribeFilters s id fs [] with
    | error e => simp [hu] at h
    | ok r =>
      obtain ⟨s1, reasons⟩ := r
      simp only [hu] at h
      cases hca : commitAck s1 id (.unsuback pkid reasons) with
      | error e => simp [hca] at h
      | ok s2 =>
        simp only [hca, Except.ok.injEq, Prod.mk.injEq] at h; obtain ⟨rfl, rfl⟩ := h
        obtain ⟨fr, hl, _⟩ := unsubscribeFilters_frame id fs hu
        exact ⟨reasons, Appended.frame_left fr (commitAck_appended hca), by simpa using hl, rfl, rfl⟩

theorem handlePacket_pingreq_appended {s s' : RState} {id : Nat} {cid : String} {fl fl' : Flags}
    (h : handlePacket s id cid .pingreq fl = .ok (s', fl')) :
    Appended s s' id [Ack.pingresp] ∧ fl'.forceAck = true ∧ fl'.stop = fl.stop := by
  unfold handlePacket at h
  cases hca : commitAck s id .pingresp with
  | error e => simp [hca] at h
  | ok s2 =>
    simp only [hca, Except.ok.injEq, Prod.mk.injEq] at h; obtain ⟨rfl, rfl⟩ := h
    exact ⟨commitAck_appended hca, rfl, rfl⟩

theorem handlePacket_puback_appended {s s' : RState} {id : Nat} {cid : String} {pkid : Nat} {fl fl' : Flags}
    (h : handlePacket s id cid (.puback pkid) fl = .ok (s', fl')) : Appended s s' id [] := by
  unfold handlePacket at h
  cases hc : getConn s id with
  | none => simp [hc] at h
  | some c =>
    simp only [hc] at h
    have a1 : AckFrame s (setConn s id { c with out := (c.out.registerAck pkid).1 }) := AckFrame.setConn hc rfl
    split at h
    · simp only [Except.ok.injEq, Prod.mk.injEq] at h; obtain ⟨rfl, _⟩ := h
      exact Appended.of_frame a1 id
    · split at h
      · simp at h
      · rename_i s2 h2
        simp only [Except.ok.injEq, Prod.mk.injEq] at h; obtain ⟨rfl, _⟩ := h
        exact Appended.of_frame (a1.trans (AckFrame.precomp (reschedule_frame h2) rfl rfl)) id

theorem handlePacket_pubrec_appended {s s' : RState} {id : Nat} {cid : String} {pkid : Nat} {fl fl' : Flags}
    (h : handlePacket s id cid (.pubrec pkid) fl = .ok (s', fl')) :
    Appended s s' id [] ∨ Appended s s' id [Ack.pubrel pkid] := by
  unfold handlePacket at h
  cases hc : getConn s id with
  | none => simp [hc] at h
  | some c =>
    simp only [hc] at h
    split at h
    · simp only [Except.ok.injEq, Prod.mk.injEq] at h; obtain ⟨rfl, _⟩ := h
      refine .inl (Appended.of_frame (AckFrame.setConn hc ?_) id)
      rfl
    · split at h
      · simp at h
      · rename_i s2 h2
        simp only [Except.ok.injEq, Prod.mk.injEq] at h; obtain ⟨rfl, _⟩ := h
        refine .inr (Appended.frame_right ?_ (reschedule_frame h2))
        refine Appended.g (Appended.g (Appended.setConn hc ?_ ?_ ?_) _) _ <;> rfl

/-- PUBREL (with or without properties): PUBCOMP is registered, whatever happens next -/
theorem handlePacket_pubrel_appended {s s' : RState} {id : Nat} {cid : String} {pkid : Nat} {fl fl' : Flags}
    (h : handlePacket s id cid (.pubrel pkid hp) fl = .ok (s', fl')) :
    Appended s s' id [Ack.pubcomp pkid] := by
  unfold handlePacket at h
  cases hc : getConn s id with
  | none => simp [hc] at h
  | some c =>
    simp only [hc] at h
    split at h
    · simp only [Except.ok.injEq, Prod.mk.injEq] at h; obtain ⟨rfl, _⟩ := h
      refine Appended.g (Appended.setConn hc ?_ ?_ ?_) _ <;> rfl
    · rename_i p rest hrec
      have a1 : Appended s ((setConn s id { c with acks := { committed := c.acks.committed ++ [Ack.pubcomp pkid], recorded := rest } }).g
          (.committed id (.pubcomp pkid))) id [Ack.pubcomp pkid] := by
        refine Appended.g (Appended.setConn hc ?_ ?_ ?_) _ <;> rfl
      split at h
      · simp at h
      · rename_i s2 e hap
        simp only [Except.ok.injEq, Prod.mk.injEq] at h; obtain ⟨rfl, _⟩ := h
        exact a1.frame_right (appendToCommitlog_frame hap)
      · rename_i s2 hap
        split at h
        · simp at h
        · rename_i s3 h3
          simp only [Except.ok.injEq, Prod.mk.injEq] at h; obtain ⟨rfl, _⟩ := h
          exact (a1.frame_right (appendToCommitlog_frame hap)).frame_right (reschedule_frame h3)

theorem handlePacket_pubcomp_appended {s s' : RState} {id : Nat} {cid : String} {pkid : Nat} {fl fl' : Flags}
    (h : handlePacket s id cid (.pubcomp pkid) fl = .ok (s', fl')) : Appended s s' id [] := by
  unfold handlePacket at h
  cases hc : getConn s id with
  | none => simp [hc] at h
  | some c =>
    simp only [hc] at h
    have a1 : AckFrame s (setConn s id { c with out := (c.out.registerPubcomp pkid).1 }) := AckFrame.setConn hc rfl
    split at h <;>
      (simp only [Except.ok.injEq, Prod.mk.injEq] at h; obtain ⟨rfl, _⟩ := h; exact Appended.of_frame a1 id)

/-- C06, one packet: exactly the owed reply is appended to the requester's ack log, nothing to
    anybody else's, and the request kinds ask for a flush -/
theorem handlePacket_reply {s s' : RState} {id : Nat} {cid : String} {pkt : Packet} {fl fl' : Flags}
    (h : handlePacket s id cid pkt fl = .ok (s', fl')) :
    ∃ as, IsReplyTo pkt as ∧ Appended s s' id as ∧ (pkt.forcesAck = true → fl'.forceAck = true) := by
  cases pkt with
  | publish p =>
    obtain ⟨a, b⟩ := handlePacket_publish_appended h
    exact ⟨_, rfl, a, fun hf => b (by simpa [Packet.forcesAck] using hf)⟩
  | subscribe pkid subId fs =>
    obtain ⟨codes, a, b, c, d, _⟩ := handlePacket_subscribe_appended h
    exact ⟨_, ⟨codes, rfl, b, c⟩, a, fun _ => d⟩
  | unsubscribe pkid fs =>
    obtain ⟨rs, a, b, d, _⟩ := handlePacket_unsubscribe_appended h
    exact ⟨_, ⟨rs, rfl, b⟩, a, fun _ => d⟩
  | puback pkid => exact ⟨[], rfl, handlePacket_puback_appended h, by simp [Packet.forcesAck]⟩
  | pubrec pkid =>
    rcases handlePacket_pubrec_appended h with a | a
    · exact ⟨[], .inl rfl, a, by simp [Packet.forcesAck]⟩
    · exact ⟨_, .inr rfl, a, by simp [Packet.forcesAck]⟩
  | pubrel pkid hp => exact ⟨_, rfl, handlePacket_pubrel_appended h, by simp [Packet.forcesAck]⟩
  | pubcomp pkid => exact ⟨[], rfl, handlePacket_pubcomp_appended h, by simp [Packet.forcesAck]⟩
  | pingreq =>
    obtain ⟨a, b, _⟩ := handlePacket_pingreq_appended h
    exact ⟨_, rfl, a, fun _ => b⟩
  | disconnect =>
    simp only [handlePacket, Except.ok.injEq, Prod.mk.injEq] at h; obtain ⟨rfl, _⟩ := h
    refine ⟨[], rfl, Appended.of_frame (AckFrame.of_eq ?_ ?_) id, by simp [Packet.forcesAck]⟩ <;> rfl
  | other =>
    simp only [handlePacket, Except.ok.injEq, Prod.mk.injEq] at h; obtain ⟨rfl, _⟩ := h
    exact ⟨[], rfl, Appended.of_frame (AckFrame.refl _) id, by simp [Packet.forcesAck]⟩

/-! ### a batch -/

/-- replies owed to a list of packets, concatenated in packet order -/
inductive Replies : List Packet → List Ack → Prop
  | nil : Replies [] []
  | cons {p : Packet} {ps : List Packet} {as bs : List Ack} :
      IsReplyTo p as → Replies ps bs → Replies (p :: ps) (as ++ bs)

/-- `forceAck` is never reset -/
theorem handlePacket_forceAck_mono {s s' : RState} {id : Nat} {cid : String} {pkt : Packet} {fl fl' : Flags}
    (h : handlePacket s id cid pkt fl = .ok (s', fl')) (hf : fl.forceAck = true) : fl'.forceAck = true := by
  cases pkt with
  | publish p =>
    by_cases h1 : p.qos = 1
    · exact (handlePacket_publish_appended h).2 (.inl h1)
    · by_cases h2 : p.qos = 2
      · exact (handlePacket_publish_appended h).2 (.inr h2)
      · simp only [handlePacket, h1, h2, if_false] at h
        split at h
        · simp at h
        all_goals (simp only [Except.ok.injEq, Prod.mk.injEq] at h; obtain ⟨_, rfl⟩ := h; exact hf)
  | subscribe pkid subId fs => exact (handlePacket_subscribe_appended h).choose_spec.2.2.2.1
  | unsubscribe pkid fs => exact (handlePacket_unsubscribe_appended h).choose_spec.2.2.1
  | pingreq => exact (handlePacket_pingreq_appended h).2.1
  | puback pkid =>
    simp only [handlePacket] at h
    split at h
    · simp at h
    · split at h
      · simp only [Except.ok.injEq, Prod.mk.injEq] at h; obtain ⟨_, rfl⟩ := h; exact hf
      · split at h
        · simp at h
        · simp only [Except.ok.injEq, Prod.mk.injEq] at h; obtain ⟨_, rfl⟩ := h; exact hf
  | pubrec pkid =>
    simp only [handlePacket] at h
    split at h
    · simp at h
    · split at h
      · simp only [Except.ok.injEq, Prod.mk.injEq] at h; obtain ⟨_, rfl⟩ := h; exact hf
      · split at h
        · simp at h
        · simp only [Except.ok.injEq, Prod.mk.injEq] at h; obtain ⟨_, rfl⟩ := h; exact hf
  | pubrel pkid hp =>
    simp only [handlePacket] at h
    split at h
    · simp at h
    · split at h
      · simp only [Except.ok.injEq, Prod.mk.injEq] at h; obtain ⟨_, rfl⟩ := h; exact hf
      · split at h
        · simp at h
        · simp only [Except.ok.injEq, Prod.mk.injEq] at h; obtain ⟨_, rfl⟩ := h; exact hf
        · split at h
          · simp at h
          · simp only [Except.ok.injEq, Prod.mk.injEq] at h; obtain ⟨_, rfl⟩ := h; exact hf
  | pubcomp pkid =>
    simp only [handlePacket] at h
    split at h
    · simp at h
    · split at h <;> (simp only [Except.ok.injEq, Prod.mk.injEq] at h; obtain ⟨_, rfl⟩ := h; exact hf)
  | disconnect => simp only [handlePacket, Except.ok.injEq, Prod.mk.injEq] at h; obtain ⟨_, rfl⟩ := h; exact hf
  | other => simp only [handlePacket, Except.ok.injEq, Prod.mk.injEq] at h; obtain ⟨_, rfl⟩ := h; exact hf

/-- C06, one batch: the replies are appended in packet order, for the packets up to and
    including the one that stops the batch (all of them if none does) -/
theorem handlePackets_replies (id : Nat) (cid : String) : ∀ (pkts : List Packet) {s s' : RState} {fl fl' : Flags},
    handlePackets s id cid pkts fl = .ok (s', fl') →
    ∃ k as, k ≤ pkts.length ∧ Replies (pkts.take k) as ∧ Appended s s' id as ∧
      (fl'.stop = false → k = pkts.length) ∧
      ((∃ p ∈ pkts.take k, p.forcesAck = true) → fl'.forceAck = true) ∧
      (fl.forceAck = true → fl'.forceAck = true)
  | [], s, s', fl, fl', h => by
    simp only [handlePackets, Except.ok.injEq, Prod.mk.injEq] at h; obtain ⟨rfl, rfl⟩ := h
    exact ⟨0, [], Nat.le_refl _, .nil, Appended.of_frame (AckFrame.refl _) id, fun _ => rfl, by simp, fun h0 => h0⟩
  | p :: rest, s, s', fl, fl', h => by
    simp only [handlePackets] at h
    split at h
    · simp at h
    · rename_i s1 fl1 h1
      obtain ⟨as, r1, a1, f1⟩ := handlePacket_reply h1
      have m1 := handlePacket_forceAck_mono h1
      split at h
      · rename_i hstop
        simp only [Except.ok.injEq, Prod.mk.injEq] at h; obtain ⟨rfl, rfl⟩ := h
        refine ⟨1, as, by simp, ?_, a1, fun hs => by simp [hstop] at hs, ?_, m1⟩
        · simpa using Replies.cons r1 .nil
        · intro ⟨q, hq, hf⟩
          simp at hq; subst hq; exact f1 hf
      · obtain ⟨k, bs, hk, r2, a2, hs, hf2, m2⟩ := handlePackets_replies id cid rest h
        refine ⟨k + 1, as ++ bs, by simp; omega, ?_, a1.trans a2, fun h' => by simp [hs h'], ?_, fun h0 => m2 (m1 h0)⟩
        · simpa using Replies.cons r1 r2
        · intro ⟨q, hq, hf⟩
          simp only [List.take_succ_cons, List.mem_cons] at hq
          rcases hq with rfl | hq
          · exact m2 (f1 hf)
          · exact hf2 ⟨q, hq, hf⟩

end Router
