/-
The liveness invariant `GL` for shared groups holds in every reachable state (below the no-overflow
bound, `max_outgoing_packet_count > 0`); completeness at idle for a shared group.
-/
import Proofs.Lemmas.Router.Rp9_Session
namespace Router
open Router.Rp3
open CommitLog (Rep logC Issued U64 cursorAbs)

theorem handleDevicePayload_gl {s s' : RState} {id : Nat} (hi : DLInv s) (hcs : CS s) (hg : GL s)
    (h : handleDevicePayload s id = .ok s') : GL s' := by
  unfold handleDevicePayload at h
  split at h
  · simp only [Except.ok.injEq] at h; subst h; exact hg
  · rename_i c hc
    simp only [] at h
    have g0 : GL (setLink s c.link { getLink s c.link with ibuf := [] }) := hg.step (LStep.of_conns rfl rfl rfl rfl rfl)
    have i0 : DLInv (setLink s c.link { getLink s c.link with ibuf := [] }) := hi.of_dkey rfl
    have c0 : CS (setLink s c.link { getLink s c.link with ibuf := [] }) := hcs.step0 (CStep.of_conns rfl rfl rfl rfl rfl)
    split at h
    · simp at h
    · rename_i s1 fl h1
      have g1 := handlePackets_gl _ i0 g0 h1
      have c1 := (handlePackets_cs _ i0 c0 h1).1
      split at h
      · simp at h
      · rename_i s2 h2
        have gc2 : GL s2 ∧ CS s2 := by
          split at h2
          · exact ⟨g1.step (reschedule_lstep h2), c1.step0 (reschedule_cstep h2)⟩
          · simp only [Except.ok.injEq] at h2; subst h2; exact ⟨g1, c1⟩
        split at h
        · simp at h
        · rename_i s3 h3
          have gc3 : GL s3 ∧ CS s3 := by
            split at h3
            · exact ⟨gc2.1.step (drain_all_lstep h3), gc2.2.step0 (drain_all_cstep h3)⟩
            · simp only [Except.ok.injEq] at h3; subst h3; exact gc2
          split at h
          · simp at h
          · rename_i s4 h4
            have g4 := (wakeTurnMoved_gl gc3.1 h4).1
            have c4 := gc3.2.step0 (wakeTurnMoved_cstep h4)
            split at h
            · exact handleDisconnection_gl g4 c4 h
            · simp only [Except.ok.injEq] at h; subst h; exact g4

/-- one step keeps `GL` -/
theorem step_gl {s s' : RState} {op : Op} {out : Out} (h3 : Inv3 s) (hi : DLInv s) (hno : NoOverflow s) (hcs : CS s)
    (hpos : 0 < s.config.maxOutgoingPacketCount) (hq : QI s) (hg : GL s) (hs : step s op = .ok (s', out)) : GL s' := by
  have hb := h3.inv2.binv
  cases op with
  | connect spec =>
    simp only [step] at hs
    split at hs
    · simp at hs
    · rename_i s1 hc
      simp only [Except.ok.injEq, Prod.mk.injEq] at hs; obtain ⟨rfl, _⟩ := hs
      exact handleNewConnection_gl hb h3.inv2.inv1.adm hq hcs hg hc
  | push l p =>
    simp only [step] at hs
    split at hs
    all_goals
      simp only [Except.ok.injEq, Prod.mk.injEq] at hs; obtain ⟨rfl, _⟩ := hs
      first | exact hg | exact hg.step (LStep.of_conns rfl rfl rfl rfl rfl)
  | event id e =>
    simp only [step] at hs
    split at hs
    · simp at hs
    · rename_i s1 he
      simp only [Except.ok.injEq, Prod.mk.injEq] at hs; obtain ⟨rfl, _⟩ := hs
      cases e with
      | deviceData => exact handleDevicePayload_gl hi hcs hg he
      | ready =>
        simp only [events] at he
        split at he
        · exact hg.step (reschedule_lstep he)
        · simp only [Except.ok.injEq] at he; subst he; exact hg
      | disconnect => exact handleDisconnection_gl (id := id) (r := none) hg hcs he
      | publishWill c => exact hg.step (handleLastWill_lstep he)
      | shadow f => exact hg.step (handleShadow_lstep he)
      | sendMeters => simp only [events, Except.ok.injEq] at he; subst he; exact hg
      | sendAlerts => simp only [events, Except.ok.injEq] at he; subst he; exact hg
  | consume =>
    simp only [step] at hs
    split at hs
    · simp at hs
    · rename_i s1 b hc
      simp only [Except.ok.injEq, Prod.mk.injEq] at hs; obtain ⟨rfl, _⟩ := hs
      exact (consume_gl hi hno hcs hpos hg hc).1
  | drain l =>
    simp only [step] at hs
    split at hs
    · split at hs
      all_goals
        simp only [Except.ok.injEq, Prod.mk.injEq] at hs; obtain ⟨rfl, _⟩ := hs
        first | exact hg | exact hg.step (LStep.of_conns rfl rfl rfl rfl rfl)
    · simp only [Except.ok.injEq, Prod.mk.injEq] at hs; obtain ⟨rfl, _⟩ := hs; exact hg

theorem GL.init (cfg : Config) : GL (init cfg) :=
  ⟨by simp [Router.init], fun p hp => by simp [Router.init] at hp, fun p hp => by simp [Router.init] at hp,
   fun p hp => by simp [Router.init] at hp⟩

/-- `GL` holds in every reachable state whose filter logs are below the no-overflow bound -/
theorem GL.reachable {cfg : Config} (h1 : 1 ≤ cfg.maxSegmentSize) (h2 : 1 ≤ cfg.maxSegmentCount)
    (hpos : 0 < cfg.maxOutgoingPacketCount) {s : RState} (hr : Reachable cfg s) (hno : NoOverflow s) : GL s := by
  have key : Reachable cfg s ∧ DLInv s ∧ (NoOverflow s → GL s) := by
    refine hr.induction (fun s => Reachable cfg s ∧ DLInv s ∧ (NoOverflow s → GL s))
      ⟨reachable_init cfg, init_inv cfg h1 h2, fun _ => GL.init cfg⟩ ?_
    intro s o op s' out ⟨hrs, hi, hgs⟩ hstep
    have hi0 : DLInv ({ s with oracle := o } : RState) := hi.of_dkey rfl
    have hrs' : Reachable cfg s' := hrs.step hstep
    have hi' : DLInv s' := step_inv hi0 hstep
    refine ⟨hrs', hi', fun hno' => ?_⟩
    have hcfg : s'.config = s.config := by rw [config_reachable hrs', config_reachable hrs]
    have hno0 : NoOverflow ({ s with oracle := o } : RState) :=
      NoOverflow.back hi' (step_mono hi0 hstep) hcfg hno'
    have hcs : CS ({ s with oracle := o } : RState) := (CS.reachable h1 h2 hrs hno0).oracle o
    have hq : QI ({ s with oracle := o } : RState) := (QI.reachable h1 h2 hpos hrs hno0).oracle o
    have hpos0 : 0 < ({ s with oracle := o } : RState).config.maxOutgoingPacketCount := by
      show 0 < s.config.maxOutgoingPacketCount
      rw [config_reachable hrs]; exact hpos
    have hg0 : GL ({ s with oracle := o } : RState) := (hgs hno0).step (LStep.of_conns rfl rfl rfl rfl rfl)
    exact step_gl ((Inv3.reachable hrs).oracle o) hi0 hno0 hcs hpos0 hq hg0 hstep
  exact key.2.2 hno

end Router
