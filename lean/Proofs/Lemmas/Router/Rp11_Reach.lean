/-
C06 "replies are not withheld at idle": disconnection, CONNECT, the events, `consume`; the invariant
holds in every reachable state.
-/
import Proofs.Lemmas.Router.Rp11_Packets
namespace Router
open Router.Rp3

theorem handleDisconnection_arel {s s' : RState} {id : Nat} {r : Option String}
    (hd : handleDisconnection s id r = .ok s') : ARel s s' := by
  cases hc : getConn s id with
  | none => rw [handleDisconnection_missing s id r hc] at hd; cases hd; exact ARel.refl _
  | some c =>
    rw [Router.handleDisconnection_eq] at hd
    simp only [hc] at hd
    refine ARel.trans (fun j d hd' => ?_) (wakeParked_arel hd)
    obtain ⟨k1, _⟩ := hdFinal_fields s id c r
    have hget : getConn (hdFinal s id c r) j = if j = id then none else getConn s j := by
      unfold getConn; rw [k1, Slab.get?_remove]
    rw [hget] at hd'
    split at hd'
    · cases hd'
    · exact ⟨d, hd', AKeep.refl d⟩

theorem hnRegister_ai {s s' : RState} {spec : ConnectSpec} (hs : AI s) (hd : DInv s) (ha : AdmInv s)
    (hnone : alookup spec.clientId s.connectionMap = none) (hroom : s.conns.len < s.config.maxConnections)
    (h : hnRegister s spec = .ok s') : AI s' := by
  obtain ⟨_, hre⟩ := hnRegister_ok h
  obtain ⟨e1, e2, e3⟩ := hnPre_core s spec
  obtain ⟨_, hvac, hnew, hold⟩ := AdmInv.register (conn' := { hnConn spec (hnRestored s spec) with
      acks := { committed := hnAcks spec (hnKey s spec) (hnSession s spec).isSome (hnRestored s spec) } })
    ha hnone hroom rfl e1 e2 e3
  have hnew' : getConn (hnPre s spec) (hnKey s spec) = some _ := hnew
  have hold' : ∀ j, j ≠ hnKey s spec → getConn (hnPre s spec) j = getConn s j := hold
  have hbusy := hnRestored_busy hd spec
  refine AI.rel (fun j d hd' e => ?_) (reschedule_arel hre)
  by_cases hj : j = hnKey s spec
  · subst hj; rw [hnew'] at hd'; cases hd'
    have : (hnTracker spec (hnRestored s spec)).status = .paused .caughtup := e
    rw [hbusy] at this; cases this
  · rw [hold' j hj] at hd'; exact hs j d hd' e

theorem handleNewConnection_ai {s s' : RState} {spec : ConnectSpec} (hb : BInv s) (ha : AdmInv s) (hs : AI s)
    (h : handleNewConnection s spec = .ok s') : AI s' := by
  rw [Router.handleNewConnection_eq] at h
  simp only [] at h
  have h0 : BInv (setLink s spec.link {}) := ⟨hb.1.congr rfl rfl rfl rfl rfl rfl rfl, hb.2⟩
  have a0 : AdmInv (setLink s spec.link {}) := ha.congr rfl rfl rfl
  have s0 : AI (setLink s spec.link {}) := hs.rel (ARel.of_conns rfl rfl)
  split at h
  · simp only [Except.ok.injEq] at h; subst h
    exact s0.rel (ARel.of_conns rfl rfl)
  · split at h
    · simp at h
    · rename_i s1 h1
      obtain ⟨a1, hnone, _⟩ := hnTakeover_spec a0 h1
      have t1 : BInv s1 ∧ AI s1 := by
        unfold hnTakeover at h1
        split at h1
        · exact ⟨Good.ok_of (A := fun _ => True) h1 (handleDisconnection_good h0), s0.rel (handleDisconnection_arel h1)⟩
        · simp only [Except.ok.injEq] at h1; subst h1; exact ⟨h0, s0⟩
      split at h
      · simp only [Except.ok.injEq] at h; subst h
        exact t1.2.rel (ARel.of_conns rfl rfl)
      · exact hnRegister_ai t1.2 t1.1.1 a1 hnone (by omega) h

/-- a DeviceData event: the replies committed for the batch are followed by the reschedule (or by the
    removal of the connection) before the event ends -/
theorem handleDevicePayload_ai {s s' : RState} {id : Nat} (hs : AI s) (h : handleDevicePayload s id = .ok s') : AI s' := by
  unfold handleDevicePayload at h
  split at h
  · simp only [Except.ok.injEq] at h; subst h; exact hs
  · rename_i c hc
    simp only [] at h
    have s0 : AIx (setLink s c.link { getLink s c.link with ibuf := [] }) id (FlagsOwe {}) :=
      (hs.rel (ARel.of_conns rfl rfl)).toX _ _
    split at h
    · simp at h
    · rename_i s1 fl h1
      have q1 := handlePackets_aix _ s0 h1
      split at h
      · simp at h
      · rename_i s2 h2
        -- after the reschedule for the committed replies only a pending disconnection is an excuse
        have q2 : AIx s2 id (fl.disconnect = true) := by
          by_cases hfa : fl.forceAck = true
          · simp only [hfa, if_true] at h2
            exact (reschedule_discharges q1 h2 (.inl rfl)).toX _ _
          · simp only [hfa, Bool.false_eq_true, if_false, Except.ok.injEq] at h2; subst h2
            exact q1.weaken fun x => x.elim (fun y => absurd y hfa) (fun y => y)
        split at h
        · simp at h
        · rename_i s3 h3
          have q3 : AIx s3 id (fl.disconnect = true) := by
            split at h3
            · exact q2.rel (drain_all_arel h3)
            · simp only [Except.ok.injEq] at h3; subst h3; exact q2
          split at h
          · simp at h
          · rename_i s4 h4
            have q4 := q3.rel (wakeTurnMoved_arel h4)
            by_cases hdc : fl.disconnect = true
            · simp only [hdc, if_true] at h
              have hgone := handleDisconnection_gone h
              have m := handleDisconnection_arel h
              intro j d hd e
              have hj : j ≠ id := fun e' => by rw [e', hgone] at hd; cases hd
              rcases (q4.rel m) j d hd e with h' | ⟨h', _⟩
              · exact h'
              · exact absurd h' hj
            · simp only [hdc, Bool.false_eq_true, if_false, Except.ok.injEq] at h; subst h
              exact q4.toAI hdc

theorem handleLastWill_arel {s s' : RState} {cid : String} (h : handleLastWill s cid = .ok s') : ARel s s' := by
  unfold handleLastWill at h
  split at h
  · simp only [Except.ok.injEq] at h; subst h; exact ARel.refl _
  · simp only [] at h
    have r0 : ARel s (({ s with lastWills := aremove cid s.lastWills } : RState).g (.willFired cid)) := ARel.of_conns rfl rfl
    split at h
    · simp only [Except.ok.injEq] at h; subst h; exact r0
    · rename_i topic ht
      split at h
      · simp at h
      · rename_i s2 idxs h2
        split at h
        · simp at h
        · rename_i s3 h3
          refine ARel.trans ?_ (drain_all_arel h)
          refine (ARel.trans ?_ (dlMatches_arel h2)).trans (appendToFilters_arel idxs h3)
          exact (r0.trans (updateRetained_arel _ _ _)).trans (ARel.of_conns rfl rfl)

theorem handleShadow_arel {s s' : RState} {id : Nat} {f : String} (h : handleShadow s id f = .ok s') : ARel s s' :=
  ARel.of_conns (handleShadow_core h).1 (by
    unfold handleShadow at h
    split at h
    · simp only [Except.ok.injEq] at h; subst h; rfl
    · split at h
      · simp only [Except.ok.injEq] at h; subst h; rfl
      · split at h
        · simp only [Except.ok.injEq] at h; subst h; rfl
        · simp only [Except.ok.injEq] at h; subst h
          simp only [wakeLink]; split <;> rfl)

/-! ### `consume`: the ack log is flushed first -/

theorem ARel.of_conns' {s s' : RState} (hc : s'.conns = s.conns) : ARel s s' :=
  fun j c' h => ⟨c', by unfold getConn at h ⊢; rw [← hc]; exact h, AKeep.refl _⟩

theorem ARel.of_set' {s s' : RState} {id : Nat} {c c' : Conn} (hc : getConn s id = some c)
    (hconns : s'.conns = s.conns.set id c') (hk : AKeep c c') : ARel s s' := by
  have hget : ∀ j, getConn s' j = if j = id then some c' else getConn s j := fun j => by
    unfold getConn; rw [hconns]; exact Slab.get?_set_live hc j c'
  intro j d hd
  rw [hget] at hd
  by_cases hj : j = id
  · subst hj; simp only [if_true, Option.some.injEq] at hd; subst hd; exact ⟨c, hc, hk⟩
  · simp only [hj, if_false] at hd; exact ⟨d, hd, AKeep.refl d⟩

/-- the invariant, and the ack log of `id` is empty -/
def ALI (s : RState) (id : Nat) : Prop := AI s ∧ ∀ c, getConn s id = some c → c.acks.committed = []

theorem ALI.rel {s s' : RState} {id : Nat} (h : ALI s id) (m : ARel s s') : ALI s' id :=
  ⟨h.1.rel m, fun c' hc' => by
    obtain ⟨c, hc, k⟩ := m id c' hc'
    exact k.2 (h.2 c hc)⟩

theorem ALI.paused {s s' : RState} {id : Nat} {r : PauseReason} (h : ALI s id) (hp : pause s id r = .ok s') : ALI s' id := by
  unfold pause at hp
  split at hp
  · simp at hp
  · split at hp
    · simp at hp
    · rename_i c hc
      simp only [Except.ok.injEq] at hp; subst hp
      have hc' : getConn s id = some c := hc
      have hget := getConn_setConn_live (s := { s with readyqueue := s.readyqueue.dropLast }) hc'
        { c with tracker := { c.tracker with status := .paused r } }
      have hcm := h.2 c hc'
      refine ⟨fun j d hd e => ?_, fun d hd => ?_⟩
      · rw [hget] at hd
        by_cases hj : j = id
        · subst hj; simp only [if_true, Option.some.injEq] at hd; subst hd; exact hcm
        · simp only [hj, if_false] at hd; exact h.1 j d hd e
      · rw [hget] at hd; simp only [if_true, Option.some.injEq] at hd; subst hd; exact hcm

theorem consumeLoop_ai {id : Nat} : ∀ (fuel : Nat) {s s' : RState} {requests skipped : List DataRequest},
    ALI s id → consumeLoop s id fuel requests skipped = .ok s' → AI s'
  | 0, s, s', requests, skipped, h, hc => by
    simp only [consumeLoop] at hc
    exact h.1.rel (trackv_arel hc)
  | fuel + 1, s, s', requests, skipped, h, hc => by
    cases requests with
    | nil =>
      simp only [consumeLoop] at hc
      split at hc
      · simp at hc
      · rename_i s1 h1
        have a : ALI s1 id := by
          split at h1
          · exact h.paused h1
          · simp only [Except.ok.injEq] at h1; subst h1; exact h
        exact a.1.rel (trackv_arel hc)
    | cons req rest =>
      simp only [consumeLoop] at hc
      split at hc
      · simp at hc
      · rename_i s1 req1 st h1
        have h2 : ALI (noteTurn s s1 req1) id := h.rel ((forwardDeviceData_arel h1).trans (noteTurn_arel s s1 req1))
        split at hc
        · split at hc
          · simp at hc
          · rename_i s3 h3
            exact (h2.paused h3).1.rel (trackv_arel hc)
        · split at hc
          · simp at hc
          · rename_i s3 h3
            exact (h2.paused h3).1.rel (trackv_arel hc)
        · split at hc
          · simp at hc
          · rename_i s3 h3
            exact consumeLoop_ai fuel (h2.rel (park_arel h3)) hc
        · exact consumeLoop_ai fuel h2 hc
        · exact consumeLoop_ai fuel h2 hc

/-- `ack_device_data` empties the ack log of `id` -/
theorem ackDeviceData_committed {s : RState} {id : Nat} {d : Conn} (hd : getConn (ackDeviceData s id) id = some d) :
    d.acks.committed = [] := by
  unfold ackDeviceData at hd
  split at hd
  · rename_i hnone
    rw [hnone] at hd; cases hd
  · rename_i c0 hc0
    split at hd
    · rename_i hemp
      rw [hc0] at hd; cases hd
      simpa using hemp
    · have hc1 : getConn (wakeLink (pushNotifs s c0.link (c0.acks.committed.map Notif.ack)) c0.link) id = some c0 := by
        have : (wakeLink (pushNotifs s c0.link (c0.acks.committed.map Notif.ack)) c0.link).conns = s.conns := rfl
        unfold getConn at hc0 ⊢; rw [this]; exact hc0
      rw [getConn_setConn_live hc1] at hd
      simp only [if_true, Option.some.injEq] at hd; subst hd; rfl

theorem consume_ai {s s' : RState} {b : Bool} (hs : AI s) (hc : consume s = .ok (s', b)) : AI s' := by
  unfold consume at hc
  split at hc
  · simp only [Except.ok.injEq, Prod.mk.injEq] at hc; obtain ⟨rfl, _⟩ := hc
    exact hs.rel (ARel.of_conns' rfl)
  · rename_i id rq hrq
    simp only [] at hc
    split at hc
    · simp only [Except.ok.injEq, Prod.mk.injEq] at hc; obtain ⟨rfl, _⟩ := hc
      exact hs.rel (ARel.of_conns' rfl)
    · rename_i c hcn
      split at hc
      · simp at hc
      · rename_i s1 h1
        split at hc
        · simp at hc
        · rename_i s2 h2
          simp only [Except.ok.injEq, Prod.mk.injEq] at hc; obtain ⟨rfl, _⟩ := hc
          refine AI.rel (consumeLoop_ai _ ?_ h1) (wakeTurnMoved_arel h2)
          have hcn' : getConn s id = some c := hcn
          have la : ARel s ({ setConn { s with readyqueue := rq } id { c with tracker := { c.tracker with requests := [] } }
              with readyqueue := (setConn { s with readyqueue := rq } id { c with tracker := { c.tracker with requests := [] } }).readyqueue ++ [id] } : RState) :=
            ARel.of_set' (c' := { c with tracker := { c.tracker with requests := [] } }) hcn' rfl ⟨fun h => h, fun h => h⟩
          refine ⟨(hs.rel la).rel (ackDeviceData_arel _ id), fun d hd => ?_⟩
          exact ackDeviceData_committed hd

theorem step_ai {s s' : RState} {op : Op} {out : Out} (h3 : Inv3 s) (hs : AI s) (hst : step s op = .ok (s', out)) : AI s' := by
  have hb := h3.inv2.binv
  cases op with
  | connect spec =>
    simp only [step] at hst
    split at hst
    · simp at hst
    · rename_i s1 hc
      simp only [Except.ok.injEq, Prod.mk.injEq] at hst; obtain ⟨rfl, _⟩ := hst
      exact handleNewConnection_ai hb h3.inv2.inv1.adm hs hc
  | push l p =>
    simp only [step] at hst
    split at hst
    all_goals
      simp only [Except.ok.injEq, Prod.mk.injEq] at hst; obtain ⟨rfl, _⟩ := hst
      first | exact hs | exact hs.rel (ARel.of_conns rfl rfl)
  | event id e =>
    simp only [step] at hst
    split at hst
    · simp at hst
    · rename_i s1 he
      simp only [Except.ok.injEq, Prod.mk.injEq] at hst; obtain ⟨rfl, _⟩ := hst
      cases e with
      | deviceData => exact handleDevicePayload_ai hs he
      | ready =>
        simp only [events] at he
        split at he
        · exact hs.rel (reschedule_arel he)
        · simp only [Except.ok.injEq] at he; subst he; exact hs
      | disconnect => exact hs.rel (handleDisconnection_arel (id := id) (r := none) he)
      | publishWill c => exact hs.rel (handleLastWill_arel he)
      | shadow f => exact hs.rel (handleShadow_arel he)
      | sendMeters => simp only [events, Except.ok.injEq] at he; subst he; exact hs
      | sendAlerts => simp only [events, Except.ok.injEq] at he; subst he; exact hs
  | consume =>
    simp only [step] at hst
    split at hst
    · simp at hst
    · rename_i s1 b hc
      simp only [Except.ok.injEq, Prod.mk.injEq] at hst; obtain ⟨rfl, _⟩ := hst
      exact consume_ai hs hc
  | drain l =>
    simp only [step] at hst
    split at hst
    · split at hst
      all_goals
        simp only [Except.ok.injEq, Prod.mk.injEq] at hst; obtain ⟨rfl, _⟩ := hst
        first | exact hs | exact hs.rel (ARel.of_conns rfl rfl)
    · simp only [Except.ok.injEq, Prod.mk.injEq] at hst; obtain ⟨rfl, _⟩ := hst; exact hs

theorem AI.init (cfg : Config) : AI (init cfg) := fun j c h => by simp [getConn, Router.init, Slab.get?] at h

/-- in every reachable state a `Paused(Caughtup)` connection has an empty ack log -/
theorem AI.reachable {cfg : Config} {s : RState} (hr : Reachable cfg s) : AI s := by
  have key : Reachable cfg s ∧ AI s := by
    refine hr.induction (fun s => Reachable cfg s ∧ AI s) ⟨reachable_init cfg, AI.init cfg⟩ ?_
    intro s o op s' out ⟨hrs, hs⟩ hstep
    exact ⟨hrs.step hstep, step_ai ((Inv3.reachable hrs).oracle o) (hs.rel (ARel.of_conns rfl rfl)) hstep⟩
  exact key.2

end Router
