/-
C14 (isolation): the primitive operations keep every connection with its client id and its subscriptions
(`EStep`; the pass of Rp10_Steps for the relation of Rp13_Keep).
-/
import Proofs.Lemmas.Router.Rp13_Keep
namespace Router

theorem reschedule_estep {s s' : RState} {id : Nat} {r : SchedReason} (h : reschedule s id r = .ok s') : EStep s s' := by
  unfold reschedule at h
  split at h
  · simp at h
  · rename_i c hc
    split at h
    · simp at h
    · rename_i t woke ht
      simp only [Except.ok.injEq] at h; subst h
      have e := tryReady_some ht
      split
      · exact EStep.of_set (c' := { c with tracker := t }) hc rfl e rfl rfl rfl rfl rfl
      · exact EStep.of_set (c' := { c with tracker := t }) hc rfl e rfl rfl rfl rfl rfl

theorem commitAck_estep {s s' : RState} {id : Nat} {a : Ack} (h : commitAck s id a = .ok s') : EStep s s' := by
  unfold commitAck at h
  split at h
  · simp at h
  · rename_i c hc
    simp only [Except.ok.injEq] at h; subst h
    exact EStep.of_set (c' := { c with acks := _ }) hc rfl rfl rfl rfl rfl rfl rfl

theorem pause_estep {s s' : RState} {id : Nat} {r : PauseReason} (h : pause s id r = .ok s') : EStep s s' := by
  unfold pause at h
  split at h
  · simp at h
  · split at h
    · simp at h
    · rename_i c hc
      simp only [Except.ok.injEq] at h; subst h
      have hc' : getConn s id = some c := hc
      exact EStep.of_set (c' := { c with tracker := { c.tracker with status := .paused r } }) hc' rfl rfl rfl rfl rfl rfl rfl

theorem ackDeviceData_estep (s : RState) (id : Nat) : EStep s (ackDeviceData s id) := by
  unfold ackDeviceData
  split
  · exact EStep.refl s
  · rename_i c hc
    split
    · exact EStep.refl s
    · exact EStep.of_set (c' := { c with acks := _ }) hc rfl rfl rfl rfl rfl rfl rfl

theorem updateRetained_estep (s : RState) (topic : String) (p : Pub) : EStep s (updateRetained s topic p) := by
  unfold updateRetained
  split
  · exact EStep.of_conns rfl rfl rfl rfl rfl
  · split
    · exact EStep.of_conns rfl rfl rfl rfl rfl
    · exact EStep.refl _

theorem dlMatches_estep {s s' : RState} {topic : String} {v : List Nat} (h : dlMatches s topic = .ok (s', v)) : EStep s s' := by
  unfold dlMatches at h
  split at h
  · simp only [Except.ok.injEq, Prod.mk.injEq] at h; obtain ⟨rfl, _⟩ := h; exact EStep.refl _
  · split at h
    · simp only [] at h
      split at h
      · simp only [Except.ok.injEq, Prod.mk.injEq] at h; obtain ⟨rfl, _⟩ := h
        split <;> exact EStep.of_conns rfl rfl rfl rfl rfl
      · simp at h
    · simp at h

theorem readRetained_estep {s s' : RState} {f : String} {ps : List Pub} (h : readRetained s f = .ok (s', ps)) : EStep s s' := by
  unfold readRetained at h
  simp only [] at h
  split at h
  · split at h
    · simp only [Except.ok.injEq, Prod.mk.injEq] at h; obtain ⟨rfl, _⟩ := h; exact EStep.of_conns rfl rfl rfl rfl rfl
    · simp at h
  · simp at h

theorem updateNextClient_estep {s s' : RState} {g g' : SharedGroup} (h : updateNextClient s g = .ok (s', g')) : EStep s s' := by
  unfold updateNextClient at h
  split at h
  · simp only [Except.ok.injEq, Prod.mk.injEq] at h; obtain ⟨rfl, _⟩ := h; exact EStep.refl _
  · split at h
    · simp at h
    · simp only [Except.ok.injEq, Prod.mk.injEq] at h; obtain ⟨rfl, _⟩ := h; exact EStep.refl _
  · split at h
    · simp at h
    · split at h
      · split at h
        · simp only [Except.ok.injEq, Prod.mk.injEq] at h; obtain ⟨rfl, _⟩ := h; exact EStep.of_conns rfl rfl rfl rfl rfl
        · simp at h
      · simp at h


theorem noteTurn_estep (s0 s1 : RState) (req : DataRequest) : EStep s1 (noteTurn s0 s1 req) := by
  obtain ⟨tm, e⟩ := noteTurn_eq s0 s1 req
  rw [e]; exact ⟨EConn.of_conns rfl, rfl⟩


theorem track_estep {s s' : RState} {id : Nat} {r0 : DataRequest} (h : track s id r0 = .ok s') : EStep s s' := by
  unfold track at h
  split at h
  · simp at h
  · rename_i c hc
    simp only [Except.ok.injEq] at h; subst h
    exact EStep.of_setc (c' := { c with tracker := _ }) hc rfl rfl rfl rfl rfl rfl

theorem trackv_estep {s s' : RState} {id : Nat} {rs : List DataRequest} (h : trackv s id rs = .ok s') : EStep s s' := by
  unfold trackv at h
  split at h
  · simp at h
  · rename_i c hc
    simp only [Except.ok.injEq] at h; subst h
    exact EStep.of_setc (c' := { c with tracker := _ }) hc rfl rfl rfl rfl rfl rfl

theorem EStep.of_native_set {s s' : RState} {i : Nat} {fd fd' : FilterData} (_hfd : s.datalog.native[i]? = some fd)
    (hc : s'.conns = s.conns) (_hnat : s'.datalog.native = s.datalog.native.set i fd')
    (_hw : fd'.waiters = [] ∨ (fd'.log = fd.log ∧ ∀ w ∈ fd'.waiters, w ∈ fd.waiters))
    (_hfi : s'.datalog.filterIndexes = s.datalog.filterIndexes) (hsh : s'.shared = s.shared)
    (_htm : s'.turnMoved = s.turnMoved) : EStep s s' := ⟨EConn.of_conns hc, hsh⟩


theorem appendToFilter_estep {s s' : RState} {idx : Nat} {p : Pub} (h : appendToFilter s idx p = .ok s') : EStep s s' := by
  unfold appendToFilter at h
  split at h
  · simp at h
  · rename_i fd hfd
    simp only [Except.ok.injEq] at h
    refine EStep.of_native_set (fd' := { fd with log := (fd.log.append p (pubSize p)).1, waiters := [] }) hfd
      (by rw [← h]; split <;> rfl) (by rw [← h]; split <;> rfl) (.inl rfl) (by rw [← h]; split <;> rfl)
      (by rw [← h]; split <;> rfl) (by rw [← h]; split <;> rfl)

theorem appendToFilters_estep : ∀ (idxs : List Nat) {s s' : RState} {p : Pub},
    appendToFilters s idxs p = .ok s' → EStep s s'
  | [], s, s', p, h => by simp only [appendToFilters, Except.ok.injEq] at h; subst h; exact EStep.refl _
  | i :: is, s, s', p, h => by
    simp only [appendToFilters] at h
    split at h
    · simp at h
    · rename_i s1 h1
      exact (appendToFilter_estep h1).trans (appendToFilters_estep is h)

theorem drainNotifications_estep : ∀ (ns : List (Nat × DataRequest)) {s s' : RState},
    drainNotifications s ns = .ok s' → EStep s s'
  | [], s, s', h => by simp only [drainNotifications, Except.ok.injEq] at h; subst h; exact EStep.refl _
  | (id, r0) :: rest, s, s', h => by
    simp only [drainNotifications] at h
    split at h
    · simp at h
    · rename_i s1 h1
      split at h
      · simp at h
      · rename_i s2 h2
        exact ((track_estep h1).trans (reschedule_estep h2)).trans (drainNotifications_estep rest h)

theorem drain_all_estep {s s' : RState} (h : drainNotifications { s with notifications := [] } s.notifications = .ok s') :
    EStep s s' :=
  (EStep.of_conns (s := s) (s' := { s with notifications := [] }) rfl rfl rfl rfl rfl).trans (drainNotifications_estep _ h)

theorem wakeParkedSorted_estep : ∀ (logs : List Nat) {s s' : RState}, wakeParkedSorted s logs = .ok s' → EStep s s'
  | [], s, s', h => by
    simp only [wakeParkedSorted, Except.ok.injEq] at h; subst h
    exact EStep.refl _
  | i :: rest, s, s', h => by
    rw [wakeParkedSorted_cons] at h
    split at h
    · exact wakeParkedSorted_estep rest h
    · rename_i fd hfd
      split at h
      · simp at h
      · rename_i s2 h2
        have a : EStep s (clearWaiters s i fd) := ⟨EConn.of_conns rfl, rfl⟩
        exact (a.trans (drainNotifications_estep _ h2)).trans (wakeParkedSorted_estep rest h)


theorem wakeParked_estep {s s' : RState} {logs : List Nat} (h : wakeParked s logs = .ok s') : EStep s s' :=
  wakeParkedSorted_estep _ h


theorem appendToCommitlog_estep {s s' : RState} {id : Nat} {p : Pub} {e : Option AppendErr}
    (h : appendToCommitlog s id p = .ok (s', e)) : EStep s s' := by
  unfold appendToCommitlog at h
  split at h
  · simp at h
  · rename_i c hc
    simp only [] at h
    split at h
    · simp only [Except.ok.injEq, Prod.mk.injEq] at h; obtain ⟨rfl, _⟩ := h; exact EStep.refl _
    · split at h
      · simp only [Except.ok.injEq, Prod.mk.injEq] at h; obtain ⟨rfl, _⟩ := h; exact EStep.refl _
      · rename_i s1 p1 hr
        have h1 : EStep s s1 := by
          split at hr
          · simp only [Except.ok.injEq, Prod.mk.injEq] at hr; obtain ⟨rfl, _⟩ := hr; exact EStep.refl _
          · split at hr
            · simp at hr
            · split at hr
              · split at hr
                · simp at hr
                · simp only [Except.ok.injEq, Prod.mk.injEq] at hr; obtain ⟨rfl, _⟩ := hr; exact EStep.refl _
              · split at hr
                · simp at hr
                · simp only [Except.ok.injEq, Prod.mk.injEq] at hr; obtain ⟨rfl, _⟩ := hr
                  exact EStep.of_set (c' := { c with topicAliases := _ }) hc rfl rfl rfl rfl rfl rfl rfl
        refine h1.trans ?_
        split at h
        · simp only [Except.ok.injEq, Prod.mk.injEq] at h; obtain ⟨rfl, _⟩ := h; exact EStep.refl _
        · rename_i topic ht
          split at h
          · simp at h
          · rename_i s2 idxs h2
            split at h
            · simp at h
            · rename_i s3 h3
              simp only [Except.ok.injEq, Prod.mk.injEq] at h; obtain ⟨rfl, _⟩ := h
              have a : EStep s1 ((updateRetained s1 topic p1).g (Ghost.accepted (some id) p1 topic)) :=
                (updateRetained_estep s1 topic p1).trans (EStep.of_conns rfl rfl rfl rfl rfl)
              exact (a.trans (dlMatches_estep h2)).trans (appendToFilters_estep idxs h3)

theorem hpPre_estep {s s' : RState} {id : Nat} {p : Pub} {fl fl' : Flags} {b : Bool}
    (h : hpPre s id p fl = .ok (s', fl', b)) : EStep s s' := by
  unfold hpPre at h
  split at h
  · split at h
    · simp at h
    · rename_i s1 h1
      simp only [Except.ok.injEq, Prod.mk.injEq] at h; obtain ⟨rfl, _⟩ := h
      exact commitAck_estep h1
  · split at h
    · split at h
      · simp at h
      · rename_i c hc
        simp only [Except.ok.injEq, Prod.mk.injEq] at h; obtain ⟨rfl, _⟩ := h
        exact EStep.of_set (c' := { c with acks := _ }) hc rfl rfl rfl rfl rfl rfl rfl
    · simp only [Except.ok.injEq, Prod.mk.injEq] at h; obtain ⟨rfl, _⟩ := h; exact EStep.refl _

theorem fdRetained_estep {s s' : RState} {req : DataRequest} {slots slots' : Nat} {ps : List (Pub × Option Cursor)}
    (h : fdRetained s req slots = .ok (s', ps, slots')) : EStep s s' := by
  unfold fdRetained at h
  split at h
  · split at h
    · simp at h
    · rename_i s1 ps1 h1
      simp only [Except.ok.injEq, Prod.mk.injEq] at h; obtain ⟨rfl, _⟩ := h
      exact readRetained_estep h1
  · simp only [Except.ok.injEq, Prod.mk.injEq] at h; obtain ⟨rfl, _⟩ := h; exact EStep.refl _


end Router
