/-
C01 / C17, `CursorSound`: every cursor the router holds is a cursor its log has issued — the
cursors of the data requests (trackers, waiter lists, notifications, saved sessions), the cursors
recorded in the outgoing windows, and the cursors of the shared groups (for the log of the group's
path). Definitions, monotonicity in the datalog (`LogMono`: logs only grow, indexes are stable), and
the transfer lemma for steps that move requests around.
-/
import Proofs.Lemmas.Router.Rp3_ReqRun
namespace Router
namespace Rp3
open CommitLog (Rep logC Issued SegMono)

/-- the cursor is an issued cursor of filter log `i` -/
def IssuedAt (d : DataLog) (i : Nat) (c : Cursor) : Prop := ∃ fd, d.native[i]? = some fd ∧ Issued (logC fd.log) c

/-- the path a group key `<share>/<path>` reads -/
def gpath (g : String) : String :=
  match g.toList.idxOf? '/' with
  | some i => String.ofList (g.toList.drop (i + 1))
  | none => g

/-- `extract_group` splits `$share/<share>/<path>` into the group key `<share>/<path>` and `<path>`;
    the path is a function of the key -/
theorem extractGroup_gpath {f g p : String} (h : extractGroup f = some (g, p)) : p = gpath g := by
  unfold extractGroup at h
  simp only [] at h
  split at h
  · split at h
    · cases h
    · rename_i i hi
      simp only [Option.some.injEq, Prod.mk.injEq] at h
      obtain ⟨rfl, rfl⟩ := h
      unfold gpath
      simp only [String.toList_ofList]
      rw [hi]
  · cases h

/-- a request's cursor is issued for the request's log; a request of a shared subscription reads
    the log of its group's path -/
def ReqOK (d : DataLog) (r : DataRequest) : Prop :=
  IssuedAt d r.filterIdx r.cursor ∧ ∀ g, r.group = some g → d.filterIdx? (gpath g) = some r.filterIdx

/-- the requests held in the state: tracked, parked, notified -/
def allReqs (s : RState) (r : DataRequest) : Prop :=
  (∃ id c, getConn s id = some c ∧ r ∈ c.tracker.requests) ∨
  (∃ fd ∈ s.datalog.native, ∃ w ∈ fd.waiters, w.2 = r) ∨
  (∃ n ∈ s.notifications, n.2 = r)

/-- the window entries that carry a cursor -/
def allWin (s : RState) (fi : Nat) (cur : Cursor) : Prop :=
  ∃ id c, getConn s id = some c ∧ ∃ e ∈ c.out.inflight, e.2.1 = fi ∧ e.2.2 = some cur

/-- a group's cursor is issued for the log of the group's path (which exists) -/
def GroupOK (d : DataLog) (p : String × SharedGroup) : Prop :=
  ∃ i, d.filterIdx? (gpath p.1) = some i ∧ IssuedAt d i p.2.cursor

structure CS (s : RState) : Prop where
  req : ∀ r, allReqs s r → ReqOK s.datalog r
  win : ∀ fi cur, allWin s fi cur → IssuedAt s.datalog fi cur
  grv : ∀ p ∈ s.graveyard, ∀ ss, p.2 = some ss → ∀ r ∈ ss.tracker.requests, ReqOK s.datalog r
  grp : ∀ p ∈ s.shared, GroupOK s.datalog p

/-- the logs only grow (issued cursors stay issued), the filter index map only grows -/
structure LogMono (d d' : DataLog) : Prop where
  logs : ∀ (i : Nat) fd, d.native[i]? = some fd → ∃ fd', d'.native[i]? = some fd' ∧ SegMono (logC fd.log) (logC fd'.log) ∧
    (logC fd.log).nextAbs ≤ (logC fd'.log).nextAbs
  fi : ∀ f i, d.filterIdx? f = some i → d'.filterIdx? f = some i

theorem LogMono.refl (d : DataLog) : LogMono d d :=
  ⟨fun _ fd h => ⟨fd, h, SegMono.refl _, Nat.le_refl _⟩, fun _ _ h => h⟩

theorem LogMono.trans {a b c : DataLog} (h1 : LogMono a b) (h2 : LogMono b c) : LogMono a c :=
  ⟨fun i fd h => by
    obtain ⟨fd1, g1, m1, n1⟩ := h1.logs i fd h
    obtain ⟨fd2, g2, m2, n2⟩ := h2.logs i fd1 g1
    exact ⟨fd2, g2, m1.trans m2, Nat.le_trans n1 n2⟩, fun f i h => h2.fi f i (h1.fi f i h)⟩

/-- the datalog's logs and index map are the same -/
theorem LogMono.of_eq {d d' : DataLog} (hl : d'.native.map (·.log) = d.native.map (·.log))
    (hf : d'.filterIndexes = d.filterIndexes) : LogMono d d' := by
  refine ⟨fun i fd h => ?_, fun f i h => by unfold DataLog.filterIdx? at h ⊢; rw [hf]; exact h⟩
  have e : (d.native.map (·.log))[i]? = some fd.log := by simp [h]
  rw [← hl] at e
  simp only [List.getElem?_map, Option.map_eq_some_iff] at e
  obtain ⟨fd', h', e'⟩ := e
  exact ⟨fd', h', by rw [e']; exact SegMono.refl _, by rw [e']; exact Nat.le_refl _⟩

theorem IssuedAt.mono {d d' : DataLog} (hm : LogMono d d') {i : Nat} {c : Cursor} (h : IssuedAt d i c) : IssuedAt d' i c := by
  obtain ⟨fd, hfd, hi⟩ := h
  obtain ⟨fd', hfd', m, _⟩ := hm.logs i fd hfd
  exact ⟨fd', hfd', CommitLog.issued_of_segMono m hi⟩

theorem ReqOK.mono {d d' : DataLog} (hm : LogMono d d') {r : DataRequest} (h : ReqOK d r) : ReqOK d' r :=
  ⟨h.1.mono hm, fun g hg => hm.fi _ _ (h.2 g hg)⟩

theorem GroupOK.mono {d d' : DataLog} (hm : LogMono d d') {p : String × SharedGroup} (h : GroupOK d p) : GroupOK d' p := by
  obtain ⟨i, h1, h2⟩ := h
  exact ⟨i, hm.fi _ _ h1, h2.mono hm⟩

/-- the transfer lemma: the datalog grew; every request / window cursor / saved session / group of
    the new state was there before, or is sound for the new datalog -/
theorem CS.transfer {s s' : RState} (h : CS s) (hm : LogMono s.datalog s'.datalog)
    (hreq : ∀ r, allReqs s' r → allReqs s r ∨ ReqOK s'.datalog r)
    (hwin : ∀ fi cur, allWin s' fi cur → allWin s fi cur ∨ IssuedAt s'.datalog fi cur)
    (hgrv : ∀ p ∈ s'.graveyard, ∀ ss, p.2 = some ss → ∀ r ∈ ss.tracker.requests,
      (∃ q ∈ s.graveyard, ∃ ss0, q.2 = some ss0 ∧ r ∈ ss0.tracker.requests) ∨ ReqOK s'.datalog r)
    (hgrp : ∀ p ∈ s'.shared, (∃ q ∈ s.shared, q.1 = p.1 ∧ q.2.cursor = p.2.cursor) ∨ GroupOK s'.datalog p) : CS s' := by
  refine ⟨fun r hr => ?_, fun fi cur hw => ?_, fun p hp ss hss r hr => ?_, fun p hp => ?_⟩
  · rcases hreq r hr with h1 | h1
    · exact (h.req r h1).mono hm
    · exact h1
  · rcases hwin fi cur hw with h1 | h1
    · exact (h.win fi cur h1).mono hm
    · exact h1
  · rcases hgrv p hp ss hss r hr with ⟨q, hq, ss0, e, hr0⟩ | h1
    · exact (h.grv q hq ss0 e r hr0).mono hm
    · exact h1
  · rcases hgrp p hp with ⟨q, hq, e1, e2⟩ | h1
    · obtain ⟨i, a, b⟩ := (h.grp q hq).mono hm
      exact ⟨i, by rw [← e1]; exact a, by rw [← e2]; exact b⟩
    · exact h1

end Rp3
end Router
