/-
C03: request conservation (`RC`) holds in every reachable state, hence the two dev-profile
assertions `debug_assert!(check_tracker_duplicates(..).is_none())` never fire: together with the
invariants of Rp1_D*.lean no step of the routing core panics.
-/
import Proofs.Lemmas.Router.Rp4_Session
namespace Router

theorem Good.and_ok {α : Type} {A : String → Prop} {P Q : α → Prop} {m : M α} (hm : Good A P m)
    (hq : ∀ a, m = .ok a → Q a) : Good A (fun a => P a ∧ Q a) m := by
  cases m with
  | ok a => exact ⟨hm, hq a rfl⟩
  | error e => cases e <;> exact hm

/-- one packet other than SUBSCRIBE keeps request conservation -/
theorem handlePacket_rc_ok {s s' : RState} {id : Nat} {cid : String} {pkt : Packet} {fl fl' : Flags}
    (hns : ∀ a b c, pkt ≠ .subscribe a b c)
    (h : handlePacket s id cid pkt fl = .ok (s', fl')) (hr : RC s) : RC s' := by
  cases pkt with
  | publish p =>
    rw [handlePacket_publish] at h
    split at h
    · simp at h
    · rename_i s1 fl1 h1
      simp only [Except.ok.injEq, Prod.mk.injEq] at h; obtain ⟨rfl, _⟩ := h
      exact RCX.view hr (hpPre_move h1)
    · rename_i s1 fl1 h1
      have a := RCX.view hr (hpPre_move h1)
      split at h
      · simp at h
      all_goals
        rename_i h2
        simp only [Except.ok.injEq, Prod.mk.injEq] at h; obtain ⟨rfl, _⟩ := h
        exact RCX.view a (appendToCommitlog_move h2)
  | subscribe pkid subId filters => exact absurd rfl (hns pkid subId filters)
  | unsubscribe pkid filters =>
    simp only [handlePacket] at h
    split at h
    · simp at h
    · split at h
      · simp at h
      · rename_i s1 rs h1
        split at h
        · simp at h
        · rename_i s2 h2
          simp only [Except.ok.injEq, Prod.mk.injEq] at h; obtain ⟨rfl, _⟩ := h
          exact RCX.view (unsubscribeFilters_rc filters h1 hr) (commitAck_move h2)
  | puback pkid =>
    simp only [handlePacket] at h
    split at h
    · simp at h
    · rename_i c hc
      have a : RC (setConn s id { c with out := (c.out.registerAck pkid).1 }) :=
        RCX.of_set (c' := { c with out := (c.out.registerAck pkid).1 }) hr hc rfl rfl rfl rfl rfl rfl rfl
      split at h
      · simp only [Except.ok.injEq, Prod.mk.injEq] at h; obtain ⟨rfl, _⟩ := h; exact a
      · split at h
        · simp at h
        · rename_i s2 h2
          simp only [Except.ok.injEq, Prod.mk.injEq] at h; obtain ⟨rfl, _⟩ := h
          have a' : RC ((setConn s id { c with out := (c.out.registerAck pkid).1 }).g (.clientAcked id pkid)) :=
            RCX.view a (KMove.of_conns rfl rfl rfl rfl rfl)
          exact RCX.view a' (reschedule_move h2)
  | pubrec pkid =>
    simp only [handlePacket] at h
    split at h
    · simp at h
    · rename_i c hc
      split at h
      · simp only [Except.ok.injEq, Prod.mk.injEq] at h; obtain ⟨rfl, _⟩ := h
        exact RCX.of_set (c' := { c with out := (c.out.registerAck pkid).1 }) hr hc rfl rfl rfl rfl rfl rfl rfl
      · split at h
        · simp at h
        · rename_i s2 h2
          simp only [Except.ok.injEq, Prod.mk.injEq] at h; obtain ⟨rfl, _⟩ := h
          refine RCX.view ?_ (reschedule_move h2)
          exact RCX.of_set (c' := { c with out := _, acks := _ }) hr hc rfl rfl rfl rfl rfl rfl rfl
  | pubrel pkid hp =>
    simp only [handlePacket] at h
    split at h
    · simp at h
    · rename_i c hc
      split at h
      · simp only [Except.ok.injEq, Prod.mk.injEq] at h; obtain ⟨rfl, _⟩ := h
        exact RCX.of_set (c' := { c with acks := _ }) hr hc rfl rfl rfl rfl rfl rfl rfl
      · rename_i p rest hrec
        have a : RC ((setConn s id { c with acks := { committed := c.acks.committed ++ [Ack.pubcomp pkid], recorded := rest } }).g
            (.committed id (.pubcomp pkid))) :=
          RCX.of_set (c' := { c with acks := _ }) hr hc rfl rfl rfl rfl rfl rfl rfl
        split at h
        · simp at h
        · rename_i h2
          simp only [Except.ok.injEq, Prod.mk.injEq] at h; obtain ⟨rfl, _⟩ := h
          exact RCX.view a (appendToCommitlog_move h2)
        · rename_i s2 h2
          split at h
          · simp at h
          · rename_i s3 h3
            simp only [Except.ok.injEq, Prod.mk.injEq] at h; obtain ⟨rfl, _⟩ := h
            exact RCX.view (RCX.view a (appendToCommitlog_move h2)) (reschedule_move h3)
  | pubcomp pkid =>
    simp only [handlePacket] at h
    split at h
    · simp at h
    · rename_i c hc
      have a : RC (setConn s id { c with out := (c.out.registerPubcomp pkid).1 }) :=
        RCX.of_set (c' := { c with out := _ }) hr hc rfl rfl rfl rfl rfl rfl rfl
      split at h
      all_goals
        simp only [Except.ok.injEq, Prod.mk.injEq] at h; obtain ⟨rfl, _⟩ := h; exact a
  | pingreq =>
    simp only [handlePacket] at h
    split at h
    · simp at h
    · rename_i s1 h1
      simp only [Except.ok.injEq, Prod.mk.injEq] at h; obtain ⟨rfl, _⟩ := h
      exact RCX.view hr (commitAck_move h1)
  | disconnect =>
    simp only [handlePacket, Except.ok.injEq, Prod.mk.injEq] at h; obtain ⟨rfl, _⟩ := h
    exact RCX.view hr (KMove.of_conns rfl rfl rfl rfl rfl)
  | other =>
    simp only [handlePacket, Except.ok.injEq, Prod.mk.injEq] at h; obtain ⟨rfl, _⟩ := h
    exact hr

/-- the panic messages other than the `prepare_filter` assertion -/
abbrev NotPF : String → Prop := fun msg => msg ≠ dupPrepareFilter
/-- the panic messages other than the new-connection assertion -/
abbrev NotNC : String → Prop := fun msg => msg ≠ dupNewConnection

/-- one packet, under the data invariant and request conservation: the `prepare_filter` assertion
    does not fire, both invariants are kept -/
theorem handlePacket_rc {s : RState} {id : Nat} {cid : String} {pkt : Packet} {fl : Flags}
    (h : DInv s) (hl : Live s id) (hn : fl.newData = false → s.notifications = []) (hr : RC s) :
    Good NotPF (fun r => PQ r ∧ RC r.1) (handlePacket s id cid pkt fl) := by
  by_cases hsub : ∃ a b c, pkt = .subscribe a b c
  · obtain ⟨pkid, subId, filters, rfl⟩ := hsub
    simp only [handlePacket]
    have hold := subscribeFilters_good (A := fun _ => True) (id := id) (subId := subId) trivial filters
      (codes := []) (fl := fl) h hl
    have hnew := subscribeFilters_rc (id := id) (subId := subId) filters (codes := []) (fl := fl) hr
    split
    · rename_i e he; exact Good.error_of he hnew
    · rename_i s1 codes fl1 h1
      have q1 : RC s1 := Good.ok_of (P := fun r => RC r.1) h1 hnew
      have d1 := Good.ok_of h1 hold
      have l1 : Live s1 id := hl.shape (subscribeFilters_shape filters h1)
      gbind (commitAck_good (A := NotPF) (a := .suback pkid codes) d1.1 l1) with s2 h2 q2
      exact ⟨⟨q2.1, fun e => by rw [q2.2, d1.2.1]; exact hn (d1.2.2 ▸ e)⟩, RCX.view q1 (commitAck_move h2)⟩
  · have g := handlePacket_good (A := NotPF) (cid := cid) (pkt := pkt) (fl := fl)
      (fun hs => absurd hs hsub) h hl hn
    exact g.and_ok fun r hr' => handlePacket_rc_ok (fun a b c e => hsub ⟨a, b, c, e⟩) hr' hr

theorem handlePackets_rc {id : Nat} {cid : String} : ∀ (ps : List Packet) {s : RState} {fl : Flags}, DInv s →
    Live s id → (fl.newData = false → s.notifications = []) → RC s →
    Good NotPF (fun r => PQ r ∧ RC r.1) (handlePackets s id cid ps fl)
  | [], s, fl, h, _, hn, hr => ⟨⟨h, hn⟩, hr⟩
  | p :: rest, s, fl, h, hl, hn, hr => by
    simp only [handlePackets]
    have hp := handlePacket_rc (cid := cid) (pkt := p) h hl hn hr
    split
    · rename_i e he; exact Good.error_of he hp
    · rename_i s1 fl1 h1
      have q1 := Good.ok_of h1 hp
      split
      · exact q1
      · exact handlePackets_rc rest q1.1.1 (hl.shape (handlePacket_shape h1)) q1.1.2 q1.2

/-- a DeviceData event: the `prepare_filter` assertion does not fire; the invariants are kept -/
theorem handleDevicePayload_rc {s : RState} {id : Nat} (h : BInv s) (hr : RC s) :
    Good NotPF (fun s' => BInv s' ∧ RC s') (handleDevicePayload s id) := by
  unfold handleDevicePayload
  split
  · exact ⟨h, hr⟩
  · rename_i c hc
    simp only []
    have h0 : DInv (setLink s c.link { getLink s c.link with ibuf := [] }) := h.1.congr rfl rfl rfl rfl rfl rfl rfl
    have r0 : RC (setLink s c.link { getLink s c.link with ibuf := [] }) :=
      RCX.view hr (KMove.of_conns rfl rfl rfl rfl rfl)
    have l0 : Live (setLink s c.link { getLink s c.link with ibuf := [] }) id := Live.of_get (c := c) hc
    have hp := handlePackets_rc (id := id) (cid := c.clientId) (getLink s c.link).ibuf (fl := {}) h0 l0 (fun _ => h.2) r0
    split
    · rename_i e he; exact Good.error_of he hp
    · rename_i s1 fl h1
      obtain ⟨q1, rc1⟩ := Good.ok_of h1 hp
      have l1 : Live s1 id := l0.shape (handlePackets_shape _ h1)
      obtain ⟨c1, hc1⟩ := l1.get
      have hr1 : Good NotPF (fun s2 => (DInv s2 ∧ s2.notifications = s1.notifications) ∧ RC s2)
          (if fl.forceAck then reschedule s1 id .freshData else .ok s1) := by
        split
        · exact (reschedule_good q1.1 hc1 (by simp)).and_ok fun s2 h2 => RCX.view rc1 (reschedule_move h2)
        · exact ⟨⟨q1.1, rfl⟩, rc1⟩
      split
      · rename_i e he; exact Good.error_of he hr1
      · rename_i s2 h2
        obtain ⟨q2, rc2⟩ := Good.ok_of h2 hr1
        have hr2 : Good NotPF (fun s3 => BInv s3 ∧ RC s3)
            (if fl.newData then drainNotifications { s2 with notifications := [] } s2.notifications else .ok s2) := by
          split
          · exact (drain_all_good q2.1).and_ok fun s3 h3 => RCX.view rc2 (drain_all_move h3)
          · rename_i hnd
            exact ⟨⟨q2.1, by rw [q2.2]; exact q1.2 (by simpa using hnd)⟩, rc2⟩
        split
        · rename_i e he; exact Good.error_of he hr2
        · rename_i s3 h3
          obtain ⟨q3, rc3⟩ := Good.ok_of h3 hr2
          have hr3 : Good NotPF (fun s4 => BInv s4 ∧ RC s4) (wakeTurnMoved s3) :=
            ((wakeTurnMoved_good q3.1).mono fun s' q => (⟨q.1, by rw [q.2]; exact q3.2⟩ : BInv s')).and_ok
              fun s4 h4 => RCX.view rc3 (wakeTurnMoved_move h4)
          split
          · rename_i e he; exact Good.error_of he hr3
          · rename_i s4 h4
            obtain ⟨q4, rc4⟩ := Good.ok_of h4 hr3
            split
            · exact (handleDisconnection_good q4).and_ok fun s5 h5 => handleDisconnection_rc rc4 q4.2 h5
            · exact ⟨q4, rc4⟩

/-- a CONNECT: the new-connection assertion does not fire; request conservation is kept -/
theorem handleNewConnection_rc {s : RState} {spec : ConnectSpec} (h : BInv s) (ha : AdmInv s) (hr : RC s) :
    Good NotNC RC (handleNewConnection s spec) := by
  rw [handleNewConnection_eq]
  simp only []
  have h0 : BInv (setLink s spec.link {}) := ⟨h.1.congr rfl rfl rfl rfl rfl rfl rfl, h.2⟩
  have a0 : AdmInv (setLink s spec.link {}) := ha.congr rfl rfl rfl
  have r0 : RC (setLink s spec.link {}) := RCX.view hr (KMove.of_conns rfl rfl rfl rfl rfl)
  split
  · exact RCX.view r0 (KMove.of_conns rfl rfl rfl rfl rfl)
  · have ht : Good NotNC (fun s1 => BInv s1 ∧ RC s1) (hnTakeover (setLink s spec.link {}) spec) := by
      unfold hnTakeover
      split
      · exact (handleDisconnection_good h0).and_ok fun s1 h1 => handleDisconnection_rc r0 h0.2 h1
      · exact ⟨h0, r0⟩
    split
    · rename_i e he; exact Good.error_of he ht
    · rename_i s1 h1
      obtain ⟨q1, rc1⟩ := Good.ok_of h1 ht
      obtain ⟨a1, hnone, _⟩ := hnTakeover_spec a0 h1
      split
      · exact RCX.view rc1 (KMove.of_conns rfl rfl rfl rfl rfl)
      · rename_i hroom
        exact hnRegister_rc rc1 a1 hnone (by omega)

theorem handleLastWill_rc {s s' : RState} {cid : String} (hr : RC s) (h : handleLastWill s cid = .ok s') : RC s' := by
  unfold handleLastWill at h
  split at h
  · simp only [Except.ok.injEq] at h; subst h; exact hr
  · simp only [] at h
    have r0 : RC (({ s with lastWills := aremove cid s.lastWills } : RState).g (.willFired cid)) :=
      RCX.view hr (KMove.of_conns rfl rfl rfl rfl rfl)
    split at h
    · simp only [Except.ok.injEq] at h; subst h; exact r0
    · rename_i topic ht
      split at h
      · simp at h
      · rename_i s2 idxs h2
        split at h
        · simp at h
        · rename_i s3 h3
          refine RCX.view ?_ (drain_all_move h)
          refine RCX.view (RCX.view ?_ (dlMatches_move h2)) (appendToFilters_move idxs h3)
          exact RCX.view (RCX.view r0 (updateRetained_move _ _ _)) (KMove.of_conns rfl rfl rfl rfl rfl)

theorem handleShadow_rc {s s' : RState} {id : Nat} {f : String} (hr : RC s) (h : handleShadow s id f = .ok s') :
    RC s' := by
  have hc := handleShadow_core h
  unfold handleShadow at h
  split at h
  · simp only [Except.ok.injEq] at h; subst h; exact hr
  · split at h
    · simp only [Except.ok.injEq] at h; subst h; exact hr
    · split at h
      · simp only [Except.ok.injEq] at h; subst h; exact hr
      · simp only [Except.ok.injEq] at h; subst h
        refine RCX.view hr (KMove.of_conns hc.1 ?_ ?_ ?_ ?_) <;> (simp only [wakeLink]; split <;> rfl)

/-- the invariants behind panic-freedom, all together -/
structure Inv3 (s : RState) : Prop where
  inv2 : Inv2 s
  rc : RC s

theorem RC.init (cfg : Config) : RC (init cfg) := by
  refine (RC.iff _).mpr ⟨⟨fun id => ?_, fun id k hk => ?_, fun id k hk => ?_⟩, ?_, ?_⟩
  · simp [keysOf, trackerKeys, waiterKeys, notifKeys, Router.init, getConn, Slab.get?, pickK]
  · simp [keysOf, trackerKeys, waiterKeys, notifKeys, Router.init, getConn, Slab.get?, pickK] at hk
  · simp [keysOf, trackerKeys, waiterKeys, notifKeys, Router.init, getConn, Slab.get?, pickK] at hk
  · intro i fd hfd; simp [Router.init] at hfd
  · intro p hp; simp [Router.init] at hp

theorem RC.oracle {s : RState} (h : RC s) (o : List Choice) : RC { s with oracle := o } :=
  RCX.view h (KMove.of_conns rfl rfl rfl rfl rfl)

theorem Good.weaken {α : Type} {A A' : String → Prop} {Q : α → Prop} {m : M α} (hm : Good A Q m)
    (h : ∀ msg, A msg → A' msg) : Good A' Q m := by
  cases m with
  | ok a => exact hm
  | error e =>
    cases e with
    | panic msg => exact h msg hm
    | badChoice msg => trivial

/-- the steps without an assertion site keep request conservation -/
theorem step_other_rc {s s' : RState} {op : Op} {out : Out} (hb : BInv s) (hr : RC s)
    (hop : (∀ spec, op ≠ .connect spec) ∧ (∀ id, op ≠ .event id .deviceData))
    (h : step s op = .ok (s', out)) : RC s' := by
  cases step_cases h with
  | connect spec h' => exact absurd rfl (hop.1 spec)
  | event id ev h' =>
    cases ev with
    | deviceData => exact absurd rfl (hop.2 id)
    | ready =>
      simp only [events] at h'
      split at h'
      · exact RCX.view hr (reschedule_move h')
      · simp only [Except.ok.injEq] at h'; subst h'; exact hr
    | disconnect => exact handleDisconnection_rc hr hb.2 (show handleDisconnection s id none = .ok s' from h')
    | publishWill c => exact handleLastWill_rc hr (show handleLastWill s c = .ok s' from h')
    | shadow f => exact handleShadow_rc hr (show handleShadow s id f = .ok s' from h')
    | sendMeters => simp only [events, Except.ok.injEq] at h'; subst h'; exact hr
    | sendAlerts => simp only [events, Except.ok.injEq] at h'; subst h'; exact hr
  | consume b h' => exact consume_rc hr h'
  | push l p h' =>
    simp only [step] at h
    split at h
    all_goals
      simp only [Except.ok.injEq, Prod.mk.injEq] at h; obtain ⟨rfl, _⟩ := h
      first | exact hr | exact RCX.view hr (KMove.of_conns rfl rfl rfl rfl rfl)
  | drain l h' =>
    simp only [step] at h
    split at h
    · split at h
      all_goals
        simp only [Except.ok.injEq, Prod.mk.injEq] at h; obtain ⟨rfl, _⟩ := h
        first | exact hr | exact RCX.view hr (KMove.of_conns rfl rfl rfl rfl rfl)
    · simp only [Except.ok.injEq, Prod.mk.injEq] at h; obtain ⟨rfl, _⟩ := h; exact hr

/-- every step keeps request conservation, and neither of the two `check_tracker_duplicates`
    assertions fires -/
theorem step_rc {s : RState} {op : Op} (h : Inv3 s) :
    Good (fun msg => ¬ Allowed msg) (fun r => RC r.1) (step s op) := by
  have hb := h.inv2.binv
  have ha := h.inv2.inv1.adm
  have hr := h.rc
  have hg := step_good (op := op) h.inv2
  cases op with
  | connect spec =>
    simp only [step]
    have g := handleNewConnection_rc (spec := spec) hb ha hr
    cases hres : handleNewConnection s spec with
    | ok s1 => rw [hres] at g; exact g
    | error e =>
      cases e with
      | badChoice m => trivial
      | panic m =>
        rw [hres] at g
        have ho : opAllowed s (.connect spec) m := by
          have := hg; simp only [step, hres] at this; exact this
        intro hal
        rcases hal with e | e
        · exact g e
        · rw [ho.2] at e; exact absurd e (by decide)
  | event id ev =>
    cases ev with
    | deviceData =>
      simp only [step, events]
      have g := handleDevicePayload_rc (id := id) hb hr
      cases hres : handleDevicePayload s id with
      | ok s1 => rw [hres] at g; exact g.2
      | error e =>
        cases e with
        | badChoice m => trivial
        | panic m =>
          rw [hres] at g
          have ho : opAllowed s (.event id .deviceData) m := by
            have := hg; simp only [step, events, hres] at this; exact this
          intro hal
          rcases hal with e | e
          · rw [ho.2] at e; exact absurd e (by decide)
          · exact g e
    | ready => exact (hg.weaken fun _ hm => hm.elim).and_ok (fun r hr' => step_other_rc hb hr (by simp) hr') |>.mono fun r q => q.2
    | disconnect => exact (hg.weaken fun _ hm => hm.elim).and_ok (fun r hr' => step_other_rc hb hr (by simp) hr') |>.mono fun r q => q.2
    | publishWill c => exact (hg.weaken fun _ hm => hm.elim).and_ok (fun r hr' => step_other_rc hb hr (by simp) hr') |>.mono fun r q => q.2
    | shadow f => exact (hg.weaken fun _ hm => hm.elim).and_ok (fun r hr' => step_other_rc hb hr (by simp) hr') |>.mono fun r q => q.2
    | sendMeters => exact (hg.weaken fun _ hm => hm.elim).and_ok (fun r hr' => step_other_rc hb hr (by simp) hr') |>.mono fun r q => q.2
    | sendAlerts => exact (hg.weaken fun _ hm => hm.elim).and_ok (fun r hr' => step_other_rc hb hr (by simp) hr') |>.mono fun r q => q.2
  | consume => exact (hg.weaken fun _ hm => hm.elim).and_ok (fun r hr' => step_other_rc hb hr (by simp) hr') |>.mono fun r q => q.2
  | push l p => exact (hg.weaken fun _ hm => hm.elim).and_ok (fun r hr' => step_other_rc hb hr (by simp) hr') |>.mono fun r q => q.2
  | drain l => exact (hg.weaken fun _ hm => hm.elim).and_ok (fun r hr' => step_other_rc hb hr (by simp) hr') |>.mono fun r q => q.2

theorem Inv3.init (cfg : Config) : Inv3 (init cfg) := ⟨Inv2.init cfg, RC.init cfg⟩

theorem Inv3.oracle {s : RState} (h : Inv3 s) (o : List Choice) : Inv3 { s with oracle := o } :=
  ⟨h.inv2.oracle o, h.rc.oracle o⟩

theorem Inv3.step {s s' : RState} {op : Op} {out : Out} (h : Inv3 s) (hs : step s op = .ok (s', out)) : Inv3 s' :=
  ⟨h.inv2.step hs, Good.ok_of (P := fun r => RC r.1) hs (step_rc h)⟩

theorem Inv3.reachable {cfg : Config} {s : RState} (hr : Reachable cfg s) : Inv3 s :=
  hr.induction Inv3 (Inv3.init cfg) fun _ o _ _ _ hi h => (hi.oracle o).step h

/-- request conservation holds in every reachable state -/
theorem RC.reachable {cfg : Config} {s : RState} (hr : Reachable cfg s) : RC s := (Inv3.reachable hr).rc

/-- no step panics under the invariants -/
theorem step_no_panic {s : RState} (h : Inv3 s) (op : Op) (msg : String) : step s op ≠ .error (.panic msg) := by
  intro he
  have g1 := step_good (op := op) h.inv2
  have g2 := step_rc (op := op) h
  rw [he] at g1 g2
  have ha : Allowed msg := by
    cases op with
    | connect spec => exact .inl g1.2
    | event id ev =>
      cases ev with
      | deviceData => exact .inr g1.2
      | _ => exact g1.elim
    | _ => exact g1.elim
  exact g2 ha

end Router
