/-
C08 / C19 — the connection map knows every live connection under its client id, in every
reachable state; hence a client id is carried by at most one live connection, and after
`handle_disconnection` by none.
-/
import Proofs.Lemmas.Router.Rp3_GFrame
namespace Router
namespace Rp3

/-- the connection map knows every live connection under its client id -/
def CMOK (s : RState) : Prop :=
  ∀ (j : Nat) (Y : String), (cids s.conns)[j]? = some (some Y) → alookup Y s.connectionMap = some j

theorem CMOK.of_gkey {s s' : RState} (h : CMOK s) (e : gkey s' = gkey s) : CMOK s' := by
  unfold gkey at e
  simp only [Prod.mk.injEq] at e
  obtain ⟨_, e2, e3⟩ := e
  intro j Y hj
  rw [e3] at hj; rw [e2]; exact h j Y hj

theorem cids_getConn {s : RState} {id : Nat} {c : Conn} (hc : getConn s id = some c) :
    (cids s.conns)[id]? = some (some c.clientId) := by
  unfold getConn Slab.get? at hc
  unfold cids
  cases hg : s.conns.entries[id]? with
  | none => simp [hg] at hc
  | some oc =>
    simp only [hg, Option.bind_some] at hc
    have hoc : oc = some c := hc
    simp [hg, hoc]

/-- with a coherent connection map, a client id is carried by at most one live connection; once
    that one is removed, none carries it -/
theorem CMOK.noLive_after_remove {s : RState} (h : CMOK s) {id : Nat} {c : Conn} (hc : getConn s id = some c) :
    some c.clientId ∉ cids (s.conns.remove id) := by
  intro hm
  unfold cids Slab.remove at hm
  simp only [List.map_set] at hm
  obtain ⟨j, hj⟩ := List.mem_iff_getElem?.mp hm
  by_cases hji : id = j
  · subst hji
    rw [List.getElem?_set] at hj
    simp at hj
  · rw [List.getElem?_set_ne hji] at hj
    have h1 := h j c.clientId hj
    have h2 := h id c.clientId (cids_getConn hc)
    rw [h1] at h2
    exact hji (Option.some.inj h2).symm

theorem handleDisconnection_cmok {s s' : RState} {id : Nat} {r : Option String}
    (hk : CMOK s) (h : handleDisconnection s id r = .ok s') : CMOK s' := by
  cases hc : getConn s id with
  | none => rw [handleDisconnection_missing s id r hc] at h; cases h; exact hk
  | some c =>
    obtain ⟨_, hcm, hcn, _⟩ := handleDisconnection_spec hc h
    intro j Y hj
    rw [hcn] at hj
    unfold cids Slab.remove at hj
    simp only [List.map_set] at hj
    by_cases hji : id = j
    · subst hji
      rw [List.getElem?_set] at hj
      simp at hj
    · rw [List.getElem?_set_ne hji] at hj
      have h1 := hk j Y hj
      have hne : Y ≠ c.clientId := by
        intro e
        have h2 := hk id c.clientId (cids_getConn hc)
        rw [← e, h1] at h2
        exact hji (Option.some.inj h2).symm
      rw [hcm, alookup_aremove_ne _ _ hne]; exact h1

theorem cids_insert_cases {sl : Slab Conn} {c : Conn} {j : Nat} {Y : String}
    (h : (cids (sl.insert c).1)[j]? = some (some Y)) :
    (j = (sl.insert c).2 ∧ Y = c.clientId) ∨ (cids sl)[j]? = some (some Y) := by
  unfold Slab.insert at h ⊢
  split at h
  · rename_i hf
    simp only []
    unfold cids at h ⊢
    simp only [List.map_append, List.map_cons, List.map_nil] at h
    by_cases hj : j < sl.entries.length
    · rw [List.getElem?_append_left (by simpa using hj)] at h; exact Or.inr h
    · rw [List.getElem?_append_right (by simpa using Nat.le_of_not_lt hj)] at h
      simp only [List.length_map] at h
      cases hk : j - sl.entries.length with
      | zero =>
        simp [hk] at h
        exact Or.inl ⟨by omega, h.symm⟩
      | succ k => simp [hk] at h
  · rename_i k rest hf
    simp only []
    unfold cids at h ⊢
    simp only [List.map_set] at h
    by_cases hjk : k = j
    · subst hjk
      rw [List.getElem?_set] at h
      simp only [if_true] at h
      split at h
      · simp only [Option.map_some, Option.some.injEq] at h
        exact Or.inl ⟨rfl, h.symm⟩
      · cases h
    · rw [List.getElem?_set_ne hjk] at h; exact Or.inr h

theorem cids_set_cases {sl : Slab Conn} {k : Nat} {c : Conn} {j : Nat} {Y : String}
    (h : (cids (sl.set k c))[j]? = some (some Y)) :
    (j = k ∧ Y = c.clientId) ∨ (cids sl)[j]? = some (some Y) := by
  unfold cids Slab.set at h
  simp only [List.map_set] at h
  by_cases hjk : k = j
  · subst hjk
    rw [List.getElem?_set] at h
    simp only [if_true] at h
    split at h
    · simp only [Option.map_some, Option.some.injEq] at h
      exact Or.inl ⟨rfl, h.symm⟩
    · cases h
  · rw [List.getElem?_set_ne hjk] at h; exact Or.inr h

theorem admitConn_cmok {s s' : RState} {spec : ConnectSpec} (hk : CMOK s) (hl : NoLive spec.clientId s)
    (h : admitConn s spec = .ok s') : CMOK s' := by
  rw [admit_eq] at h
  split at h
  · simp only [Except.ok.injEq] at h; subst h; exact hk.of_gkey rfl
  · split at h
    · simp at h
    · refine CMOK.of_gkey ?_ (reschedule_gkey h)
      intro j Y hj
      have hj' : (cids ((s.conns.insert (newConn s spec)).1.set (s.conns.insert (newConn s spec)).2 _))[j]? = some (some Y) := hj
      show alookup Y (ainsert spec.clientId (s.conns.insert (newConn s spec)).2 s.connectionMap) = some j
      have hold : (cids s.conns)[j]? = some (some Y) → alookup Y (ainsert spec.clientId (s.conns.insert (newConn s spec)).2 s.connectionMap) = some j := by
        intro h0
        have hne : Y ≠ spec.clientId := by
          intro e; apply hl; rw [← e]; exact List.mem_of_getElem? h0
        rw [alookup_ainsert_ne _ _ _ _ hne]; exact hk j Y h0
      rcases cids_set_cases hj' with ⟨rfl, rfl⟩ | h1
      · exact alookup_ainsert_same _ _ _
      · rcases cids_insert_cases h1 with ⟨rfl, rfl⟩ | h2
        · exact alookup_ainsert_same _ _ _
        · exact hold h2

/-- after the takeover step of `handle_new_connection` no live connection carries the new client id -/
theorem takeover_noLive {s s1 : RState} {spec : ConnectSpec} (hk : CMOK s)
    (h : (match alookup spec.clientId s.connectionMap with
          | some old => handleDisconnection s old none
          | none => .ok s) = .ok s1) : NoLive spec.clientId s1 ∧ CMOK s1 := by
  split at h
  · rename_i old hold
    have hk1 := handleDisconnection_cmok hk h
    refine ⟨?_, hk1⟩
    cases hc : getConn s old with
    | none =>
      rw [handleDisconnection_missing s old none hc] at h; cases h
      intro hm
      obtain ⟨j, hj⟩ := List.mem_iff_getElem?.mp hm
      have := hk j spec.clientId hj
      rw [hold] at this
      have hjo : old = j := Option.some.inj this
      subst hjo
      unfold getConn Slab.get? at hc
      unfold cids at hj
      simp only [List.getElem?_map] at hj
      cases hg : s.conns.entries[old]? with
      | none => simp [hg] at hj
      | some oc =>
        simp only [hg, Option.map_some, Option.some.injEq] at hj
        simp only [hg, Option.bind_some] at hc
        have : oc = none := hc
        rw [this] at hj; cases hj
    | some c =>
      obtain ⟨_, _, hcn, _⟩ := handleDisconnection_spec hc h
      unfold NoLive; rw [hcn]
      intro hm
      unfold cids Slab.remove at hm
      simp only [List.map_set] at hm
      obtain ⟨j, hj⟩ := List.mem_iff_getElem?.mp hm
      by_cases hji : old = j
      · subst hji
        rw [List.getElem?_set] at hj
        simp at hj
      · rw [List.getElem?_set_ne hji] at hj
        have := hk j spec.clientId hj
        rw [hold] at this
        exact hji (Option.some.inj this)
  · rename_i hnone
    simp only [Except.ok.injEq] at h; subst h
    refine ⟨?_, hk⟩
    intro hm
    obtain ⟨j, hj⟩ := List.mem_iff_getElem?.mp hm
    have := hk j spec.clientId hj
    rw [hnone] at this; cases this

theorem handleNewConnection_cmok {s s' : RState} {spec : ConnectSpec} (hk : CMOK s)
    (h : handleNewConnection s spec = .ok s') : CMOK s' := by
  rw [handleNewConnection_eq] at h
  split at h
  · simp only [Except.ok.injEq] at h; subst h; exact hk.of_gkey rfl
  · split at h
    · simp at h
    · rename_i s1 hs1
      obtain ⟨hl1, hk1⟩ := takeover_noLive (s := setLink s spec.link {}) (hk.of_gkey rfl) hs1
      exact admitConn_cmok hk1 hl1 h

theorem handleDevicePayload_cmok {s s' : RState} {id : Nat} (hk : CMOK s)
    (h : handleDevicePayload s id = .ok s') : CMOK s' := by
  unfold handleDevicePayload at h
  split at h
  · simp only [Except.ok.injEq] at h; subst h; exact hk
  · rename_i c hc
    simp only [] at h
    split at h
    · simp at h
    · rename_i s1 fl hp
      have e1 : gkey s1 = gkey s := (handlePackets_gkey _ hp).trans rfl
      split at h
      · simp at h
      · rename_i s2 hr1
        have e2 : gkey s2 = gkey s := by
          split at hr1
          · rw [reschedule_gkey hr1, e1]
          · simp only [Except.ok.injEq] at hr1; subst hr1; exact e1
        split at h
        · simp at h
        · rename_i s3 hr2
          have e3 : gkey s3 = gkey s := by
            split at hr2
            · rw [drainNotifications_gkey _ hr2]; exact e2
            · simp only [Except.ok.injEq] at hr2; subst hr2; exact e2
          split at h
          · simp at h
          rename_i s4 hw
          have e4 : gkey s4 = gkey s := (wakeTurnMoved_gkey hw).trans e3
          split at h
          · exact handleDisconnection_cmok (hk.of_gkey e4) h
          · simp only [Except.ok.injEq] at h; subst h; exact hk.of_gkey e4

theorem step_cmok {s s' : RState} {op : Op} {o : Out} (hk : CMOK s) (h : step s op = .ok (s', o)) : CMOK s' := by
  cases op with
  | connect spec =>
    simp only [step] at h
    split at h
    · simp at h
    · rename_i s1 hc
      simp only [Except.ok.injEq, Prod.mk.injEq] at h; obtain ⟨rfl, _⟩ := h
      exact handleNewConnection_cmok hk hc
  | push l p =>
    simp only [step] at h
    split at h
    · simp only [Except.ok.injEq, Prod.mk.injEq] at h; obtain ⟨rfl, _⟩ := h; exact hk.of_gkey rfl
    · simp only [Except.ok.injEq, Prod.mk.injEq] at h; obtain ⟨rfl, _⟩ := h; exact hk
  | event id e =>
    simp only [step] at h
    split at h
    · simp at h
    · rename_i s1 he
      simp only [Except.ok.injEq, Prod.mk.injEq] at h; obtain ⟨rfl, _⟩ := h
      cases e with
      | deviceData => exact handleDevicePayload_cmok hk he
      | ready =>
        simp only [events] at he
        split at he
        · exact hk.of_gkey (reschedule_gkey he)
        · simp only [Except.ok.injEq] at he; subst he; exact hk
      | disconnect => exact handleDisconnection_cmok (id := id) (r := none) hk he
      | publishWill c => exact hk.of_gkey (handleLastWill_gkey he)
      | shadow f => exact hk.of_gkey (handleShadow_gkey he)
      | sendMeters => simp only [events, Except.ok.injEq] at he; subst he; exact hk
      | sendAlerts => simp only [events, Except.ok.injEq] at he; subst he; exact hk
  | consume =>
    simp only [step] at h
    split at h
    · simp at h
    · rename_i s1 b hc
      simp only [Except.ok.injEq, Prod.mk.injEq] at h; obtain ⟨rfl, _⟩ := h
      exact hk.of_gkey (consume_gkey hc)
  | drain l =>
    simp only [step] at h
    split at h
    · split at h
      · simp only [Except.ok.injEq, Prod.mk.injEq] at h; obtain ⟨rfl, _⟩ := h; exact hk.of_gkey rfl
      · simp only [Except.ok.injEq, Prod.mk.injEq] at h; obtain ⟨rfl, _⟩ := h; exact hk
    · simp only [Except.ok.injEq, Prod.mk.injEq] at h; obtain ⟨rfl, _⟩ := h; exact hk

/-- in every reachable state the connection map knows every live connection under its client id
    (hence: at most one live connection per client id) -/
theorem reachable_cmok {cfg : Config} {s : RState} (hr : Reachable cfg s) : CMOK s :=
  hr.induction CMOK (by intro j Y hj; simp [init, cids] at hj)
    (fun s ch _ _ _ hk hs => step_cmok (s := { s with oracle := ch }) (hk.of_gkey rfl) hs)

end Rp3
end Router
