/-
`CursorSound` through the composite functions: notification drain, wake-up, publish path,
SUBSCRIBE / UNSUBSCRIBE.
-/
import Proofs.Lemmas.Router.Rp5_Step
namespace Router
namespace Rp3
open CommitLog (Rep logC Issued SegMono)

/-- the extra requests were already held by `s` -/
theorem CStep.absorb {s s' : RState} {X : DataRequest → Prop} (h : CStep s s' X) (hx : ∀ r, X r → allReqs s r) :
    CStep s s' noReq :=
  ⟨h.mono, fun r hr => by
    rcases h.req r hr with h1 | h1
    · exact .inl h1
    · exact .inl (hx r h1), h.win, h.grv, h.grp⟩

theorem drainNotifications_cstep : ∀ (ns : List (Nat × DataRequest)) {s s' : RState},
    drainNotifications s ns = .ok s' → CStep s s' (fun q => ∃ n ∈ ns, n.2 = q)
  | [], s, s', h => by
    simp only [drainNotifications, Except.ok.injEq] at h; subst h
    exact (CStep.refl s).weaken fun _ hx => hx.elim
  | (id, r) :: rest, s, s', h => by
    simp only [drainNotifications] at h
    split at h
    · simp at h
    · rename_i s1 h1
      split at h
      · simp at h
      · rename_i s2 h2
        refine (((track_cstep h1).trans (reschedule_cstep h2)).trans (drainNotifications_cstep rest h)).weaken fun q hq => ?_
        rcases hq with (hq | hq) | ⟨n, hn, e⟩
        · exact ⟨(id, r), by simp, hq.symm⟩
        · exact hq.elim
        · exact ⟨n, by simp [hn], e⟩

theorem setNotifications_nil_cstep (s : RState) : CStep s { s with notifications := [] } noReq :=
  CStep.of_waiters rfl (LogMono.refl _) (fun fd hfd w hw => .inl ⟨fd, hfd, hw⟩) (fun n hn => by simp at hn) rfl rfl

theorem drain_all_cstep {s s' : RState} (h : drainNotifications { s with notifications := [] } s.notifications = .ok s') :
    CStep s s' noReq :=
  ((setNotifications_nil_cstep s).trans (drainNotifications_cstep _ h)).absorb fun r hr => by
    rcases hr with hr | ⟨n, hn, e⟩
    · exact hr.elim
    · exact .inr (.inr ⟨n, hn, e⟩)

theorem wakeParkedSorted_cstep : ∀ (logs : List Nat) {s s' : RState},
    wakeParkedSorted s logs = .ok s' → CStep s s' noReq
  | [], s, s', h => by simp only [wakeParkedSorted, Except.ok.injEq] at h; subst h; exact CStep.refl _
  | i :: rest, s, s', h => by
    rw [wakeParkedSorted_cons] at h
    split at h
    · exact wakeParkedSorted_cstep rest h
    · rename_i fd hfd
      split at h
      · simp at h
      · rename_i s2 h2
        refine CStep.nn (((clearWaiters_cstep hfd).trans (drainNotifications_cstep _ h2)).absorb fun r hr => ?_)
          (wakeParkedSorted_cstep rest h)
        rcases hr with hr | ⟨n, hn, e⟩
        · exact hr.elim
        · exact .inr (.inl ⟨fd, List.mem_of_getElem? hfd, n, hn, e⟩)

theorem wakeParked_cstep {s s' : RState} {logs : List Nat} (h : wakeParked s logs = .ok s') : CStep s s' noReq :=
  wakeParkedSorted_cstep _ h

theorem wakeTurnMoved_cstep {s s' : RState} (h : wakeTurnMoved s = .ok s') : CStep s s' noReq :=
  (CStep.of_conns (s := s) (s' := { s with turnMoved := [] }) rfl rfl rfl rfl rfl).nn (wakeParked_cstep h)

theorem noteTurn_cstep (s0 s1 : RState) (req : DataRequest) : CStep s1 (noteTurn s0 s1 req) noReq := by
  obtain ⟨tm, e⟩ := noteTurn_eq s0 s1 req
  rw [e]; exact CStep.of_conns rfl rfl rfl rfl rfl

/-! ### publish path -/

theorem appendToFilters_cstep : ∀ (idxs : List Nat) {s s' : RState} {p : Pub}, DLInv s →
    appendToFilters s idxs p = .ok s' → CStep s s' noReq
  | [], s, s', p, _, h => by simp only [appendToFilters, Except.ok.injEq] at h; subst h; exact CStep.refl _
  | i :: is, s, s', p, hi, h => by
    simp only [appendToFilters] at h
    split at h
    · simp at h
    · rename_i s1 h1
      exact (appendToFilter_cstep hi h1).nn (appendToFilters_cstep is (appendToFilter_inv hi h1) h)

/-- a state that differs in fields the invariant does not read, and in datalog fields other than logs,
    waiters and the index map -/
theorem CStep.of_datalog {s s' : RState} (hc : s'.conns = s.conns) (hnat : s'.datalog.native = s.datalog.native)
    (hf : s'.datalog.filterIndexes = s.datalog.filterIndexes) (hn : s'.notifications = s.notifications)
    (hg : s'.graveyard = s.graveyard) (hs : s'.shared = s.shared) : CStep s s' noReq :=
  CStep.of_waiters hc (LogMono.of_eq (by rw [hnat]) hf) (fun fd hfd w hw => .inl ⟨fd, hnat ▸ hfd, hw⟩)
    (fun n hn' => .inl (hn ▸ hn')) hg hs

theorem updateRetained_cstep (s : RState) (topic : String) (p : Pub) : CStep s (updateRetained s topic p) noReq := by
  unfold updateRetained
  split
  · exact CStep.of_datalog rfl rfl rfl rfl rfl rfl
  · split
    · exact CStep.of_datalog rfl rfl rfl rfl rfl rfl
    · exact CStep.refl _

theorem dlMatches_cstep {s s' : RState} {topic : String} {v : List Nat} (h : dlMatches s topic = .ok (s', v)) :
    CStep s s' noReq := by
  unfold dlMatches at h
  split at h
  · simp only [Except.ok.injEq, Prod.mk.injEq] at h; obtain ⟨rfl, _⟩ := h; exact CStep.refl _
  · split at h
    · simp only [] at h
      split at h
      · simp only [Except.ok.injEq, Prod.mk.injEq] at h; obtain ⟨rfl, _⟩ := h
        split <;> exact CStep.of_datalog rfl rfl rfl rfl rfl rfl
      · simp at h
    · simp at h

theorem deliver_cstep {s s' : RState} {topic : String} {p : Pub} (hi : DLInv s) (h : deliver s topic p = .ok s') :
    CStep s s' noReq := by
  unfold deliver at h
  split at h
  · simp at h
  · rename_i s1 idxs h1
    have hi1 : DLInv s1 := (dlMatches_inv hi h1).1
    exact (dlMatches_cstep h1).nn (appendToFilters_cstep idxs hi1 h)

theorem appendToCommitlog_cstep {s s' : RState} {id : Nat} {p : Pub} {e : Option AppendErr} (hi : DLInv s)
    (h : appendToCommitlog s id p = .ok (s', e)) : CStep s s' noReq := by
  rw [appendToCommitlog_eq] at h
  split at h
  · simp at h
  · rename_i c hc
    split at h
    · simp only [Except.ok.injEq, Prod.mk.injEq] at h; obtain ⟨rfl, _⟩ := h; exact CStep.refl _
    · split at h
      · simp only [Except.ok.injEq, Prod.mk.injEq] at h; obtain ⟨rfl, _⟩ := h; exact CStep.refl _
      · rename_i s1 p1 hr
        have hi1 : DLInv s1 := hi.of_dkey (resolveAlias_dkey hr)
        have a : CStep s s1 noReq := by
          unfold resolveAlias at hr
          repeat' (split at hr)
          all_goals first
            | (simp at hr; done)
            | (simp only [Except.ok.injEq, Prod.mk.injEq] at hr; obtain ⟨rfl, _⟩ := hr; exact CStep.refl _)
            | (simp only [Except.ok.injEq, Prod.mk.injEq] at hr; obtain ⟨rfl, _⟩ := hr
               exact CStep.of_set_same (c' := { c with topicAliases := _ }) hc rfl rfl rfl rfl rfl rfl rfl)
        split at h
        · simp only [Except.ok.injEq, Prod.mk.injEq] at h; obtain ⟨rfl, _⟩ := h; exact a
        · rename_i topic _
          split at h
          · simp at h
          · rename_i s2 hd
            simp only [Except.ok.injEq, Prod.mk.injEq] at h; obtain ⟨rfl, _⟩ := h
            have b : CStep s1 ((updateRetained s1 topic p1).g (.accepted (some id) p1 topic)) noReq :=
              (updateRetained_cstep s1 topic p1).nn (CStep.of_conns rfl rfl rfl rfl rfl)
            refine (a.nn b).nn (deliver_cstep (hi1.of_dkey ?_) hd)
            rw [dkey_g, updateRetained_dkey]

theorem hpPre_cstep {s s' : RState} {id : Nat} {p : Pub} {fl fl' : Flags} {b : Bool}
    (h : hpPre s id p fl = .ok (s', fl', b)) : CStep s s' noReq := by
  unfold hpPre at h
  split at h
  · split at h
    · simp at h
    · rename_i s1 h1
      simp only [Except.ok.injEq, Prod.mk.injEq] at h; obtain ⟨rfl, _⟩ := h
      exact commitAck_cstep h1
  · split at h
    · split at h
      · simp at h
      · rename_i c hc
        simp only [Except.ok.injEq, Prod.mk.injEq] at h; obtain ⟨rfl, _⟩ := h
        exact CStep.of_set_same (c' := { c with acks := _ }) hc rfl rfl rfl rfl rfl rfl rfl
    · simp only [Except.ok.injEq, Prod.mk.injEq] at h; obtain ⟨rfl, _⟩ := h; exact CStep.refl _

theorem hpPre_dkey {s s' : RState} {id : Nat} {p : Pub} {fl fl' : Flags} {b : Bool}
    (h : hpPre s id p fl = .ok (s', fl', b)) : dkey s' = dkey s := by
  unfold hpPre at h
  split at h
  · split at h
    · simp at h
    · rename_i s1 h1
      simp only [Except.ok.injEq, Prod.mk.injEq] at h; obtain ⟨rfl, _⟩ := h
      exact commitAck_dkey h1
  · split at h
    · split at h
      · simp at h
      · simp only [Except.ok.injEq, Prod.mk.injEq] at h; obtain ⟨rfl, _⟩ := h; rfl
    · simp only [Except.ok.injEq, Prod.mk.injEq] at h; obtain ⟨rfl, _⟩ := h; rfl

/-! ### SUBSCRIBE -/

/-- `next_native_offset`: the datalog only grows, and the cursor handed out is issued for the log -/
theorem nextNativeOffset_cs {s : RState} (hi : DLInv s) (h : CS s) (filter : String) :
    CS (nextNativeOffset s filter).1 ∧
    (nextNativeOffset s filter).1.datalog.filterIdx? filter = some (nextNativeOffset s filter).2.1 ∧
    IssuedAt (nextNativeOffset s filter).1.datalog (nextNativeOffset s filter).2.1 (nextNativeOffset s filter).2.2 := by
  obtain ⟨fd, hist, hfd, _, _, hiss, _, _⟩ := nextNativeOffset_tail (filter := filter) hi
  refine ⟨?_, ?_, ⟨fd, hfd, hiss⟩⟩
  · unfold nextNativeOffset
    split
    · exact h
    · rename_i hnone
      simp only []
      refine h.step0 (CStep.of_waiters rfl ⟨fun i fd0 h0 => ⟨fd0, ?_, SegMono.refl _, Nat.le_refl _⟩, fun f i h0 => ?_⟩
        (fun fd' hfd' w hw => ?_) (fun n hn => .inl hn) rfl rfl)
      · show (s.datalog.native ++ [_])[i]? = some fd0
        rw [List.getElem?_append_left (by
          by_cases hl : i < s.datalog.native.length
          · exact hl
          · rw [List.getElem?_eq_none (by omega)] at h0; cases h0)]
        exact h0
      · unfold DataLog.filterIdx? at h0 ⊢
        show alookup f (s.datalog.filterIndexes ++ [_]) = some i
        rw [alookup_append, h0]; rfl
      · have : fd' ∈ s.datalog.native ++ [({ filter := filter, log := CLog.Log.new s.config.maxSegmentSize s.config.maxSegmentCount } : FilterData)] := hfd'
        rcases List.mem_append.mp this with hm | hm
        · exact .inl ⟨fd', hm, hw⟩
        · simp only [List.mem_singleton] at hm; subst hm; simp at hw
  · unfold nextNativeOffset
    split
    · rename_i idx hidx; exact hidx
    · rename_i hnone
      have hnone' : alookup filter s.datalog.filterIndexes = none := hnone
      unfold DataLog.filterIdx?
      show alookup filter (s.datalog.filterIndexes ++ [(filter, s.datalog.native.length)]) = _
      rw [alookup_append, hnone']; simp [alookup]

theorem sfGroup_gpath {path g : String} (h : sfGroup path = some g) : sfFilter path = gpath g := by
  unfold sfGroup at h
  unfold sfFilter
  cases he : extractGroup path with
  | none => rw [he] at h; cases h
  | some gp =>
    obtain ⟨g', p⟩ := gp
    rw [he] at h
    simp only [Option.map_some, Option.some.injEq] at h
    subst h
    exact extractGroup_gpath he

theorem pfTail_cstep {s s' : RState} {id : Nat} (h : pfTail s id = .ok s') : CStep s s' noReq := by
  unfold pfTail at h
  split at h
  · simp at h
  · rename_i s1 h1
    have := reschedule_cstep h1
    split at h
    · simp only [Except.ok.injEq] at h; subst h; exact this
    · split at h
      · simp only [Except.ok.injEq] at h; subst h; exact this
      · simp at h

/-- `prepare_filter`: the new request starts at the cursor `next_native_offset` handed out; a new
    group starts there too -/
theorem prepareFilter_cs {s s' : RState} {id : Nat} {cursor : Cursor} {idx : Nat} {f : SubFilter} {subId : Option Nat}
    (h : CS s) (hidx : s.datalog.filterIdx? (sfFilter f.path) = some idx) (hiss : IssuedAt s.datalog idx cursor)
    (hp : prepareFilter s id cursor idx f (sfGroup f.path) subId = .ok s') : CS s' := by
  rw [prepareFilter_eq] at hp
  split at hp
  · simp at hp
  · rename_i c hc
    simp only [] at hp
    -- the groups after the client joined
    have h1 : CS (pfState s id cursor f.path (sfGroup f.path) c.clientId) := by
      refine h.transfer (LogMono.refl _) (fun r hr => .inl hr) (fun fi cur hw => .inl hw)
        (fun p hp' ss hss r hr => .inl ⟨p, hp', ss, hss, hr⟩) (fun p hp' => ?_)
      have hp'' : p ∈ pfShared s cursor c.clientId (sfGroup f.path) := hp'
      unfold pfShared at hp''
      split at hp''
      · exact .inl ⟨p, hp'', rfl, rfl⟩
      · rename_i g hg
        rcases mem_ainsert hp'' with hm | rfl
        · exact .inl ⟨p, hm, rfl, rfl⟩
        · cases hl : alookup g s.shared with
          | some grp0 =>
            simp only [hl, Option.getD_some]
            exact .inl ⟨(g, grp0), mem_of_alookup hl, rfl, rfl⟩
          | none =>
            simp only [hl, Option.getD_none]
            exact .inr ⟨idx, by rw [← sfGroup_gpath hg]; exact hidx, hiss⟩
    have hc1 : getConn (pfState s id cursor f.path (sfGroup f.path) c.clientId) id = some c := hc
    have ht : (pfConn c f.path subId).tracker = c.tracker := by cases subId <;> rfl
    have ho : (pfConn c f.path subId).out = c.out := by cases subId <;> rfl
    split at hp
    · simp only [Except.ok.injEq] at hp; subst hp
      exact h1.step0 (CStep.of_set_same (c' := pfConn c f.path subId) hc1 rfl (by rw [ht]) (by rw [ho]) rfl rfl rfl rfl)
    · split at hp
      · simp at hp
      · rename_i s3 h3
        have a : CStep (pfState s id cursor f.path (sfGroup f.path) c.clientId)
            (setConn ((pfState s id cursor f.path (sfGroup f.path) c.clientId).g
              (.subscribed id f.path f.qos idx cursor (sfGroup f.path) true)) id
              { pfConn c f.path subId with subscriptions := c.subscriptions ++ [f.path] }) noReq :=
          CStep.of_set_same (c' := { pfConn c f.path subId with subscriptions := c.subscriptions ++ [f.path] })
            hc1 rfl (by show (pfConn c f.path subId).tracker.requests = _; rw [ht])
            (by show (pfConn c f.path subId).out.inflight = _; rw [ho]) rfl rfl rfl rfl
        have m := (a.trans (track_cstep h3)).trans (pfTail_cstep hp)
        refine h1.step m fun r hr => ?_
        rcases hr with (hr | hr) | hr
        · exact hr.elim
        · subst hr
          refine .inr (ReqOK.mono m.mono ⟨hiss, fun g hg => ?_⟩)
          have hg' : sfGroup f.path = some g := hg
          show s.datalog.filterIdx? (gpath g) = some idx
          rw [← sfGroup_gpath hg']; exact hidx
        · exact hr.elim

theorem LogMono.of_dkey {s s' : RState} (e : dkey s' = dkey s) : LogMono s.datalog s'.datalog := by
  simp only [dkey, Prod.mk.injEq] at e
  exact LogMono.of_eq e.2.1 e.2.2.1

theorem nextNativeOffset_mono (s : RState) (filter : String) : LogMono s.datalog (nextNativeOffset s filter).1.datalog := by
  unfold nextNativeOffset
  split
  · exact LogMono.refl _
  · simp only []
    refine ⟨fun i fd0 h0 => ⟨fd0, ?_, SegMono.refl _, Nat.le_refl _⟩, fun f i h0 => ?_⟩
    · show (s.datalog.native ++ [_])[i]? = some fd0
      rw [List.getElem?_append_left (by
        by_cases hl : i < s.datalog.native.length
        · exact hl
        · rw [List.getElem?_eq_none (by omega)] at h0; cases h0)]
      exact h0
    · unfold DataLog.filterIdx? at h0 ⊢
      show alookup f (s.datalog.filterIndexes ++ [_]) = some i
      rw [alookup_append, h0]; rfl

theorem subscribeFilters_cs {id : Nat} {subId : Option Nat} : ∀ (fs : List SubFilter) {s s' : RState}
    {codes codes' : List Nat} {fl fl' : Flags}, DLInv s → CS s →
    subscribeFilters s id subId fs codes fl = .ok (s', codes', fl') → CS s' ∧ LogMono s.datalog s'.datalog
  | [], s, s', codes, codes', fl, fl', _, h, hs => by
    simp only [subscribeFilters, Except.ok.injEq, Prod.mk.injEq] at hs
    obtain ⟨rfl, _⟩ := hs; exact ⟨h, LogMono.refl _⟩
  | f :: rest, s, s', codes, codes', fl, fl', hi, h, hs => by
    rw [subscribeFilters_cons] at hs
    split at hs
    · simp only [Except.ok.injEq, Prod.mk.injEq] at hs; obtain ⟨rfl, _⟩ := hs; exact ⟨h, LogMono.refl _⟩
    · split at hs
      · simp only [Except.ok.injEq, Prod.mk.injEq] at hs; obtain ⟨rfl, _⟩ := hs; exact ⟨h, LogMono.refl _⟩
      · simp only [] at hs
        split at hs
        · simp at hs
        · rename_i s1 h1
          obtain ⟨hn, hidx, hiss⟩ := nextNativeOffset_cs hi h (sfFilter f.path)
          have hin : DLInv (nextNativeOffset s (sfFilter f.path)).1 := (nextNativeOffset_inv hi).1
          have hi1 : DLInv s1 := hin.of_dkey (prepareFilter_dkey h1)
          obtain ⟨a, m⟩ := subscribeFilters_cs rest hi1 (prepareFilter_cs hn hidx hiss h1) hs
          exact ⟨a, ((nextNativeOffset_mono s _).trans (LogMono.of_dkey (prepareFilter_dkey h1))).trans m⟩

/-! ### UNSUBSCRIBE -/

theorem ufShared_sub (s : RState) (f cid : String) :
    ∀ p ∈ ufShared s f cid, ∃ q ∈ s.shared, q.1 = p.1 ∧ q.2.cursor = p.2.cursor := by
  intro p hp
  unfold ufShared at hp
  split at hp
  · exact ⟨p, hp, rfl, rfl⟩
  · split at hp
    · exact ⟨p, hp, rfl, rfl⟩
    · rename_i g hg
      simp only [] at hp
      split at hp
      · exact ⟨p, mem_aremove hp, rfl, rfl⟩
      · rcases mem_ainsert hp with hm | rfl
        · exact ⟨p, hm, rfl, rfl⟩
        · exact ⟨_, mem_of_alookup hg, rfl, rfl⟩

theorem unsubOut_sub (d : DataLog) (subs : List String) (o : Outgoing) (f : String) :
    ∀ e ∈ (unsubOut d subs o f).inflight, ∀ cur, e.2.2 = some cur → ∃ e0 ∈ o.inflight, e0.2.1 = e.2.1 ∧ e0.2.2 = some cur := by
  intro e he cur hcur
  unfold unsubOut at he
  split at he
  · exact ⟨e, he, rfl, hcur⟩
  · split at he
    · exact ⟨e, he, rfl, hcur⟩
    · unfold Outgoing.forgetCursors at he
      simp only [List.mem_map] at he
      obtain ⟨e0, he0, rfl⟩ := he
      split at hcur
      · simp at hcur
      · rename_i hne
        exact ⟨e0, he0, by simp [hne], hcur⟩

/-- one filter unsubscribed: requests, window cursors and groups only disappear -/
theorem ufState_cstep {s : RState} {id : Nat} {ids : List Nat} {c : Conn} {f : String}
    (hc : getConn s id = some c) : CStep s (ufState s id ids c f) noReq := by
  have hc1 : getConn (ufState1 s id ids c f) id = some c := hc
  have hget : ∀ j, getConn (ufState s id ids c f) j = if j = id then some (ufConn s.datalog c f) else getConn s j :=
    fun j => getConn_setConn_live hc1 (ufConn s.datalog c f) j
  have hd : (ufState s id ids c f).datalog = removeWaiterFor s.datalog id f := rfl
  refine ⟨?_, ?_, ?_, fun p hp => hp, fun p hp => ufShared_sub s f c.clientId p hp⟩
  · rw [hd]; exact LogMono.of_eq (removeWaiterFor_logs _ _ _) (removeWaiterFor_fi _ _ _)
  · refine allReqs_of_parts (fun j d hd' => ?_) (fun fd' hfd' w hw => ?_) (fun n hn => ?_)
    · rw [hget] at hd'
      by_cases hj : j = id
      · subst hj; simp only [if_true, Option.some.injEq] at hd'; subst hd'
        exact ⟨c, hc, fun r hr => .inl (List.mem_filter.mp hr).1⟩
      · simp only [hj, if_false] at hd'; exact ⟨d, hd', fun r hr => .inl hr⟩
    · rw [hd] at hfd'
      obtain ⟨i, hi⟩ := List.mem_iff_getElem?.mp hfd'
      obtain ⟨fd, hfd, hsub⟩ := (removeWaiterFor_fields s.datalog id f).2 i fd' hi
      exact .inl ⟨fd, List.mem_of_getElem? hfd, hsub w hw⟩
    · exact .inl (List.mem_filter.mp hn).1
  · rintro fi cur ⟨j, d, hd', e, he, h1, h2⟩
    rw [hget] at hd'
    by_cases hj : j = id
    · subst hj; simp only [if_true, Option.some.injEq] at hd'; subst hd'
      obtain ⟨e0, he0, a, b⟩ := unsubOut_sub _ _ _ _ e he cur h2
      exact ⟨j, c, hc, e0, he0, a.trans h1, b⟩
    · simp only [hj, if_false] at hd'; exact ⟨j, d, hd', e, he, h1, h2⟩

theorem unsubscribeFilters_cstep {id : Nat} : ∀ (fs : List String) {s s' : RState} {rs rs' : List Bool},
    unsubscribeFilters s id fs rs = .ok (s', rs') → CStep s s' noReq
  | [], s, s', rs, rs', h => by
    simp only [unsubscribeFilters, Except.ok.injEq, Prod.mk.injEq] at h
    obtain ⟨rfl, _⟩ := h; exact CStep.refl _
  | f :: rest, s, s', rs, rs', h => by
    rw [unsubscribeFilters_cons] at h
    split at h
    · exact unsubscribeFilters_cstep rest h
    · split at h
      · exact unsubscribeFilters_cstep rest h
      · split at h
        · simp at h
        · rename_i c hc
          split at h
          · refine CStep.nn ?_ (unsubscribeFilters_cstep rest h)
            exact CStep.of_conns rfl rfl rfl rfl rfl
          · exact (ufState_cstep hc).nn (unsubscribeFilters_cstep rest h)

end Rp3
end Router
