/-
C03, request conservation through the composite functions of the router model: the notification
drain, the wake-up of parked group members, the publish path, a sweep, the request loop of
`consume`.
-/
import Proofs.Lemmas.Router.Rp4_Move
namespace Router

/-- `drainNotifications`: every request of the list joins its connection's tracker -/
theorem drainNotifications_move : ∀ (ns : List (Nat × DataRequest)) {s s' : RState},
    drainNotifications s ns = .ok s' → KMove s s' (fun j => pickK j ns) noKeys
  | [], s, s', h => by simp only [drainNotifications, Except.ok.injEq] at h; subst h; exact KMove.refl _
  | (id, r) :: rest, s, s', h => by
    simp only [drainNotifications] at h
    split at h
    · simp at h
    · rename_i s1 h1
      split at h
      · simp at h
      · rename_i s2 h2
        refine (((track_move h1).trans (reschedule_move h2)).trans (drainNotifications_move rest h)).reshape fun j => ?_
        simp only [noKeys, oneK, pickK_cons, List.append_nil]
        by_cases hj : id = j
        · subst hj; simp
        · have : ¬ j = id := fun e => hj e.symm
          simp [hj, this]

/-- draining all pending notifications is a balanced move -/
theorem drain_all_move {s s' : RState} (h : drainNotifications { s with notifications := [] } s.notifications = .ok s') :
    KMove s s' noKeys noKeys :=
  ((setNotifications_move s []).trans (drainNotifications_move _ h)).reshape fun j => by
    simp [noKeys, pickK_nil]

/-- `wake_parked`: the parked requests of the logs join their trackers -/
theorem wakeParkedSorted_move : ∀ (logs : List Nat) {s s' : RState},
    wakeParkedSorted s logs = .ok s' → KMove s s' noKeys noKeys
  | [], s, s', h => by simp only [wakeParkedSorted, Except.ok.injEq] at h; subst h; exact KMove.refl _
  | i :: rest, s, s', h => by
    rw [wakeParkedSorted_cons] at h
    split at h
    · exact wakeParkedSorted_move rest h
    · rename_i fd hfd
      split at h
      · simp at h
      · rename_i s2 h2
        refine (((clearWaiters_move hfd).trans (drainNotifications_move _ h2)).trans
          (wakeParkedSorted_move rest h)).reshape fun j => ?_
        simp [noKeys]

theorem wakeParked_move {s s' : RState} {logs : List Nat} (h : wakeParked s logs = .ok s') :
    KMove s s' noKeys noKeys := wakeParkedSorted_move _ h

theorem wakeTurnMoved_move {s s' : RState} (h : wakeTurnMoved s = .ok s') : KMove s s' noKeys noKeys :=
  (KMove.of_conns (s := s) (s' := { s with turnMoved := [] }) rfl rfl rfl rfl rfl).nn (wakeParked_move h)

/-! ### publish path -/

theorem appendToCommitlog_move {s s' : RState} {id : Nat} {p : Pub} {e : Option AppendErr}
    (h : appendToCommitlog s id p = .ok (s', e)) : KMove s s' noKeys noKeys := by
  unfold appendToCommitlog at h
  split at h
  · simp at h
  · rename_i c hc
    simp only [] at h
    split at h
    · simp only [Except.ok.injEq, Prod.mk.injEq] at h; obtain ⟨rfl, _⟩ := h; exact KMove.refl _
    · split at h
      · simp only [Except.ok.injEq, Prod.mk.injEq] at h; obtain ⟨rfl, _⟩ := h; exact KMove.refl _
      · rename_i s1 p1 hr
        have h1 : KMove s s1 noKeys noKeys := by
          split at hr
          · simp only [Except.ok.injEq, Prod.mk.injEq] at hr; obtain ⟨rfl, _⟩ := hr; exact KMove.refl _
          · split at hr
            · simp at hr
            · split at hr
              · split at hr
                · simp at hr
                · simp only [Except.ok.injEq, Prod.mk.injEq] at hr; obtain ⟨rfl, _⟩ := hr; exact KMove.refl _
              · split at hr
                · simp at hr
                · simp only [Except.ok.injEq, Prod.mk.injEq] at hr; obtain ⟨rfl, _⟩ := hr
                  exact KMove.of_set (c' := { c with topicAliases := _ }) hc rfl rfl rfl rfl rfl rfl rfl
        refine h1.nn ?_
        split at h
        · simp only [Except.ok.injEq, Prod.mk.injEq] at h; obtain ⟨rfl, _⟩ := h; exact KMove.refl _
        · rename_i topic ht
          split at h
          · simp at h
          · rename_i s2 idxs h2
            split at h
            · simp at h
            · rename_i s3 h3
              simp only [Except.ok.injEq, Prod.mk.injEq] at h; obtain ⟨rfl, _⟩ := h
              have a : KMove s1 ((updateRetained s1 topic p1).g (Ghost.accepted (some id) p1 topic)) noKeys noKeys :=
                (updateRetained_move s1 topic p1).nn (KMove.of_conns rfl rfl rfl rfl rfl)
              exact (a.nn (dlMatches_move h2)).nn (appendToFilters_move idxs h3)

theorem hpPre_move {s s' : RState} {id : Nat} {p : Pub} {fl fl' : Flags} {b : Bool}
    (h : hpPre s id p fl = .ok (s', fl', b)) : KMove s s' noKeys noKeys := by
  unfold hpPre at h
  split at h
  · split at h
    · simp at h
    · rename_i s1 h1
      simp only [Except.ok.injEq, Prod.mk.injEq] at h; obtain ⟨rfl, _⟩ := h
      exact commitAck_move h1
  · split at h
    · split at h
      · simp at h
      · rename_i c hc
        simp only [Except.ok.injEq, Prod.mk.injEq] at h; obtain ⟨rfl, _⟩ := h
        exact KMove.of_set (c' := { c with acks := _ }) hc rfl rfl rfl rfl rfl rfl rfl
    · simp only [Except.ok.injEq, Prod.mk.injEq] at h; obtain ⟨rfl, _⟩ := h; exact KMove.refl _

/-! ### a sweep -/

theorem fdRetained_move {s s' : RState} {req : DataRequest} {slots slots' : Nat} {ps : List (Pub × Option Cursor)}
    (h : fdRetained s req slots = .ok (s', ps, slots')) : KMove s s' noKeys noKeys := by
  unfold fdRetained at h
  split at h
  · split at h
    · simp at h
    · rename_i s1 ps1 h1
      simp only [Except.ok.injEq, Prod.mk.injEq] at h; obtain ⟨rfl, _⟩ := h
      exact readRetained_move h1
  · simp only [Except.ok.injEq, Prod.mk.injEq] at h; obtain ⟨rfl, _⟩ := h; exact KMove.refl _

theorem fdGroupUpd_move {s s' : RState} {req : DataRequest} {grp : Option SharedGroup}
    (h : fdGroupUpd s req grp = .ok s') : KMove s s' noKeys noKeys := by
  unfold fdGroupUpd at h
  split at h
  · split at h
    · simp only [Except.ok.injEq] at h; subst h; exact KMove.refl _
    · split at h
      · simp at h
      · rename_i s1 g1 h1
        simp only [Except.ok.injEq] at h; subst h
        exact (updateNextClient_move h1).nn (KMove.of_conns rfl rfl rfl rfl rfl)
  · simp only [Except.ok.injEq] at h; subst h; exact KMove.refl _

theorem fdPush_move {s s' : RState} {id : Nat} {c : Conn} {req req' : DataRequest} {grp : Option SharedGroup}
    {pubs : List (Pub × Option Cursor)} {cu : Bool} {st : ConsumeStatus} (hc : getConn s id = some c)
    (h : fdPush s id c req grp pubs cu = .ok (s', req', st)) : KMove s s' noKeys noKeys ∧ req' = req := by
  unfold fdPush at h
  simp only [] at h
  split at h
  · simp at h
  · rename_i s1 h1
    have a : KMove s (pushNotifs (setConn s id { c with out := (fdOut c req pubs).1, brokerAliases := (fdAliases c req.filter).1 })
        c.link (fdOut c req pubs).2) noKeys noKeys :=
      KMove.of_set (c' := { c with out := (fdOut c req pubs).1, brokerAliases := (fdAliases c req.filter).1 }) hc rfl rfl rfl rfl rfl rfl rfl
    have b := a.nn (fdGroupUpd_move h1)
    split at h
    all_goals
      simp only [Except.ok.injEq, Prod.mk.injEq] at h; obtain ⟨rfl, rfl, _⟩ := h
      exact ⟨b.nn (KMove.of_conns rfl rfl rfl rfl rfl), rfl⟩

theorem fdReq0_key (req : DataRequest) (grp : Option SharedGroup) : (fdReq0 req grp).key = req.key := by
  cases grp <;> rfl

/-- a sweep moves no request; the request it returns is the one it was given, cursor and replay flag aside -/
theorem forwardDeviceData_move {s s' : RState} {id : Nat} {req req' : DataRequest} {st : ConsumeStatus}
    (h : forwardDeviceData s id req = .ok (s', req', st)) : KMove s s' noKeys noKeys ∧ req'.key = req.key := by
  rw [forwardDeviceData_eq] at h
  split at h
  · simp at h
  · rename_i c hc
    simp only [] at h
    split at h
    · simp only [Except.ok.injEq, Prod.mk.injEq] at h; obtain ⟨rfl, rfl, _⟩ := h
      exact ⟨KMove.refl _, fdReq0_key _ _⟩
    · split at h
      · simp at h
      · rename_i s1 rp slots h1
        have a := fdRetained_move h1
        split at h
        · simp at h
        · rename_i fd hfd
          split at h
          · simp only [Except.ok.injEq, Prod.mk.injEq] at h; obtain ⟨rfl, rfl, _⟩ := h
            exact ⟨a, fdReq0_key _ _⟩
          · split at h
            · simp only [Except.ok.injEq, Prod.mk.injEq] at h; obtain ⟨rfl, rfl, _⟩ := h
              exact ⟨a, fdReq0_key _ _⟩
            · have hc1 : getConn s1 id = some c := by
                have := (trackerKeys_of_cview (s := s) (s' := s1) (j := id))
                unfold fdRetained at h1
                split at h1
                · split at h1
                  · simp at h1
                  · rename_i s2 ps2 h2
                    simp only [Except.ok.injEq, Prod.mk.injEq] at h1; obtain ⟨rfl, _⟩ := h1
                    rw [(readRetained_core h2).getConn]; exact hc
                · simp only [Except.ok.injEq, Prod.mk.injEq] at h1; obtain ⟨rfl, _⟩ := h1; exact hc
              obtain ⟨b, e⟩ := fdPush_move hc1 h
              exact ⟨a.nn b, by rw [e]; exact fdReq0_key _ _⟩

theorem noteTurn_move (s0 s1 : RState) (req : DataRequest) : KMove s1 (noteTurn s0 s1 req) noKeys noKeys := by
  obtain ⟨tm, e⟩ := noteTurn_eq s0 s1 req
  rw [e]; exact KMove.of_conns rfl rfl rfl rfl rfl

/-! ### the request loop of `consume` -/

theorem RCX.ex_perm {s : RState} {o : Nat} {ex ex' : List RKey} (h : RCX s o ex) (hp : ex'.Perm ex) : RCX s o ex' :=
  h.move (KMove.refl s) fun j => by
    simp only [noKeys, List.nil_append]
    split
    · exact hp
    · exact .refl _

/-- the keys held outside the state join the tracker -/
theorem RCX.trackv {s s' : RState} {id : Nat} {rs : List DataRequest} (h : RCX s id (rs.map (·.key)))
    (ht : trackv s id rs = .ok s') : RC s' :=
  (RCX.nil_iff s' id).mp (h.move (trackv_move ht) fun j => by
    simp only [oneK, noKeys, List.nil_append]
    split <;> simp)

/-- `consume`'s request loop: the requests it holds locally (`requests`, `skipped`) end up parked or
    back in the tracker, one copy each -/
theorem consumeLoop_rcx {id : Nat} : ∀ (fuel : Nat) {s s' : RState} {requests skipped : List DataRequest},
    consumeLoop s id fuel requests skipped = .ok s' → RCX s id ((requests ++ skipped).map (·.key)) → RC s'
  | 0, s, s', requests, skipped, h, hr => by
    simp only [consumeLoop] at h
    exact hr.trackv h
  | fuel + 1, s, s', requests, skipped, h, hr => by
    cases requests with
    | nil =>
      simp only [consumeLoop] at h
      split at h
      · simp at h
      · rename_i s1 h1
        have a : RCX s1 id (skipped.map (·.key)) := by
          split at h1
          · exact hr.view (pause_move h1)
          · simp only [Except.ok.injEq] at h1; subst h1; exact hr
        exact a.trackv h
    | cons req rest =>
      simp only [consumeLoop] at h
      split at h
      · simp at h
      · rename_i s1 req1 st h1
        obtain ⟨m1, ek⟩ := forwardDeviceData_move h1
        have a : RCX (noteTurn s s1 req1) id ((req1 :: rest ++ skipped).map (·.key)) := by
          have := hr.view (m1.nn (noteTurn_move s s1 req1))
          simpa [ek] using this
        split at h
        · split at h
          · simp at h
          · rename_i s2 h2
            refine ((a.view (pause_move h2)).ex_perm ?_).trackv h
            simp only [List.map_append, List.map_cons, List.map_nil, List.cons_append]
            rw [List.perm_iff_count]; intro x
            simp only [List.count_append, List.count_cons, List.count_nil]; omega
        · split at h
          · simp at h
          · rename_i s2 h2
            refine ((a.view (pause_move h2)).ex_perm ?_).trackv h
            simp only [List.map_append, List.map_cons, List.map_nil, List.cons_append]
            rw [List.perm_iff_count]; intro x
            simp only [List.count_append, List.count_cons, List.count_nil]; omega
        · split at h
          · simp at h
          · rename_i s2 h2
            refine consumeLoop_rcx fuel h (a.move (park_move h2) fun j => ?_)
            simp only [oneK, noKeys, List.nil_append, List.cons_append, List.map_cons]
            split
            · perm_count
            · exact .refl _
        · refine consumeLoop_rcx fuel h (a.ex_perm ?_)
          simp only [List.map_append, List.map_cons, List.map_nil, List.cons_append]
          rw [List.perm_iff_count]; intro x
          simp only [List.count_append, List.count_cons, List.count_nil]; omega
        · refine consumeLoop_rcx fuel h (a.ex_perm ?_)
          simp only [List.map_append, List.map_cons, List.map_nil, List.cons_append]
          rw [List.perm_iff_count]; intro x
          simp only [List.count_append, List.count_cons, List.count_nil]; omega

/-- `consume` keeps request conservation -/
theorem consume_rc {s s' : RState} {b : Bool} (hr : RC s) (h : consume s = .ok (s', b)) : RC s' := by
  unfold consume at h
  split at h
  · simp only [Except.ok.injEq, Prod.mk.injEq] at h; obtain ⟨rfl, _⟩ := h
    exact RCX.view hr (KMove.of_conns rfl rfl rfl rfl rfl)
  · rename_i id rq hq
    simp only [] at h
    split at h
    · simp only [Except.ok.injEq, Prod.mk.injEq] at h; obtain ⟨rfl, _⟩ := h
      exact RCX.view hr (KMove.of_conns rfl rfl rfl rfl rfl)
    · rename_i c hc
      split at h
      · simp at h
      · rename_i s1 h1
        split at h
        · simp at h
        · rename_i s2 h2
          simp only [Except.ok.injEq, Prod.mk.injEq] at h; obtain ⟨rfl, _⟩ := h
          refine RCX.view (consumeLoop_rcx _ h1 ?_) (wakeTurnMoved_move h2)
          refine RCX.view ?_ (ackDeviceData_move _ id)
          -- the tracker's requests are taken out of the state
          have hc' : getConn s id = some c := hc
          have hx : RCX s id [] := (RCX.nil_iff s id).mpr hr
          refine hx.move (keysOf_tracker_set (c' := { c with tracker := { c.tracker with requests := [] } })
            hc' rfl rfl rfl rfl rfl rfl) fun j => ?_
          simp only [oneK, List.map_nil, List.append_nil, List.nil_append]
          split <;> simp

end Router
