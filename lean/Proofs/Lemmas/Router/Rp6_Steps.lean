/-
Ownership of data requests (`OEq`) through the composite functions of the router model: the
notification drain, the wake-up of parked group members, the publish path, a sweep.
-/
import Proofs.Lemmas.Router.Rp6_Own
namespace Router

/-- draining all pending notifications moves them to the trackers -/
theorem drain_all_oeq {s s' : RState} (h : drainNotifications { s with notifications := [] } s.notifications = .ok s') :
    OEq s s' := by
  obtain ⟨a, n⟩ := drainNotifications_add _ h
  refine ⟨fun j r => ?_, WSub.of_native n, a.subs, a.grv, a.cfg⟩
  rw [a.own]
  unfold Own Notified
  have e1 : ∀ r, TrackedBy ({ s with notifications := [] } : RState) j r ↔ TrackedBy s j r := fun _ => Iff.rfl
  have e2 : Parked ({ s with notifications := [] } : RState) j r ↔ Parked s j r := Iff.rfl
  rw [e1, e2]
  simp only [List.not_mem_nil, or_false, or_assoc]

theorem clearWaiters_own {s : RState} {i : Nat} {fd : FilterData} (hfd : s.datalog.native[i]? = some fd) (j : Nat) (r : DataRequest) :
    Own s j r ↔ Own (clearWaiters s i fd) j r ∨ (j, r) ∈ fd.waiters := by
  unfold Own Notified
  have e1 : TrackedBy (clearWaiters s i fd) j r ↔ TrackedBy s j r := Iff.rfl
  have e3 : (clearWaiters s i fd).notifications = s.notifications := rfl
  rw [e1, e3, parked_set (s' := clearWaiters s i fd) (fd' := { fd with waiters := [] }) hfd rfl, parked_split hfd]
  simp only [List.not_mem_nil, false_or]
  constructor
  · rintro (h | (h | h) | h)
    · exact .inl (.inl h)
    · exact .inr h
    · exact .inl (.inr (.inl h))
    · exact .inl (.inr (.inr h))
  · rintro ((h | h | h) | h)
    · exact .inl h
    · exact .inr (.inl (.inr h))
    · exact .inr (.inr h)
    · exact .inr (.inl (.inl h))

/-- `wake_parked`: the parked requests of the logs join their trackers -/
theorem wakeParkedSorted_oeq : ∀ (logs : List Nat) {s s' : RState}, wakeParkedSorted s logs = .ok s' → OEq s s'
  | [], s, s', h => by simp only [wakeParkedSorted, Except.ok.injEq] at h; subst h; exact OEq.refl _
  | i :: rest, s, s', h => by
    rw [wakeParkedSorted_cons] at h
    split at h
    · exact wakeParkedSorted_oeq rest h
    · rename_i fd hfd
      split at h
      · simp at h
      · rename_i s2 h2
        obtain ⟨a, n⟩ := drainNotifications_add _ h2
        have b : OEq s s2 := by
          refine ⟨fun j r => ?_, ?_, a.subs, a.grv, a.cfg⟩
          · rw [a.own, clearWaiters_own hfd]
          · exact (WSub.of_set (s' := clearWaiters s i fd) (fd' := { fd with waiters := [] }) hfd rfl (.inl rfl)).trans
              (WSub.of_native n)
        exact b.trans (wakeParkedSorted_oeq rest h)

theorem wakeParked_oeq {s s' : RState} {logs : List Nat} (h : wakeParked s logs = .ok s') : OEq s s' :=
  wakeParkedSorted_oeq _ h

theorem wakeTurnMoved_oeq {s s' : RState} (h : wakeTurnMoved s = .ok s') : OEq s s' :=
  (OEq.of_conns (s := s) (s' := { s with turnMoved := [] }) rfl rfl rfl rfl rfl).trans (wakeParked_oeq h)

/-! ### publish path -/

theorem appendToCommitlog_oeq {s s' : RState} {id : Nat} {p : Pub} {e : Option AppendErr}
    (h : appendToCommitlog s id p = .ok (s', e)) : OEq s s' := by
  unfold appendToCommitlog at h
  split at h
  · simp at h
  · rename_i c hc
    simp only [] at h
    split at h
    · simp only [Except.ok.injEq, Prod.mk.injEq] at h; obtain ⟨rfl, _⟩ := h; exact OEq.refl _
    · split at h
      · simp only [Except.ok.injEq, Prod.mk.injEq] at h; obtain ⟨rfl, _⟩ := h; exact OEq.refl _
      · rename_i s1 p1 hr
        have h1 : OEq s s1 := by
          split at hr
          · simp only [Except.ok.injEq, Prod.mk.injEq] at hr; obtain ⟨rfl, _⟩ := hr; exact OEq.refl _
          · split at hr
            · simp at hr
            · split at hr
              · split at hr
                · simp at hr
                · simp only [Except.ok.injEq, Prod.mk.injEq] at hr; obtain ⟨rfl, _⟩ := hr; exact OEq.refl _
              · split at hr
                · simp at hr
                · simp only [Except.ok.injEq, Prod.mk.injEq] at hr; obtain ⟨rfl, _⟩ := hr
                  exact OEq.of_set (c' := { c with topicAliases := _ }) hc rfl rfl rfl rfl rfl rfl rfl
        refine h1.trans ?_
        split at h
        · simp only [Except.ok.injEq, Prod.mk.injEq] at h; obtain ⟨rfl, _⟩ := h; exact OEq.refl _
        · rename_i topic ht
          split at h
          · simp at h
          · rename_i s2 idxs h2
            split at h
            · simp at h
            · rename_i s3 h3
              simp only [Except.ok.injEq, Prod.mk.injEq] at h; obtain ⟨rfl, _⟩ := h
              have a : OEq s1 ((updateRetained s1 topic p1).g (Ghost.accepted (some id) p1 topic)) :=
                (updateRetained_oeq s1 topic p1).trans (OEq.of_conns rfl rfl rfl rfl rfl)
              exact (a.trans (dlMatches_oeq h2)).trans (appendToFilters_oeq idxs h3)

theorem hpPre_oeq {s s' : RState} {id : Nat} {p : Pub} {fl fl' : Flags} {b : Bool}
    (h : hpPre s id p fl = .ok (s', fl', b)) : OEq s s' := by
  unfold hpPre at h
  split at h
  · split at h
    · simp at h
    · rename_i s1 h1
      simp only [Except.ok.injEq, Prod.mk.injEq] at h; obtain ⟨rfl, _⟩ := h
      exact commitAck_oeq h1
  · split at h
    · split at h
      · simp at h
      · rename_i c hc
        simp only [Except.ok.injEq, Prod.mk.injEq] at h; obtain ⟨rfl, _⟩ := h
        exact OEq.of_set (c' := { c with acks := _ }) hc rfl rfl rfl rfl rfl rfl rfl
    · simp only [Except.ok.injEq, Prod.mk.injEq] at h; obtain ⟨rfl, _⟩ := h; exact OEq.refl _

/-! ### a sweep -/

theorem fdRetained_oeq {s s' : RState} {req : DataRequest} {slots slots' : Nat} {ps : List (Pub × Option Cursor)}
    (h : fdRetained s req slots = .ok (s', ps, slots')) : OEq s s' := by
  unfold fdRetained at h
  split at h
  · split at h
    · simp at h
    · rename_i s1 ps1 h1
      simp only [Except.ok.injEq, Prod.mk.injEq] at h; obtain ⟨rfl, _⟩ := h
      exact readRetained_oeq h1
  · simp only [Except.ok.injEq, Prod.mk.injEq] at h; obtain ⟨rfl, _⟩ := h; exact OEq.refl _

theorem fdGroupUpd_oeq {s s' : RState} {req : DataRequest} {grp : Option SharedGroup}
    (h : fdGroupUpd s req grp = .ok s') : OEq s s' := by
  unfold fdGroupUpd at h
  split at h
  · split at h
    · simp only [Except.ok.injEq] at h; subst h; exact OEq.refl _
    · split at h
      · simp at h
      · rename_i s1 g1 h1
        simp only [Except.ok.injEq] at h; subst h
        exact (updateNextClient_oeq h1).trans (OEq.of_conns rfl rfl rfl rfl rfl)
  · simp only [Except.ok.injEq] at h; subst h; exact OEq.refl _

theorem fdPush_oeq {s s' : RState} {id : Nat} {c : Conn} {req req' : DataRequest} {grp : Option SharedGroup}
    {pubs : List (Pub × Option Cursor)} {cu : Bool} {st : ConsumeStatus} (hc : getConn s id = some c)
    (h : fdPush s id c req grp pubs cu = .ok (s', req', st)) : OEq s s' := by
  unfold fdPush at h
  simp only [] at h
  split at h
  · simp at h
  · rename_i s1 h1
    have a : OEq s (pushNotifs (setConn s id { c with out := (fdOut c req pubs).1, brokerAliases := (fdAliases c req.filter).1 })
        c.link (fdOut c req pubs).2) :=
      OEq.of_set (c' := { c with out := (fdOut c req pubs).1, brokerAliases := (fdAliases c req.filter).1 }) hc rfl rfl rfl rfl rfl rfl rfl
    have b := a.trans (fdGroupUpd_oeq h1)
    split at h
    all_goals
      simp only [Except.ok.injEq, Prod.mk.injEq] at h; obtain ⟨rfl, _, _⟩ := h
      exact b.trans (OEq.of_conns rfl rfl rfl rfl rfl)

/-- a sweep moves no request -/
theorem forwardDeviceData_oeq {s s' : RState} {id : Nat} {req req' : DataRequest} {st : ConsumeStatus}
    (h : forwardDeviceData s id req = .ok (s', req', st)) : OEq s s' := by
  rw [Router.forwardDeviceData_eq] at h
  split at h
  · simp at h
  · rename_i c hc
    simp only [] at h
    split at h
    · simp only [Except.ok.injEq, Prod.mk.injEq] at h; obtain ⟨rfl, _, _⟩ := h
      exact OEq.refl _
    · split at h
      · simp at h
      · rename_i s1 rp slots h1
        have a := fdRetained_oeq h1
        split at h
        · simp at h
        · rename_i fd hfd
          split at h
          · simp only [Except.ok.injEq, Prod.mk.injEq] at h; obtain ⟨rfl, _, _⟩ := h
            exact a
          · split at h
            · simp only [Except.ok.injEq, Prod.mk.injEq] at h; obtain ⟨rfl, _, _⟩ := h
              exact a
            · have hc1 : getConn s1 id = some c := by
                unfold fdRetained at h1
                split at h1
                · split at h1
                  · simp at h1
                  · rename_i s2 ps2 h2
                    simp only [Except.ok.injEq, Prod.mk.injEq] at h1; obtain ⟨rfl, _⟩ := h1
                    rw [(readRetained_core h2).getConn]; exact hc
                · simp only [Except.ok.injEq, Prod.mk.injEq] at h1; obtain ⟨rfl, _⟩ := h1; exact hc
              exact a.trans (fdPush_oeq hc1 h)

end Router
