/-
Slab lemmas (`slab::Slab` as modelled in Model/Router/Types.lean): `get?` after `set` / `remove` /
`insert`, the live count `len`, and the well-formedness of the LIFO free list.
-/
import Proofs.Lemmas.Router.Basic
namespace Router
namespace Slab
variable {α : Type}

/-- number of occupied slots -/
theorem filter_isSome_set : ∀ (l : List (Option α)) (k : Nat) (x : Option α) (hk : k < l.length),
    ((l.set k x).filter Option.isSome).length + (if (l[k]).isSome then 1 else 0) =
      (l.filter Option.isSome).length + (if x.isSome then 1 else 0)
  | [], k, x, hk => by simp at hk
  | a :: l, 0, x, _ => by
    simp only [List.set_cons_zero, List.filter_cons, List.getElem_cons_zero]
    cases a <;> cases x <;> simp
  | a :: l, k + 1, x, hk => by
    have ih := filter_isSome_set l k x (by simpa using hk)
    simp only [List.set_cons_succ, List.filter_cons, List.getElem_cons_succ]
    cases a <;> simp <;> omega

theorem get?_set (s : Slab α) (k j : Nat) (a : α) :
    (s.set k a).get? j = if j = k ∧ k < s.entries.length then some a else s.get? j := by
  unfold Slab.set Slab.get?
  by_cases h : j = k
  · subst h
    by_cases hl : j < s.entries.length
    · simp [hl]
    · simp [hl]
  · have : ¬ k = j := fun e => h e.symm
    simp [h, this]

theorem lt_of_get? {s : Slab α} {k : Nat} {a : α} (h : s.get? k = some a) : k < s.entries.length := by
  unfold Slab.get? at h
  by_cases hl : k < s.entries.length
  · exact hl
  · simp [List.getElem?_eq_none (Nat.le_of_not_lt hl)] at h

theorem getElem_of_get? {s : Slab α} {k : Nat} {a : α} (h : s.get? k = some a) :
    ∃ hk : k < s.entries.length, s.entries[k] = some a := by
  have hk := lt_of_get? h
  refine ⟨hk, ?_⟩
  unfold Slab.get? at h
  simpa [List.getElem?_eq_getElem hk] using h

theorem get?_set_live {s : Slab α} {k : Nat} {c : α} (h : s.get? k = some c) (j : Nat) (a : α) :
    (s.set k a).get? j = if j = k then some a else s.get? j := by
  rw [get?_set]; simp [lt_of_get? h]

theorem len_set_live {s : Slab α} {k : Nat} {c : α} (h : s.get? k = some c) (a : α) :
    (s.set k a).len = s.len := by
  obtain ⟨hk, he⟩ := getElem_of_get? h
  have := filter_isSome_set s.entries k (some a) hk
  simp only [he, Option.isSome_some, if_true] at this
  unfold Slab.len Slab.set
  simp only
  omega

theorem get?_remove (s : Slab α) (k j : Nat) :
    (s.remove k).get? j = if j = k then none else s.get? j := by
  unfold Slab.remove Slab.get?
  by_cases h : j = k
  · subst h
    by_cases hl : j < s.entries.length
    · simp [hl]
    · simp [hl]
  · have : ¬ k = j := fun e => h e.symm
    simp [h, this]

theorem len_remove_live {s : Slab α} {k : Nat} {c : α} (h : s.get? k = some c) :
    (s.remove k).len + 1 = s.len := by
  obtain ⟨hk, he⟩ := getElem_of_get? h
  have := filter_isSome_set s.entries k none hk
  simp only [he, Option.isSome_some, if_true, Option.isSome_none] at this
  unfold Slab.len Slab.remove
  simp only
  simpa using this

/-- well-formed free list: distinct keys, each in range and vacant -/
def WF (s : Slab α) : Prop :=
  s.free.Nodup ∧ ∀ k ∈ s.free, k < s.entries.length ∧ s.get? k = none

theorem wf_empty : WF ({} : Slab α) := by
  simp [WF]

theorem wf_set {s : Slab α} {k : Nat} {c : α} (h : s.get? k = some c) (a : α) (hw : s.WF) :
    (s.set k a).WF := by
  refine ⟨hw.1, fun j hj => ?_⟩
  have := hw.2 j hj
  refine ⟨by simpa [Slab.set] using this.1, ?_⟩
  rw [get?_set_live h]
  have : j ≠ k := fun e => by subst e; rw [h] at this; simp at this
  simp [this, (hw.2 j hj).2]

theorem wf_remove {s : Slab α} {k : Nat} {c : α} (h : s.get? k = some c) (hw : s.WF) :
    (s.remove k).WF := by
  have hk := lt_of_get? h
  have hnot : k ∉ s.free := fun hm => by
    have := (hw.2 k hm).2; rw [h] at this; simp at this
  refine ⟨?_, fun j hj => ?_⟩
  · show (k :: s.free).Nodup
    exact List.nodup_cons.mpr ⟨hnot, hw.1⟩
  · have hj' : j = k ∨ j ∈ s.free := by simpa [Slab.remove] using hj
    rw [get?_remove]
    refine ⟨?_, ?_⟩
    · rcases hj' with rfl | hm
      · simpa [Slab.remove] using hk
      · simpa [Slab.remove] using (hw.2 j hm).1
    · by_cases e : j = k
      · simp [e]
      · rcases hj' with rfl | hm
        · exact absurd rfl e
        · simp [e, (hw.2 j hm).2]

/-- the key handed out by `insert` is vacant before and holds the new value afterwards; all other
    keys are unaffected -/
theorem insert_spec (s : Slab α) (a : α) (hw : s.WF) :
    s.get? (s.insert a).2 = none ∧
    (∀ j, (s.insert a).1.get? j = if j = (s.insert a).2 then some a else s.get? j) ∧
    (s.insert a).1.len = s.len + 1 ∧ (s.insert a).1.WF := by
  unfold Slab.insert
  cases hf : s.free with
  | nil =>
    simp only
    refine ⟨?_, ?_, ?_, ?_⟩
    · simp [Slab.get?]
    · intro j
      unfold Slab.get?
      by_cases h : j = s.entries.length
      · subst h; simp
      · by_cases hl : j < s.entries.length
        · simp [h, List.getElem?_append_left hl]
        · have : s.entries.length < j := by omega
          simp [h, Nat.le_of_lt this]
          rw [List.getElem?_eq_none (by simp; omega)]
          simp
    · simp [Slab.len, List.filter_append]
    · simp [WF]
  | cons k r =>
    simp only
    have hk := hw.2 k (by simp [hf])
    have hnd : (k :: r).Nodup := hf ▸ hw.1
    have hkr : k ∉ r := (List.nodup_cons.mp hnd).1
    refine ⟨hk.2, ?_, ?_, ?_⟩
    · intro j
      unfold Slab.get?
      by_cases h : j = k
      · subst h; simp [hk.1]
      · have : ¬ k = j := fun e => h e.symm
        simp [h, this]
    · have he : s.entries[k]'hk.1 = none := by
        have := hk.2
        unfold Slab.get? at this
        rw [List.getElem?_eq_getElem hk.1] at this
        simpa using this
      have := filter_isSome_set s.entries k (some a) hk.1
      simp only [he, Option.isSome_none, Option.isSome_some, if_true] at this
      unfold Slab.len
      simpa using this
    · refine ⟨(List.nodup_cons.mp hnd).2, fun j hj => ?_⟩
      have hj' := hw.2 j (by simp [hf, hj])
      have hne : j ≠ k := fun e => hkr (e ▸ hj)
      have : ¬ k = j := fun e => hne e.symm
      refine ⟨by simpa using hj'.1, ?_⟩
      have h2 := hj'.2
      unfold Slab.get? at h2 ⊢
      simpa [List.getElem?_set, this] using h2

/-- without any assumption on the free list, `insert` adds at most one live entry -/
theorem len_insert_le (s : Slab α) (a : α) : (s.insert a).1.len ≤ s.len + 1 := by
  unfold Slab.insert
  cases hf : s.free with
  | nil => simp [Slab.len, List.filter_append]
  | cons k r =>
    simp only [Slab.len]
    by_cases hk : k < s.entries.length
    · have := filter_isSome_set s.entries k (some a) hk
      simp only [Option.isSome_some, if_true] at this
      split at this <;> omega
    · rw [List.set_eq_of_length_le (Nat.le_of_not_lt hk)]; omega

end Slab
end Router
