/-
`handle_device_payload` as a whole (C06 batch form, C16 DISCONNECT inside a batch).
-/
import Proofs.Lemmas.Router.Rp2_Acks
import Proofs.Lemmas.Router.Rp2_Flush
namespace Router

/-- `stop` is only ever set together with `disconnect` -/
def Flags.stopOk (fl : Flags) : Prop := fl.stop = true → fl.disconnect = true

theorem subscribeFilters_stopOk (id : Nat) (subId : Option Nat) : ∀ (fs : List SubFilter) {s s' : RState}
    {codes codes' : List Nat} {fl fl' : Flags},
    subscribeFilters s id subId fs codes fl = .ok (s', codes', fl') → fl.stopOk → fl'.stopOk
  | [], s, s', codes, codes', fl, fl', h, hp => by
    simp only [subscribeFilters, Except.ok.injEq, Prod.mk.injEq] at h; obtain ⟨_, _, rfl⟩ := h; exact hp
  | f :: rest, s, s', codes, codes', fl, fl', h, hp => by
    simp only [subscribeFilters] at h
    split at h
    · simp only [Except.ok.injEq, Prod.mk.injEq] at h; obtain ⟨_, _, rfl⟩ := h; exact fun _ => rfl
    · split at h
      · simp only [Except.ok.injEq, Prod.mk.injEq] at h; obtain ⟨_, _, rfl⟩ := h; exact fun _ => rfl
      · split at h
        · simp at h
        · exact subscribeFilters_stopOk id subId rest h hp

theorem handlePacket_stopOk {s s' : RState} {id : Nat} {cid : String} {pkt : Packet} {fl fl' : Flags}
    (h : handlePacket s id cid pkt fl = .ok (s', fl')) (hp : fl.stopOk) : fl'.stopOk := by
  cases pkt with
  | publish p =>
    simp only [handlePacket] at h
    split at h
    · simp at h
    · rename_i s1 fl1 hpre
      simp only [Except.ok.injEq, Prod.mk.injEq] at h; obtain ⟨_, rfl⟩ := h
      split at hpre
      · split at hpre
        · simp at hpre
        · simp at hpre
      · split at hpre
        · split at hpre
          · simp at hpre
          · simp only [Except.ok.injEq, Prod.mk.injEq] at hpre; obtain ⟨_, rfl, _⟩ := hpre; exact hp
        · simp at hpre
    · rename_i s1 fl1 hpre
      have hp1 : fl1.stopOk := by
        split at hpre
        · split at hpre
          · simp at hpre
          · simp only [Except.ok.injEq, Prod.mk.injEq] at hpre; obtain ⟨_, rfl, _⟩ := hpre; exact hp
        · split at hpre
          · split at hpre
            · simp at hpre
            · simp at hpre
          · simp only [Except.ok.injEq, Prod.mk.injEq] at hpre; obtain ⟨_, rfl, _⟩ := hpre; exact hp
      split at h
      · simp at h
      · simp only [Except.ok.injEq, Prod.mk.injEq] at h; obtain ⟨_, rfl⟩ := h; exact hp1
      · simp only [Except.ok.injEq, Prod.mk.injEq] at h; obtain ⟨_, rfl⟩ := h; exact fun _ => rfl
      · simp only [Except.ok.injEq, Prod.mk.injEq] at h; obtain ⟨_, rfl⟩ := h; exact fun _ => rfl
  | subscribe pkid subId fs =>
    simp only [handlePacket] at h
    split at h
    · simp at h
    · rename_i s1 codes fl1 hsf
      split at h
      · simp at h
      · simp only [Except.ok.injEq, Prod.mk.injEq] at h; obtain ⟨_, rfl⟩ := h
        have := subscribeFilters_stopOk id subId fs hsf hp
        exact this
  | unsubscribe pkid fs =>
    simp only [handlePacket] at h
    split at h
    · simp at h
    · split at h
      · simp at h
      · split at h
        · simp at h
        · simp only [Except.ok.injEq, Prod.mk.injEq] at h; obtain ⟨_, rfl⟩ := h; exact hp
  | pingreq =>
    simp only [handlePacket] at h
    split at h
    · simp at h
    · simp only [Except.ok.injEq, Prod.mk.injEq] at h; obtain ⟨_, rfl⟩ := h; exact hp
  | puback pkid =>
    simp only [handlePacket] at h
    split at h
    · simp at h
    · split at h
      · simp only [Except.ok.injEq, Prod.mk.injEq] at h; obtain ⟨_, rfl⟩ := h; exact fun _ => rfl
      · split at h
        · simp at h
        · simp only [Except.ok.injEq, Prod.mk.injEq] at h; obtain ⟨_, rfl⟩ := h; exact hp
  | pubrec pkid =>
    simp only [handlePacket] at h
    split at h
    · simp at h
    · split at h
      · simp only [Except.ok.injEq, Prod.mk.injEq] at h; obtain ⟨_, rfl⟩ := h; exact fun _ => rfl
      · split at h
        · simp at h
        · simp only [Except.ok.injEq, Prod.mk.injEq] at h; obtain ⟨_, rfl⟩ := h; exact hp
  | pubrel pkid hpr =>
    simp only [handlePacket] at h
    split at h
    · simp at h
    · split at h
      · simp only [Except.ok.injEq, Prod.mk.injEq] at h; obtain ⟨_, rfl⟩ := h; exact fun _ => rfl
      · split at h
        · simp at h
        · simp only [Except.ok.injEq, Prod.mk.injEq] at h; obtain ⟨_, rfl⟩ := h; exact fun _ => rfl
        · split at h
          · simp at h
          · simp only [Except.ok.injEq, Prod.mk.injEq] at h; obtain ⟨_, rfl⟩ := h; exact hp
  | pubcomp pkid =>
    simp only [handlePacket] at h
    split at h
    · simp at h
    · split at h
      · simp only [Except.ok.injEq, Prod.mk.injEq] at h; obtain ⟨_, rfl⟩ := h; exact fun _ => rfl
      · simp only [Except.ok.injEq, Prod.mk.injEq] at h; obtain ⟨_, rfl⟩ := h; exact hp
  | disconnect => simp only [handlePacket, Except.ok.injEq, Prod.mk.injEq] at h; obtain ⟨_, rfl⟩ := h; exact fun _ => rfl
  | other => simp only [handlePacket, Except.ok.injEq, Prod.mk.injEq] at h; obtain ⟨_, rfl⟩ := h; exact hp

theorem handlePackets_stopOk (id : Nat) (cid : String) : ∀ (pkts : List Packet) {s s' : RState} {fl fl' : Flags},
    handlePackets s id cid pkts fl = .ok (s', fl') → fl.stopOk → fl'.stopOk
  | [], s, s', fl, fl', h, hp => by
    simp only [handlePackets, Except.ok.injEq, Prod.mk.injEq] at h; obtain ⟨_, rfl⟩ := h; exact hp
  | p :: rest, s, s', fl, fl', h, hp => by
    simp only [handlePackets] at h
    split at h
    · simp at h
    · rename_i s1 fl1 h1
      have hp1 := handlePacket_stopOk h1 hp
      split at h
      · simp only [Except.ok.injEq, Prod.mk.injEq] at h; obtain ⟨_, rfl⟩ := h; exact hp1
      · exact handlePackets_stopOk id cid rest h hp1

/-- a batch that has not stopped continues with the remaining packets -/
theorem handlePackets_append (id : Nat) (cid : String) : ∀ (pre : List Packet) (post : List Packet)
    {s s1 : RState} {fl fl1 : Flags},
    handlePackets s id cid pre fl = .ok (s1, fl1) → fl.stop = false → fl1.stop = false →
    handlePackets s id cid (pre ++ post) fl = handlePackets s1 id cid post fl1
  | [], post, s, s1, fl, fl1, h, _, _ => by
    simp only [handlePackets, Except.ok.injEq, Prod.mk.injEq] at h; obtain ⟨rfl, rfl⟩ := h; rfl
  | p :: rest, post, s, s1, fl, fl1, h, h0, h1 => by
    simp only [handlePackets, List.cons_append] at h ⊢
    split at h
    · simp at h
    · rename_i s2 fl2 hp
      split at h
      · rename_i hstop
        simp only [Except.ok.injEq, Prod.mk.injEq] at h; obtain ⟨rfl, rfl⟩ := h
        simp [h1] at hstop
      · rename_i hstop
        simp only [hstop, Bool.false_eq_true, if_false]
        exact handlePackets_append id cid rest post h (by simpa using hstop) h1

/-! ### disconnection -/

theorem handleDisconnection_removes {s s' : RState} {id : Nat} {r : Option String} {c : Conn}
    (hc : getConn s id = some c) (h : handleDisconnection s id r = .ok s') : getConn s' id = none := by
  have hlt := getConn_lt hc
  rw [handleDisconnection_eq] at h
  simp only [hc] at h
  refine (wakeParked_frame h).conns.get_none ?_
  unfold getConn
  rw [(hdFinal_fields s id c r).1]
  simp [Slab.get?, Slab.remove, hlt]

theorem handleDisconnection_lastWills {s s' : RState} {id : Nat} {r : Option String}
    (h : handleDisconnection s id r = .ok s') : s'.lastWills = s.lastWills := by
  rw [handleDisconnection_eq] at h
  split at h
  · simp only [Except.ok.injEq] at h; subst h; rfl
  · rw [(wakeParked_wakeFrame h).wills, (hdFinal_fields _ _ _ _).2.1]

/-! ### tracker status -/

/-- the connection exists and its tracker is not `Paused(Caughtup)`: it is in the ready queue, or
    waits for the link's `Ready` (Busy) or for an ack (InflightFull) -/
def NotCaughtup (s : RState) (j : Nat) : Prop :=
  ∃ c, getConn s j = some c ∧ c.tracker.status ≠ .paused .caughtup

theorem tryReady_status {t t' : Tracker} {r : SchedReason} {w : Bool} (h : t.tryReady r = some (t', w)) :
    t'.status = .ready ∨ t'.status = t.status := by
  unfold Tracker.tryReady at h
  split at h
  · simp only [Option.some.injEq, Prod.mk.injEq] at h; obtain ⟨rfl, _⟩ := h; exact .inr rfl
  · split at h <;> (split at h <;>
      first
      | (simp only [Option.some.injEq, Prod.mk.injEq] at h; obtain ⟨rfl, _⟩ := h; first | exact .inl rfl | exact .inr rfl)
      | simp at h)

theorem reschedule_notCaughtup {s s' : RState} {id : Nat} {r : SchedReason} (j : Nat)
    (h : reschedule s id r = .ok s') (hn : NotCaughtup s j) : NotCaughtup s' j := by
  unfold reschedule at h
  split at h
  · simp at h
  · rename_i c hc
    split at h
    · simp at h
    · rename_i t woke htr
      simp only [Except.ok.injEq] at h; subst h
      have key : NotCaughtup (setConn s id { c with tracker := t }) j := by
        obtain ⟨cj, gj, sj⟩ := hn
        by_cases hj : j = id
        · subst hj
          rw [hc] at gj; cases gj
          refine ⟨_, getConn_setConn_same _ _ _ (getConn_lt hc), ?_⟩
          rcases tryReady_status htr with h1 | h1
          · simp [h1]
          · simp only [h1]; exact sj
        · exact ⟨cj, by rw [getConn_setConn_ne _ _ _ _ hj]; exact gj, sj⟩
      split
      · exact key
      · exact key

theorem reschedule_freshData_status {s s' : RState} {id : Nat}
    (h : reschedule s id .freshData = .ok s') : NotCaughtup s' id := by
  unfold reschedule at h
  split at h
  · simp at h
  · rename_i c hc
    split at h
    · simp at h
    · rename_i t woke htr
      simp only [Except.ok.injEq] at h; subst h
      have hg : getConn (setConn s id { c with tracker := t }) id = some { c with tracker := t } :=
        getConn_setConn_same _ _ _ (getConn_lt hc)
      have hts : t.status ≠ .paused .caughtup := by
        unfold Tracker.tryReady at htr
        split at htr
        · rename_i hst
          simp only [Option.some.injEq, Prod.mk.injEq] at htr; obtain ⟨rfl, _⟩ := htr
          rw [hst]; simp
        · rename_i p hst
          simp only [] at htr
          split at htr
          · simp only [Option.some.injEq, Prod.mk.injEq] at htr; obtain ⟨rfl, _⟩ := htr; simp
          · rename_i hne
            simp only [Option.some.injEq, Prod.mk.injEq] at htr; obtain ⟨rfl, _⟩ := htr
            rw [hst]; intro hcontra; cases hcontra; exact hne rfl
      split
      · exact ⟨_, hg, hts⟩
      · exact ⟨_, hg, hts⟩

theorem track_notCaughtup {s s' : RState} {id : Nat} {r : DataRequest} (j : Nat)
    (h : track s id r = .ok s') (hn : NotCaughtup s j) : NotCaughtup s' j := by
  unfold track at h
  split at h
  · simp at h
  · rename_i c hc
    simp only [Except.ok.injEq] at h; subst h
    obtain ⟨cj, gj, sj⟩ := hn
    by_cases hj : j = id
    · subst hj
      rw [hc] at gj; cases gj
      exact ⟨_, getConn_setConn_same _ _ _ (getConn_lt hc), sj⟩
    · exact ⟨cj, by rw [getConn_setConn_ne _ _ _ _ hj]; exact gj, sj⟩

theorem drainNotifications_notCaughtup : ∀ (ns : List (Nat × DataRequest)) (j : Nat) {s s' : RState},
    drainNotifications s ns = .ok s' → NotCaughtup s j → NotCaughtup s' j
  | [], j, s, s', h, hn => by simp only [drainNotifications, Except.ok.injEq] at h; subst h; exact hn
  | (id, r) :: rest, j, s, s', h, hn => by
    simp only [drainNotifications] at h
    split at h
    · simp at h
    · rename_i s1 h1
      split at h
      · simp at h
      · rename_i s2 h2
        exact drainNotifications_notCaughtup rest j h
          (reschedule_notCaughtup j h2 (track_notCaughtup j h1 hn))

theorem wakeTurnMoved_notCaughtup {s s' : RState} (j : Nat) (h : wakeTurnMoved s = .ok s')
    (hn : NotCaughtup s j) : NotCaughtup s' j :=
  wakeTurnMoved_rel (fun a b => NotCaughtup a j → NotCaughtup b j) (fun _ h => h) (fun _ _ _ h1 h2 h => h2 (h1 h))
    (fun _ _ _ _ h => h) (fun _ _ ns h hn => drainNotifications_notCaughtup ns j h hn) (fun _ h => h) h hn

/-! ### the whole event -/

theorem getLink_of_links {s s' : RState} (h : s'.links = s.links) (l : Nat) : getLink s' l = getLink s l := by
  unfold getLink; rw [h]

theorem setLink_frame_conns (s : RState) (l : Nat) (b : LinkBuf) : ConnFrame s (setLink s l b) :=
  ConnFrame.of_conns rfl

/-- `handle_device_payload(id)`: the replies to the packets of the batch (up to and including the
    one that closes the connection, if any) are appended in packet order to the ack log of `id`;
    if the connection is still there afterwards the whole batch was handled, no outgoing buffer was
    written and no other connection's ack log was touched -/
theorem handleDevicePayload_spec {s s' : RState} {id : Nat} {c : Conn} (hc : getConn s id = some c)
    (h : handleDevicePayload s id = .ok s') :
    ∃ as, (getConn s' id = none ∧ ∃ k, k ≤ (getLink s c.link).ibuf.length ∧ Replies ((getLink s c.link).ibuf.take k) as) ∨
      (Replies (getLink s c.link).ibuf as ∧
        (∃ c', getConn s' id = some c' ∧ c'.acks.committed = c.acks.committed ++ as ∧ c'.link = c.link ∧
            c'.clientId = c.clientId) ∧
        (∀ l, (getLink s' l).obuf = (getLink s l).obuf) ∧
        (getLink s' c.link).ibuf = [] ∧
        (∀ j, j ≠ id → (getConn s' j).map Conn.view = (getConn s j).map Conn.view) ∧
        ((∃ p ∈ (getLink s c.link).ibuf, p.forcesAck = true) →
            NotCaughtup s' id)) := by
  unfold handleDevicePayload at h
  simp only [hc] at h
  split at h
  · simp at h
  · rename_i s1 fl hpk
    have hc0 : getConn (setLink s c.link { getLink s c.link with ibuf := [] }) id = some c := hc
    obtain ⟨k, as, hk, hrep, happ, hstop, hforce, _⟩ := handlePackets_replies id c.clientId _ hpk
    have hso : fl.stopOk := handlePackets_stopOk id c.clientId _ hpk (fun h0 => by simp at h0)
    refine ⟨as, ?_⟩
    split at h
    · simp at h
    · rename_i s2 h2
      have f2 : AckFrame s1 s2 := by
        split at h2
        · exact reschedule_frame h2
        · simp only [Except.ok.injEq] at h2; subst h2; exact AckFrame.refl _
      split at h
      · simp at h
      · rename_i s3 h3
        have f3 : AckFrame s2 s3 := by
          split at h3
          · exact AckFrame.precomp (drainNotifications_frame _ h3) rfl rfl
          · simp only [Except.ok.injEq] at h3; subst h3; exact AckFrame.refl _
        split at h
        · simp at h
        rename_i s3' h4
        have f4 : AckFrame s3 s3' := wakeTurnMoved_frame h4
        have hnc4 : NotCaughtup s3 id → NotCaughtup s3' id := wakeTurnMoved_notCaughtup id h4
        have happ3 := ((happ.frame_right f2).frame_right f3).frame_right f4
        obtain ⟨c3, g3, a3, l3, k3⟩ := happ3.own c hc0
        by_cases hd : fl.disconnect = true
        · simp only [hd, if_true] at h
          exact .inl ⟨handleDisconnection_removes g3 h, k, hk, hrep⟩
        · simp only [hd, Bool.false_eq_true, if_false, Except.ok.injEq] at h
          subst h
          have hns : fl.stop = false := by
            cases hs : fl.stop with
            | false => rfl
            | true => exact absurd (hso hs) hd
          have hkall := hstop hns
          rw [hkall, List.take_length] at hrep
          refine .inr ⟨hrep, ⟨c3, g3, a3, l3, k3⟩, ?_, ?_, ?_, ?_⟩
          · intro l
            have : getLink s3' l = getLink (setLink s c.link { getLink s c.link with ibuf := [] }) l :=
              getLink_of_links happ3.links l
            rw [this]
            by_cases hl : l = c.link
            · subst hl; rw [getLink_setLink_same]
            · rw [getLink_setLink_ne _ _ _ _ hl]
          · have : getLink s3' c.link = getLink (setLink s c.link { getLink s c.link with ibuf := [] }) c.link :=
              getLink_of_links happ3.links c.link
            rw [this, getLink_setLink_same]
          · intro j hj
            exact happ3.others j hj
          · intro hex
            have hfa : fl.forceAck = true := hforce (by rw [hkall, List.take_length]; exact hex)
            simp only [hfa, if_true] at h2
            have hst := reschedule_freshData_status h2
            have hst3 : NotCaughtup s3 id := by
              split at h3
              · exact drainNotifications_notCaughtup _ id h3 hst
              · simp only [Except.ok.injEq] at h3; subst h3; exact hst
            exact hnc4 hst3

/-! ### what the wake-up of parked group members achieves (C17) -/

/-- request `r` is in the tracker of the live connection `id` -/
def Tracked (s : RState) (id : Nat) (r : DataRequest) : Prop :=
  ∃ c, getConn s id = some c ∧ r ∈ c.tracker.requests

theorem tryReady_requests {t t' : Tracker} {r : SchedReason} {w : Bool} (h : t.tryReady r = some (t', w)) :
    t'.requests = t.requests := by
  unfold Tracker.tryReady at h
  split at h
  · simp only [Option.some.injEq, Prod.mk.injEq] at h; obtain ⟨rfl, _⟩ := h; rfl
  · split at h <;> (split at h <;> simp only [Option.some.injEq, Prod.mk.injEq, reduceCtorEq] at h) <;>
      (obtain ⟨rfl, _⟩ := h; rfl)

theorem track_tracked_mono {s s' : RState} {id : Nat} {r : DataRequest} (h : track s id r = .ok s')
    {j : Nat} {q : DataRequest} (hq : Tracked s j q) : Tracked s' j q := by
  unfold track at h
  split at h
  · simp at h
  · rename_i c hc
    simp only [Except.ok.injEq] at h; subst h
    obtain ⟨cj, gj, mj⟩ := hq
    by_cases hj : j = id
    · subst hj
      rw [hc] at gj; cases gj
      exact ⟨_, getConn_setConn_same _ _ _ (getConn_lt hc), List.mem_append_left _ mj⟩
    · exact ⟨cj, by rw [getConn_setConn_ne _ _ _ _ hj]; exact gj, mj⟩

theorem track_tracked {s s' : RState} {id : Nat} {r : DataRequest} (h : track s id r = .ok s') :
    Tracked s' id r := by
  unfold track at h
  split at h
  · simp at h
  · rename_i c hc
    simp only [Except.ok.injEq] at h; subst h
    exact ⟨_, getConn_setConn_same _ _ _ (getConn_lt hc), by simp⟩

theorem reschedule_tracked_mono {s s' : RState} {id : Nat} {r : SchedReason} (h : reschedule s id r = .ok s')
    {j : Nat} {q : DataRequest} (hq : Tracked s j q) : Tracked s' j q := by
  unfold reschedule at h
  split at h
  · simp at h
  · rename_i c hc
    split at h
    · simp at h
    · rename_i t woke htr
      simp only [Except.ok.injEq] at h; subst h
      have key : Tracked (setConn s id { c with tracker := t }) j q := by
        obtain ⟨cj, gj, mj⟩ := hq
        by_cases hj : j = id
        · subst hj
          rw [hc] at gj; cases gj
          exact ⟨_, getConn_setConn_same _ _ _ (getConn_lt hc), by
            show q ∈ t.requests; rw [tryReady_requests htr]; exact mj⟩
        · exact ⟨cj, by rw [getConn_setConn_ne _ _ _ _ hj]; exact gj, mj⟩
      split
      · exact key
      · exact key

theorem track_datalog {s s' : RState} {id : Nat} {r : DataRequest} (h : track s id r = .ok s') :
    s'.datalog = s.datalog := by
  unfold track at h
  split at h
  · simp at h
  · simp only [Except.ok.injEq] at h; subst h; rfl

theorem reschedule_datalog {s s' : RState} {id : Nat} {r : SchedReason} (h : reschedule s id r = .ok s') :
    s'.datalog = s.datalog := by
  unfold reschedule at h
  split at h
  · simp at h
  · split at h
    · simp at h
    · simp only [Except.ok.injEq] at h; subst h; split <;> rfl

/-- `drainNotifications`: every request of the list ends up in the tracker of its connection, which
    is then not `Paused(Caughtup)` (ready, or waiting for the link / an ack); nothing already
    tracked is lost; the filter logs and their waiter lists are untouched -/
theorem drainNotifications_spec : ∀ (ns : List (Nat × DataRequest)) {s s' : RState},
    drainNotifications s ns = .ok s' →
    (∀ w ∈ ns, Tracked s' w.1 w.2 ∧ NotCaughtup s' w.1) ∧
    (∀ j q, Tracked s j q → Tracked s' j q) ∧ (∀ j, NotCaughtup s j → NotCaughtup s' j) ∧
    s'.datalog = s.datalog
  | [], s, s', h => by
    simp only [drainNotifications, Except.ok.injEq] at h; subst h
    exact ⟨fun w hw => by simp at hw, fun _ _ h => h, fun _ h => h, rfl⟩
  | (id, r) :: rest, s, s', h => by
    simp only [drainNotifications] at h
    split at h
    · simp at h
    · rename_i s1 h1
      split at h
      · simp at h
      · rename_i s2 h2
        obtain ⟨a, b, c, d⟩ := drainNotifications_spec rest h
        refine ⟨fun w hw => ?_, fun j q hq => b j q (reschedule_tracked_mono h2 (track_tracked_mono h1 hq)),
          fun j hn => c j (reschedule_notCaughtup j h2 (track_notCaughtup j h1 hn)),
          by rw [d, reschedule_datalog h2, track_datalog h1]⟩
        rcases List.mem_cons.mp hw with rfl | hw
        · exact ⟨b _ _ (reschedule_tracked_mono h2 (track_tracked h1)), c _ (reschedule_freshData_status h2)⟩
        · exact a w hw

/-- `wake_parked` (the loop over the sorted logs): every request parked on one of the logs is back
    in the tracker of its connection, which is not `Paused(Caughtup)` afterwards; the waiter lists
    of these logs are empty, those of the other logs unchanged; nothing tracked is lost -/
theorem wakeParkedSorted_spec : ∀ (logs : List Nat) {s s' : RState}, wakeParkedSorted s logs = .ok s' →
    (∀ i ∈ logs, ∀ fd, s.datalog.native[i]? = some fd → ∀ w ∈ fd.waiters, Tracked s' w.1 w.2 ∧ NotCaughtup s' w.1) ∧
    (∀ (i : Nat) fd, s.datalog.native[i]? = some fd →
        ∃ fd', s'.datalog.native[i]? = some fd' ∧ fd'.waiters = (if i ∈ logs then [] else fd.waiters)) ∧
    (∀ j q, Tracked s j q → Tracked s' j q) ∧ (∀ j, NotCaughtup s j → NotCaughtup s' j)
  | [], s, s', h => by
    simp only [wakeParkedSorted, Except.ok.injEq] at h; subst h
    exact ⟨fun i hi => by simp at hi, fun i fd hfd => ⟨fd, hfd, by simp⟩, fun _ _ h => h, fun _ h => h⟩
  | i :: rest, s, s', h => by
    rw [wakeParkedSorted_cons] at h
    split at h
    · rename_i hnone
      obtain ⟨a, b, c, d⟩ := wakeParkedSorted_spec rest h
      refine ⟨fun j hj fd hfd => ?_, fun j fd hfd => ?_, c, d⟩
      · rcases List.mem_cons.mp hj with rfl | hj
        · rw [hnone] at hfd; simp at hfd
        · exact a j hj fd hfd
      · obtain ⟨fd', h1, h2⟩ := b j fd hfd
        refine ⟨fd', h1, ?_⟩
        have : j ≠ i := fun e => by subst e; rw [hnone] at hfd; simp at hfd
        simp only [List.mem_cons, this, false_or]; exact h2
    · rename_i fd0 hfd0
      split at h
      · simp at h
      · rename_i s2 h2
        obtain ⟨da, db, dc, dd⟩ := drainNotifications_spec fd0.waiters h2
        obtain ⟨a, b, c, d⟩ := wakeParkedSorted_spec rest h
        have hlt : i < s.datalog.native.length := by
          by_cases hl : i < s.datalog.native.length
          · exact hl
          · rw [List.getElem?_eq_none (by omega)] at hfd0; simp at hfd0
        have hnat : ∀ j : Nat, s2.datalog.native[j]? =
            if j = i then some { fd0 with waiters := [] } else s.datalog.native[j]? := fun j => by
          rw [dd]
          show (s.datalog.native.set i _)[j]? = _
          rw [List.getElem?_set]
          by_cases hji : i = j
          · subst hji; simp [hlt]
          · have : ¬ j = i := fun e => hji e.symm
            simp [hji, this]
        have tr1 : ∀ j q, Tracked s j q → Tracked (clearWaiters s i fd0) j q := fun _ _ h => h
        have nc1 : ∀ j, NotCaughtup s j → NotCaughtup (clearWaiters s i fd0) j := fun _ h => h
        refine ⟨fun j hj fd hfd w hw => ?_, fun j fd hfd => ?_,
          fun j q hq => c j q (db j q (tr1 j q hq)), fun j hn => d j (dc j (nc1 j hn))⟩
        · by_cases hji : j = i
          · subst hji
            rw [hfd0] at hfd; cases hfd
            have := da w hw
            exact ⟨c _ _ this.1, d _ this.2⟩
          · have hj' : j ∈ rest := by
              rcases List.mem_cons.mp hj with e | e
              · exact absurd e hji
              · exact e
            have : s2.datalog.native[j]? = some fd := by rw [hnat]; simp [hji, hfd]
            exact a j hj' fd this w hw
        · by_cases hji : j = i
          · subst hji
            rw [hfd0] at hfd; cases hfd
            obtain ⟨fd', h1, h2'⟩ := b j { fd0 with waiters := [] } (by rw [hnat]; simp)
            refine ⟨fd', h1, ?_⟩
            simp only [List.mem_cons, true_or, if_true]
            rw [h2']; split <;> rfl
          · obtain ⟨fd', h1, h2'⟩ := b j fd (by rw [hnat]; simp [hji, hfd])
            refine ⟨fd', h1, ?_⟩
            simp only [List.mem_cons, hji, false_or]; exact h2'


/-- `wake_parked(logs)` -/
theorem wakeParked_spec {logs : List Nat} {s s' : RState} (h : wakeParked s logs = .ok s') :
    (∀ i ∈ logs, ∀ fd, s.datalog.native[i]? = some fd → ∀ w ∈ fd.waiters, Tracked s' w.1 w.2 ∧ NotCaughtup s' w.1) ∧
    (∀ (i : Nat) fd, s.datalog.native[i]? = some fd →
        ∃ fd', s'.datalog.native[i]? = some fd' ∧ fd'.waiters = (if i ∈ logs then [] else fd.waiters)) ∧
    (∀ j q, Tracked s j q → Tracked s' j q) ∧ (∀ j, NotCaughtup s j → NotCaughtup s' j) := by
  have := wakeParkedSorted_spec _ h
  simpa only [List.mem_eraseDups, List.mem_mergeSort] using this

end Router
