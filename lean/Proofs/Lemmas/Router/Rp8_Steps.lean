/-
The scheduler-status facts (`SI`) through the primitive and composite functions of the router model
other than `consume`.
-/
import Proofs.Lemmas.Router.Rp8_Sched
namespace Router

theorem commitAck_srel {s s' : RState} {id : Nat} {a : Ack} (h : commitAck s id a = .ok s') : SRel s s' := by
  unfold commitAck at h
  split at h
  · simp at h
  · rename_i c hc
    simp only [Except.ok.injEq] at h; subst h
    exact SRel.of_set (c' := { c with acks := _ }) hc rfl (Keep.refl c) rfl

theorem ackDeviceData_srel (s : RState) (id : Nat) : SRel s (ackDeviceData s id) := by
  unfold ackDeviceData
  split
  · exact SRel.refl s
  · rename_i c hc
    split
    · exact SRel.refl s
    · exact SRel.of_set (c' := { c with acks := _ }) hc rfl (Keep.refl c) rfl

theorem updateRetained_srel (s : RState) (topic : String) (p : Pub) : SRel s (updateRetained s topic p) := by
  unfold updateRetained
  split
  · exact SRel.of_conns rfl rfl
  · split
    · exact SRel.of_conns rfl rfl
    · exact SRel.refl _

theorem dlMatches_srel {s s' : RState} {topic : String} {v : List Nat} (h : dlMatches s topic = .ok (s', v)) : SRel s s' := by
  unfold dlMatches at h
  split at h
  · simp only [Except.ok.injEq, Prod.mk.injEq] at h; obtain ⟨rfl, _⟩ := h; exact SRel.refl _
  · split at h
    · simp only [] at h
      split at h
      · simp only [Except.ok.injEq, Prod.mk.injEq] at h; obtain ⟨rfl, _⟩ := h
        split <;> exact SRel.of_conns rfl rfl
      · simp at h
    · simp at h

theorem readRetained_srel {s s' : RState} {f : String} {ps : List Pub} (h : readRetained s f = .ok (s', ps)) : SRel s s' := by
  unfold readRetained at h
  simp only [] at h
  split at h
  · split at h
    · simp only [Except.ok.injEq, Prod.mk.injEq] at h; obtain ⟨rfl, _⟩ := h; exact SRel.of_conns rfl rfl
    · simp at h
  · simp at h

theorem updateNextClient_srel {s s' : RState} {g g' : SharedGroup} (h : updateNextClient s g = .ok (s', g')) : SRel s s' := by
  unfold updateNextClient at h
  split at h
  · simp only [Except.ok.injEq, Prod.mk.injEq] at h; obtain ⟨rfl, _⟩ := h; exact SRel.refl _
  · split at h
    · simp at h
    · simp only [Except.ok.injEq, Prod.mk.injEq] at h; obtain ⟨rfl, _⟩ := h; exact SRel.refl _
  · split at h
    · simp at h
    · split at h
      · split at h
        · simp only [Except.ok.injEq, Prod.mk.injEq] at h; obtain ⟨rfl, _⟩ := h; exact SRel.of_conns rfl rfl
        · simp at h
      · simp at h

theorem noteTurn_srel (s0 s1 : RState) (req : DataRequest) : SRel s1 (noteTurn s0 s1 req) := by
  obtain ⟨tm, e⟩ := noteTurn_eq s0 s1 req
  rw [e]; exact SRel.of_conns rfl rfl

theorem park_srel {s s' : RState} {id : Nat} {r0 : DataRequest} (h : park s id r0 = .ok s') : SRel s s' := by
  unfold park at h
  split at h
  · simp at h
  · simp only [Except.ok.injEq] at h; subst h; exact SRel.of_conns rfl rfl

theorem appendToFilter_srel {s s' : RState} {idx : Nat} {p : Pub} (h : appendToFilter s idx p = .ok s') : SRel s s' := by
  unfold appendToFilter at h
  split at h
  · simp at h
  · simp only [Except.ok.injEq] at h
    exact SRel.of_conns (by rw [← h]; split <;> rfl) (by rw [← h]; split <;> rfl)

theorem appendToFilters_srel : ∀ (idxs : List Nat) {s s' : RState} {p : Pub},
    appendToFilters s idxs p = .ok s' → SRel s s'
  | [], s, s', p, h => by simp only [appendToFilters, Except.ok.injEq] at h; subst h; exact SRel.refl _
  | i :: is, s, s', p, h => by
    simp only [appendToFilters] at h
    split at h
    · simp at h
    · rename_i s1 h1
      exact (appendToFilter_srel h1).trans (appendToFilters_srel is h)

/-- a request joins a tracker and the connection is rescheduled for it -/
theorem track_reschedule_si {s s1 s2 : RState} {id : Nat} {r0 : DataRequest} {rs : SchedReason} (h : SI s)
    (h1 : track s id r0 = .ok s1) (h2 : reschedule s1 id rs = .ok s2) (hrs : rs = .freshData ∨ rs = .newFilter) : SI s2 := by
  unfold track at h1
  split at h1
  · simp at h1
  · rename_i c hc
    simp only [Except.ok.injEq] at h1; subst h1
    have hget := getConn_setConn_live hc { c with tracker := { c.tracker with requests := c.tracker.requests ++ [r0] } }
    have hc1 : getConn (setConn s id { c with tracker := { c.tracker with requests := c.tracker.requests ++ [r0] } }) id =
        some { c with tracker := { c.tracker with requests := c.tracker.requests ++ [r0] } } := (hget id).trans (by simp)
    refine reschedule_fix hc1 h2 (fun j d hd hj => ?_) (fun j d hd hr => ?_) (fun _ => ?_) (fun e => .inr ((h.ci id c hc).2 e))
    · rw [hget] at hd; simp only [hj, if_false] at hd; exact h.ci j d hd
    · rw [hget] at hd
      by_cases hj : j = id
      · subst hj; simp only [if_true, Option.some.injEq] at hd; subst hd; exact h.rq j c hc hr
      · simp only [hj, if_false] at hd; exact h.rq j d hd hr
    · rcases hrs with e | e
      · exact .inl e
      · exact .inr (.inl e)

theorem drainNotifications_si : ∀ (ns : List (Nat × DataRequest)) {s s' : RState}, SI s →
    drainNotifications s ns = .ok s' → SI s'
  | [], s, s', h, hd => by simp only [drainNotifications, Except.ok.injEq] at hd; subst hd; exact h
  | (id, r0) :: rest, s, s', h, hd => by
    simp only [drainNotifications] at hd
    split at hd
    · simp at hd
    · rename_i s1 h1
      split at hd
      · simp at hd
      · rename_i s2 h2
        exact drainNotifications_si rest (track_reschedule_si h h1 h2 (.inl rfl)) hd

theorem drain_all_si {s s' : RState} (h : SI s)
    (hd : drainNotifications { s with notifications := [] } s.notifications = .ok s') : SI s' :=
  drainNotifications_si _ (h.rel (SRel.of_conns (s := s) (s' := { s with notifications := [] }) rfl rfl)) hd

theorem wakeParkedSorted_si : ∀ (logs : List Nat) {s s' : RState}, SI s → wakeParkedSorted s logs = .ok s' → SI s'
  | [], s, s', h, hw => by simp only [wakeParkedSorted, Except.ok.injEq] at hw; subst hw; exact h
  | i :: rest, s, s', h, hw => by
    rw [wakeParkedSorted_cons] at hw
    split at hw
    · exact wakeParkedSorted_si rest h hw
    · rename_i fd hfd
      split at hw
      · simp at hw
      · rename_i s2 h2
        have h0 : SI (clearWaiters s i fd) := h.rel (SRel.of_conns rfl rfl)
        exact wakeParkedSorted_si rest (drainNotifications_si _ h0 h2) hw

theorem wakeParked_si {s s' : RState} {logs : List Nat} (h : SI s) (hw : wakeParked s logs = .ok s') : SI s' :=
  wakeParkedSorted_si _ h hw

theorem wakeTurnMoved_si {s s' : RState} (h : SI s) (hw : wakeTurnMoved s = .ok s') : SI s' :=
  wakeParked_si (h.rel (SRel.of_conns (s := s) (s' := { s with turnMoved := [] }) rfl rfl)) hw

/-! ### publish path, sweep -/

theorem appendToCommitlog_srel {s s' : RState} {id : Nat} {p : Pub} {e : Option AppendErr}
    (h : appendToCommitlog s id p = .ok (s', e)) : SRel s s' := by
  unfold appendToCommitlog at h
  split at h
  · simp at h
  · rename_i c hc
    simp only [] at h
    split at h
    · simp only [Except.ok.injEq, Prod.mk.injEq] at h; obtain ⟨rfl, _⟩ := h; exact SRel.refl _
    · split at h
      · simp only [Except.ok.injEq, Prod.mk.injEq] at h; obtain ⟨rfl, _⟩ := h; exact SRel.refl _
      · rename_i s1 p1 hr
        have h1 : SRel s s1 := by
          split at hr
          · simp only [Except.ok.injEq, Prod.mk.injEq] at hr; obtain ⟨rfl, _⟩ := hr; exact SRel.refl _
          · split at hr
            · simp at hr
            · split at hr
              · split at hr
                · simp at hr
                · simp only [Except.ok.injEq, Prod.mk.injEq] at hr; obtain ⟨rfl, _⟩ := hr; exact SRel.refl _
              · split at hr
                · simp at hr
                · simp only [Except.ok.injEq, Prod.mk.injEq] at hr; obtain ⟨rfl, _⟩ := hr
                  exact SRel.of_set (c' := { c with topicAliases := _ }) hc rfl (Keep.refl c) rfl
        refine h1.trans ?_
        split at h
        · simp only [Except.ok.injEq, Prod.mk.injEq] at h; obtain ⟨rfl, _⟩ := h; exact SRel.refl _
        · rename_i topic ht
          split at h
          · simp at h
          · rename_i s2 idxs h2
            split at h
            · simp at h
            · rename_i s3 h3
              simp only [Except.ok.injEq, Prod.mk.injEq] at h; obtain ⟨rfl, _⟩ := h
              have a : SRel s1 ((updateRetained s1 topic p1).g (Ghost.accepted (some id) p1 topic)) :=
                (updateRetained_srel s1 topic p1).trans (SRel.of_conns rfl rfl)
              exact (a.trans (dlMatches_srel h2)).trans (appendToFilters_srel idxs h3)

theorem hpPre_srel {s s' : RState} {id : Nat} {p : Pub} {fl fl' : Flags} {b : Bool}
    (h : hpPre s id p fl = .ok (s', fl', b)) : SRel s s' := by
  unfold hpPre at h
  split at h
  · split at h
    · simp at h
    · rename_i s1 h1
      simp only [Except.ok.injEq, Prod.mk.injEq] at h; obtain ⟨rfl, _⟩ := h
      exact commitAck_srel h1
  · split at h
    · split at h
      · simp at h
      · rename_i c hc
        simp only [Except.ok.injEq, Prod.mk.injEq] at h; obtain ⟨rfl, _⟩ := h
        exact SRel.of_set (c' := { c with acks := _ }) hc rfl (Keep.refl c) rfl
    · simp only [Except.ok.injEq, Prod.mk.injEq] at h; obtain ⟨rfl, _⟩ := h; exact SRel.refl _

theorem fdRetained_srel {s s' : RState} {req : DataRequest} {slots slots' : Nat} {ps : List (Pub × Option Cursor)}
    (h : fdRetained s req slots = .ok (s', ps, slots')) : SRel s s' := by
  unfold fdRetained at h
  split at h
  · split at h
    · simp at h
    · rename_i s1 ps1 h1
      simp only [Except.ok.injEq, Prod.mk.injEq] at h; obtain ⟨rfl, _⟩ := h
      exact readRetained_srel h1
  · simp only [Except.ok.injEq, Prod.mk.injEq] at h; obtain ⟨rfl, _⟩ := h; exact SRel.refl _

theorem fdGroupUpd_srel {s s' : RState} {req : DataRequest} {grp : Option SharedGroup}
    (h : fdGroupUpd s req grp = .ok s') : SRel s s' := by
  unfold fdGroupUpd at h
  split at h
  · split at h
    · simp only [Except.ok.injEq] at h; subst h; exact SRel.refl _
    · split at h
      · simp at h
      · rename_i s1 g1 h1
        simp only [Except.ok.injEq] at h; subst h
        exact (updateNextClient_srel h1).trans (SRel.of_conns rfl rfl)
  · simp only [Except.ok.injEq] at h; subst h; exact SRel.refl _

theorem fdOut_length (c : Conn) (req : DataRequest) (pubs : List (Pub × Option Cursor)) :
    c.out.inflight.length ≤ (fdOut c req pubs).1.inflight.length := by
  unfold fdOut
  split
  · exact Nat.le_refl _
  · rw [(numberForwards_lengths req.filterIdx _ c.out []).1]; omega

theorem fdPush_srel {s s' : RState} {id : Nat} {c : Conn} {req req' : DataRequest} {grp : Option SharedGroup}
    {pubs : List (Pub × Option Cursor)} {cu : Bool} {st : ConsumeStatus} (hc : getConn s id = some c)
    (h : fdPush s id c req grp pubs cu = .ok (s', req', st)) : SRel s s' := by
  unfold fdPush at h
  simp only [] at h
  split at h
  · simp at h
  · rename_i s1 h1
    have a : SRel s (pushNotifs (setConn s id { c with out := (fdOut c req pubs).1, brokerAliases := (fdAliases c req.filter).1 })
        c.link (fdOut c req pubs).2) :=
      SRel.of_set (c' := { c with out := (fdOut c req pubs).1, brokerAliases := (fdAliases c req.filter).1 }) hc rfl
        ⟨rfl, fun h => h, fdOut_length c req pubs⟩ rfl
    have b := a.trans (fdGroupUpd_srel h1)
    split at h
    all_goals
      simp only [Except.ok.injEq, Prod.mk.injEq] at h; obtain ⟨rfl, _, _⟩ := h
      exact b.trans (SRel.of_conns rfl rfl)

theorem forwardDeviceData_srel {s s' : RState} {id : Nat} {req req' : DataRequest} {st : ConsumeStatus}
    (h : forwardDeviceData s id req = .ok (s', req', st)) : SRel s s' := by
  rw [Router.forwardDeviceData_eq] at h
  split at h
  · simp at h
  · rename_i c hc
    simp only [] at h
    split at h
    · simp only [Except.ok.injEq, Prod.mk.injEq] at h; obtain ⟨rfl, _, _⟩ := h
      exact SRel.refl _
    · split at h
      · simp at h
      · rename_i s1 rp slots h1
        have a := fdRetained_srel h1
        split at h
        · simp at h
        · rename_i fd hfd
          split at h
          · simp only [Except.ok.injEq, Prod.mk.injEq] at h; obtain ⟨rfl, _, _⟩ := h
            exact a
          · split at h
            · simp only [Except.ok.injEq, Prod.mk.injEq] at h; obtain ⟨rfl, _, _⟩ := h
              exact a
            · have hc1 : getConn s1 id = some c := by
                unfold fdRetained at h1
                split at h1
                · split at h1
                  · simp at h1
                  · rename_i s2 ps2 h2
                    simp only [Except.ok.injEq, Prod.mk.injEq] at h1; obtain ⟨rfl, _⟩ := h1
                    rw [(readRetained_core h2).getConn]; exact hc
                · simp only [Except.ok.injEq, Prod.mk.injEq] at h1; obtain ⟨rfl, _⟩ := h1; exact hc
              exact a.trans (fdPush_srel hc1 h)

end Router
