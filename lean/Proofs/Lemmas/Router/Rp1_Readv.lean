/-
`CLog.Log.readv` (the commit-log copy used by the router) returns at most `len` entries, for
ANY log (well formed or not) and any cursor.
-/
import Model.CommitLog
namespace CLog
variable {α : Type}

theorem tagFrom_length (seg : Nat) : ∀ (o : Nat) (l : List α), (tagFrom seg o l).length = l.length
  | _, [] => rfl
  | o, a :: as => by simp [tagFrom, tagFrom_length seg (o + 1) as]

/-- a segment read returns at most `len` entries; when it runs off the end of the segment
    (`done nxt`) the entries read fit into what the walk subtracts from `len` -/
theorem Seg.readv_length (s : Seg α) (cur : Cursor) (len : Nat) :
    (s.readv cur len).1.length ≤ len ∧
    ∀ nxt, (s.readv cur len).2 = .done nxt →
      (s.readv cur len).1.length + (if nxt ≥ cur.2 then len - (nxt - cur.2) else len) ≤ len := by
  unfold Seg.readv
  simp only []
  split
  · refine ⟨by simp, fun nxt _ => ?_⟩
    simp only [List.length_nil]
    split <;> omega
  · rename_i h1
    split
    · rename_i h2
      simp only [tagFrom_length, List.length_drop]
      refine ⟨by omega, fun nxt hn => ?_⟩
      simp only [SPos.done.injEq] at hn
      subst hn
      unfold Seg.next
      split <;> omega
    · simp only [tagFrom_length, List.length_take, List.length_drop]
      exact ⟨by omega, fun nxt hn => by simp at hn⟩

theorem walk_length (start : Cursor) : ∀ (segs : List (Seg α)) (cur : Cursor) (len : Nat) (out : List (α × Cursor)),
    (walk start segs cur len out).1.length ≤ out.length + len
  | [], cur, len, out => by simp [walk]
  | [act], cur, len, out => by
    simp only [walk]
    split
    · simp
    · have := (act.readv_length cur len).1
      split
      all_goals
        rename_i o v heq
        rw [heq] at this
        simp only [List.length_append]
        simp only [] at this
        omega
  | s :: r :: rest, cur, len, out => by
    simp only [walk]
    have hb := s.readv_length cur len
    split
    · rename_i o off heq
      rw [heq] at hb
      simp only [List.length_append]
      have := hb.1; simp only [] at this; omega
    · rename_i o nxt heq
      rw [heq] at hb
      have h2 := hb.2 nxt rfl
      simp only [] at h2
      generalize (if nxt ≥ cur.2 then len - (nxt - cur.2) else len) = len' at *
      split
      · simp only [List.length_append]
        have := hb.1; simp only [] at this; omega
      · have ih := walk_length start (r :: rest) (cur.1 + 1, nxt) len' (out ++ o)
        simp only [List.length_append] at ih
        omega

theorem Log.readv_length (l : Log α) (start : Cursor) (len : Nat) : (l.readv start len).1.length ≤ len := by
  unfold Log.readv
  split
  · simp
  · simp only []
    split
    · simp
    · exact (by simpa using walk_length _ _ _ len ([] : List (α × Cursor)))

end CLog
