/-
C16: the `last_wills` bookkeeping of `handle_new_connection` and what `handle_last_will` publishes.
-/
import Proofs.Lemmas.Router.Rp2_Append
import Proofs.Lemmas.Router.Rp2_Qos2
import Proofs.Lemmas.Router.Rp2_Payload
namespace Router

/-- the `registered` events of a piece of ghost history: (connection id, link, client id) -/
def registeredEvents (g : List Ghost) : List (Nat × Nat × String) :=
  g.filterMap (fun e => match e with | .registered i l c _ _ => some (i, l, c) | _ => none)

/-- the `willSet` events of a piece of ghost history -/
def willSetEvents (g : List Ghost) : List String :=
  g.filterMap (fun e => match e with | .willSet c => some c | _ => none)

@[simp] theorem registeredEvents_append (a b : List Ghost) :
    registeredEvents (a ++ b) = registeredEvents a ++ registeredEvents b := by
  simp [registeredEvents]

@[simp] theorem willSetEvents_append (a b : List Ghost) :
    willSetEvents (a ++ b) = willSetEvents a ++ willSetEvents b := by
  simp [willSetEvents]

/-! ### `handle_new_connection` cut into pieces (definitionally equal to the model's function) -/

def hncTakeover (s : RState) (spec : ConnectSpec) : M RState :=
  match alookup spec.clientId s.connectionMap with
  | some old => handleDisconnection s old none
  | none => .ok s

def hncRestored (s : RState) (spec : ConnectSpec) : Option SessionState :=
  if spec.clean then none else (alookup spec.clientId s.graveyard).bind id

def hncTracker (spec : ConnectSpec) (restored : Option SessionState) : Tracker :=
  match restored with
  | some ss => ss.tracker
  | none => { id := spec.clientId }

def hncSubs (restored : Option SessionState) : List String :=
  match restored with | some ss => ss.subscriptions | none => []

def hncPending (restored : Option SessionState) : List Nat :=
  match restored with | some ss => ss.unackedPubrels | none => []

/-- the will registration step -/
def hncWill (s : RState) (spec : ConnectSpec) : RState :=
  match spec.will with
  | some w => ({ s with lastWills := ainsert spec.clientId w s.lastWills }).g (.willSet spec.clientId)
  | none => s

/-- insert the connection, register the CONNACK (+ pending PUBRELs), schedule it -/
def hncInstall (s : RState) (spec : ConnectSpec) (restored : Option SessionState) (previousSession : Bool) : M RState :=
  let tracker := hncTracker spec restored
  let pending := hncPending restored
  let conn : Conn :=
    { clientId := spec.clientId, link := spec.link, clean := spec.clean,
      dynamicFilters := spec.dynamicFilters, subscriptions := hncSubs restored,
      brokerAliases := if spec.aliasMax > 0 then some (BrokerAliases.new spec.aliasMax) else none,
      out := { unackedPubrels := pending }, tracker := tracker }
  let id := (s.conns.insert conn).2
  let s := { s with subscriptionMap := (hncSubs restored).foldl (fun m f => subscriptionMapAdd m f id) s.subscriptionMap }
  let s := { s with conns := (s.conns.insert conn).1, connectionMap := ainsert spec.clientId id s.connectionMap }
  let s := { s with shared := rejoinGroups s.config.strategy spec.clientId tracker.requests s.shared }
  if !trackerNoDup tracker then .error (.panic "debug_assert check_tracker_duplicates (new connection)") else
  let acks := [Ack.connack id (!spec.clean && previousSession)] ++ pending.map Ack.pubrel
  let s := setConn s id { conn with acks := { committed := acks } }
  let s := s.g (.registered id spec.link spec.clientId spec.clean (!spec.clean && previousSession))
  let s := if restored.isSome then s.g (.restored id tracker.requests) else s
  let s := acks.foldl (fun s a => s.g (.committed id a)) s
  reschedule s id .init

/-- the admitted branch of `handle_new_connection` -/
def hncAdmit (s : RState) (spec : ConnectSpec) : M RState :=
  hncInstall (hncWill { s with graveyard := aremove spec.clientId s.graveyard } spec) spec (hncRestored s spec)
    ((alookup spec.clientId s.graveyard).bind id).isSome

theorem handleNewConnection_eq_rp2 (s : RState) (spec : ConnectSpec) :
    handleNewConnection s spec =
      if !validClientId spec.clientId then .ok ((setLink s spec.link {}).g (.notRegistered spec.link)) else
      match hncTakeover (setLink s spec.link {}) spec with
      | .error e => .error e
      | .ok s =>
        if s.conns.len ≥ s.config.maxConnections then .ok (s.g (.notRegistered spec.link)) else
        hncAdmit s spec := by
  unfold handleNewConnection
  rfl

/-! ### specs -/

theorem handleDisconnection_ghost {s s' : RState} {id : Nat} {r : Option String}
    (h : handleDisconnection s id r = .ok s') :
    ∃ evs, s'.ghost = s.ghost ++ evs ∧ registeredEvents evs = [] ∧ willSetEvents evs = [] := by
  rw [handleDisconnection_eq] at h
  split at h
  · simp only [Except.ok.injEq] at h; subst h; exact ⟨[], by simp, rfl, rfl⟩
  · rename_i c hc
    refine ⟨[.removed id c.clientId c.clean], ?_, rfl, rfl⟩
    rw [(wakeParked_wakeFrame h).ghost, (hdFinal_fields _ _ _ _).2.2.2.2.1]

theorem hncTakeover_spec {s s' : RState} {spec : ConnectSpec} (h : hncTakeover s spec = .ok s') :
    s'.lastWills = s.lastWills ∧
    ∃ evs, s'.ghost = s.ghost ++ evs ∧ registeredEvents evs = [] ∧ willSetEvents evs = [] := by
  unfold hncTakeover at h
  split at h
  · exact ⟨handleDisconnection_lastWills h, handleDisconnection_ghost h⟩
  · simp only [Except.ok.injEq] at h; subst h; exact ⟨rfl, [], by simp, rfl, rfl⟩

theorem foldl_committed (id : Nat) : ∀ (acks : List Ack) (s : RState),
    (acks.foldl (fun s a => s.g (.committed id a)) s).ghost = s.ghost ++ acks.map (Ghost.committed id) ∧
    (acks.foldl (fun s a => s.g (.committed id a)) s).lastWills = s.lastWills
  | [], s => by simp
  | a :: as, s => by
    simp only [List.foldl_cons]
    obtain ⟨h1, h2⟩ := foldl_committed id as (s.g (.committed id a))
    exact ⟨by rw [h1]; simp [RState.g], by rw [h2]; rfl⟩

theorem registeredEvents_committed (id : Nat) (acks : List Ack) :
    registeredEvents (acks.map (Ghost.committed id)) = [] ∧ willSetEvents (acks.map (Ghost.committed id)) = [] := by
  induction acks with
  | nil => exact ⟨rfl, rfl⟩
  | cons a as ih => exact ⟨by simpa [registeredEvents] using ih.1, by simpa [willSetEvents] using ih.2⟩

theorem hncWill_spec (s : RState) (spec : ConnectSpec) :
    (hncWill s spec).lastWills = (match spec.will with
      | some w => ainsert spec.clientId w s.lastWills
      | none => s.lastWills) ∧
    ∃ evs, (hncWill s spec).ghost = s.ghost ++ evs ∧ registeredEvents evs = [] ∧
      willSetEvents evs = (if spec.will.isSome then [spec.clientId] else []) := by
  unfold hncWill
  cases spec.will with
  | none => exact ⟨rfl, [], by simp, rfl, rfl⟩
  | some w => exact ⟨rfl, [.willSet spec.clientId], rfl, rfl, rfl⟩

theorem hncInstall_spec {s s' : RState} {spec : ConnectSpec} {restored : Option SessionState} {prev : Bool}
    (h : hncInstall s spec restored prev = .ok s') :
    s'.lastWills = s.lastWills ∧
    ∃ evs id, s'.ghost = s.ghost ++ evs ∧ registeredEvents evs = [(id, spec.link, spec.clientId)] ∧
      willSetEvents evs = [] := by
  unfold hncInstall at h
  simp only [] at h
  split at h
  · simp at h
  · have hr := reschedule_data h
    rw [hr.2.2.1, hr.2.1, (foldl_committed _ _ _).1, (foldl_committed _ _ _).2]
    cases hrs : restored.isSome
    · simp only [Bool.false_eq_true, if_false]
      refine ⟨rfl, ?evs, ?id, ?h1, ?h2, ?h3⟩
      case h1 => simp only [RState.g, setConn, List.append_assoc]; rfl
      case h2 =>
        rw [registeredEvents_append, (registeredEvents_committed _ _).1]
        rfl
      case h3 =>
        rw [willSetEvents_append, (registeredEvents_committed _ _).2]
        rfl
    · simp only [if_true]
      refine ⟨rfl, ?evs', ?id', ?h1', ?h2', ?h3'⟩
      case h1' => simp only [RState.g, setConn, List.append_assoc]; rfl
      case h2' =>
        rw [registeredEvents_append, registeredEvents_append, (registeredEvents_committed _ _).1]
        rfl
      case h3' =>
        rw [willSetEvents_append, willSetEvents_append, (registeredEvents_committed _ _).2]
        rfl

/-- the admitted branch: the will is stored iff the CONNECT carries one; exactly one `registered`
    event, for this client on this link -/
theorem hncAdmit_spec {s s' : RState} {spec : ConnectSpec} (h : hncAdmit s spec = .ok s') :
    s'.lastWills = (match spec.will with
      | some w => ainsert spec.clientId w s.lastWills
      | none => s.lastWills) ∧
    ∃ evs id, s'.ghost = s.ghost ++ evs ∧ registeredEvents evs = [(id, spec.link, spec.clientId)] ∧
      willSetEvents evs = (if spec.will.isSome then [spec.clientId] else []) := by
  unfold hncAdmit at h
  obtain ⟨hl, e2, id, hg, hr, hw⟩ := hncInstall_spec h
  obtain ⟨hw1, ew, hw2, hw3, hw4⟩ := hncWill_spec { s with graveyard := aremove spec.clientId s.graveyard } spec
  refine ⟨hl.trans hw1, ew ++ e2, id, ?_, ?_, ?_⟩
  · rw [hg, hw2]; simp
  · rw [registeredEvents_append, hw3, hr]; rfl
  · rw [willSetEvents_append, hw4, hw]; simp

/-- `handle_new_connection`: the will is stored iff the connection is admitted (a `registered`
    event) and the CONNECT carries a will; a rejected connection leaves `last_wills` untouched -/
theorem handleNewConnection_will {s s' : RState} {spec : ConnectSpec} (h : handleNewConnection s spec = .ok s') :
    ∃ evs, s'.ghost = s.ghost ++ evs ∧
      ((registeredEvents evs = [] ∧ willSetEvents evs = [] ∧ Ghost.notRegistered spec.link ∈ evs ∧
          s'.lastWills = s.lastWills) ∨
       ((∃ id, registeredEvents evs = [(id, spec.link, spec.clientId)]) ∧
          willSetEvents evs = (if spec.will.isSome then [spec.clientId] else []) ∧
          s'.lastWills = (match spec.will with
            | some w => ainsert spec.clientId w s.lastWills
            | none => s.lastWills))) := by
  rw [handleNewConnection_eq_rp2] at h
  split at h
  · simp only [Except.ok.injEq] at h; subst h
    exact ⟨[.notRegistered spec.link], rfl, .inl ⟨rfl, rfl, by simp, rfl⟩⟩
  · split at h
    · simp at h
    · rename_i s1 ht
      obtain ⟨hl1, e1, hg1, hr1, hw1⟩ := hncTakeover_spec ht
      split at h
      · simp only [Except.ok.injEq] at h; subst h
        refine ⟨e1 ++ [.notRegistered spec.link], ?_, .inl ⟨?_, ?_, by simp, hl1⟩⟩
        · simp only [RState.g]; rw [hg1]; simp; rfl
        · rw [registeredEvents_append, hr1]; rfl
        · rw [willSetEvents_append, hw1]; rfl
      · obtain ⟨hl2, e2, id, hg2, hr2, hw2⟩ := hncAdmit_spec h
        refine ⟨e1 ++ e2, ?_, .inr ⟨⟨id, ?_⟩, ?_, ?_⟩⟩
        · rw [hg2, hg1]; simp; rfl
        · rw [registeredEvents_append, hr1, hr2]; rfl
        · rw [willSetEvents_append, hw1, hw2]; rfl
        · rw [hl2, hl1]; rfl

/-! ### `handle_last_will` -/

theorem drainNotifications_data : ∀ (ns : List (Nat × DataRequest)) {s s' : RState},
    drainNotifications s ns = .ok s' → s'.datalog = s.datalog ∧ s'.ghost = s.ghost ∧ s'.lastWills = s.lastWills
  | [], s, s', h => by simp only [drainNotifications, Except.ok.injEq] at h; subst h; exact ⟨rfl, rfl, rfl⟩
  | (id, r) :: rest, s, s', h => by
    simp only [drainNotifications] at h
    split at h
    · simp at h
    · rename_i s1 h1
      split at h
      · simp at h
      · rename_i s2 h2
        have a := track_data h1
        have b := reschedule_data h2
        have c := drainNotifications_data rest h
        exact ⟨c.1.trans (b.1.trans a.1), c.2.1.trans (b.2.1.trans a.2.1), c.2.2.trans (b.2.2.1.trans a.2.2.1)⟩

theorem updateRetained_retained_congr {a b : RState} {t : String} {p : Pub}
    (h : a.datalog.retained = b.datalog.retained) :
    (updateRetained a t p).datalog.retained = (updateRetained b t p).datalog.retained := by
  unfold updateRetained
  simp only []
  split
  · simp [h]
  · split
    · simp [h]
    · exact h

/-- the publish a stored will turns into -/
def willPub (w : Will) : Pub :=
  { qos := w.qos, pkid := 0, retain := w.retain, dup := false, topic := w.topic, payload := w.payload }

/-- `handle_last_will` with a stored will whose topic is valid UTF-8: the will is removed, one
    `willFired` and one `accepted` event are recorded, the retained map is updated with the will as
    registered, and an unflagged copy is appended once per filter index `matches` returned -/
theorem handleLastWill_fires {s s' : RState} {cid : String} {w : Will} {topic : String}
    (hw : alookup cid s.lastWills = some w) (ht : utf8? w.topic = some topic)
    (h : handleLastWill s cid = .ok s') :
    alookup cid s'.lastWills = none ∧
    ∃ (s0 s1 : RState) (idxs : List Nat) (evs : List Ghost),
      s0.datalog = s.datalog ∧ s0.oracle = s.oracle ∧
      dlMatches ((updateRetained s0 topic (willPub w)).g (.accepted none (willPub w) topic)) topic = .ok (s1, idxs) ∧
      s'.ghost = s.ghost ++ [.willFired cid, .accepted none (willPub w) topic] ++ evs ∧
      appendedEvents evs = idxs.map (fun i => (i, { willPub w with retain := false })) ∧
      acceptedEvents evs = [] ∧
      s'.datalog.retained = (updateRetained s topic (willPub w)).datalog.retained ∧
      (∀ j, logAt s' j = (logAt s j).map (appendN { willPub w with retain := false } (idxs.count j))) := by
  unfold handleLastWill at h
  simp only [hw] at h
  have ht' : utf8? (willPub w).topic = some topic := ht
  simp only [willPub] at ht'
  simp only [ht'] at h
  split at h
  · simp at h
  · rename_i s1 idxs h1
    split at h
    · simp at h
    · rename_i s2 h2
      obtain ⟨⟨evs, g2, a2, c2⟩, l2, f2⟩ := appendToFilters_spec idxs h2
      have d1 := dlMatches_same h1
      have dl1 := dlMatches_lastWills h1
      have dr := drainNotifications_data _ h
      have u := updateRetained_same (({ s with lastWills := aremove cid s.lastWills } : RState).g (.willFired cid)) topic (willPub w)
      refine ⟨?_, ({ s with lastWills := aremove cid s.lastWills } : RState).g (.willFired cid), s1, idxs, evs,
        rfl, rfl, h1, ?_, a2, c2, ?_, ?_⟩
      · rw [dr.2.2]
        show alookup cid s2.lastWills = none
        rw [f2.lastWills, dl1.1]
        show alookup cid (updateRetained _ topic (willPub w)).lastWills = none
        rw [u.2.2.2.2.1]
        exact alookup_aremove_same cid s.lastWills
      · rw [dr.2.1]
        show s2.ghost = _
        rw [g2, d1.1]
        show ((updateRetained _ topic (willPub w)).ghost ++ [_]) ++ evs = _
        rw [u.1]; simp [RState.g, willPub]
      · rw [dr.1]
        show s2.datalog.retained = _
        rw [f2.retained, d1.2.2.1]
        exact updateRetained_retained_congr rfl
      · intro j
        have e1 : logAt s' j = logAt s2 j := by unfold logAt; rw [dr.1]
        rw [e1, l2 j]
        have e2 : logAt s1 j = logAt s j := by
          unfold logAt; rw [d1.2.1]
          show ((updateRetained _ topic (willPub w)).datalog.native[j]?).map _ = _
          rw [u.2.1]; rfl
        rw [e2]; rfl

/-- a stored will whose topic is not valid UTF-8 is dropped (removed, nothing published) -/
theorem handleLastWill_invalid_topic {s s' : RState} {cid : String} {w : Will}
    (hw : alookup cid s.lastWills = some w) (ht : utf8? w.topic = none)
    (h : handleLastWill s cid = .ok s') :
    alookup cid s'.lastWills = none ∧ s'.datalog = s.datalog ∧ s'.ghost = s.ghost ++ [.willFired cid] := by
  unfold handleLastWill at h
  simp only [hw, ht, Except.ok.injEq] at h
  subst h
  exact ⟨alookup_aremove_same cid s.lastWills, rfl, rfl⟩

/-! ### DISCONNECT inside a batch -/

/-- a `DeviceData` event whose batch reaches a DISCONNECT packet (the packets before it do not stop
    the batch) leaves no will for that client: the later `PublishWill` finds nothing -/
theorem handleDevicePayload_disconnect_clears_will {s s' s1 : RState} {id : Nat} {c : Conn} {fl1 : Flags}
    {pre post : List Packet} (hc : getConn s id = some c)
    (hib : (getLink s c.link).ibuf = pre ++ Packet.disconnect :: post)
    (hpre : handlePackets (setLink s c.link { getLink s c.link with ibuf := [] }) id c.clientId pre {} = .ok (s1, fl1))
    (hns : fl1.stop = false)
    (h : handleDevicePayload s id = .ok s') : alookup c.clientId s'.lastWills = none := by
  unfold handleDevicePayload at h
  simp only [hc] at h
  rw [hib, handlePackets_append id c.clientId pre _ hpre rfl hns] at h
  simp only [handlePackets, handlePacket, if_true] at h
  split at h
  · simp at h
  · rename_i s2 h2
    split at h
    · simp at h
    · rename_i s3 h3
      have e2 : s2.lastWills = aremove c.clientId s1.lastWills := by
        split at h2
        · rw [reschedule_lastWills h2]; rfl
        · simp only [Except.ok.injEq] at h2; subst h2; rfl
      have e3 : s3.lastWills = s2.lastWills := by
        split at h3
        · exact (drainNotifications_data _ h3).2.2
        · simp only [Except.ok.injEq] at h3; subst h3; rfl
      split at h
      · simp at h
      rename_i s4 h4
      have e4 : s4.lastWills = s3.lastWills := (wakeTurnMoved_wakeFrame h4).wills
      rw [handleDisconnection_lastWills h, e4, e3, e2]
      exact alookup_aremove_same _ _

end Router
