import Proofs.Lemmas.Router.Basic
namespace Router

/-- `numberForwards` appends exactly one inflight entry and one notification per publish -/
theorem numberForwards_lengths (fi : Nat) : ∀ (ps : List (Pub × Option Cursor)) (o : Outgoing) (acc : List Notif),
    (numberForwards o fi ps acc).1.inflight.length = o.inflight.length + ps.length ∧
    (numberForwards o fi ps acc).2.length = acc.length + ps.length
  | [], o, acc => by simp [numberForwards]
  | (p, c) :: rest, o, acc => by
    simp only [numberForwards]
    have ih := numberForwards_lengths fi rest
      { o with inflight := o.inflight ++ [(o.lastPkid + 1, fi, c)],
               lastPkid := if o.lastPkid + 1 = MAX_INFLIGHT then 0 else o.lastPkid + 1 }
      (acc ++ [Notif.forward { p with pkid := o.lastPkid + 1 } c])
    simp only [List.length_append, List.length_cons, List.length_nil] at ih ⊢
    omega

theorem registerAck_spec (o : Outgoing) (pkid : Nat) :
    ((o.registerAck pkid).2 = true ↔ ∃ fi c rest, o.inflight = (pkid, fi, c) :: rest) ∧
    ((o.registerAck pkid).2 = true → (o.registerAck pkid).1.inflight = o.inflight.drop 1) ∧
    ((o.registerAck pkid).2 = false → (o.registerAck pkid).1 = o) := by
  unfold Outgoing.registerAck
  cases h : o.inflight with
  | nil => simp
  | cons hd tl =>
    obtain ⟨a, b, c⟩ := hd
    by_cases e : a = pkid
    · subst e; simp
    · simp [e]

end Router
