/-
The scheduler-status facts (`SI`) through SUBSCRIBE, UNSUBSCRIBE and a batch of packets.
-/
import Proofs.Lemmas.Router.Rp8_Steps
namespace Router

theorem nextNativeOffset_srel (s : RState) (filter : String) : SRel s (nextNativeOffset s filter).1 := by
  unfold nextNativeOffset
  split
  · exact SRel.refl s
  · exact SRel.of_conns rfl rfl

theorem prepareFilter_si {s s' : RState} {id : Nat} {cursor : Cursor} {idx : Nat} {f : SubFilter}
    {group : Option String} {subId : Option Nat} (hs : SI s) (h : prepareFilter s id cursor idx f group subId = .ok s') :
    SI s' := by
  rw [prepareFilter_eq] at h
  split at h
  · simp at h
  · rename_i c hc
    simp only [] at h
    have hc1 : getConn (pfState s id cursor f.path group c.clientId) id = some c := hc
    have hk : ∀ subs, Keep c { pfConn c f.path subId with subscriptions := subs } := fun subs => by
      cases subId <;> exact ⟨rfl, fun h => h, Nat.le_refl _⟩
    have hk0 : Keep c (pfConn c f.path subId) := by cases subId <;> exact Keep.refl c
    split at h
    · simp only [Except.ok.injEq] at h; subst h
      exact hs.rel (SRel.of_set (s := s) (c' := pfConn c f.path subId) hc rfl hk0 rfl)
    · have hc1' : getConn ((pfState s id cursor f.path group c.clientId).g
          (.subscribed id f.path f.qos idx cursor group true)) id = some c := hc
      split at h
      · simp at h
      · rename_i s3 h3
        unfold pfTail at h
        split at h
        · simp at h
        · rename_i s4 h4
          have e : s' = s4 := by
            split at h
            · simp only [Except.ok.injEq] at h; exact h.symm
            · split at h
              · simp only [Except.ok.injEq] at h; exact h.symm
              · simp at h
          subst e
          have s2 : SI (setConn ((pfState s id cursor f.path group c.clientId).g
              (.subscribed id f.path f.qos idx cursor group true)) id
              { pfConn c f.path subId with subscriptions := c.subscriptions ++ [f.path] }) :=
            hs.rel (SRel.of_set (s := s) (c' := { pfConn c f.path subId with subscriptions := c.subscriptions ++ [f.path] })
              hc rfl (hk _) rfl)
          exact track_reschedule_si s2 h3 h4 (.inr rfl)

theorem subscribeFilters_si {id : Nat} {subId : Option Nat} : ∀ (fs : List SubFilter) {s s' : RState}
    {codes codes' : List Nat} {fl fl' : Flags}, SI s → subscribeFilters s id subId fs codes fl = .ok (s', codes', fl') → SI s'
  | [], s, s', codes, codes', fl, fl', hs, h => by
    simp only [subscribeFilters, Except.ok.injEq, Prod.mk.injEq] at h; obtain ⟨rfl, _⟩ := h; exact hs
  | f :: rest, s, s', codes, codes', fl, fl', hs, h => by
    rw [subscribeFilters_cons] at h
    split at h
    · simp only [Except.ok.injEq, Prod.mk.injEq] at h; obtain ⟨rfl, _⟩ := h; exact hs
    · split at h
      · simp only [Except.ok.injEq, Prod.mk.injEq] at h; obtain ⟨rfl, _⟩ := h; exact hs
      · simp only [] at h
        split at h
        · simp at h
        · rename_i s1 h1
          exact subscribeFilters_si rest (prepareFilter_si (hs.rel (nextNativeOffset_srel s _)) h1) h

theorem ufState_srel {s : RState} {id : Nat} {ids : List Nat} {c : Conn} {f : String} (hc : getConn s id = some c) :
    SRel s (ufState s id ids c f) := by
  refine SRel.of_set (c' := ufConn s.datalog c f) hc rfl ⟨rfl, fun h => ?_, ?_⟩ rfl
  · show (c.tracker.requests.filter _) = []
    rw [h]; rfl
  · show c.out.inflight.length ≤ (unsubOut s.datalog _ c.out f).inflight.length
    rw [(unsubOut_spec s.datalog _ c.out f).1.length]; exact Nat.le_refl _

theorem unsubscribeFilters_si {id : Nat} : ∀ (fs : List String) {s s' : RState} {rs rs' : List Bool},
    unsubscribeFilters s id fs rs = .ok (s', rs') → SI s → SI s'
  | [], s, s', rs, rs', h, hs => by
    simp only [unsubscribeFilters, Except.ok.injEq, Prod.mk.injEq] at h
    obtain ⟨rfl, _⟩ := h; exact hs
  | f :: rest, s, s', rs, rs', h, hs => by
    rw [unsubscribeFilters_cons] at h
    split at h
    · exact unsubscribeFilters_si rest h hs
    · split at h
      · exact unsubscribeFilters_si rest h hs
      · split at h
        · simp at h
        · rename_i c hc
          split at h
          · exact unsubscribeFilters_si rest h (hs.rel (SRel.of_conns rfl rfl))
          · exact unsubscribeFilters_si rest h (hs.rel (ufState_srel hc))

theorem registerAck_false (o : Outgoing) (pkid : Nat) (h : (o.registerAck pkid).2 = false) : (o.registerAck pkid).1 = o := by
  unfold Outgoing.registerAck at h ⊢
  split
  · rfl
  · rename_i hd a b rest heq
    rw [heq] at h
    simp only [] at h
    split
    · rename_i e; simp [e] at h
    · rfl

theorem registerPubcomp_inflight (o : Outgoing) (pkid : Nat) : (o.registerPubcomp pkid).1.inflight = o.inflight := by
  unfold Outgoing.registerPubcomp
  split
  · rfl
  · split <;> rfl

/-- a connection replaced by one with the same tracker whose window may have shrunk, then
    rescheduled for the incoming ack -/
theorem ack_reschedule_si {s s' : RState} {id : Nat} {c c' : Conn} (hs : SI s) (hc : getConn s id = some c)
    (ht : c'.tracker = c.tracker) {s1 : RState} (hconns : s1.conns = s.conns.set id c') (hq : s1.readyqueue = s.readyqueue)
    (hr : reschedule s1 id .incomingAck = .ok s') : SI s' := by
  have hget : ∀ j, getConn s1 j = if j = id then some c' else getConn s j := fun j => by
    unfold getConn; rw [hconns]; exact Slab.get?_set_live hc j c'
  have hc1 : getConn s1 id = some c' := (hget id).trans (by simp)
  refine reschedule_fix hc1 hr (fun j d hd hj => ?_) (fun j d hd hrd => ?_) (fun _ => .inr (.inr (.inl rfl))) (fun _ => .inl rfl)
  · rw [hget] at hd; simp only [hj, if_false] at hd; exact hs.ci j d hd
  · rw [hq, hget] at *
    by_cases hj : j = id
    · subst hj; simp only [if_true, Option.some.injEq] at hd; subst hd
      exact hs.rq j c hc (ht ▸ hrd)
    · simp only [hj, if_false] at hd; exact hs.rq j d hd hrd

theorem handlePacket_si {s s' : RState} {id : Nat} {cid : String} {pkt : Packet} {fl fl' : Flags} (hs : SI s)
    (h : handlePacket s id cid pkt fl = .ok (s', fl')) : SI s' := by
  cases pkt with
  | publish p =>
    rw [handlePacket_publish] at h
    split at h
    · simp at h
    · rename_i s1 fl1 h1
      simp only [Except.ok.injEq, Prod.mk.injEq] at h; obtain ⟨rfl, _⟩ := h
      exact hs.rel (hpPre_srel h1)
    · rename_i s1 fl1 h1
      have a := hpPre_srel h1
      split at h
      · simp at h
      all_goals
        rename_i h2
        simp only [Except.ok.injEq, Prod.mk.injEq] at h; obtain ⟨rfl, _⟩ := h
        exact hs.rel (a.trans (appendToCommitlog_srel h2))
  | subscribe pkid subId filters =>
    simp only [handlePacket] at h
    split at h
    · simp at h
    · rename_i s1 codes fl1 h1
      split at h
      · simp at h
      · rename_i s2 h2
        simp only [Except.ok.injEq, Prod.mk.injEq] at h; obtain ⟨rfl, _⟩ := h
        exact (subscribeFilters_si filters hs h1).rel (commitAck_srel h2)
  | unsubscribe pkid filters =>
    simp only [handlePacket] at h
    split at h
    · simp at h
    · split at h
      · simp at h
      · rename_i s1 rs h1
        split at h
        · simp at h
        · rename_i s2 h2
          simp only [Except.ok.injEq, Prod.mk.injEq] at h; obtain ⟨rfl, _⟩ := h
          exact (unsubscribeFilters_si filters h1 hs).rel (commitAck_srel h2)
  | puback pkid =>
    simp only [handlePacket] at h
    split at h
    · simp at h
    · rename_i c hc
      split at h
      · rename_i hok
        simp only [Except.ok.injEq, Prod.mk.injEq] at h; obtain ⟨rfl, _⟩ := h
        have e : (c.out.registerAck pkid).1 = c.out := registerAck_false _ _ (by simpa using hok)
        exact hs.rel (SRel.of_set (c' := { c with out := (c.out.registerAck pkid).1 }) hc rfl
          ⟨rfl, fun h => h, by rw [e]; exact Nat.le_refl _⟩ rfl)
      · split at h
        · simp at h
        · rename_i s2 h2
          simp only [Except.ok.injEq, Prod.mk.injEq] at h; obtain ⟨rfl, _⟩ := h
          refine ack_reschedule_si (c' := { c with out := (c.out.registerAck pkid).1 }) hs hc rfl ?_ ?_ h2 <;> rfl
  | pubrec pkid =>
    simp only [handlePacket] at h
    split at h
    · simp at h
    · rename_i c hc
      split at h
      · rename_i hok
        simp only [Except.ok.injEq, Prod.mk.injEq] at h; obtain ⟨rfl, _⟩ := h
        have e : (c.out.registerAck pkid).1 = c.out := registerAck_false _ _ (by simpa using hok)
        exact hs.rel (SRel.of_set (c' := { c with out := (c.out.registerAck pkid).1 }) hc rfl
          ⟨rfl, fun h => h, by rw [e]; exact Nat.le_refl _⟩ rfl)
      · split at h
        · simp at h
        · rename_i s2 h2
          simp only [Except.ok.injEq, Prod.mk.injEq] at h; obtain ⟨rfl, _⟩ := h
          refine ack_reschedule_si (c' := { c with
            out := { (c.out.registerAck pkid).1 with unackedPubrels := (c.out.registerAck pkid).1.unackedPubrels ++ [pkid] },
            acks := { c.acks with committed := c.acks.committed ++ [Ack.pubrel pkid] } }) hs hc rfl ?_ ?_ h2 <;> rfl
  | pubrel pkid hp =>
    simp only [handlePacket] at h
    split at h
    · simp at h
    · rename_i c hc
      split at h
      · simp only [Except.ok.injEq, Prod.mk.injEq] at h; obtain ⟨rfl, _⟩ := h
        exact hs.rel (SRel.of_set (c' := { c with acks := _ }) hc rfl (Keep.refl c) rfl)
      · rename_i p rest hrec
        have a : SRel s ((setConn s id { c with acks := { committed := c.acks.committed ++ [Ack.pubcomp pkid], recorded := rest } }).g
            (.committed id (.pubcomp pkid))) :=
          SRel.of_set (c' := { c with acks := _ }) hc rfl (Keep.refl c) rfl
        split at h
        · simp at h
        · rename_i h2
          simp only [Except.ok.injEq, Prod.mk.injEq] at h; obtain ⟨rfl, _⟩ := h
          exact hs.rel (a.trans (appendToCommitlog_srel h2))
        · rename_i s2 h2
          split at h
          · simp at h
          · rename_i s3 h3
            simp only [Except.ok.injEq, Prod.mk.injEq] at h; obtain ⟨rfl, _⟩ := h
            exact reschedule_si (hs.rel (a.trans (appendToCommitlog_srel h2))) h3
  | pubcomp pkid =>
    simp only [handlePacket] at h
    split at h
    · simp at h
    · rename_i c hc
      have a : SRel s (setConn s id { c with out := (c.out.registerPubcomp pkid).1 }) :=
        SRel.of_set (c' := { c with out := _ }) hc rfl
          ⟨rfl, fun h => h, by rw [registerPubcomp_inflight]; exact Nat.le_refl _⟩ rfl
      split at h
      all_goals
        simp only [Except.ok.injEq, Prod.mk.injEq] at h; obtain ⟨rfl, _⟩ := h; exact hs.rel a
  | pingreq =>
    simp only [handlePacket] at h
    split at h
    · simp at h
    · rename_i s1 h1
      simp only [Except.ok.injEq, Prod.mk.injEq] at h; obtain ⟨rfl, _⟩ := h
      exact hs.rel (commitAck_srel h1)
  | disconnect =>
    simp only [handlePacket, Except.ok.injEq, Prod.mk.injEq] at h; obtain ⟨rfl, _⟩ := h
    exact hs.rel (SRel.of_conns rfl rfl)
  | other =>
    simp only [handlePacket, Except.ok.injEq, Prod.mk.injEq] at h; obtain ⟨rfl, _⟩ := h
    exact hs

theorem handlePackets_si {id : Nat} {cid : String} : ∀ (ps : List Packet) {s s' : RState} {fl fl' : Flags}, SI s →
    handlePackets s id cid ps fl = .ok (s', fl') → SI s'
  | [], s, s', fl, fl', hs, h => by
    simp only [handlePackets, Except.ok.injEq, Prod.mk.injEq] at h; obtain ⟨rfl, _⟩ := h; exact hs
  | p :: rest, s, s', fl, fl', hs, h => by
    simp only [handlePackets] at h
    split at h
    · simp at h
    · rename_i s1 fl1 h1
      have q1 := handlePacket_si hs h1
      split at h
      · simp only [Except.ok.injEq, Prod.mk.injEq] at h; obtain ⟨rfl, _⟩ := h; exact q1
      · exact handlePackets_si rest q1 h

end Router
