/-
C01 `delivery_is_prefix` over whole runs. The log offsets forwarded to a connection through one of
its subscriptions: `loopFwd` / `consumeFwd` / `stepFwd` / `runFwd` mirror the control flow of
`consume` and collect, for every sweep of a request of connection `a` with filter `f`, the log
offsets the sweep appended to the connection's link buffer. The request loop of `consume` threads
THE request of `(a, f)` from sweep to sweep (`ReqRun`).
-/
import Proofs.Lemmas.Router.Rp6_Idle
namespace Router
open Router.Rp3
open CommitLog (Rep logC Issued U64)

/-- the log offsets of the forwards one sweep appended to connection `id`'s link buffer -/
def sweepDelta (s s1 : RState) (id : Nat) : List Nat :=
  match getConn s id with
  | some c => (linkOffsets s1 c.link).drop (linkOffsets s c.link).length
  | none => []

/-- the request loop of `consume` again, collecting the offsets forwarded by the sweeps of requests
    with filter `f` -/
def loopFwd (f : String) (id : Nat) : Nat → RState → List DataRequest → List DataRequest → List Nat
  | 0, _, _, _ => []
  | _ + 1, _, [], _ => []
  | fuel + 1, s, req :: rest, skipped =>
    match forwardDeviceData s id req with
    | .error _ => []
    | .ok (s1, req1, st) =>
      let d := if req.filter = f then sweepDelta s s1 id else []
      let s2 := noteTurn s s1 req1
      match st with
      | .bufferFull => d
      | .inflightFull => d
      | .filterCaughtup =>
        match park s2 id req1 with
        | .error _ => d
        | .ok s3 => d ++ loopFwd f id fuel s3 rest skipped
      | .partialRead => d ++ loopFwd f id fuel s2 (rest ++ [req1]) skipped
      | .skipRequest => d ++ loopFwd f id fuel s2 rest (skipped ++ [req1])

/-- `consume()`: the offsets forwarded to connection `a` through its subscription `f` -/
def consumeFwd (a : Nat) (f : String) (s : RState) : List Nat :=
  match s.readyqueue.dropWhile (fun id => (s.conns.get? id).isNone) with
  | [] => []
  | id :: rq =>
    if id ≠ a then [] else
    let s := { s with readyqueue := rq }
    match getConn s id with
    | none => []
    | some c =>
      let s := setConn s id { c with tracker := { c.tracker with requests := [] } }
      let s := { s with readyqueue := s.readyqueue ++ [id] }
      let s := ackDeviceData s id
      loopFwd f id MAX_SCHEDULE_ITERATIONS s c.tracker.requests []

/-- one step: only `consume` sweeps -/
def stepFwd (a : Nat) (f : String) (s : RState) : Op → List Nat
  | .consume => consumeFwd a f s
  | _ => []

/-- a run: the offsets of log entries forwarded to connection `a`'s link buffer through its
    subscription `f`, in the order they were appended to the buffer -/
def runFwd (a : Nat) (f : String) : RState → List (Op × List Choice) → List Nat
  | _, [] => []
  | s, (op, ch) :: rest =>
    match step { s with oracle := ch } op with
    | .error _ => []
    | .ok (s', _) => stepFwd a f { s with oracle := ch } op ++ runFwd a f s' rest

theorem reqAt_of_dkey {i : Nat} {s s' : RState} {cur : Cursor} (h : ReqAt i s cur) (e : dkey s' = dkey s) : ReqAt i s' cur := by
  obtain ⟨fd, hist, hfd, hrep, hiss, hret, hU⟩ := h
  simp only [dkey, Prod.mk.injEq] at e
  obtain ⟨_, e2, _, _, e5⟩ := e
  have : (s.datalog.native.map (·.log))[i]? = some fd.log := by simp [hfd]
  rw [← e2] at this
  simp only [List.getElem?_map, Option.map_eq_some_iff] at this
  obtain ⟨fd', hfd', el⟩ := this
  exact ⟨fd', hist, hfd', by rw [el]; exact hrep, by rw [el]; exact hiss, by rw [el]; exact hret, by rw [e5]; exact hU⟩

/-- a stretch without sweep of the request and without change of the logs -/
theorem reqRun_idle {i : Nat} {s s' : RState} (r : DataRequest) (e : dkey s' = dkey s) : ReqRun i s r [] s' r :=
  ReqRun.other (fun _ h => reqAt_of_dkey h e) (ReqRun.done s' r)

/-- what a sweep of a non-shared request appended is `sweepDelta` -/
theorem sweepDelta_spec {s s1 : RState} {id : Nat} {c : Conn} {req req1 : DataRequest} {st : ConsumeStatus}
    (hc : getConn s id = some c) (hplain : req.group = none)
    (h : forwardDeviceData s id req = .ok (s1, req1, st)) :
    linkOffsets s1 c.link = linkOffsets s c.link ++ sweepDelta s s1 id := by
  unfold sweepDelta
  rw [hc]
  show linkOffsets s1 c.link = linkOffsets s c.link ++ (linkOffsets s1 c.link).drop (linkOffsets s c.link).length
  obtain ⟨_, _, _, _, hcase⟩ := plain_sweep_offsets hc hplain h
  rcases hcase with ⟨e, _⟩ | ⟨n, fd, _, _, e, _⟩
  · rw [e, List.drop_length, List.append_nil]
  · rw [e, List.drop_left]

/-- no connection loses a request in the request loop -/
theorem consumeLoop_own {id : Nat} : ∀ (fuel : Nat) {s s' : RState} {requests skipped : List DataRequest},
    consumeLoop s id fuel requests skipped = .ok s' → ∀ j x, Own s j x → Own s' j x
  | 0, s, s', requests, skipped, hc, j, x, ho => by
    simp only [consumeLoop] at hc
    exact ((trackv_add hc).1.own j x).mpr (.inl ho)
  | fuel + 1, s, s', requests, skipped, hc, j, x, ho => by
    cases requests with
    | nil =>
      simp only [consumeLoop] at hc
      split at hc
      · simp at hc
      · rename_i s1 h1
        have a : OEq s s1 := by
          split at h1
          · exact pause_oeq h1
          · simp only [Except.ok.injEq] at h1; subst h1; exact OEq.refl _
        exact ((trackv_add hc).1.own j x).mpr (.inl ((a.own j x).mpr ho))
    | cons req rest =>
      simp only [consumeLoop] at hc
      split at hc
      · simp at hc
      · rename_i s1 req1 st h1
        have m2 : OEq s (noteTurn s s1 req1) := (forwardDeviceData_oeq h1).trans (noteTurn_oeq s s1 req1)
        have ho2 := (m2.own j x).mpr ho
        split at hc
        · split at hc
          · simp at hc
          · rename_i s3 h3
            exact ((trackv_add hc).1.own j x).mpr (.inl (((pause_oeq h3).own j x).mpr ho2))
        · split at hc
          · simp at hc
          · rename_i s3 h3
            exact ((trackv_add hc).1.own j x).mpr (.inl (((pause_oeq h3).own j x).mpr ho2))
        · split at hc
          · simp at hc
          · rename_i s3 h3
            exact consumeLoop_own fuel hc j x (((park_add h3).1.own j x).mpr (.inl ho2))
        · exact consumeLoop_own fuel hc j x ho2
        · exact consumeLoop_own fuel hc j x ho2

/-- no request with filter `f` in the local lists: nothing is forwarded through `f` -/
theorem loopFwd_none (f : String) (id : Nat) : ∀ (fuel : Nat) (s : RState) (requests skipped : List DataRequest),
    (∀ x ∈ requests ++ skipped, x.filter ≠ f) → loopFwd f id fuel s requests skipped = []
  | 0, _, _, _, _ => rfl
  | _ + 1, _, [], _, _ => rfl
  | fuel + 1, s, req :: rest, skipped, hno => by
    simp only [loopFwd]
    split
    · rfl
    · rename_i s1 req1 st h1
      have hreq : req.filter ≠ f := hno req (by simp)
      have ef : req1.filter = req.filter := by
        have := (forwardDeviceData_move h1).2
        exact congrArg Prod.fst this
      simp only [hreq, if_false, List.nil_append]
      split
      · rfl
      · rfl
      · split
        · rfl
        · exact loopFwd_none f id fuel _ rest skipped fun x hx => hno x (by simp [List.mem_append.mp hx])
      · refine loopFwd_none f id fuel _ _ skipped fun x hx => ?_
        simp only [List.mem_append, List.mem_singleton] at hx
        rcases hx with (hx | hx) | hx
        · exact hno x (by simp [hx])
        · subst hx; rw [ef]; exact hreq
        · exact hno x (by simp [hx])
      · refine loopFwd_none f id fuel _ rest _ fun x hx => ?_
        simp only [List.mem_append, List.mem_singleton] at hx
        rcases hx with hx | hx | hx
        · exact hno x (by simp [hx])
        · exact hno x (by simp [hx])
        · subst hx; rw [ef]; exact hreq

end Router
