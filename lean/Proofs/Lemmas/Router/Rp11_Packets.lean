/-
C06 "replies are not withheld at idle": SUBSCRIBE, UNSUBSCRIBE, one packet, a batch.
-/
import Proofs.Lemmas.Router.Rp11_Steps
namespace Router

theorem nextNativeOffset_arel (s : RState) (filter : String) : ARel s (nextNativeOffset s filter).1 := by
  unfold nextNativeOffset
  split
  · exact ARel.refl s
  · exact ARel.of_conns rfl rfl

theorem prepareFilter_arel {s s' : RState} {id : Nat} {cursor : Cursor} {idx : Nat} {f : SubFilter}
    {group : Option String} {subId : Option Nat} (h : prepareFilter s id cursor idx f group subId = .ok s') : ARel s s' := by
  rw [prepareFilter_eq] at h
  split at h
  · simp at h
  · rename_i c hc
    simp only [] at h
    have hk : ∀ subs, AKeep c { pfConn c f.path subId with subscriptions := subs } := fun subs => by
      cases subId <;> exact ⟨fun h => h, fun h => h⟩
    have hk0 : AKeep c (pfConn c f.path subId) := by cases subId <;> exact AKeep.refl c
    split at h
    · simp only [Except.ok.injEq] at h; subst h
      exact ARel.of_set (s := s) (c' := pfConn c f.path subId) hc rfl hk0 rfl
    · split at h
      · simp at h
      · rename_i s3 h3
        unfold pfTail at h
        split at h
        · simp at h
        · rename_i s4 h4
          have e : s' = s4 := by
            split at h
            · simp only [Except.ok.injEq] at h; exact h.symm
            · split at h
              · simp only [Except.ok.injEq] at h; exact h.symm
              · simp at h
          subst e
          have a : ARel s (setConn ((pfState s id cursor f.path group c.clientId).g
              (.subscribed id f.path f.qos idx cursor group true)) id
              { pfConn c f.path subId with subscriptions := c.subscriptions ++ [f.path] }) :=
            ARel.of_set (s := s) (c' := { pfConn c f.path subId with subscriptions := c.subscriptions ++ [f.path] })
              hc rfl (hk _) rfl
          exact (a.trans (track_arel h3)).trans (reschedule_arel h4)

theorem subscribeFilters_arel {id : Nat} {subId : Option Nat} : ∀ (fs : List SubFilter) {s s' : RState}
    {codes codes' : List Nat} {fl fl' : Flags}, subscribeFilters s id subId fs codes fl = .ok (s', codes', fl') →
    ARel s s' ∧ (fl.forceAck = true → fl'.forceAck = true) ∧ (fl.disconnect = true → fl'.disconnect = true)
  | [], s, s', codes, codes', fl, fl', h => by
    simp only [subscribeFilters, Except.ok.injEq, Prod.mk.injEq] at h; obtain ⟨rfl, _, rfl⟩ := h
    exact ⟨ARel.refl _, fun h => h, fun h => h⟩
  | f :: rest, s, s', codes, codes', fl, fl', h => by
    rw [subscribeFilters_cons] at h
    split at h
    · simp only [Except.ok.injEq, Prod.mk.injEq] at h; obtain ⟨rfl, _, rfl⟩ := h
      exact ⟨ARel.refl _, fun h => h, fun _ => rfl⟩
    · split at h
      · simp only [Except.ok.injEq, Prod.mk.injEq] at h; obtain ⟨rfl, _, rfl⟩ := h
        exact ⟨ARel.refl _, fun h => h, fun _ => rfl⟩
      · simp only [] at h
        split at h
        · simp at h
        · rename_i s1 h1
          obtain ⟨a, b, c⟩ := subscribeFilters_arel rest h
          exact ⟨((nextNativeOffset_arel s _).trans (prepareFilter_arel h1)).trans a, b, c⟩

theorem ufState_arel {s : RState} {id : Nat} {ids : List Nat} {c : Conn} {f : String} (hc : getConn s id = some c) :
    ARel s (ufState s id ids c f) :=
  ARel.of_set (c' := ufConn s.datalog c f) hc rfl ⟨fun h => h, fun h => h⟩ rfl

theorem unsubscribeFilters_arel {id : Nat} : ∀ (fs : List String) {s s' : RState} {rs rs' : List Bool},
    unsubscribeFilters s id fs rs = .ok (s', rs') → ARel s s'
  | [], s, s', rs, rs', h => by
    simp only [unsubscribeFilters, Except.ok.injEq, Prod.mk.injEq] at h
    obtain ⟨rfl, _⟩ := h; exact ARel.refl _
  | f :: rest, s, s', rs, rs', h => by
    rw [unsubscribeFilters_cons] at h
    split at h
    · exact unsubscribeFilters_arel rest h
    · split at h
      · exact unsubscribeFilters_arel rest h
      · split at h
        · simp at h
        · rename_i c hc
          split at h
          · have a := unsubscribeFilters_arel rest h
            exact (ARel.of_conns rfl rfl).trans a
          · exact (ufState_arel hc).trans (unsubscribeFilters_arel rest h)

/-- the excuse inside a batch: a reschedule for the committed replies, or the disconnection, is still to come -/
def FlagsOwe (fl : Flags) : Prop := fl.forceAck = true ∨ fl.disconnect = true

/-- a reply is committed for the connection whose batch is handled, under the excuse -/
theorem commitAck_aix {s s' : RState} {id : Nat} {a : Ack} {P : Prop} (h : AIx s id P) (hp : P)
    (hc : commitAck s id a = .ok s') : AIx s' id P := by
  unfold commitAck at hc
  split at hc
  · simp at hc
  · rename_i c hcn
    simp only [Except.ok.injEq] at hc; subst hc
    have a1 : AIx (setConn s id { c with acks := { c.acks with committed := c.acks.committed ++ [a] } }) id P :=
      h.set hcn rfl fun _ => .inr ⟨rfl, hp⟩
    exact a1.rel (ARel.of_conns rfl rfl)

/-- one packet of the batch of connection `id` -/
theorem handlePacket_aix {s s' : RState} {id : Nat} {cid : String} {pkt : Packet} {fl fl' : Flags}
    (h : AIx s id (FlagsOwe fl)) (hp : handlePacket s id cid pkt fl = .ok (s', fl')) :
    AIx s' id (FlagsOwe fl') ∧ (FlagsOwe fl → FlagsOwe fl') := by
  cases pkt with
  | publish p =>
    rw [handlePacket_publish] at hp
    -- the acknowledgement phase
    have pre : ∀ {s1 : RState} {fl1 : Flags} {b : Bool}, hpPre s id p fl = .ok (s1, fl1, b) →
        AIx s1 id (FlagsOwe fl1) ∧ (FlagsOwe fl → FlagsOwe fl1) := by
      intro s1 fl1 b h1
      unfold hpPre at h1
      split at h1
      · split at h1
        · simp at h1
        · rename_i s2 h2
          simp only [Except.ok.injEq, Prod.mk.injEq] at h1; obtain ⟨rfl, rfl, _⟩ := h1
          exact ⟨commitAck_aix (h.weaken fun _ => .inl rfl) (.inl rfl) h2, fun _ => .inl rfl⟩
      · split at h1
        · split at h1
          · simp at h1
          · rename_i c hc
            simp only [Except.ok.injEq, Prod.mk.injEq] at h1; obtain ⟨rfl, rfl, _⟩ := h1
            have a1 : AIx (setConn s id { c with acks := { committed := c.acks.committed ++ [Ack.pubrec p.pkid], recorded := c.acks.recorded ++ [p] } })
                id (FlagsOwe { fl with forceAck := true }) :=
              (h.weaken fun _ => .inl rfl).set hc rfl fun _ => .inr ⟨rfl, .inl rfl⟩
            exact ⟨a1.rel (ARel.of_conns rfl rfl), fun _ => .inl rfl⟩
        · simp only [Except.ok.injEq, Prod.mk.injEq] at h1; obtain ⟨rfl, rfl, _⟩ := h1
          exact ⟨h, fun x => x⟩
    split at hp
    · simp at hp
    · rename_i s1 fl1 h1
      simp only [Except.ok.injEq, Prod.mk.injEq] at hp; obtain ⟨rfl, rfl⟩ := hp
      exact pre h1
    · rename_i s1 fl1 h1
      obtain ⟨a1, m1⟩ := pre h1
      split at hp
      · simp at hp
      · rename_i s2 h2
        simp only [Except.ok.injEq, Prod.mk.injEq] at hp; obtain ⟨rfl, rfl⟩ := hp
        exact ⟨(a1.rel (appendToCommitlog_arel h2)).weaken fun x => x, fun x => m1 x⟩
      · rename_i s2 r h2
        simp only [Except.ok.injEq, Prod.mk.injEq] at hp; obtain ⟨rfl, rfl⟩ := hp
        exact ⟨(a1.rel (appendToCommitlog_arel h2)).weaken fun _ => .inr rfl, fun _ => .inr rfl⟩
      · rename_i s2 h2
        simp only [Except.ok.injEq, Prod.mk.injEq] at hp; obtain ⟨rfl, rfl⟩ := hp
        exact ⟨(a1.rel (appendToCommitlog_arel h2)).weaken fun _ => .inr rfl, fun _ => .inr rfl⟩
  | subscribe pkid subId filters =>
    simp only [handlePacket] at hp
    split at hp
    · simp at hp
    · rename_i s1 codes fl1 h1
      split at hp
      · simp at hp
      · rename_i s2 h2
        simp only [Except.ok.injEq, Prod.mk.injEq] at hp; obtain ⟨rfl, rfl⟩ := hp
        obtain ⟨a, _, _⟩ := subscribeFilters_arel filters h1
        exact ⟨commitAck_aix ((h.rel a).weaken fun _ => .inl rfl) (.inl rfl) h2, fun _ => .inl rfl⟩
  | unsubscribe pkid filters =>
    simp only [handlePacket] at hp
    split at hp
    · simp at hp
    · split at hp
      · simp at hp
      · rename_i s1 rs h1
        split at hp
        · simp at hp
        · rename_i s2 h2
          simp only [Except.ok.injEq, Prod.mk.injEq] at hp; obtain ⟨rfl, rfl⟩ := hp
          exact ⟨commitAck_aix ((h.rel (unsubscribeFilters_arel filters h1)).weaken fun _ => .inl rfl) (.inl rfl) h2,
            fun _ => .inl rfl⟩
  | puback pkid =>
    simp only [handlePacket] at hp
    split at hp
    · simp at hp
    · rename_i c hc
      have a : ARel s (setConn s id { c with out := (c.out.registerAck pkid).1 }) :=
        ARel.of_set (c' := { c with out := (c.out.registerAck pkid).1 }) hc rfl ⟨fun h => h, fun h => h⟩ rfl
      split at hp
      · simp only [Except.ok.injEq, Prod.mk.injEq] at hp; obtain ⟨rfl, rfl⟩ := hp
        exact ⟨(h.rel a).weaken fun _ => .inr rfl, fun _ => .inr rfl⟩
      · split at hp
        · simp at hp
        · rename_i s2 h2
          simp only [Except.ok.injEq, Prod.mk.injEq] at hp; obtain ⟨rfl, rfl⟩ := hp
          have b := reschedule_arel h2
          exact ⟨h.rel ((a.trans (ARel.of_conns rfl rfl)).trans b), fun x => x⟩
  | pubrec pkid =>
    simp only [handlePacket] at hp
    split at hp
    · simp at hp
    · rename_i c hc
      split at hp
      · simp only [Except.ok.injEq, Prod.mk.injEq] at hp; obtain ⟨rfl, rfl⟩ := hp
        have a : ARel s (setConn s id { c with out := (c.out.registerAck pkid).1 }) :=
          ARel.of_set (c' := { c with out := (c.out.registerAck pkid).1 }) hc rfl ⟨fun h => h, fun h => h⟩ rfl
        exact ⟨(h.rel a).weaken fun _ => .inr rfl, fun _ => .inr rfl⟩
      · split at hp
        · simp at hp
        · rename_i s2 h2
          simp only [Except.ok.injEq, Prod.mk.injEq] at hp; obtain ⟨rfl, rfl⟩ := hp
          -- PUBREL is committed and the connection rescheduled for the incoming ack at once
          have a1 : AIx (((setConn s id { c with
              out := { (c.out.registerAck pkid).1 with unackedPubrels := (c.out.registerAck pkid).1.unackedPubrels ++ [pkid] },
              acks := { c.acks with committed := c.acks.committed ++ [Ack.pubrel pkid] } }).g (.clientAcked id pkid)).g
              (.committed id (.pubrel pkid))) id True :=
            (AIx.set (P := True) (h.weaken fun _ => trivial) hc rfl fun _ => .inr ⟨rfl, trivial⟩).rel
              ((ARel.of_conns rfl rfl).trans (ARel.of_conns rfl rfl))
          exact ⟨(reschedule_discharges a1 h2 (.inr (.inr rfl))).toX _ _, fun x => x⟩
  | pubrel pkid hpr =>
    simp only [handlePacket] at hp
    split at hp
    · simp at hp
    · rename_i c hc
      split at hp
      · simp only [Except.ok.injEq, Prod.mk.injEq] at hp; obtain ⟨rfl, rfl⟩ := hp
        have a1 : AIx (setConn s id { c with acks := { c.acks with committed := c.acks.committed ++ [Ack.pubcomp pkid] } }) id
            (FlagsOwe { fl with disconnect := true, stop := true }) :=
          (h.weaken fun _ => .inr rfl).set hc rfl fun _ => .inr ⟨rfl, .inr rfl⟩
        exact ⟨a1.rel (ARel.of_conns rfl rfl), fun _ => .inr rfl⟩
      · rename_i p rest hrec
        have a1 : AIx ((setConn s id { c with acks := { committed := c.acks.committed ++ [Ack.pubcomp pkid], recorded := rest } }).g
            (.committed id (.pubcomp pkid))) id True :=
          (AIx.set (P := True) (h.weaken fun _ => trivial) hc rfl fun _ => .inr ⟨rfl, trivial⟩).rel (ARel.of_conns rfl rfl)
        split at hp
        · simp at hp
        · rename_i s2 e h2
          simp only [Except.ok.injEq, Prod.mk.injEq] at hp; obtain ⟨rfl, rfl⟩ := hp
          exact ⟨(a1.rel (appendToCommitlog_arel h2)).weaken fun _ => .inr rfl, fun _ => .inr rfl⟩
        · rename_i s2 h2
          split at hp
          · simp at hp
          · rename_i s3 h3
            simp only [Except.ok.injEq, Prod.mk.injEq] at hp; obtain ⟨rfl, rfl⟩ := hp
            exact ⟨(reschedule_discharges (a1.rel (appendToCommitlog_arel h2)) h3 (.inr (.inr rfl))).toX _ _,
              fun x => x.imp (fun y => y) (fun y => y)⟩
  | pubcomp pkid =>
    simp only [handlePacket] at hp
    split at hp
    · simp at hp
    · rename_i c hc
      have a : ARel s (setConn s id { c with out := (c.out.registerPubcomp pkid).1 }) :=
        ARel.of_set (c' := { c with out := _ }) hc rfl ⟨fun h => h, fun h => h⟩ rfl
      split at hp
      · simp only [Except.ok.injEq, Prod.mk.injEq] at hp; obtain ⟨rfl, rfl⟩ := hp
        exact ⟨(h.rel a).weaken fun _ => .inr rfl, fun _ => .inr rfl⟩
      · simp only [Except.ok.injEq, Prod.mk.injEq] at hp; obtain ⟨rfl, rfl⟩ := hp
        exact ⟨h.rel a, fun x => x⟩
  | pingreq =>
    simp only [handlePacket] at hp
    split at hp
    · simp at hp
    · rename_i s1 h1
      simp only [Except.ok.injEq, Prod.mk.injEq] at hp; obtain ⟨rfl, rfl⟩ := hp
      exact ⟨commitAck_aix (h.weaken fun _ => .inl rfl) (.inl rfl) h1, fun _ => .inl rfl⟩
  | disconnect =>
    simp only [handlePacket, Except.ok.injEq, Prod.mk.injEq] at hp; obtain ⟨rfl, rfl⟩ := hp
    exact ⟨(h.rel (ARel.of_conns rfl rfl)).weaken fun _ => .inr rfl, fun _ => .inr rfl⟩
  | other =>
    simp only [handlePacket, Except.ok.injEq, Prod.mk.injEq] at hp; obtain ⟨rfl, rfl⟩ := hp
    exact ⟨h, fun x => x⟩

theorem handlePackets_aix {id : Nat} {cid : String} : ∀ (ps : List Packet) {s s' : RState} {fl fl' : Flags},
    AIx s id (FlagsOwe fl) → handlePackets s id cid ps fl = .ok (s', fl') → AIx s' id (FlagsOwe fl')
  | [], s, s', fl, fl', h, hp => by
    simp only [handlePackets, Except.ok.injEq, Prod.mk.injEq] at hp; obtain ⟨rfl, rfl⟩ := hp; exact h
  | p :: rest, s, s', fl, fl', h, hp => by
    simp only [handlePackets] at hp
    split at hp
    · simp at hp
    · rename_i s1 fl1 h1
      obtain ⟨a1, _⟩ := handlePacket_aix h h1
      split at hp
      · simp only [Except.ok.injEq, Prod.mk.injEq] at hp; obtain ⟨rfl, rfl⟩ := hp; exact a1
      · exact handlePackets_aix rest a1 hp

end Router
