/-
C17 membership invariant `MI` through SUBSCRIBE, UNSUBSCRIBE, disconnection, CONNECT; it holds in
every reachable state.
-/
import Proofs.Lemmas.Router.Rp10_Consume
namespace Router
open Router.Rp3

theorem sfGroup_extract {path g : String} (h : sfGroup path = some g) : ∃ p, extractGroup path = some (g, p) := by
  unfold sfGroup at h
  cases he : extractGroup path with
  | none => rw [he] at h; cases h
  | some gp =>
    obtain ⟨g', p'⟩ := gp
    rw [he] at h
    simp only [Option.map_some, Option.some.injEq] at h
    exact ⟨p', by rw [h]⟩

theorem prepareFilter_mi {s s' : RState} {id : Nat} {cursor : Cursor} {idx : Nat} {f : SubFilter} {subId : Option Nat}
    (hm : MI s) (h : prepareFilter s id cursor idx f (sfGroup f.path) subId = .ok s') : MI s' := by
  obtain ⟨c, hc⟩ : ∃ c, getConn s id = some c := by
    cases hgc : getConn s id with
    | none => rw [prepareFilter_eq, hgc] at h; simp at h
    | some c => exact ⟨c, rfl⟩
  obtain ⟨_, hsh⟩ := prepareFilter_shared hc h
  -- the connections, and the subscribing connection afterwards
  have key : MConn s s' ∧ ∃ c', getConn s' id = some c' ∧ c'.clientId = c.clientId ∧ f.path ∈ c'.subscriptions := by
    rw [prepareFilter_eq, hc] at h
    simp only [] at h
    have m0 : MConn s (pfState s id cursor f.path (sfGroup f.path) c.clientId) := MConn.of_conns rfl
    have hc1 : getConn (pfState s id cursor f.path (sfGroup f.path) c.clientId) id = some c := hc
    have hcid0 : (pfConn c f.path subId).clientId = c.clientId := by cases subId <;> rfl
    have hsb0 : (pfConn c f.path subId).subscriptions = c.subscriptions := by cases subId <;> rfl
    split at h
    · rename_i hold
      have hold' : f.path ∈ c.subscriptions := by simpa using hold
      simp only [Except.ok.injEq] at h; subst h
      have m1 : MConn (pfState s id cursor f.path (sfGroup f.path) c.clientId)
          ((setConn (pfState s id cursor f.path (sfGroup f.path) c.clientId) id (pfConn c f.path subId)).g
            (.subscribed id f.path f.qos idx cursor (sfGroup f.path) false)) :=
        MConn.of_setc (c' := pfConn c f.path subId) hc1 rfl hcid0 (fun x hx => hsb0 ▸ hx)
      refine ⟨m0.trans m1, pfConn c f.path subId, (getConn_setConn_live hc1 _ id).trans (by simp), hcid0, hsb0 ▸ hold'⟩
    · have hc1' : getConn ((pfState s id cursor f.path (sfGroup f.path) c.clientId).g
          (.subscribed id f.path f.qos idx cursor (sfGroup f.path) true)) id = some c := hc
      have hcid1 : ({ pfConn c f.path subId with subscriptions := c.subscriptions ++ [f.path] } : Conn).clientId = c.clientId := by
        cases subId <;> rfl
      have m1 : MConn (pfState s id cursor f.path (sfGroup f.path) c.clientId)
          (setConn ((pfState s id cursor f.path (sfGroup f.path) c.clientId).g (.subscribed id f.path f.qos idx cursor (sfGroup f.path) true)) id
            { pfConn c f.path subId with subscriptions := c.subscriptions ++ [f.path] }) :=
        MConn.of_setc (c' := { pfConn c f.path subId with subscriptions := c.subscriptions ++ [f.path] }) hc1 rfl hcid1
          (fun x hx => List.mem_append_left _ hx)
      have hc2 : getConn (setConn ((pfState s id cursor f.path (sfGroup f.path) c.clientId).g (.subscribed id f.path f.qos idx cursor (sfGroup f.path) true)) id
            { pfConn c f.path subId with subscriptions := c.subscriptions ++ [f.path] }) id =
          some { pfConn c f.path subId with subscriptions := c.subscriptions ++ [f.path] } :=
        (getConn_setConn_live hc1' _ id).trans (by simp)
      split at h
      · simp at h
      · rename_i s3 h3
        unfold pfTail at h
        split at h
        · simp at h
        · rename_i s4 h4
          have e : s' = s4 := by
            split at h
            · simp only [Except.ok.injEq] at h; exact h.symm
            · split at h
              · simp only [Except.ok.injEq] at h; exact h.symm
              · simp at h
          subst e
          have m34 := (track_mstep h3).conn.trans (reschedule_mstep h4).conn
          obtain ⟨c4, hc4, e1, e2⟩ := m34 id _ hc2
          exact ⟨(m0.trans m1).trans m34, c4, hc4, e1.trans hcid1, e2 f.path (by simp)⟩
  obtain ⟨m, c', hc', hcid', hfs⟩ := key
  refine hm.of_mconn m fun p' hp' cid hcid => ?_
  rw [hsh] at hp'
  cases hgrp : sfGroup f.path with
  | none =>
    rw [hgrp] at hp'
    exact .inl ⟨p', hp', rfl, hcid⟩
  | some g =>
    rw [hgrp] at hp'
    simp only [pfShared] at hp'
    rcases mem_ainsert hp' with h0 | rfl
    · exact .inl ⟨p', h0, rfl, hcid⟩
    · simp only [List.mem_append, List.mem_singleton] at hcid
      rcases hcid with hcid | rfl
      · cases hl : alookup g s.shared with
        | some grp =>
          rw [hl] at hcid
          exact .inl ⟨(g, grp), mem_of_alookup hl, rfl, hcid⟩
        | none => rw [hl] at hcid; simp at hcid
      · obtain ⟨path, hx⟩ := sfGroup_extract hgrp
        exact .inr ⟨id, c', hc', hcid', f.path, hfs, path, hx⟩

theorem subscribeFilters_mi {id : Nat} {subId : Option Nat} : ∀ (fs : List SubFilter) {s s' : RState}
    {codes codes' : List Nat} {fl fl' : Flags}, MI s → subscribeFilters s id subId fs codes fl = .ok (s', codes', fl') → MI s'
  | [], s, s', codes, codes', fl, fl', hm, h => by
    simp only [subscribeFilters, Except.ok.injEq, Prod.mk.injEq] at h; obtain ⟨rfl, _⟩ := h; exact hm
  | f :: rest, s, s', codes, codes', fl, fl', hm, h => by
    rw [subscribeFilters_cons] at h
    split at h
    · simp only [Except.ok.injEq, Prod.mk.injEq] at h; obtain ⟨rfl, _⟩ := h; exact hm
    · split at h
      · simp only [Except.ok.injEq, Prod.mk.injEq] at h; obtain ⟨rfl, _⟩ := h; exact hm
      · simp only [] at h
        split at h
        · simp at h
        · rename_i s1 h1
          exact subscribeFilters_mi rest (prepareFilter_mi (hm.step (nextNativeOffset_mstep s _)) h1) h

/-- one filter unsubscribed -/
theorem ufState_mi {s : RState} {id : Nat} {ids : List Nat} {c : Conn} {f : String} (hm : MI s)
    (hc : getConn s id = some c) : MI (ufState s id ids c f) := by
  have hc1 : getConn (ufState1 s id ids c f) id = some c := hc
  have hget : ∀ j, getConn (ufState s id ids c f) j = if j = id then some (ufConn s.datalog c f) else getConn s j :=
    fun j => getConn_setConn_live hc1 (ufConn s.datalog c f) j
  have hsh : (ufState s id ids c f).shared = ufShared s f c.clientId := rfl
  -- a member of an entry that was there before, other than `c` for the group of `f`
  have keep : ∀ p ∈ s.shared, ∀ cid ∈ p.2.clients, (∀ path, extractGroup f = some (p.1, path) → cid ≠ c.clientId) →
      ∃ id' c', getConn (ufState s id ids c f) id' = some c' ∧ c'.clientId = cid ∧
        ∃ f' ∈ c'.subscriptions, ∃ path, extractGroup f' = some (p.1, path) := by
    intro p hp cid hcid hne
    obtain ⟨id', c', hc', hci, f', hf', path, hx⟩ := hm p hp cid hcid
    by_cases hj : id' = id
    · subst hj
      rw [hc] at hc'
      have ec : c = c' := Option.some.inj hc'
      subst ec
      refine ⟨id', ufConn s.datalog c f, by rw [hget]; simp, hci, f', ?_, path, hx⟩
      show f' ∈ c.subscriptions.filter (· ≠ f)
      refine List.mem_filter.mpr ⟨hf', ?_⟩
      simp only [decide_eq_true_eq]
      intro e
      exact hne path (e ▸ hx) hci.symm
    · exact ⟨id', c', by rw [hget]; simp only [hj, if_false]; exact hc', hci, f', hf', path, hx⟩
  intro p' hp' cid hcid
  rw [hsh] at hp'
  unfold ufShared at hp'
  cases he : extractGroup f with
  | none =>
    rw [he] at hp'
    exact keep p' hp' cid hcid fun path e => by rw [he] at e; cases e
  | some gp =>
    obtain ⟨gname, path0⟩ := gp
    rw [he] at hp'
    simp only [] at hp'
    cases hl : alookup gname s.shared with
    | none =>
      rw [hl] at hp'
      refine keep p' hp' cid hcid fun path e => ?_
      rw [he] at e
      simp only [Option.some.injEq, Prod.mk.injEq] at e
      exact absurd e.1.symm (alookup_eq_none_mem.mp hl p' hp')
    | some g =>
      rw [hl] at hp'
      simp only [] at hp'
      split at hp'
      · -- the group is dropped
        have hp0 := mem_aremove hp'
        refine keep p' hp0 cid hcid fun path e => ?_
        rw [he] at e
        simp only [Option.some.injEq, Prod.mk.injEq] at e
        have := (List.mem_filter.mp hp').2
        simp [e.1] at this
      · rcases mem_ainsert_iff_key (by rw [hl]; rfl) hp' with ⟨rfl, _⟩ | ⟨hp0, hne⟩
        · have hcid' : cid ∈ g.clients ∧ cid ≠ c.clientId := by
            have : cid ∈ g.clients.filter (· ≠ c.clientId) := hcid
            simpa using this
          exact keep (gname, g) (mem_of_alookup hl) cid hcid'.1 fun _ _ => hcid'.2
        · refine keep p' hp0 cid hcid fun path e => ?_
          rw [he] at e
          simp only [Option.some.injEq, Prod.mk.injEq] at e
          exact absurd e.1.symm hne

theorem unsubscribeFilters_mi {id : Nat} : ∀ (fs : List String) {s s' : RState} {rs rs' : List Bool},
    unsubscribeFilters s id fs rs = .ok (s', rs') → MI s → MI s'
  | [], s, s', rs, rs', h, hm => by
    simp only [unsubscribeFilters, Except.ok.injEq, Prod.mk.injEq] at h
    obtain ⟨rfl, _⟩ := h; exact hm
  | f :: rest, s, s', rs, rs', h, hm => by
    rw [unsubscribeFilters_cons] at h
    split at h
    · exact unsubscribeFilters_mi rest h hm
    · split at h
      · exact unsubscribeFilters_mi rest h hm
      · split at h
        · simp at h
        · rename_i c hc
          split at h
          · exact unsubscribeFilters_mi rest h (hm.step ⟨MConn.of_conns rfl, rfl⟩)
          · exact unsubscribeFilters_mi rest h (ufState_mi hm hc)

theorem handlePacket_mi {s s' : RState} {id : Nat} {cid : String} {pkt : Packet} {fl fl' : Flags} (hm : MI s)
    (h : handlePacket s id cid pkt fl = .ok (s', fl')) : MI s' := by
  by_cases hsub : ∃ a b c, pkt = .subscribe a b c
  · obtain ⟨pkid, subId, filters, rfl⟩ := hsub
    simp only [handlePacket] at h
    split at h
    · simp at h
    · rename_i s1 codes fl1 h1
      split at h
      · simp at h
      · rename_i s2 h2
        simp only [Except.ok.injEq, Prod.mk.injEq] at h; obtain ⟨rfl, _⟩ := h
        exact (subscribeFilters_mi filters hm h1).step (commitAck_mstep h2)
  · by_cases hun : ∃ a b, pkt = .unsubscribe a b
    · obtain ⟨pkid, filters, rfl⟩ := hun
      simp only [handlePacket] at h
      split at h
      · simp at h
      · split at h
        · simp at h
        · rename_i s1 rs h1
          split at h
          · simp at h
          · rename_i s2 h2
            simp only [Except.ok.injEq, Prod.mk.injEq] at h; obtain ⟨rfl, _⟩ := h
            exact (unsubscribeFilters_mi filters h1 hm).step (commitAck_mstep h2)
    · exact hm.step (handlePacket_mstep (fun a b c e => hsub ⟨a, b, c, e⟩) (fun a b e => hun ⟨a, b, e⟩) h)

theorem handlePackets_mi {id : Nat} {cid : String} : ∀ (ps : List Packet) {s s' : RState} {fl fl' : Flags}, MI s →
    handlePackets s id cid ps fl = .ok (s', fl') → MI s'
  | [], s, s', fl, fl', hm, h => by
    simp only [handlePackets, Except.ok.injEq, Prod.mk.injEq] at h; obtain ⟨rfl, _⟩ := h; exact hm
  | p :: rest, s, s', fl, fl', hm, h => by
    simp only [handlePackets] at h
    split at h
    · simp at h
    · rename_i s1 fl1 h1
      have g1 := handlePacket_mi hm h1
      split at h
      · simp only [Except.ok.injEq, Prod.mk.injEq] at h; obtain ⟨rfl, _⟩ := h; exact g1
      · exact handlePackets_mi rest g1 h

theorem handleDisconnection_mi {s s' : RState} {id : Nat} {r : Option String} (hm : MI s)
    (hd : handleDisconnection s id r = .ok s') : MI s' := by
  cases hc : getConn s id with
  | none => rw [handleDisconnection_missing s id r hc] at hd; cases hd; exact hm
  | some c =>
    rw [Router.handleDisconnection_eq] at hd
    simp only [hc] at hd
    refine MI.step ?_ (wakeParked_mstep hd)
    obtain ⟨k1, _⟩ := hdFinal_fields s id c r
    have hget : ∀ j, getConn (hdFinal s id c r) j = if j = id then none else getConn s j := fun j => by
      unfold getConn; rw [k1, Slab.get?_remove]
    have hrem : ∀ p' ∈ removeFromGroups s.shared c.clientId, ∀ cid ∈ p'.2.clients,
        ∃ id' c', getConn (hdFinal s id c r) id' = some c' ∧ c'.clientId = cid ∧
          ∃ f ∈ c'.subscriptions, ∃ path, extractGroup f = some (p'.1, path) := by
      intro p' hp' cid hcid
      obtain ⟨p, hp, rfl, _⟩ := mem_removeFromGroups hp'
      have hcid' : cid ∈ p.2.clients ∧ cid ≠ c.clientId := by
        have : cid ∈ p.2.clients.filter (· ≠ c.clientId) := hcid
        simpa using this
      obtain ⟨id', c', hc', hci, f, hf, path, hx⟩ := hm p hp cid hcid'.1
      have hj : id' ≠ id := fun e => by
        subst e; rw [hc] at hc'; cases hc'; exact hcid'.2 hci.symm
      exact ⟨id', c', by rw [hget]; simp only [hj, if_false]; exact hc', hci, f, hf, path, hx⟩
    have hsh := hdFinal_shared s id c r
    intro p' hp' cid hcid
    rw [hsh] at hp'
    split at hp'
    · obtain ⟨_, hent⟩ := rewindRequests_entries (retransmissionMap c.out.inflight [])
        ((c.tracker.requests ++ (datalogClean s.datalog id).2).map (atGroupCursor s.shared))
        (removeFromGroups s.shared c.clientId) []
      obtain ⟨p, hp, e1, e2, _⟩ := hent p' hp'
      rw [e1]
      exact hrem p hp cid (e2 ▸ hcid)
    · exact hrem p' hp' cid hcid

/-- the members `rejoinGroups` adds are the client being registered, for groups of its restored requests -/
theorem rejoinGroups_members (strategy : Strategy) (cid : String) : ∀ (rs : List DataRequest) (sh : List (String × SharedGroup)),
    ∀ p' ∈ rejoinGroups strategy cid rs sh, ∀ x ∈ p'.2.clients,
      (∃ p ∈ sh, p.1 = p'.1 ∧ x ∈ p.2.clients) ∨ (x = cid ∧ ∃ r ∈ rs, r.group = some p'.1)
  | [], sh, p', hp', x, hx => .inl ⟨p', hp', rfl, hx⟩
  | r :: rest, sh, p', hp', x, hx => by
    unfold rejoinGroups at hp'
    cases hg : r.group with
    | none =>
      rw [hg] at hp'
      simp only [] at hp'
      exact (rejoinGroups_members strategy cid rest sh p' hp' x hx).imp id
        fun ⟨a, r', hr', e⟩ => ⟨a, r', List.mem_cons_of_mem _ hr', e⟩
    | some g =>
      rw [hg] at hp'
      simp only [] at hp'
      rcases rejoinGroups_members strategy cid rest _ p' hp' x hx with ⟨p, hp, e1, hxm⟩ | ⟨a, r', hr', e⟩
      · rcases mem_ainsert hp with hp0 | rfl
        · exact .inl ⟨p, hp0, e1, hxm⟩
        · simp only [List.mem_append, List.mem_singleton] at hxm
          rcases hxm with hxm | rfl
          · cases hl : alookup g sh with
            | some grp =>
              rw [hl] at hxm
              exact .inl ⟨(g, grp), mem_of_alookup hl, e1, hxm⟩
            | none => rw [hl] at hxm; simp at hxm
          · exact .inr ⟨rfl, r, by simp, by rw [hg, ← e1]⟩
      · exact .inr ⟨a, r', List.mem_cons_of_mem _ hr', e⟩

theorem hnRegister_mi {s s' : RState} {spec : ConnectSpec} (hm : MI s) (hrc : RC s) (ha : AdmInv s) (hq : QI s)
    (hnone : alookup spec.clientId s.connectionMap = none) (hroom : s.conns.len < s.config.maxConnections)
    (h : hnRegister s spec = .ok s') : MI s' := by
  obtain ⟨_, hre⟩ := hnRegister_ok h
  refine MI.step ?_ (reschedule_mstep hre)
  obtain ⟨_, hgt⟩ := hnRestored_qi hq spec
  obtain ⟨_, hreq⟩ := hnRestored_ok hrc spec
  obtain ⟨e1, e2, e3⟩ := hnPre_core s spec
  obtain ⟨_, _, f3, _⟩ := hnPre_fields s spec
  obtain ⟨_, hvac, hnew, hold⟩ := AdmInv.register (conn' := { hnConn spec (hnRestored s spec) with
      acks := { committed := hnAcks spec (hnKey s spec) (hnSession s spec).isSome (hnRestored s spec) } })
    ha hnone hroom rfl e1 e2 e3
  have hnew' : getConn (hnPre s spec) (hnKey s spec) = some _ := hnew
  have hold' : ∀ j, j ≠ hnKey s spec → getConn (hnPre s spec) j = getConn s j := hold
  have hvac' : getConn s (hnKey s spec) = none := hvac
  intro p' hp' x hx
  rw [f3] at hp'
  rcases rejoinGroups_members _ _ _ _ p' hp' x hx with ⟨p, hp, e, hxm⟩ | ⟨rfl, r, hr, hrg⟩
  · obtain ⟨id', c', hc', hci, f, hf, path, hxg⟩ := hm p hp x hxm
    have hj : id' ≠ hnKey s spec := fun e' => by rw [e', hvac'] at hc'; cases hc'
    exact ⟨id', c', by rw [hold' id' hj]; exact hc', hci, f, hf, path, e ▸ hxg⟩
  · refine ⟨hnKey s spec, _, hnew', rfl, r.filter, (hreq r hr).1, ?_⟩
    have := hgt r hr
    unfold GT at this
    rw [hrg] at this
    cases he : extractGroup r.filter with
    | none => rw [he] at this; cases this
    | some gp =>
      obtain ⟨g', path⟩ := gp
      rw [he] at this
      simp only [Option.map_some, Option.some.injEq] at this
      exact ⟨path, by rw [this]⟩

theorem handleNewConnection_mi {s s' : RState} {spec : ConnectSpec} (hb : BInv s) (ha : AdmInv s) (hrc : RC s) (hq : QI s)
    (hm : MI s) (h : handleNewConnection s spec = .ok s') : MI s' := by
  rw [Router.handleNewConnection_eq] at h
  simp only [] at h
  have m0 : MStep s (setLink s spec.link {}) := ⟨MConn.of_conns rfl, rfl⟩
  have h0 : BInv (setLink s spec.link {}) := ⟨hb.1.congr rfl rfl rfl rfl rfl rfl rfl, hb.2⟩
  have a0 : AdmInv (setLink s spec.link {}) := ha.congr rfl rfl rfl
  have q0 := hq.oeq (OEq.of_conns (s := s) (s' := setLink s spec.link {}) rfl rfl rfl rfl rfl)
  have r0 : RC (setLink s spec.link {}) := RCX.view hrc (KMove.of_conns rfl rfl rfl rfl rfl)
  have g0 := hm.step m0
  split at h
  · simp only [Except.ok.injEq] at h; subst h
    exact g0.step ⟨MConn.of_conns rfl, rfl⟩
  · split at h
    · simp at h
    · rename_i s1 h1
      obtain ⟨a1, hnone, _⟩ := hnTakeover_spec a0 h1
      have t1 : RC s1 ∧ QI s1 ∧ MI s1 := by
        unfold hnTakeover at h1
        split at h1
        · exact ⟨handleDisconnection_rc r0 h0.2 h1, (handleDisconnection_qi q0 h0.2 h1).1, handleDisconnection_mi g0 h1⟩
        · simp only [Except.ok.injEq] at h1; subst h1; exact ⟨r0, q0, g0⟩
      split at h
      · simp only [Except.ok.injEq] at h; subst h
        exact t1.2.2.step ⟨MConn.of_conns rfl, rfl⟩
      · exact hnRegister_mi t1.2.2 t1.1 a1 t1.2.1 hnone (by omega) h

theorem handleDevicePayload_mi {s s' : RState} {id : Nat} (hm : MI s) (h : handleDevicePayload s id = .ok s') : MI s' := by
  unfold handleDevicePayload at h
  split at h
  · simp only [Except.ok.injEq] at h; subst h; exact hm
  · rename_i c hc
    simp only [] at h
    have g0 : MI (setLink s c.link { getLink s c.link with ibuf := [] }) := hm.step ⟨MConn.of_conns rfl, rfl⟩
    split at h
    · simp at h
    · rename_i s1 fl h1
      have g1 := handlePackets_mi _ g0 h1
      split at h
      · simp at h
      · rename_i s2 h2
        have g2 : MI s2 := by
          split at h2
          · exact g1.step (reschedule_mstep h2)
          · simp only [Except.ok.injEq] at h2; subst h2; exact g1
        split at h
        · simp at h
        · rename_i s3 h3
          have g3 : MI s3 := by
            split at h3
            · exact g2.step (drain_all_mstep h3)
            · simp only [Except.ok.injEq] at h3; subst h3; exact g2
          split at h
          · simp at h
          · rename_i s4 h4
            have g4 := g3.step (wakeTurnMoved_mstep h4)
            split at h
            · exact handleDisconnection_mi g4 h
            · simp only [Except.ok.injEq] at h; subst h; exact g4

theorem step_mi {s s' : RState} {op : Op} {out : Out} (h3 : Inv3 s) (hq : QI s) (hm : MI s)
    (hs : step s op = .ok (s', out)) : MI s' := by
  have hb := h3.inv2.binv
  cases op with
  | connect spec =>
    simp only [step] at hs
    split at hs
    · simp at hs
    · rename_i s1 hc
      simp only [Except.ok.injEq, Prod.mk.injEq] at hs; obtain ⟨rfl, _⟩ := hs
      exact handleNewConnection_mi hb h3.inv2.inv1.adm h3.rc hq hm hc
  | push l p =>
    simp only [step] at hs
    split at hs
    all_goals
      simp only [Except.ok.injEq, Prod.mk.injEq] at hs; obtain ⟨rfl, _⟩ := hs
      first | exact hm | exact hm.step ⟨MConn.of_conns rfl, rfl⟩
  | event id e =>
    simp only [step] at hs
    split at hs
    · simp at hs
    · rename_i s1 he
      simp only [Except.ok.injEq, Prod.mk.injEq] at hs; obtain ⟨rfl, _⟩ := hs
      cases e with
      | deviceData => exact handleDevicePayload_mi hm he
      | ready =>
        simp only [events] at he
        split at he
        · exact hm.step (reschedule_mstep he)
        · simp only [Except.ok.injEq] at he; subst he; exact hm
      | disconnect => exact handleDisconnection_mi (id := id) (r := none) hm he
      | publishWill c => exact hm.step (handleLastWill_mstep he)
      | shadow f => exact hm.step (handleShadow_mstep he)
      | sendMeters => simp only [events, Except.ok.injEq] at he; subst he; exact hm
      | sendAlerts => simp only [events, Except.ok.injEq] at he; subst he; exact hm
  | consume =>
    simp only [step] at hs
    split at hs
    · simp at hs
    · rename_i s1 b hc
      simp only [Except.ok.injEq, Prod.mk.injEq] at hs; obtain ⟨rfl, _⟩ := hs
      exact consume_mi hm hc
  | drain l =>
    simp only [step] at hs
    split at hs
    · split at hs
      all_goals
        simp only [Except.ok.injEq, Prod.mk.injEq] at hs; obtain ⟨rfl, _⟩ := hs
        first | exact hm | exact hm.step ⟨MConn.of_conns rfl, rfl⟩
    · simp only [Except.ok.injEq, Prod.mk.injEq] at hs; obtain ⟨rfl, _⟩ := hs; exact hm

theorem MI.init (cfg : Config) : MI (init cfg) := fun p hp => by simp [Router.init] at hp

/-- `MI` holds in every reachable state (side conditions of `QI`, which supplies the group tags of saved requests) -/
theorem MI.reachable {cfg : Config} (h1 : 1 ≤ cfg.maxSegmentSize) (h2 : 1 ≤ cfg.maxSegmentCount)
    (hpos : 0 < cfg.maxOutgoingPacketCount) {s : RState} (hr : Reachable cfg s) (hno : NoOverflow s) : MI s := by
  have key : Reachable cfg s ∧ DLInv s ∧ (NoOverflow s → MI s) := by
    refine hr.induction (fun s => Reachable cfg s ∧ DLInv s ∧ (NoOverflow s → MI s))
      ⟨reachable_init cfg, init_inv cfg h1 h2, fun _ => MI.init cfg⟩ ?_
    intro s o op s' out ⟨hrs, hi, hms⟩ hstep
    have hi0 : DLInv ({ s with oracle := o } : RState) := hi.of_dkey rfl
    have hrs' : Reachable cfg s' := hrs.step hstep
    have hi' : DLInv s' := step_inv hi0 hstep
    refine ⟨hrs', hi', fun hno' => ?_⟩
    have hcfg : s'.config = s.config := by rw [config_reachable hrs', config_reachable hrs]
    have hno0 : NoOverflow ({ s with oracle := o } : RState) :=
      NoOverflow.back hi' (step_mono hi0 hstep) hcfg hno'
    have hq : QI ({ s with oracle := o } : RState) := (QI.reachable h1 h2 hpos hrs hno0).oracle o
    have hm0 : MI ({ s with oracle := o } : RState) := (hms hno0).step ⟨MConn.of_conns rfl, rfl⟩
    exact step_mi ((Inv3.reachable hrs).oracle o) hq hm0 hstep
  exact key.2.2 hno

end Router
