/-
The general history relation `Hist s s'` and the functions that are not `Boring`: those that
append to filter logs, update the retained map, or touch `last_wills`.
-/
import Proofs.Lemmas.Router.Rp2_Hist
namespace Router

/-- the retained map is well formed: one entry per topic, every entry flagged and non-empty -/
def RetOK (s : RState) : Prop := RetainedKeysUnique s ∧ RetainedFlagged s

/-- events that are not `willSet` / `willFired` / `accepted` -/
def Ghost.willish : Ghost → Bool
  | .willSet _ => true
  | .willFired _ => true
  | .accepted .. => true
  | _ => false

theorem counts_of_not_willish {evs : List Ghost} (h : ∀ e ∈ evs, e.willish = false) (cid : String) :
    firedCount cid evs = 0 ∧ setCount cid evs = 0 ∧ acceptedEvents evs = [] := by
  induction evs with
  | nil => exact ⟨rfl, rfl, rfl⟩
  | cons e es ih =>
    have he : e.willish = false := h e (List.mem_cons_self)
    have ih' := ih (fun x hx => h x (List.mem_cons_of_mem _ hx))
    cases e <;> simp [Ghost.willish] at he <;> simp_all [firedCount, setCount, acceptedEvents]

/-- the effect of one accepted publish on the retained message of topic `t` (the rule of C15) -/
def retainedStep (t : String) (cur : Option Pub) (e : Option Nat × Pub × String) : Option Pub :=
  if e.2.2 = t then (if e.2.1.retain then (if e.2.1.payload.isEmpty then none else some e.2.1) else cur) else cur

/-- the retained message of topic `t` after a sequence of accepted publishes, starting from `cur` -/
def retainedSpec (t : String) (cur : Option Pub) (acc : List (Option Nat × Pub × String)) : Option Pub :=
  acc.foldl (retainedStep t) cur

theorem retainedSpec_append (t : String) (cur : Option Pub) (a b : List (Option Nat × Pub × String)) :
    retainedSpec t cur (a ++ b) = retainedSpec t (retainedSpec t cur a) b := by
  simp [retainedSpec, List.foldl_append]

/-- one step of history: the retained map stays well formed and follows the accepted publishes;
    the new ghost events' `appended` copies are unflagged; and per client, (wills fired) + (will
    stored after) ≤ (wills set) + (will stored before) -/
structure Hist (s s' : RState) : Prop where
  ret : RetOK s → RetOK s'
  ghost : ∃ evs, s'.ghost = s.ghost ++ evs ∧ (∀ e ∈ appendedEvents evs, e.2.retain = false) ∧
    (∀ cid, firedCount cid evs + stored s'.lastWills cid ≤ setCount cid evs + stored s.lastWills cid) ∧
    (∀ t, alookup t s'.datalog.retained = retainedSpec t (alookup t s.datalog.retained) (acceptedEvents evs))

theorem Hist.refl (s : RState) : Hist s s :=
  ⟨id, [], by simp, by simp [appendedEvents], fun cid => by simp [firedCount, setCount],
   fun t => by simp [acceptedEvents, retainedSpec]⟩

theorem Hist.trans {a b c : RState} (h1 : Hist a b) (h2 : Hist b c) : Hist a c := by
  obtain ⟨e1, g1, p1, w1, r1⟩ := h1.ghost
  obtain ⟨e2, g2, p2, w2, r2⟩ := h2.ghost
  refine ⟨fun h => h2.ret (h1.ret h), e1 ++ e2, by rw [g2, g1, List.append_assoc], ?_, ?_, ?_⟩
  · intro e he
    rw [appendedEvents_append] at he
    rcases List.mem_append.mp he with h | h
    · exact p1 e h
    · exact p2 e h
  · intro cid
    have := w1 cid; have := w2 cid
    simp only [firedCount_append, setCount_append]
    omega
  · intro t
    rw [acceptedEvents_append, retainedSpec_append, ← r1 t, r2 t]

theorem Hist.of_boring {s s' : RState} (h : Boring s s') : Hist s s' := by
  obtain ⟨evs, g, q⟩ := h.ghost
  refine ⟨fun hr => ?_, evs, g, ?_, ?_, ?_⟩
  · unfold RetOK RetainedKeysUnique RetainedFlagged at *
    rw [h.retained]; exact hr
  · intro e he; rw [(q.counts "").1] at he; simp at he
  · intro cid
    rw [(q.counts cid).2.1, (q.counts cid).2.2.1, h.lastWills]
    exact Nat.le_refl _
  · intro t
    rw [(q.counts "").2.2.2, h.retained]; rfl

/-- retained map and wills untouched; new events are neither will events, nor accepted publishes,
    nor flagged copies -/
theorem Hist.of_appends {s s' : RState} (evs : List Ghost) (h1 : s'.datalog.retained = s.datalog.retained)
    (h2 : s'.lastWills = s.lastWills) (hg : s'.ghost = s.ghost ++ evs) (hw : ∀ e ∈ evs, e.willish = false)
    (hp : ∀ e ∈ appendedEvents evs, e.2.retain = false) : Hist s s' := by
  refine ⟨fun hr => ?_, evs, hg, hp, ?_, ?_⟩
  · unfold RetOK RetainedKeysUnique RetainedFlagged at *
    rw [h1]; exact hr
  · intro cid
    rw [(counts_of_not_willish hw cid).1, (counts_of_not_willish hw cid).2.1, h2]
    exact Nat.le_refl _
  · intro t
    rw [(counts_of_not_willish hw "").2.2, h1]; rfl

/-- wills change, no publish is accepted, retained map untouched -/
theorem Hist.of_wills {s s' : RState} (evs : List Ghost) (h1 : s'.datalog.retained = s.datalog.retained)
    (hg : s'.ghost = s.ghost ++ evs) (ha : appendedEvents evs = []) (hc : acceptedEvents evs = [])
    (hw : ∀ cid, firedCount cid evs + stored s'.lastWills cid ≤ setCount cid evs + stored s.lastWills cid) :
    Hist s s' := by
  refine ⟨fun hr => ?_, evs, hg, ?_, hw, ?_⟩
  · unfold RetOK RetainedKeysUnique RetainedFlagged at *
    rw [h1]; exact hr
  · intro e he; rw [ha] at he; simp at he
  · intro t; rw [hc, h1]; rfl

theorem Boring.of_evs {s s' : RState} (evs : List Ghost) (h1 : s'.datalog.retained = s.datalog.retained)
    (h2 : s'.lastWills = s.lastWills) (h3 : s'.ghost = s.ghost ++ evs) (hq : Quiet evs) : Boring s s' :=
  ⟨h1, h2, evs, h3, hq⟩

theorem Boring.g1 {s s' : RState} (h1 : s'.datalog.retained = s.datalog.retained)
    (h2 : s'.lastWills = s.lastWills) (e1 : Ghost) (h3 : s'.ghost = s.ghost ++ [e1])
    (q1 : e1.loud = false) : Boring s s' :=
  ⟨h1, h2, [e1], h3, Quiet.single q1⟩

theorem Boring.g2 {s s' : RState} (h1 : s'.datalog.retained = s.datalog.retained)
    (h2 : s'.lastWills = s.lastWills) (e1 e2 : Ghost) (h3 : s'.ghost = s.ghost ++ [e1] ++ [e2])
    (q1 : e1.loud = false) (q2 : e2.loud = false) : Boring s s' :=
  ⟨h1, h2, [e1, e2], by rw [h3]; simp, (Quiet.single q1).append (Quiet.single q2)⟩

theorem appendToFilter_hist {s s' : RState} {i : Nat} {p : Pub} (hp : p.retain = false)
    (h : appendToFilter s i p = .ok s') : Hist s s' := by
  unfold appendToFilter at h
  split at h
  · simp at h
  · rename_i fd hfd
    simp only [Except.ok.injEq] at h
    subst h
    split
    · refine Hist.of_appends [.evicted i (((fd.log.append p (pubSize p)).1.segs.head?.map (·.abs)).getD 0),
          .appended i ((fd.log.append p (pubSize p)).2.2 - 1) p] rfl rfl ?_ ?_ ?_
      · simp [RState.g]
      · intro e he; simp at he; rcases he with rfl | rfl <;> rfl
      · intro e he; simp [appendedEvents] at he; subst he; exact hp
    · refine Hist.of_appends [.appended i ((fd.log.append p (pubSize p)).2.2 - 1) p] rfl rfl ?_ ?_ ?_
      · simp [RState.g]
      · intro e he; simp at he; subst he; rfl
      · intro e he; simp [appendedEvents] at he; subst he; exact hp

theorem appendToFilters_hist : ∀ (idxs : List Nat) {s s' : RState} {p : Pub}, p.retain = false →
    appendToFilters s idxs p = .ok s' → Hist s s'
  | [], s, s', p, _, h => by simp only [appendToFilters, Except.ok.injEq] at h; subst h; exact Hist.refl _
  | i :: is, s, s', p, hp, h => by
    simp only [appendToFilters] at h
    split at h
    · simp at h
    · rename_i s1 h1
      exact (appendToFilter_hist hp h1).trans (appendToFilters_hist is hp h)

/-- accepting a publish: the retained map is updated by the rule, one `accepted` event recorded -/
theorem accept_hist (s : RState) (topic : String) (p : Pub) (who : Option Nat) :
    Hist s ((updateRetained s topic p).g (.accepted who p topic)) := by
  have u := updateRetained_same s topic p
  refine ⟨fun hr => ⟨updateRetained_keysUnique s topic p hr.1, updateRetained_flagged s topic p hr.2⟩,
    [.accepted who p topic], by simp [RState.g, u.1], by simp [appendedEvents], ?_, ?_⟩
  · intro cid
    show _ + stored (updateRetained s topic p).lastWills cid ≤ _
    rw [u.2.2.2.2.1]
    simp [firedCount, setCount]
  · intro t
    show alookup t (updateRetained s topic p).datalog.retained = _
    simp only [acceptedEvents, List.filterMap_cons, List.filterMap_nil, retainedSpec, List.foldl_cons,
      List.foldl_nil, retainedStep]
    by_cases ht : topic = t
    · subst ht
      rw [updateRetained_lookup_same]; simp
    · rw [updateRetained_lookup_other _ _ _ _ (fun e => ht e.symm)]; simp [ht]

theorem dlMatches_boring {s s' : RState} {topic : String} {v : List Nat} (h : dlMatches s topic = .ok (s', v)) :
    Boring s s' := by
  have := dlMatches_same h
  exact Boring.of_eq this.2.2.1 (dlMatches_lastWills h).1 this.1

/-- `append_to_commitlog`, whatever its outcome -/
theorem appendToCommitlog_hist {s s' : RState} {id : Nat} {p : Pub} {e : Option AppendErr}
    (h : appendToCommitlog s id p = .ok (s', e)) : Hist s s' := by
  unfold appendToCommitlog at h
  split at h
  · simp at h
  · rename_i c hc
    simp only [] at h
    split at h
    · simp only [Except.ok.injEq, Prod.mk.injEq] at h; obtain ⟨rfl, _⟩ := h; exact Hist.refl _
    · split at h
      · simp only [Except.ok.injEq, Prod.mk.injEq] at h; obtain ⟨rfl, _⟩ := h; exact Hist.refl _
      · rename_i s1 p1 hr
        have f1 : Boring s s1 := by
          split at hr
          · simp only [Except.ok.injEq, Prod.mk.injEq] at hr; obtain ⟨rfl, _⟩ := hr; exact Boring.refl _
          · split at hr
            · simp at hr
            · split at hr
              · split at hr
                · simp at hr
                · simp only [Except.ok.injEq, Prod.mk.injEq] at hr; obtain ⟨rfl, _⟩ := hr; exact Boring.refl _
              · split at hr
                · simp at hr
                · simp only [Except.ok.injEq, Prod.mk.injEq] at hr; obtain ⟨rfl, _⟩ := hr
                  exact Boring.of_eq rfl rfl rfl
        split at h
        · simp only [Except.ok.injEq, Prod.mk.injEq] at h; obtain ⟨rfl, _⟩ := h; exact Hist.of_boring f1
        · rename_i topic ht
          split at h
          · simp at h
          · rename_i s2 idxs h2
            split at h
            · simp at h
            · rename_i s3 h3
              simp only [Except.ok.injEq, Prod.mk.injEq] at h; obtain ⟨rfl, _⟩ := h
              have a1 := accept_hist s1 topic p1 (some id)
              exact (((Hist.of_boring f1).trans a1).trans (Hist.of_boring (dlMatches_boring h2))).trans
                (appendToFilters_hist idxs rfl h3)

/-- removing a will (DISCONNECT packet): no will event, one will fewer -/
theorem stored_aremove_le (lw : List (String × Will)) (cid c' : String) :
    stored (aremove cid lw) c' ≤ stored lw c' := by
  unfold stored
  by_cases h : c' = cid
  · subst h; rw [alookup_aremove_same]; simp
  · rw [alookup_aremove_ne _ _ h]; exact Nat.le_refl _

theorem handlePacket_hist {s s' : RState} {id : Nat} {cid : String} {pkt : Packet} {fl fl' : Flags}
    (h : handlePacket s id cid pkt fl = .ok (s', fl')) : Hist s s' := by
  cases pkt with
  | publish p =>
    simp only [handlePacket] at h
    split at h
    · simp at h
    · rename_i s1 fl1 hpre
      simp only [Except.ok.injEq, Prod.mk.injEq] at h; obtain ⟨rfl, _⟩ := h
      split at hpre
      · split at hpre <;> simp at hpre
      · split at hpre
        · split at hpre
          · simp at hpre
          · simp only [Except.ok.injEq, Prod.mk.injEq] at hpre; obtain ⟨rfl, _⟩ := hpre
            exact Hist.of_boring (Boring.of_evs [.committed id (.pubrec p.pkid)] rfl rfl rfl (Quiet.single rfl))
        · simp at hpre
    · rename_i s1 fl1 hpre
      have hp1 : Hist s s1 := by
        split at hpre
        · split at hpre
          · simp at hpre
          · rename_i s0 hca
            simp only [Except.ok.injEq, Prod.mk.injEq] at hpre; obtain ⟨rfl, _⟩ := hpre
            exact Hist.of_boring (commitAck_boring hca)
        · split at hpre
          · split at hpre <;> simp at hpre
          · simp only [Except.ok.injEq, Prod.mk.injEq] at hpre; obtain ⟨rfl, _⟩ := hpre; exact Hist.refl _
      split at h
      · simp at h
      all_goals
        (rename_i hap
         simp only [Except.ok.injEq, Prod.mk.injEq] at h; obtain ⟨rfl, _⟩ := h
         exact hp1.trans (appendToCommitlog_hist hap))
  | subscribe pkid subId fs =>
    simp only [handlePacket] at h
    split at h
    · simp at h
    · rename_i s1 codes fl1 hsf
      split at h
      · simp at h
      · rename_i s2 hca
        simp only [Except.ok.injEq, Prod.mk.injEq] at h; obtain ⟨rfl, _⟩ := h
        exact Hist.of_boring ((subscribeFilters_boring id subId fs hsf).trans (commitAck_boring hca))
  | unsubscribe pkid fs =>
    simp only [handlePacket] at h
    split at h
    · simp at h
    · split at h
      · simp at h
      · rename_i s1 rs hu
        split at h
        · simp at h
        · rename_i s2 hca
          simp only [Except.ok.injEq, Prod.mk.injEq] at h; obtain ⟨rfl, _⟩ := h
          exact Hist.of_boring ((unsubscribeFilters_boring id fs hu).trans (commitAck_boring hca))
  | pingreq =>
    simp only [handlePacket] at h
    split at h
    · simp at h
    · rename_i s2 hca
      simp only [Except.ok.injEq, Prod.mk.injEq] at h; obtain ⟨rfl, _⟩ := h
      exact Hist.of_boring (commitAck_boring hca)
  | puback pkid =>
    simp only [handlePacket] at h
    split at h
    · simp at h
    · split at h
      · simp only [Except.ok.injEq, Prod.mk.injEq] at h; obtain ⟨rfl, _⟩ := h
        exact Hist.of_boring (Boring.of_eq rfl rfl rfl)
      · split at h
        · simp at h
        · rename_i s2 h2
          simp only [Except.ok.injEq, Prod.mk.injEq] at h; obtain ⟨rfl, _⟩ := h
          refine Hist.of_boring (Boring.trans ?_ (reschedule_boring h2))
          exact Boring.of_evs [.clientAcked id pkid] rfl rfl rfl (Quiet.single rfl)
  | pubrec pkid =>
    simp only [handlePacket] at h
    split at h
    · simp at h
    · split at h
      · simp only [Except.ok.injEq, Prod.mk.injEq] at h; obtain ⟨rfl, _⟩ := h
        exact Hist.of_boring (Boring.of_eq rfl rfl rfl)
      · split at h
        · simp at h
        · rename_i s2 h2
          simp only [Except.ok.injEq, Prod.mk.injEq] at h; obtain ⟨rfl, _⟩ := h
          refine Hist.of_boring (Boring.trans ?_ (reschedule_boring h2))
          refine Boring.of_evs [.clientAcked id pkid, .committed id (.pubrel pkid)] rfl rfl
            (by simp [RState.g, setConn]) ?_
          intro e he; simp at he; rcases he with rfl | rfl <;> rfl
  | pubrel pkid hpr =>
    simp only [handlePacket] at h
    split at h
    · simp at h
    · rename_i c hc
      split at h
      · simp only [Except.ok.injEq, Prod.mk.injEq] at h; obtain ⟨rfl, _⟩ := h
        exact Hist.of_boring (Boring.of_evs [.committed id (.pubcomp pkid)] rfl rfl rfl (Quiet.single rfl))
      · rename_i p rest hrec
        have b0 : Boring s ((setConn s id { c with acks := { committed := c.acks.committed ++ [Ack.pubcomp pkid], recorded := rest } }).g
            (.committed id (.pubcomp pkid))) :=
          Boring.of_evs [.committed id (.pubcomp pkid)] rfl rfl rfl (Quiet.single rfl)
        split at h
        · simp at h
        · rename_i s2 e hap
          simp only [Except.ok.injEq, Prod.mk.injEq] at h; obtain ⟨rfl, _⟩ := h
          exact (Hist.of_boring b0).trans (appendToCommitlog_hist hap)
        · rename_i s2 hap
          split at h
          · simp at h
          · rename_i s3 h3
            simp only [Except.ok.injEq, Prod.mk.injEq] at h; obtain ⟨rfl, _⟩ := h
            exact ((Hist.of_boring b0).trans (appendToCommitlog_hist hap)).trans
              (Hist.of_boring (reschedule_boring h3))
  | pubcomp pkid =>
    simp only [handlePacket] at h
    split at h
    · simp at h
    · split at h <;>
        (simp only [Except.ok.injEq, Prod.mk.injEq] at h; obtain ⟨rfl, _⟩ := h
         exact Hist.of_boring (Boring.of_eq rfl rfl rfl))
  | disconnect =>
    simp only [handlePacket, Except.ok.injEq, Prod.mk.injEq] at h; obtain ⟨rfl, _⟩ := h
    refine Hist.of_wills [.willCleared cid] rfl rfl rfl rfl ?_
    intro c'
    have := stored_aremove_le s.lastWills cid c'
    simp only [firedCount, setCount, List.countP_cons, List.countP_nil]
    show 0 + 0 + stored (aremove cid s.lastWills) c' ≤ 0 + 0 + stored s.lastWills c'
    omega
  | other => simp only [handlePacket, Except.ok.injEq, Prod.mk.injEq] at h; obtain ⟨rfl, _⟩ := h; exact Hist.refl _

theorem handlePackets_hist (id : Nat) (cid : String) : ∀ (pkts : List Packet) {s s' : RState} {fl fl' : Flags},
    handlePackets s id cid pkts fl = .ok (s', fl') → Hist s s'
  | [], s, s', fl, fl', h => by
    simp only [handlePackets, Except.ok.injEq, Prod.mk.injEq] at h; obtain ⟨rfl, _⟩ := h; exact Hist.refl _
  | p :: rest, s, s', fl, fl', h => by
    simp only [handlePackets] at h
    split at h
    · simp at h
    · rename_i s1 fl1 h1
      have a := handlePacket_hist h1
      split at h
      · simp only [Except.ok.injEq, Prod.mk.injEq] at h; obtain ⟨rfl, _⟩ := h; exact a
      · exact a.trans (handlePackets_hist id cid rest h)

theorem handleDevicePayload_hist {s s' : RState} {id : Nat} (h : handleDevicePayload s id = .ok s') : Hist s s' := by
  unfold handleDevicePayload at h
  split at h
  · simp only [Except.ok.injEq] at h; subst h; exact Hist.refl _
  · rename_i c hc
    simp only [] at h
    split at h
    · simp at h
    · rename_i s1 fl hpk
      have a1 : Hist s s1 := (Hist.of_boring (setLink_boring s c.link _)).trans (handlePackets_hist id c.clientId _ hpk)
      split at h
      · simp at h
      · rename_i s2 h2
        have a2 : Boring s1 s2 := by
          split at h2
          · exact reschedule_boring h2
          · simp only [Except.ok.injEq] at h2; subst h2; exact Boring.refl _
        split at h
        · simp at h
        · rename_i s3 h3
          have a3 : Boring s2 s3 := by
            split at h3
            · exact Boring.precomp (drainNotifications_boring h3) rfl rfl rfl
            · simp only [Except.ok.injEq] at h3; subst h3; exact Boring.refl _
          split at h
          · simp at h
          rename_i s4 h4
          have a4 : Boring s4 s' := by
            split at h
            · exact handleDisconnection_boring h
            · simp only [Except.ok.injEq] at h; subst h; exact Boring.refl _
          exact a1.trans (Hist.of_boring (((a2.trans a3).trans (wakeTurnMoved_boring h4)).trans a4))

/-! ### wills -/

theorem stored_ainsert (lw : List (String × Will)) (cid : String) (w : Will) (c' : String) :
    stored (ainsert cid w lw) c' = if c' = cid then 1 else stored lw c' := by
  unfold stored
  by_cases h : c' = cid
  · subst h; rw [alookup_ainsert_same]; simp
  · rw [alookup_ainsert_ne _ _ _ _ h]; simp [h]

theorem hncWill_hist (s : RState) (spec : ConnectSpec) : Hist s (hncWill s spec) := by
  unfold hncWill
  cases spec.will with
  | none => exact Hist.refl _
  | some w =>
    refine Hist.of_wills [.willSet spec.clientId] rfl rfl rfl rfl ?_
    intro c'
    show firedCount c' [.willSet spec.clientId] + stored (ainsert spec.clientId w s.lastWills) c' ≤
      setCount c' [.willSet spec.clientId] + stored s.lastWills c'
    rw [stored_ainsert]
    by_cases h : c' = spec.clientId
    · subst h; simp [firedCount, setCount]
    · have h' : ¬ spec.clientId = c' := fun e => h e.symm
      simp [firedCount, setCount, h, h']

theorem foldl_committed_boring (id : Nat) : ∀ (acks : List Ack) (s : RState),
    Boring s (acks.foldl (fun s a => s.g (.committed id a)) s)
  | [], s => Boring.refl s
  | a :: as, s => by
    simp only [List.foldl_cons]
    exact ((Boring.refl s).g (e := .committed id a) rfl).trans (foldl_committed_boring id as _)

theorem hncInstall_boring {s s' : RState} {spec : ConnectSpec} {restored : Option SessionState} {prev : Bool}
    (h : hncInstall s spec restored prev = .ok s') : Boring s s' := by
  unfold hncInstall at h
  simp only [] at h
  split at h
  · simp at h
  · refine Boring.trans ?_ (reschedule_boring h)
    refine Boring.trans ?_ (foldl_committed_boring _ _ _)
    split
    · exact Boring.g2 rfl rfl _ _ rfl rfl rfl
    · exact Boring.g1 rfl rfl _ rfl rfl

theorem handleNewConnection_hist {s s' : RState} {spec : ConnectSpec} (h : handleNewConnection s spec = .ok s') :
    Hist s s' := by
  rw [handleNewConnection_eq_rp2] at h
  split at h
  · simp only [Except.ok.injEq] at h; subst h
    exact Hist.of_boring ((setLink_boring s spec.link {}).g rfl)
  · split at h
    · simp at h
    · rename_i s1 ht
      have b1 : Boring s s1 := by
        refine (setLink_boring s spec.link {}).trans ?_
        unfold hncTakeover at ht
        split at ht
        · exact handleDisconnection_boring ht
        · simp only [Except.ok.injEq] at ht; subst ht; exact Boring.refl _
      split at h
      · simp only [Except.ok.injEq] at h; subst h
        exact Hist.of_boring (b1.g rfl)
      · unfold hncAdmit at h
        have b2 : Boring s1 { s1 with graveyard := aremove spec.clientId s1.graveyard } := Boring.of_eq rfl rfl rfl
        exact ((Hist.of_boring (b1.trans b2)).trans (hncWill_hist _ spec)).trans (Hist.of_boring (hncInstall_boring h))

theorem handleLastWill_hist {s s' : RState} {cid : String} (h : handleLastWill s cid = .ok s') : Hist s s' := by
  unfold handleLastWill at h
  split at h
  · simp only [Except.ok.injEq] at h; subst h; exact Hist.refl _
  · rename_i w hw
    simp only [] at h
    -- removing the will and recording `willFired`
    have a0 : Hist s (({ s with lastWills := aremove cid s.lastWills } : RState).g (.willFired cid)) := by
      refine Hist.of_wills [.willFired cid] rfl rfl rfl rfl ?_
      intro c'
      show firedCount c' [.willFired cid] + stored (aremove cid s.lastWills) c' ≤
        setCount c' [.willFired cid] + stored s.lastWills c'
      by_cases hc : c' = cid
      · subst hc
        have h1 : stored (aremove c' s.lastWills) c' = 0 := by unfold stored; rw [alookup_aremove_same]; simp
        have h2 : stored s.lastWills c' = 1 := by unfold stored; rw [hw]; simp
        simp [firedCount, setCount, h1, h2]
      · have hc' : ¬ cid = c' := fun e => hc e.symm
        have := stored_aremove_le s.lastWills cid c'
        simp [firedCount, setCount, hc']
        exact this
    split at h
    · simp only [Except.ok.injEq] at h; subst h; exact a0
    · rename_i topic ht
      split at h
      · simp at h
      · rename_i s1 idxs h1
        split at h
        · simp at h
        · rename_i s2 h2
          have a1 := accept_hist (({ s with lastWills := aremove cid s.lastWills } : RState).g (.willFired cid)) topic
            { qos := w.qos, pkid := 0, retain := w.retain, dup := false, topic := w.topic, payload := w.payload } none
          have a2 := Hist.of_boring (dlMatches_boring h1)
          have a3 := appendToFilters_hist idxs rfl h2
          have a4 : Hist s2 s' := Hist.of_boring (Boring.precomp (drainNotifications_boring h) rfl rfl rfl)
          exact (((a0.trans a1).trans a2).trans a3).trans a4

theorem events_hist {s s' : RState} {id : Nat} {e : Event} (h : events s id e = .ok s') : Hist s s' := by
  cases e with
  | deviceData => exact handleDevicePayload_hist h
  | ready =>
    simp only [events] at h
    split at h
    · exact Hist.of_boring (reschedule_boring h)
    · simp only [Except.ok.injEq] at h; subst h; exact Hist.refl _
  | disconnect =>
    simp only [events] at h
    exact Hist.of_boring (handleDisconnection_boring h)
  | publishWill c => exact handleLastWill_hist h
  | shadow f => exact Hist.of_boring (handleShadow_boring h)
  | sendMeters => simp only [events, Except.ok.injEq] at h; subst h; exact Hist.refl _
  | sendAlerts => simp only [events, Except.ok.injEq] at h; subst h; exact Hist.refl _

/-- every step of the router model is a history step -/
theorem step_hist {s s' : RState} {op : Op} {o : Out} (h : step s op = .ok (s', o)) : Hist s s' := by
  cases op with
  | connect spec =>
    simp only [step] at h
    split at h
    · simp at h
    · rename_i s1 h1
      simp only [Except.ok.injEq, Prod.mk.injEq] at h; obtain ⟨rfl, _⟩ := h
      exact handleNewConnection_hist h1
  | push l p =>
    simp only [step] at h
    split at h
    · simp only [Except.ok.injEq, Prod.mk.injEq] at h; obtain ⟨rfl, _⟩ := h
      exact Hist.of_boring (setLink_boring _ _ _)
    · simp only [Except.ok.injEq, Prod.mk.injEq] at h; obtain ⟨rfl, _⟩ := h; exact Hist.refl _
  | event id e =>
    simp only [step] at h
    split at h
    · simp at h
    · rename_i s1 h1
      simp only [Except.ok.injEq, Prod.mk.injEq] at h; obtain ⟨rfl, _⟩ := h
      exact events_hist h1
  | consume =>
    simp only [step] at h
    split at h
    · simp at h
    · rename_i s1 b h1
      simp only [Except.ok.injEq, Prod.mk.injEq] at h; obtain ⟨rfl, _⟩ := h
      exact Hist.of_boring (consume_boring h1)
  | drain l =>
    simp only [step] at h
    split at h
    · split at h
      · simp only [Except.ok.injEq, Prod.mk.injEq] at h; obtain ⟨rfl, _⟩ := h
        exact Hist.of_boring (setLink_boring _ _ _)
      · simp only [Except.ok.injEq, Prod.mk.injEq] at h; obtain ⟨rfl, _⟩ := h; exact Hist.refl _
    · simp only [Except.ok.injEq, Prod.mk.injEq] at h; obtain ⟨rfl, _⟩ := h; exact Hist.refl _

end Router
