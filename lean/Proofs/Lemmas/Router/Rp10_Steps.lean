/-
The liveness invariant `GL` for shared groups: primitive and composite operations that keep the group
table (`MStep`).
-/
import Proofs.Lemmas.Router.Rp10_Members
namespace Router

theorem reschedule_mstep {s s' : RState} {id : Nat} {r : SchedReason} (h : reschedule s id r = .ok s') : MStep s s' := by
  unfold reschedule at h
  split at h
  · simp at h
  · rename_i c hc
    split at h
    · simp at h
    · rename_i t woke ht
      simp only [Except.ok.injEq] at h; subst h
      have e := tryReady_some ht
      split
      · exact MStep.of_set (c' := { c with tracker := t }) hc rfl e rfl rfl rfl rfl rfl
      · exact MStep.of_set (c' := { c with tracker := t }) hc rfl e rfl rfl rfl rfl rfl

theorem commitAck_mstep {s s' : RState} {id : Nat} {a : Ack} (h : commitAck s id a = .ok s') : MStep s s' := by
  unfold commitAck at h
  split at h
  · simp at h
  · rename_i c hc
    simp only [Except.ok.injEq] at h; subst h
    exact MStep.of_set (c' := { c with acks := _ }) hc rfl rfl rfl rfl rfl rfl rfl

theorem pause_mstep {s s' : RState} {id : Nat} {r : PauseReason} (h : pause s id r = .ok s') : MStep s s' := by
  unfold pause at h
  split at h
  · simp at h
  · split at h
    · simp at h
    · rename_i c hc
      simp only [Except.ok.injEq] at h; subst h
      have hc' : getConn s id = some c := hc
      exact MStep.of_set (c' := { c with tracker := { c.tracker with status := .paused r } }) hc' rfl rfl rfl rfl rfl rfl rfl

theorem ackDeviceData_mstep (s : RState) (id : Nat) : MStep s (ackDeviceData s id) := by
  unfold ackDeviceData
  split
  · exact MStep.refl s
  · rename_i c hc
    split
    · exact MStep.refl s
    · exact MStep.of_set (c' := { c with acks := _ }) hc rfl rfl rfl rfl rfl rfl rfl

theorem updateRetained_mstep (s : RState) (topic : String) (p : Pub) : MStep s (updateRetained s topic p) := by
  unfold updateRetained
  split
  · exact MStep.of_conns rfl rfl rfl rfl rfl
  · split
    · exact MStep.of_conns rfl rfl rfl rfl rfl
    · exact MStep.refl _

theorem dlMatches_mstep {s s' : RState} {topic : String} {v : List Nat} (h : dlMatches s topic = .ok (s', v)) : MStep s s' := by
  unfold dlMatches at h
  split at h
  · simp only [Except.ok.injEq, Prod.mk.injEq] at h; obtain ⟨rfl, _⟩ := h; exact MStep.refl _
  · split at h
    · simp only [] at h
      split at h
      · simp only [Except.ok.injEq, Prod.mk.injEq] at h; obtain ⟨rfl, _⟩ := h
        split <;> exact MStep.of_conns rfl rfl rfl rfl rfl
      · simp at h
    · simp at h

theorem readRetained_mstep {s s' : RState} {f : String} {ps : List Pub} (h : readRetained s f = .ok (s', ps)) : MStep s s' := by
  unfold readRetained at h
  simp only [] at h
  split at h
  · split at h
    · simp only [Except.ok.injEq, Prod.mk.injEq] at h; obtain ⟨rfl, _⟩ := h; exact MStep.of_conns rfl rfl rfl rfl rfl
    · simp at h
  · simp at h

theorem updateNextClient_mstep {s s' : RState} {g g' : SharedGroup} (h : updateNextClient s g = .ok (s', g')) : MStep s s' := by
  unfold updateNextClient at h
  split at h
  · simp only [Except.ok.injEq, Prod.mk.injEq] at h; obtain ⟨rfl, _⟩ := h; exact MStep.refl _
  · split at h
    · simp at h
    · simp only [Except.ok.injEq, Prod.mk.injEq] at h; obtain ⟨rfl, _⟩ := h; exact MStep.refl _
  · split at h
    · simp at h
    · split at h
      · split at h
        · simp only [Except.ok.injEq, Prod.mk.injEq] at h; obtain ⟨rfl, _⟩ := h; exact MStep.of_conns rfl rfl rfl rfl rfl
        · simp at h
      · simp at h


theorem noteTurn_mstep (s0 s1 : RState) (req : DataRequest) : MStep s1 (noteTurn s0 s1 req) := by
  obtain ⟨tm, e⟩ := noteTurn_eq s0 s1 req
  rw [e]; exact ⟨MConn.of_conns rfl, rfl⟩


theorem track_mstep {s s' : RState} {id : Nat} {r0 : DataRequest} (h : track s id r0 = .ok s') : MStep s s' := by
  unfold track at h
  split at h
  · simp at h
  · rename_i c hc
    simp only [Except.ok.injEq] at h; subst h
    exact MStep.of_setc (c' := { c with tracker := _ }) hc rfl rfl rfl rfl rfl rfl

theorem trackv_mstep {s s' : RState} {id : Nat} {rs : List DataRequest} (h : trackv s id rs = .ok s') : MStep s s' := by
  unfold trackv at h
  split at h
  · simp at h
  · rename_i c hc
    simp only [Except.ok.injEq] at h; subst h
    exact MStep.of_setc (c' := { c with tracker := _ }) hc rfl rfl rfl rfl rfl rfl

theorem MStep.of_native_set {s s' : RState} {i : Nat} {fd fd' : FilterData} (_hfd : s.datalog.native[i]? = some fd)
    (hc : s'.conns = s.conns) (_hnat : s'.datalog.native = s.datalog.native.set i fd')
    (_hw : fd'.waiters = [] ∨ (fd'.log = fd.log ∧ ∀ w ∈ fd'.waiters, w ∈ fd.waiters))
    (_hfi : s'.datalog.filterIndexes = s.datalog.filterIndexes) (hsh : s'.shared = s.shared)
    (_htm : s'.turnMoved = s.turnMoved) : MStep s s' := ⟨MConn.of_conns hc, hsh⟩


theorem appendToFilter_mstep {s s' : RState} {idx : Nat} {p : Pub} (h : appendToFilter s idx p = .ok s') : MStep s s' := by
  unfold appendToFilter at h
  split at h
  · simp at h
  · rename_i fd hfd
    simp only [Except.ok.injEq] at h
    refine MStep.of_native_set (fd' := { fd with log := (fd.log.append p (pubSize p)).1, waiters := [] }) hfd
      (by rw [← h]; split <;> rfl) (by rw [← h]; split <;> rfl) (.inl rfl) (by rw [← h]; split <;> rfl)
      (by rw [← h]; split <;> rfl) (by rw [← h]; split <;> rfl)

theorem appendToFilters_mstep : ∀ (idxs : List Nat) {s s' : RState} {p : Pub},
    appendToFilters s idxs p = .ok s' → MStep s s'
  | [], s, s', p, h => by simp only [appendToFilters, Except.ok.injEq] at h; subst h; exact MStep.refl _
  | i :: is, s, s', p, h => by
    simp only [appendToFilters] at h
    split at h
    · simp at h
    · rename_i s1 h1
      exact (appendToFilter_mstep h1).trans (appendToFilters_mstep is h)

theorem drainNotifications_mstep : ∀ (ns : List (Nat × DataRequest)) {s s' : RState},
    drainNotifications s ns = .ok s' → MStep s s'
  | [], s, s', h => by simp only [drainNotifications, Except.ok.injEq] at h; subst h; exact MStep.refl _
  | (id, r0) :: rest, s, s', h => by
    simp only [drainNotifications] at h
    split at h
    · simp at h
    · rename_i s1 h1
      split at h
      · simp at h
      · rename_i s2 h2
        exact ((track_mstep h1).trans (reschedule_mstep h2)).trans (drainNotifications_mstep rest h)

theorem drain_all_mstep {s s' : RState} (h : drainNotifications { s with notifications := [] } s.notifications = .ok s') :
    MStep s s' :=
  (MStep.of_conns (s := s) (s' := { s with notifications := [] }) rfl rfl rfl rfl rfl).trans (drainNotifications_mstep _ h)

theorem wakeParkedSorted_mstep : ∀ (logs : List Nat) {s s' : RState}, wakeParkedSorted s logs = .ok s' → MStep s s'
  | [], s, s', h => by
    simp only [wakeParkedSorted, Except.ok.injEq] at h; subst h
    exact MStep.refl _
  | i :: rest, s, s', h => by
    rw [wakeParkedSorted_cons] at h
    split at h
    · exact wakeParkedSorted_mstep rest h
    · rename_i fd hfd
      split at h
      · simp at h
      · rename_i s2 h2
        have a : MStep s (clearWaiters s i fd) := ⟨MConn.of_conns rfl, rfl⟩
        exact (a.trans (drainNotifications_mstep _ h2)).trans (wakeParkedSorted_mstep rest h)


theorem wakeParked_mstep {s s' : RState} {logs : List Nat} (h : wakeParked s logs = .ok s') : MStep s s' :=
  wakeParkedSorted_mstep _ h


theorem appendToCommitlog_mstep {s s' : RState} {id : Nat} {p : Pub} {e : Option AppendErr}
    (h : appendToCommitlog s id p = .ok (s', e)) : MStep s s' := by
  unfold appendToCommitlog at h
  split at h
  · simp at h
  · rename_i c hc
    simp only [] at h
    split at h
    · simp only [Except.ok.injEq, Prod.mk.injEq] at h; obtain ⟨rfl, _⟩ := h; exact MStep.refl _
    · split at h
      · simp only [Except.ok.injEq, Prod.mk.injEq] at h; obtain ⟨rfl, _⟩ := h; exact MStep.refl _
      · rename_i s1 p1 hr
        have h1 : MStep s s1 := by
          split at hr
          · simp only [Except.ok.injEq, Prod.mk.injEq] at hr; obtain ⟨rfl, _⟩ := hr; exact MStep.refl _
          · split at hr
            · simp at hr
            · split at hr
              · split at hr
                · simp at hr
                · simp only [Except.ok.injEq, Prod.mk.injEq] at hr; obtain ⟨rfl, _⟩ := hr; exact MStep.refl _
              · split at hr
                · simp at hr
                · simp only [Except.ok.injEq, Prod.mk.injEq] at hr; obtain ⟨rfl, _⟩ := hr
                  exact MStep.of_set (c' := { c with topicAliases := _ }) hc rfl rfl rfl rfl rfl rfl rfl
        refine h1.trans ?_
        split at h
        · simp only [Except.ok.injEq, Prod.mk.injEq] at h; obtain ⟨rfl, _⟩ := h; exact MStep.refl _
        · rename_i topic ht
          split at h
          · simp at h
          · rename_i s2 idxs h2
            split at h
            · simp at h
            · rename_i s3 h3
              simp only [Except.ok.injEq, Prod.mk.injEq] at h; obtain ⟨rfl, _⟩ := h
              have a : MStep s1 ((updateRetained s1 topic p1).g (Ghost.accepted (some id) p1 topic)) :=
                (updateRetained_mstep s1 topic p1).trans (MStep.of_conns rfl rfl rfl rfl rfl)
              exact (a.trans (dlMatches_mstep h2)).trans (appendToFilters_mstep idxs h3)

theorem hpPre_mstep {s s' : RState} {id : Nat} {p : Pub} {fl fl' : Flags} {b : Bool}
    (h : hpPre s id p fl = .ok (s', fl', b)) : MStep s s' := by
  unfold hpPre at h
  split at h
  · split at h
    · simp at h
    · rename_i s1 h1
      simp only [Except.ok.injEq, Prod.mk.injEq] at h; obtain ⟨rfl, _⟩ := h
      exact commitAck_mstep h1
  · split at h
    · split at h
      · simp at h
      · rename_i c hc
        simp only [Except.ok.injEq, Prod.mk.injEq] at h; obtain ⟨rfl, _⟩ := h
        exact MStep.of_set (c' := { c with acks := _ }) hc rfl rfl rfl rfl rfl rfl rfl
    · simp only [Except.ok.injEq, Prod.mk.injEq] at h; obtain ⟨rfl, _⟩ := h; exact MStep.refl _

theorem fdRetained_mstep {s s' : RState} {req : DataRequest} {slots slots' : Nat} {ps : List (Pub × Option Cursor)}
    (h : fdRetained s req slots = .ok (s', ps, slots')) : MStep s s' := by
  unfold fdRetained at h
  split at h
  · split at h
    · simp at h
    · rename_i s1 ps1 h1
      simp only [Except.ok.injEq, Prod.mk.injEq] at h; obtain ⟨rfl, _⟩ := h
      exact readRetained_mstep h1
  · simp only [Except.ok.injEq, Prod.mk.injEq] at h; obtain ⟨rfl, _⟩ := h; exact MStep.refl _


end Router
