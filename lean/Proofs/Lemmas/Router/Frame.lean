/-
Frame lemmas: which parts of the state a helper leaves untouched.
-/
import Proofs.Lemmas.Router.Local
namespace Router

theorem dlMatches_lastWills {s s' : RState} {topic : String} {v : List Nat}
    (h : dlMatches s topic = .ok (s', v)) : s'.lastWills = s.lastWills ∧ s'.conns = s.conns := by
  unfold dlMatches at h
  split at h
  · simp only [Except.ok.injEq, Prod.mk.injEq] at h; obtain ⟨rfl, _⟩ := h; exact ⟨rfl, rfl⟩
  · split at h
    · simp only [] at h
      split at h
      · simp only [Except.ok.injEq, Prod.mk.injEq] at h; obtain ⟨rfl, _⟩ := h; exact ⟨rfl, rfl⟩
      · simp at h
    · simp at h

theorem appendToFilter_lastWills {s s' : RState} {idx : Nat} {p : Pub}
    (h : appendToFilter s idx p = .ok s') : s'.lastWills = s.lastWills ∧ s'.conns = s.conns := by
  unfold appendToFilter at h
  split at h
  · simp at h
  · simp only [Except.ok.injEq] at h
    subst h
    split <;> exact ⟨rfl, rfl⟩

theorem appendToFilters_lastWills : ∀ (idxs : List Nat) {s s' : RState} {p : Pub},
    appendToFilters s idxs p = .ok s' → s'.lastWills = s.lastWills ∧ s'.conns = s.conns
  | [], s, s', p, h => by simp only [appendToFilters, Except.ok.injEq] at h; subst h; exact ⟨rfl, rfl⟩
  | i :: is, s, s', p, h => by
    simp only [appendToFilters] at h
    split at h
    · simp at h
    · rename_i s1 h1
      have a := appendToFilter_lastWills h1
      have b := appendToFilters_lastWills is h
      exact ⟨b.1.trans a.1, b.2.trans a.2⟩

theorem track_lastWills {s s' : RState} {id : Nat} {r : DataRequest}
    (h : track s id r = .ok s') : s'.lastWills = s.lastWills := by
  unfold track at h
  split at h
  · simp at h
  · simp only [Except.ok.injEq] at h; subst h; rfl

theorem reschedule_lastWills {s s' : RState} {id : Nat} {r : SchedReason}
    (h : reschedule s id r = .ok s') : s'.lastWills = s.lastWills := by
  unfold reschedule at h
  split at h
  · simp at h
  · split at h
    · simp at h
    · simp only [Except.ok.injEq] at h; subst h; split <;> rfl

theorem drainNotifications_lastWills : ∀ (ns : List (Nat × DataRequest)) {s s' : RState},
    drainNotifications s ns = .ok s' → s'.lastWills = s.lastWills
  | [], s, s', h => by simp only [drainNotifications, Except.ok.injEq] at h; subst h; rfl
  | (id, r) :: rest, s, s', h => by
    simp only [drainNotifications] at h
    split at h
    · simp at h
    · rename_i s1 h1
      split at h
      · simp at h
      · rename_i s2 h2
        have := drainNotifications_lastWills rest h
        rw [this, reschedule_lastWills h2, track_lastWills h1]

end Router
