/-
`CursorSound` through the primitive operations: the relation `CStep s s' X` ("`s'` holds no request,
window cursor, saved session or group cursor that `s` did not hold, except the requests in `X`").
-/
import Proofs.Lemmas.Router.Rp5_Cursor
import Proofs.Lemmas.Router.Rp4_Session
namespace Router
namespace Rp3
open CommitLog (Rep logC Issued SegMono)

structure CStep (s s' : RState) (X : DataRequest → Prop) : Prop where
  mono : LogMono s.datalog s'.datalog
  req : ∀ r, allReqs s' r → allReqs s r ∨ X r
  win : ∀ fi cur, allWin s' fi cur → allWin s fi cur
  grv : ∀ p ∈ s'.graveyard, p ∈ s.graveyard
  grp : ∀ p ∈ s'.shared, ∃ q ∈ s.shared, q.1 = p.1 ∧ q.2.cursor = p.2.cursor

def noReq : DataRequest → Prop := fun _ => False

theorem CStep.refl (s : RState) : CStep s s noReq :=
  ⟨LogMono.refl _, fun _ h => .inl h, fun _ _ h => h, fun _ h => h, fun p h => ⟨p, h, rfl, rfl⟩⟩

theorem CStep.trans {a b c : RState} {X Y : DataRequest → Prop} (h1 : CStep a b X) (h2 : CStep b c Y) :
    CStep a c (fun r => X r ∨ Y r) :=
  ⟨h1.mono.trans h2.mono,
   fun r hr => by
    rcases h2.req r hr with h | h
    · rcases h1.req r h with h' | h'
      · exact .inl h'
      · exact .inr (.inl h')
    · exact .inr (.inr h),
   fun fi cur h => h1.win fi cur (h2.win fi cur h),
   fun p h => h1.grv p (h2.grv p h),
   fun p h => by
    obtain ⟨q, hq, e1, e2⟩ := h2.grp p h
    obtain ⟨q', hq', e1', e2'⟩ := h1.grp q hq
    exact ⟨q', hq', e1'.trans e1, e2'.trans e2⟩⟩

theorem CStep.weaken {s s' : RState} {X Y : DataRequest → Prop} (h : CStep s s' X) (hxy : ∀ r, X r → Y r) : CStep s s' Y :=
  ⟨h.mono, fun r hr => (h.req r hr).imp id (hxy r), h.win, h.grv, h.grp⟩

theorem CStep.nn {a b c : RState} (h1 : CStep a b noReq) (h2 : CStep b c noReq) : CStep a c noReq :=
  (h1.trans h2).weaken fun _ h => h.elim id id

/-- the invariant along a step whose new requests are sound -/
theorem CS.step {s s' : RState} {X : DataRequest → Prop} (h : CS s) (m : CStep s s' X)
    (hx : ∀ r, X r → allReqs s r ∨ ReqOK s'.datalog r) : CS s' :=
  h.transfer m.mono
    (fun r hr => by
      rcases m.req r hr with h1 | h1
      · exact .inl h1
      · exact hx r h1)
    (fun fi cur hw => .inl (m.win fi cur hw))
    (fun p hp ss hss r hr => .inl ⟨p, m.grv p hp, ss, hss, hr⟩)
    (fun p hp => .inl (m.grp p hp))

theorem CS.step0 {s s' : RState} (h : CS s) (m : CStep s s' noReq) : CS s' := h.step m fun _ hx => hx.elim

/-! ### frames -/

theorem allReqs_of_parts {s s' : RState} {X : DataRequest → Prop}
    (ht : ∀ id c', getConn s' id = some c' → ∃ c, getConn s id = some c ∧ ∀ r ∈ c'.tracker.requests, r ∈ c.tracker.requests ∨ X r)
    (hw : ∀ fd' ∈ s'.datalog.native, ∀ w ∈ fd'.waiters, (∃ fd ∈ s.datalog.native, w ∈ fd.waiters) ∨ w ∈ s.notifications ∨ X w.2)
    (hn : ∀ n ∈ s'.notifications, n ∈ s.notifications ∨ (∃ fd ∈ s.datalog.native, n ∈ fd.waiters) ∨ X n.2) :
    ∀ r, allReqs s' r → allReqs s r ∨ X r := by
  intro r hr
  rcases hr with ⟨id, c', hc', hm⟩ | ⟨fd', hfd', w, hw', rfl⟩ | ⟨n, hn', rfl⟩
  · obtain ⟨c, hc, hsub⟩ := ht id c' hc'
    rcases hsub r hm with h | h
    · exact .inl (.inl ⟨id, c, hc, h⟩)
    · exact .inr h
  · rcases hw fd' hfd' w hw' with ⟨fd, hfd, h⟩ | h | h
    · exact .inl (.inr (.inl ⟨fd, hfd, w, h, rfl⟩))
    · exact .inl (.inr (.inr ⟨w, h, rfl⟩))
    · exact .inr h
  · rcases hn n hn' with h | ⟨fd, hfd, h⟩ | h
    · exact .inl (.inr (.inr ⟨n, h, rfl⟩))
    · exact .inl (.inr (.inl ⟨fd, hfd, n, h, rfl⟩))
    · exact .inr h

/-- nothing the invariant reads changes, except possibly other fields of the connections -/
theorem CStep.of_view {s s' : RState}
    (hc : ∀ id c', getConn s' id = some c' → ∃ c, getConn s id = some c ∧ c'.tracker.requests = c.tracker.requests ∧ c'.out = c.out)
    (hd : s'.datalog = s.datalog) (hn : s'.notifications = s.notifications) (hg : s'.graveyard = s.graveyard)
    (hs : s'.shared = s.shared) : CStep s s' noReq := by
  refine ⟨by rw [hd]; exact LogMono.refl _, ?_, ?_, by rw [hg]; exact fun _ h => h,
    by rw [hs]; exact fun p h => ⟨p, h, rfl, rfl⟩⟩
  · refine allReqs_of_parts (fun id c' hc' => ?_) (fun fd' hfd' w hw => ?_) (fun n hn' => ?_)
    · obtain ⟨c, h1, h2, _⟩ := hc id c' hc'
      exact ⟨c, h1, fun r hr => .inl (h2 ▸ hr)⟩
    · rw [hd] at hfd'; exact .inl ⟨fd', hfd', hw⟩
    · rw [hn] at hn'; exact .inl hn'
  · rintro fi cur ⟨id, c', hc', e, he, h1, h2⟩
    obtain ⟨c, g1, _, g3⟩ := hc id c' hc'
    exact ⟨id, c, g1, e, g3 ▸ he, h1, h2⟩

theorem CStep.of_conns {s s' : RState} (hc : s'.conns = s.conns)
    (hd : s'.datalog = s.datalog) (hn : s'.notifications = s.notifications) (hg : s'.graveyard = s.graveyard)
    (hs : s'.shared = s.shared) : CStep s s' noReq :=
  CStep.of_view (fun id c' h => ⟨c', by unfold getConn at h ⊢; rw [← hc]; exact h, rfl, rfl⟩) hd hn hg hs

/-- a live connection replaced -/
theorem CStep.of_set {s s' : RState} {X : DataRequest → Prop} {id : Nat} {c c' : Conn} (hc : getConn s id = some c)
    (hconns : s'.conns = s.conns.set id c')
    (hr : ∀ r ∈ c'.tracker.requests, r ∈ c.tracker.requests ∨ X r)
    (hw : ∀ e ∈ c'.out.inflight, ∀ cur, e.2.2 = some cur → ∃ e0 ∈ c.out.inflight, e0.2.1 = e.2.1 ∧ e0.2.2 = some cur)
    (hd : s'.datalog = s.datalog) (hn : s'.notifications = s.notifications) (hg : s'.graveyard = s.graveyard)
    (hs : s'.shared = s.shared) : CStep s s' X := by
  have hget : ∀ j, getConn s' j = if j = id then some c' else getConn s j := fun j => by
    unfold getConn; rw [hconns]; exact Slab.get?_set_live hc j c'
  refine ⟨by rw [hd]; exact LogMono.refl _, ?_, ?_, by rw [hg]; exact fun _ h => h,
    by rw [hs]; exact fun p h => ⟨p, h, rfl, rfl⟩⟩
  · refine allReqs_of_parts (fun j d hd' => ?_) (fun fd' hfd' w hw' => ?_) (fun n hn' => ?_)
    · rw [hget] at hd'
      by_cases hj : j = id
      · subst hj; simp only [if_true, Option.some.injEq] at hd'; subst hd'
        exact ⟨c, hc, hr⟩
      · simp only [hj, if_false] at hd'
        exact ⟨d, hd', fun r h => .inl h⟩
    · rw [hd] at hfd'; exact .inl ⟨fd', hfd', hw'⟩
    · rw [hn] at hn'; exact .inl hn'
  · rintro fi cur ⟨j, d, hd', e, he, h1, h2⟩
    rw [hget] at hd'
    by_cases hj : j = id
    · subst hj; simp only [if_true, Option.some.injEq] at hd'; subst hd'
      obtain ⟨e0, he0, a, b⟩ := hw e he cur h2
      exact ⟨j, c, hc, e0, he0, a.trans h1, b⟩
    · simp only [hj, if_false] at hd'
      exact ⟨j, d, hd', e, he, h1, h2⟩

/-- a live connection replaced, tracker requests and window kept -/
theorem CStep.of_set_same {s s' : RState} {id : Nat} {c c' : Conn} (hc : getConn s id = some c)
    (hconns : s'.conns = s.conns.set id c') (hr : c'.tracker.requests = c.tracker.requests) (hw : c'.out.inflight = c.out.inflight)
    (hd : s'.datalog = s.datalog) (hn : s'.notifications = s.notifications) (hg : s'.graveyard = s.graveyard)
    (hs : s'.shared = s.shared) : CStep s s' noReq :=
  CStep.of_set hc hconns (fun r h => .inl (hr ▸ h)) (fun e he cur h => ⟨e, hw ▸ he, rfl, h⟩) hd hn hg hs

/-! ### scheduler -/

theorem reschedule_cstep {s s' : RState} {id : Nat} {r : SchedReason} (h : reschedule s id r = .ok s') :
    CStep s s' noReq := by
  unfold reschedule at h
  split at h
  · simp at h
  · rename_i c hc
    split at h
    · simp at h
    · rename_i t woke ht
      simp only [Except.ok.injEq] at h; subst h
      have e := (tryReady_fields ht).1
      split
      · exact CStep.of_set_same (c' := { c with tracker := t }) hc rfl e rfl rfl rfl rfl rfl
      · exact CStep.of_set_same (c' := { c with tracker := t }) hc rfl e rfl rfl rfl rfl rfl

theorem track_cstep {s s' : RState} {id : Nat} {r : DataRequest} (h : track s id r = .ok s') :
    CStep s s' (fun q => q = r) := by
  unfold track at h
  split at h
  · simp at h
  · rename_i c hc
    simp only [Except.ok.injEq] at h; subst h
    refine CStep.of_set (c' := { c with tracker := { c.tracker with requests := c.tracker.requests ++ [r] } }) hc rfl
      (fun q hq => ?_) (fun e he cur h => ⟨e, he, rfl, h⟩) rfl rfl rfl rfl
    rcases List.mem_append.mp hq with h | h
    · exact .inl h
    · exact .inr (by simpa using h)

theorem trackv_cstep {s s' : RState} {id : Nat} {rs : List DataRequest} (h : trackv s id rs = .ok s') :
    CStep s s' (fun q => q ∈ rs) := by
  unfold trackv at h
  split at h
  · simp at h
  · rename_i c hc
    simp only [Except.ok.injEq] at h; subst h
    refine CStep.of_set (c' := { c with tracker := { c.tracker with requests := c.tracker.requests ++ rs } }) hc rfl
      (fun q hq => ?_) (fun e he cur h => ⟨e, he, rfl, h⟩) rfl rfl rfl rfl
    exact List.mem_append.mp hq

theorem pause_cstep {s s' : RState} {id : Nat} {r : PauseReason} (h : pause s id r = .ok s') : CStep s s' noReq := by
  unfold pause at h
  split at h
  · simp at h
  · split at h
    · simp at h
    · rename_i c hc
      simp only [Except.ok.injEq] at h; subst h
      have hc' : getConn s id = some c := hc
      exact CStep.of_set_same (c' := { c with tracker := { c.tracker with status := .paused r } }) hc' rfl rfl rfl rfl rfl rfl rfl

theorem commitAck_cstep {s s' : RState} {id : Nat} {a : Ack} (h : commitAck s id a = .ok s') : CStep s s' noReq := by
  unfold commitAck at h
  split at h
  · simp at h
  · rename_i c hc
    simp only [Except.ok.injEq] at h; subst h
    exact CStep.of_set_same (c' := { c with acks := _ }) hc rfl rfl rfl rfl rfl rfl rfl

theorem ackDeviceData_cstep (s : RState) (id : Nat) : CStep s (ackDeviceData s id) noReq := by
  unfold ackDeviceData
  split
  · exact CStep.refl s
  · rename_i c hc
    split
    · exact CStep.refl s
    · exact CStep.of_set_same (c' := { c with acks := _ }) hc rfl rfl rfl rfl rfl rfl rfl

/-! ### datalog -/

/-- only waiter lists and `notifications` change: every parked / notified request of `s'` was parked
    or notified in `s`, or is in `X` -/
theorem CStep.of_waiters {s s' : RState} {X : DataRequest → Prop} (hc : s'.conns = s.conns)
    (hm : LogMono s.datalog s'.datalog)
    (hw : ∀ fd' ∈ s'.datalog.native, ∀ w ∈ fd'.waiters, (∃ fd ∈ s.datalog.native, w ∈ fd.waiters) ∨ w ∈ s.notifications ∨ X w.2)
    (hn : ∀ n ∈ s'.notifications, n ∈ s.notifications ∨ (∃ fd ∈ s.datalog.native, n ∈ fd.waiters) ∨ X n.2)
    (hg : s'.graveyard = s.graveyard) (hs : s'.shared = s.shared) : CStep s s' X := by
  have hget : ∀ j, getConn s' j = getConn s j := fun j => by unfold getConn; rw [hc]
  refine ⟨hm, allReqs_of_parts (fun id c' h => ⟨c', by rw [← hget]; exact h, fun r hr => .inl hr⟩) hw hn, ?_,
    by rw [hg]; exact fun _ h => h, by rw [hs]; exact fun p h => ⟨p, h, rfl, rfl⟩⟩
  rintro fi cur ⟨id, c, hc', rest⟩
  exact ⟨id, c, by rw [← hget]; exact hc', rest⟩

theorem LogMono.set_waiters {d : DataLog} {i : Nat} {fd : FilterData} (hfd : d.native[i]? = some fd)
    (ws : List (Nat × DataRequest)) : LogMono d { d with native := d.native.set i { fd with waiters := ws } } := by
  refine LogMono.of_eq ?_ rfl
  simp only [List.map_set]
  apply List.ext_getElem?
  intro j
  rw [List.getElem?_set]
  split
  · rename_i e; subst e
    simp only [List.length_map, List.getElem?_map, hfd, Option.map_some]
    split
    · rfl
    · rename_i hlt
      have : d.native[i]? = none := List.getElem?_eq_none (by omega)
      rw [this] at hfd; cases hfd
  · rfl

theorem park_cstep {s s' : RState} {id : Nat} {r : DataRequest} (h : park s id r = .ok s') :
    CStep s s' (fun q => q = r) := by
  unfold park at h
  split at h
  · simp at h
  · rename_i fd hfd
    simp only [Except.ok.injEq] at h; subst h
    refine CStep.of_waiters rfl (LogMono.set_waiters hfd _) (fun fd' hfd' w hw => ?_) (fun n hn => .inl hn) rfl rfl
    rcases List.mem_or_eq_of_mem_set hfd' with hm | rfl
    · exact .inl ⟨fd', hm, hw⟩
    · rcases List.mem_append.mp hw with hw | hw
      · exact .inl ⟨fd, List.mem_of_getElem? hfd, hw⟩
      · simp only [List.mem_singleton] at hw; subst hw; exact .inr (.inr rfl)

theorem clearWaiters_cstep {s : RState} {i : Nat} {fd : FilterData} (hfd : s.datalog.native[i]? = some fd) :
    CStep s (clearWaiters s i fd) noReq := by
  refine CStep.of_waiters rfl (LogMono.set_waiters hfd _) (fun fd' hfd' w hw => ?_) (fun n hn => .inl hn) rfl rfl
  rcases List.mem_or_eq_of_mem_set hfd' with hm | rfl
  · exact .inl ⟨fd', hm, hw⟩
  · simp at hw

/-- `Data::append`: the log grows (issued cursors stay issued), the waiters move to `notifications` -/
theorem appendToFilter_cstep {s s' : RState} {idx : Nat} {p : Pub} (hi : DLInv s)
    (h : appendToFilter s idx p = .ok s') : CStep s s' noReq := by
  unfold appendToFilter at h
  split at h
  · simp at h
  · rename_i fd hfd
    simp only [Except.ok.injEq] at h
    have hc : s'.conns = s.conns := by rw [← h]; split <;> rfl
    have hnat : s'.datalog.native = s.datalog.native.set idx
        { fd with log := (fd.log.append p (pubSize p)).1, waiters := [] } := by rw [← h]; split <;> rfl
    have hf : s'.datalog.filterIndexes = s.datalog.filterIndexes := by rw [← h]; split <;> rfl
    have hg : s'.graveyard = s.graveyard := by rw [← h]; split <;> rfl
    have hs : s'.shared = s.shared := by rw [← h]; split <;> rfl
    have hn : s'.notifications = s.notifications ++ fd.waiters := by rw [← h]; split <;> rfl
    obtain ⟨hist, hrep⟩ := hi.logs fd.log (List.mem_map.mpr ⟨fd, List.mem_of_getElem? hfd, rfl⟩)
    have hm : LogMono s.datalog s'.datalog := by
      refine ⟨fun i fd0 h0 => ?_, fun f i h0 => by unfold DataLog.filterIdx? at h0 ⊢; rw [hf]; exact h0⟩
      rw [hnat, List.getElem?_set]
      by_cases e : idx = i
      · subst e
        have hlt : idx < s.datalog.native.length := by
          by_cases hl : idx < s.datalog.native.length
          · exact hl
          · rw [List.getElem?_eq_none (by omega)] at hfd; cases hfd
        rw [hfd] at h0; cases h0
        refine ⟨{ fd with log := (fd.log.append p (pubSize p)).1, waiters := [] }, by simp [hlt], ?_⟩
        obtain ⟨l', h1, hrep', hmm, _⟩ := CommitLog.append_rep (logC fd.log) hist hrep p (pubSize p)
        rw [CommitLog.append_bridge fd.log hrep.wf] at h1
        have e := (Prod.mk.inj (Except.ok.inj h1)).1
        rw [← e] at hmm hrep'
        refine ⟨hmm, ?_⟩
        rw [hrep.nextAbs_eq, hrep'.nextAbs_eq]; simp
      · simp only [e, if_false]; exact ⟨fd0, h0, SegMono.refl _, Nat.le_refl _⟩
    refine CStep.of_waiters hc hm (fun fd' hfd' w hw => ?_) (fun n hn' => ?_) hg hs
    · rw [hnat] at hfd'
      rcases List.mem_or_eq_of_mem_set hfd' with hm' | rfl
      · exact .inl ⟨fd', hm', hw⟩
      · simp at hw
    · rw [hn] at hn'
      rcases List.mem_append.mp hn' with h1 | h1
      · exact .inl h1
      · exact .inr (.inl ⟨fd, List.mem_of_getElem? hfd, h1⟩)

end Rp3
end Router
