/-
Runs of the router model and reachable states (used by the C01 / C17 / C08 delivery theorems).

`run s ops` folds `step` over a list of `(op, oracle choices)`: before each op the oracle is set
to the choices recorded for that op (exactly what the differential driver does), the run stops at
the first `.error`. `Reachable cfg s`: `s` is the state after some run from `init cfg`.
-/
import Proofs.Lemmas.Router.Reach
namespace Router
namespace Rp3

-- `run` and `Reachable` are the shared definitions of Proofs/Lemmas/Router/Reach.lean

theorem run_append (s : RState) (a b : List (Op × List Choice)) :
    run s (a ++ b) = match run s a with | .error e => .error e | .ok s' => run s' b := by
  induction a generalizing s with
  | nil => rfl
  | cons x xs ih =>
    obtain ⟨op, ch⟩ := x
    simp only [List.cons_append, run]
    cases step { s with oracle := ch } op with
    | error e => rfl
    | ok r => exact ih r.1

/-- invariants of runs: a property of the start state that every successful step preserves
    (whatever the oracle holds) is true after the run -/
theorem run_induction (P : RState → Prop)
    (hstep : ∀ s ch op s' o, P s → step { s with oracle := ch } op = .ok (s', o) → P s') :
    ∀ (ops : List (Op × List Choice)) (s s' : RState), P s → run s ops = .ok s' → P s'
  | [], s, s', h, hr => by simp only [run, Except.ok.injEq] at hr; subst hr; exact h
  | (op, ch) :: rest, s, s', h, hr => by
    simp only [run] at hr
    split at hr
    · simp at hr
    · rename_i s1 o hs
      exact run_induction P hstep rest s1 s' (hstep s ch op s1 o h hs) hr

theorem Reachable.induction {cfg : Config} (P : RState → Prop) (h0 : P (init cfg))
    (hstep : ∀ s ch op s' o, P s → step { s with oracle := ch } op = .ok (s', o) → P s')
    {s : RState} (hr : Reachable cfg s) : P s := by
  obtain ⟨ops, h⟩ := hr
  exact run_induction P hstep ops _ _ h0 h

theorem Reachable.init (cfg : Config) : Reachable cfg (init cfg) := ⟨[], rfl⟩

theorem Reachable.step {cfg : Config} {s s' : RState} {ch : List Choice} {op : Op} {o : Out}
    (hr : Reachable cfg s) (h : Router.step { s with oracle := ch } op = .ok (s', o)) :
    Reachable cfg s' := by
  obtain ⟨ops, hops⟩ := hr
  refine ⟨ops ++ [(op, ch)], ?_⟩
  rw [run_append, hops]
  simp [run, h]

end Rp3
end Router
