/-
C08 — frame over `step`: while client `X` has no live connection, every op other than a CONNECT
of `X` leaves `X`'s graveyard entry untouched, does not create a connection for `X` and does not
put `X` into the connection map. Most functions do not touch the part of the state this reads
(`gkey` = graveyard, connection map, client ids of the slab entries).
-/
import Proofs.Lemmas.Router.Rp3_Clean
namespace Router
namespace Rp3

/-- the part of the state the graveyard frame reads -/
def gkey (s : RState) : List (String × Option SessionState) × List (String × Nat) × List (Option String) :=
  (s.graveyard, s.connectionMap, cids s.conns)

theorem cids_set (sl : Slab Conn) (id : Nat) (c c' : Conn) (h : sl.get? id = some c) (e : c'.clientId = c.clientId) :
    cids (sl.set id c') = cids sl := by
  unfold cids Slab.set
  simp only [List.map_set]
  unfold Slab.get? at h
  apply List.ext_getElem?
  intro j
  by_cases hj : id = j
  · subst hj
    cases hg : sl.entries[id]? with
    | none => simp [hg] at h
    | some oc =>
      obtain ⟨hl, hv⟩ := List.getElem?_eq_some_iff.mp hg
      simp only [hg, Option.bind_some] at h
      have h' : oc = some c := h
      simp [hl, hv, h', e]
  · simp [hj]

theorem gkey_setConn {s : RState} {id : Nat} {c c' : Conn} (h : getConn s id = some c) (e : c'.clientId = c.clientId) :
    gkey (setConn s id c') = gkey s := by
  unfold gkey setConn
  simp only []
  rw [cids_set _ _ _ _ h e]

@[simp] theorem gkey_g (s : RState) (e : Ghost) : gkey (s.g e) = gkey s := rfl
@[simp] theorem gkey_setLink (s : RState) (l : Nat) (b : LinkBuf) : gkey (setLink s l b) = gkey s := rfl
@[simp] theorem gkey_pushNotifs (s : RState) (l : Nat) (ns : List Notif) : gkey (pushNotifs s l ns) = gkey s := rfl
@[simp] theorem gkey_wakeLink (s : RState) (l : Nat) : gkey (wakeLink s l) = gkey s := rfl

theorem reschedule_gkey {s s' : RState} {id : Nat} {r : SchedReason}
    (h : reschedule s id r = .ok s') : gkey s' = gkey s := by
  obtain ⟨c, t, woke, hc, _, rfl⟩ := reschedule_ok h
  split
  · exact gkey_setConn (c := c) hc rfl
  · exact gkey_setConn (c := c) hc rfl

theorem track_gkey {s s' : RState} {id : Nat} {r : DataRequest}
    (h : track s id r = .ok s') : gkey s' = gkey s := by
  unfold track at h
  split at h
  · simp at h
  · rename_i c hc
    simp only [Except.ok.injEq] at h; subst h; exact gkey_setConn hc rfl

theorem trackv_gkey {s s' : RState} {id : Nat} {rs : List DataRequest}
    (h : trackv s id rs = .ok s') : gkey s' = gkey s := by
  unfold trackv at h
  split at h
  · simp at h
  · rename_i c hc
    simp only [Except.ok.injEq] at h; subst h; exact gkey_setConn hc rfl

theorem commitAck_gkey {s s' : RState} {id : Nat} {a : Ack}
    (h : commitAck s id a = .ok s') : gkey s' = gkey s := by
  unfold commitAck at h
  split at h
  · simp at h
  · rename_i c hc
    simp only [Except.ok.injEq] at h; subst h; exact gkey_setConn hc rfl

theorem updateRetained_gkey (s : RState) (topic : String) (p : Pub) : gkey (updateRetained s topic p) = gkey s := by
  unfold updateRetained
  simp only []
  split
  · rfl
  · split <;> rfl

theorem pause_gkey {s s' : RState} {id : Nat} {r : PauseReason}
    (h : pause s id r = .ok s') : gkey s' = gkey s := by
  unfold pause at h
  split at h
  · simp at h
  · split at h
    · simp at h
    · rename_i c hc
      simp only [Except.ok.injEq] at h; subst h
      exact gkey_setConn (s := { s with readyqueue := s.readyqueue.dropLast }) hc rfl

theorem park_gkey {s s' : RState} {id : Nat} {r : DataRequest}
    (h : park s id r = .ok s') : gkey s' = gkey s := by
  obtain ⟨_, _, _, _, e⟩ := park_spec h
  rw [e]; rfl

theorem ackDeviceData_gkey (s : RState) (id : Nat) : gkey (ackDeviceData s id) = gkey s := by
  unfold ackDeviceData
  split
  · rfl
  · rename_i c hc
    split
    · rfl
    · exact gkey_setConn (s := wakeLink (pushNotifs s c.link _) c.link) hc rfl

theorem gkey_congr {s1 s2 : RState} (h1 : s1.graveyard = s2.graveyard) (h2 : s1.connectionMap = s2.connectionMap)
    (h3 : s1.conns = s2.conns) : gkey s1 = gkey s2 := by
  unfold gkey; rw [h1, h2, h3]

theorem gkey_of_only_oracle {s s' : RState} (h : s' = { s with oracle := s'.oracle }) : gkey s' = gkey s := by
  rw [h]; rfl

theorem sweepAdvance_gkey {s s' : RState} {req : DataRequest} {grp : Option SharedGroup}
    (h : sweepAdvance s req grp = .ok s') : gkey s' = gkey s := by
  rw [sweepAdvance_only h]; rfl

theorem sweepPush_gkey {s s' : RState} {id : Nat} {c : Conn} {req req' : DataRequest} {grp : Option SharedGroup}
    {pubs : List (Pub × Option Cursor)} {cu : Bool} {st : ConsumeStatus} (hc : getConn s id = some c)
    (h : sweepPush s id c req grp pubs cu = .ok (s', req', st)) : gkey s' = gkey s := by
  obtain ⟨_, s2, hadv, hfin⟩ := sweepPush_spec h
  have e2 := sweepAdvance_gkey hadv
  rw [gkey_pushNotifs] at e2
  replace e2 : gkey s2 = gkey s := e2.trans (gkey_setConn hc rfl)
  rcases hfin with ⟨_, _, rfl⟩ | ⟨_, _, rfl⟩
  · rw [gkey_wakeLink, gkey_pushNotifs, e2]
  · rw [gkey_wakeLink, e2]

theorem sweepRead_gkey {s s' : RState} {id : Nat} {c : Conn} {req req' : DataRequest} {grp : Option SharedGroup}
    {rp : List (Pub × Option Cursor)} {slots : Nat} {st : ConsumeStatus} (hc : getConn s id = some c)
    (h : sweepRead s id c req grp rp slots = .ok (s', req', st)) : gkey s' = gkey s := by
  obtain ⟨fd, _, hcase⟩ := sweepRead_cases h
  rcases hcase with ⟨_, rfl, _⟩ | ⟨_, _, rfl, _⟩ | ⟨_, _, hp⟩
  · rfl
  · rfl
  · exact sweepPush_gkey hc hp

theorem forwardDeviceData_gkey {s s' : RState} {id : Nat} {req req' : DataRequest} {st : ConsumeStatus}
    (h : forwardDeviceData s id req = .ok (s', req', st)) : gkey s' = gkey s := by
  cases hc : getConn s id with
  | none => rw [forwardDeviceData_eq, hc] at h; simp at h
  | some c =>
    rcases forwardDeviceData_cases hc h with ⟨_, _, rfl, _⟩ | ⟨_, s1, rp, slots', hr, hrd⟩
    · rfl
    · have ho := sweepRetained_only_oracle hr
      have hc1 : getConn s1 id = some c := by rw [ho]; exact hc
      rw [sweepRead_gkey hc1 hrd, gkey_of_only_oracle ho]

theorem wakeParked_gkey {s s' : RState} {logs : List Nat} (h : wakeParked s logs = .ok s') : gkey s' = gkey s := by
  have wf := wakeParked_wakeFrame h
  simp only [gkey, wf.graveyard, wf.cmap, cids_of_shape (wakeParked_shape h)]

theorem wakeTurnMoved_gkey {s s' : RState} (h : wakeTurnMoved s = .ok s') : gkey s' = gkey s :=
  (wakeParked_gkey (s := { s with turnMoved := [] }) h).trans rfl

theorem noteTurn_gkey (s0 s1 : RState) (req : DataRequest) : gkey (noteTurn s0 s1 req) = gkey s1 := by
  obtain ⟨tm, e⟩ := noteTurn_eq s0 s1 req
  rw [e]; rfl

theorem consumeLoop_gkey : ∀ (fuel : Nat) {s s' : RState} {id : Nat} {reqs skipped : List DataRequest},
    consumeLoop s id fuel reqs skipped = .ok s' → gkey s' = gkey s
  | 0, s, s', id, reqs, skipped, h => by
    simp only [consumeLoop] at h; exact trackv_gkey h
  | fuel + 1, s, s', id, [], skipped, h => by
    simp only [consumeLoop] at h
    split at h
    · simp at h
    · rename_i s1 hp
      rw [trackv_gkey h]
      split at hp
      · exact pause_gkey hp
      · simp only [Except.ok.injEq] at hp; subst hp; rfl
  | fuel + 1, s, s', id, req :: rest, skipped, h => by
    simp only [consumeLoop] at h
    split at h
    · simp at h
    · rename_i s1 req1 st hf
      have e1 : gkey (noteTurn s s1 req1) = gkey s := (noteTurn_gkey s s1 req1).trans (forwardDeviceData_gkey hf)
      split at h
      · split at h
        · simp at h
        · rename_i s2 hp; rw [trackv_gkey h, pause_gkey hp, e1]
      · split at h
        · simp at h
        · rename_i s2 hp; rw [trackv_gkey h, pause_gkey hp, e1]
      · split at h
        · simp at h
        · rename_i s2 hp; rw [consumeLoop_gkey fuel h, park_gkey hp, e1]
      · rw [consumeLoop_gkey fuel h, e1]
      · rw [consumeLoop_gkey fuel h, e1]

theorem consume_gkey {s s' : RState} {b : Bool} (h : consume s = .ok (s', b)) : gkey s' = gkey s := by
  unfold consume at h
  split at h
  · simp only [Except.ok.injEq, Prod.mk.injEq] at h; obtain ⟨rfl, _⟩ := h; rfl
  · simp only [] at h
    split at h
    · simp only [Except.ok.injEq, Prod.mk.injEq] at h; obtain ⟨rfl, _⟩ := h; rfl
    · rename_i c hc
      split at h
      · simp at h
      · rename_i s1 hl
        split at h
        · simp at h
        rename_i s2 hw
        simp only [Except.ok.injEq, Prod.mk.injEq] at h; obtain ⟨rfl, _⟩ := h
        rw [wakeTurnMoved_gkey hw, consumeLoop_gkey _ hl, ackDeviceData_gkey]
        exact (gkey_congr (s2 := setConn s _ _) rfl rfl rfl).trans (gkey_setConn (s := s) hc rfl)

theorem handleShadow_gkey {s s' : RState} {id : Nat} {f : String} (h : handleShadow s id f = .ok s') :
    gkey s' = gkey s := by
  unfold handleShadow at h
  repeat' (split at h)
  all_goals first
    | (simp at h; done)
    | (simp only [Except.ok.injEq] at h; subst h
       first | rfl | (simp only [gkey_wakeLink]; split <;> rfl))

theorem drainNotifications_gkey : ∀ (ns : List (Nat × DataRequest)) {s s' : RState},
    drainNotifications s ns = .ok s' → gkey s' = gkey s
  | [], s, s', h => by simp only [drainNotifications, Except.ok.injEq] at h; subst h; rfl
  | (id, r) :: rest, s, s', h => by
    simp only [drainNotifications] at h
    split at h
    · simp at h
    · rename_i s1 h1
      split at h
      · simp at h
      · rename_i s2 h2
        rw [drainNotifications_gkey rest h, reschedule_gkey h2, track_gkey h1]

theorem appendToFilters_gkey {s s' : RState} {v : List Nat} {p : Pub} (h : appendToFilters s v p = .ok s') :
    gkey s' = gkey s := by
  induction v generalizing s with
  | nil => simp only [appendToFilters, Except.ok.injEq] at h; subst h; rfl
  | cons i r ih =>
    simp only [appendToFilters] at h
    split at h
    · simp at h
    · rename_i s1 h1
      obtain ⟨_, _, _, _, hst, _⟩ := appendToFilter_ok h1
      rw [ih h]
      unfold gkey
      rw [show s1.graveyard = s.graveyard from by have := congrArg State.graveyard hst; simpa using this,
        show s1.connectionMap = s.connectionMap from by have := congrArg State.connectionMap hst; simpa using this,
        show s1.conns = s.conns from by have := congrArg State.conns hst; simpa using this]

theorem deliver_gkey {s s' : RState} {topic : String} {p : Pub} (h : deliver s topic p = .ok s') :
    gkey s' = gkey s := by
  unfold deliver at h
  split at h
  · simp at h
  · rename_i s1 idxs hm
    rw [appendToFilters_gkey h, dlMatches_only hm]; rfl

theorem resolveAlias_gkey {s s1 : RState} {id : Nat} {c : Conn} {a : Option Nat} {p p1 : Pub}
    (hc : getConn s id = some c) (h : resolveAlias s id c a p = .ok (s1, p1)) : gkey s1 = gkey s := by
  unfold resolveAlias at h
  repeat' (split at h)
  all_goals first
    | (simp at h; done)
    | (simp only [Except.ok.injEq, Prod.mk.injEq] at h; obtain ⟨rfl, _⟩ := h
       first | rfl | exact gkey_setConn hc rfl)

theorem appendToCommitlog_gkey {s s' : RState} {id : Nat} {p : Pub} {e : Option AppendErr}
    (h : appendToCommitlog s id p = .ok (s', e)) : gkey s' = gkey s := by
  rw [appendToCommitlog_eq] at h
  split at h
  · simp at h
  · rename_i c hc
    split at h
    · simp only [Except.ok.injEq, Prod.mk.injEq] at h; obtain ⟨rfl, _⟩ := h; rfl
    · split at h
      · simp only [Except.ok.injEq, Prod.mk.injEq] at h; obtain ⟨rfl, _⟩ := h; rfl
      · rename_i s1 p1 hr
        have e1 := resolveAlias_gkey hc hr
        split at h
        · simp only [Except.ok.injEq, Prod.mk.injEq] at h; obtain ⟨rfl, _⟩ := h; exact e1
        · split at h
          · simp at h
          · rename_i s2 hd
            simp only [Except.ok.injEq, Prod.mk.injEq] at h; obtain ⟨rfl, _⟩ := h
            rw [deliver_gkey hd, gkey_g, updateRetained_gkey, e1]

theorem gkey_setConn' {s : RState} {id : Nat} {c c' : Conn} (h : s.conns.get? id = some c) (e : c'.clientId = c.clientId) :
    gkey (setConn s id c') = gkey s := gkey_setConn h e

macro "gk_set" : tactic => `(tactic|
  first
    | rfl
    | (try simp only [getConn] at *
       try simp only [gkey_g, gkey_setLink, gkey_pushNotifs, gkey_wakeLink]
       first
        | rfl
        | exact gkey_setConn' (by assumption) (by rfl)
        | exact (gkey_setConn' (by assumption) (by rfl)).trans rfl))

theorem nextNativeOffset_gkey (s : RState) (f : String) : gkey (nextNativeOffset s f).1 = gkey s := by
  unfold nextNativeOffset
  split <;> rfl

theorem prepareFilter_gkey {s s' : RState} {id : Nat} {cursor : Cursor} {idx : Nat} {f : SubFilter}
    {group : Option String} {subId : Option Nat}
    (h : prepareFilter s id cursor idx f group subId = .ok s') : gkey s' = gkey s := by
  cases group <;> cases subId <;>
  · unfold prepareFilter at h
    simp only [] at h
    repeat' (split at h)
    all_goals first
      | (simp at h; done)
      | (simp only [Except.ok.injEq] at h; subst h
         first
          | gk_set
          | (rw [reschedule_gkey (by assumption), track_gkey (by assumption)]; gk_set))

theorem subscribeFilters_gkey : ∀ (fs : List SubFilter) {s s' : RState} {id : Nat} {subId : Option Nat}
    {codes codes' : List Nat} {fl fl' : Flags},
    subscribeFilters s id subId fs codes fl = .ok (s', codes', fl') → gkey s' = gkey s
  | [], s, s', id, subId, codes, codes', fl, fl', h => by
    simp only [subscribeFilters, Except.ok.injEq, Prod.mk.injEq] at h; obtain ⟨rfl, _⟩ := h; rfl
  | f :: rest, s, s', id, subId, codes, codes', fl, fl', h => by
    simp only [subscribeFilters] at h
    split at h
    · simp only [Except.ok.injEq, Prod.mk.injEq] at h; obtain ⟨rfl, _⟩ := h; rfl
    · split at h
      · simp only [Except.ok.injEq, Prod.mk.injEq] at h; obtain ⟨rfl, _⟩ := h; rfl
      · split at h
        · simp at h
        · rename_i s2 hp
          rw [subscribeFilters_gkey rest h, prepareFilter_gkey hp, nextNativeOffset_gkey]


theorem unsubscribeFilters_gkey : ∀ (fs : List String) {s s' : RState} {id : Nat} {rs rs' : List Bool},
    unsubscribeFilters s id fs rs = .ok (s', rs') → gkey s' = gkey s
  | [], s, s', id, rs, rs', h => by
    simp only [unsubscribeFilters, Except.ok.injEq, Prod.mk.injEq] at h; obtain ⟨rfl, _⟩ := h; rfl
  | f :: rest, s, s', id, rs, rs', h => by
    simp only [unsubscribeFilters] at h
    repeat' (split at h)
    all_goals first
      | (simp at h; done)
      | (refine Eq.trans (unsubscribeFilters_gkey rest h) ?_
         first
          | rfl
          | (try simp only [getConn] at *
             try simp only [gkey_g]
             refine Eq.trans (gkey_congr (s2 := setConn s id _) rfl rfl rfl) ?_
             exact gkey_setConn' (by assumption) (by rfl)))

theorem handlePacket_gkey {s s' : RState} {id : Nat} {cid : String} {pkt : Packet} {fl fl' : Flags}
    (h : handlePacket s id cid pkt fl = .ok (s', fl')) : gkey s' = gkey s := by
  cases pkt with
  | publish p =>
    simp only [handlePacket] at h
    generalize hpre : (if p.qos = 1 then
        match commitAck s id (.puback p.pkid) with
        | .error e => (.error e : M (RState × Flags × Bool))
        | .ok s => .ok (s, { fl with forceAck := true }, false)
      else if p.qos = 2 then
        match getConn s id with
        | none => .error (.panic "ackslog.get_mut(id).unwrap()")
        | some c =>
          let acks := { committed := c.acks.committed ++ [Ack.pubrec p.pkid], recorded := c.acks.recorded ++ [p] }
          .ok ((setConn s id { c with acks := acks }).g (.committed id (.pubrec p.pkid)), { fl with forceAck := true }, true)
      else .ok (s, fl, false)) = pre at h
    have hpre' : ∀ s1 fl1 b, pre = .ok (s1, fl1, b) → gkey s1 = gkey s := by
      intro s1 fl1 b he
      rw [he] at hpre
      repeat' (split at hpre)
      all_goals first
        | (simp at hpre; done)
        | (simp only [Except.ok.injEq, Prod.mk.injEq] at hpre; obtain ⟨rfl, _⟩ := hpre
           first | rfl | exact commitAck_gkey (by assumption) | gk_set)
    repeat' (split at h)
    all_goals first
      | (simp at h; done)
      | (simp only [Except.ok.injEq, Prod.mk.injEq] at h; obtain ⟨rfl, _⟩ := h
         first
          | exact hpre' _ _ _ rfl
          | (have a := appendToCommitlog_gkey (by assumption); exact a.trans (hpre' _ _ _ rfl)))
  | subscribe pkid subId filters =>
    simp only [handlePacket] at h
    repeat' (split at h)
    all_goals first
      | (simp at h; done)
      | (simp only [Except.ok.injEq, Prod.mk.injEq] at h; obtain ⟨rfl, _⟩ := h
         exact (commitAck_gkey (by assumption)).trans (subscribeFilters_gkey filters (by assumption)))
  | unsubscribe pkid filters =>
    simp only [handlePacket] at h
    repeat' (split at h)
    all_goals first
      | (simp at h; done)
      | (simp only [Except.ok.injEq, Prod.mk.injEq] at h; obtain ⟨rfl, _⟩ := h
         exact (commitAck_gkey (by assumption)).trans (unsubscribeFilters_gkey filters (by assumption)))
  | puback pkid =>
    simp only [handlePacket] at h
    repeat' (split at h)
    all_goals first
      | (simp at h; done)
      | (simp only [Except.ok.injEq, Prod.mk.injEq] at h; obtain ⟨rfl, _⟩ := h
         first
          | gk_set
          | (have e := reschedule_gkey (by assumption); refine e.trans ?_; gk_set))
  | pubrec pkid =>
    simp only [handlePacket] at h
    repeat' (split at h)
    all_goals first
      | (simp at h; done)
      | (simp only [Except.ok.injEq, Prod.mk.injEq] at h; obtain ⟨rfl, _⟩ := h
         first
          | gk_set
          | (have e := reschedule_gkey (by assumption); refine e.trans ?_; gk_set))
  | pubrel pkid hp =>
    simp only [handlePacket] at h
    repeat' (split at h)
    all_goals first
      | (simp at h; done)
      | (simp only [Except.ok.injEq, Prod.mk.injEq] at h; obtain ⟨rfl, _⟩ := h
         first
          | gk_set
          | (have e := reschedule_gkey (by assumption)
             have a := appendToCommitlog_gkey (by assumption)
             refine e.trans (a.trans ?_); gk_set)
          | (have a := appendToCommitlog_gkey (by assumption)
             refine a.trans ?_; gk_set))
  | pubcomp pkid =>
    simp only [handlePacket] at h
    repeat' (split at h)
    all_goals first
      | (simp at h; done)
      | (simp only [Except.ok.injEq, Prod.mk.injEq] at h; obtain ⟨rfl, _⟩ := h
         gk_set)
  | pingreq =>
    simp only [handlePacket] at h
    repeat' (split at h)
    all_goals first
      | (simp at h; done)
      | (simp only [Except.ok.injEq, Prod.mk.injEq] at h; obtain ⟨rfl, _⟩ := h
         exact commitAck_gkey (by assumption))
  | disconnect =>
    simp only [handlePacket, Except.ok.injEq, Prod.mk.injEq] at h; obtain ⟨rfl, _⟩ := h; rfl
  | other =>
    simp only [handlePacket, Except.ok.injEq, Prod.mk.injEq] at h; obtain ⟨rfl, _⟩ := h; rfl

theorem handlePackets_gkey : ∀ (pkts : List Packet) {s s' : RState} {id : Nat} {cid : String} {fl fl' : Flags},
    handlePackets s id cid pkts fl = .ok (s', fl') → gkey s' = gkey s
  | [], s, s', id, cid, fl, fl', h => by
    simp only [handlePackets, Except.ok.injEq, Prod.mk.injEq] at h; obtain ⟨rfl, _⟩ := h; rfl
  | p :: rest, s, s', id, cid, fl, fl', h => by
    simp only [handlePackets] at h
    split at h
    · simp at h
    · rename_i s1 fl1 hp
      have e1 := handlePacket_gkey hp
      split at h
      · simp only [Except.ok.injEq, Prod.mk.injEq] at h; obtain ⟨rfl, _⟩ := h; exact e1
      · rw [handlePackets_gkey rest h, e1]


/-! ### the frame: steps that concern other clients leave client `X`'s graveyard entry alone -/

/-- no live connection carries client id `X` -/
def NoLive (X : String) (s : RState) : Prop := some X ∉ cids s.conns

structure FrameX (X : String) (s s' : RState) : Prop where
  gy : alookup X s'.graveyard = alookup X s.graveyard
  live : NoLive X s'
  cm : alookup X s.connectionMap = none → alookup X s'.connectionMap = none

theorem FrameX.refl {X : String} {s : RState} (h : NoLive X s) : FrameX X s s := ⟨rfl, h, fun e => e⟩

theorem FrameX.of_gkey {X : String} {s s' : RState} (h : NoLive X s) (e : gkey s' = gkey s) : FrameX X s s' := by
  unfold gkey at e
  simp only [Prod.mk.injEq] at e
  obtain ⟨e1, e2, e3⟩ := e
  exact ⟨by rw [e1], by unfold NoLive; rw [e3]; exact h, fun h0 => by rw [e2]; exact h0⟩

theorem FrameX.trans {X : String} {s s1 s2 : RState} (a : FrameX X s s1) (b : FrameX X s1 s2) : FrameX X s s2 :=
  ⟨b.gy.trans a.gy, b.live, fun h => b.cm (a.cm h)⟩

theorem NoLive.of_getConn {X : String} {s : RState} (h : NoLive X s) {id : Nat} {c : Conn}
    (hc : getConn s id = some c) : c.clientId ≠ X := by
  intro e
  apply h
  unfold getConn Slab.get? at hc
  unfold cids
  cases hg : s.conns.entries[id]? with
  | none => simp [hg] at hc
  | some oc =>
    simp only [hg, Option.bind_some] at hc
    have hoc : oc = some c := hc
    refine List.mem_map.mpr ⟨oc, List.mem_of_getElem? hg, ?_⟩
    rw [hoc, ← e]; rfl

theorem mem_cids_set {sl : Slab Conn} {k : Nat} {c : Conn} {oc : Option String} (h : oc ∈ cids (sl.set k c)) :
    oc ∈ cids sl ∨ oc = some c.clientId := by
  unfold cids Slab.set at h
  simp only [List.map_set] at h
  exact List.mem_or_eq_of_mem_set h

theorem mem_cids_remove {sl : Slab Conn} {k : Nat} {oc : Option String} (h : oc ∈ cids (sl.remove k)) :
    oc ∈ cids sl ∨ oc = none := by
  unfold cids Slab.remove at h
  simp only [List.map_set] at h
  exact List.mem_or_eq_of_mem_set h

theorem mem_cids_insert {sl : Slab Conn} {c : Conn} {oc : Option String} (h : oc ∈ cids (sl.insert c).1) :
    oc ∈ cids sl ∨ oc = some c.clientId := by
  unfold Slab.insert at h
  split at h
  · unfold cids at h ⊢
    simp only [List.map_append, List.map_cons, List.map_nil, List.mem_append, List.mem_singleton] at h
    exact h
  · unfold cids at h ⊢
    simp only [List.map_set] at h
    exact List.mem_or_eq_of_mem_set h

theorem handleDisconnection_frame {X : String} {s s' : RState} {id : Nat} {r : Option String}
    (hl : NoLive X s) (h : handleDisconnection s id r = .ok s') : FrameX X s s' := by
  cases hc : getConn s id with
  | none => rw [handleDisconnection_missing s id r hc] at h; cases h; exact FrameX.refl hl
  | some c =>
    obtain ⟨hg, hcm, hcn, _⟩ := handleDisconnection_spec hc h
    have hne : X ≠ c.clientId := fun e => hl.of_getConn hc e.symm
    refine ⟨?_, ?_, ?_⟩
    · rw [hg]; exact alookup_ainsert_ne _ _ _ _ hne
    · unfold NoLive; rw [hcn]
      intro hm
      rcases mem_cids_remove hm with h1 | h1
      · exact hl h1
      · cases h1
    · intro h0; rw [hcm, alookup_aremove_ne _ _ hne]; exact h0

theorem admitConn_frame {X : String} {s s' : RState} {spec : ConnectSpec} (hl : NoLive X s)
    (hx : spec.clientId ≠ X) (h : admitConn s spec = .ok s') : FrameX X s s' := by
  rw [admit_eq] at h
  split at h
  · simp only [Except.ok.injEq] at h; subst h; exact FrameX.of_gkey hl rfl
  · split at h
    · simp at h
    · have e := reschedule_gkey h
      have hpre : FrameX X s (admitPre s spec) := by
        have hne : X ≠ spec.clientId := fun e => hx e.symm
        refine ⟨?_, ?_, ?_⟩
        · show alookup X (aremove spec.clientId s.graveyard) = _
          exact alookup_aremove_ne _ _ hne _
        · unfold NoLive
          show some X ∉ cids ((s.conns.insert (newConn s spec)).1.set _ _)
          intro hm
          rcases mem_cids_set hm with h1 | h1
          · rcases mem_cids_insert h1 with h2 | h2
            · exact hl h2
            · exact hx (Option.some.inj h2).symm
          · exact hx (Option.some.inj h1).symm
        · intro h0
          show alookup X (ainsert spec.clientId _ s.connectionMap) = none
          rw [alookup_ainsert_ne _ _ _ _ hne]; exact h0
      exact hpre.trans (FrameX.of_gkey hpre.live e)

theorem handleNewConnection_frame {X : String} {s s' : RState} {spec : ConnectSpec} (hl : NoLive X s)
    (hx : spec.clientId ≠ X) (h : handleNewConnection s spec = .ok s') : FrameX X s s' := by
  rw [handleNewConnection_eq] at h
  split at h
  · simp only [Except.ok.injEq] at h; subst h; exact FrameX.of_gkey hl rfl
  · split at h
    · simp at h
    · rename_i s1 hs1
      have f1 : FrameX X s s1 := by
        split at hs1
        · exact (FrameX.of_gkey (s' := setLink s spec.link {}) hl rfl).trans
            (handleDisconnection_frame (s := setLink s spec.link {}) hl hs1)
        · simp only [Except.ok.injEq] at hs1; subst hs1; exact FrameX.of_gkey hl rfl
      exact f1.trans (admitConn_frame f1.live hx h)

theorem handleDevicePayload_frame {X : String} {s s' : RState} {id : Nat} (hl : NoLive X s)
    (h : handleDevicePayload s id = .ok s') : FrameX X s s' := by
  unfold handleDevicePayload at h
  split at h
  · simp only [Except.ok.injEq] at h; subst h; exact FrameX.refl hl
  · rename_i c hc
    simp only [] at h
    split at h
    · simp at h
    · rename_i s1 fl hp
      have e1 : gkey s1 = gkey s := (handlePackets_gkey _ hp).trans rfl
      split at h
      · simp at h
      · rename_i s2 hr1
        have e2 : gkey s2 = gkey s := by
          split at hr1
          · rw [reschedule_gkey hr1, e1]
          · simp only [Except.ok.injEq] at hr1; subst hr1; exact e1
        split at h
        · simp at h
        · rename_i s3 hr2
          have e3 : gkey s3 = gkey s := by
            split at hr2
            · rw [drainNotifications_gkey _ hr2]; exact e2
            · simp only [Except.ok.injEq] at hr2; subst hr2; exact e2
          split at h
          · simp at h
          rename_i s4 hw
          have e4 : gkey s4 = gkey s := (wakeTurnMoved_gkey hw).trans e3
          have f3 := FrameX.of_gkey hl e4
          split at h
          · exact f3.trans (handleDisconnection_frame f3.live h)
          · simp only [Except.ok.injEq] at h; subst h; exact f3

theorem handleLastWill_gkey {s s' : RState} {cid : String} (h : handleLastWill s cid = .ok s') : gkey s' = gkey s := by
  unfold handleLastWill at h
  split at h
  · simp only [Except.ok.injEq] at h; subst h; rfl
  · simp only [] at h
    split at h
    · simp only [Except.ok.injEq] at h; subst h; rfl
    · rename_i topic _
      split at h
      · simp at h
      · rename_i s1 idxs hm
        split at h
        · simp at h
        · rename_i s2 ha
          rw [drainNotifications_gkey _ h]
          refine Eq.trans (b := gkey s2) rfl ?_
          rw [appendToFilters_gkey ha, dlMatches_only hm]
          refine Eq.trans (b := gkey (updateRetained _ topic _)) rfl ?_
          rw [updateRetained_gkey]; rfl

theorem events_frame {X : String} {s s' : RState} {id : Nat} {e : Event} (hl : NoLive X s)
    (h : events s id e = .ok s') : FrameX X s s' := by
  cases e with
  | deviceData => exact handleDevicePayload_frame hl h
  | ready =>
    simp only [events] at h
    split at h
    · exact FrameX.of_gkey hl (reschedule_gkey h)
    · simp only [Except.ok.injEq] at h; subst h; exact FrameX.refl hl
  | disconnect => exact handleDisconnection_frame (id := id) (r := none) hl h
  | publishWill c => exact FrameX.of_gkey hl (handleLastWill_gkey h)
  | shadow f => exact FrameX.of_gkey hl (handleShadow_gkey h)
  | sendMeters => simp only [events, Except.ok.injEq] at h; subst h; exact FrameX.refl hl
  | sendAlerts => simp only [events, Except.ok.injEq] at h; subst h; exact FrameX.refl hl

/-- ops that are not a CONNECT of client `X` -/
def NotConnectOf (X : String) : Op → Prop
  | .connect spec => spec.clientId ≠ X
  | _ => True

theorem step_frame {X : String} {s s' : RState} {op : Op} {o : Out} (hl : NoLive X s) (hop : NotConnectOf X op)
    (h : step s op = .ok (s', o)) : FrameX X s s' := by
  cases op with
  | connect spec =>
    simp only [step] at h
    split at h
    · simp at h
    · rename_i s1 hc
      simp only [Except.ok.injEq, Prod.mk.injEq] at h; obtain ⟨rfl, _⟩ := h
      exact handleNewConnection_frame hl hop hc
  | push l p =>
    simp only [step] at h
    split at h
    · simp only [Except.ok.injEq, Prod.mk.injEq] at h; obtain ⟨rfl, _⟩ := h; exact FrameX.of_gkey hl rfl
    · simp only [Except.ok.injEq, Prod.mk.injEq] at h; obtain ⟨rfl, _⟩ := h; exact FrameX.refl hl
  | event id e =>
    simp only [step] at h
    split at h
    · simp at h
    · rename_i s1 he
      simp only [Except.ok.injEq, Prod.mk.injEq] at h; obtain ⟨rfl, _⟩ := h
      exact events_frame hl he
  | consume =>
    simp only [step] at h
    split at h
    · simp at h
    · rename_i s1 b hc
      simp only [Except.ok.injEq, Prod.mk.injEq] at h; obtain ⟨rfl, _⟩ := h
      exact FrameX.of_gkey hl (consume_gkey hc)
  | drain l =>
    simp only [step] at h
    split at h
    · split at h
      · simp only [Except.ok.injEq, Prod.mk.injEq] at h; obtain ⟨rfl, _⟩ := h; exact FrameX.of_gkey hl rfl
      · simp only [Except.ok.injEq, Prod.mk.injEq] at h; obtain ⟨rfl, _⟩ := h; exact FrameX.refl hl
    · simp only [Except.ok.injEq, Prod.mk.injEq] at h; obtain ⟨rfl, _⟩ := h; exact FrameX.refl hl

/-- any run without a CONNECT of client `X`, from a state where `X` has no live connection -/
theorem run_frame {X : String} : ∀ (ops : List (Op × List Choice)) {s s' : RState}, NoLive X s →
    (∀ oc ∈ ops, NotConnectOf X oc.1) → run s ops = .ok s' → FrameX X s s'
  | [], s, s', hl, _, h => by simp only [run, Except.ok.injEq] at h; subst h; exact FrameX.refl hl
  | (op, ch) :: rest, s, s', hl, hops, h => by
    simp only [run] at h
    split at h
    · simp at h
    · rename_i s1 o hs
      have f1 : FrameX X s s1 :=
        (FrameX.of_gkey (s' := { s with oracle := ch }) hl rfl).trans
          (step_frame (s := { s with oracle := ch }) hl (hops (op, ch) (by simp)) hs)
      exact f1.trans (run_frame rest f1.live (fun oc hoc => hops oc (by simp [hoc])) h)

end Rp3
end Router
