/-
C01 completeness at idle: in a reachable state every subscription of a connection whose tracker
holds no request has its request parked on its filter's log, and a non-shared one stands at the
end of the log — a read from it returns nothing.
-/
import Proofs.Lemmas.Router.Rp6_Reach
namespace Router
open Router.Rp3
open CommitLog (Rep logC Issued U64 cursorAbs)

/-- nothing is read from the end of the log -/
theorem read_at_end_empty (fd : FilterData) (hist : List Pub) (hrep : Rep (logC fd.log) hist) (cur : Cursor)
    (hiss : Issued (logC fd.log) cur) (hend : AtEnd fd cur) (n : Nat) (hU : hist.length + n < U64) :
    (fd.log.readv cur n).1 = [] := by
  obtain ⟨v1, _, _⟩ := clog_readv_entries fd.log hist hrep cur n hiss hU
  have hca : cursorAbs (logC fd.log) cur = hist.length := by
    unfold cursorAbs
    have : ¬ cur.1 < (logC fd.log).head := by have := hend.1; omega
    simp only [this, if_false]
    rw [hend.2, hrep.nextAbs_eq]
  rw [hca, List.drop_length] at v1
  simpa using v1

/-- what holds for a subscription `f` of a live connection without tracked requests -/
theorem idle_subscription_parked {cfg : Config} (h1 : 1 ≤ cfg.maxSegmentSize) (h2 : 1 ≤ cfg.maxSegmentCount)
    (hpos : 0 < cfg.maxOutgoingPacketCount) {s : RState} (hr : Reachable cfg s) (hno : NoOverflow s)
    {id : Nat} {c : Conn} (hc : getConn s id = some c) (hidle : c.tracker.requests = [])
    {f : String} (hf : f ∈ c.subscriptions) :
    ∃ (i : Nat) (fd : FilterData) (hist : List Pub) (r : DataRequest),
      s.datalog.filterIdx? (logPath f) = some i ∧ s.datalog.native[i]? = some fd ∧ Rep (logC fd.log) hist ∧
      (id, r) ∈ fd.waiters ∧ r.filter = f ∧ r.filterIdx = i ∧ r.group = (extractGroup f).map (·.1) ∧
      Issued (logC fd.log) r.cursor ∧
      (extractGroup f = none →
        (logC fd.log).head ≤ r.cursor.1 ∧ r.cursor.2 = hist.length ∧
        ∀ n, n ≤ MAX_INFLIGHT + s.config.maxOutgoingPacketCount → (fd.log.readv r.cursor n).1 = []) := by
  have hq := QI.reachable h1 h2 hpos hr hno
  have hcs := CS.reachable h1 h2 hr hno
  have hi := reachable_inv h1 h2 hr
  have h3 := Inv3.reachable hr
  obtain ⟨hK, hW, _⟩ := (RC.iff s).mp h3.rc
  have hn : s.notifications = [] := h3.inv2.binv.2
  have hf' : f ∈ subsOf s id := by unfold subsOf; rw [hc]; exact hf
  obtain ⟨r, hown, hrf⟩ := hq.cover id f hf'
  have hg := hq.gt id r hown
  rcases hown with ⟨c', hc', hm⟩ | ⟨i, fd, hfd, hm⟩ | hnot
  · rw [hc] at hc'; cases hc'; rw [hidle] at hm; cases hm
  · have hidx : r.filterIdx = i := hW i fd hfd (id, r) hm
    have hkey : r.key ∈ keysOf s id := by
      unfold keysOf
      exact List.mem_append_left _ (List.mem_append_right _
        (mem_waiterKeys.mpr ⟨fd, List.mem_of_getElem? hfd, (id, r), hm, rfl, rfl⟩))
    have hko : KeyOK s.datalog.filterIndexes r.key := hK.idx id _ hkey
    obtain ⟨hist, hrep⟩ := hi.logs fd.log (List.mem_map.mpr ⟨fd, List.mem_of_getElem? hfd, rfl⟩)
    obtain ⟨⟨fd', hfd', hiss⟩, _⟩ := hcs.req r (.inr (.inl ⟨fd, List.mem_of_getElem? hfd, (id, r), hm, rfl⟩))
    rw [hidx, hfd] at hfd'; cases hfd'
    have hU := hno fd (List.mem_of_getElem? hfd) hist hrep
    refine ⟨i, fd, hist, r, ?_, hfd, hrep, hm, hrf, hidx, by unfold GT at hg; rw [hg, hrf], hiss, fun hplain => ?_⟩
    · unfold KeyOK DataRequest.key at hko
      simp only [] at hko
      unfold DataLog.filterIdx?
      rw [← hrf, hko, hidx]
    · have hgn : r.group = none := by unfold GT at hg; rw [hg, hrf, hplain]; rfl
      have hend := hq.pe i fd hfd (id, r) hm hgn
      exact ⟨hend.1, by rw [hend.2, hrep.nextAbs_eq],
        fun n hn => read_at_end_empty fd hist hrep r.cursor hiss hend n (by omega)⟩
  · unfold Notified at hnot; rw [hn] at hnot; cases hnot

end Router
