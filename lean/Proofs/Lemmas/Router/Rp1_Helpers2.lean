/-
Shape of `handlePacket`, `handlePackets`, `forwardDeviceData`, `consumeLoop`, `consume`,
`handleLastWill`, `handleShadow`; effect of `handleDisconnection` on the slab.
-/
import Proofs.Lemmas.Router.Rp1_Helpers
import Proofs.Lemmas.Router.Outgoing
namespace Router

theorem hpPre_shape {s s' : RState} {id : Nat} {p : Pub} {fl fl' : Flags} {b : Bool}
    (h : hpPre s id p fl = .ok (s', fl', b)) : Shape (RO id) s s' := by
  unfold hpPre at h
  split at h
  · split at h
    · simp at h
    · rename_i s1 h1
      simp only [Except.ok.injEq, Prod.mk.injEq] at h; obtain ⟨rfl, _⟩ := h
      exact commitAck_shape h1
  · split at h
    · split at h
      · simp at h
      · rename_i c hc
        simp only [Except.ok.injEq, Prod.mk.injEq] at h; obtain ⟨rfl, _⟩ := h
        exact Shape.of_set hc rfl rfl rfl (RO.self ⟨rfl, rfl, rfl, rfl⟩ rfl)
    · simp only [Except.ok.injEq, Prod.mk.injEq] at h; obtain ⟨rfl, _⟩ := h; exact Shape.refl _

theorem Shape.ro_rw {id : Nat} {s s' : RState} (h : Shape (RO id) s s') : Shape (RW id) s s' :=
  h.mono fun _ _ _ => RO.toRW
theorem Shape.rt_rw {id : Nat} {s s' : RState} (h : Shape RT s s') : Shape (RW id) s s' :=
  h.mono fun _ _ _ => RT.toRW
theorem Shape.ro_ra {id : Nat} {s s' : RState} (h : Shape (RO id) s s') : Shape (RA id) s s' :=
  h.mono fun _ _ _ => RO.toRA
theorem Shape.rt_ra {id : Nat} {s s' : RState} (h : Shape RT s s') : Shape (RA id) s s' :=
  h.mono fun _ _ _ => RT.toRA
theorem Shape.ra_rw {id : Nat} {s s' : RState} (h : Shape (RA id) s s') : Shape (RW id) s s' :=
  h.mono fun _ _ _ => RA.toRW
theorem Shape.ro_ru {id : Nat} {s s' : RState} (h : Shape (RO id) s s') : Shape (RU id) s s' :=
  h.mono fun _ _ _ => RO.toRU
theorem Shape.ru_ra {id : Nat} {s s' : RState} (h : Shape (RU id) s s') : Shape (RA id) s s' :=
  h.mono fun _ _ _ => RU.toRA
theorem RA.self {id : Nat} {c c' : Conn} (h1 : c.sameId c')
    (h2 : ∃ n, c'.out.inflight = c.out.inflight.drop n ∧ c'.out.lastPkid = c.out.lastPkid) : RA id id c c' :=
  ⟨h1, fun h => absurd rfl h, h2.elim fun n h => ⟨n, Forgets.of_eq h.1, h.2⟩⟩

theorem registerAck_lastPkid (o : Outgoing) (pkid : Nat) : (o.registerAck pkid).1.lastPkid = o.lastPkid := by
  unfold Outgoing.registerAck; split
  · rfl
  · split <;> rfl

theorem registerAck_dropN (o : Outgoing) (pkid : Nat) :
    ∃ n, (o.registerAck pkid).1.inflight = o.inflight.drop n ∧ (o.registerAck pkid).1.lastPkid = o.lastPkid := by
  unfold Outgoing.registerAck
  split
  · exact ⟨0, by simp, rfl⟩
  · rename_i h a b rest heq
    split
    · exact ⟨1, by simp [heq], rfl⟩
    · exact ⟨0, by simp, rfl⟩

theorem registerPubcomp_out (o : Outgoing) (pkid : Nat) :
    (o.registerPubcomp pkid).1.inflight = o.inflight ∧ (o.registerPubcomp pkid).1.lastPkid = o.lastPkid := by
  unfold Outgoing.registerPubcomp; split
  · exact ⟨rfl, rfl⟩
  · split <;> exact ⟨rfl, rfl⟩

theorem Shape.rt_ro {id : Nat} {s s' : RState} (h : Shape RT s s') : Shape (RO id) s s' :=
  h.mono fun _ _ _ => RT.toRO

theorem handlePacket_shape {s s' : RState} {id : Nat} {cid : String} {pkt : Packet} {fl fl' : Flags}
    (h : handlePacket s id cid pkt fl = .ok (s', fl')) : Shape (RA id) s s' := by
  cases pkt with
  | publish p =>
    rw [handlePacket_publish] at h
    split at h
    · simp at h
    · rename_i s1 fl1 h1
      simp only [Except.ok.injEq, Prod.mk.injEq] at h; obtain ⟨rfl, _⟩ := h
      exact (hpPre_shape h1).ro_ra
    · rename_i s1 fl1 h1
      have a := (hpPre_shape h1).ro_ra
      split at h
      · simp at h
      all_goals
        rename_i h2
        simp only [Except.ok.injEq, Prod.mk.injEq] at h; obtain ⟨rfl, _⟩ := h
        exact a.trans (appendToCommitlog_shape h2).ro_ra
  | subscribe pkid subId filters =>
    simp only [handlePacket] at h
    split at h
    · simp at h
    · rename_i s1 codes fl1 h1
      split at h
      · simp at h
      · rename_i s2 h2
        simp only [Except.ok.injEq, Prod.mk.injEq] at h; obtain ⟨rfl, _⟩ := h
        exact ((subscribeFilters_shape filters h1).trans (commitAck_shape h2)).ro_ra
  | unsubscribe pkid filters =>
    simp only [handlePacket] at h
    split at h
    · simp at h
    · split at h
      · simp at h
      · rename_i s1 rs h1
        split at h
        · simp at h
        · rename_i s2 h2
          simp only [Except.ok.injEq, Prod.mk.injEq] at h; obtain ⟨rfl, _⟩ := h
          exact ((unsubscribeFilters_shape filters h1).trans (commitAck_shape h2).ro_ru).ru_ra
  | puback pkid =>
    simp only [handlePacket] at h
    split at h
    · simp at h
    · rename_i c hc
      have a : Shape (RA id) s (setConn s id { c with out := (c.out.registerAck pkid).1 }) :=
        Shape.setConn hc (RA.self ⟨rfl, rfl, rfl, rfl⟩ (by first | exact ⟨0, by simp, rfl⟩ | exact registerAck_dropN _ _ | exact ⟨0, by simp [registerPubcomp_out], (registerPubcomp_out _ _).2⟩))
      split at h
      · simp only [Except.ok.injEq, Prod.mk.injEq] at h; obtain ⟨rfl, _⟩ := h; exact a
      · split at h
        · simp at h
        · rename_i s2 h2
          simp only [Except.ok.injEq, Prod.mk.injEq] at h; obtain ⟨rfl, _⟩ := h
          refine Shape.trans ?_ (reschedule_shape h2).rt_ra
          exact a.congr rfl rfl rfl
  | pubrec pkid =>
    simp only [handlePacket] at h
    split at h
    · simp at h
    · rename_i c hc
      split at h
      · simp only [Except.ok.injEq, Prod.mk.injEq] at h; obtain ⟨rfl, _⟩ := h
        exact Shape.setConn hc (RA.self ⟨rfl, rfl, rfl, rfl⟩ (by first | exact ⟨0, by simp, rfl⟩ | exact registerAck_dropN _ _ | exact ⟨0, by simp [registerPubcomp_out], (registerPubcomp_out _ _).2⟩))
      · split at h
        · simp at h
        · rename_i s2 h2
          simp only [Except.ok.injEq, Prod.mk.injEq] at h; obtain ⟨rfl, _⟩ := h
          refine Shape.trans ?_ (reschedule_shape h2).rt_ra
          exact Shape.of_set hc rfl rfl rfl (RA.self ⟨rfl, rfl, rfl, rfl⟩ (by first | exact ⟨0, by simp, rfl⟩ | exact registerAck_dropN _ _ | exact ⟨0, by simp [registerPubcomp_out], (registerPubcomp_out _ _).2⟩))
  | pubrel pkid hasProps =>
    · show Shape (RA id) s s'
      simp only [handlePacket] at h
      split at h
      · simp at h
      · rename_i c hc
        split at h
        · simp only [Except.ok.injEq, Prod.mk.injEq] at h; obtain ⟨rfl, _⟩ := h
          exact Shape.of_set hc rfl rfl rfl (RA.self ⟨rfl, rfl, rfl, rfl⟩ (by first | exact ⟨0, by simp, rfl⟩ | exact registerAck_dropN _ _ | exact ⟨0, by simp [registerPubcomp_out], (registerPubcomp_out _ _).2⟩))
        · rename_i p rest hrec
          have a : Shape (RA id) s ((setConn s id { c with acks := { committed := c.acks.committed ++ [Ack.pubcomp pkid], recorded := rest } }).g
              (.committed id (.pubcomp pkid))) :=
            Shape.of_set hc rfl rfl rfl (RA.self ⟨rfl, rfl, rfl, rfl⟩ (by first | exact ⟨0, by simp, rfl⟩ | exact registerAck_dropN _ _ | exact ⟨0, by simp [registerPubcomp_out], (registerPubcomp_out _ _).2⟩))
          split at h
          · simp at h
          · rename_i h2
            simp only [Except.ok.injEq, Prod.mk.injEq] at h; obtain ⟨rfl, _⟩ := h
            exact a.trans (appendToCommitlog_shape h2).ro_ra
          · rename_i s2 h2
            split at h
            · simp at h
            · rename_i s3 h3
              simp only [Except.ok.injEq, Prod.mk.injEq] at h; obtain ⟨rfl, _⟩ := h
              exact (a.trans (appendToCommitlog_shape h2).ro_ra).trans (reschedule_shape h3).rt_ra
  | pubcomp pkid =>
    simp only [handlePacket] at h
    split at h
    · simp at h
    · rename_i c hc
      have a : Shape (RA id) s (setConn s id { c with out := (c.out.registerPubcomp pkid).1 }) :=
        Shape.setConn hc (RA.self ⟨rfl, rfl, rfl, rfl⟩ (by first | exact ⟨0, by simp, rfl⟩ | exact registerAck_dropN _ _ | exact ⟨0, by simp [registerPubcomp_out], (registerPubcomp_out _ _).2⟩))
      split at h
      all_goals
        simp only [Except.ok.injEq, Prod.mk.injEq] at h; obtain ⟨rfl, _⟩ := h; exact a
  | pingreq =>
    simp only [handlePacket] at h
    split at h
    · simp at h
    · rename_i s1 h1
      simp only [Except.ok.injEq, Prod.mk.injEq] at h; obtain ⟨rfl, _⟩ := h
      exact (commitAck_shape h1).ro_ra
  | disconnect =>
    simp only [handlePacket, Except.ok.injEq, Prod.mk.injEq] at h; obtain ⟨rfl, _⟩ := h
    exact Shape.of_eq rfl rfl rfl
  | other =>
    simp only [handlePacket, Except.ok.injEq, Prod.mk.injEq] at h; obtain ⟨rfl, _⟩ := h
    exact Shape.refl _

theorem handlePackets_shape {id : Nat} {cid : String} : ∀ (ps : List Packet) {s s' : RState} {fl fl' : Flags},
    handlePackets s id cid ps fl = .ok (s', fl') → Shape (RA id) s s'
  | [], s, s', fl, fl', h => by
    simp only [handlePackets, Except.ok.injEq, Prod.mk.injEq] at h; obtain ⟨rfl, _⟩ := h; exact Shape.refl _
  | p :: rest, s, s', fl, fl', h => by
    simp only [handlePackets] at h
    split at h
    · simp at h
    · rename_i s1 fl1 h1
      have a := handlePacket_shape h1
      split at h
      · simp only [Except.ok.injEq, Prod.mk.injEq] at h; obtain ⟨rfl, _⟩ := h; exact a
      · exact a.trans (handlePackets_shape rest h)

/-! ### consume -/

theorem fdRetained_core {s s' : RState} {req : DataRequest} {slots slots' : Nat} {ps : List (Pub × Option Cursor)}
    (h : fdRetained s req slots = .ok (s', ps, slots')) : CoreEq s s' := by
  unfold fdRetained at h
  split at h
  · split at h
    · simp at h
    · rename_i s1 ps1 h1
      simp only [Except.ok.injEq, Prod.mk.injEq] at h; obtain ⟨rfl, _⟩ := h
      exact readRetained_core h1
  · simp only [Except.ok.injEq, Prod.mk.injEq] at h; obtain ⟨rfl, _⟩ := h; exact CoreEq.refl _

theorem fdGroupUpd_core {s s' : RState} {req : DataRequest} {grp : Option SharedGroup}
    (h : fdGroupUpd s req grp = .ok s') : CoreEq s s' := by
  unfold fdGroupUpd at h
  split at h
  · split at h
    · simp only [Except.ok.injEq] at h; subst h; exact CoreEq.refl _
    · split at h
      · simp at h
      · rename_i s1 g1 h1
        simp only [Except.ok.injEq] at h; subst h
        exact (updateNextClient_core h1).trans ⟨rfl, rfl, rfl⟩
  · simp only [Except.ok.injEq] at h; subst h; exact CoreEq.refl _

theorem fdPush_shape {s s' : RState} {id : Nat} {c : Conn} {req req' : DataRequest} {grp : Option SharedGroup}
    {pubs : List (Pub × Option Cursor)} {cu : Bool} {st : ConsumeStatus} (hc : getConn s id = some c)
    (h : fdPush s id c req grp pubs cu = .ok (s', req', st)) : Shape (RW id) s s' := by
  unfold fdPush at h
  simp only [] at h
  split at h
  · simp at h
  · rename_i s1 h1
    have b : Shape (RW id) s s1 := by
      refine Shape.trans ?_ (fdGroupUpd_core h1).shape
      exact Shape.of_set hc rfl rfl rfl (RW.self ⟨rfl, rfl, rfl, rfl⟩)
    split at h
    all_goals
      simp only [Except.ok.injEq, Prod.mk.injEq] at h; obtain ⟨rfl, _⟩ := h
      exact b.congr rfl rfl rfl

theorem forwardDeviceData_shape {s s' : RState} {id : Nat} {req req' : DataRequest} {st : ConsumeStatus}
    (h : forwardDeviceData s id req = .ok (s', req', st)) : Shape (RW id) s s' := by
  rw [forwardDeviceData_eq] at h
  split at h
  · simp at h
  · rename_i c hc
    simp only [] at h
    split at h
    · simp only [Except.ok.injEq, Prod.mk.injEq] at h; obtain ⟨rfl, _⟩ := h; exact Shape.refl _
    · split at h
      · simp at h
      · rename_i s1 rp slots h1
        have a := fdRetained_core h1
        split at h
        · simp at h
        · rename_i fd hfd
          split at h
          · simp only [Except.ok.injEq, Prod.mk.injEq] at h; obtain ⟨rfl, _⟩ := h; exact a.shape
          · split at h
            · simp only [Except.ok.injEq, Prod.mk.injEq] at h; obtain ⟨rfl, _⟩ := h; exact a.shape
            · have hc1 : getConn s1 id = some c := by rw [a.getConn]; exact hc
              exact Shape.trans a.shape (fdPush_shape hc1 h)

theorem consumeLoop_shape {id : Nat} : ∀ (fuel : Nat) {s s' : RState} {requests skipped : List DataRequest},
    consumeLoop s id fuel requests skipped = .ok s' → Shape (RW id) s s'
  | 0, s, s', requests, skipped, h => by
    simp only [consumeLoop] at h
    exact (trackv_shape h).rt_rw
  | fuel + 1, s, s', requests, skipped, h => by
    cases requests with
    | nil =>
      simp only [consumeLoop] at h
      split at h
      · simp at h
      · rename_i s1 h1
        have a : Shape (RW id) s s1 := by
          split at h1
          · exact (pause_shape h1).rt_rw
          · simp only [Except.ok.injEq] at h1; subst h1; exact Shape.refl _
        exact a.trans (trackv_shape h).rt_rw
    | cons req rest =>
      simp only [consumeLoop] at h
      split at h
      · simp at h
      · rename_i s1 req1 st h1
        have a : Shape (RW id) s (noteTurn s s1 req1) :=
          (forwardDeviceData_shape h1).trans (noteTurn_core s s1 req1).shape
        split at h
        · split at h
          · simp at h
          · rename_i s2 h2
            exact (a.trans (pause_shape h2).rt_rw).trans (trackv_shape h).rt_rw
        · split at h
          · simp at h
          · rename_i s2 h2
            exact (a.trans (pause_shape h2).rt_rw).trans (trackv_shape h).rt_rw
        · split at h
          · simp at h
          · rename_i s2 h2
            exact (a.trans (park_core h2).shape).trans (consumeLoop_shape fuel h)
        · exact a.trans (consumeLoop_shape fuel h)
        · exact a.trans (consumeLoop_shape fuel h)

/-! ### the local `turn_moved` during one `consume`: sweeps only add to it (`noteTurn`) -/

theorem readRetained_turnMoved {s s' : RState} {f : String} {ps : List Pub}
    (h : readRetained s f = .ok (s', ps)) : s'.turnMoved = s.turnMoved := by
  unfold readRetained at h
  simp only [] at h
  split at h
  · split at h
    · simp only [Except.ok.injEq, Prod.mk.injEq] at h; obtain ⟨rfl, _⟩ := h; rfl
    · simp at h
  · simp at h

theorem updateNextClient_turnMoved {s s' : RState} {g g' : SharedGroup}
    (h : updateNextClient s g = .ok (s', g')) : s'.turnMoved = s.turnMoved := by
  unfold updateNextClient at h
  split at h
  · simp only [Except.ok.injEq, Prod.mk.injEq] at h; obtain ⟨rfl, _⟩ := h; rfl
  · split at h
    · simp at h
    · simp only [Except.ok.injEq, Prod.mk.injEq] at h; obtain ⟨rfl, _⟩ := h; rfl
  · split at h
    · simp at h
    · split at h
      · split at h
        · simp only [Except.ok.injEq, Prod.mk.injEq] at h; obtain ⟨rfl, _⟩ := h; rfl
        · simp at h
      · simp at h

theorem fdRetained_turnMoved {s s' : RState} {req : DataRequest} {slots slots' : Nat} {ps : List (Pub × Option Cursor)}
    (h : fdRetained s req slots = .ok (s', ps, slots')) : s'.turnMoved = s.turnMoved := by
  unfold fdRetained at h
  split at h
  · split at h
    · simp at h
    · rename_i s1 ps1 h1
      simp only [Except.ok.injEq, Prod.mk.injEq] at h; obtain ⟨rfl, _⟩ := h
      exact readRetained_turnMoved h1
  · simp only [Except.ok.injEq, Prod.mk.injEq] at h; obtain ⟨rfl, _⟩ := h; rfl

theorem fdGroupUpd_turnMoved {s s' : RState} {req : DataRequest} {grp : Option SharedGroup}
    (h : fdGroupUpd s req grp = .ok s') : s'.turnMoved = s.turnMoved := by
  unfold fdGroupUpd at h
  split at h
  · split at h
    · simp only [Except.ok.injEq] at h; subst h; rfl
    · split at h
      · simp at h
      · rename_i s1 g1 h1
        simp only [Except.ok.injEq] at h; subst h
        exact (updateNextClient_turnMoved h1 : s1.turnMoved = _)
  · simp only [Except.ok.injEq] at h; subst h; rfl

theorem fdPush_turnMoved {s s' : RState} {id : Nat} {c : Conn} {req req' : DataRequest} {grp : Option SharedGroup}
    {pubs : List (Pub × Option Cursor)} {cu : Bool} {st : ConsumeStatus}
    (h : fdPush s id c req grp pubs cu = .ok (s', req', st)) : s'.turnMoved = s.turnMoved := by
  unfold fdPush at h
  simp only [] at h
  split at h
  · simp at h
  · rename_i s1 h1
    have b := fdGroupUpd_turnMoved h1
    split at h
    all_goals
      simp only [Except.ok.injEq, Prod.mk.injEq] at h; obtain ⟨rfl, _⟩ := h
      exact b

/-- a sweep itself does not touch `turn_moved` (the caller notes the moved turn: `noteTurn`) -/
theorem forwardDeviceData_turnMoved {s s' : RState} {id : Nat} {req req' : DataRequest} {st : ConsumeStatus}
    (h : forwardDeviceData s id req = .ok (s', req', st)) : s'.turnMoved = s.turnMoved := by
  rw [forwardDeviceData_eq] at h
  split at h
  · simp at h
  · rename_i c hc
    simp only [] at h
    split at h
    · simp only [Except.ok.injEq, Prod.mk.injEq] at h; obtain ⟨rfl, _⟩ := h; rfl
    · split at h
      · simp at h
      · rename_i s1 rp slots h1
        have a := fdRetained_turnMoved h1
        split at h
        · simp at h
        · split at h
          · simp only [Except.ok.injEq, Prod.mk.injEq] at h; obtain ⟨rfl, _⟩ := h; exact a
          · split at h
            · simp only [Except.ok.injEq, Prod.mk.injEq] at h; obtain ⟨rfl, _⟩ := h; exact a
            · exact (fdPush_turnMoved h).trans a

theorem pause_turnMoved {s s' : RState} {id : Nat} {r : PauseReason} (h : pause s id r = .ok s') :
    s'.turnMoved = s.turnMoved := by
  unfold pause at h
  split at h
  · simp at h
  · split at h
    · simp at h
    · simp only [Except.ok.injEq] at h; subst h; rfl

theorem trackv_turnMoved {s s' : RState} {id : Nat} {rs : List DataRequest} (h : trackv s id rs = .ok s') :
    s'.turnMoved = s.turnMoved := by
  unfold trackv at h
  split at h
  · simp at h
  · simp only [Except.ok.injEq] at h; subst h; rfl

theorem park_turnMoved {s s' : RState} {id : Nat} {r : DataRequest} (h : park s id r = .ok s') :
    s'.turnMoved = s.turnMoved := by
  unfold park at h
  split at h
  · simp at h
  · simp only [Except.ok.injEq] at h; subst h; rfl

/-- `noteTurn` keeps what was noted and adds the request's log exactly when its group's turn passed
    to another member during the sweep -/
theorem noteTurn_turnMoved (s0 s1 : RState) (req : DataRequest) :
    (noteTurn s0 s1 req).turnMoved =
      s1.turnMoved ++
        (match req.group.bind (fun g => alookup g s0.shared), req.group.bind (fun g => alookup g s1.shared) with
         | some g0, some g1 => if g1.current != g0.current then [req.filterIdx] else []
         | _, _ => []) := by
  unfold noteTurn
  generalize (req.group.bind fun g => alookup g s0.shared) = a
  generalize (req.group.bind fun g => alookup g s1.shared) = b
  cases a <;> cases b <;> simp only [List.append_nil]
  split <;> simp

/-- whatever one iteration has noted stays noted until the end of the request loop -/
theorem consumeLoop_turnMoved_sub {id : Nat} : ∀ (fuel : Nat) {s s' : RState} {requests skipped : List DataRequest},
    consumeLoop s id fuel requests skipped = .ok s' → ∀ i ∈ s.turnMoved, i ∈ s'.turnMoved
  | 0, s, s', requests, skipped, h, i, hi => by
    simp only [consumeLoop] at h
    rw [trackv_turnMoved h]; exact hi
  | fuel + 1, s, s', requests, skipped, h, i, hi => by
    cases requests with
    | nil =>
      simp only [consumeLoop] at h
      split at h
      · simp at h
      · rename_i s1 h1
        rw [trackv_turnMoved h]
        split at h1
        · rw [pause_turnMoved h1]; exact hi
        · simp only [Except.ok.injEq] at h1; subst h1; exact hi
    | cons req rest =>
      simp only [consumeLoop] at h
      split at h
      · simp at h
      · rename_i s1 req1 st h1
        have a : i ∈ (noteTurn s s1 req1).turnMoved := by
          rw [noteTurn_turnMoved, forwardDeviceData_turnMoved h1]
          exact List.mem_append_left _ hi
        split at h
        · split at h
          · simp at h
          · rename_i s2 h2
            rw [trackv_turnMoved h, pause_turnMoved h2]; exact a
        · split at h
          · simp at h
          · rename_i s2 h2
            rw [trackv_turnMoved h, pause_turnMoved h2]; exact a
        · split at h
          · simp at h
          · rename_i s2 h2
            exact consumeLoop_turnMoved_sub fuel h i (by rw [park_turnMoved h2]; exact a)
        · exact consumeLoop_turnMoved_sub fuel h i a
        · exact consumeLoop_turnMoved_sub fuel h i a

/-- `consume` serves the first live connection of the ready queue (if any) -/
def polled (s : RState) : Option Nat := (s.readyqueue.dropWhile (fun id => (s.conns.get? id).isNone)).head?

theorem consume_shape {s s' : RState} {b : Bool} (h : consume s = .ok (s', b)) :
    (polled s = none ∧ CoreEq s s') ∨ ∃ id, polled s = some id ∧ Shape (RW id) s s' := by
  unfold consume at h
  unfold polled
  split at h
  · rename_i hq
    simp only [Except.ok.injEq, Prod.mk.injEq] at h; obtain ⟨rfl, _⟩ := h
    exact .inl ⟨by rw [hq]; rfl, rfl, rfl, rfl⟩
  · rename_i id rq hq
    refine .inr ⟨id, by rw [hq]; rfl, ?_⟩
    simp only [] at h
    split at h
    · simp only [Except.ok.injEq, Prod.mk.injEq] at h; obtain ⟨rfl, _⟩ := h
      exact Shape.of_eq rfl rfl rfl
    · rename_i c hc
      split at h
      · simp at h
      · rename_i s1 h1
        split at h
        · simp at h
        rename_i s2 h2
        simp only [Except.ok.injEq, Prod.mk.injEq] at h; obtain ⟨rfl, _⟩ := h
        refine Shape.trans ?_ (wakeTurnMoved_shape h2).rt_rw
        have hc' : getConn s id = some c := hc
        have a : Shape (RW id) s ({ setConn { s with readyqueue := rq } id { c with tracker := { c.tracker with requests := [] } }
            with readyqueue := (setConn { s with readyqueue := rq } id { c with tracker := { c.tracker with requests := [] } }).readyqueue ++ [id] } : RState) :=
          Shape.of_set hc' rfl rfl rfl (RT.mk id c _).toRW
        exact (a.trans (ackDeviceData_shape _ id).ro_rw).trans (consumeLoop_shape _ h1)

/-! ### will, shadow -/

theorem handleLastWill_shape {s s' : RState} {cid : String} (h : handleLastWill s cid = .ok s') : Shape RT s s' := by
  unfold handleLastWill at h
  split at h
  · simp only [Except.ok.injEq] at h; subst h; exact Shape.refl _
  · simp only [] at h
    split at h
    · simp only [Except.ok.injEq] at h; subst h; exact Shape.of_eq rfl rfl rfl
    · rename_i topic ht
      split at h
      · simp at h
      · rename_i s2 idxs h2
        split at h
        · simp at h
        · rename_i s3 h3
          have a : CoreEq s s3 := by
            refine CoreEq.trans ?_ (appendToFilters_core idxs h3)
            refine CoreEq.trans ?_ (dlMatches_core h2)
            exact ⟨(updateRetained_core _ _ _).1, (updateRetained_core _ _ _).2.1, (updateRetained_core _ _ _).2.2⟩
          exact Shape.trans a.shape (Shape.congr_left (drainNotifications_shape _ h) rfl rfl rfl)

theorem handleShadow_core {s s' : RState} {id : Nat} {f : String} (h : handleShadow s id f = .ok s') : CoreEq s s' := by
  unfold handleShadow at h
  split at h
  · simp only [Except.ok.injEq] at h; subst h; exact CoreEq.refl _
  · split at h
    · simp only [Except.ok.injEq] at h; subst h; exact CoreEq.refl _
    · split at h
      · simp only [Except.ok.injEq] at h; subst h; exact CoreEq.refl _
      · simp only [Except.ok.injEq] at h; subst h
        split <;> exact ⟨rfl, rfl, rfl⟩

end Router
