/-
C13 `readv_spec` / `readv_compose`, carried through the bridge to the totalised commit log the
router model uses (`CLog`), in the vocabulary of the sweep (`posNext`).
-/
import Proofs.Lemmas.Router.Rp3_SweepSpec
namespace Router
namespace Rp3
open CommitLog

theorem posNext_posC (p : CLog.Pos) : (posNext p).1 = (posC p).end_ ∧ (posNext p).2 = (posC p).isDone := by
  cases p <;> exact ⟨rfl, rfl⟩

/-- a read of the router's copy from an issued cursor: exactly `expectedRead` (the next `≤ n`
    retained entries from the cursor's position, tagged), continuation issued, not stale and
    standing right after the entries read, `Done` iff nothing remains -/
theorem clog_readv_spec (l : CLog.Log Pub) (hist : List Pub) (h : Rep (logC l) hist) (c : Cursor) (n : Nat)
    (hi : Issued (logC l) c) (hU : hist.length + n < U64) :
    (l.readv c n).1 = expectedRead (logC l) c n ∧
    (posNext (l.readv c n).2).1.2 = cursorAbs (logC l) c + (expectedRead (logC l) c n).length ∧
    Issued (logC l) (posNext (l.readv c n).2).1 ∧ (logC l).head ≤ (posNext (l.readv c n).2).1.1 ∧
    ((posNext (l.readv c n).2).2 = true ↔
      cursorAbs (logC l) c + (expectedRead (logC l) c n).length = hist.length) := by
  have hna := h.nextAbs_eq
  obtain ⟨pos, h1, _, h3, h4, h5, h6⟩ := readv_issued (logC l) h.wf c n hi (by omega)
  have hb := readv_bridge l h.wf c n (by omega)
  rw [hb] at h1
  simp only [Except.ok.injEq, Prod.mk.injEq] at h1
  obtain ⟨e1, e2⟩ := h1
  have hlen := expectedRead_length (logC l) h.wf c n hi
  have hbnd := hi.abs_bounds h.wf
  obtain ⟨p1, p2⟩ := posNext_posC (l.readv c n).2
  rw [p1, p2, e2]
  refine ⟨e1, by omega, h4, h5, ?_⟩
  rw [h6]; omega

/-- the values and offsets of the entries a read returns: the history from the cursor's position,
    at most `n`, offsets consecutive -/
theorem clog_readv_entries (l : CLog.Log Pub) (hist : List Pub) (h : Rep (logC l) hist) (c : Cursor) (n : Nat)
    (hi : Issued (logC l) c) (hU : hist.length + n < U64) :
    (l.readv c n).1.map (·.1) = (hist.drop (cursorAbs (logC l) c)).take n ∧
    (l.readv c n).1.map (·.2.2) = List.range' (cursorAbs (logC l) c) (l.readv c n).1.length ∧
    cursorAbs (logC l) c ≤ hist.length := by
  obtain ⟨e1, _⟩ := clog_readv_spec l hist h c n hi hU
  have hb := hi.abs_bounds h.wf
  have hna := h.nextAbs_eq
  rw [e1]
  exact ⟨expectedRead_values _ hist h c n hi, expectedRead_offsets _ h.wf c n hi, by omega⟩

/-- an empty read of `n > 0` entries from an issued cursor means the reader has caught up -/
theorem clog_readv_empty_done (l : CLog.Log Pub) (hist : List Pub) (h : Rep (logC l) hist) (c : Cursor) (n : Nat)
    (hi : Issued (logC l) c) (hU : hist.length + n < U64) (hn : 0 < n) (he : (l.readv c n).1 = []) :
    (posNext (l.readv c n).2).2 = true := by
  obtain ⟨e1, _, _, _, hd⟩ := clog_readv_spec l hist h c n hi hU
  rw [hd]
  have hlen := expectedRead_length (logC l) h.wf c n hi
  have hb := hi.abs_bounds h.wf
  have hna := h.nextAbs_eq
  rw [← e1, he] at hlen
  rw [← e1, he]
  simp only [List.length_nil] at hlen ⊢
  omega

/-- two reads in a row compose: the second, from the continuation of the first, returns exactly
    what follows; together they are one read of `n + m` -/
theorem clog_readv_compose (l : CLog.Log Pub) (hist : List Pub) (h : Rep (logC l) hist) (c : Cursor) (n m : Nat)
    (hi : Issued (logC l) c) (hn : hist.length + n < U64) (hm : hist.length + m < U64) (hnm : hist.length + (n + m) < U64) :
    (l.readv c n).1 ++ (l.readv (posNext (l.readv c n).2).1 m).1 = (l.readv c (n + m)).1 := by
  obtain ⟨e1, e2, e3, e4, _⟩ := clog_readv_spec l hist h c n hi hn
  obtain ⟨f1, _⟩ := clog_readv_spec l hist h _ m e3 hm
  obtain ⟨g1, _⟩ := clog_readv_spec l hist h c (n + m) hi hnm
  rw [f1, g1, e1]
  have hb := hi.abs_bounds h.wf
  have hca : cursorAbs (logC l) (posNext (l.readv c n).2).1 = (posNext (l.readv c n).2).1.2 := by
    unfold cursorAbs
    have : ¬ (posNext (l.readv c n).2).1.1 < (logC l).head := by omega
    simp [this]
  have hlen := expectedRead_length (logC l) h.wf c n hi
  unfold expectedRead at e2 hlen ⊢
  rw [hca, e2, List.take_add]
  congr 1
  rw [hlen, List.drop_drop]
  have hsum := h.wf.first_add_length
  by_cases hk : n ≤ (logC l).nextAbs - cursorAbs (logC l) c
  · congr 2; omega
  · have hl : (tagged (logC l)).length = (flat (logC l).segments).length := length_tagSegs _ _
    rw [List.drop_eq_nil_of_le (by omega), List.drop_eq_nil_of_le (by omega)]

end Rp3
end Router
