/-
C06: the `committed` ghost events (the reference the C06 monitor compares the drained acks with)
are exactly the acks appended to the ack logs: per packet and per batch.
-/
import Proofs.Lemmas.Router.Rp2_Acks
import Proofs.Lemmas.Router.Rp2_Qos2
namespace Router

/-- the `committed` events of a piece of ghost history: (connection id, ack) -/
def committedEvents (g : List Ghost) : List (Nat × Ack) :=
  g.filterMap (fun e => match e with | .committed i a => some (i, a) | _ => none)

@[simp] theorem committedEvents_append (a b : List Ghost) :
    committedEvents (a ++ b) = committedEvents a ++ committedEvents b := by
  simp [committedEvents]

/-- the ghost history grows by events whose `committed` projection is `cs` -/
def Commits (s s' : RState) (cs : List (Nat × Ack)) : Prop :=
  ∃ evs, s'.ghost = s.ghost ++ evs ∧ committedEvents evs = cs

theorem Commits.refl (s : RState) : Commits s s [] := ⟨[], by simp, rfl⟩

theorem Commits.trans {a b c : RState} {x y : List (Nat × Ack)} (h1 : Commits a b x) (h2 : Commits b c y) :
    Commits a c (x ++ y) := by
  obtain ⟨e1, g1, c1⟩ := h1
  obtain ⟨e2, g2, c2⟩ := h2
  exact ⟨e1 ++ e2, by rw [g2, g1, List.append_assoc], by rw [committedEvents_append, c1, c2]⟩

theorem Commits.of_eq {s s' : RState} (h : s'.ghost = s.ghost) : Commits s s' [] := ⟨[], by simp [h], rfl⟩

theorem Commits.nil_trans {a b c : RState} {y : List (Nat × Ack)} (h1 : Commits a b []) (h2 : Commits b c y) :
    Commits a c y := by simpa using h1.trans h2

theorem Commits.trans_nil {a b c : RState} {x : List (Nat × Ack)} (h1 : Commits a b x) (h2 : Commits b c []) :
    Commits a c x := by simpa using h1.trans h2

theorem Commits.precomp {s0 s s' : RState} {cs : List (Nat × Ack)} (h : Commits s s' cs)
    (hg : s.ghost = s0.ghost) : Commits s0 s' cs := by
  obtain ⟨evs, g, c⟩ := h
  exact ⟨evs, by rw [g, hg], c⟩

/-- one event that is not a `committed` one -/
theorem Commits.g_other {s : RState} (e : Ghost) (he : committedEvents [e] = []) : Commits s (s.g e) [] :=
  ⟨[e], rfl, he⟩

theorem Commits.g_commit (s : RState) (id : Nat) (a : Ack) : Commits s (s.g (.committed id a)) [(id, a)] :=
  ⟨[.committed id a], rfl, rfl⟩

theorem commitAck_commits {s s' : RState} {id : Nat} {a : Ack} (h : commitAck s id a = .ok s') :
    Commits s s' [(id, a)] := by
  unfold commitAck at h
  split at h
  · simp at h
  · simp only [Except.ok.injEq] at h; subst h
    exact ⟨[.committed id a], rfl, rfl⟩

theorem reschedule_commits {s s' : RState} {id : Nat} {r : SchedReason} (h : reschedule s id r = .ok s') :
    Commits s s' [] := Commits.of_eq (reschedule_data h).2.1

theorem track_commits {s s' : RState} {id : Nat} {r : DataRequest} (h : track s id r = .ok s') :
    Commits s s' [] := Commits.of_eq (track_data h).2.1

theorem appendToFilter_commits {s s' : RState} {i : Nat} {p : Pub} (h : appendToFilter s i p = .ok s') :
    Commits s s' [] := by
  unfold appendToFilter at h
  split at h
  · simp at h
  · simp only [Except.ok.injEq] at h
    subst h
    split
    · rename_i fd _ _
      exact ⟨[.evicted i (((fd.log.append p (pubSize p)).1.segs.head?.map (·.abs)).getD 0),
              .appended i ((fd.log.append p (pubSize p)).2.2 - 1) p], by simp [RState.g], rfl⟩
    · rename_i fd _ _
      exact ⟨[.appended i ((fd.log.append p (pubSize p)).2.2 - 1) p], by simp [RState.g], rfl⟩

theorem appendToFilters_commits : ∀ (idxs : List Nat) {s s' : RState} {p : Pub},
    appendToFilters s idxs p = .ok s' → Commits s s' []
  | [], s, s', p, h => by simp only [appendToFilters, Except.ok.injEq] at h; subst h; exact Commits.refl _
  | i :: is, s, s', p, h => by
    simp only [appendToFilters] at h
    split at h
    · simp at h
    · rename_i s1 h1
      exact (appendToFilter_commits h1).nil_trans (appendToFilters_commits is h)

theorem appendToCommitlog_commits {s s' : RState} {id : Nat} {p : Pub} {e : Option AppendErr}
    (h : appendToCommitlog s id p = .ok (s', e)) : Commits s s' [] := by
  cases e with
  | some e => exact Commits.of_eq (appendToCommitlog_err h).2
  | none =>
    obtain ⟨q, topic, s0, s1, idxs, evs, _, _, _, _, _, hm, hg, _, _, _, _⟩ := appendToCommitlog_ok h
    -- re-derive from the structure: accepted event, then the filter appends
    unfold appendToCommitlog at h
    split at h
    · simp at h
    · simp only [] at h
      split at h
      · simp at h
      · split at h
        · simp at h
        · rename_i s1' p1 hr
          have f1 : s1'.ghost = s.ghost := by
            split at hr
            · simp only [Except.ok.injEq, Prod.mk.injEq] at hr; obtain ⟨rfl, _⟩ := hr; rfl
            · split at hr
              · simp at hr
              · split at hr
                · split at hr
                  · simp at hr
                  · simp only [Except.ok.injEq, Prod.mk.injEq] at hr; obtain ⟨rfl, _⟩ := hr; rfl
                · split at hr
                  · simp at hr
                  · simp only [Except.ok.injEq, Prod.mk.injEq] at hr; obtain ⟨rfl, _⟩ := hr; rfl
          split at h
          · simp at h
          · rename_i topic' ht
            split at h
            · simp at h
            · rename_i s2 idxs' h2
              split at h
              · simp at h
              · rename_i s3 h3
                simp only [Except.ok.injEq, Prod.mk.injEq, and_true] at h; subst h
                have c1 : Commits s ((updateRetained s1' topic' p1).g (.accepted (some id) p1 topic')) [] :=
                  ⟨[.accepted (some id) p1 topic'], by simp [RState.g, (updateRetained_same s1' topic' p1).1, f1], rfl⟩
                have c2 : Commits ((updateRetained s1' topic' p1).g (.accepted (some id) p1 topic')) s2 [] :=
                  Commits.of_eq (dlMatches_same h2).1
                exact (c1.nil_trans c2).nil_trans (appendToFilters_commits idxs' h3)

theorem prepareFilter_commits {s s' : RState} {id : Nat} {cursor : Cursor} {idx : Nat} {f : SubFilter}
    {group : Option String} {subId : Option Nat}
    (h : prepareFilter s id cursor idx f group subId = .ok s') : Commits s s' [] := by
  have hb : ∀ c, (prepBook s id cursor f group c).ghost = s.ghost := by
    intro c; unfold prepBook; cases group <;> rfl
  cases hc : getConn s id with
  | none =>
    unfold prepareFilter at h
    simp only [getConn] at hc
    simp only [getConn, hc] at h
    simp at h
  | some c =>
    cases hin : c.subscriptions.contains f.path with
    | true =>
      rw [prepareFilter_repeated s id cursor idx f group subId c hc hin] at h
      simp only [Except.ok.injEq] at h; subst h
      exact ⟨[.subscribed id f.path f.qos idx cursor group false], by simp [RState.g, setConn, hb], rfl⟩
    | false =>
      obtain ⟨s1, h1, h2⟩ := prepareFilter_new s s' id cursor idx f group subId c hc hin h
      have c0 : Commits s (setConn ((prepBook s id cursor f group c).g (.subscribed id f.path f.qos idx cursor group true)) id
          { prepConn f subId c with subscriptions := c.subscriptions ++ [f.path] }) [] :=
        ⟨[.subscribed id f.path f.qos idx cursor group true], by simp [RState.g, setConn, hb], rfl⟩
      exact (c0.nil_trans (track_commits h1)).nil_trans (reschedule_commits h2)

theorem subscribeFilters_commits (id : Nat) (subId : Option Nat) : ∀ (fs : List SubFilter) {s s' : RState}
    {codes codes' : List Nat} {fl fl' : Flags},
    subscribeFilters s id subId fs codes fl = .ok (s', codes', fl') → Commits s s' []
  | [], s, s', codes, codes', fl, fl', h => by
    simp only [subscribeFilters, Except.ok.injEq, Prod.mk.injEq] at h; obtain ⟨rfl, _⟩ := h; exact Commits.refl _
  | f :: rest, s, s', codes, codes', fl, fl', h => by
    simp only [subscribeFilters] at h
    split at h
    · simp only [Except.ok.injEq, Prod.mk.injEq] at h; obtain ⟨rfl, _⟩ := h; exact Commits.refl _
    · split at h
      · simp only [Except.ok.injEq, Prod.mk.injEq] at h; obtain ⟨rfl, _⟩ := h; exact Commits.refl _
      · split at h
        · simp at h
        · rename_i s1 h1
          have c0 : Commits s (nextNativeOffset s (match extractGroup f.path with
              | some (g, p) => (some g, p)
              | none => (none, f.path)).2).1 [] := by
            refine Commits.of_eq ?_
            unfold nextNativeOffset; split <;> rfl
          exact (c0.nil_trans (prepareFilter_commits h1)).nil_trans (subscribeFilters_commits id subId rest h)

theorem unsubOne_commits (s : RState) (id : Nat) (f : String) (ids : List Nat) (c : Conn) :
    Commits s (unsubOne s id f ids c) [] := by
  have hg := unsubGroup_same { s with subscriptionMap := ainsert f (ids.filter (· ≠ id)) s.subscriptionMap } f c.clientId
  refine ⟨[.unsubscribed id f], ?_, rfl⟩
  unfold unsubOne
  simp only [RState.g, setConn]
  rw [hg.2.2.2.2.1]

theorem unsubscribeFilters_commits (id : Nat) : ∀ (fs : List String) {s s' : RState} {rs rs' : List Bool},
    unsubscribeFilters s id fs rs = .ok (s', rs') → Commits s s' []
  | [], s, s', rs, rs', h => by
    simp only [unsubscribeFilters, Except.ok.injEq, Prod.mk.injEq] at h; obtain ⟨rfl, _⟩ := h; exact Commits.refl _
  | f :: rest, s, s', rs, rs', h => by
    rw [unsubscribeFilters_cons_rp2] at h
    split at h
    · exact unsubscribeFilters_commits id rest h
    · split at h
      · exact unsubscribeFilters_commits id rest h
      · split at h
        · simp at h
        · rename_i c hc
          split at h
          · exact Commits.precomp (unsubscribeFilters_commits id rest h) rfl
          · exact (unsubOne_commits s id f _ c).nil_trans (unsubscribeFilters_commits id rest h)

/-- one packet: the `committed` events recorded are exactly the acks appended to the requester's
    ack log, attributed to the requester -/
theorem handlePacket_commits {s s' : RState} {id : Nat} {cid : String} {pkt : Packet} {fl fl' : Flags}
    (h : handlePacket s id cid pkt fl = .ok (s', fl')) :
    ∃ as, Appended s s' id as ∧ Commits s s' (as.map (fun a => (id, a))) := by
  cases pkt with
  | publish p =>
    have ha := (handlePacket_publish_appended h).1
    refine ⟨_, ha, ?_⟩
    simp only [handlePacket] at h
    by_cases h1 : p.qos = 1
    · simp only [h1, if_true] at h ⊢
      split at h
      · simp at h
      · rename_i s1 fl1 hpre
        split at hpre <;> simp at hpre
      · rename_i s1 fl1 hpre
        split at hpre
        · simp at hpre
        · rename_i s0 hca
          simp only [Except.ok.injEq, Prod.mk.injEq] at hpre; obtain ⟨rfl, _, _⟩ := hpre
          split at h
          · simp at h
          all_goals
            (rename_i hap
             simp only [Except.ok.injEq, Prod.mk.injEq] at h; obtain ⟨rfl, _⟩ := h
             exact (commitAck_commits hca).trans_nil (appendToCommitlog_commits hap))
    · by_cases h2 : p.qos = 2
      · simp only [h2] at h ⊢
        simp only [show ¬ (2 = 1) by decide, if_false, if_true] at h ⊢
        split at h
        · simp at h
        · rename_i s1 fl1 hpre
          simp only [Except.ok.injEq, Prod.mk.injEq] at h; obtain ⟨rfl, _⟩ := h
          split at hpre
          · simp at hpre
          · simp only [Except.ok.injEq, Prod.mk.injEq] at hpre; obtain ⟨rfl, _, _⟩ := hpre
            exact ⟨[.committed id (.pubrec p.pkid)], rfl, rfl⟩
        · rename_i s1 fl1 hpre
          split at hpre <;> simp at hpre
      · simp only [h1, h2, if_false] at h ⊢
        split at h
        · simp at h
        all_goals
          (rename_i hap
           simp only [Except.ok.injEq, Prod.mk.injEq] at h; obtain ⟨rfl, _⟩ := h
           exact appendToCommitlog_commits hap)
  | subscribe pkid subId fs =>
    obtain ⟨codes, ha, _⟩ := handlePacket_subscribe_appended h
    simp only [handlePacket] at h
    split at h
    · simp at h
    · rename_i s1 codes1 fl1 hsf
      split at h
      · simp at h
      · rename_i s2 hca
        simp only [Except.ok.injEq, Prod.mk.injEq] at h; obtain ⟨rfl, _⟩ := h
        have hc2 := (subscribeFilters_commits id subId fs hsf).nil_trans (commitAck_commits hca)
        have ha2 : Appended s s2 id [Ack.suback pkid codes1] :=
          Appended.frame_left (subscribeFilters_frame id subId fs hsf) (commitAck_appended hca)
        exact ⟨_, ha2, hc2⟩
  | unsubscribe pkid fs =>
    simp only [handlePacket] at h
    split at h
    · simp at h
    · split at h
      · simp at h
      · rename_i s1 rs hu
        split at h
        · simp at h
        · rename_i s2 hca
          simp only [Except.ok.injEq, Prod.mk.injEq] at h; obtain ⟨rfl, _⟩ := h
          have hc2 := (unsubscribeFilters_commits id fs hu).nil_trans (commitAck_commits hca)
          have ha2 : Appended s s2 id [Ack.unsuback pkid rs] :=
            Appended.frame_left (unsubscribeFilters_frame id fs hu).1 (commitAck_appended hca)
          exact ⟨_, ha2, hc2⟩
  | pingreq =>
    have ha := (handlePacket_pingreq_appended h).1
    simp only [handlePacket] at h
    split at h
    · simp at h
    · rename_i s2 hca
      simp only [Except.ok.injEq, Prod.mk.injEq] at h; obtain ⟨rfl, _⟩ := h
      exact ⟨_, ha, commitAck_commits hca⟩
  | puback pkid =>
    have ha := handlePacket_puback_appended h
    refine ⟨[], ha, ?_⟩
    simp only [handlePacket] at h
    split at h
    · simp at h
    · split at h
      · simp only [Except.ok.injEq, Prod.mk.injEq] at h; obtain ⟨rfl, _⟩ := h
        exact Commits.of_eq rfl
      · split at h
        · simp at h
        · rename_i s2 h2
          simp only [Except.ok.injEq, Prod.mk.injEq] at h; obtain ⟨rfl, _⟩ := h
          obtain ⟨evs, g, c⟩ := reschedule_commits h2
          exact ⟨[.clientAcked id pkid] ++ evs, by rw [g]; simp [RState.g, setConn],
            by rw [committedEvents_append, c]; rfl⟩
  | pubrec pkid =>
    simp only [handlePacket] at h
    split at h
    · simp at h
    · rename_i c hc
      split at h
      · simp only [Except.ok.injEq, Prod.mk.injEq] at h; obtain ⟨rfl, _⟩ := h
        refine ⟨[], Appended.of_frame (AckFrame.setConn hc ?_) id, Commits.of_eq rfl⟩
        rfl
      · split at h
        · simp at h
        · rename_i s2 h2
          simp only [Except.ok.injEq, Prod.mk.injEq] at h; obtain ⟨rfl, _⟩ := h
          refine ⟨[Ack.pubrel pkid], Appended.frame_right ?_ (reschedule_frame h2), ?_⟩
          · refine Appended.g (Appended.g (Appended.setConn hc ?_ ?_ ?_) _) _ <;> rfl
          · obtain ⟨evs, g, c⟩ := reschedule_commits h2
            exact ⟨[.clientAcked id pkid, .committed id (.pubrel pkid)] ++ evs, by rw [g]; simp [RState.g, setConn],
              by rw [committedEvents_append, c]; rfl⟩
  | pubrel pkid hpr =>
    have ha := handlePacket_pubrel_appended h
    refine ⟨_, ha, ?_⟩
    simp only [handlePacket] at h
    split at h
    · simp at h
    · rename_i c hc
      split at h
      · simp only [Except.ok.injEq, Prod.mk.injEq] at h; obtain ⟨rfl, _⟩ := h
        exact ⟨[.committed id (.pubcomp pkid)], rfl, rfl⟩
      · rename_i p rest hrec
        have c0 : Commits s ((setConn s id { c with acks := { committed := c.acks.committed ++ [Ack.pubcomp pkid], recorded := rest } }).g
            (.committed id (.pubcomp pkid))) [(id, Ack.pubcomp pkid)] :=
          ⟨[.committed id (.pubcomp pkid)], rfl, rfl⟩
        split at h
        · simp at h
        · rename_i s2 e hap
          simp only [Except.ok.injEq, Prod.mk.injEq] at h; obtain ⟨rfl, _⟩ := h
          exact c0.trans_nil (appendToCommitlog_commits hap)
        · rename_i s2 hap
          split at h
          · simp at h
          · rename_i s3 h3
            simp only [Except.ok.injEq, Prod.mk.injEq] at h; obtain ⟨rfl, _⟩ := h
            exact (c0.trans_nil (appendToCommitlog_commits hap)).trans_nil (reschedule_commits h3)
  | pubcomp pkid =>
    have ha := handlePacket_pubcomp_appended h
    refine ⟨[], ha, ?_⟩
    simp only [handlePacket] at h
    split at h
    · simp at h
    · split at h <;>
        (simp only [Except.ok.injEq, Prod.mk.injEq] at h; obtain ⟨rfl, _⟩ := h; exact Commits.of_eq rfl)
  | disconnect =>
    simp only [handlePacket, Except.ok.injEq, Prod.mk.injEq] at h; obtain ⟨rfl, _⟩ := h
    refine ⟨[], Appended.of_frame (AckFrame.of_eq ?_ ?_) id, ⟨[.willCleared cid], rfl, rfl⟩⟩ <;> rfl
  | other =>
    simp only [handlePacket, Except.ok.injEq, Prod.mk.injEq] at h; obtain ⟨rfl, _⟩ := h
    exact ⟨[], Appended.of_frame (AckFrame.refl _) id, Commits.refl _⟩

/-- one batch: likewise -/
theorem handlePackets_commits (id : Nat) (cid : String) : ∀ (pkts : List Packet) {s s' : RState} {fl fl' : Flags},
    handlePackets s id cid pkts fl = .ok (s', fl') →
    ∃ as, Appended s s' id as ∧ Commits s s' (as.map (fun a => (id, a)))
  | [], s, s', fl, fl', h => by
    simp only [handlePackets, Except.ok.injEq, Prod.mk.injEq] at h; obtain ⟨rfl, _⟩ := h
    exact ⟨[], Appended.of_frame (AckFrame.refl _) id, Commits.refl _⟩
  | p :: rest, s, s', fl, fl', h => by
    simp only [handlePackets] at h
    split at h
    · simp at h
    · rename_i s1 fl1 h1
      obtain ⟨as, a1, c1⟩ := handlePacket_commits h1
      split at h
      · simp only [Except.ok.injEq, Prod.mk.injEq] at h; obtain ⟨rfl, _⟩ := h
        exact ⟨as, a1, c1⟩
      · obtain ⟨bs, a2, c2⟩ := handlePackets_commits id cid rest h
        exact ⟨as ++ bs, a1.trans a2, by simpa using c1.trans c2⟩

end Router
