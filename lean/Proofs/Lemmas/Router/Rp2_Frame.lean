/-
Frame relation used by the C06 / C15 / C16 request-level theorems: which helper functions of the
router model leave the ack logs (and link / client id) of every connection untouched, and the
link buffers untouched.
-/
import Proofs.Lemmas.Router.Frame
namespace Router

/-- what the ack theorems look at in a connection -/
def Conn.view (c : Conn) : AckLog × Nat × String := (c.acks, c.link, c.clientId)

/-- every connection slot holds a connection with the same ack log, link and client id -/
def ConnFrame (s s' : RState) : Prop :=
  ∀ j, (getConn s' j).map Conn.view = (getConn s j).map Conn.view

theorem ConnFrame.refl (s : RState) : ConnFrame s s := fun _ => rfl

theorem ConnFrame.trans {a b c : RState} (h1 : ConnFrame a b) (h2 : ConnFrame b c) : ConnFrame a c :=
  fun j => (h2 j).trans (h1 j)

theorem ConnFrame.of_conns {s s' : RState} (h : s'.conns = s.conns) : ConnFrame s s' := by
  intro j; unfold getConn; rw [h]

theorem ConnFrame.setConn {s : RState} {id : Nat} {c c' : Conn} (h : getConn s id = some c)
    (hv : c'.view = c.view) : ConnFrame s (setConn s id c') := by
  intro j
  by_cases hj : j = id
  · subst hj
    rw [getConn_setConn_same _ _ _ (getConn_lt h), h]; simp [hv]
  · rw [getConn_setConn_ne _ _ _ _ hj]

/-- a connection found before is found after, with the same view -/
theorem ConnFrame.get {s s' : RState} (h : ConnFrame s s') {j : Nat} {c : Conn} (hc : getConn s j = some c) :
    ∃ c', getConn s' j = some c' ∧ c'.acks = c.acks ∧ c'.link = c.link ∧ c'.clientId = c.clientId := by
  have := h j
  rw [hc] at this
  cases h' : getConn s' j with
  | none => simp [h'] at this
  | some c' =>
    simp only [h', Option.map_some, Option.some.injEq, Conn.view, Prod.mk.injEq] at this
    exact ⟨c', rfl, this.1, this.2.1, this.2.2⟩

theorem ConnFrame.get_none {s s' : RState} (h : ConnFrame s s') {j : Nat} (hc : getConn s j = none) :
    getConn s' j = none := by
  have := h j
  rw [hc] at this
  cases h' : getConn s' j with
  | none => rfl
  | some c' => simp [h'] at this

/-- links untouched and every connection's view untouched -/
structure AckFrame (s s' : RState) : Prop where
  links : s'.links = s.links
  conns : ConnFrame s s'

theorem AckFrame.refl (s : RState) : AckFrame s s := ⟨rfl, ConnFrame.refl s⟩

theorem AckFrame.trans {a b c : RState} (h1 : AckFrame a b) (h2 : AckFrame b c) : AckFrame a c :=
  ⟨h2.links.trans h1.links, h1.conns.trans h2.conns⟩

theorem AckFrame.of_eq {s s' : RState} (hl : s'.links = s.links) (h : s'.conns = s.conns) : AckFrame s s' :=
  ⟨hl, ConnFrame.of_conns h⟩

theorem AckFrame.congr {s s1 s2 : RState} (h : AckFrame s s1) (hl : s2.links = s1.links)
    (hc : s2.conns = s1.conns) : AckFrame s s2 :=
  h.trans (AckFrame.of_eq hl hc)

theorem AckFrame.precomp {s0 s s' : RState} (h : AckFrame s s') (hl : s.links = s0.links)
    (hc : s.conns = s0.conns) : AckFrame s0 s' :=
  (AckFrame.of_eq hl hc).trans h

theorem AckFrame.setConn {s : RState} {id : Nat} {c c' : Conn} (h : getConn s id = some c)
    (hv : c'.view = c.view) : AckFrame s (setConn s id c') :=
  ⟨rfl, ConnFrame.setConn h hv⟩

theorem AckFrame.getLink {s s' : RState} (h : AckFrame s s') (l : Nat) : getLink s' l = getLink s l := by
  unfold Router.getLink; rw [h.links]

/-! ### scheduler -/

theorem reschedule_frame {s s' : RState} {id : Nat} {r : SchedReason}
    (h : reschedule s id r = .ok s') : AckFrame s s' := by
  unfold reschedule at h
  split at h
  · simp at h
  · rename_i c hc
    split at h
    · simp at h
    · simp only [Except.ok.injEq] at h; subst h
      split
      · rename_i t _ _ _
        exact AckFrame.congr (s1 := setConn s id { c with tracker := t }) (AckFrame.setConn hc rfl) rfl rfl
      · exact AckFrame.setConn hc rfl

theorem track_frame {s s' : RState} {id : Nat} {r : DataRequest}
    (h : track s id r = .ok s') : AckFrame s s' := by
  unfold track at h
  split at h
  · simp at h
  · rename_i c hc
    simp only [Except.ok.injEq] at h; subst h
    exact AckFrame.setConn hc rfl

theorem drainNotifications_frame : ∀ (ns : List (Nat × DataRequest)) {s s' : RState},
    drainNotifications s ns = .ok s' → AckFrame s s'
  | [], s, s', h => by simp only [drainNotifications, Except.ok.injEq] at h; subst h; exact AckFrame.refl _
  | (id, r) :: rest, s, s', h => by
    simp only [drainNotifications] at h
    split at h
    · simp at h
    · rename_i s1 h1
      split at h
      · simp at h
      · rename_i s2 h2
        exact ((track_frame h1).trans (reschedule_frame h2)).trans (drainNotifications_frame rest h)

/-! ### datalog -/

/-- the wake-up of parked group members touches trackers, ready queue and waiter lists only -/
theorem wakeParked_frame {s s' : RState} {logs : List Nat} (h : wakeParked s logs = .ok s') : AckFrame s s' :=
  wakeParked_rel AckFrame AckFrame.refl (fun _ _ _ => AckFrame.trans)
    (fun _ _ _ _ => AckFrame.of_eq rfl rfl) (fun _ _ ns h => drainNotifications_frame ns h) h

theorem wakeTurnMoved_frame {s s' : RState} (h : wakeTurnMoved s = .ok s') : AckFrame s s' :=
  wakeTurnMoved_rel AckFrame AckFrame.refl (fun _ _ _ => AckFrame.trans)
    (fun _ _ _ _ => AckFrame.of_eq rfl rfl) (fun _ _ ns h => drainNotifications_frame ns h)
    (fun _ => AckFrame.of_eq rfl rfl) h

theorem noteTurn_frame (s0 s1 : RState) (req : DataRequest) : AckFrame s1 (noteTurn s0 s1 req) := by
  obtain ⟨tm, e⟩ := noteTurn_eq s0 s1 req
  rw [e]; exact AckFrame.of_eq rfl rfl

theorem dlMatches_frame {s s' : RState} {topic : String} {v : List Nat}
    (h : dlMatches s topic = .ok (s', v)) : AckFrame s s' := by
  unfold dlMatches at h
  split at h
  · simp only [Except.ok.injEq, Prod.mk.injEq] at h; obtain ⟨rfl, _⟩ := h; exact AckFrame.refl _
  · split at h
    · simp only [] at h
      split at h
      · simp only [Except.ok.injEq, Prod.mk.injEq] at h; obtain ⟨rfl, _⟩ := h; exact AckFrame.of_eq rfl rfl
      · simp at h
    · simp at h

theorem appendToFilter_frame {s s' : RState} {idx : Nat} {p : Pub}
    (h : appendToFilter s idx p = .ok s') : AckFrame s s' := by
  unfold appendToFilter at h
  split at h
  · simp at h
  · simp only [Except.ok.injEq] at h
    subst h
    split <;> exact AckFrame.of_eq rfl rfl

theorem appendToFilters_frame : ∀ (idxs : List Nat) {s s' : RState} {p : Pub},
    appendToFilters s idxs p = .ok s' → AckFrame s s'
  | [], s, s', p, h => by simp only [appendToFilters, Except.ok.injEq] at h; subst h; exact AckFrame.refl _
  | i :: is, s, s', p, h => by
    simp only [appendToFilters] at h
    split at h
    · simp at h
    · rename_i s1 h1
      exact (appendToFilter_frame h1).trans (appendToFilters_frame is h)

theorem updateRetained_frame (s : RState) (topic : String) (p : Pub) : AckFrame s (updateRetained s topic p) := by
  unfold updateRetained
  simp only []
  split
  · exact AckFrame.of_eq rfl rfl
  · split
    · exact AckFrame.of_eq rfl rfl
    · exact AckFrame.refl _

theorem nextNativeOffset_frame (s : RState) (filter : String) : AckFrame s (nextNativeOffset s filter).1 := by
  unfold nextNativeOffset
  split
  · exact AckFrame.refl _
  · exact AckFrame.of_eq rfl rfl

/-- `append_to_commitlog` touches only the publisher's topic aliases among the connection fields -/
theorem appendToCommitlog_frame {s s' : RState} {id : Nat} {p : Pub} {e : Option AppendErr}
    (h : appendToCommitlog s id p = .ok (s', e)) : AckFrame s s' := by
  unfold appendToCommitlog at h
  split at h
  · simp at h
  · rename_i c hc
    simp only [] at h
    split at h
    · simp only [Except.ok.injEq, Prod.mk.injEq] at h; obtain ⟨rfl, _⟩ := h; exact AckFrame.refl _
    · split at h
      · simp only [Except.ok.injEq, Prod.mk.injEq] at h; obtain ⟨rfl, _⟩ := h; exact AckFrame.refl _
      · rename_i s1 p1 hr
        have f1 : AckFrame s s1 := by
          split at hr
          · simp only [Except.ok.injEq, Prod.mk.injEq] at hr; obtain ⟨rfl, _⟩ := hr; exact AckFrame.refl _
          · split at hr
            · simp at hr
            · split at hr
              · split at hr
                · simp at hr
                · simp only [Except.ok.injEq, Prod.mk.injEq] at hr; obtain ⟨rfl, _⟩ := hr; exact AckFrame.refl _
              · split at hr
                · simp at hr
                · simp only [Except.ok.injEq, Prod.mk.injEq] at hr; obtain ⟨rfl, _⟩ := hr
                  exact AckFrame.setConn hc rfl
        split at h
        · simp only [Except.ok.injEq, Prod.mk.injEq] at h; obtain ⟨rfl, _⟩ := h; exact f1
        · rename_i topic ht
          split at h
          · simp at h
          · rename_i s2 idxs h2
            split at h
            · simp at h
            · rename_i s3 h3
              simp only [Except.ok.injEq, Prod.mk.injEq] at h; obtain ⟨rfl, _⟩ := h
              have f2 : AckFrame s1 ((updateRetained s1 topic p1).g (.accepted (some id) p1 topic)) :=
                ⟨(updateRetained_frame s1 topic p1).links, (updateRetained_frame s1 topic p1).conns⟩
              exact ((f1.trans f2).trans (dlMatches_frame h2)).trans (appendToFilters_frame idxs h3)

end Router
