/-
`Shape R s s'`: the step from `s` to `s'` neither adds nor removes a connection, leaves `config`,
`connectionMap` and the slab's free list alone, and relates every live connection `j` to its
successor by `R j`. Every helper of the router except `handleDisconnection` /
`handleNewConnection` has this shape for one of three relations:
  `RT`     only the tracker of a connection may differ,
  `RO id`  identity fields and the outgoing window are kept; connections other than `id` differ at
           most in their tracker,
  `RW id`  identity fields are kept; connections other than `id` differ at most in their tracker.
UNSUBSCRIBE (which makes window entries of the ended subscription forget their cursor) has its own
relation `RU id`; `RA id` (a packet batch) allows both acknowledged entries leaving at the front and
forgotten cursors.
-/
import Proofs.Lemmas.Router.Rp1_Slab
namespace Router

/-- the fields fixed at registration -/
def Conn.sameId (c c' : Conn) : Prop :=
  c'.clientId = c.clientId ∧ c'.link = c.link ∧ c'.clean = c.clean ∧ c'.dynamicFilters = c.dynamicFilters

theorem Conn.sameId_refl (c : Conn) : c.sameId c := ⟨rfl, rfl, rfl, rfl⟩
theorem Conn.sameId_trans {a b c : Conn} (h1 : a.sameId b) (h2 : b.sameId c) : a.sameId c :=
  ⟨h2.1.trans h1.1, h2.2.1.trans h1.2.1, h2.2.2.1.trans h1.2.2.1, h2.2.2.2.trans h1.2.2.2⟩

class ConnRel (R : Nat → Conn → Conn → Prop) : Prop where
  refl : ∀ j c, R j c c
  trans : ∀ j a b c, R j a b → R j b c → R j a c

/-- only the tracker differs -/
def RT : Nat → Conn → Conn → Prop := fun _ c c' => ∃ t, c' = { c with tracker := t }
/-- identity and outgoing window kept; others differ at most in the tracker -/
def RO (id : Nat) : Nat → Conn → Conn → Prop :=
  fun j c c' => c.sameId c' ∧ c'.out = c.out ∧ (j ≠ id → RT j c c')
/-- identity kept; others differ at most in the tracker -/
def RW (id : Nat) : Nat → Conn → Conn → Prop :=
  fun j c c' => c.sameId c' ∧ (j ≠ id → RT j c c')

/-! ### windows whose entries may forget their cursor (UNSUBSCRIBE, `Outgoing.forgetCursors`) -/

/-- a window entry keeps packet id and filter index; its cursor stays or is forgotten -/
def EForget (e e' : Nat × Nat × Option Cursor) : Prop :=
  e'.1 = e.1 ∧ e'.2.1 = e.2.1 ∧ (e'.2.2 = e.2.2 ∨ e'.2.2 = none)

/-- entry by entry: same packet ids, same filter indexes, same order and length; cursors may have
    been forgotten -/
def Forgets : List (Nat × Nat × Option Cursor) → List (Nat × Nat × Option Cursor) → Prop
  | [], [] => True
  | e :: l, e' :: l' => EForget e e' ∧ Forgets l l'
  | [], _ :: _ => False
  | _ :: _, [] => False

theorem EForget.refl (e : Nat × Nat × Option Cursor) : EForget e e := ⟨rfl, rfl, .inl rfl⟩
theorem EForget.trans {a b c : Nat × Nat × Option Cursor} (h1 : EForget a b) (h2 : EForget b c) : EForget a c :=
  ⟨h2.1.trans h1.1, h2.2.1.trans h1.2.1, by
    rcases h2.2.2 with e | e
    · rcases h1.2.2 with e' | e'
      · exact .inl (e.trans e')
      · exact .inr (e.trans e')
    · exact .inr e⟩

theorem Forgets.refl : ∀ l, Forgets l l
  | [] => trivial
  | e :: l => ⟨EForget.refl e, Forgets.refl l⟩

theorem Forgets.of_eq {l l' : List (Nat × Nat × Option Cursor)} (h : l' = l) : Forgets l l' := h ▸ Forgets.refl l

theorem Forgets.trans : ∀ {a b c : List (Nat × Nat × Option Cursor)}, Forgets a b → Forgets b c → Forgets a c
  | [], [], [], _, _ => trivial
  | _ :: _, _ :: _, _ :: _, h1, h2 => ⟨h1.1.trans h2.1, Forgets.trans h1.2 h2.2⟩
  | [], _ :: _, _, h1, _ => h1.elim
  | _ :: _, [], _, h1, _ => h1.elim
  | [], [], _ :: _, _, h2 => h2.elim
  | _ :: _, _ :: _, [], _, h2 => h2.elim

theorem Forgets.length : ∀ {l l' : List (Nat × Nat × Option Cursor)}, Forgets l l' → l'.length = l.length
  | [], [], _ => rfl
  | _ :: _, _ :: _, h => by simp [Forgets.length h.2]
  | [], _ :: _, h => h.elim
  | _ :: _, [], h => h.elim

theorem Forgets.drop : ∀ {l l' : List (Nat × Nat × Option Cursor)} (n : Nat), Forgets l l' →
    Forgets (l.drop n) (l'.drop n)
  | _, _, 0, h => by simpa using h
  | [], [], _ + 1, _ => by simp [Forgets]
  | _ :: _, _ :: _, n + 1, h => by simpa using Forgets.drop n h.2
  | [], _ :: _, _ + 1, h => h.elim
  | _ :: _, [], _ + 1, h => h.elim

theorem Forgets.getElem? : ∀ {l l' : List (Nat × Nat × Option Cursor)} {k : Nat} {e' : Nat × Nat × Option Cursor},
    Forgets l l' → l'[k]? = some e' → ∃ e, l[k]? = some e ∧ EForget e e'
  | [], [], _, _, _, hk => by simp at hk
  | e :: _, _ :: _, 0, _, h, hk => by
    simp only [List.getElem?_cons_zero, Option.some.injEq] at hk; subst hk
    exact ⟨e, by simp, h.1⟩
  | _ :: _, _ :: _, k + 1, _, h, hk => by
    simp only [List.getElem?_cons_succ] at hk ⊢
    exact Forgets.getElem? h.2 hk
  | [], _ :: _, _, _, h, _ => h.elim
  | _ :: _, [], _, _, h, _ => h.elim

/-- packet ids and filter indexes, in order -/
theorem Forgets.keys : ∀ {l l' : List (Nat × Nat × Option Cursor)}, Forgets l l' →
    l'.map (fun e => (e.1, e.2.1)) = l.map (fun e => (e.1, e.2.1))
  | [], [], _ => rfl
  | _ :: _, _ :: _, h => by
    simp only [List.map_cons, List.cons.injEq, Prod.mk.injEq]
    exact ⟨⟨h.1.1, h.1.2.1⟩, Forgets.keys h.2⟩
  | [], _ :: _, h => h.elim
  | _ :: _, [], h => h.elim

theorem Forgets.pkids {l l' : List (Nat × Nat × Option Cursor)} (h : Forgets l l') :
    l'.map (·.1) = l.map (·.1) := by
  have := congrArg (List.map Prod.fst) h.keys
  simpa [List.map_map, Function.comp_def] using this

theorem Forgets.nil_iff {l' : List (Nat × Nat × Option Cursor)} : Forgets [] l' ↔ l' = [] := by
  cases l' <;> simp [Forgets]

theorem Forgets.forgetCursors (o : Outgoing) (fi : Nat) : Forgets o.inflight (o.forgetCursors fi).inflight := by
  unfold Outgoing.forgetCursors
  simp only
  induction o.inflight with
  | nil => trivial
  | cons e l ih =>
    refine ⟨?_, ih⟩
    by_cases he : e.2.1 = fi
    · simp only [he, if_true]; exact ⟨rfl, he.symm, .inr rfl⟩
    · simp only [he, if_false]; exact EForget.refl e

theorem forgetCursors_rest (o : Outgoing) (fi : Nat) :
    (o.forgetCursors fi).lastPkid = o.lastPkid ∧ (o.forgetCursors fi).unackedPubrels = o.unackedPubrels := ⟨rfl, rfl⟩

/-- what `unsubOut` does to a window: cursors may be forgotten, nothing else -/
theorem unsubOut_spec (d : DataLog) (subs : List String) (o : Outgoing) (f : String) :
    Forgets o.inflight (unsubOut d subs o f).inflight ∧ (unsubOut d subs o f).lastPkid = o.lastPkid ∧
    (unsubOut d subs o f).unackedPubrels = o.unackedPubrels := by
  unfold unsubOut
  split
  · exact ⟨Forgets.refl _, rfl, rfl⟩
  · split
    · exact ⟨Forgets.refl _, rfl, rfl⟩
    · exact ⟨Forgets.forgetCursors o _, rfl, rfl⟩

/-- the windows of a connection before / after: cursors may be forgotten, nothing else changes -/
def Outgoing.forgot (o o' : Outgoing) : Prop :=
  Forgets o.inflight o'.inflight ∧ o'.lastPkid = o.lastPkid ∧ o'.unackedPubrels = o.unackedPubrels

theorem Outgoing.forgot_refl (o : Outgoing) : o.forgot o := ⟨Forgets.refl _, rfl, rfl⟩
theorem Outgoing.forgot_trans {a b c : Outgoing} (h1 : a.forgot b) (h2 : b.forgot c) : a.forgot c :=
  ⟨h1.1.trans h2.1, h2.2.1.trans h1.2.1, h2.2.2.trans h1.2.2⟩
theorem Outgoing.forgot_of_eq {o o' : Outgoing} (h : o' = o) : o.forgot o' := h ▸ o.forgot_refl

/-- UNSUBSCRIBE: identity kept; window entries of connection `id` may forget their cursor (ids,
    filter indexes, order, `last_pkid`, unacknowledged PUBRELs stay); others differ at most in the
    tracker -/
def RU (id : Nat) : Nat → Conn → Conn → Prop :=
  fun j c c' => c.sameId c' ∧ c.out.forgot c'.out ∧ (j ≠ id → RT j c c')

/-- identity kept; the outgoing window only loses entries at its front (acknowledged ones), the
    remaining ones may forget their cursor (UNSUBSCRIBE) and `last_pkid` stays; others differ at most
    in the tracker -/
def RA (id : Nat) : Nat → Conn → Conn → Prop :=
  fun j c c' => c.sameId c' ∧ (j ≠ id → RT j c c') ∧
    ∃ n, Forgets (c.out.inflight.drop n) c'.out.inflight ∧ c'.out.lastPkid = c.out.lastPkid

theorem RT.mk (j : Nat) (c : Conn) (t : Tracker) : RT j c { c with tracker := t } := ⟨t, rfl⟩

instance : ConnRel RT where
  refl := fun _ c => ⟨c.tracker, rfl⟩
  trans := fun _ a b c h1 h2 => by
    obtain ⟨t1, rfl⟩ := h1; obtain ⟨t2, rfl⟩ := h2; exact ⟨t2, rfl⟩

theorem RT.sameId {j : Nat} {c c' : Conn} (h : RT j c c') : c.sameId c' := by
  obtain ⟨t, rfl⟩ := h; exact ⟨rfl, rfl, rfl, rfl⟩
theorem RT.out {j : Nat} {c c' : Conn} (h : RT j c c') : c'.out = c.out := by
  obtain ⟨t, rfl⟩ := h; rfl

instance (id : Nat) : ConnRel (RO id) where
  refl := fun j c => ⟨c.sameId_refl, rfl, fun _ => ConnRel.refl j c⟩
  trans := fun j a b c h1 h2 =>
    ⟨Conn.sameId_trans h1.1 h2.1, h2.2.1.trans h1.2.1, fun hj => ConnRel.trans j a b c (h1.2.2 hj) (h2.2.2 hj)⟩

instance (id : Nat) : ConnRel (RW id) where
  refl := fun j c => ⟨c.sameId_refl, fun _ => ConnRel.refl j c⟩
  trans := fun j a b c h1 h2 =>
    ⟨Conn.sameId_trans h1.1 h2.1, fun hj => ConnRel.trans j a b c (h1.2 hj) (h2.2 hj)⟩

instance (id : Nat) : ConnRel (RU id) where
  refl := fun j c => ⟨c.sameId_refl, c.out.forgot_refl, fun _ => ConnRel.refl j c⟩
  trans := fun j a b c h1 h2 =>
    ⟨Conn.sameId_trans h1.1 h2.1, Outgoing.forgot_trans h1.2.1 h2.2.1,
      fun hj => ConnRel.trans j a b c (h1.2.2 hj) (h2.2.2 hj)⟩

instance (id : Nat) : ConnRel (RA id) where
  refl := fun j c => ⟨c.sameId_refl, fun _ => ConnRel.refl j c, 0, by simpa using Forgets.refl _, rfl⟩
  trans := fun j a b c h1 h2 => by
    obtain ⟨n, e1, e2⟩ := h1.2.2
    obtain ⟨m, e3, e4⟩ := h2.2.2
    refine ⟨Conn.sameId_trans h1.1 h2.1, fun hj => ConnRel.trans j a b c (h1.2.1 hj) (h2.2.1 hj),
      n + m, ?_, e4.trans e2⟩
    have := (e1.drop m).trans e3
    rwa [List.drop_drop] at this

theorem RO.toRU {id j : Nat} {c c' : Conn} (h : RO id j c c') : RU id j c c' :=
  ⟨h.1, Outgoing.forgot_of_eq h.2.1, h.2.2⟩
theorem RU.toRA {id j : Nat} {c c' : Conn} (h : RU id j c c') : RA id j c c' :=
  ⟨h.1, h.2.2, 0, by simpa using h.2.1.1, h.2.1.2.1⟩
theorem RO.toRA {id j : Nat} {c c' : Conn} (h : RO id j c c') : RA id j c c' := h.toRU.toRA
theorem RA.toRW {id j : Nat} {c c' : Conn} (h : RA id j c c') : RW id j c c' := ⟨h.1, h.2.1⟩

theorem RT.toRO {id j : Nat} {c c' : Conn} (h : RT j c c') : RO id j c c' := ⟨h.sameId, h.out, fun _ => h⟩
theorem RO.toRW {id j : Nat} {c c' : Conn} (h : RO id j c c') : RW id j c c' := ⟨h.1, h.2.2⟩
theorem RT.toRW {id j : Nat} {c c' : Conn} (h : RT j c c') : RW id j c c' := h.toRO.toRW
theorem RT.toRA {id j : Nat} {c c' : Conn} (h : RT j c c') : RA id j c c' := h.toRO.toRA

structure Shape (R : Nat → Conn → Conn → Prop) (s s' : RState) : Prop where
  config : s'.config = s.config
  cmap : s'.connectionMap = s.connectionMap
  free : s'.conns.free = s.conns.free
  elen : s'.conns.entries.length = s.conns.entries.length
  len : s'.conns.len = s.conns.len
  conn : ∀ j, (getConn s j = none ∧ getConn s' j = none) ∨
    ∃ c c', getConn s j = some c ∧ getConn s' j = some c' ∧ R j c c'

namespace Shape
variable {R : Nat → Conn → Conn → Prop}

theorem refl [ConnRel R] (s : RState) : Shape R s s where
  config := rfl
  cmap := rfl
  free := rfl
  elen := rfl
  len := rfl
  conn := fun j => by
    cases h : getConn s j with
    | none => exact .inl ⟨rfl, rfl⟩
    | some c => exact .inr ⟨c, c, rfl, rfl, ConnRel.refl j c⟩

theorem trans [ConnRel R] {s1 s2 s3 : RState} (h1 : Shape R s1 s2) (h2 : Shape R s2 s3) : Shape R s1 s3 where
  config := h2.config.trans h1.config
  cmap := h2.cmap.trans h1.cmap
  free := h2.free.trans h1.free
  elen := h2.elen.trans h1.elen
  len := h2.len.trans h1.len
  conn := fun j => by
    rcases h1.conn j with ⟨a, b⟩ | ⟨c, c', a, b, r⟩
    · rcases h2.conn j with ⟨a', b'⟩ | ⟨d, d', a', b', r'⟩
      · exact .inl ⟨a, b'⟩
      · rw [b] at a'; simp at a'
    · rcases h2.conn j with ⟨a', b'⟩ | ⟨d, d', a', b', r'⟩
      · rw [b] at a'; simp at a'
      · rw [b] at a'
        simp only [Option.some.injEq] at a'
        subst a'
        exact .inr ⟨c, d', a, b', ConnRel.trans j _ _ _ r r'⟩

theorem mono {R' : Nat → Conn → Conn → Prop} {s s' : RState} (hm : ∀ j c c', R j c c' → R' j c c')
    (h : Shape R s s') : Shape R' s s' where
  config := h.config
  cmap := h.cmap
  free := h.free
  elen := h.elen
  len := h.len
  conn := fun j => by
    rcases h.conn j with a | ⟨c, c', a, b, r⟩
    · exact .inl a
    · exact .inr ⟨c, c', a, b, hm _ _ _ r⟩

/-- the right-hand state may be replaced by one with the same `conns`, `config`, `connectionMap` -/
theorem congr {s s1 s2 : RState} (h : Shape R s s1) (hc : s2.conns = s1.conns) (hg : s2.config = s1.config)
    (hm : s2.connectionMap = s1.connectionMap) : Shape R s s2 where
  config := hg.trans h.config
  cmap := hm.trans h.cmap
  free := by rw [hc]; exact h.free
  elen := by rw [hc]; exact h.elen
  len := by rw [hc]; exact h.len
  conn := fun j => by
    have : getConn s2 j = getConn s1 j := by unfold getConn; rw [hc]
    rw [this]; exact h.conn j

/-- same, on the left -/
theorem congr_left {s s1 s2 : RState} (h : Shape R s1 s) (hc : s2.conns = s1.conns) (hg : s2.config = s1.config)
    (hm : s2.connectionMap = s1.connectionMap) : Shape R s2 s where
  config := h.config.trans hg.symm
  cmap := h.cmap.trans hm.symm
  free := by rw [hc]; exact h.free
  elen := by rw [hc]; exact h.elen
  len := by rw [hc]; exact h.len
  conn := fun j => by
    have : getConn s2 j = getConn s1 j := by unfold getConn; rw [hc]
    rw [this]; exact h.conn j

theorem of_eq [ConnRel R] {s s' : RState} (hc : s'.conns = s.conns) (hg : s'.config = s.config)
    (hm : s'.connectionMap = s.connectionMap) : Shape R s s' :=
  (refl s).congr hc hg hm

theorem setConn [ConnRel R] {s : RState} {id : Nat} {c c' : Conn} (h : getConn s id = some c)
    (hR : R id c c') : Shape R s (setConn s id c') where
  config := rfl
  cmap := rfl
  free := rfl
  elen := by simp [Router.setConn, Slab.set]
  len := Slab.len_set_live h c'
  conn := fun j => by
    have e : getConn (Router.setConn s id c') j = if j = id then some c' else getConn s j :=
      Slab.get?_set_live h j c'
    by_cases hj : j = id
    · subst hj
      exact .inr ⟨c, c', h, by simp [e], hR⟩
    · rw [e]; simp only [hj, if_false]
      cases hh : getConn s j with
      | none => exact .inl ⟨rfl, rfl⟩
      | some d => exact .inr ⟨d, d, rfl, rfl, ConnRel.refl j d⟩

/-- `s'` is `s` with connection `id` replaced (and fields other than `conns`, `config`,
    `connectionMap` arbitrary) -/
theorem of_set [ConnRel R] {s s' : RState} {id : Nat} {c c' : Conn} (h : getConn s id = some c)
    (hc : s'.conns = s.conns.set id c') (hg : s'.config = s.config)
    (hm : s'.connectionMap = s.connectionMap) (hR : R id c c') : Shape R s s' :=
  (setConn (c' := c') h hR).congr hc hg hm

/-! consequences -/

theorem live {s s' : RState} (h : Shape R s s') {j : Nat} {c : Conn} (hc : getConn s j = some c) :
    ∃ c', getConn s' j = some c' ∧ R j c c' := by
  rcases h.conn j with ⟨a, _⟩ | ⟨d, d', a, b, r⟩
  · rw [hc] at a; simp at a
  · rw [hc] at a; simp only [Option.some.injEq] at a; subst a; exact ⟨d', b, r⟩

theorem live' {s s' : RState} (h : Shape R s s') {j : Nat} {c' : Conn} (hc : getConn s' j = some c') :
    ∃ c, getConn s j = some c ∧ R j c c' := by
  rcases h.conn j with ⟨_, b⟩ | ⟨d, d', a, b, r⟩
  · rw [hc] at b; simp at b
  · rw [hc] at b; simp only [Option.some.injEq] at b; subst b; exact ⟨d, a, r⟩

theorem none_iff {s s' : RState} (h : Shape R s s') (j : Nat) : getConn s' j = none ↔ getConn s j = none := by
  rcases h.conn j with ⟨a, b⟩ | ⟨d, d', a, b, r⟩
  · simp [a, b]
  · simp [a, b]

theorem isSome_eq {s s' : RState} (h : Shape R s s') (j : Nat) : (getConn s' j).isSome = (getConn s j).isSome := by
  rcases h.conn j with ⟨a, b⟩ | ⟨d, d', a, b, r⟩
  · simp [a, b]
  · simp [a, b]

end Shape

theorem getConn_setConn_live {s : RState} {id : Nat} {c : Conn} (h : getConn s id = some c) (c' : Conn) (j : Nat) :
    getConn (setConn s id c') j = if j = id then some c' else getConn s j :=
  Slab.get?_set_live h j c'

end Router
