/-
`QI` (every subscription has its request; a request's group is its filter's group; parked
non-shared requests stand at the end of their log) holds in every reachable state below the
no-overflow bound, for `max_outgoing_packet_count > 0`.
-/
import Proofs.Lemmas.Router.Rp6_Consume
namespace Router
open Router.Rp3
open CommitLog (Rep logC Issued U64)

theorem consume_qi {s s' : RState} {b : Bool} (hi : DLInv s) (hno : NoOverflow s) (h : CS s)
    (hpos : 0 < s.config.maxOutgoingPacketCount) (hq : QI s) (hc : consume s = .ok (s', b)) : QI s' := by
  unfold consume at hc
  split at hc
  · simp only [Except.ok.injEq, Prod.mk.injEq] at hc; obtain ⟨rfl, _⟩ := hc
    exact hq.oeq (OEq.of_conns rfl rfl rfl rfl rfl)
  · rename_i id rq hrq
    simp only [] at hc
    split at hc
    · simp only [Except.ok.injEq, Prod.mk.injEq] at hc; obtain ⟨rfl, _⟩ := hc
      exact hq.oeq (OEq.of_conns rfl rfl rfl rfl rfl)
    · rename_i c hcn
      split at hc
      · simp at hc
      · rename_i s1 h1
        split at hc
        · simp at hc
        · rename_i s2 h2
          simp only [Except.ok.injEq, Prod.mk.injEq] at hc; obtain ⟨rfl, _⟩ := hc
          refine QI.oeq ?_ (wakeTurnMoved_oeq h2)
          have hcn' : getConn s id = some c := hcn
          -- the state in which the tracker's requests have been taken out
          have hget : ∀ j, getConn ({ setConn { s with readyqueue := rq } id { c with tracker := { c.tracker with requests := [] } }
              with readyqueue := (setConn { s with readyqueue := rq } id { c with tracker := { c.tracker with requests := [] } }).readyqueue ++ [id] } : RState) j =
              if j = id then some { c with tracker := { c.tracker with requests := [] } } else getConn s j :=
            fun j => getConn_setConn_live (s := { s with readyqueue := rq }) hcn' _ j
          have a : CStep s ({ setConn { s with readyqueue := rq } id { c with tracker := { c.tracker with requests := [] } }
              with readyqueue := (setConn { s with readyqueue := rq } id { c with tracker := { c.tracker with requests := [] } }).readyqueue ++ [id] } : RState) noReq :=
            CStep.of_set (c' := { c with tracker := { c.tracker with requests := [] } }) hcn' rfl
              (fun r hr => by simp at hr) (fun e he cur hcur => ⟨e, he, rfl, hcur⟩) rfl rfl rfl rfl
          have m := a.nn (ackDeviceData_cstep _ id)
          have ma := ackDeviceData_oeq ({ setConn { s with readyqueue := rq } id { c with tracker := { c.tracker with requests := [] } }
              with readyqueue := (setConn { s with readyqueue := rq } id { c with tracker := { c.tracker with requests := [] } }).readyqueue ++ [id] } : RState) id
          have hk : dkey (ackDeviceData ({ setConn { s with readyqueue := rq } id { c with tracker := { c.tracker with requests := [] } }
              with readyqueue := (setConn { s with readyqueue := rq } id { c with tracker := { c.tracker with requests := [] } }).readyqueue ++ [id] } : RState) id) = dkey s := by
            rw [ackDeviceData_dkey]; rfl
          have hpos' : 0 < (ackDeviceData ({ setConn { s with readyqueue := rq } id { c with tracker := { c.tracker with requests := [] } }
              with readyqueue := (setConn { s with readyqueue := rq } id { c with tracker := { c.tracker with requests := [] } }).readyqueue ++ [id] } : RState) id).config.maxOutgoingPacketCount := by
            rw [ma.cfg]; exact hpos
          refine consumeLoop_qi _ (hi.of_dkey hk) (hno.of_dkey hk) (h.step0 m) hpos' (fun r hr => ?_) ?_ h1
          · simp only [List.append_nil] at hr
            exact (h.req r (.inl ⟨id, c, hcn', hr⟩)).mono m.mono
          · refine QIX.oeq ?_ ma
            simp only [List.append_nil]
            -- ownership in the state without the tracked requests
            have own0 : ∀ j x, Own ({ setConn { s with readyqueue := rq } id { c with tracker := { c.tracker with requests := [] } }
                with readyqueue := (setConn { s with readyqueue := rq } id { c with tracker := { c.tracker with requests := [] } }).readyqueue ++ [id] } : RState) j x ↔
                (Own s j x ∧ ¬ (j = id ∧ x ∈ c.tracker.requests)) ∨ (j = id ∧ (Parked s j x ∨ Notified s j x)) := by
              intro j x
              unfold Own TrackedBy
              rw [hget]
              have e2 : Parked ({ setConn { s with readyqueue := rq } id { c with tracker := { c.tracker with requests := [] } }
                with readyqueue := (setConn { s with readyqueue := rq } id { c with tracker := { c.tracker with requests := [] } }).readyqueue ++ [id] } : RState) j x ↔ Parked s j x := Iff.rfl
              have e3 : Notified ({ setConn { s with readyqueue := rq } id { c with tracker := { c.tracker with requests := [] } }
                with readyqueue := (setConn { s with readyqueue := rq } id { c with tracker := { c.tracker with requests := [] } }).readyqueue ++ [id] } : RState) j x ↔ Notified s j x := Iff.rfl
              rw [e2, e3]
              by_cases hj : j = id
              · subst hj
                simp only [if_true, Option.some.injEq, exists_eq_left', List.not_mem_nil, false_or, hcn', true_and]
                constructor
                · intro h; exact .inr h
                · rintro (⟨h, hn⟩ | h)
                  · rcases h with h | h
                    · exact absurd h hn
                    · exact h
                  · exact h
              · simp only [hj, if_false, false_and, not_false_eq_true, and_true, or_false]
            refine ⟨fun j f hf => ?_, fun j x hx => ?_, fun x hx => hq.gt id x (.inl ⟨c, hcn', hx⟩),
              hq.pe.wsub (WSub.of_native rfl), hq.grv⟩
            · have hf' : f ∈ subsOf s j := by
                unfold subsOf at hf ⊢
                rw [hget] at hf
                by_cases hj : j = id
                · subst hj; simpa [hcn'] using hf
                · simpa [hj] using hf
              obtain ⟨x, hx, e⟩ := hq.cover j f hf'
              by_cases hl : j = id ∧ x ∈ c.tracker.requests
              · exact ⟨x, .inr hl, e⟩
              · exact ⟨x, .inl ((own0 j x).mpr (.inl ⟨hx, hl⟩)), e⟩
            · rcases (own0 j x).mp hx with ⟨h, _⟩ | ⟨_, h⟩
              · exact hq.gt j x h
              · exact hq.gt j x (.inr h)

/-- one step keeps `QI` -/
theorem step_qi {s s' : RState} {op : Op} {out : Out} (h3 : Inv3 s) (hi : DLInv s) (hno : NoOverflow s) (h : CS s)
    (hpos : 0 < s.config.maxOutgoingPacketCount) (hq : QI s) (hs : step s op = .ok (s', out)) : QI s' := by
  have hb := h3.inv2.binv
  cases op with
  | connect spec =>
    simp only [step] at hs
    split at hs
    · simp at hs
    · rename_i s1 hc
      simp only [Except.ok.injEq, Prod.mk.injEq] at hs; obtain ⟨rfl, _⟩ := hs
      exact (handleNewConnection_qi hb h3.inv2.inv1.adm hq hc).1
  | push l p =>
    simp only [step] at hs
    split at hs
    all_goals
      simp only [Except.ok.injEq, Prod.mk.injEq] at hs; obtain ⟨rfl, _⟩ := hs
      first | exact hq | exact hq.oeq (OEq.of_conns rfl rfl rfl rfl rfl)
  | event id e =>
    simp only [step] at hs
    split at hs
    · simp at hs
    · rename_i s1 he
      simp only [Except.ok.injEq, Prod.mk.injEq] at hs; obtain ⟨rfl, _⟩ := hs
      cases e with
      | deviceData => exact (handleDevicePayload_qi hb h3.rc hq he).1
      | ready =>
        simp only [events] at he
        split at he
        · exact hq.oeq (reschedule_oeq he)
        · simp only [Except.ok.injEq] at he; subst he; exact hq
      | disconnect => exact (handleDisconnection_qi (id := id) (r := none) hq hb.2 he).1
      | publishWill c => exact hq.oeq (handleLastWill_oeq he)
      | shadow f => exact hq.oeq (handleShadow_oeq he)
      | sendMeters => simp only [events, Except.ok.injEq] at he; subst he; exact hq
      | sendAlerts => simp only [events, Except.ok.injEq] at he; subst he; exact hq
  | consume =>
    simp only [step] at hs
    split at hs
    · simp at hs
    · rename_i s1 b hc
      simp only [Except.ok.injEq, Prod.mk.injEq] at hs; obtain ⟨rfl, _⟩ := hs
      exact consume_qi hi hno h hpos hq hc
  | drain l =>
    simp only [step] at hs
    split at hs
    · split at hs
      all_goals
        simp only [Except.ok.injEq, Prod.mk.injEq] at hs; obtain ⟨rfl, _⟩ := hs
        first | exact hq | exact hq.oeq (OEq.of_conns rfl rfl rfl rfl rfl)
    · simp only [Except.ok.injEq, Prod.mk.injEq] at hs; obtain ⟨rfl, _⟩ := hs; exact hq

/-- `QI` holds in every reachable state whose filter logs are below the no-overflow bound -/
theorem QI.reachable {cfg : Config} (h1 : 1 ≤ cfg.maxSegmentSize) (h2 : 1 ≤ cfg.maxSegmentCount)
    (hpos : 0 < cfg.maxOutgoingPacketCount) {s : RState} (hr : Reachable cfg s) (hno : NoOverflow s) : QI s := by
  have key : Reachable cfg s ∧ DLInv s ∧ (NoOverflow s → QI s) := by
    refine hr.induction (fun s => Reachable cfg s ∧ DLInv s ∧ (NoOverflow s → QI s))
      ⟨reachable_init cfg, init_inv cfg h1 h2, fun _ => QI.init cfg⟩ ?_
    intro s o op s' out ⟨hrs, hi, hqs⟩ hstep
    have hi0 : DLInv ({ s with oracle := o } : RState) := hi.of_dkey rfl
    have hrs' : Reachable cfg s' := hrs.step hstep
    have hi' : DLInv s' := step_inv hi0 hstep
    refine ⟨hrs', hi', fun hno' => ?_⟩
    have hcfg : s'.config = s.config := by rw [config_reachable hrs', config_reachable hrs]
    have hno0 : NoOverflow ({ s with oracle := o } : RState) :=
      NoOverflow.back hi' (step_mono hi0 hstep) hcfg hno'
    have hcs : CS ({ s with oracle := o } : RState) := (CS.reachable h1 h2 hrs hno0).oracle o
    have hpos0 : 0 < ({ s with oracle := o } : RState).config.maxOutgoingPacketCount := by
      show 0 < s.config.maxOutgoingPacketCount
      rw [config_reachable hrs]; exact hpos
    exact step_qi ((Inv3.reachable hrs).oracle o) hi0 hno0 hcs hpos0 ((hqs hno0).oracle o) hstep
  exact key.2.2 hno

end Router
