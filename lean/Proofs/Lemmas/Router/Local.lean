/-
Local (single-function) facts about the router model used by several property files.
-/
import Proofs.Lemmas.Router.Basic
import Proofs.Lemmas.Router.Assoc
import Proofs.Lemmas.Router.Rp1_Decomp
namespace Router

theorem commitAck_spec (s : RState) (id : Nat) (a : Ack) (c : Conn) (h : getConn s id = some c) :
    commitAck s id a = .ok ((setConn s id { c with acks := { c.acks with committed := c.acks.committed ++ [a] } }).g (.committed id a)) := by
  simp [commitAck, h]

theorem commitAck_panics_iff (s : RState) (id : Nat) (a : Ack) :
    (∃ e, commitAck s id a = .error e) ↔ getConn s id = none := by
  unfold commitAck
  cases h : getConn s id <;> simp

theorem handleDisconnection_missing (s : RState) (id : Nat) (r : Option String) (h : getConn s id = none) :
    handleDisconnection s id r = .ok s := by
  simp [handleDisconnection, h]

/-- `Tracker::try_ready(Ready)` never trips an assertion (after the fix) -/
theorem tryReady_ready_total (t : Tracker) : ∃ r, t.tryReady .ready = some r := by
  unfold Tracker.tryReady
  cases t.status with
  | ready => exact ⟨_, rfl⟩
  | paused p => simp only []; split <;> exact ⟨_, rfl⟩

theorem updateRetained_lookup_same (s : RState) (topic : String) (p : Pub) :
    alookup topic (updateRetained s topic p).datalog.retained =
      if p.retain then (if p.payload.isEmpty then none else some p)
      else alookup topic s.datalog.retained := by
  unfold updateRetained
  by_cases hr : p.retain = true
  · by_cases he : p.payload.isEmpty = true
    · simp [hr, he, alookup_aremove_same]
    · simp [hr, he, alookup_ainsert_same]
  · simp [hr]

theorem updateRetained_lookup_other (s : RState) (topic t' : String) (p : Pub) (hne : t' ≠ topic) :
    alookup t' (updateRetained s topic p).datalog.retained = alookup t' s.datalog.retained := by
  unfold updateRetained
  by_cases hr : p.retain = true
  · by_cases he : p.payload.isEmpty = true
    · simp [hr, he, alookup_aremove_ne _ _ hne]
    · simp [hr, he, alookup_ainsert_ne _ _ _ _ hne]
  · simp [hr]

end Router
