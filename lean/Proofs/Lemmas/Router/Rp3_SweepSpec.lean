/-
C01.2 / C17 — what one sweep (`forward_device_data`) does: inversion of the phases of
`Rp3_Sweep.lean` into explicit outcomes, the notifications pushed, the link buffers.
-/
import Proofs.Lemmas.Router.Rp3_DLStep
namespace Router
namespace Rp3

/-- a notification with its packet id blanked (packet ids are C09's subject) -/
def Notif.noPkid : Notif → Notif
  | .forward p c => .forward { p with pkid := 0 } c
  | n => n

/-- the forward the sweep builds for one publish, packet id blanked -/
def fwdOf (qos : Nat) (alias : Option Nat) (existed : Bool) (subId : Option Nat) (pc : Pub × Option Cursor) : Notif :=
  .forward { mkForward qos alias existed subId pc.1 with pkid := 0 } pc.2

theorem numberForwards_noPkid (fi : Nat) : ∀ (fwds : List (Pub × Option Cursor)) (o : Outgoing) (acc : List Notif),
    (numberForwards o fi fwds acc).2.map Notif.noPkid =
      acc.map Notif.noPkid ++ fwds.map (fun pc => Notif.forward { pc.1 with pkid := 0 } pc.2)
  | [], o, acc => by simp [numberForwards]
  | (p, c) :: r, o, acc => by
    simp only [numberForwards]
    rw [numberForwards_noPkid fi r]
    simp [Notif.noPkid]

/-- the notifications of a sweep are, in order and packet ids aside, the forwards of its publishes -/
theorem sweepNotifs_noPkid (c : Conn) (req : DataRequest) (pubs : List (Pub × Option Cursor)) :
    (sweepNotifs c req pubs).2.map Notif.noPkid =
      pubs.map (fwdOf req.qos (sweepAlias c req.filter).2
        ((aliasesFor c req.filter).bind (fun b => alookup req.filter b.aliases)).isSome (alookup req.filter c.subscriptionIds)) := by
  unfold sweepNotifs
  split
  · simp [sweepFwds, List.map_map, Function.comp_def, Notif.noPkid, fwdOf]
  · rw [numberForwards_noPkid]
    simp [sweepFwds, List.map_map, Function.comp_def, fwdOf]

theorem sweepNotifs_length (c : Conn) (req : DataRequest) (pubs : List (Pub × Option Cursor)) :
    (sweepNotifs c req pubs).2.length = pubs.length := by
  have := congrArg List.length (sweepNotifs_noPkid c req pubs)
  simpa using this

/-- what a forward keeps of the log entry: payload, retain and dup flags; it carries the
    subscription's QoS; the topic is the entry's unless a broker alias already existed -/
theorem mkForward_fields (qos : Nat) (alias : Option Nat) (existed : Bool) (subId : Option Nat) (p : Pub) :
    (mkForward qos alias existed subId p).payload = p.payload ∧ (mkForward qos alias existed subId p).qos = qos ∧
    (mkForward qos alias existed subId p).retain = p.retain ∧ (mkForward qos alias existed subId p).dup = p.dup ∧
    (mkForward qos alias existed subId p).topic = (if existed then [] else p.topic) := by
  unfold mkForward
  cases alias <;> cases existed <;> cases subId <;> simp

theorem getLink_setLink_ne (s : RState) (l l' : Nat) (b : LinkBuf) (h : l' ≠ l) :
    getLink (setLink s l b) l' = getLink s l' := by
  unfold getLink setLink
  by_cases hl : l < s.links.length
  · simp only [hl, if_true]
    rw [List.getElem?_set_ne (fun e => h e.symm)]
  · simp only [hl, if_false]
    have hl' : s.links.length ≤ l := Nat.le_of_not_lt hl
    have hlen : (s.links ++ List.replicate (l - s.links.length) ({} : LinkBuf)).length = l := by
      simp only [List.length_append, List.length_replicate]; omega
    by_cases h2 : l' < l
    · rw [List.getElem?_append_left (by rw [hlen]; exact h2)]
      by_cases h1 : l' < s.links.length
      · rw [List.getElem?_append_left h1]
      · have h1' : s.links.length ≤ l' := Nat.le_of_not_lt h1
        rw [List.getElem?_append_right h1', List.getElem?_eq_none h1']
        cases hh : (List.replicate (l - s.links.length) ({} : LinkBuf))[l' - s.links.length]? with
        | none => rfl
        | some x =>
          have := List.mem_of_getElem? hh
          simp only [List.mem_replicate] at this
          rw [this.2]; rfl
    · have h3 : l < l' := by omega
      rw [List.getElem?_eq_none (by simp only [List.length_append, hlen, List.length_cons, List.length_nil]; omega),
        List.getElem?_eq_none (by omega)]

theorem getLink_pushNotifs_same (s : RState) (l : Nat) (ns : List Notif) :
    getLink (pushNotifs s l ns) l = { getLink s l with obuf := (getLink s l).obuf ++ ns } := by
  unfold pushNotifs; exact getLink_setLink_same _ _ _

theorem getLink_pushNotifs_ne (s : RState) (l l' : Nat) (ns : List Notif) (h : l' ≠ l) :
    getLink (pushNotifs s l ns) l' = getLink s l' := by
  unfold pushNotifs; exact getLink_setLink_ne _ _ _ _ h

theorem getLink_wakeLink_same (s : RState) (l : Nat) : getLink (wakeLink s l) l = (getLink s l).wake := by
  unfold wakeLink; exact getLink_setLink_same _ _ _

theorem getLink_wakeLink_ne (s : RState) (l l' : Nat) (h : l' ≠ l) : getLink (wakeLink s l) l' = getLink s l' := by
  unfold wakeLink; exact getLink_setLink_ne _ _ _ _ h

theorem wake_obuf (b : LinkBuf) : b.wake.obuf = b.obuf := by
  unfold LinkBuf.wake; split <;> rfl

theorem updateNextClient_only {s s' : RState} {g g' : SharedGroup}
    (h : updateNextClient s g = .ok (s', g')) : s' = { s with oracle := s'.oracle } := by
  unfold updateNextClient at h
  repeat' (split at h)
  all_goals first
    | (simp at h; done)
    | (simp only [Except.ok.injEq, Prod.mk.injEq] at h; obtain ⟨rfl, _⟩ := h; rfl)

theorem sweepAdvance_only {s s' : RState} {req : DataRequest} {grp : Option SharedGroup}
    (h : sweepAdvance s req grp = .ok s') : s' = { s with shared := s'.shared, oracle := s'.oracle } := by
  unfold sweepAdvance at h
  repeat' (split at h)
  all_goals first
    | (simp at h; done)
    | (simp only [Except.ok.injEq] at h; subst h
       first
        | rfl
        | (have e := updateNextClient_only (by assumption); rw [e]))

theorem sweepPush_spec {s s' : RState} {id : Nat} {c : Conn} {req req' : DataRequest} {grp : Option SharedGroup}
    {pubs : List (Pub × Option Cursor)} {cu : Bool} {st : ConsumeStatus}
    (h : sweepPush s id c req grp pubs cu = .ok (s', req', st)) :
    req' = req ∧
    ∃ s2, sweepAdvance (pushNotifs (setConn s id { c with out := (sweepNotifs c req pubs).1, brokerAliases := (sweepAlias c req.filter).1 }) c.link (sweepNotifs c req pubs).2) req grp = .ok s2 ∧
      ((((getLink s c.link).obuf ++ (sweepNotifs c req pubs).2).length ≥ MAX_CHANNEL_CAPACITY - 1 ∧
          st = .bufferFull ∧ s' = wakeLink (pushNotifs s2 c.link [Notif.unschedule]) c.link) ∨
       (¬ ((getLink s c.link).obuf ++ (sweepNotifs c req pubs).2).length ≥ MAX_CHANNEL_CAPACITY - 1 ∧
          st = (if cu then .filterCaughtup else .partialRead) ∧ s' = wakeLink s2 c.link)) := by
  unfold sweepPush at h
  simp only [] at h
  split at h
  · simp at h
  · rename_i s2 ha
    rw [getLink_pushNotifs_same] at h
    simp only [getLink_setConn] at h
    by_cases hfull : ((getLink s c.link).obuf ++ (sweepNotifs c req pubs).2).length ≥ MAX_CHANNEL_CAPACITY - 1
    · simp only [hfull, ↓reduceIte] at h
      simp only [Except.ok.injEq, Prod.mk.injEq] at h
      obtain ⟨rfl, rfl, rfl⟩ := h
      exact ⟨rfl, s2, ha, Or.inl ⟨hfull, rfl, rfl⟩⟩
    · simp only [hfull, ↓reduceIte] at h
      simp only [Except.ok.injEq, Prod.mk.injEq] at h
      obtain ⟨rfl, rfl, rfl⟩ := h
      exact ⟨rfl, s2, ha, Or.inr ⟨hfull, rfl, rfl⟩⟩

theorem sweepRead_cases {s s' : RState} {id : Nat} {c : Conn} {rq req' : DataRequest} {grp : Option SharedGroup}
    {rp : List (Pub × Option Cursor)} {slots : Nat} {st : ConsumeStatus}
    (h : sweepRead s id c rq grp rp slots = .ok (s', req', st)) :
    ∃ fd, s.datalog.native[rq.filterIdx]? = some fd ∧
      ((sweepSkip c grp = true ∧ s' = s ∧ req' = { rq with forwardRetained := false } ∧
          st = (if (posNext (fd.log.readv rq.cursor slots).2).2 then .filterCaughtup else .skipRequest)) ∨
       (sweepSkip c grp = false ∧ sweepPubs rp (fd.log.readv rq.cursor slots) = [] ∧ s' = s ∧
          req' = sweepReq rq (fd.log.readv rq.cursor slots) ∧ st = .filterCaughtup) ∨
       (sweepSkip c grp = false ∧ sweepPubs rp (fd.log.readv rq.cursor slots) ≠ [] ∧
          sweepPush s id c (sweepReq rq (fd.log.readv rq.cursor slots)) grp
            (sweepPubs rp (fd.log.readv rq.cursor slots)) (posNext (fd.log.readv rq.cursor slots).2).2 = .ok (s', req', st))) := by
  unfold sweepRead at h
  split at h
  · simp at h
  · rename_i fd hfd
    refine ⟨fd, hfd, ?_⟩
    by_cases hskip : sweepSkip c grp = true
    · simp only [hskip, if_true, Except.ok.injEq, Prod.mk.injEq] at h
      obtain ⟨rfl, rfl, rfl⟩ := h
      exact Or.inl ⟨hskip, rfl, rfl, rfl⟩
    · have hs : sweepSkip c grp = false := by simpa using hskip
      simp only [hs, Bool.false_eq_true, if_false] at h
      by_cases hemp : (sweepPubs rp (fd.log.readv rq.cursor slots)).isEmpty = true
      · simp only [hemp, if_true, Except.ok.injEq, Prod.mk.injEq] at h
        obtain ⟨rfl, rfl, rfl⟩ := h
        exact Or.inr (Or.inl ⟨hs, by simpa using hemp, rfl, rfl, rfl⟩)
      · simp only [hemp] at h
        refine Or.inr (Or.inr ⟨hs, ?_, h⟩)
        intro e; apply hemp; rw [e]; rfl

theorem adoptCursor_fields (req : DataRequest) (grp : Option SharedGroup) :
    (adoptCursor req grp).filterIdx = req.filterIdx ∧ (adoptCursor req grp).qos = req.qos ∧
    (adoptCursor req grp).filter = req.filter ∧ (adoptCursor req grp).group = req.group ∧
    (adoptCursor req grp).forwardRetained = req.forwardRetained := by
  cases grp <;> exact ⟨rfl, rfl, rfl, rfl, rfl⟩

theorem forwardDeviceData_cases {s s' : RState} {id : Nat} {req req' : DataRequest} {st : ConsumeStatus} {c : Conn}
    (hc : getConn s id = some c) (h : forwardDeviceData s id req = .ok (s', req', st)) :
    (req.qos ≠ 0 ∧ c.out.freeSlots = 0 ∧ s' = s ∧ req' = adoptCursor req (reqGroup s req) ∧ st = .inflightFull) ∨
    (¬ (req.qos ≠ 0 ∧ c.out.freeSlots = 0) ∧ ∃ s1 rp slots',
      sweepRetained s (adoptCursor req (reqGroup s req)) (sweepSlots s c (adoptCursor req (reqGroup s req)) (reqGroup s req))
        = .ok (s1, rp, slots') ∧
      sweepRead s1 id c (adoptCursor req (reqGroup s req)) (reqGroup s req) rp slots' = .ok (s', req', st)) := by
  rw [forwardDeviceData_eq, hc] at h
  simp only [] at h
  have hq := (adoptCursor_fields req (reqGroup s req)).2.1
  by_cases hfull : req.qos ≠ 0 ∧ c.out.freeSlots = 0
  · have : ((adoptCursor req (reqGroup s req)).qos ≠ 0 && c.out.freeSlots = 0) = true := by
      rw [hq]; simp [hfull.1, hfull.2]
    simp only [this, if_true, Except.ok.injEq, Prod.mk.injEq] at h
    obtain ⟨rfl, rfl, rfl⟩ := h
    exact Or.inl ⟨hfull.1, hfull.2, rfl, rfl, rfl⟩
  · have : ((adoptCursor req (reqGroup s req)).qos ≠ 0 && c.out.freeSlots = 0) = false := by
      rw [hq]
      by_cases h1 : req.qos = 0
      · simp [h1]
      · have : c.out.freeSlots ≠ 0 := fun e => hfull ⟨h1, e⟩
        simp [this]
    simp only [this, Bool.false_eq_true, if_false] at h
    split at h
    · simp at h
    · rename_i s1 rp slots' hr
      exact Or.inr ⟨hfull, s1, rp, slots', hr, h⟩

end Rp3
end Router
