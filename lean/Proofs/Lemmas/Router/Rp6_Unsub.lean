/-
Ownership of data requests through UNSUBSCRIBE: a connection loses the requests of the filters it
unsubscribes, nothing else moves.
-/
import Proofs.Lemmas.Router.Rp6_Inv
namespace Router

/-- a step after which every connection owns at most what it owned, and at least what `K` keeps -/
structure OShrink (K : Nat → DataRequest → Prop) (s s' : RState) : Prop where
  bwd : ∀ j r, Own s' j r → Own s j r
  fwd : ∀ j r, Own s j r → K j r → Own s' j r
  wsub : WSub s s'
  grv : s'.graveyard = s.graveyard
  cfg : s'.config = s.config

theorem OEq.toShrink {s s' : RState} (m : OEq s s') (K : Nat → DataRequest → Prop) : OShrink K s s' :=
  ⟨fun j r h => (m.own j r).mp h, fun j r h _ => (m.own j r).mpr h, m.wsub, m.grv, m.cfg⟩

theorem OShrink.trans {a b c : RState} {K : Nat → DataRequest → Prop} (h1 : OShrink K a b) (h2 : OShrink K b c) :
    OShrink K a c :=
  ⟨fun j r h => h1.bwd j r (h2.bwd j r h), fun j r h k => h2.fwd j r (h1.fwd j r h k) k, h1.wsub.trans h2.wsub,
   h2.grv.trans h1.grv, h2.cfg.trans h1.cfg⟩

theorem OShrink.mono {s s' : RState} {K K' : Nat → DataRequest → Prop} (h : OShrink K s s') (hk : ∀ j r, K' j r → K j r) :
    OShrink K' s s' := ⟨h.bwd, fun j r ho k => h.fwd j r ho (hk j r k), h.wsub, h.grv, h.cfg⟩

/-- `remove_waiters_for_id(id, f)`: logs untouched; waiter lists shrink; only an entry of `(id, f)` leaves -/
theorem removeWaiterFor_parked (d : DataLog) (id : Nat) (f : String) :
    (∀ (i : Nat) fd', (removeWaiterFor d id f).native[i]? = some fd' →
        ∃ fd, d.native[i]? = some fd ∧ fd'.log = fd.log ∧ ∀ w ∈ fd'.waiters, w ∈ fd.waiters) ∧
    (∀ (i : Nat) fd, d.native[i]? = some fd → ∀ w ∈ fd.waiters, ¬ (w.1 = id ∧ w.2.filter = f) →
        ∃ fd', (removeWaiterFor d id f).native[i]? = some fd' ∧ w ∈ fd'.waiters) := by
  rcases removeWaiterFor_cases d id f with ⟨e, _⟩ | ⟨idx, fd, i, hi, hn, h1, h2, e⟩
  · rw [e]; exact ⟨fun i fd' h => ⟨fd', h, rfl, fun _ hw => hw⟩, fun i fd h w hw _ => ⟨fd, h, hw⟩⟩
  · rw [e]
    have hlt : idx < d.native.length := by
      rcases Nat.lt_or_ge idx d.native.length with h | h
      · exact h
      · rw [List.getElem?_eq_none h] at hn; cases hn
    refine ⟨fun k fd' hk => ?_, fun k fdk hk w hw hnot => ?_⟩
    · simp only [List.getElem?_set] at hk
      split at hk
      · rename_i ek; subst ek
        have hk' : some ({ fd with waiters := swapRemoveBack fd.waiters i } : FilterData) = some fd' := by
          simpa [hlt] using hk
        cases hk'
        exact ⟨fd, hn, rfl, fun w hw => mem_swapRemoveBack hw⟩
      · exact ⟨fd', hk, rfl, fun _ hw => hw⟩
    · simp only [List.getElem?_set]
      by_cases ek : idx = k
      · subst ek
        rw [hn] at hk; cases hk
        simp only [hlt, if_true]
        refine ⟨_, rfl, ?_⟩
        have hp := (swapRemoveBack_perm fd.waiters i hi).mem_iff.mp hw
        rcases List.mem_cons.mp hp with e' | h'
        · exact absurd ⟨e' ▸ h1, e' ▸ h2⟩ hnot
        · exact h'
      · simp only [ek, if_false]; exact ⟨fdk, hk, hw⟩

/-- one filter unsubscribed -/
theorem ufState_shrink {s : RState} {id : Nat} {ids : List Nat} {c : Conn} {f : String}
    (hc : getConn s id = some c) :
    OShrink (fun j r => ¬ (j = id ∧ r.filter = f)) s (ufState s id ids c f) ∧
    (∀ j, subsOf (ufState s id ids c f) j = if j = id then (subsOf s id).filter (· ≠ f) else subsOf s j) := by
  have hc1 : getConn (ufState1 s id ids c f) id = some c := hc
  have hget : ∀ j, getConn (ufState s id ids c f) j = if j = id then some (ufConn s.datalog c f) else getConn s j :=
    fun j => getConn_setConn_live hc1 (ufConn s.datalog c f) j
  have hd : (ufState s id ids c f).datalog = removeWaiterFor s.datalog id f := rfl
  have hn : (ufState s id ids c f).notifications =
      s.notifications.filter (fun n => !(n.1 == id && n.2.filter == f)) := rfl
  obtain ⟨w1, w2⟩ := removeWaiterFor_parked s.datalog id f
  refine ⟨⟨fun j r ho => ?_, fun j r ho hk => ?_, fun i fd' hfd' => ?_, rfl, rfl⟩, fun j => ?_⟩
  · rcases ho with ⟨c', hc', hm⟩ | ⟨i, fd', hfd', hm⟩ | ho
    · rw [hget] at hc'
      by_cases hj : j = id
      · subst hj
        simp only [if_true, Option.some.injEq] at hc'; subst hc'
        exact .inl ⟨c, hc, (List.mem_filter.mp hm).1⟩
      · simp only [hj, if_false] at hc'
        exact .inl ⟨c', hc', hm⟩
    · rw [hd] at hfd'
      obtain ⟨fd, hfd, _, hs⟩ := w1 i fd' hfd'
      exact .inr (.inl ⟨i, fd, hfd, hs _ hm⟩)
    · unfold Notified at ho
      rw [hn] at ho
      exact .inr (.inr (List.mem_filter.mp ho).1)
  · rcases ho with ⟨c', hc', hm⟩ | ⟨i, fd, hfd, hm⟩ | ho
    · refine .inl ?_
      unfold TrackedBy
      rw [hget]
      by_cases hj : j = id
      · subst hj
        rw [hc] at hc'; cases hc'
        refine ⟨ufConn s.datalog c f, by simp, ?_⟩
        simp only [ufConn]
        refine List.mem_filter.mpr ⟨hm, ?_⟩
        simp only [decide_eq_true_eq]
        exact fun e => hk ⟨rfl, e⟩
      · simp only [hj, if_false]; exact ⟨c', hc', hm⟩
    · obtain ⟨fd', hfd', hm'⟩ := w2 i fd hfd (j, r) hm hk
      exact .inr (.inl ⟨i, fd', by rw [hd]; exact hfd', hm'⟩)
    · refine .inr (.inr ?_)
      unfold Notified
      rw [hn]
      refine List.mem_filter.mpr ⟨ho, ?_⟩
      simp only [Bool.not_eq_true', Bool.and_eq_false_iff, beq_eq_false_iff_ne, ne_eq]
      by_cases hj : j = id
      · exact .inr fun e => hk ⟨hj, e⟩
      · exact .inl hj
  · rw [hd] at hfd'
    obtain ⟨fd, hfd, el, hs⟩ := w1 i fd' hfd'
    exact .inr ⟨fd, hfd, el, hs⟩
  · unfold subsOf
    rw [hget]
    by_cases hj : j = id
    · subst hj; simp only [if_true, hc, ufConn]
    · simp only [hj, if_false]

theorem ufState_qi {s : RState} {id : Nat} {ids : List Nat} {c : Conn} {f : String} (hq : QI s)
    (hc : getConn s id = some c) : QI (ufState s id ids c f) := by
  obtain ⟨m, sb⟩ := ufState_shrink (ids := ids) (f := f) hc
  refine ⟨fun j x hx => ?_, fun j r hr => hq.gt j r (m.bwd j r hr), hq.pe.wsub m.wsub, by rw [m.grv]; exact hq.grv⟩
  rw [sb] at hx
  by_cases hj : j = id
  · subst hj
    simp only [if_true, List.mem_filter, decide_eq_true_eq] at hx
    obtain ⟨r, hr, e⟩ := hq.cover j x hx.1
    exact ⟨r, m.fwd j r hr (fun h => hx.2 (e ▸ h.2)), e⟩
  · simp only [hj, if_false] at hx
    obtain ⟨r, hr, e⟩ := hq.cover j x hx
    exact ⟨r, m.fwd j r hr (fun h => hj h.1), e⟩

/-- the UNSUBSCRIBE loop: the invariant is kept; connection `id` loses at most requests of the
    listed filters, the other connections nothing -/
theorem unsubscribeFilters_qi {id : Nat} : ∀ (fs : List String) {s s' : RState} {rs rs' : List Bool},
    unsubscribeFilters s id fs rs = .ok (s', rs') → QI s →
    QI s' ∧ OShrink (fun j r => ¬ (j = id ∧ r.filter ∈ fs)) s s'
  | [], s, s', rs, rs', h, hq => by
    simp only [unsubscribeFilters, Except.ok.injEq, Prod.mk.injEq] at h
    obtain ⟨rfl, _⟩ := h; exact ⟨hq, (OEq.refl _).toShrink _⟩
  | f :: rest, s, s', rs, rs', h, hq => by
    have hmono : ∀ {a b : RState}, OShrink (fun j r => ¬ (j = id ∧ r.filter ∈ rest)) a b →
        OShrink (fun j r => ¬ (j = id ∧ r.filter ∈ f :: rest)) a b := fun m =>
      m.mono fun j r hk hh => hk ⟨hh.1, List.mem_cons_of_mem _ hh.2⟩
    rw [unsubscribeFilters_cons] at h
    split at h
    · obtain ⟨q, m⟩ := unsubscribeFilters_qi rest h hq; exact ⟨q, hmono m⟩
    · split at h
      · obtain ⟨q, m⟩ := unsubscribeFilters_qi rest h hq; exact ⟨q, hmono m⟩
      · split at h
        · simp at h
        · rename_i c hc
          split at h
          · have m0 : OEq s { s with subscriptionMap := ainsert f ((‹List Nat›).filter (· ≠ id)) s.subscriptionMap } :=
              OEq.of_conns rfl rfl rfl rfl rfl
            obtain ⟨q, m⟩ := unsubscribeFilters_qi rest h (hq.oeq m0)
            exact ⟨q, (m0.toShrink _).trans (hmono m)⟩
          · obtain ⟨q, m⟩ := unsubscribeFilters_qi rest h (ufState_qi hq hc)
            refine ⟨q, OShrink.trans ?_ (hmono m)⟩
            exact (ufState_shrink hc).1.mono fun j r hk hh => hk ⟨hh.1, by rw [hh.2]; simp⟩

end Router
