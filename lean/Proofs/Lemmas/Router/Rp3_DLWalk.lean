/-
`DLInv` (map coherence + well-formed filter logs) is preserved by every router function, hence by
`step`, hence holds in every reachable state. Most functions do not touch the part of the state
the invariant reads (`dkey`): for those the lemma is `dkey s' = dkey s`.
-/
import Proofs.Lemmas.Router.Rp3_Maps
import Proofs.Lemmas.Router.Rp3_Session
import Proofs.Lemmas.Router.Rp3_Sweep
namespace Router
namespace Rp3
open CommitLog (Rep logC)

@[simp] theorem dkey_setConn (s : RState) (id : Nat) (c : Conn) : dkey (setConn s id c) = dkey s := rfl
@[simp] theorem dkey_g (s : RState) (e : Ghost) : dkey (s.g e) = dkey s := rfl
@[simp] theorem dkey_setLink (s : RState) (l : Nat) (b : LinkBuf) : dkey (setLink s l b) = dkey s := rfl
@[simp] theorem dkey_pushNotifs (s : RState) (l : Nat) (ns : List Notif) : dkey (pushNotifs s l ns) = dkey s := rfl
@[simp] theorem dkey_wakeLink (s : RState) (l : Nat) : dkey (wakeLink s l) = dkey s := rfl

theorem reschedule_dkey {s s' : RState} {id : Nat} {r : SchedReason}
    (h : reschedule s id r = .ok s') : dkey s' = dkey s := by
  unfold reschedule at h
  split at h
  · simp at h
  · split at h
    · simp at h
    · simp only [Except.ok.injEq] at h; subst h; split <;> rfl

theorem track_dkey {s s' : RState} {id : Nat} {r : DataRequest}
    (h : track s id r = .ok s') : dkey s' = dkey s := by
  unfold track at h
  split at h
  · simp at h
  · simp only [Except.ok.injEq] at h; subst h; rfl

theorem trackv_dkey {s s' : RState} {id : Nat} {rs : List DataRequest}
    (h : trackv s id rs = .ok s') : dkey s' = dkey s := by
  unfold trackv at h
  split at h
  · simp at h
  · simp only [Except.ok.injEq] at h; subst h; rfl

theorem commitAck_dkey {s s' : RState} {id : Nat} {a : Ack}
    (h : commitAck s id a = .ok s') : dkey s' = dkey s := by
  unfold commitAck at h
  split at h
  · simp at h
  · simp only [Except.ok.injEq] at h; subst h; rfl

theorem updateRetained_dkey (s : RState) (topic : String) (p : Pub) : dkey (updateRetained s topic p) = dkey s := by
  unfold updateRetained
  simp only []
  split
  · rfl
  · split <;> rfl

theorem pause_dkey {s s' : RState} {id : Nat} {r : PauseReason}
    (h : pause s id r = .ok s') : dkey s' = dkey s := by
  unfold pause at h
  split at h
  · simp at h
  · split at h
    · simp at h
    · simp only [Except.ok.injEq] at h; subst h; rfl

theorem list_map_set_same {α β} (f : α → β) (l : List α) (i : Nat) (a a' : α) (h : l[i]? = some a) (e : f a' = f a) :
    (l.set i a').map f = l.map f := by
  rw [List.map_set, e]
  obtain ⟨hl, hv⟩ := List.getElem?_eq_some_iff.mp h
  apply List.ext_getElem? ; intro j
  by_cases hj : i = j
  · subst hj
    simp [hl, hv]
  · simp [hj]

theorem park_dkey {s s' : RState} {id : Nat} {r : DataRequest}
    (h : park s id r = .ok s') : dkey s' = dkey s := by
  unfold park at h
  split at h
  · simp at h
  · rename_i fd hfd
    simp only [Except.ok.injEq] at h; subst h
    simp only [dkey]
    rw [list_map_set_same (fun fd : FilterData => fd.filter) _ _ fd _ hfd (by rfl),
      list_map_set_same (fun fd : FilterData => fd.log) _ _ fd _ hfd (by rfl)]

theorem ackDeviceData_dkey (s : RState) (id : Nat) : dkey (ackDeviceData s id) = dkey s := by
  unfold ackDeviceData
  split
  · rfl
  · split <;> rfl

theorem readRetained_dkey {s s' : RState} {f : String} {ps : List Pub}
    (h : readRetained s f = .ok (s', ps)) : dkey s' = dkey s ∧ s'.datalog = s.datalog := by
  unfold readRetained at h
  simp only [] at h
  split at h
  · split at h
    · simp only [Except.ok.injEq, Prod.mk.injEq] at h; obtain ⟨rfl, _⟩ := h; exact ⟨rfl, rfl⟩
    · simp at h
  · simp at h

theorem updateNextClient_dkey {s s' : RState} {g g' : SharedGroup}
    (h : updateNextClient s g = .ok (s', g')) : dkey s' = dkey s := by
  unfold updateNextClient at h
  split at h
  · simp only [Except.ok.injEq, Prod.mk.injEq] at h; obtain ⟨rfl, _⟩ := h; rfl
  · split at h
    · simp at h
    · simp only [Except.ok.injEq, Prod.mk.injEq] at h; obtain ⟨rfl, _⟩ := h; rfl
  · split at h
    · simp at h
    · split at h
      · split at h
        · simp only [Except.ok.injEq, Prod.mk.injEq] at h; obtain ⟨rfl, _⟩ := h; rfl
        · simp at h
      · simp at h

/-! ### `DataLog::clean` and `remove_waiters_for_id` only edit waiter lists -/

theorem datalogClean_foldl (id : Nat) : ∀ (l : List FilterData) (acc : DataLog × List DataRequest),
    (l.foldl (fun (acc : DataLog × List DataRequest) fd =>
        let (ws, rs) := waitersRemove (fd.waiters.length + 1) fd.waiters id []
        ({ acc.1 with native := acc.1.native ++ [{ fd with waiters := ws }] }, acc.2 ++ rs)) acc) =
      ({ acc.1 with native := acc.1.native ++ l.map (fun fd =>
            { fd with waiters := (waitersRemove (fd.waiters.length + 1) fd.waiters id []).1 }) },
       acc.2 ++ (l.map (fun fd => (waitersRemove (fd.waiters.length + 1) fd.waiters id []).2)).flatten)
  | [], acc => by simp
  | fd :: r, acc => by
    simp only [List.foldl_cons]
    rw [datalogClean_foldl id r]
    simp [List.append_assoc]

theorem datalogClean_eq (d : DataLog) (id : Nat) :
    datalogClean d id =
      ({ d with native := d.native.map (fun fd =>
            { fd with waiters := (waitersRemove (fd.waiters.length + 1) fd.waiters id []).1 }) },
       (d.native.map (fun fd => (waitersRemove (fd.waiters.length + 1) fd.waiters id []).2)).flatten) := by
  unfold datalogClean
  rw [datalogClean_foldl]
  simp

theorem removeWaiterFor_same (d : DataLog) (id : Nat) (f : String) :
    (removeWaiterFor d id f).native.map (·.filter) = d.native.map (·.filter) ∧
    (removeWaiterFor d id f).native.map (·.log) = d.native.map (·.log) ∧
    (removeWaiterFor d id f).filterIndexes = d.filterIndexes ∧
    (removeWaiterFor d id f).publishFilters = d.publishFilters := by
  unfold removeWaiterFor
  simp only []
  split
  · exact ⟨rfl, rfl, rfl, rfl⟩
  · split
    · exact ⟨rfl, rfl, rfl, rfl⟩
    · rename_i fd hfd
      split
      · exact ⟨rfl, rfl, rfl, rfl⟩
      · exact ⟨list_map_set_same _ _ _ fd _ hfd rfl, list_map_set_same _ _ _ fd _ hfd rfl, rfl, rfl⟩

theorem wakeParked_dkey {s s' : RState} {logs : List Nat} (h : wakeParked s logs = .ok s') : dkey s' = dkey s :=
  WakeFrame.dkey (wakeParked_wakeFrame h)

theorem wakeTurnMoved_dkey {s s' : RState} (h : wakeTurnMoved s = .ok s') : dkey s' = dkey s :=
  (WakeFrame.dkey (wakeTurnMoved_wakeFrame h)).trans rfl

theorem noteTurn_dkey (s0 s1 : RState) (req : DataRequest) : dkey (noteTurn s0 s1 req) = dkey s1 := by
  obtain ⟨tm, e⟩ := noteTurn_eq s0 s1 req
  rw [e]; rfl

theorem handleDisconnection_dkey {s s' : RState} {id : Nat} {r : Option String}
    (h : handleDisconnection s id r = .ok s') : dkey s' = dkey s := by
  rw [handleDisconnection_eq] at h
  split at h
  · simp only [Except.ok.injEq] at h; subst h; rfl
  · rename_i c hc
    rw [wakeParked_dkey h]
    obtain ⟨_, _, k3, _, _, _, _, k8, _⟩ := hdFinal_fields s id c r
    simp only [dkey, k3, k8, datalogClean_eq, List.map_map, Function.comp_def]

theorem admit_dkey {s s' : RState} {spec : ConnectSpec} (h : admitConn s spec = .ok s') : dkey s' = dkey s := by
  rw [admit_eq] at h
  split at h
  · simp only [Except.ok.injEq] at h; subst h; rfl
  · split at h
    · simp at h
    · rw [reschedule_dkey h]; rfl

theorem handleNewConnection_dkey {s s' : RState} {spec : ConnectSpec}
    (h : handleNewConnection s spec = .ok s') : dkey s' = dkey s := by
  rw [handleNewConnection_eq] at h
  split at h
  · simp only [Except.ok.injEq] at h; subst h; rfl
  · split at h
    · simp at h
    · rename_i s1 hs1
      rw [admit_dkey h]
      split at hs1
      · rw [handleDisconnection_dkey hs1]; rfl
      · simp only [Except.ok.injEq] at hs1; subst hs1; rfl

/-! ### the sweep -/

theorem readRetained_only_oracle {s s' : RState} {f : String} {ps : List Pub}
    (h : readRetained s f = .ok (s', ps)) : s' = { s with oracle := s'.oracle } := by
  unfold readRetained at h
  simp only [] at h
  split at h
  · split at h
    · simp only [Except.ok.injEq, Prod.mk.injEq] at h; obtain ⟨rfl, _⟩ := h; rfl
    · simp at h
  · simp at h

theorem sweepRetained_only_oracle {s s1 : RState} {req : DataRequest} {slots slots' : Nat}
    {rp : List (Pub × Option Cursor)} (h : sweepRetained s req slots = .ok (s1, rp, slots')) :
    s1 = { s with oracle := s1.oracle } := by
  unfold sweepRetained at h
  split at h
  · split at h
    · simp at h
    · rename_i s2 ps hr
      simp only [Except.ok.injEq, Prod.mk.injEq] at h
      obtain ⟨rfl, _⟩ := h
      exact readRetained_only_oracle hr
  · simp only [Except.ok.injEq, Prod.mk.injEq] at h
    obtain ⟨rfl, _⟩ := h; rfl

theorem sweepAdvance_dkey {s s' : RState} {req : DataRequest} {grp : Option SharedGroup}
    (h : sweepAdvance s req grp = .ok s') : dkey s' = dkey s := by
  unfold sweepAdvance at h
  split at h
  · split at h
    · simp only [Except.ok.injEq] at h; subst h; rfl
    · split at h
      · simp at h
      · rename_i s2 g2 hu
        simp only [Except.ok.injEq] at h; subst h
        exact (updateNextClient_dkey hu : dkey s2 = dkey s)
  · simp only [Except.ok.injEq] at h; subst h; rfl

theorem sweepPush_dkey {s s' : RState} {id : Nat} {c : Conn} {req req' : DataRequest} {grp : Option SharedGroup}
    {pubs : List (Pub × Option Cursor)} {cu : Bool} {st : ConsumeStatus}
    (h : sweepPush s id c req grp pubs cu = .ok (s', req', st)) : dkey s' = dkey s := by
  unfold sweepPush at h
  simp only [] at h
  split at h
  · simp at h
  · rename_i s2 ha
    have := sweepAdvance_dkey ha
    split at h <;>
    · simp only [Except.ok.injEq, Prod.mk.injEq] at h
      obtain ⟨rfl, _⟩ := h
      simpa using this

theorem sweepRead_dkey {s s' : RState} {id : Nat} {c : Conn} {req req' : DataRequest} {grp : Option SharedGroup}
    {rp : List (Pub × Option Cursor)} {slots : Nat} {st : ConsumeStatus}
    (h : sweepRead s id c req grp rp slots = .ok (s', req', st)) : dkey s' = dkey s := by
  unfold sweepRead at h
  repeat' (split at h)
  all_goals first
    | (simp at h; done)
    | exact sweepPush_dkey h
    | (simp only [Except.ok.injEq, Prod.mk.injEq] at h; obtain ⟨rfl, _⟩ := h; rfl)

theorem forwardDeviceData_dkey {s s' : RState} {id : Nat} {req req' : DataRequest} {st : ConsumeStatus}
    (h : forwardDeviceData s id req = .ok (s', req', st)) : dkey s' = dkey s := by
  rw [forwardDeviceData_eq] at h
  split at h
  · simp at h
  · simp only [] at h
    split at h
    · simp only [Except.ok.injEq, Prod.mk.injEq] at h; obtain ⟨rfl, _⟩ := h; rfl
    · split at h
      · simp at h
      · rename_i s1 rp slots hr
        rw [sweepRead_dkey h, sweepRetained_only_oracle hr]; rfl

theorem consumeLoop_dkey : ∀ (fuel : Nat) {s s' : RState} {id : Nat} {reqs skipped : List DataRequest},
    consumeLoop s id fuel reqs skipped = .ok s' → dkey s' = dkey s
  | 0, s, s', id, reqs, skipped, h => by
    simp only [consumeLoop] at h; exact trackv_dkey h
  | fuel + 1, s, s', id, [], skipped, h => by
    simp only [consumeLoop] at h
    split at h
    · simp at h
    · rename_i s1 hp
      rw [trackv_dkey h]
      split at hp
      · exact pause_dkey hp
      · simp only [Except.ok.injEq] at hp; subst hp; rfl
  | fuel + 1, s, s', id, req :: rest, skipped, h => by
    simp only [consumeLoop] at h
    split at h
    · simp at h
    · rename_i s1 req1 st hf
      have e1 : dkey (noteTurn s s1 req1) = dkey s := (noteTurn_dkey s s1 req1).trans (forwardDeviceData_dkey hf)
      split at h
      · split at h
        · simp at h
        · rename_i s2 hp; rw [trackv_dkey h, pause_dkey hp, e1]
      · split at h
        · simp at h
        · rename_i s2 hp; rw [trackv_dkey h, pause_dkey hp, e1]
      · split at h
        · simp at h
        · rename_i s2 hp; rw [consumeLoop_dkey fuel h, park_dkey hp, e1]
      · rw [consumeLoop_dkey fuel h, e1]
      · rw [consumeLoop_dkey fuel h, e1]

theorem consume_dkey {s s' : RState} {b : Bool} (h : consume s = .ok (s', b)) : dkey s' = dkey s := by
  unfold consume at h
  split at h
  · simp only [Except.ok.injEq, Prod.mk.injEq] at h; obtain ⟨rfl, _⟩ := h; rfl
  · simp only [] at h
    split at h
    · simp only [Except.ok.injEq, Prod.mk.injEq] at h; obtain ⟨rfl, _⟩ := h; rfl
    · split at h
      · simp at h
      · rename_i s1 hl
        split at h
        · simp at h
        rename_i s2 hw
        simp only [Except.ok.injEq, Prod.mk.injEq] at h; obtain ⟨rfl, _⟩ := h
        rw [wakeTurnMoved_dkey hw, consumeLoop_dkey _ hl, ackDeviceData_dkey]; rfl

theorem handleShadow_dkey {s s' : RState} {id : Nat} {f : String} (h : handleShadow s id f = .ok s') :
    dkey s' = dkey s := by
  unfold handleShadow at h
  split at h
  · simp only [Except.ok.injEq] at h; subst h; rfl
  · split at h
    · simp only [Except.ok.injEq] at h; subst h; rfl
    · split at h
      · simp only [Except.ok.injEq] at h; subst h; rfl
      · simp only [Except.ok.injEq] at h; subst h
        simp only [dkey_wakeLink]
        split <;> rfl

theorem drainNotifications_dkey : ∀ (ns : List (Nat × DataRequest)) {s s' : RState},
    drainNotifications s ns = .ok s' → dkey s' = dkey s
  | [], s, s', h => by simp only [drainNotifications, Except.ok.injEq] at h; subst h; rfl
  | (id, r) :: rest, s, s', h => by
    simp only [drainNotifications] at h
    split at h
    · simp at h
    · rename_i s1 h1
      split at h
      · simp at h
      · rename_i s2 h2
        rw [drainNotifications_dkey rest h, reschedule_dkey h2, track_dkey h1]

end Rp3
end Router
