/-
C08 — `handle_new_connection` split into the takeover of an older connection and the admission
proper (`admitConn`, definitionally the tail of the model's function), with an explicit description
of the state handed to the scheduler (`admitPre`).
-/
import Proofs.Lemmas.Router.Frame
namespace Router
namespace Rp3

/-- the session a CONNECT restores: none for a clean connect -/
def restoredSession (s : RState) (spec : ConnectSpec) : Option SessionState :=
  if spec.clean then none else (alookup spec.clientId s.graveyard).bind id

/-- the connection record `handle_new_connection` builds -/
def newConn (s : RState) (spec : ConnectSpec) : Conn :=
  let restored := restoredSession s spec
  { clientId := spec.clientId, link := spec.link, clean := spec.clean,
    dynamicFilters := spec.dynamicFilters,
    subscriptions := match restored with | some ss => ss.subscriptions | none => [],
    brokerAliases := if spec.aliasMax > 0 then some (BrokerAliases.new spec.aliasMax) else none,
    out := { unackedPubrels := match restored with | some ss => ss.unackedPubrels | none => [] },
    tracker := match restored with | some ss => ss.tracker | none => { id := spec.clientId } }

/-- the part of `handle_new_connection` after the takeover of an older connection -/
def admitConn (s : RState) (spec : ConnectSpec) : M RState :=
    if s.conns.len ≥ s.config.maxConnections then .ok (s.g (.notRegistered spec.link)) else
    let saved := alookup spec.clientId s.graveyard
    let s := { s with graveyard := aremove spec.clientId s.graveyard }
    let session : Option SessionState := saved.bind id
    let previousSession := session.isSome
    let restored := if spec.clean then none else session
    let tracker : Tracker := match restored with
      | some ss => ss.tracker
      | none => { id := spec.clientId }
    let subs := match restored with | some ss => ss.subscriptions | none => []
    let pending := match restored with | some ss => ss.unackedPubrels | none => []
    let s := match spec.will with
      | some w => ({ s with lastWills := ainsert spec.clientId w s.lastWills }).g (.willSet spec.clientId)
      | none => s
    let conn : Conn :=
      { clientId := spec.clientId, link := spec.link, clean := spec.clean,
        dynamicFilters := spec.dynamicFilters, subscriptions := subs,
        brokerAliases := if spec.aliasMax > 0 then some (BrokerAliases.new spec.aliasMax) else none,
        out := { unackedPubrels := pending }, tracker := tracker }
    let (slab, id) := s.conns.insert conn
    let s := { s with subscriptionMap := subs.foldl (fun m f => subscriptionMapAdd m f id) s.subscriptionMap }
    let s := { s with conns := slab, connectionMap := ainsert spec.clientId id s.connectionMap }
    let s := { s with shared := rejoinGroups s.config.strategy spec.clientId tracker.requests s.shared }
    if !trackerNoDup tracker then .error (.panic "debug_assert check_tracker_duplicates (new connection)") else
    let acks := [Ack.connack id (!spec.clean && previousSession)] ++ pending.map Ack.pubrel
    let s := setConn s id { conn with acks := { committed := acks } }
    let s := s.g (.registered id spec.link spec.clientId spec.clean (!spec.clean && previousSession))
    let s := if restored.isSome then s.g (.restored id tracker.requests) else s
    let s := acks.foldl (fun s a => s.g (.committed id a)) s
    reschedule s id .init

theorem handleNewConnection_eq (s : RState) (spec : ConnectSpec) :
    handleNewConnection s spec =
      (if !validClientId spec.clientId then .ok ((setLink s spec.link {}).g (.notRegistered spec.link)) else
       match (match alookup spec.clientId (setLink s spec.link {}).connectionMap with
              | some old => handleDisconnection (setLink s spec.link {}) old none
              | none => .ok (setLink s spec.link {})) with
       | .error e => .error e
       | .ok s1 => admitConn s1 spec) := rfl
theorem foldl_g {α} (f : α → Ghost) : ∀ (l : List α) (s : RState),
    l.foldl (fun s a => s.g (f a)) s = { s with ghost := s.ghost ++ l.map f }
  | [], s => by simp
  | a :: l, s => by
    show l.foldl _ (s.g (f a)) = _
    rw [foldl_g f l]; simp [RState.g, List.append_assoc]

/-- the state `handle_new_connection` hands to the scheduler: slot allocated, CONNACK (and pending
    PUBRELs) committed, graveyard entry consumed, will stored -/
def admitPre (s : RState) (spec : ConnectSpec) : RState :=
  let conn := newConn s spec
  let id := (s.conns.insert conn).2
  let sp := !spec.clean && ((alookup spec.clientId s.graveyard).bind (fun x => x)).isSome
  let acks := [Ack.connack id sp] ++ conn.out.unackedPubrels.map Ack.pubrel
  { s with
    conns := ((s.conns.insert conn).1.set id { conn with acks := { committed := acks } }),
    graveyard := aremove spec.clientId s.graveyard,
    connectionMap := ainsert spec.clientId id s.connectionMap,
    subscriptionMap := conn.subscriptions.foldl (fun m f => subscriptionMapAdd m f id) s.subscriptionMap,
    shared := rejoinGroups s.config.strategy spec.clientId conn.tracker.requests s.shared,
    lastWills := (match spec.will with | some w => ainsert spec.clientId w s.lastWills | none => s.lastWills),
    ghost := s.ghost ++ (match spec.will with | some _ => [Ghost.willSet spec.clientId] | none => []) ++
      [Ghost.registered id spec.link spec.clientId spec.clean sp] ++
      (if (restoredSession s spec).isSome then [Ghost.restored id conn.tracker.requests] else []) ++
      acks.map (Ghost.committed id) }

theorem admit_eq (s : RState) (spec : ConnectSpec) :
    admitConn s spec =
      if s.conns.len ≥ s.config.maxConnections then .ok (s.g (.notRegistered spec.link)) else
      if !trackerNoDup (newConn s spec).tracker then .error (.panic "debug_assert check_tracker_duplicates (new connection)") else
      reschedule (admitPre s spec) (s.conns.insert (newConn s spec)).2 .init := by
  obtain ⟨link, cid, clean, dyn, am, will⟩ := spec
  unfold admitConn admitPre newConn restoredSession
  by_cases hfull : s.conns.len ≥ s.config.maxConnections
  · simp only [hfull, if_true]
  · simp only [hfull, if_false]
    generalize hsess : (alookup cid s.graveyard).bind id = sess
    have hsess' : (alookup cid s.graveyard).bind (fun x => x) = sess := hsess
    simp only [hsess']
    cases will <;> cases clean <;> cases sess <;> simp only [foldl_g] <;> simp [RState.g, setConn, Slab.set]
end Rp3
end Router
