/-
The router model's totalised commit log (`namespace CLog` in Model/CommitLog.lean) computes, on
every well-formed log, exactly what the panic-explicit model computes.
-/
import Proofs.Lemmas.CommitLog
namespace CommitLog
variable {α : Type}

theorem tagFrom_eq (seg : Nat) : ∀ (o : Nat) (xs : List α),
    CLog.tagFrom seg o xs = (xs.zipIdx o).map fun p => (p.1, (seg, p.2))
  | _, [] => rfl
  | o, x :: xs => by simp [CLog.tagFrom, tagFrom_eq seg (o + 1) xs]

@[simp] theorem segC_abs (s : CLog.Seg α) : (segC s).abs = s.abs := rfl
@[simp] theorem segC_data (s : CLog.Seg α) : (segC s).data = s.data := rfl
@[simp] theorem segC_len (s : CLog.Seg α) : (segC s).len = s.data.length := rfl
@[simp] theorem segC_next (s : CLog.Seg α) : (segC s).next = s.next := rfl

/-- the totalised `Segment::readv` in the explicit form of `Seg.readv_spec` -/
theorem clog_seg_readv (s : CLog.Seg α) (cur : Cursor) (len : Nat) (h : s.abs ≤ cur.2) :
    s.readv cur len = (((tagSeg cur.1 (segC s)).drop (cur.2 - s.abs)).take len,
      if cur.2 - s.abs + len < s.data.length then .next (cur.2 + len) else .done s.next) := by
  unfold CLog.Seg.readv tagSeg
  simp only [segC_data, segC_abs]
  by_cases h1 : cur.2 - s.abs ≥ s.data.length
  · have h2 : ¬ cur.2 - s.abs + len < s.data.length := by omega
    simp only [h1, if_true, h2, if_false]
    rw [List.drop_eq_nil_of_le (by simp; omega)]; simp
  · simp only [h1, if_false]
    have hz : ∀ (xs : List α), (xs.zipIdx s.abs).drop (cur.2 - s.abs) = (xs.drop (cur.2 - s.abs)).zipIdx cur.2 := by
      intro xs; rw [drop_zipIdx']; congr 1; omega
    by_cases h3 : cur.2 - s.abs + len ≥ s.data.length
    · have h5 : ¬ cur.2 - s.abs + len < s.data.length := by omega
      simp only [h3, if_true, h5, if_false]
      rw [tagFrom_eq, ← List.map_drop, hz, List.take_of_length_le (by simp; omega)]
    · have h5 : cur.2 - s.abs + len < s.data.length := by omega
      simp only [h3, if_false, h5, if_true]
      rw [tagFrom_eq, ← List.map_drop, ← List.map_take, hz, take_zipIdx']
      congr 2; omega

theorem walk_bridge (l : CLog.Log α) (start : Cursor) :
    ∀ (rest : List (CLog.Seg α)) (idx : Nat) (curr : CLog.Seg α) (cur : Cursor) (len : Nat)
      (out : List (Entry α)),
      l.segs.drop idx = curr :: rest →
      Contig ((curr :: rest).map segC) →
      curr.abs ≤ cur.2 →
      (∀ g ∈ curr :: rest, g.data.length + len < U64) →
      Log.walk (logC l) start rest.length idx (segC curr) cur len out =
        .ok ((CLog.walk start (curr :: rest) cur len out).1,
             posC (CLog.walk start (curr :: rest) cur len out).2) := by
  intro rest
  induction rest with
  | nil =>
    intro idx curr cur len out hd hc h1 hU
    simp only [List.length_nil, Log.walk, CLog.walk, readActive, segC_next]
    by_cases hn : curr.next ≤ cur.2
    · simp [hn, posC]
    · simp only [hn, if_false]
      rw [Seg.readv_spec (segC curr) cur len h1 (by simpa using hU curr (by simp)),
        clog_seg_readv curr cur len h1]
      simp only [segC_abs, segC_len, segC_next]
      by_cases hlt : cur.2 - curr.abs + len < curr.data.length
      · simp [hlt, posC]
      · simp [hlt, posC]
  | cons r rs ih =>
    intro idx curr cur len out hd hc h1 hU
    have hcn : curr.next = r.abs := by
      have := hc.head_next; simpa using this
    simp only [List.length_cons, Log.walk, CLog.walk]
    rw [Seg.readv_spec (segC curr) cur len h1 (by simpa using hU curr (by simp)),
      clog_seg_readv curr cur len h1]
    simp only [segC_abs, segC_len, segC_next]
    by_cases hlt : cur.2 - curr.abs + len < curr.data.length
    · simp [hlt, posC]
    · simp only [hlt, if_false]
      have hidx : (logC l).segments[idx + 1]? = some (segC r) := by
        have := congrArg (fun x => x[1]?) hd
        simp only [List.getElem?_drop] at this
        simp [logC, this]
      have hd' : l.segs.drop (idx + 1) = r :: rs := by
        have := congrArg (List.drop 1) hd
        simpa [List.drop_drop, Nat.add_comm] using this
      by_cases hge : curr.next ≥ cur.2
      · have hnu : ¬ len < curr.next - cur.2 := by simp only [CLog.Seg.next] at hge ⊢; omega
        simp only [decLen, hge, if_true, hnu, if_false]
        by_cases hz : len - (curr.next - cur.2) = 0
        · simp [hz, posC]
        · simp only [hz, if_false, hidx]
          exact ih (idx + 1) r (cur.1 + 1, curr.next) _ _ hd' hc.tail (by simp [hcn])
            (fun g hg => by have := hU g (by simp [hg]); omega)
      · simp only [decLen, hge, if_false]
        by_cases hz : len = 0
        · simp [hz, posC]
        · simp only [hz, if_false, hidx]
          exact ih (idx + 1) r (cur.1 + 1, curr.next) _ _ hd' hc.tail (by simp [hcn])
            (fun g hg => hU g (by simp [hg]))

theorem logC_getLast? (l : CLog.Log α) : (logC l).segments.getLast? = l.segs.getLast?.map segC := by
  simp [logC, List.getLast?_map]

/-- `readv`: the router's copy agrees with the model on every well-formed log, for every cursor -/
theorem readv_bridge (l : CLog.Log α) (hw : WF (logC l)) (c : Cursor) (n : Nat)
    (hU : (logC l).nextAbs + n < U64) :
    (logC l).readv c n = .ok ((l.readv c n).1, posC (l.readv c n).2) := by
  have hcount := hw.count
  have hne := hw.ne
  unfold Log.readv CLog.Log.readv
  by_cases ht : c.1 > l.tail
  · have : c.1 > (logC l).tail := ht
    simp [this, ht, posC]
  · have ht' : ¬ c.1 > (logC l).tail := ht
    simp only [ht', ht, if_false]
    -- the head jump
    obtain ⟨f, r0, hsegs⟩ : ∃ f r0, l.segs = f :: r0 := by
      cases h : l.segs with
      | nil => simp [logC, h] at hne
      | cons f r0 => exact ⟨f, r0, rfl⟩
    have hjump : (logC l).headJump c =
        .ok (if c.1 < l.head then (l.head, (l.segs.head?.map (·.abs)).getD 0) else c) := by
      unfold Log.headJump
      by_cases hs : c.1 < l.head
      · have : c.1 < (logC l).head := hs
        simp [hs, logC, hsegs, segC]
      · have : ¬ c.1 < (logC l).head := hs
        simp [this, hs]
    rw [hjump]
    simp only []
    generalize hc1 : (if c.1 < l.head then (l.head, (l.segs.head?.map (·.abs)).getD 0) else c) = c1
    have hc1b : l.head ≤ c1.1 ∧ c1.1 ≤ l.tail := by
      rw [← hc1]; by_cases hs : c.1 < l.head
      · simp only [hs, if_true]
        have : (logC l).head + (logC l).segments.length = (logC l).tail + 1 := hcount
        simp only [logC, List.length_map] at this
        have hp : 0 < l.segs.length := by rw [hsegs]; simp
        omega
      · simp only [hs, if_false]; omega
    have hnlt : ¬ c1.1 < (logC l).head := by simp only [logC]; omega
    simp only [hnlt, if_false]
    have hlen : (logC l).head + l.segs.length = (logC l).tail + 1 := by
      have := hcount; simpa [logC] using this
    have hidx : c1.1 - l.head < l.segs.length := by simp only [logC] at hlen; omega
    have hd : l.segs.drop (c1.1 - l.head) = l.segs[c1.1 - l.head] :: l.segs.drop (c1.1 - l.head + 1) :=
      List.drop_eq_getElem_cons hidx
    generalize hg : l.segs[c1.1 - l.head] = g at hd
    have hget : (logC l).segments[c1.1 - (logC l).head]? = some (segC g) := by
      simp only [logC, List.getElem?_map]
      rw [List.getElem?_eq_getElem hidx, hg]; rfl
    rw [hget, hd]
    simp only []
    have hoff : offsetJump (segC g) c1 = (if g.abs > c1.2 then (c1.1, g.abs) else c1) := rfl
    rw [hoff]
    generalize hc2 : (if g.abs > c1.2 then (c1.1, g.abs) else c1) = c2
    have hc2a : c2.1 = c1.1 ∧ g.abs ≤ c2.2 := by
      rw [← hc2]; by_cases hj : g.abs > c1.2
      · simp [hj]
      · simp only [hj, if_false]; exact ⟨trivial, by omega⟩
    have hfuel : (logC l).tail - c2.1 = (l.segs.drop (c1.1 - l.head + 1)).length := by
      have e1 : (logC l).tail = l.tail := rfl
      have e2 : (logC l).head = l.head := rfl
      rw [e1, e2] at hlen
      rw [e1, List.length_drop]; omega
    rw [hfuel]
    have hcontig : Contig ((g :: l.segs.drop (c1.1 - l.head + 1)).map segC) := by
      rw [← hd, List.map_drop]; exact hw.contig.drop _
    refine walk_bridge l c2 _ (c1.1 - l.head) g c2 n [] hd hcontig hc2a.2 ?_
    intro g' hg'
    have hm : segC g' ∈ (logC l).segments := by
      simp only [logC]; rw [← hd] at hg'
      exact List.mem_map_of_mem (List.mem_of_mem_drop hg')
    have := hw.next_le (segC g') hm
    simp only [Seg.next, segC_abs, segC_len] at this; omega

/-- `append`: the router's copy agrees with the model on every well-formed log -/
theorem append_bridge (l : CLog.Log α) (hw : WF (logC l)) (x : α) (sz : Nat) :
    (logC l).append x sz = .ok (logC (l.append x sz).1, (l.append x sz).2) := by
  obtain ⟨z, hz⟩ := hw.exists_last
  rw [logC_getLast?] at hz
  obtain ⟨a, ha, rfl⟩ : ∃ a, l.segs.getLast? = some a ∧ z = segC a := by
    cases h : l.segs.getLast? with
    | none => simp [h] at hz
    | some a => exact ⟨a, rfl, by simpa [h] using hz.symm⟩
  have hret : (logC l).applyRetention = .ok (logC l.applyRetention) := by
    unfold Log.applyRetention Log.activeSegment CLog.Log.applyRetention
    rw [logC_getLast?, ha]
    simp only [Option.map_some]
    by_cases hfull : a.size ≥ l.maxSize
    · have hfull' : (segC a).totalSize ≥ (logC l).maxSegmentSize := hfull
      simp only [hfull', hfull, if_true]
      by_cases hcnt : l.segs.length ≥ l.maxSegs
      · have hcnt' : (logC l).segments.length ≥ (logC l).maxMemSegments := by simpa [logC] using hcnt
        simp only [hcnt', hcnt, if_true]
        simp [logC, segC, Seg.withOffset, CLog.Seg.next, Seg.next, Seg.len]
      · have hcnt' : ¬ (logC l).segments.length ≥ (logC l).maxMemSegments := by simpa [logC] using hcnt
        simp only [hcnt', hcnt, if_false]
        simp [logC, segC, Seg.withOffset, CLog.Seg.next, Seg.next, Seg.len]
    · have hfull' : ¬ (segC a).totalSize ≥ (logC l).maxSegmentSize := hfull
      simp only [hfull', hfull, if_false]
  obtain ⟨l1, h1, hw0, _⟩ := applyRetention_spec (logC l) hw
  rw [hret] at h1; cases h1
  obtain ⟨b, hb⟩ : ∃ b, l.applyRetention.segs.getLast? = some b := by
    have := hw0.ne
    cases h : l.applyRetention.segs.getLast? with
    | none =>
      have : l.applyRetention.segs = [] := List.getLast?_eq_none_iff.mp h
      simp [logC, this] at *
    | some b => exact ⟨b, rfl⟩
  unfold Log.append CLog.Log.append
  rw [hret]
  simp only [hb]
  unfold Log.pushActive
  rw [logC_getLast?, hb]
  simp only [Option.map_some, Log.nextOffset, Log.activeSegment]
  simp [logC, segC, Seg.push, CLog.Seg.next, Seg.next, Seg.len, List.map_dropLast]

theorem new_bridge (ms mm : Nat) (h1 : 1024 ≤ ms) (h2 : 1 ≤ mm) :
    (Log.new ms mm : Except Panic (Log α)) = .ok (logC (CLog.Log.new ms mm)) := by
  have h1' : ¬ ms < 1024 := by omega
  have h2' : ¬ mm < 1 := by omega
  simp [Log.new, h1', h2', logC, CLog.Log.new, segC, Seg.new]

theorem nextOffset_bridge (l : CLog.Log α) (hw : WF (logC l)) :
    (logC l).nextOffset = .ok l.nextOffset := by
  obtain ⟨z, hz⟩ := hw.exists_last
  rw [logC_getLast?] at hz
  cases h : l.segs.getLast? with
  | none => simp [h] at hz
  | some a =>
    simp [Log.nextOffset, Log.activeSegment, h, CLog.Log.nextOffset, logC]

end CommitLog
