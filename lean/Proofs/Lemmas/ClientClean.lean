/-
Facts about what `clean()` returns: membership, length (= occupied slots + set release bits +
the parked publish), distinct ids; the v4 order (sorted by send stamp) is a permutation of the table.
-/
import Proofs.Lemmas.ClientSInv
namespace Client
open Client.Spec

theorem mem_pubRequests (l : List (Option Pub)) (r : Request) :
    r ∈ pubRequests l ↔ ∃ p, r = .publish p ∧ some p ∈ l := by
  unfold pubRequests
  simp only [List.mem_filterMap]
  constructor
  · rintro ⟨o, ho, h⟩
    cases o with
    | none => simp at h
    | some p => simp at h; exact ⟨p, h.symm, ho⟩
  · rintro ⟨p, rfl, hp⟩
    exact ⟨some p, hp, rfl⟩

/-! ### the v4 sort by send stamp is a permutation of the stored publishes -/

theorem insertStamp_perm (x : Nat × Pub) (l : List (Nat × Pub)) : (insertStamp x l).Perm (x :: l) := by
  induction l with
  | nil => exact List.Perm.refl _
  | cons y ys ih =>
    unfold insertStamp
    split
    · exact List.Perm.refl _
    · exact (List.Perm.cons y ih).trans (List.Perm.swap x y ys)

theorem sortStamped_perm (l : List (Nat × Pub)) : (sortStamped l).Perm l := by
  induction l with
  | nil => exact List.Perm.refl _
  | cons x xs ih =>
    simp only [sortStamped, List.foldr_cons]
    exact (insertStamp_perm x _).trans (List.Perm.cons x ih)

theorem stamped_map (pubs : List (Option Pub)) (ord : List Nat) (h : pubs.length ≤ ord.length) :
    (stamped pubs ord).map (fun x => Request.publish x.2) = pubRequests pubs := by
  induction pubs generalizing ord with
  | nil => simp [stamped, pubRequests]
  | cons a pubs ih =>
    cases ord with
    | nil => simp at h
    | cons o ord =>
      have := ih ord (by simpa using h)
      simp only [stamped, pubRequests, List.zip_cons_cons, List.filterMap_cons] at this ⊢
      cases a <;> simp [this]

theorem cleanPubs_perm {s : State} (h : SInv s) : (cleanPubs s).Perm (pubRequests s.outgoingPub) := by
  unfold cleanPubs
  split
  · have hl : s.outgoingPub.length ≤ s.outgoingOrder.length := by rw [h.lenPub, h.lenOrd]; exact Nat.le_refl _
    rw [← stamped_map s.outgoingPub s.outgoingOrder hl]
    exact (sortStamped_perm _).map _
  · exact List.Perm.refl _

theorem mem_cleanPubs {s : State} (h : SInv s) (r : Request) :
    r ∈ cleanPubs s ↔ ∃ p, r = .publish p ∧ some p ∈ s.outgoingPub := by
  rw [(cleanPubs_perm h).mem_iff, mem_pubRequests]

theorem length_pubRequests (l : List (Option Pub)) : (pubRequests l).length = occ l := by
  unfold pubRequests occ
  induction l with
  | nil => rfl
  | cons a l ih =>
    cases a with
    | none => simpa [List.filterMap_cons] using ih
    | some p => simp [ih]

theorem length_cleanPubs {s : State} (h : SInv s) : (cleanPubs s).length = occ s.outgoingPub := by
  rw [(cleanPubs_perm h).length_eq, length_pubRequests]

theorem relOnesFrom_spec (l : List Bool) (off : Nat) (i : Nat) :
    i ∈ relOnesFrom l off ↔ off ≤ i ∧ l[i - off]? = some true := by
  induction l generalizing off with
  | nil => simp [relOnesFrom]
  | cons b l ih =>
    unfold relOnesFrom
    split
    · rename_i hb
      simp only [List.mem_cons, ih]
      constructor
      · rintro (h | ⟨h1, h2⟩)
        · subst h; simp [hb]
        · refine ⟨by omega, ?_⟩
          have : i - off = (i - (off + 1)) + 1 := by omega
          rw [this]; simpa using h2
      · rintro ⟨h1, h2⟩
        by_cases he : i = off
        · exact Or.inl he
        · right
          refine ⟨by omega, ?_⟩
          have : i - off = (i - (off + 1)) + 1 := by omega
          rw [this] at h2; simpa using h2
    · rename_i hb
      simp only [ih]
      constructor
      · rintro ⟨h1, h2⟩
        refine ⟨by omega, ?_⟩
        have : i - off = (i - (off + 1)) + 1 := by omega
        rw [this]; simpa using h2
      · rintro ⟨h1, h2⟩
        have hne : i ≠ off := by
          intro he; subst he; simp at h2; exact hb h2
        refine ⟨by omega, ?_⟩
        have : i - off = (i - (off + 1)) + 1 := by omega
        rw [this] at h2; simpa using h2

theorem mem_relOnes (s : State) (i : Nat) : i ∈ relOnes s ↔ relContains s i = true := by
  unfold relOnes
  rw [relOnesFrom_spec, relContains_eq]; simp

theorem length_relOnesFrom (l : List Bool) (off : Nat) : (relOnesFrom l off).length = relCount l := by
  induction l generalizing off with
  | nil => rfl
  | cons b l ih =>
    unfold relOnesFrom
    cases b <;> simp [relCount, ih] <;> exact ih _

theorem length_cleanParked (s : State) : (cleanParked s).length = if s.collision.isSome then 1 else 0 := by
  unfold cleanParked; cases s.collision <;> rfl

theorem length_cleanRequests {s : State} (h : SInv s) :
    (cleanRequests s).length = occ s.outgoingPub + relCount s.outgoingRel + (if s.collision.isSome then 1 else 0) := by
  simp [cleanRequests, length_cleanPubs h, relOnes, length_relOnesFrom, length_cleanParked]
  omega

theorem mem_cleanRequests {s : State} (h : SInv s) (r : Request) :
    r ∈ cleanRequests s ↔ (∃ p, r = .publish p ∧ some p ∈ s.outgoingPub) ∨ (∃ i, r = .pubrel i ∧ relContains s i = true) ∨
      (∃ c, s.collision = some c ∧ r = .publish { c with pkid := 0 }) := by
  unfold cleanRequests
  rw [List.mem_append, List.mem_append, mem_cleanPubs h]
  simp only [List.mem_map, mem_relOnes]
  constructor
  · rintro ((h' | ⟨i, hi, rfl⟩) | h')
    · exact Or.inl h'
    · exact Or.inr (Or.inl ⟨i, rfl, hi⟩)
    · right; right
      unfold cleanParked at h'
      cases hc : s.collision with
      | none => rw [hc] at h'; simp at h'
      | some c => rw [hc] at h'; simp at h'; exact ⟨c, rfl, h'⟩
  · rintro (h' | ⟨i, rfl, hi⟩ | ⟨c, hc, rfl⟩)
    · exact Or.inl (Or.inl h')
    · exact Or.inl (Or.inr ⟨i, hi, rfl⟩)
    · right; simp [cleanParked, hc]

theorem pubIds_append (a b : List Request) : pubIds (a ++ b) = pubIds a ++ pubIds b := by
  simp [pubIds, List.filterMap_append]

theorem pubTags_append (a b : List Request) : pubTags (a ++ b) = pubTags a ++ pubTags b := by
  simp [pubTags, List.filterMap_append]

theorem pubIds_map_pubrel (l : List Nat) : pubIds (l.map Request.pubrel) = [] := by
  induction l with
  | nil => rfl
  | cons a l ih => simp [pubIds]

theorem pubTags_map_pubrel (l : List Nat) : pubTags (l.map Request.pubrel) = [] := by
  induction l with
  | nil => rfl
  | cons a l ih => simp [pubTags]

/-- ids of the stored publishes, in table order -/
def slotIds (l : List (Option Pub)) : List Nat := l.filterMap (fun o => o.map (·.pkid))

theorem pubIds_pubRequests (l : List (Option Pub)) : pubIds (pubRequests l) = slotIds l := by
  unfold pubIds pubRequests slotIds
  induction l with
  | nil => rfl
  | cons a l ih => cases a <;> simp [ih]

theorem slotIds_append (a b : List (Option Pub)) : slotIds (a ++ b) = slotIds a ++ slotIds b := by
  simp [slotIds, List.filterMap_append]

theorem mem_slotIds (l : List (Option Pub)) (i : Nat) : i ∈ slotIds l ↔ ∃ p, some p ∈ l ∧ p.pkid = i := by
  unfold slotIds
  simp only [List.mem_filterMap]
  constructor
  · rintro ⟨o, ho, h⟩
    cases o with
    | none => simp at h
    | some p => simp at h; exact ⟨p, ho, h⟩
  · rintro ⟨p, hp, rfl⟩
    exact ⟨some p, hp, rfl⟩

theorem slotIds_sorted (l : List (Option Pub)) (off : Nat)
    (h : ∀ (i : Nat) (p : Pub), l[i]? = some (some p) → p.pkid = off + i) :
    (slotIds l).Pairwise (· < ·) ∧ ∀ x ∈ slotIds l, off ≤ x := by
  induction l generalizing off with
  | nil => simp [slotIds]
  | cons a l ih =>
    have ih' := ih (off + 1) (by
      intro i p hp
      have := h (i + 1) p (by simpa using hp)
      omega)
    cases a with
    | none =>
      simp only [slotIds, List.filterMap_cons, Option.map_none] at ih' ⊢
      exact ⟨ih'.1, fun x hx => by have := ih'.2 x hx; omega⟩
    | some p =>
      have hp : p.pkid = off := by simpa using h 0 p (by simp)
      simp only [slotIds, List.filterMap_cons, Option.map_some] at ih' ⊢
      refine ⟨List.pairwise_cons.mpr ⟨fun x hx => ?_, ih'.1⟩, ?_⟩
      · have := ih'.2 x hx; omega
      · intro x hx
        rcases List.mem_cons.mp hx with h1 | h1
        · omega
        · have := ih'.2 x h1; omega

theorem slotIds_nodup (l : List (Option Pub))
    (h : ∀ (i : Nat) (p : Pub), l[i]? = some (some p) → p.pkid = i) : (slotIds l).Nodup := by
  have := (slotIds_sorted l 0 (by simpa using h)).1
  exact this.imp (fun h => Nat.ne_of_lt h)

theorem pubIds_perm {a b : List Request} (h : a.Perm b) : (pubIds a).Perm (pubIds b) := h.filterMap _
theorem pubTags_perm {a b : List Request} (h : a.Perm b) : (pubTags a).Perm (pubTags b) := h.filterMap _

theorem pubIds_cleanPubs_nodup {s : State} (h : SInv s) : (pubIds (cleanPubs s)).Nodup := by
  have hn := slotIds_nodup s.outgoingPub (fun i p hp => (h.slotId i p hp).1)
  rw [(pubIds_perm (cleanPubs_perm h)).nodup_iff, pubIds_pubRequests]
  exact hn

/-- ids of the numbered publishes `clean()` returns (the parked one comes back with id 0) -/
theorem pubIds_cleanRequests (s : State) :
    pubIds (cleanRequests s) = pubIds (cleanPubs s) ++ (if s.collision.isSome then [0] else []) := by
  simp only [cleanRequests, pubIds_append, pubIds_map_pubrel, List.append_nil]
  congr 1
  unfold cleanParked; cases s.collision <;> simp [pubIds]

theorem pubTags_cleanRequests (s : State) : pubTags (cleanRequests s) = pubTags (cleanPubs s) ++ colTag s.collision := by
  simp only [cleanRequests, pubTags_append, pubTags_map_pubrel, List.append_nil]
  congr 1
  unfold cleanParked colTag; cases s.collision <;> simp [pubTags]

theorem mem_pubIds (l : List Request) (i : Nat) : i ∈ pubIds l ↔ ∃ p, .publish p ∈ l ∧ p.pkid = i := by
  unfold pubIds
  simp only [List.mem_filterMap]
  constructor
  · rintro ⟨r, hr, h⟩
    cases r <;> simp at h
    rename_i p; exact ⟨p, hr, h⟩
  · rintro ⟨p, hp, rfl⟩
    exact ⟨_, hp, rfl⟩

theorem mem_pubTags (l : List Request) (t : Nat) : t ∈ pubTags l ↔ ∃ p, .publish p ∈ l ∧ p.tag = t := by
  unfold pubTags
  simp only [List.mem_filterMap]
  constructor
  · rintro ⟨r, hr, h⟩
    cases r <;> simp at h
    rename_i p; exact ⟨p, hr, h⟩
  · rintro ⟨p, hp, rfl⟩
    exact ⟨_, hp, rfl⟩

theorem some_mem_iff_getElem? (l : List (Option Pub)) (p : Pub) : some p ∈ l ↔ ∃ i : Nat, l[i]? = some (some p) :=
  List.mem_iff_getElem?

theorem cleanState_clean {s : State} (h : SInv s) : cleanRequests (cleanState s) = [] := by
  have hs := h.cleanState
  have h1 : ∀ p, some p ∉ (cleanState s).outgoingPub := by
    intro p hp
    simp [cleanState] at hp
  have h2 : ∀ i, relContains (cleanState s) i = false := by
    intro i
    cases h' : relContains (cleanState s) i with
    | false => rfl
    | true =>
      rw [relContains_eq] at h'
      simp [cleanState, List.getElem?_map] at h'
  cases hl : cleanRequests (cleanState s) with
  | nil => rfl
  | cons r rest =>
    have : r ∈ cleanRequests (cleanState s) := by rw [hl]; simp
    rw [mem_cleanRequests hs] at this
    rcases this with ⟨p, _, hp⟩ | ⟨i, _, hi⟩ | ⟨c, hc, _⟩
    · exact absurd hp (h1 p)
    · rw [h2 i] at hi; simp at hi
    · simp [cleanState] at hc

end Client
