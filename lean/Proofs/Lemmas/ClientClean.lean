/-
Facts about what `clean()` returns: membership, length (= occupied slots + set release bits),
distinct ids; independent of the v4 rotation point.
-/
import Proofs.Lemmas.ClientSInv
namespace Client
open Client.Spec

theorem mem_pubRequests (l : List (Option Pub)) (r : Request) :
    r ∈ pubRequests l ↔ ∃ p, r = .publish p ∧ some p ∈ l := by
  unfold pubRequests
  simp only [List.mem_filterMap]
  constructor
  · rintro ⟨o, ho, h⟩
    cases o with
    | none => simp at h
    | some p => simp at h; exact ⟨p, h.symm, ho⟩
  · rintro ⟨p, rfl, hp⟩
    exact ⟨some p, hp, rfl⟩

theorem mem_rot {α} (l : List α) (k : Nat) (x : α) : x ∈ l.drop k ++ l.take k ↔ x ∈ l := by
  rw [List.mem_append]
  constructor
  · rintro (h | h)
    · exact List.mem_of_mem_drop h
    · exact List.mem_of_mem_take h
  · intro h
    rw [← List.take_append_drop k l, List.mem_append] at h
    exact h.symm

theorem mem_cleanPubs (s : State) (r : Request) :
    r ∈ cleanPubs s ↔ ∃ p, r = .publish p ∧ some p ∈ s.outgoingPub := by
  unfold cleanPubs
  split
  · rw [mem_pubRequests]; simp only [mem_rot]
  · rw [mem_pubRequests]

theorem length_pubRequests (l : List (Option Pub)) : (pubRequests l).length = occ l := by
  unfold pubRequests occ
  induction l with
  | nil => rfl
  | cons a l ih =>
    cases a with
    | none => simpa [List.filterMap_cons] using ih
    | some p => simp [ih]

theorem occ_append (a b : List (Option Pub)) : occ (a ++ b) = occ a + occ b := by
  simp [occ, List.countP_append]

theorem occ_rot (l : List (Option Pub)) (k : Nat) : occ (l.drop k ++ l.take k) = occ l := by
  rw [occ_append, Nat.add_comm, ← occ_append, List.take_append_drop]

theorem length_cleanPubs (s : State) : (cleanPubs s).length = occ s.outgoingPub := by
  unfold cleanPubs
  split
  · rw [length_pubRequests, occ_rot]
  · rw [length_pubRequests]

theorem relOnesFrom_spec (l : List Bool) (off : Nat) (i : Nat) :
    i ∈ relOnesFrom l off ↔ off ≤ i ∧ l[i - off]? = some true := by
  induction l generalizing off with
  | nil => simp [relOnesFrom]
  | cons b l ih =>
    unfold relOnesFrom
    split
    · rename_i hb
      simp only [List.mem_cons, ih]
      constructor
      · rintro (h | ⟨h1, h2⟩)
        · subst h; simp [hb]
        · refine ⟨by omega, ?_⟩
          have : i - off = (i - (off + 1)) + 1 := by omega
          rw [this]; simpa using h2
      · rintro ⟨h1, h2⟩
        by_cases he : i = off
        · exact Or.inl he
        · right
          refine ⟨by omega, ?_⟩
          have : i - off = (i - (off + 1)) + 1 := by omega
          rw [this] at h2; simpa using h2
    · rename_i hb
      simp only [ih]
      constructor
      · rintro ⟨h1, h2⟩
        refine ⟨by omega, ?_⟩
        have : i - off = (i - (off + 1)) + 1 := by omega
        rw [this]; simpa using h2
      · rintro ⟨h1, h2⟩
        have hne : i ≠ off := by
          intro he; subst he; simp at h2; exact hb h2
        refine ⟨by omega, ?_⟩
        have : i - off = (i - (off + 1)) + 1 := by omega
        rw [this] at h2; simpa using h2

theorem mem_relOnes (s : State) (i : Nat) : i ∈ relOnes s ↔ relContains s i = true := by
  unfold relOnes
  rw [relOnesFrom_spec, relContains_eq]; simp

theorem length_relOnesFrom (l : List Bool) (off : Nat) : (relOnesFrom l off).length = relCount l := by
  induction l generalizing off with
  | nil => rfl
  | cons b l ih =>
    unfold relOnesFrom
    cases b <;> simp [relCount, ih] <;> exact ih _

theorem length_cleanRequests (s : State) :
    (cleanRequests s).length = occ s.outgoingPub + relCount s.outgoingRel := by
  simp [cleanRequests, length_cleanPubs, relOnes, length_relOnesFrom]

theorem mem_cleanRequests (s : State) (r : Request) :
    r ∈ cleanRequests s ↔ (∃ p, r = .publish p ∧ some p ∈ s.outgoingPub) ∨ (∃ i, r = .pubrel i ∧ relContains s i = true) := by
  unfold cleanRequests
  rw [List.mem_append, mem_cleanPubs]
  simp only [List.mem_map, mem_relOnes]
  constructor
  · rintro (h | ⟨i, hi, rfl⟩)
    · exact Or.inl h
    · exact Or.inr ⟨i, rfl, hi⟩
  · rintro (h | ⟨i, rfl, hi⟩)
    · exact Or.inl h
    · exact Or.inr ⟨i, hi, rfl⟩

theorem pubIds_append (a b : List Request) : pubIds (a ++ b) = pubIds a ++ pubIds b := by
  simp [pubIds, List.filterMap_append]

theorem pubTags_append (a b : List Request) : pubTags (a ++ b) = pubTags a ++ pubTags b := by
  simp [pubTags, List.filterMap_append]

theorem pubIds_map_pubrel (l : List Nat) : pubIds (l.map Request.pubrel) = [] := by
  induction l with
  | nil => rfl
  | cons a l ih => simp [pubIds]

theorem pubTags_map_pubrel (l : List Nat) : pubTags (l.map Request.pubrel) = [] := by
  induction l with
  | nil => rfl
  | cons a l ih => simp [pubTags]

/-- ids of the stored publishes, in table order -/
def slotIds (l : List (Option Pub)) : List Nat := l.filterMap (fun o => o.map (·.pkid))

theorem pubIds_pubRequests (l : List (Option Pub)) : pubIds (pubRequests l) = slotIds l := by
  unfold pubIds pubRequests slotIds
  induction l with
  | nil => rfl
  | cons a l ih => cases a <;> simp [ih]

theorem slotIds_append (a b : List (Option Pub)) : slotIds (a ++ b) = slotIds a ++ slotIds b := by
  simp [slotIds, List.filterMap_append]

theorem mem_slotIds (l : List (Option Pub)) (i : Nat) : i ∈ slotIds l ↔ ∃ p, some p ∈ l ∧ p.pkid = i := by
  unfold slotIds
  simp only [List.mem_filterMap]
  constructor
  · rintro ⟨o, ho, h⟩
    cases o with
    | none => simp at h
    | some p => simp at h; exact ⟨p, ho, h⟩
  · rintro ⟨p, hp, rfl⟩
    exact ⟨some p, hp, rfl⟩

theorem slotIds_sorted (l : List (Option Pub)) (off : Nat)
    (h : ∀ (i : Nat) (p : Pub), l[i]? = some (some p) → p.pkid = off + i) :
    (slotIds l).Pairwise (· < ·) ∧ ∀ x ∈ slotIds l, off ≤ x := by
  induction l generalizing off with
  | nil => simp [slotIds]
  | cons a l ih =>
    have ih' := ih (off + 1) (by
      intro i p hp
      have := h (i + 1) p (by simpa using hp)
      omega)
    cases a with
    | none =>
      simp only [slotIds, List.filterMap_cons, Option.map_none] at ih' ⊢
      exact ⟨ih'.1, fun x hx => by have := ih'.2 x hx; omega⟩
    | some p =>
      have hp : p.pkid = off := by simpa using h 0 p (by simp)
      simp only [slotIds, List.filterMap_cons, Option.map_some] at ih' ⊢
      refine ⟨List.pairwise_cons.mpr ⟨fun x hx => ?_, ih'.1⟩, ?_⟩
      · have := ih'.2 x hx; omega
      · intro x hx
        rcases List.mem_cons.mp hx with h1 | h1
        · omega
        · have := ih'.2 x h1; omega

theorem slotIds_nodup (l : List (Option Pub))
    (h : ∀ (i : Nat) (p : Pub), l[i]? = some (some p) → p.pkid = i) : (slotIds l).Nodup := by
  have := (slotIds_sorted l 0 (by simpa using h)).1
  exact this.imp (fun h => Nat.ne_of_lt h)

theorem nodup_rot {α} (l : List α) (k : Nat) (h : l.Nodup) : (l.drop k ++ l.take k).Nodup := by
  rw [← List.take_append_drop k l] at h
  rw [List.nodup_append] at h ⊢
  exact ⟨h.2.1, h.1, fun a ha b hb => (h.2.2 b hb a ha).symm⟩

theorem slotIds_drop_take (l : List (Option Pub)) (k : Nat) :
    slotIds (l.drop k ++ l.take k) = (slotIds l).drop (slotIds (l.take k)).length ++ (slotIds l).take (slotIds (l.take k)).length := by
  have h : slotIds l = slotIds (l.take k) ++ slotIds (l.drop k) := by
    rw [← slotIds_append, List.take_append_drop]
  rw [slotIds_append, h]
  simp

theorem pubIds_cleanPubs_nodup {s : State} (h : SInv s) : (pubIds (cleanPubs s)).Nodup := by
  have hn := slotIds_nodup s.outgoingPub (fun i p hp => (h.slotId i p hp).1)
  unfold cleanPubs
  split
  · rw [pubIds_pubRequests, slotIds_drop_take]
    exact nodup_rot _ _ hn
  · rw [pubIds_pubRequests]; exact hn

theorem pubIds_cleanRequests (s : State) : pubIds (cleanRequests s) = pubIds (cleanPubs s) := by
  simp [cleanRequests, pubIds_append, pubIds_map_pubrel]

theorem pubTags_cleanRequests (s : State) : pubTags (cleanRequests s) = pubTags (cleanPubs s) := by
  simp [cleanRequests, pubTags_append, pubTags_map_pubrel]

theorem mem_pubIds (l : List Request) (i : Nat) : i ∈ pubIds l ↔ ∃ p, .publish p ∈ l ∧ p.pkid = i := by
  unfold pubIds
  simp only [List.mem_filterMap]
  constructor
  · rintro ⟨r, hr, h⟩
    cases r <;> simp at h
    rename_i p; exact ⟨p, hr, h⟩
  · rintro ⟨p, hp, rfl⟩
    exact ⟨_, hp, rfl⟩

theorem mem_pubTags (l : List Request) (t : Nat) : t ∈ pubTags l ↔ ∃ p, .publish p ∈ l ∧ p.tag = t := by
  unfold pubTags
  simp only [List.mem_filterMap]
  constructor
  · rintro ⟨r, hr, h⟩
    cases r <;> simp at h
    rename_i p; exact ⟨p, hr, h⟩
  · rintro ⟨p, hp, rfl⟩
    exact ⟨_, hp, rfl⟩

theorem some_mem_iff_getElem? (l : List (Option Pub)) (p : Pub) : some p ∈ l ↔ ∃ i : Nat, l[i]? = some (some p) :=
  List.mem_iff_getElem?

theorem cleanState_clean (s : State) : cleanRequests (cleanState s) = [] := by
  have h1 : ∀ p, some p ∉ (cleanState s).outgoingPub := by
    intro p hp
    simp [cleanState] at hp
  have h2 : ∀ i, relContains (cleanState s) i = false := by
    intro i
    cases h : relContains (cleanState s) i with
    | false => rfl
    | true =>
      rw [relContains_eq] at h
      simp [cleanState, List.getElem?_map] at h
  cases hl : cleanRequests (cleanState s) with
  | nil => rfl
  | cons r rest =>
    have : r ∈ cleanRequests (cleanState s) := by rw [hl]; simp
    rw [mem_cleanRequests] at this
    rcases this with ⟨p, _, hp⟩ | ⟨i, _, hi⟩
    · exact absurd hp (h1 p)
    · rw [h2 i] at hi; simp at hi

end Client
