/-
Effect equations of the acknowledgement handlers: what happens to the tables, the counter, the
collision slot and what is returned, by cases on the slot / bit addressed. Proved once, used by
every coupling invariant.
-/
import Proofs.Lemmas.ClientGhost0
namespace Client
open Client.Spec

/-- the part of the state the properties talk about -/
structure Core where
  pub : List (Option Pub)
  rel : List Bool
  inf : Nat
  col : Option Pub
  lastPuback : Nat
  lastPkid : Nat
  deriving DecidableEq

def State.core (s : State) : Core := ⟨s.outgoingPub, s.outgoingRel, s.inflight, s.collision, s.lastPuback, s.lastPkid⟩

@[simp] theorem core_pushEv (s : State) (e : Event) : (s.pushEv e).core = s.core := rfl
@[simp] theorem core_pushOut (s : State) (o : Outgoing) : (s.pushOut o).core = s.core := rfl
@[simp] theorem core_drain (s : State) : (drainEvents s).core = s.core := rfl

inductive PubackEff (s : State) (i r : Nat) : State × Outcome → Prop
  /-- id beyond the table -/
  | oob (s' : State) (h : s.outgoingPub[i]? = none) (hc : s'.core = s.core) :
      PubackEff s i r (s', .err (.unsolicited i))
  /-- empty slot (v4 has already moved `last_puback`) -/
  | empty (s' : State) (h : s.outgoingPub[i]? = some none)
      (hc : s'.core = { s.core with lastPuback := if s.ver = Version.v4 then i else s.lastPuback }) :
      PubackEff s i r (s', .err (.unsolicited i))
  /-- slot freed, nothing parked on this id (or v5 failure reason) -/
  | freed (s' : State) (x : Pub) (h : s.outgoingPub[i]? = some (some x))
      (hn : (s.ver = Version.v5 ∧ ackOk r = false) ∨ ∀ c, s.collision = some c → c.pkid ≠ i)
      (hc : s'.core = { s.core with pub := s.outgoingPub.set i none, inf := s.inflight - 1, lastPuback := if s.ver = Version.v4 then i else s.lastPuback }) :
      PubackEff s i r (s', .ok none)
  /-- slot freed and the parked publish takes it -/
  | released (s' : State) (x c : Pub) (h : s.outgoingPub[i]? = some (some x))
      (hv : ¬ (s.ver = Version.v5 ∧ ackOk r = false)) (hcol : s.collision = some c) (hci : c.pkid = i)
      (hc : s'.core = { s.core with pub := (s.outgoingPub.set i none).set i (some c), inf := s.inflight - 1 + 1, col := none, lastPuback := if s.ver = Version.v4 then i else s.lastPuback }) :
      PubackEff s i r (s', .ok (some (.publish c)))

theorem handlePuback_eff {s : State} (hs : SInv s) (i r : Nat) : PubackEff s i r (handlePuback s i r) := by
  unfold handlePuback
  split
  · rename_i h; exact .oob _ h rfl
  · rename_i slot hslot
    have hlp : ∀ s1 : State, s1 = (if s.ver = Version.v4 then { s with lastPuback := i } else s) →
        s1.core = { s.core with lastPuback := if s.ver = Version.v4 then i else s.lastPuback } ∧ s1.ver = s.ver := by
      intro s1 h1; subst h1
      split <;> exact ⟨rfl, rfl⟩
    generalize hs1 : (if s.ver = Version.v4 then { s with lastPuback := i } else s) = s1
    obtain ⟨hc1, hv1⟩ := hlp s1 hs1.symm
    have e1 : s1.outgoingPub = s.outgoingPub := congrArg Core.pub hc1
    have e2 : s1.inflight = s.inflight := congrArg Core.inf hc1
    have e3 : s1.collision = s.collision := congrArg Core.col hc1
    have e4 : s1.outgoingRel = s.outgoingRel := congrArg Core.rel hc1
    have e5 : s1.lastPuback = (if s.ver = Version.v4 then i else s.lastPuback) := congrArg Core.lastPuback hc1
    have e6 : s1.lastPkid = s.lastPkid := congrArg Core.lastPkid hc1
    simp only
    cases slot with
    | none => exact .empty _ hslot hc1
    | some x =>
      simp only
      have hpos := occ_pos_of_slot _ _ _ hslot
      have hcnt := hs.counter
      rw [if_neg (by rw [e2]; omega)]
      by_cases hv : (decide (s.ver = Version.v5) && !ackOk r) = true
      · rw [if_pos hv]
        refine .freed _ x hslot (Or.inl ?_) ?_
        · simpa using hv
        · simp [State.core, e1, e2, e3, e4, e5, e6]
      · rw [if_neg hv]
        have hv' : ¬ (s.ver = Version.v5 ∧ ackOk r = false) := by simpa using hv
        unfold pubackCollision
        simp only [e3]
        cases hcol : s.collision with
        | none =>
          refine .freed _ x hslot (Or.inr (by simp [hcol])) ?_
          simp [State.core, e1, e2, e3, e4, e5, e6, hcol]
        | some c =>
          simp only
          by_cases hci : c.pkid = i
          · rw [if_pos hci]
            refine .released _ x c hslot hv' hcol hci ?_
            simp [State.core, State.pushOut, State.pushEv, e1, e2, e4, e5, e6, hci]
          · rw [if_neg hci]
            refine .freed _ x hslot (Or.inr (by intro c' hc'; rw [hcol] at hc'; cases hc'; exact hci)) ?_
            simp [State.core, e1, e2, e3, e4, e5, e6, hcol]

inductive PubrecEff (s : State) (i r : Nat) : State × Outcome → Prop
  | unsol (s' : State) (h : s.outgoingPub[i]? = none ∨ s.outgoingPub[i]? = some none) (hc : s'.core = s.core) :
      PubrecEff s i r (s', .err (.unsolicited i))
  /-- v5 failure reason: slot freed, counter kept, no release -/
  | failed (s' : State) (x : Pub) (h : s.outgoingPub[i]? = some (some x)) (hv : s.ver = Version.v5 ∧ ackOk r = false)
      (hc : s'.core = { s.core with pub := s.outgoingPub.set i none }) :
      PubrecEff s i r (s', .ok none)
  | moved (s' : State) (x : Pub) (h : s.outgoingPub[i]? = some (some x)) (hv : ¬ (s.ver = Version.v5 ∧ ackOk r = false))
      (hi : i < s.outgoingRel.length)
      (hc : s'.core = { s.core with pub := s.outgoingPub.set i none, rel := s.outgoingRel.set i true }) :
      PubrecEff s i r (s', .ok (some (.pubrel i)))

theorem handlePubrec_eff {s : State} (hs : SInv s) (i r : Nat) : PubrecEff s i r (handlePubrec s i r) := by
  unfold handlePubrec
  split
  · rename_i h; exact .unsol _ (Or.inl h) rfl
  · rename_i h; exact .unsol _ (Or.inr h) rfl
  · rename_i x hslot
    have hlt : i < s.outgoingRel.length := by
      have := hs.lenPub; have := hs.lenRel; have := getElem?_lt_of_some hslot; omega
    simp only
    by_cases hv : (decide (s.ver = Version.v5) && !ackOk r) = true
    · rw [if_pos hv]
      exact .failed _ x hslot (by simpa using hv) rfl
    · rw [if_neg hv, if_pos hlt]
      exact .moved _ x hslot (by simpa using hv) hlt rfl

inductive PubcompEff (s : State) (i r : Nat) : State × Outcome → Prop
  /-- no parked publish waits for this id: the bit decides -/
  | unsol (s' : State) (h : relContains s i = false) (hc : s'.core = s.core) :
      PubcompEff s i r (s', .err (.unsolicited i))
  | done (s' : State) (h : relContains s i = true) (dec : Bool)
      (hdec : dec = false → s.ver = Version.v5 ∧ r ≠ 0)
      (hc : s'.core = { s.core with rel := s.outgoingRel.set i false, inf := if dec then s.inflight - 1 else s.inflight }) :
      PubcompEff s i r (s', .ok none)

/-- PUBCOMP when no parked publish waits for its id (otherwise: #4 / #13) -/
theorem handlePubcomp_eff {s : State} (hs : SInv s) (i r : Nat)
    (hn : ∀ c, s.collision = some c → c.pkid ≠ i) : PubcompEff s i r (handlePubcomp s i r) := by
  unfold handlePubcomp
  split
  · rename_i hv
    unfold handlePubcompV4
    by_cases hc : relContains s i = true
    · rw [if_pos hc]
      have hpos := relCount_pos_of_bit _ _ ((relContains_eq s i).mp hc)
      have hcnt := hs.counter
      rw [if_neg (by omega)]
      simp only
      cases hcol : s.collision with
      | none => exact .done _ hc true (by simp) (by simp [State.core, hcol])
      | some c =>
        simp only
        rw [if_neg (hn c hcol)]
        exact .done _ hc true (by simp) (by simp [State.core, hcol])
    · rw [if_neg hc]
      exact .unsol _ (by simpa using hc) rfl
  · rename_i hv
    unfold handlePubcompV5
    have ht : pubcompTakeCollision s i = s := by
      unfold pubcompTakeCollision
      cases hcol : s.collision with
      | none => rfl
      | some c => simp only; rw [if_neg (hn c hcol)]
    have hk : pubcompTaken s i = none := by
      unfold pubcompTaken
      cases hcol : s.collision with
      | none => rfl
      | some c => simp only; rw [if_neg (hn c hcol)]
    simp only [ht, hk]
    by_cases hc : relContains s i = true
    · rw [if_pos hc]
      by_cases hr : (r != 0) = true
      · rw [if_pos hr]
        exact .done _ hc false (fun _ => ⟨hv, by simpa using hr⟩) (by simp [State.core])
      · rw [if_neg hr]
        have hpos := relCount_pos_of_bit _ _ ((relContains_eq s i).mp hc)
        have hcnt := hs.counter
        rw [if_neg (by (try simp only); omega)]
        exact .done _ hc true (by simp) (by simp [State.core])
    · rw [if_neg hc]
      exact .unsol _ (by simpa using hc) rfl

/-- incoming packets other than PUBACK / PUBREC / PUBCOMP touch neither table, counter nor
    collision slot and never return a PUBLISH or PUBREL -/
theorem otherIncoming_eff (s : State) (p : Incoming)
    (h1 : ∀ i r, p ≠ .puback i r) (h2 : ∀ i r, p ≠ .pubrec i r) (h3 : ∀ i r, p ≠ .pubcomp i r) :
    (handleIncoming s p).1.core = s.core ∧
    (∀ q, (handleIncoming s p).2 ≠ .ok (some (.publish q))) ∧ (∀ j, (handleIncoming s p).2 ≠ .ok (some (.pubrel j))) := by
  have hlk := (incoming_frame s p).2.2.2
  have key : ((handleIncoming s p).1.outgoingPub = s.outgoingPub ∧ (handleIncoming s p).1.outgoingRel = s.outgoingRel ∧
      (handleIncoming s p).1.inflight = s.inflight ∧ (handleIncoming s p).1.collision = s.collision ∧
      (handleIncoming s p).1.lastPuback = s.lastPuback) ∧
      (∀ q, (handleIncoming s p).2 ≠ .ok (some (.publish q))) ∧ (∀ j, (handleIncoming s p).2 ≠ .ok (some (.pubrel j))) := by
    unfold handleIncoming
    have hc0 : (s.pushEv (.incoming p)).outgoingPub = s.outgoingPub ∧ (s.pushEv (.incoming p)).outgoingRel = s.outgoingRel ∧
        (s.pushEv (.incoming p)).inflight = s.inflight ∧ (s.pushEv (.incoming p)).collision = s.collision ∧
        (s.pushEv (.incoming p)).lastPuback = s.lastPuback := ⟨rfl, rfl, rfl, rfl, rfl⟩
    generalize s.pushEv (.incoming p) = s0 at hc0
    obtain ⟨e1, e4, e2, e3, e5⟩ := hc0
    simp only
    cases p with
    | puback i r => exact absurd rfl (h1 i r)
    | pubrec i r => exact absurd rfl (h2 i r)
    | pubcomp i r => exact absurd rfl (h3 i r)
    | publish q =>
      obtain ⟨a1, a2, a3, a4, a5, a6, a7, a8, a9, a10⟩ := handlePublish_fields s0 q
      obtain ⟨b1, b2⟩ := handlePublish_outcome s0 q
      exact ⟨⟨a6.trans e1, a5.trans e4, a9.trans e2, a8.trans e3, a10.trans e5⟩, b2, b1⟩
    | pubrel i r =>
      obtain ⟨a1, a2, a3, a4, a5, a6, a7, a8⟩ := handlePubrel_fields s0 i r
      exact ⟨⟨a2.trans e1, a1.trans e4, a3.trans e2, a4.trans e3, a6.trans e5⟩, a8, a7⟩
    | connack ok sp rm am =>
      simp only
      split
      · exact ⟨⟨e1, e4, e2, e3, e5⟩, by simp, by simp⟩
      · obtain ⟨a1, a2, a3, a4, a5, a6, a7, a8⟩ := handleConnack_fields s0 ok rm am
        exact ⟨⟨a2.trans e1, a1.trans e4, a3.trans e2, a4.trans e3, a6.trans e5⟩, a8, a7⟩
    | disconnect _ => simp only; split <;> exact ⟨⟨e1, e4, e2, e3, e5⟩, by simp, by simp⟩
    | pingresp => exact ⟨⟨e1, e4, e2, e3, e5⟩, by simp, by simp⟩
    | suback _ => exact ⟨⟨e1, e4, e2, e3, e5⟩, by simp, by simp⟩
    | unsuback _ => exact ⟨⟨e1, e4, e2, e3, e5⟩, by simp, by simp⟩
    | connect => exact ⟨⟨e1, e4, e2, e3, e5⟩, by simp, by simp⟩
    | subscribe => exact ⟨⟨e1, e4, e2, e3, e5⟩, by simp, by simp⟩
    | unsubscribe => exact ⟨⟨e1, e4, e2, e3, e5⟩, by simp, by simp⟩
    | pingreq => exact ⟨⟨e1, e4, e2, e3, e5⟩, by simp, by simp⟩
    | auth => exact ⟨⟨e1, e4, e2, e3, e5⟩, by simp, by simp⟩
  obtain ⟨⟨k1, k2, k3, k4, k5⟩, k6, k7⟩ := key
  refine ⟨?_, k6, k7⟩
  simp only [State.core, k1, k2, k3, k4, k5, hlk]

theorem handleIncoming_puback (s : State) (i r : Nat) :
    handleIncoming s (.puback i r) = handlePuback (s.pushEv (.incoming (.puback i r))) i r := rfl
theorem handleIncoming_pubrec (s : State) (i r : Nat) :
    handleIncoming s (.pubrec i r) = handlePubrec (s.pushEv (.incoming (.pubrec i r))) i r := rfl
theorem handleIncoming_pubcomp (s : State) (i r : Nat) :
    handleIncoming s (.pubcomp i r) = handlePubcomp (s.pushEv (.incoming (.pubcomp i r))) i r := rfl


/-- PUBCOMP in general (including the case that a parked publish waits for its id): the publish
    table is untouched, the bit decides, the collision slot is kept or emptied -/
inductive PubcompGen (s : State) (i r : Nat) : State × Outcome → Prop
  | unsol (s' : State) (o : Outcome) (h : relContains s i = false)
      (hp : s'.outgoingPub = s.outgoingPub) (hr : s'.outgoingRel = s.outgoingRel) (hi : s'.inflight = s.inflight)
      (hc : s'.collision = s.collision ∨ (s.ver = Version.v5 ∧ s'.collision = none))
      (hl : s'.lastPuback = s.lastPuback) : PubcompGen s i r (s', o)
  | done (s' : State) (o : Outcome) (h : relContains s i = true) (dec : Bool)
      (hdec : dec = false → s.ver = Version.v5 ∧ r ≠ 0)
      (hp : s'.outgoingPub = s.outgoingPub) (hr : s'.outgoingRel = s.outgoingRel.set i false)
      (hi : s'.inflight = if dec then s.inflight - 1 else s.inflight)
      (hc : (s'.collision = s.collision ∧ ∀ c, s.collision = some c → c.pkid ≠ i) ∨ s'.collision = none)
      (hl : s'.lastPuback = s.lastPuback) : PubcompGen s i r (s', o)

theorem handlePubcomp_gen {s : State} (hs : SInv s) (i r : Nat) : PubcompGen s i r (handlePubcomp s i r) := by
  unfold handlePubcomp
  split
  · rename_i hv
    unfold handlePubcompV4
    by_cases hc : relContains s i = true
    · rw [if_pos hc]
      have hpos := relCount_pos_of_bit _ _ ((relContains_eq s i).mp hc)
      have hcnt := hs.counter
      rw [if_neg (by omega)]
      simp only
      cases hcol : s.collision with
      | none => exact .done _ _ hc true (by simp) rfl rfl rfl (Or.inl ⟨hcol.symm, by intro c' hc'; rw [hcol] at hc'; cases hc'⟩) rfl
      | some c =>
        simp only
        by_cases hci : c.pkid = i
        · rw [if_pos hci]; exact .done _ _ hc true (by simp) rfl rfl rfl (Or.inr rfl) rfl
        · rw [if_neg hci]
          exact .done _ _ hc true (by simp) rfl rfl rfl (Or.inl ⟨hcol.symm, by intro c' hc'; rw [hcol] at hc'; cases hc'; exact hci⟩) rfl
    · rw [if_neg hc]
      exact .unsol _ _ (by simpa using hc) rfl rfl rfl (Or.inl rfl) rfl
  · rename_i hv
    unfold handlePubcompV5
    obtain ⟨a1, a2, a3, a4, a5, a6, a7, a8, a9, a10⟩ := pubcompTakeCollision_fields s i
    have hcol : ((pubcompTakeCollision s i).collision = s.collision ∧ ∀ c, s.collision = some c → c.pkid ≠ i) ∨
        (pubcompTakeCollision s i).collision = none := by
      unfold pubcompTakeCollision
      split
      · rename_i c hc
        split
        · exact Or.inr rfl
        · rename_i hci; exact Or.inl ⟨rfl, by intro c' hc'; rw [hc] at hc'; cases hc'; exact hci⟩
      · rename_i hc; exact Or.inl ⟨rfl, by intro c' hc'; rw [hc] at hc'; cases hc'⟩
    have hrc : relContains (pubcompTakeCollision s i) i = relContains s i := pubcompTakeCollision_rel s i i
    generalize pubcompTakeCollision s i = s1 at *
    simp only
    by_cases hc : relContains s i = true
    · rw [if_pos (by rw [hrc]; exact hc)]
      by_cases hr : (r != 0) = true
      · rw [if_pos hr]
        exact .done _ _ hc false (fun _ => ⟨hv, by simpa using hr⟩) a7 (by simp [a6]) a9 hcol a10
      · rw [if_neg hr]
        have hpos := relCount_pos_of_bit _ _ ((relContains_eq s i).mp hc)
        have hcnt := hs.counter
        rw [if_neg (by (try simp only); omega)]
        exact .done _ _ hc true (by simp) a7 (by simp [a6]) (by simp [a9]) hcol a10
    · rw [if_neg (by rw [hrc]; exact hc)]
      refine .unsol _ _ (by simpa using hc) a7 a6 a9 ?_ a10
      rcases hcol with h | h
      · exact Or.inl h.1
      · exact Or.inr ⟨hv, h⟩

end Client
