/-
Effect equations of the acknowledgement handlers: what happens to the tables, the counter, the
send stamps, the collision slot and what is returned, by cases on the slot / bit addressed.
Proved once, used by every coupling invariant.
-/
import Proofs.Lemmas.ClientGhost0
namespace Client
open Client.Spec

/-- the part of the state the properties talk about -/
structure Core where
  pub : List (Option Pub)
  rel : List Bool
  inf : Nat
  col : Option Pub
  ord : List Nat
  cnt : Nat
  lastPkid : Nat
  deriving DecidableEq

def State.core (s : State) : Core :=
  ⟨s.outgoingPub, s.outgoingRel, s.inflight, s.collision, s.outgoingOrder, s.outgoingCount, s.lastPkid⟩

@[simp] theorem core_pushEv (s : State) (e : Event) : (s.pushEv e).core = s.core := rfl
@[simp] theorem core_pushOut (s : State) (o : Outgoing) : (s.pushOut o).core = s.core := rfl
@[simp] theorem core_drain (s : State) : (drainEvents s).core = s.core := rfl

/-- the publish is stored in the slot of its id, stamped and counted -/
def Core.store (c : Core) (p : Pub) : Core :=
  { c with pub := c.pub.set p.pkid (some p), ord := c.ord.set p.pkid c.cnt, cnt := c.cnt + 1, inf := c.inf + 1 }

theorem storePub_core (s : State) (p : Pub) : (storePub s p).core = s.core.store p := rfl

theorem core_eqs {s s' : State} (h : s'.core = s.core) :
    s'.outgoingPub = s.outgoingPub ∧ s'.outgoingRel = s.outgoingRel ∧ s'.inflight = s.inflight ∧
    s'.collision = s.collision ∧ s'.outgoingOrder = s.outgoingOrder ∧ s'.outgoingCount = s.outgoingCount :=
  ⟨congrArg Core.pub h, congrArg Core.rel h, congrArg Core.inf h, congrArg Core.col h, congrArg Core.ord h,
    congrArg Core.cnt h⟩

theorem nextPkidSt_core (s : State) : (nextPkidSt s).core = { s.core with lastPkid := (nextPkidSt s).lastPkid } := by
  unfold nextPkidSt; split <;> rfl

theorem ping_core (s : State) : (handleOutgoing s .pingreq).1.core = s.core := by
  obtain ⟨f1, f2, f3, f4, f5, f6, f7, f8, f9, f10, f11, f12, f13⟩ := ping_frame s
  simp [State.core, f1, f2, f8, f9, f11, f12, f13]

/-- slot `i` has just been freed (by PUBACK, a refused PUBREC, or — with the release bit — PUBCOMP):
    `c0` is the core after freeing -/
inductive ReleaseEff (s : State) (i : Nat) (c0 : Core) : State × Outcome → Prop
  /-- nothing parked on this id -/
  | plain (s' : State) (hn : ∀ c, s.collision = some c → c.pkid ≠ i) (hc : s'.core = c0) :
      ReleaseEff s i c0 (s', .ok none)
  /-- the parked publish takes the slot and goes to the wire -/
  | released (s' : State) (c : Pub) (hcol : s.collision = some c) (hci : c.pkid = i)
      (hc : s'.core = ({ c0 with col := none }).store c) :
      ReleaseEff s i c0 (s', .ok (some (.publish c)))

theorem release_eff (s0 s : State) (i : Nat) (hcol : s.collision = s0.collision) :
    ReleaseEff s0 i s.core (release s i) := by
  unfold release
  cases hc : s.collision with
  | none =>
    exact .plain _ (by intro c hc'; rw [← hcol, hc] at hc'; cases hc') rfl
  | some c =>
    simp only
    by_cases hci : c.pkid = i
    · rw [if_pos hci]
      refine .released _ c (by rw [← hcol, hc]) hci ?_
      rw [core_pushOut, storePub_core]
      simp [State.core, hc]
    · rw [if_neg hci]
      exact .plain _ (by intro c' hc'; rw [← hcol, hc] at hc'; cases hc'; exact hci) rfl

inductive PubackEff (s : State) (i : Nat) : State × Outcome → Prop
  /-- no publish stored under this id -/
  | unsol (s' : State) (h : s.outgoingPub[i]? = none ∨ s.outgoingPub[i]? = some none) (hc : s'.core = s.core) :
      PubackEff s i (s', .err (.unsolicited i))
  /-- slot freed, counter down, a publish parked on the id released -/
  | acked (x : Pub) (res : State × Outcome) (h : s.outgoingPub[i]? = some (some x))
      (he : ReleaseEff s i { s.core with pub := s.outgoingPub.set i none, inf := s.inflight - 1 } res) :
      PubackEff s i res

theorem handlePuback_eff {s : State} (hs : SInv s) (i : Nat) : PubackEff s i (handlePuback s i) := by
  unfold handlePuback
  split
  · rename_i h; exact .unsol _ (Or.inl h) rfl
  · rename_i h; exact .unsol _ (Or.inr h) rfl
  · rename_i x hslot
    have hpos := occ_pos_of_slot _ _ _ hslot
    have hcnt := hs.counter
    rw [if_neg (by omega)]
    exact .acked x _ hslot (release_eff s { s with outgoingPub := s.outgoingPub.set i none, inflight := s.inflight - 1 } i rfl)

inductive PubrecEff (s : State) (i r : Nat) : State × Outcome → Prop
  | unsol (s' : State) (h : s.outgoingPub[i]? = none ∨ s.outgoingPub[i]? = some none) (hc : s'.core = s.core) :
      PubrecEff s i r (s', .err (.unsolicited i))
  /-- v5 failure reason: the flow is over, as with a PUBACK -/
  | failed (x : Pub) (res : State × Outcome) (h : s.outgoingPub[i]? = some (some x)) (hv : s.ver = Version.v5 ∧ ackOk r = false)
      (he : ReleaseEff s i { s.core with pub := s.outgoingPub.set i none, inf := s.inflight - 1 } res) :
      PubrecEff s i r res
  | moved (s' : State) (x : Pub) (h : s.outgoingPub[i]? = some (some x)) (hv : ¬ (s.ver = Version.v5 ∧ ackOk r = false))
      (hi : i < s.outgoingRel.length)
      (hc : s'.core = { s.core with pub := s.outgoingPub.set i none, rel := s.outgoingRel.set i true }) :
      PubrecEff s i r (s', .ok (some (.pubrel i)))

theorem handlePubrec_eff {s : State} (hs : SInv s) (i r : Nat) : PubrecEff s i r (handlePubrec s i r) := by
  unfold handlePubrec
  split
  · rename_i h; exact .unsol _ (Or.inl h) rfl
  · rename_i h; exact .unsol _ (Or.inr h) rfl
  · rename_i x hslot
    have hlt : i < s.outgoingRel.length := by
      have := hs.lenPub; have := hs.lenRel; have := getElem?_lt_of_some hslot; omega
    have hpos := occ_pos_of_slot _ _ _ hslot
    have hcnt := hs.counter
    simp only
    by_cases hv : (decide (s.ver = Version.v5) && !ackOk r) = true
    · rw [if_pos hv, if_neg (by omega)]
      exact .failed x _ hslot (by simpa using hv) (release_eff s { s with outgoingPub := s.outgoingPub.set i none, inflight := s.inflight - 1 } i rfl)
    · rw [if_neg hv, if_pos hlt]
      exact .moved _ x hslot (by simpa using hv) hlt rfl

inductive PubcompEff (s : State) (i : Nat) : State × Outcome → Prop
  | unsol (s' : State) (h : relContains s i = false) (hc : s'.core = s.core) :
      PubcompEff s i (s', .err (.unsolicited i))
  /-- bit cleared, counter down, a publish parked on the id released -/
  | done (res : State × Outcome) (h : relContains s i = true)
      (he : ReleaseEff s i { s.core with rel := s.outgoingRel.set i false, inf := s.inflight - 1 } res) :
      PubcompEff s i res

theorem handlePubcomp_eff {s : State} (hs : SInv s) (i : Nat) : PubcompEff s i (handlePubcomp s i) := by
  unfold handlePubcomp
  by_cases hc : relContains s i = true
  · rw [if_pos hc]
    have hpos := relCount_pos_of_bit _ _ ((relContains_eq s i).mp hc)
    have hcnt := hs.counter
    rw [if_neg (by omega)]
    exact .done _ hc (release_eff s { s with outgoingRel := s.outgoingRel.set i false, inflight := s.inflight - 1 } i rfl)
  · rw [if_neg hc]
    exact .unsol _ (by simpa using hc) rfl

theorem ReleaseEff.transfer {s s0 : State} {i : Nat} {c0 : Core} {res : State × Outcome}
    (h : ReleaseEff s0 i c0 res) (hcol : s0.collision = s.collision) :
    ReleaseEff s i c0 (drainEvents res.1, res.2) := by
  cases h with
  | plain s' hn hc => exact .plain _ (by rw [← hcol]; exact hn) (by rw [core_drain, hc])
  | released s' c hc' hci hc => exact .released _ c (by rw [← hcol]; exact hc') hci (by rw [core_drain, hc])

theorem PubackEff.transfer {s s0 : State} {i : Nat} {res : State × Outcome} (h : PubackEff s0 i res)
    (hc : s0.core = s.core) : PubackEff s i (drainEvents res.1, res.2) := by
  obtain ⟨e1, e2, e3, e4, e5, e6⟩ := core_eqs hc
  cases h with
  | unsol s' h hc' => exact .unsol _ (by rw [← e1]; exact h) (by rw [core_drain, hc', hc])
  | acked x res h he =>
    refine .acked x _ (by rw [← e1]; exact h) ?_
    have := he.transfer e4
    rw [hc, e1, e3] at this
    exact this

theorem PubrecEff.transfer {s s0 : State} {i r : Nat} {res : State × Outcome} (h : PubrecEff s0 i r res)
    (hc : s0.core = s.core) (hv : s0.ver = s.ver) : PubrecEff s i r (drainEvents res.1, res.2) := by
  obtain ⟨e1, e2, e3, e4, e5, e6⟩ := core_eqs hc
  cases h with
  | unsol s' h hc' => exact .unsol _ (by rw [← e1]; exact h) (by rw [core_drain, hc', hc])
  | failed x res h hv' he =>
    refine .failed x _ (by rw [← e1]; exact h) (by rw [← hv]; exact hv') ?_
    have := he.transfer e4
    rw [hc, e1, e3] at this
    exact this
  | moved s' x h hv' hi hc' =>
    exact .moved _ x (by rw [← e1]; exact h) (by rw [← hv]; exact hv') (by rw [← e2]; exact hi)
      (by rw [core_drain, hc', hc, e1, e2])

theorem PubcompEff.transfer {s s0 : State} {i : Nat} {res : State × Outcome} (h : PubcompEff s0 i res)
    (hc : s0.core = s.core) : PubcompEff s i (drainEvents res.1, res.2) := by
  obtain ⟨e1, e2, e3, e4, e5, e6⟩ := core_eqs hc
  have hrc : ∀ j, relContains s0 j = relContains s j := by intro j; unfold relContains; rw [e2]
  cases h with
  | unsol s' h hc' => exact .unsol _ (by rw [← hrc]; exact h) (by rw [core_drain, hc', hc])
  | done res h he =>
    refine .done _ (by rw [← hrc]; exact h) ?_
    have := he.transfer e4
    rw [hc, e2, e3] at this
    exact this

/-- incoming packets other than PUBACK / PUBREC / PUBCOMP touch neither table, counter nor
    collision slot and never return a PUBLISH or PUBREL -/
theorem otherIncoming_eff (s : State) (p : Incoming)
    (h1 : ∀ i r, p ≠ .puback i r) (h2 : ∀ i r, p ≠ .pubrec i r) (h3 : ∀ i r, p ≠ .pubcomp i r) :
    (handleIncoming s p).1.core = s.core ∧
    (∀ q, (handleIncoming s p).2 ≠ .ok (some (.publish q))) ∧ (∀ j, (handleIncoming s p).2 ≠ .ok (some (.pubrel j))) := by
  have hlk := (incoming_frame s p).2.2.2
  have key : ((handleIncoming s p).1.outgoingPub = s.outgoingPub ∧ (handleIncoming s p).1.outgoingRel = s.outgoingRel ∧
      (handleIncoming s p).1.inflight = s.inflight ∧ (handleIncoming s p).1.collision = s.collision ∧
      (handleIncoming s p).1.outgoingOrder = s.outgoingOrder ∧ (handleIncoming s p).1.outgoingCount = s.outgoingCount) ∧
      (∀ q, (handleIncoming s p).2 ≠ .ok (some (.publish q))) ∧ (∀ j, (handleIncoming s p).2 ≠ .ok (some (.pubrel j))) := by
    unfold handleIncoming
    have hc0 : (s.pushEv (.incoming p)).outgoingPub = s.outgoingPub ∧ (s.pushEv (.incoming p)).outgoingRel = s.outgoingRel ∧
        (s.pushEv (.incoming p)).inflight = s.inflight ∧ (s.pushEv (.incoming p)).collision = s.collision ∧
        (s.pushEv (.incoming p)).outgoingOrder = s.outgoingOrder ∧ (s.pushEv (.incoming p)).outgoingCount = s.outgoingCount :=
      ⟨rfl, rfl, rfl, rfl, rfl, rfl⟩
    generalize s.pushEv (.incoming p) = s0 at hc0
    obtain ⟨e1, e4, e2, e3, e5, e6⟩ := hc0
    simp only
    cases p with
    | puback i r => exact absurd rfl (h1 i r)
    | pubrec i r => exact absurd rfl (h2 i r)
    | pubcomp i r => exact absurd rfl (h3 i r)
    | publish q =>
      obtain ⟨a1, a2, a3, a4, a5, a6, a7, a8, a9, a10, a11⟩ := handlePublish_fields s0 q
      obtain ⟨b1, b2⟩ := handlePublish_outcome s0 q
      exact ⟨⟨a6.trans e1, a5.trans e4, a9.trans e2, a8.trans e3, a10.trans e5, a11.trans e6⟩, b2, b1⟩
    | pubrel i r =>
      obtain ⟨a1, a2, a3, a4, a5, a6, a7, a8, a9, a10⟩ := handlePubrel_fields s0 i
      exact ⟨⟨a2.trans e1, a1.trans e4, a3.trans e2, a4.trans e3, a7.trans e5, a8.trans e6⟩, a10, a9⟩
    | connack ok sp rm am =>
      simp only
      split
      · exact ⟨⟨e1, e4, e2, e3, e5, e6⟩, by simp, by simp⟩
      · obtain ⟨a1, a2, a3, a4, a5, a6, a7, a8, a9, a10⟩ := handleConnack_fields s0 ok rm am
        exact ⟨⟨a2.trans e1, a1.trans e4, a3.trans e2, a4.trans e3, a7.trans e5, a8.trans e6⟩, a10, a9⟩
    | disconnect _ => simp only; split <;> exact ⟨⟨e1, e4, e2, e3, e5, e6⟩, by simp, by simp⟩
    | pingresp => exact ⟨⟨e1, e4, e2, e3, e5, e6⟩, by simp, by simp⟩
    | suback _ => exact ⟨⟨e1, e4, e2, e3, e5, e6⟩, by simp, by simp⟩
    | unsuback _ => exact ⟨⟨e1, e4, e2, e3, e5, e6⟩, by simp, by simp⟩
    | connect => exact ⟨⟨e1, e4, e2, e3, e5, e6⟩, by simp, by simp⟩
    | subscribe => exact ⟨⟨e1, e4, e2, e3, e5, e6⟩, by simp, by simp⟩
    | unsubscribe => exact ⟨⟨e1, e4, e2, e3, e5, e6⟩, by simp, by simp⟩
    | pingreq => exact ⟨⟨e1, e4, e2, e3, e5, e6⟩, by simp, by simp⟩
    | auth => exact ⟨⟨e1, e4, e2, e3, e5, e6⟩, by simp, by simp⟩
  obtain ⟨⟨k1, k2, k3, k4, k5, k6⟩, k7, k8⟩ := key
  refine ⟨?_, k7, k8⟩
  simp only [State.core, k1, k2, k3, k4, k5, k6, hlk]

theorem handleIncoming_puback (s : State) (i r : Nat) :
    handleIncoming s (.puback i r) = handlePuback (s.pushEv (.incoming (.puback i r))) i := rfl
theorem handleIncoming_pubrec (s : State) (i r : Nat) :
    handleIncoming s (.pubrec i r) = handlePubrec (s.pushEv (.incoming (.pubrec i r))) i r := rfl
theorem handleIncoming_pubcomp (s : State) (i r : Nat) :
    handleIncoming s (.pubcomp i r) = handlePubcomp (s.pushEv (.incoming (.pubcomp i r))) i := rfl

theorem user_nonpublish_core (s : State) (u : UserReq) (hu : ∀ q t, u ≠ .publish q t) :
    (handleOutgoing s u.toRequest).1.core = { s.core with lastPkid := (handleOutgoing s u.toRequest).1.lastPkid } ∧
    (∀ q, (handleOutgoing s u.toRequest).2 ≠ .ok (some (.publish q))) ∧ (handleOutgoing s u.toRequest).2 ≠ .ok none := by
  cases u with
  | publish q t => exact absurd rfl (hu q t)
  | subscribe n =>
    simp only [UserReq.toRequest, handleOutgoing, outgoingSubscribe]
    split
    · exact ⟨rfl, by simp, by simp⟩
    · split
      · exact ⟨rfl, by simp, by simp⟩
      · exact ⟨by rw [core_pushOut, nextPkidSt_core]; rfl, by simp, by simp⟩
  | unsubscribe =>
    simp only [UserReq.toRequest, handleOutgoing, outgoingUnsubscribe]
    split
    · exact ⟨rfl, by simp, by simp⟩
    · exact ⟨by rw [core_pushOut, nextPkidSt_core]; rfl, by simp, by simp⟩
  | disconnect => exact ⟨rfl, by simp [UserReq.toRequest, handleOutgoing, outgoingDisconnect], by simp [UserReq.toRequest, handleOutgoing, outgoingDisconnect]⟩
  | puback i => exact ⟨rfl, by simp [UserReq.toRequest, handleOutgoing, outgoingPuback], by simp [UserReq.toRequest, handleOutgoing, outgoingPuback]⟩
  | pubrec i => exact ⟨rfl, by simp [UserReq.toRequest, handleOutgoing, outgoingPubrec], by simp [UserReq.toRequest, handleOutgoing, outgoingPubrec]⟩

end Client
