/-
Helper lemmas for C19 (network part): admission (`Model/Admission.lean`).
-/
import Model.Admission
import Model.AdmissionSpec
import Proofs.Lemmas.Codec.V4
import Proofs.Lemmas.Codec.V5
import Proofs.Lemmas.Router.Basic

namespace Admission
open Codec

/-! ### which frames decode to a CONNECT -/

def isConnect : Packet → Bool
  | .connect .. => true
  | _ => false

/-- closes the goal `dec… = .ok p → False` for a body decoder that never builds a `.connect` -/
macro "nc_close" hp:ident : tactic =>
  `(tactic| (repeat' split) <;>
      (intro h; first
        | (simp at h; subst h; simp [isConnect] at $hp:ident; done)
        | (simp at h; done)))

theorem v4_decBody_connect {k ty b1 rem body p} (h : V4.decBody k ty b1 rem body = .ok p)
    (hp : isConnect p = true) : ty = 1 := by
  unfold V4.decBody at h
  split at h
  · rfl
  all_goals (exfalso; revert h)
  · unfold V4.decConnAck; nc_close hp
  · unfold V4.decPublish; nc_close hp
  · nc_close hp
  · nc_close hp
  · nc_close hp
  · nc_close hp
  · unfold V4.decSubscribe; nc_close hp
  · unfold V4.decSubAck; nc_close hp
  · unfold V4.decUnsubscribe; nc_close hp
  · unfold V4.decUnsubAck; nc_close hp
  · nc_close hp
  · nc_close hp
  · nc_close hp
  · nc_close hp

theorem v5_decBody_connect {k ty b1 rem body p} (h : V5.decBody k ty b1 rem body = .ok p)
    (hp : isConnect p = true) : ty = 1 := by
  unfold V5.decBody at h
  split at h
  · rfl
  all_goals (exfalso; revert h)
  · unfold V5.decConnAck; nc_close hp
  · unfold V5.decPublish; nc_close hp
  · unfold V5.decAckWith; nc_close hp
  · unfold V5.decAckWith; nc_close hp
  · unfold V5.decAckWith; nc_close hp
  · unfold V5.decAckWith; nc_close hp
  · unfold V5.decSubscribe; nc_close hp
  · unfold V5.decSubAck; nc_close hp
  · unfold V5.decUnsubscribe; nc_close hp
  · unfold V5.decUnsubAck; nc_close hp
  · nc_close hp
  · nc_close hp
  · unfold V5.decDisconnect; nc_close hp
  · nc_close hp

theorem splitFrame_byte1 {max bs s} (h : splitFrame max bs = .ok s) :
    ∃ b r, bs = b :: r ∧ s.byte1 = b.toNat := by
  unfold splitFrame at h
  split at h
  · simp at h
  · simp at h
  · rename_i b r _
    split at h
    · simp at h
    · split at h
      · simp at h
      · split at h
        · simp at h
        · simp at h; subst h; exact ⟨b, r, rfl, rfl⟩

theorem v4_decConnect_level {k body level ka cid clean props will login}
    (h : V4.decConnect k body = .ok (.connect level ka cid clean props will login)) :
    V4.levelOk k level = true := by
  unfold V4.decConnect at h
  repeat' split at h
  all_goals (first | (simp at h; done) | skip)
  simp at h
  simp_all

theorem v5_decConnect_level {body level ka cid clean props will login}
    (h : V5.decConnect body = .ok (.connect level ka cid clean props will login)) :
    level = 5 := by
  unfold V5.decConnect at h
  repeat' split at h
  all_goals (first | (simp at h; done) | skip)
  simp at h
  simp_all

/-- a v4 frame that decodes to a CONNECT starts with a type-1 byte and went through `decConnect` -/
theorem v4_decode_connect {k max bs p rest} (h : V4.decode k max bs = .packet p rest)
    (hp : isConnect p = true) :
    (∃ b r, bs = b :: r ∧ b.toNat / 16 = 1) ∧ ∃ body, V4.decConnect k body = .ok p := by
  unfold V4.decode at h
  split at h
  · simp at h
  · rename_i s hs
    obtain ⟨b, r, hb, hb1⟩ := splitFrame_byte1 hs
    unfold V4.decodeFrame at h
    simp only at h
    split at h
    · simp at h
    · split at h
      · split at h <;> simp at h <;> (obtain ⟨h1, _⟩ := h; subst h1; simp [isConnect] at hp)
      · split at h
        · simp at h
        · rename_i p' hb'
          simp at h
          obtain ⟨h1, _⟩ := h; subst h1
          have := v4_decBody_connect hb' hp
          rw [this] at hb'
          refine ⟨⟨b, r, hb, ?_⟩, s.body, ?_⟩
          · rw [← hb1]; exact this
          · simpa [V4.decBody] using hb'

/-- a v5 frame that decodes to a CONNECT starts with a type-1 byte and went through `decConnect` -/
theorem v5_decode_connect {k max bs p rest} (h : V5.decode k max bs = .packet p rest)
    (hp : isConnect p = true) :
    (∃ b r, bs = b :: r ∧ b.toNat / 16 = 1) ∧ ∃ body, V5.decConnect body = .ok p := by
  unfold V5.decode at h
  split at h
  · simp at h
  · rename_i s hs
    obtain ⟨b, r, hb, hb1⟩ := splitFrame_byte1 hs
    unfold V5.decodeFrame at h
    simp only at h
    split at h
    · simp at h
    · split at h
      · (repeat' split at h) <;> simp at h <;>
          (obtain ⟨h1, _⟩ := h; subst h1; simp [isConnect] at hp)
      · split at h
        · simp at h
        · simp at h
        · rename_i p' hb'
          simp at h
          obtain ⟨h1, _⟩ := h; subst h1
          have := v5_decBody_connect hb' hp
          rw [this] at hb'
          refine ⟨⟨b, r, hb, ?_⟩, s.body, ?_⟩
          · rw [← hb1]; exact this
          · simpa [V5.decBody] using hb'

/-- the broker's v4 decoder produces a CONNECT only with protocol level 4 -/
theorem v4_decode_connect_level {max : Nat} {bs rest : Bytes} {level ka : Nat} {cid : Bytes} {clean : Bool}
    {props : Option Props} {will : Option Will} {login : Option Login}
    (h : V4.decode .broker max bs = .packet (.connect level ka cid clean props will login) rest) :
    level = 4 := by
  obtain ⟨_, body, hb⟩ := v4_decode_connect h rfl
  have := v4_decConnect_level hb
  simpa [V4.levelOk] using this

/-- the broker's v5 decoder produces a CONNECT only with protocol level 5 -/
theorem v5_decode_connect_level {max : Nat} {bs rest : Bytes} {level ka : Nat} {cid : Bytes} {clean : Bool}
    {props : Option Props} {will : Option Will} {login : Option Login}
    (h : V5.decode .broker max bs = .packet (.connect level ka cid clean props will login) rest) :
    level = 5 := by
  obtain ⟨_, body, hb⟩ := v5_decode_connect h rfl
  exact v5_decConnect_level hb

/-- the listener's decoder yields a CONNECT only from a frame whose first byte has type nibble 1,
    and only of the listener's protocol level -/
theorem decodeFirst_connect {cfg : Config} {bytes rest : Bytes} {level ka : Nat} {cid : Bytes}
    {clean : Bool} {props : Option Props} {will : Option Will} {login : Option Login}
    (h : decodeFirst cfg bytes = .packet (.connect level ka cid clean props will login) rest) :
    AdmissionSpec.startsWithConnect bytes = true ∧ level = cfg.version.level := by
  unfold decodeFirst at h
  split at h
  · rename_i hv
    obtain ⟨⟨b, r, hb, hty⟩, _⟩ := v4_decode_connect h rfl
    refine ⟨?_, ?_⟩
    · subst hb; simp [AdmissionSpec.startsWithConnect, hty]
    · rw [hv]; exact v4_decode_connect_level h
  · rename_i hv
    obtain ⟨⟨b, r, hb, hty⟩, _⟩ := v5_decode_connect h rfl
    refine ⟨?_, ?_⟩
    · subst hb; simp [AdmissionSpec.startsWithConnect, hty]
    · rw [hv]; exact v5_decode_connect_level h

/-! ### `lookup` against `any` -/

theorem lookup_mem {k v : Bytes} {ps : List (Bytes × Bytes)} (h : lookup k ps = some v) :
    (k, v) ∈ ps := by
  induction ps with
  | nil => simp [lookup] at h
  | cons kv r ih =>
    obtain ⟨k', v'⟩ := kv
    unfold lookup at h
    split at h
    · rename_i hk; simp at h; subst hk; subst h; simp
    · exact List.mem_cons_of_mem _ (ih h)

theorem lookup_of_mem {k v : Bytes} {ps : List (Bytes × Bytes)} (hn : (ps.map Prod.fst).Nodup)
    (h : (k, v) ∈ ps) : lookup k ps = some v := by
  induction ps with
  | nil => simp at h
  | cons kv r ih =>
    obtain ⟨k', v'⟩ := kv
    simp only [List.map_cons, List.nodup_cons] at hn
    unfold lookup
    rcases List.mem_cons.mp h with h | h
    · simp at h; obtain ⟨h1, h2⟩ := h; subst h1; subst h2; simp
    · split
      · rename_i hk; subst hk
        exact absurd (List.mem_map.mpr ⟨(k', v), h, rfl⟩) hn.1
      · exact ih hn.2 h

theorem any_pair_iff_mem (u p : Bytes) (ps : List (Bytes × Bytes)) :
    ps.any (fun kv => kv.1 == u && kv.2 == p) = true ↔ (u, p) ∈ ps := by
  simp only [List.any_eq_true, Bool.and_eq_true, beq_iff_eq]
  constructor
  · rintro ⟨⟨a, b⟩, hm, h1, h2⟩; simp at h1 h2; subst h1; subst h2; exact hm
  · intro h; exact ⟨(u, p), h, rfl, rfl⟩

/-- whatever `handle_auth` accepts the independent rule accepts (no assumption on the table) -/
theorem handleAuth_imp_accepted (a : AuthConfig) (login : Option Login) (cid : Bytes)
    (h : handleAuth a login cid = true) : AdmissionSpec.credentialsAccepted a login cid = true := by
  obtain ⟨st, ex⟩ := a
  unfold handleAuth at h
  unfold AdmissionSpec.credentialsAccepted
  cases ex <;> cases st <;> cases login <;> simp_all [AuthConfig.configured]
  rename_i ps l
  split at h
  · rename_i stored hs
    simp at h; subst h
    exact lookup_mem hs
  · simp at h

/-- with distinct keys (a hash map) `handle_auth` is exactly the independent rule -/
theorem handleAuth_eq_accepted (a : AuthConfig) (login : Option Login) (cid : Bytes)
    (hk : ∀ ps, a.static = some ps → (ps.map Prod.fst).Nodup) :
    handleAuth a login cid = AdmissionSpec.credentialsAccepted a login cid := by
  cases h : handleAuth a login cid
  · cases h' : AdmissionSpec.credentialsAccepted a login cid
    · rfl
    · exfalso
      obtain ⟨st, ex⟩ := a
      unfold handleAuth at h
      unfold AdmissionSpec.credentialsAccepted at h'
      cases ex <;> cases st <;> cases login <;> simp_all [AuthConfig.configured]
      rename_i ps l
      rw [lookup_of_mem hk h'] at h
      simp at h
  · exact (handleAuth_imp_accepted a login cid h).symm

/-! ### `mqtt_connect` -/

/-- everything `admit` checks before it answers `proceed` -/
theorem admit_proceed {cfg : Config} {bytes : Bytes} {tail : Tail} {c : Connect}
    (h : admit cfg bytes tail = .proceed c) :
    (∃ rest, decodeFirst cfg bytes = .packet c.toPacket rest) ∧
    handleAuth cfg.auth c.login c.clientId = true ∧ c.keepAlive ≠ 0 ∧
    (c.clientId ≠ [] ∨ c.clean = true) := by
  unfold admit at h
  split at h
  · rename_i p rest hd
    unfold mqttConnect at h
    split at h
    · split at h
      · simp at h
      · split at h
        · simp at h
        · split at h
          · simp at h
          · rename_i lv ka cid cl pr wl lg h1 h2 h3
            simp at h; subst h
            simp only [Connect.toPacket]
            refine ⟨⟨rest, hd⟩, ?_, h2, ?_⟩
            · simpa using h1
            · simp only [Bool.and_eq_true, Bool.not_eq_true', not_and, List.isEmpty_iff,
                Bool.not_eq_false] at h3
              by_cases hc : cid = []
              · exact Or.inr (h3 hc)
              · exact Or.inl hc
    · simp at h
  · split at h <;> simp at h
  · simp at h

/-- the only CONNACK `mqtt_connect` writes before returning an error -/
theorem admit_reject {cfg : Config} {bytes : Bytes} {tail : Tail} {ck : Option ConnCode} {why : Reject}
    (h : admit cfg bytes tail = .reject ck why) :
    (ck = none ∧ why ≠ .invalidClientId) ∨
      (ck = some .ClientIdentifierNotValid ∧ why = .invalidClientId) := by
  unfold admit at h
  split at h
  · unfold mqttConnect at h
    (repeat' split at h) <;> simp at h <;> obtain ⟨h1, h2⟩ := h <;> subst h1 <;> subst h2 <;> simp
  · split at h <;> simp at h <;> obtain ⟨h1, h2⟩ := h <;> subst h1 <;> subst h2 <;> simp
  · simp at h; obtain ⟨h1, h2⟩ := h; subst h1; subst h2; simp

/-! ### the composition with the router -/

/-- a CONNECT the router refuses for its client id leaves a freshly emptied link buffer: no CONNACK -/
theorem registered_of_handleNewConnection {s s' : Router.RState} {spec : Router.ConnectSpec}
    (h : Router.handleNewConnection s spec = .ok s') (hr : registered s' spec.link = true) :
    Router.validClientId spec.clientId = true := by
  cases hv : Router.validClientId spec.clientId
  · exfalso
    unfold Router.handleNewConnection at h
    simp only [hv, Bool.not_false, if_true] at h
    simp at h
    subst h
    simp [registered, Router.getLink_setLink_same] at hr
  · rfl

theorem toSpec_link {link dyn assigned c spec} (h : toSpec link dyn assigned c = some spec) :
    spec.link = link := by
  unfold toSpec at h
  split at h
  · simp at h
  · simp at h; subst h; rfl

end Admission
