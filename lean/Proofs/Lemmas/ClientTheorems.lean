/-
Run-level results: the invariants hold along every run that avoids the triggers they need, hence
the monitor predicates hold at every step and the monitors pass on every model trace.
-/
import Proofs.Lemmas.ClientOrder
namespace Client
open Client.Spec

/-- state-level induction along a run -/
theorem run_of_inv (I : LState → Prop) (ok : LState → LOp → Prop)
    (step : ∀ l op, I l → ok l op → I (lstep l op).1)
    (l : LState) (ops : List LOp) (hi : I l) (hok : Avoids (fun l op => ¬ ok l op) l ops) : I (lrun l ops) := by
  induction ops generalizing l with
  | nil => exact hi
  | cons op ops ih =>
    simp only [lrun, List.foldl_cons]
    exact ih _ (step l op hi (Classical.not_not.mp hok.1)) hok.2

theorem Spec.Avoids.imp {t1 t2 : LState → LOp → Prop} (h12 : ∀ l op, t2 l op → t1 l op) {l : LState} {ops : List LOp}
    (h : Avoids t1 l ops) : Avoids t2 l ops := by
  induction ops generalizing l with
  | nil => trivial
  | cons op ops ih => exact ⟨fun h' => h.1 (h12 _ _ h'), ih h.2⟩

/-! ### state-level invariants along runs -/

theorem inv0_run (ver : Version) (max : Nat) (m : Bool) (h1 : 1 ≤ max) (h2 : max ≤ u16Max) (ops : List LOp)
    (hn : Avoids unsafeConnack (LState.new ver max m) ops) : Inv0 (lrun (LState.new ver max m) ops) :=
  (Inv0.new ver max m h1 h2).lrun ops hn

theorem inv4_run (ver : Version) (max : Nat) (m : Bool) (h1 : 1 ≤ max) (h2 : max ≤ u16Max) (ops : List LOp)
    (hn : Avoids unsafeConnack (LState.new ver max m) ops) : Inv4 (lrun (LState.new ver max m) ops) := by
  have := run_of_inv (fun l => Inv0 l ∧ Inv4 l) (fun l op => ¬ unsafeConnack l op) ?_
    (LState.new ver max m) ops ⟨Inv0.new ver max m h1 h2, Inv4.new ver max m⟩ hn.not_not
  · exact this.2
  · intro l op hi hok
    exact ⟨hi.1.lstep op hok, hi.2.lstep hi.1 op⟩

theorem inv23_run (ver : Version) (max : Nat) (m : Bool) (h1 : 1 ≤ max) (h2 : max ≤ u16Max) (ops : List LOp)
    (hn : Avoids unsafeConnack (LState.new ver max m) ops) :
    Inv0 (lrun (LState.new ver max m) ops) ∧ Inv2 (lrun (LState.new ver max m) ops) ∧ Inv3 (lrun (LState.new ver max m) ops) := by
  apply run_of_inv (fun l => Inv0 l ∧ Inv2 l ∧ Inv3 l) (fun l op => ¬ unsafeConnack l op)
  · intro l op hi hok
    exact ⟨hi.1.lstep op hok, hi.2.1.lstep hi.1 op, Inv3.lstep hi.1 hi.2.1 hi.2.2 op⟩
  · exact ⟨Inv0.new ver max m h1 h2, Inv2.new ver max m, Inv3.new ver max m⟩
  · exact hn.not_not

/-! ### with the ghost -/

/-- a strengthened `along_of_inv` that also hands out the equation `(lstep l op).2 = some o` -/
theorem along_of_inv' (I : LState → Ghost → Prop) (ok : LState → LOp → Prop)
    (step : ∀ l g op, I l g → ok l op →
      match (lstep l op).2 with
      | none => I (lstep l op).1 g
      | some o => I (lstep l op).1 (g.step o))
    (P : LState → Ghost → Obs → LState → Ghost → Prop)
    (hP : ∀ l g op o, I l g → ok l op → (lstep l op).2 = some o → I (lstep l op).1 (g.step o) →
      P l g o (lstep l op).1 (g.step o))
    (l : LState) (g : Ghost) (ops : List LOp) (hi : I l g)
    (hok : Avoids (fun l op => ¬ ok l op) l ops) : Along P l g ops := by
  induction ops generalizing l g with
  | nil => trivial
  | cons op ops ih =>
    simp only [Avoids] at hok
    have hok1 := Classical.not_not.mp hok.1
    have hst := step l g op hi hok1
    simp only [Along]
    cases ho : (lstep l op).2 with
    | none => rw [ho] at hst; exact ih _ _ hst hok.2
    | some o => rw [ho] at hst; exact ⟨hP l g op o hi hok1 ho hst, ih _ _ hst hok.2⟩

/-- the C07 monitor raises nothing at any step of a run that avoids #17 (residual) -/
theorem c07_checks_along (ver : Version) (max : Nat) (m : Bool) (h1 : 1 ≤ max) (h2 : max ≤ u16Max) (ops : List LOp)
    (hn : Avoids unsafeConnack (LState.new ver max m) ops) :
    Along (fun _ g o _ g' => ∀ d d', C07.checks g d o g' d' = none) (LState.new ver max m) (Ghost.init ver max m) ops := by
  apply along_of_inv' B1 (fun l op => ¬ unsafeConnack l op) B1.step _ _ _ _ _ (B1.new ver max m h1 h2) hn.not_not
  intro l g op o hi hok ho hi' d d'
  obtain ⟨v1, v2, v3⟩ := step_fields g o
  simp only [C07.checks, firstFail, chk, C07_range_ok hi op o ho, C07_window_ok hi', C07_dupId_ok hi',
    C07_resumes_ok hi' o v3.symm, C07_resolvable_ok hi' o v2.symm, if_true, List.findSome?_cons,
    List.findSome?_nil, id]

theorem c02_checks_along (ver : Version) (max : Nat) (m : Bool) (h1 : 1 ≤ max) (h2 : max ≤ u16Max) (ops : List LOp)
    (hn : Avoids unsafeConnack (LState.new ver max m) ops) :
    Along (fun _ g o _ g' => ∀ d d', C02.checks g d o g' d' = none) (LState.new ver max m) (Ghost.init ver max m) ops := by
  apply along_of_inv' B1 (fun l op => ¬ unsafeConnack l op) B1.step _ _ _ _ _ (B1.new ver max m h1 h2) hn.not_not
  intro l g op o hi hok ho hi' d d'
  obtain ⟨v1, v2, v3⟩ := step_fields g o
  simp only [C02.checks, firstFail, chk, C02_noLoss_ok hi' o v1.symm v2.symm, C02_relAnswered_ok hi op o ho, C02_relHeld_ok hi' o v1.symm,
    C02_cleanExact_ok hi op o ho, if_true, List.findSome?_cons, List.findSome?_nil, id]

theorem c10_checks_along (ver : Version) (max : Nat) (m : Bool) (h1 : 1 ≤ max) (h2 : max ≤ u16Max) (ops : List LOp)
    (hn : Avoids unsafeConnack (LState.new ver max m) ops) :
    Along (fun _ g o _ g' => ∀ d d', C10.checks g d o g' d' = none) (LState.new ver max m) (Ghost.init ver max m) ops := by
  apply along_of_inv' B1 (fun l op => ¬ unsafeConnack l op) B1.step _ _ _ _ _ (B1.new ver max m h1 h2) hn.not_not
  intro l g op o hi hok ho hi' d d'
  have hu := C10_unsolicited_ok hi op o ho
  simp only [C10.checks, firstFail, chk, C10_noPanic_ok hi.inv0 op o ho, C10_order_ok hi.evs op o ho,
    C10_ack_ok hi.g0 op o ho, C10_relAnswered_ok hi.g0 op o ho,
    hu.1, hu.2, C10_notify_ok hi.evs op o ho, if_true,
    List.findSome?_cons, List.findSome?_nil, id]

/-! ### C11 -/

theorem handleOutgoing_ver (s : State) (r : Request) : (handleOutgoing s r).1.ver = s.ver := by
  cases r with
  | publish p => exact (outgoingPublish_fields s p).2.2.2.2.1
  | pubrel i =>
    simp only [handleOutgoing, outgoingPubrel, pubrelWithId, nextPkidSt]
    (repeat' split) <;> simp_all [State.pushOut, State.pushEv]
  | subscribe n =>
    simp only [handleOutgoing, outgoingSubscribe, nextPkidSt]
    (repeat' split) <;> simp_all [State.pushOut, State.pushEv]
  | unsubscribe =>
    simp only [handleOutgoing, outgoingUnsubscribe, nextPkidSt]
    (repeat' split) <;> simp_all [State.pushOut, State.pushEv]
  | pingreq => exact (ping_frame s).2.2.2.2.2.1
  | disconnect => rfl
  | puback i => rfl
  | pubrec i => rfl
  | other => rfl

theorem lstep_ver (l : LState) (op : LOp) : (lstep l op).1.st.ver = l.st.ver := by
  unfold lstep
  cases hl : lop? l op with
  | none => rfl
  | some sop =>
    simp only
    cases sop with
    | out r => exact handleOutgoing_ver l.st r
    | inc p => exact (incoming_frame l.st p).2.1
    | clean => simp only [sstepSt]; split <;> rfl
    | drop => rfl
    | inflight => rfl

theorem unsafeConnack_v4 {l : LState} (hv : l.st.ver = .v4) (op : LOp) : ¬ unsafeConnack l op := by
  intro h
  cases op with
  | inc p =>
    cases p with
    | connack ok sp rm am =>
      cases ok <;> cases rm <;> simp [unsafeConnack, hv] at h
    | _ => simp [unsafeConnack] at h
  | _ => simp [unsafeConnack] at h

/-- C11 clause 1 after a step: `clean()` of a clone lists the unacknowledged publishes in send order
    (no assumption on the order of acknowledgements) -/
theorem C11_order_ok {l' : LState} {g' : Ghost} (hv : l'.st.ver = .v4) (h : B1 l' g') (o : Obs) (hview : o.view = g'.pView) :
    C11.order g' o = true := by
  unfold C11.order
  obtain ⟨k1, k2⟩ := cleanPubs_order h.inv0.sinv hv h.g1.unacked
  have hsent : sentPubs (cleanRequests l'.st) = cleanPubs l'.st := by
    obtain ⟨s, pd⟩ := l'
    exact sentPubs_cleanRequests h.inv0
  rw [hview, h.g0.view, hsent, k1, k2]
  cases o.op <;> simp

/-- the same as a statement about the state: whatever happened before, `clean()` returns the
    stored publishes in the order of the wire view -/
theorem clean_order_state {l : LState} {g : Ghost} (hv : l.st.ver = .v4) (h : B1 l g) :
    pubIds (sentPubs (cleanRequests l.st)) = g.unacked.map (·.1) ∧
    pubTags (sentPubs (cleanRequests l.st)) = g.unacked.map (·.2) := by
  obtain ⟨k1, k2⟩ := cleanPubs_order h.inv0.sinv hv h.g1.unacked
  have hsent : sentPubs (cleanRequests l.st) = cleanPubs l.st := by
    obtain ⟨s, pd⟩ := l
    exact sentPubs_cleanRequests h.inv0
  rw [hsent]; exact ⟨k1, k2⟩

/-- C11 clause 3: a retransmitted publish goes out with its original id and content -/
theorem C11_retransmit_ok {l : LState} (op : LOp) (o : Obs) (ho : (lstep l op).2 = some o) :
    C11.retransmitSame o = true := by
  obtain ⟨sop, hl, rfl⟩ := lstep_obs ho
  obtain ⟨s, pd⟩ := l
  unfold C11.retransmitSame
  rw [sstepObs_op]
  cases sop with
  | out r =>
    cases r with
    | publish p =>
      by_cases hp0 : p.pkid = 0
      · cases (sstepObs s (.out (.publish p))).outcome with
        | ok x =>
          cases x with
          | none => rfl
          | some pk => cases pk <;> simp [hp0]
        | err e => rfl
        | panic => rfl
      · -- a numbered publish that is written is written as it is
        have hout : (sstepObs s (.out (.publish p))).outcome = (handleOutgoing s (.publish p)).2 := rfl
        rw [hout]
        cases hh : (handleOutgoing s (.publish p)).2 with
        | ok x =>
          cases x with
          | none => rfl
          | some pk =>
            cases pk with
            | publish q =>
              have : Packet.publish q = Packet.publish p := by
                simp only [handleOutgoing, outgoingPublish] at hh
                split at hh
                · simp at hh
                · split at hh
                  · simp only [publishTail, Outcome.ok.injEq, Option.some.injEq] at hh; exact hh.symm
                  · first
                      | exact publishWithId_out s p _ hh
                      | (simp only [hp0, if_false] at hh; exact publishWithId_out s p _ hh)
              cases this
              simp
            | _ => rfl
        | err e => rfl
        | panic => rfl
    | _ => cases (sstepObs s (.out _)).outcome <;> rfl
  | inc p => cases (sstepObs s (.inc p)).outcome <;> rfl
  | clean => cases (sstepObs s .clean).outcome <;> rfl
  | drop => cases (sstepObs s .drop).outcome <;> rfl
  | inflight => cases (sstepObs s .inflight).outcome <;> rfl

/-- every v4 run avoids `unsafeConnack` -/
theorem avoids_unsafe_v4 (l : LState) (hv : l.st.ver = .v4) (ops : List LOp) : Avoids unsafeConnack l ops := by
  induction ops generalizing l with
  | nil => trivial
  | cons op ops ih => exact ⟨unsafeConnack_v4 hv op, ih _ ((lstep_ver l op).trans hv)⟩

/-- the C11 monitor raises nothing at any step of any MQTT 3.1.1 run -/
theorem c11_checks_along (max : Nat) (m : Bool) (h1 : 1 ≤ max) (h2 : max ≤ u16Max) (ops : List LOp) :
    Along (fun _ g o _ g' => ∀ d d', C11.checks g d o g' d' = none) (LState.new .v4 max m) (Ghost.init .v4 max m) ops := by
  apply along_of_inv' (fun l g => l.st.ver = .v4 ∧ B1 l g) (fun l op => ¬ unsafeConnack l op) _ _ _ _ _ _
    ⟨rfl, B1.new .v4 max m h1 h2⟩ (avoids_unsafe_v4 _ rfl ops).not_not
  · intro l g op hi hok
    have hv' := (lstep_ver l op).trans hi.1
    have hb := hi.2.step l g op hok
    cases ho : (lstep l op).2 with
    | none => rw [ho] at hb; exact ⟨hv', hb⟩
    | some o => rw [ho] at hb; exact ⟨hv', hb⟩
  · intro l g op o hi hok ho hi' d d'
    obtain ⟨v1, v2, v3⟩ := step_fields g o
    simp only [C11.checks, firstFail, chk, C11_order_ok hi'.1 hi'.2 o v1.symm, C11_retransmit_ok op o ho, if_true,
      List.findSome?_cons, List.findSome?_nil, id]

/-! ### decidability of the triggers (for the concrete witnesses and non-vacuity examples) -/

instance (l : LState) (op : LOp) : Decidable (unsafeConnack l op) := by
  unfold unsafeConnack
  cases op with
  | inc p =>
    cases p with
    | connack ok sp rm am => cases ok <;> cases rm <;> simp only <;> infer_instance
    | _ => simp only; infer_instance
  | _ => simp only; infer_instance

instance decAvoids (trig : LState → LOp → Prop) [∀ l op, Decidable (trig l op)] :
    ∀ (l : LState) (ops : List LOp), Decidable (Avoids trig l ops)
  | _, [] => isTrue trivial
  | l, op :: ops =>
    have := decAvoids trig (lstep l op).1 ops
    by unfold Avoids; infer_instance

/-- Boolean form of `Along` for predicates that are Boolean -/
def alongB (P : Ghost → Obs → Ghost → Bool) : LState → Ghost → List LOp → Bool
  | _, _, [] => true
  | l, g, op :: ops =>
    match (lstep l op).2 with
    | none => alongB P (lstep l op).1 g ops
    | some o => P g o (g.step o) && alongB P (lstep l op).1 (g.step o) ops

theorem along_iff_alongB (P : Ghost → Obs → Ghost → Bool) (l : LState) (g : Ghost) (ops : List LOp) :
    Along (fun _ g o _ g' => P g o g' = true) l g ops ↔ alongB P l g ops = true := by
  induction ops generalizing l g with
  | nil => simp [Along, alongB]
  | cons op ops ih =>
    simp only [Along, alongB]
    cases (lstep l op).2 with
    | none => exact ih _ _
    | some o => simp only [Bool.and_eq_true]; rw [ih]

instance (l : LState) : Decidable (Inv3 l) := by unfold Inv3; infer_instance

theorem handleOutgoing_maxInflight (s : State) (r : Request) : (handleOutgoing s r).1.maxInflight = s.maxInflight := by
  cases r with
  | publish p => exact (outgoingPublish_fields s p).2.2.1
  | pubrel i =>
    simp only [handleOutgoing, outgoingPubrel, pubrelWithId, nextPkidSt]
    (repeat' split) <;> simp_all [State.pushOut, State.pushEv]
  | subscribe n =>
    simp only [handleOutgoing, outgoingSubscribe, nextPkidSt]
    (repeat' split) <;> simp_all [State.pushOut, State.pushEv]
  | unsubscribe =>
    simp only [handleOutgoing, outgoingUnsubscribe, nextPkidSt]
    (repeat' split) <;> simp_all [State.pushOut, State.pushEv]
  | pingreq => exact (ping_frame s).2.2.2.1
  | disconnect => rfl
  | puback i => rfl
  | pubrec i => rfl
  | other => rfl

theorem maxInflight_v4 (s : State) (hv : s.ver = .v4) (p : Incoming) : (handleIncoming s p).1.maxInflight = s.maxInflight := by
  rw [handleIncoming_maxInflight, hv]

/-- the MQTT 3.1.1 client never changes its limit -/
theorem lrun_maxInflight_v4 (l : LState) (hv : l.st.ver = .v4) (ops : List LOp) :
    (lrun l ops).st.maxInflight = l.st.maxInflight ∧ (lrun l ops).st.ver = .v4 := by
  induction ops generalizing l with
  | nil => exact ⟨rfl, hv⟩
  | cons op ops ih =>
    simp only [lrun, List.foldl_cons]
    have hv' := (lstep_ver l op).trans hv
    have hm : (lstep l op).1.st.maxInflight = l.st.maxInflight := by
      unfold lstep
      cases hl : lop? l op with
      | none => rfl
      | some sop =>
        simp only
        cases sop with
        | out r => exact handleOutgoing_maxInflight l.st r
        | inc p => exact maxInflight_v4 l.st hv p
        | clean => simp only [sstepSt]; split <;> rfl
        | drop => rfl
        | inflight => rfl
    have := ih (lstep l op).1 hv'
    exact ⟨this.1.trans hm, this.2⟩

end Client
