/-
Run-level results: the invariants hold along every run that avoids the triggers they need, hence
the monitor predicates hold at every step and the monitors pass on every model trace.
-/
import Proofs.Lemmas.ClientOrder
namespace Client
open Client.Spec

/-- state-level induction along a run -/
theorem run_of_inv (I : LState → Prop) (ok : LState → LOp → Prop)
    (step : ∀ l op, I l → ok l op → I (lstep l op).1)
    (l : LState) (ops : List LOp) (hi : I l) (hok : Avoids (fun l op => ¬ ok l op) l ops) : I (lrun l ops) := by
  induction ops generalizing l with
  | nil => exact hi
  | cons op ops ih =>
    simp only [lrun, List.foldl_cons]
    exact ih _ (step l op hi (Classical.not_not.mp hok.1)) hok.2

theorem Spec.Avoids.imp {t1 t2 : LState → LOp → Prop} (h12 : ∀ l op, t2 l op → t1 l op) {l : LState} {ops : List LOp}
    (h : Avoids t1 l ops) : Avoids t2 l ops := by
  induction ops generalizing l with
  | nil => trivial
  | cons op ops ih => exact ⟨fun h' => h.1 (h12 _ _ h'), ih h.2⟩

/-! ### state-level invariants along runs -/

theorem inv0_run (ver : Version) (max : Nat) (m : Bool) (h1 : 1 ≤ max) (h2 : max ≤ u16Max) (ops : List LOp)
    (hn : Avoids unsafeConnack (LState.new ver max m) ops) : Inv0 (lrun (LState.new ver max m) ops) :=
  (Inv0.new ver max m h1 h2).lrun ops hn

theorem inv2_run (ver : Version) (max : Nat) (m : Bool) (h1 : 1 ≤ max) (h2 : max ≤ u16Max) (ops : List LOp)
    (hn : Avoids (fun l op => unsafeConnack l op ∨ idReuseAwaitingComp l op) (LState.new ver max m) ops) :
    Inv0 (lrun (LState.new ver max m) ops) ∧ Inv2 (lrun (LState.new ver max m) ops) := by
  apply run_of_inv (fun l => Inv0 l ∧ Inv2 l) (fun l op => ¬ (unsafeConnack l op ∨ idReuseAwaitingComp l op))
  · intro l op hi hok
    exact ⟨hi.1.lstep op (fun h => hok (Or.inl h)), hi.2.lstep hi.1 op (fun h => hok (Or.inr h))⟩
  · exact ⟨Inv0.new ver max m h1 h2, Inv2.new ver max m⟩
  · exact hn.not_not

theorem inv3_run (ver : Version) (max : Nat) (m : Bool) (h1 : 1 ≤ max) (h2 : max ≤ u16Max) (ops : List LOp)
    (hn : Avoids (fun l op => unsafeConnack l op ∨ idReuseAwaitingComp l op ∨ failedRecOrComp l op) (LState.new ver max m) ops) :
    Inv3 (lrun (LState.new ver max m) ops) := by
  have := run_of_inv (fun l => Inv0 l ∧ Inv2 l ∧ Inv3 l)
    (fun l op => ¬ (unsafeConnack l op ∨ idReuseAwaitingComp l op ∨ failedRecOrComp l op)) ?_
    (LState.new ver max m) ops ⟨Inv0.new ver max m h1 h2, Inv2.new ver max m, Inv3.new ver max m⟩ hn.not_not
  · exact this.2.2
  · intro l op hi hok
    exact ⟨hi.1.lstep op (fun h => hok (Or.inl h)), hi.2.1.lstep hi.1 op (fun h => hok (Or.inr (Or.inl h))),
      Inv3.lstep hi.1 hi.2.1 hi.2.2 op (fun h => hok (Or.inr (Or.inr h)))⟩

theorem inv4_run (ver : Version) (max : Nat) (m : Bool) (h1 : 1 ≤ max) (h2 : max ≤ u16Max) (ops : List LOp)
    (hn : Avoids (fun l op => unsafeConnack l op ∨ cleanWithCollision l op ∨ failedAckOnCollision l op) (LState.new ver max m) ops) :
    Inv4 (lrun (LState.new ver max m) ops) := by
  have := run_of_inv (fun l => Inv0 l ∧ Inv4 l)
    (fun l op => ¬ (unsafeConnack l op ∨ cleanWithCollision l op ∨ failedAckOnCollision l op)) ?_
    (LState.new ver max m) ops ⟨Inv0.new ver max m h1 h2, Inv4.new ver max m⟩ hn.not_not
  · exact this.2
  · intro l op hi hok
    exact ⟨hi.1.lstep op (fun h => hok (Or.inl h)),
      Inv4.lstep hi.1 hi.2 op (fun h => hok (Or.inr (Or.inl h))) (fun h => hok (Or.inr (Or.inr h)))⟩

/-! ### with the ghost -/

/-- everything C07 needs at once -/
structure BAll (l : LState) (g : Ghost) : Prop where
  b1 : B1 l g
  i2 : Inv2 l
  i3 : Inv3 l
  i4 : Inv4 l

/-- all corner cases the C07 clauses exclude -/
def c07Trigger (l : LState) (op : LOp) : Prop :=
  unsafeConnack l op ∨ pubcompOnCollision l op ∨ idReuseAwaitingComp l op ∨ failedRecOrComp l op ∨
  cleanWithCollision l op ∨ failedAckOnCollision l op

theorem BAll.step (l : LState) (g : Ghost) (op : LOp) (h : BAll l g) (hn : ¬ c07Trigger l op) :
    match (lstep l op).2 with
    | none => BAll (lstep l op).1 g
    | some o => BAll (lstep l op).1 (g.step o) := by
  have h1 := h.b1.step l g op (fun h' => hn (h'.elim Or.inl (fun h'' => Or.inr (Or.inl h''))))
  have h0 := h.b1.b0.inv0
  have h2 := h.i2.lstep h0 op (fun h' => hn (Or.inr (Or.inr (Or.inl h'))))
  have h3 := Inv3.lstep h0 h.i2 h.i3 op (fun h' => hn (Or.inr (Or.inr (Or.inr (Or.inl h')))))
  have h4 := Inv4.lstep h0 h.i4 op (fun h' => hn (Or.inr (Or.inr (Or.inr (Or.inr (Or.inl h'))))))
    (fun h' => hn (Or.inr (Or.inr (Or.inr (Or.inr (Or.inr h'))))))
  cases ho : (lstep l op).2 with
  | none => rw [ho] at h1; exact ⟨h1, h2, h3, h4⟩
  | some o => rw [ho] at h1; exact ⟨h1, h2, h3, h4⟩

theorem BAll.new (ver : Version) (max : Nat) (m : Bool) (h1 : 1 ≤ max) (h2 : max ≤ u16Max) :
    BAll (LState.new ver max m) (Ghost.init ver max m) :=
  ⟨B1.new ver max m h1 h2, Inv2.new ver max m, Inv3.new ver max m, Inv4.new ver max m⟩

theorem lstep_some_ne {l : LState} {op : LOp} {o : Obs} (ho : (lstep l op).2 = some o) :
    (lstep l op).2 = some o := ho

/-- a strengthened `along_of_inv` that also hands out the equation `(lstep l op).2 = some o` -/
theorem along_of_inv' (I : LState → Ghost → Prop) (ok : LState → LOp → Prop)
    (step : ∀ l g op, I l g → ok l op →
      match (lstep l op).2 with
      | none => I (lstep l op).1 g
      | some o => I (lstep l op).1 (g.step o))
    (P : LState → Ghost → Obs → LState → Ghost → Prop)
    (hP : ∀ l g op o, I l g → ok l op → (lstep l op).2 = some o → I (lstep l op).1 (g.step o) →
      P l g o (lstep l op).1 (g.step o))
    (l : LState) (g : Ghost) (ops : List LOp) (hi : I l g)
    (hok : Avoids (fun l op => ¬ ok l op) l ops) : Along P l g ops := by
  induction ops generalizing l g with
  | nil => trivial
  | cons op ops ih =>
    simp only [Avoids] at hok
    have hok1 := Classical.not_not.mp hok.1
    have hst := step l g op hi hok1
    simp only [Along]
    cases ho : (lstep l op).2 with
    | none => rw [ho] at hst; exact ih _ _ hst hok.2
    | some o => rw [ho] at hst; exact ⟨hP l g op o hi hok1 ho hst, ih _ _ hst hok.2⟩

/-- the C07 monitor raises nothing at any step of a run that avoids the C07 triggers -/
theorem c07_checks_along (ver : Version) (max : Nat) (m : Bool) (h1 : 1 ≤ max) (h2 : max ≤ u16Max) (ops : List LOp)
    (hn : Avoids c07Trigger (LState.new ver max m) ops) :
    Along (fun _ g o _ g' => ∀ d d', C07.checks g d o g' d' = none) (LState.new ver max m) (Ghost.init ver max m) ops := by
  apply along_of_inv' BAll (fun l op => ¬ c07Trigger l op) BAll.step _ _ _ _ _ (BAll.new ver max m h1 h2) hn.not_not
  intro l g op o hi hok ho hi' d d'
  obtain ⟨v1, v2, v3⟩ := step_fields g o
  simp only [C07.checks, firstFail, chk, C07_range_ok hi.b1.b0 op o ho, C07_window_ok hi'.b1, C07_dupId_ok hi'.b1 hi'.i2,
    C07_resumes_ok hi'.b1 hi'.i3 o v3.symm, C07_resolvable_ok hi'.b1 hi'.i4 o v2.symm, if_true, List.findSome?_cons,
    List.findSome?_nil, id]

/-- the C02 monitor: needs only the base triggers (#17, #4/#13) -/
def c02Trigger (l : LState) (op : LOp) : Prop := unsafeConnack l op ∨ pubcompOnCollision l op

theorem c02_checks_along (ver : Version) (max : Nat) (m : Bool) (h1 : 1 ≤ max) (h2 : max ≤ u16Max) (ops : List LOp)
    (hn : Avoids c02Trigger (LState.new ver max m) ops) :
    Along (fun _ g o _ g' => ∀ d d', C02.checks g d o g' d' = none) (LState.new ver max m) (Ghost.init ver max m) ops := by
  apply along_of_inv' B1 (fun l op => ¬ c02Trigger l op) B1.step _ _ _ _ _ (B1.new ver max m h1 h2) hn.not_not
  intro l g op o hi hok ho hi' d d'
  obtain ⟨v1, v2, v3⟩ := step_fields g o
  simp only [C02.checks, firstFail, chk, C02_noLoss_ok hi' o v1.symm v2.symm, C02_relHeld_ok hi'.b0 o v1.symm,
    C02_cleanExact_ok hi.b0 op o ho, if_true, List.findSome?_cons, List.findSome?_nil, id]

/-- the C10 monitor -/
def c10Trigger (l : LState) (op : LOp) : Prop :=
  unsafeConnack l op ∨ pubcompOnCollision l op ∨ unwrittenAnnouncement l op ∨ releaseWithFailureReason l op

theorem c10_checks_along (ver : Version) (max : Nat) (m : Bool) (h1 : 1 ≤ max) (h2 : max ≤ u16Max) (ops : List LOp)
    (hn : Avoids c10Trigger (LState.new ver max m) ops) :
    Along (fun _ g o _ g' => ∀ d d', C10.checks g d o g' d' = none) (LState.new ver max m) (Ghost.init ver max m) ops := by
  apply along_of_inv' B1 (fun l op => ¬ c10Trigger l op)
    (fun l g op hi hok => B1.step l g op hi (fun h => hok (h.elim Or.inl (fun h' => Or.inr (Or.inl h')))))
    _ _ _ _ _ (B1.new ver max m h1 h2) hn.not_not
  intro l g op o hi hok ho hi' d d'
  have hu := C10_unsolicited_ok hi op o ho (fun h => hok (Or.inr (Or.inl h.2)))
  simp only [C10.checks, firstFail, chk, C10_noPanic_ok hi.b0.inv0 op o ho, C10_order_ok hi.b0.evs op o ho,
    C10_ack_ok hi.b0.g0 op o ho, C10_relAnswered_ok hi.b0.g0 op o ho (fun h => hok (Or.inr (Or.inr (Or.inr h)))),
    hu.1, hu.2, C10_notify_ok hi.b0.evs op o ho (fun h => hok (Or.inr (Or.inr (Or.inl h)))), if_true,
    List.findSome?_cons, List.findSome?_nil, id]


/-! ### C11 -/

theorem core_inOrder_mono (g : Ghost) (s : State) (sop : SOp) (hp : cleanPanics s = false)
    (h : (g.core (sstepObs s sop)).inOrder = true) : g.inOrder = true := by
  cases sop with
  | out r =>
    rw [core_out] at h
    simp only [stepOut_inOrder] at h
    cases r <;> simp_all
  | inc p =>
    rw [core_inc] at h
    simp only [released_inOrder] at h
    cases p <;> simp_all
    all_goals (split at h <;> simp_all)
  | clean => rw [core_clean g s hp] at h; simp_all
  | drop => rw [core_drop] at h; exact h
  | inflight =>
    unfold Ghost.core at h
    rw [sstepObs_op] at h
    exact h

def c11Trigger (l : LState) (op : LOp) : Prop := subConsumesId l op ∨ dropsPending l op

/-- invariant behind C11: while the in-order hypothesis holds, the order invariant holds -/
structure B11 (l : LState) (g : Ghost) : Prop where
  v4 : l.st.ver = .v4
  b0 : B0 l g
  ord : g.inOrder = true → B1 l g ∧ OInv l g.unacked

theorem lstep_ver (l : LState) (op : LOp) : (lstep l op).1.st.ver = l.st.ver := by
  unfold lstep
  cases hl : lop? l op with
  | none => rfl
  | some sop =>
    simp only
    cases sop with
    | out r =>
      simp only [sstepSt, drainEvents]
      cases r with
      | publish p =>
        simp only [handleOutgoing, outgoingPublish, publishWithId, publishTail, nextPkidSt]
        (repeat' split) <;> simp_all [State.pushOut, State.pushEv]
      | pubrel i =>
        simp only [handleOutgoing, outgoingPubrel, pubrelWithId, nextPkidSt]
        (repeat' split) <;> simp_all [State.pushOut, State.pushEv]
      | subscribe n =>
        simp only [handleOutgoing, outgoingSubscribe, nextPkidSt]
        (repeat' split) <;> simp_all [State.pushOut, State.pushEv]
      | unsubscribe =>
        simp only [handleOutgoing, outgoingUnsubscribe, nextPkidSt]
        (repeat' split) <;> simp_all [State.pushOut, State.pushEv]
      | pingreq => exact (ping_frame l.st).2.2.2.2.2.1
      | disconnect => rfl
      | puback i => rfl
      | pubrec i => rfl
      | other => rfl
    | inc p => exact (incoming_frame l.st p).2.1
    | clean => simp only [sstepSt]; split <;> rfl
    | drop => rfl
    | inflight => rfl

theorem lstep_pubcomp_inOrder {l : LState} {g : Ghost} {op : LOp} {o : Obs} (ho : (lstep l op).2 = some o)
    (ht : pubcompOnCollision l op) : (g.core o).inOrder = false := by
  obtain ⟨sop, hl, rfl⟩ := lstep_obs ho
  cases op with
  | inc p =>
    simp only [lop?, Option.some.injEq] at hl
    subst hl
    cases p with
    | pubcomp i r => rw [core_inc]; simp [released_inOrder]
    | _ => exact absurd ht (by simp [pubcompOnCollision])
  | _ => exact absurd ht (by simp [pubcompOnCollision])

theorem unsafeConnack_v4 {l : LState} (hv : l.st.ver = .v4) (op : LOp) : ¬ unsafeConnack l op := by
  intro h
  cases op with
  | inc p =>
    cases p with
    | connack ok sp rm am =>
      cases ok <;> cases rm <;> simp [unsafeConnack, hv] at h
    | _ => simp [unsafeConnack] at h
  | _ => simp [unsafeConnack] at h

theorem B11.step (l : LState) (g : Ghost) (op : LOp) (h : B11 l g) (hn : ¬ c11Trigger l op) :
    match (lstep l op).2 with
    | none => B11 (lstep l op).1 g
    | some o => B11 (lstep l op).1 (g.step o) := by
  have hv' := (lstep_ver l op).trans h.v4
  have hb0 := h.b0.step l g op (unsafeConnack_v4 h.v4 op)
  cases ho : (lstep l op).2 with
  | none =>
    rw [ho] at hb0
    refine ⟨hv', hb0, ?_⟩
    intro hio
    obtain ⟨hb1, hoi⟩ := h.ord hio
    have h1 := hb1.step l g op (by
      intro h'
      rcases h' with h' | h'
      · exact unsafeConnack_v4 h.v4 op h'
      · -- a PUBCOMP always reaches the state machine
        cases op <;> simp [pubcompOnCollision] at h'
        rename_i p
        have : (lstep l (.inc p)).2 ≠ none := by simp [lstep, lop?]
        exact this ho)
    have h2 := hoi.lstep h.v4 hb1 op (fun h' => hn (Or.inl h')) (fun h' => hn (Or.inr h'))
    rw [ho] at h1 h2
    exact ⟨h1, h2⟩
  | some o =>
    rw [ho] at hb0
    refine ⟨hv', hb0, ?_⟩
    intro hio
    have hio' : (g.core o).inOrder = true := hio
    obtain ⟨sop, hl, hoe⟩ := lstep_obs ho
    have hio0 : g.inOrder = true := by
      rw [hoe] at hio'
      exact core_inOrder_mono g l.st sop h.b0.inv0.sinv.cleanPanics hio'
    obtain ⟨hb1, hoi⟩ := h.ord hio0
    have hnt : ¬ pubcompOnCollision l op := by
      intro ht
      have := lstep_pubcomp_inOrder (g := g) ho ht
      rw [this] at hio'; simp at hio'
    have h1 := hb1.step l g op (fun h' => h'.elim (unsafeConnack_v4 h.v4 op) hnt)
    have h2 := hoi.lstep h.v4 hb1 op (fun h' => hn (Or.inl h')) (fun h' => hn (Or.inr h'))
    rw [ho] at h1 h2
    exact ⟨h1, h2 hio'⟩

theorem B11.new (max : Nat) (m : Bool) (h1 : 1 ≤ max) (h2 : max ≤ u16Max) :
    B11 (LState.new .v4 max m) (Ghost.init .v4 max m) :=
  ⟨rfl, B0.new .v4 max m h1 h2, fun _ => ⟨B1.new .v4 max m h1 h2, OInv.new max m h1⟩⟩

/-- C11 clause 1 after a step: `clean()` of a clone lists the unacknowledged publishes in send order -/
theorem C11_order_ok {l' : LState} {g' : Ghost} (h : B11 l' g') (o : Obs) (hv : o.view = g'.pView) :
    C11.order g' o = true := by
  unfold C11.order
  by_cases hc : (decide (g'.ver = Version.v4) && g'.gated && g'.inOrder) = true
  · simp only [hc, Bool.not_true, Bool.false_or]
    simp only [Bool.and_eq_true] at hc
    obtain ⟨hb1, hoi⟩ := h.ord hc.2
    obtain ⟨k1, k2⟩ := hoi.order h.v4 hb1.b0.inv0.sinv hb1.g1.unacked
    rw [hv, h.b0.g0.view, pubTags_cleanRequests, pubIds_cleanRequests, k1, k2]
    cases o.op <;> simp
  · have : (decide (g'.ver = Version.v4) && g'.gated && g'.inOrder) = false := by simpa using hc
    simp [this]

/-- C11 clause 3: a retransmitted publish goes out with its original id and content -/
theorem C11_retransmit_ok {l : LState} (h0 : Inv0 l) (op : LOp) (o : Obs) (ho : (lstep l op).2 = some o) :
    C11.retransmitSame o = true := by
  obtain ⟨sop, hl, rfl⟩ := lstep_obs ho
  obtain ⟨s, pd⟩ := l
  unfold C11.retransmitSame
  rw [sstepObs_op]
  cases sop with
  | out r =>
    cases r with
    | publish p =>
      by_cases hp0 : p.pkid = 0
      · cases (sstepObs s (.out (.publish p))).outcome with
        | ok x =>
          cases x with
          | none => rfl
          | some pk => cases pk <;> simp [hp0]
        | err e => rfl
        | panic => rfl
      · -- a publish with an id reaches the state machine only as the head of `pending`
        cases op with
        | pend =>
          cases pd with
          | nil => simp [lop?] at hl
          | cons r rest =>
            simp only [lop?, Option.some.injEq, SOp.out.injEq] at hl
            subst hl
            obtain ⟨hq, hp1, hp2, ha, hslot, hinf, hne⟩ := h0.pend_publish
            have : (sstepObs s (.out (.publish p))).outcome = .ok (some (.publish p)) := by
              simp only [sstepObs, mkObs]
              rw [eff_publish_replay s p hq (by omega), eff_publishWithId_store s p ha hslot hinf]
            rw [this]; simp
        | user u =>
          simp only [lop?] at hl
          split at hl
          · simp only [Option.some.injEq, SOp.out.injEq] at hl
            cases u <;> simp [UserReq.toRequest] at hl
            subst hl; simp at hp0
          · simp at hl
        | ping => simp [lop?] at hl
        | inc q => simp [lop?] at hl
        | fail => simp [lop?] at hl
        | newSession => simp [lop?] at hl
    | _ => cases (sstepObs s (.out _)).outcome <;> rfl
  | inc p => cases (sstepObs s (.inc p)).outcome <;> rfl
  | clean => cases (sstepObs s .clean).outcome <;> rfl
  | drop => cases (sstepObs s .drop).outcome <;> rfl
  | inflight => cases (sstepObs s .inflight).outcome <;> rfl

theorem c11_checks_along (max : Nat) (m : Bool) (h1 : 1 ≤ max) (h2 : max ≤ u16Max) (ops : List LOp)
    (hn : Avoids c11Trigger (LState.new .v4 max m) ops) :
    Along (fun _ g o _ g' => ∀ d d', C11.checks g d o g' d' = none) (LState.new .v4 max m) (Ghost.init .v4 max m) ops := by
  apply along_of_inv' B11 (fun l op => ¬ c11Trigger l op) B11.step _ _ _ _ _ (B11.new max m h1 h2) hn.not_not
  intro l g op o hi hok ho hi' d d'
  obtain ⟨v1, v2, v3⟩ := step_fields g o
  simp only [C11.checks, firstFail, chk, C11_order_ok hi' o v1.symm, C11_retransmit_ok hi.b0.inv0 op o ho, if_true,
    List.findSome?_cons, List.findSome?_nil, id]


/-! ### decidability of the triggers (for the concrete witnesses and non-vacuity examples) -/

instance decColId (s : State) (i : Nat) : Decidable (∃ c, s.collision = some c ∧ c.pkid = i) :=
  match h : s.collision with
  | none => isFalse (by rintro ⟨c, hc, _⟩; cases hc)
  | some c =>
    if hci : c.pkid = i then isTrue ⟨c, rfl, hci⟩
    else isFalse (by rintro ⟨c', hc', hci'⟩; cases hc'; exact hci hci')

instance (l : LState) (op : LOp) : Decidable (unsafeConnack l op) := by
  unfold unsafeConnack
  cases op with
  | inc p =>
    cases p with
    | connack ok sp rm am => cases ok <;> cases rm <;> simp only <;> infer_instance
    | _ => simp only; infer_instance
  | _ => simp only; infer_instance

instance (l : LState) (op : LOp) : Decidable (pubcompOnCollision l op) := by
  unfold pubcompOnCollision
  cases op with
  | inc p => cases p <;> simp only <;> infer_instance
  | _ => simp only; infer_instance

instance (l : LState) (op : LOp) : Decidable (idReuseAwaitingComp l op) := by
  unfold idReuseAwaitingComp
  cases op with
  | user u => cases u <;> simp only <;> infer_instance
  | _ => simp only; infer_instance

instance (l : LState) (op : LOp) : Decidable (cleanWithCollision l op) := by
  unfold cleanWithCollision
  cases op <;> simp only <;> infer_instance

instance (l : LState) (op : LOp) : Decidable (failedAckOnCollision l op) := by
  unfold failedAckOnCollision
  cases op with
  | inc p => cases p <;> simp only <;> infer_instance
  | _ => simp only; infer_instance

instance (l : LState) (op : LOp) : Decidable (failedRecOrComp l op) := by
  unfold failedRecOrComp
  cases op with
  | inc p => cases p <;> simp only <;> infer_instance
  | _ => simp only; infer_instance

instance (s : State) (i r : Nat) : Decidable (pubcompDropsCollision s i r) :=
  match h : s.collision with
  | none => isFalse (by rintro ⟨c, hc, _⟩; rw [h] at hc; cases hc)
  | some c =>
    if hci : c.pkid = i ∧ (relContains s i = false ∨ r ≠ 0) then isTrue ⟨c, h, hci.1, hci.2⟩
    else isFalse (by rintro ⟨c', hc', h1, h2⟩; rw [h] at hc'; cases hc'; exact hci ⟨h1, h2⟩)

instance (s : State) (p : InPub) : Decidable (unknownAlias s p) :=
  match h : p.alias with
  | none => isFalse (by rintro ⟨_, a, ha, _⟩; rw [h] at ha; cases ha)
  | some a =>
    if hc : s.ver = .v5 ∧ p.topicEmpty = true ∧ s.aliases.contains a = false then isTrue ⟨hc.1, a, h, hc.2.1, hc.2.2⟩
    else isFalse (by rintro ⟨hv, a', ha', h1, h2⟩; rw [h] at ha'; cases ha'; exact hc ⟨hv, h1, h2⟩)

instance (s : State) (p : Incoming) : Decidable (announcesUnwritten s p) := by
  unfold announcesUnwritten
  cases p <;> simp only <;> infer_instance

instance (l : LState) (op : LOp) : Decidable (unwrittenAnnouncement l op) := by
  unfold unwrittenAnnouncement
  cases op <;> simp only <;> infer_instance

instance (l : LState) (op : LOp) : Decidable (releaseWithFailureReason l op) := by
  unfold releaseWithFailureReason
  cases op with
  | inc p => cases p <;> simp only <;> infer_instance
  | _ => simp only; infer_instance

instance (l : LState) (op : LOp) : Decidable (subConsumesId l op) := by
  unfold subConsumesId
  cases op with
  | user u => cases u <;> simp only <;> infer_instance
  | _ => simp only; infer_instance

instance (l : LState) (op : LOp) : Decidable (dropsPending l op) := by
  unfold dropsPending
  cases op <;> simp only <;> infer_instance

instance (l : LState) (op : LOp) : Decidable (c07Trigger l op) := by unfold c07Trigger; infer_instance
instance (l : LState) (op : LOp) : Decidable (c02Trigger l op) := by unfold c02Trigger; infer_instance
instance (l : LState) (op : LOp) : Decidable (c10Trigger l op) := by unfold c10Trigger; infer_instance
instance (l : LState) (op : LOp) : Decidable (c11Trigger l op) := by unfold c11Trigger; infer_instance

instance decAvoids (trig : LState → LOp → Prop) [∀ l op, Decidable (trig l op)] :
    ∀ (l : LState) (ops : List LOp), Decidable (Avoids trig l ops)
  | _, [] => isTrue trivial
  | l, op :: ops =>
    have := decAvoids trig (lstep l op).1 ops
    by unfold Avoids; infer_instance

/-- Boolean form of `Along` for predicates that are Boolean -/
def alongB (P : Ghost → Obs → Ghost → Bool) : LState → Ghost → List LOp → Bool
  | _, _, [] => true
  | l, g, op :: ops =>
    match (lstep l op).2 with
    | none => alongB P (lstep l op).1 g ops
    | some o => P g o (g.step o) && alongB P (lstep l op).1 (g.step o) ops

theorem along_iff_alongB (P : Ghost → Obs → Ghost → Bool) (l : LState) (g : Ghost) (ops : List LOp) :
    Along (fun _ g o _ g' => P g o g' = true) l g ops ↔ alongB P l g ops = true := by
  induction ops generalizing l g with
  | nil => simp [Along, alongB]
  | cons op ops ih =>
    simp only [Along, alongB]
    cases (lstep l op).2 with
    | none => exact ih _ _
    | some o => simp only [Bool.and_eq_true]; rw [ih]

/-- every v4 run avoids `unsafeConnack` -/
theorem avoids_unsafe_v4 (l : LState) (hv : l.st.ver = .v4) (ops : List LOp) : Avoids unsafeConnack l ops := by
  induction ops generalizing l with
  | nil => trivial
  | cons op ops ih => exact ⟨unsafeConnack_v4 hv op, ih _ ((lstep_ver l op).trans hv)⟩

theorem avoids_v5only_v4 (trig : LState → LOp → Prop) (h5 : ∀ l op, trig l op → l.st.ver = .v5)
    (l : LState) (hv : l.st.ver = .v4) (ops : List LOp) : Avoids trig l ops := by
  induction ops generalizing l with
  | nil => trivial
  | cons op ops ih =>
    refine ⟨fun h => ?_, ih _ ((lstep_ver l op).trans hv)⟩
    have := h5 l op h; rw [hv] at this; cases this

instance (l : LState) : Decidable (Inv3 l) := by unfold Inv3; infer_instance


theorem handleOutgoing_maxInflight (s : State) (r : Request) : (handleOutgoing s r).1.maxInflight = s.maxInflight := by
  cases r with
  | publish p =>
    simp only [handleOutgoing, outgoingPublish, publishWithId, publishTail, nextPkidSt]
    (repeat' split) <;> simp_all [State.pushOut, State.pushEv]
  | pubrel i =>
    simp only [handleOutgoing, outgoingPubrel, pubrelWithId, nextPkidSt]
    (repeat' split) <;> simp_all [State.pushOut, State.pushEv]
  | subscribe n =>
    simp only [handleOutgoing, outgoingSubscribe, nextPkidSt]
    (repeat' split) <;> simp_all [State.pushOut, State.pushEv]
  | unsubscribe =>
    simp only [handleOutgoing, outgoingUnsubscribe, nextPkidSt]
    (repeat' split) <;> simp_all [State.pushOut, State.pushEv]
  | pingreq => exact (ping_frame s).2.2.2.1
  | disconnect => rfl
  | puback i => rfl
  | pubrec i => rfl
  | other => rfl

/-- the MQTT 3.1.1 client never changes its limit -/
theorem lrun_maxInflight_v4 (l : LState) (hv : l.st.ver = .v4) (ops : List LOp) :
    (lrun l ops).st.maxInflight = l.st.maxInflight ∧ (lrun l ops).st.ver = .v4 := by
  induction ops generalizing l with
  | nil => exact ⟨rfl, hv⟩
  | cons op ops ih =>
    simp only [lrun, List.foldl_cons]
    have hv' := (lstep_ver l op).trans hv
    have hm : (lstep l op).1.st.maxInflight = l.st.maxInflight := by
      unfold lstep
      cases hl : lop? l op with
      | none => rfl
      | some sop =>
        simp only
        cases sop with
        | out r => exact handleOutgoing_maxInflight l.st r
        | inc p => exact maxInflight_v4 l.st hv p
        | clean => simp only [sstepSt]; split <;> rfl
        | drop => rfl
        | inflight => rfl
    have := ih (lstep l op).1 hv'
    exact ⟨this.1.trans hm, this.2⟩

end Client
