/-
Table lemmas and the structural invariant `SInv` of the client state machine: holds after ANY
sequence of requests, incoming packets and `clean`s (no assumption on the caller), and makes
every incoming packet panic-free.
-/
import Model.Client.Spec
namespace Client
open Client.Spec

/-! ### occupancy of the tables under `set` -/

theorem occ_set_some (l : List (Option Pub)) (i : Nat) (p : Pub) (h : l[i]? = some none) :
    occ (l.set i (some p)) = occ l + 1 := by
  have hi : i < l.length := by
    rcases Nat.lt_or_ge i l.length with h' | h'
    · exact h'
    · simp [List.getElem?_eq_none h'] at h
  have : l[i] = none := by simpa [List.getElem?_eq_getElem hi] using h
  simp [occ, List.countP_set hi, this]

theorem occ_set_none (l : List (Option Pub)) (i : Nat) (p : Pub) (h : l[i]? = some (some p)) :
    occ (l.set i none) + 1 = occ l := by
  have hi : i < l.length := by
    rcases Nat.lt_or_ge i l.length with h' | h'
    · exact h'
    · simp [List.getElem?_eq_none h'] at h
  have h2 : l[i] = some p := by simpa [List.getElem?_eq_getElem hi] using h
  have hpos : 0 < List.countP Option.isSome l := by
    apply List.countP_pos_iff.mpr
    exact ⟨some p, by rw [← h2]; exact List.getElem_mem hi, rfl⟩
  simp [occ, List.countP_set hi, h2]
  omega

theorem occ_set_same (l : List (Option Pub)) (i : Nat) (p q : Pub) (h : l[i]? = some (some p)) :
    occ (l.set i (some q)) = occ l := by
  have hi : i < l.length := by
    rcases Nat.lt_or_ge i l.length with h' | h'
    · exact h'
    · simp [List.getElem?_eq_none h'] at h
  have h2 : l[i] = some p := by simpa [List.getElem?_eq_getElem hi] using h
  have hpos : 0 < List.countP Option.isSome l := by
    apply List.countP_pos_iff.mpr
    exact ⟨some p, by rw [← h2]; exact List.getElem_mem hi, rfl⟩
  simp [occ, List.countP_set hi, h2]
  omega

theorem relCount_set_true (l : List Bool) (i : Nat) (h : l[i]? = some false) :
    relCount (l.set i true) = relCount l + 1 := by
  have hi : i < l.length := by
    rcases Nat.lt_or_ge i l.length with h' | h'
    · exact h'
    · simp [List.getElem?_eq_none h'] at h
  have : l[i] = false := by simpa [List.getElem?_eq_getElem hi] using h
  simp [relCount, List.countP_set hi, this]

theorem relCount_set_true_same (l : List Bool) (i : Nat) (h : l[i]? = some true) :
    relCount (l.set i true) = relCount l := by
  have hi : i < l.length := by
    rcases Nat.lt_or_ge i l.length with h' | h'
    · exact h'
    · simp [List.getElem?_eq_none h'] at h
  have h2 : l[i] = true := by simpa [List.getElem?_eq_getElem hi] using h
  have hpos : 0 < List.countP id l := by
    apply List.countP_pos_iff.mpr
    exact ⟨true, by rw [← h2]; exact List.getElem_mem hi, rfl⟩
  simp [relCount, List.countP_set hi, h2]
  omega

theorem relCount_set_false (l : List Bool) (i : Nat) (h : l[i]? = some true) :
    relCount (l.set i false) + 1 = relCount l := by
  have hi : i < l.length := by
    rcases Nat.lt_or_ge i l.length with h' | h'
    · exact h'
    · simp [List.getElem?_eq_none h'] at h
  have h2 : l[i] = true := by simpa [List.getElem?_eq_getElem hi] using h
  have hpos : 0 < List.countP id l := by
    apply List.countP_pos_iff.mpr
    exact ⟨true, by rw [← h2]; exact List.getElem_mem hi, rfl⟩
  simp [relCount, List.countP_set hi, h2]
  omega

theorem occ_map_none (l : List (Option Pub)) : occ (l.map (fun _ => none)) = 0 := by
  induction l with
  | nil => rfl
  | cons a l ih => simp [occ]

theorem relCount_map_false (l : List Bool) : relCount (l.map (fun _ => false)) = 0 := by
  induction l with
  | nil => rfl
  | cons a l ih => simp [relCount]

theorem occ_replicate (n : Nat) : occ (List.replicate n none) = 0 := by
  simp [occ, List.countP_replicate]

theorem relCount_replicate (n : Nat) : relCount (List.replicate n false) = 0 := by
  simp [relCount, List.countP_replicate]

theorem relContains_eq (s : State) (i : Nat) : relContains s i = true ↔ s.outgoingRel[i]? = some true := by
  unfold relContains
  cases h : s.outgoingRel[i]? with
  | none => simp
  | some b => simp

theorem relContains_false_of_lt (s : State) (i : Nat) (hi : i < s.outgoingRel.length)
    (h : relContains s i = false) : s.outgoingRel[i]? = some false := by
  unfold relContains at h
  rw [List.getElem?_eq_getElem hi] at h ⊢
  simpa using h

end Client
